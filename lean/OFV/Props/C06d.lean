/-
  C06 (part d) — the sizes of the hand model are the sizes the Go source computes NOW (tie T1, widened).

  "The size any value reports for itself equals the number of bytes its encoding produces."

  C06 / C06b / C06c prove `size = bytes` about the hand-written model (`K.lenM`, `K.marshalM`). This file closes the
  other half for the fixed-size kinds and the kinds that report a stored length: for every value of the kind, the
  model's `K.lenM` returns exactly what the definition REGENERATED from the current Go `Len()` body returns
  (`OFV.Gen.<pkg>.<K>.Len`, translated statement by statement by ofvextract on every run). A source change to a Go
  `Len()` changes the regenerated definition and breaks the theorem here, without waiting for the differential run.

  * constant kinds: `K.lenM v = .ok (Gen.….K.Len g, v)` for EVERY model value v and EVERY projection g;
  * kinds that report the stored header length (Nicira actions), that round it and store it back (`NXActionCTNAT`), or
    compute it from header fields (`NXLearnSpec`, `ByteArrayField`): the statement is about every value whose
    (pointer-embedded) headers are present — the regenerated projection takes a pointer on the way to be non-nil; on a
    nil header the model says `.panic` (C06b) — and g is the projection carrying the same field values;
  * the five learn-spec header constructors build the value the regenerated constructor describes.
-/
import OFV.Model.All
import OFV.Gen.Pure
namespace OFV.Props.C06d
open OFV OFV.Go OFV.Model

/-! ### kinds whose Len() is a constant (possibly summed from an embedded header's Len()) -/

/-- ActionHeader: the model reports what the regenerated `ActionHeader.Len` returns, for every value -/
theorem actionHeader_len_gen (v : V) (g : Gen.openflow13.ActionHeader) :
    ActionHeader.lenM v = .ok (Gen.openflow13.ActionHeader.Len g, v) := rfl

/-- ActionOutput: the model reports what the regenerated `ActionOutput.Len` returns, for every value -/
theorem actionOutput_len_gen (v : V) (g : Gen.openflow13.ActionOutput) :
    ActionOutput.lenM v = .ok (Gen.openflow13.ActionOutput.Len g, v) := rfl

/-- ActionSetqueue: the model reports what the regenerated `ActionSetqueue.Len` returns, for every value -/
theorem actionSetqueue_len_gen (v : V) (g : Gen.openflow13.ActionSetqueue) :
    ActionSetqueue.lenM v = .ok (Gen.openflow13.ActionSetqueue.Len g, v) := rfl

/-- ActionGroup: the model reports what the regenerated `ActionGroup.Len` returns, for every value -/
theorem actionGroup_len_gen (v : V) (g : Gen.openflow13.ActionGroup) :
    ActionGroup.lenM v = .ok (Gen.openflow13.ActionGroup.Len g, v) := rfl

/-- ActionMplsTtl: the model reports what the regenerated `ActionMplsTtl.Len` returns, for every value -/
theorem actionMplsTtl_len_gen (v : V) (g : Gen.openflow13.ActionMplsTtl) :
    ActionMplsTtl.lenM v = .ok (Gen.openflow13.ActionMplsTtl.Len g, v) := rfl

/-- ActionDecNwTtl: the model reports what the regenerated `ActionDecNwTtl.Len` returns, for every value -/
theorem actionDecNwTtl_len_gen (v : V) (g : Gen.openflow13.ActionDecNwTtl) :
    ActionDecNwTtl.lenM v = .ok (Gen.openflow13.ActionDecNwTtl.Len g, v) := rfl

/-- ActionNwTtl: the model reports what the regenerated `ActionNwTtl.Len` returns, for every value -/
theorem actionNwTtl_len_gen (v : V) (g : Gen.openflow13.ActionNwTtl) :
    ActionNwTtl.lenM v = .ok (Gen.openflow13.ActionNwTtl.Len g, v) := rfl

/-- ActionPush: the model reports what the regenerated `ActionPush.Len` returns, for every value -/
theorem actionPush_len_gen (v : V) (g : Gen.openflow13.ActionPush) :
    ActionPush.lenM v = .ok (Gen.openflow13.ActionPush.Len g, v) := rfl

/-- ActionPopVlan: the model reports what the regenerated `ActionPopVlan.Len` returns, for every value -/
theorem actionPopVlan_len_gen (v : V) (g : Gen.openflow13.ActionPopVlan) :
    ActionPopVlan.lenM v = .ok (Gen.openflow13.ActionPopVlan.Len g, v) := rfl

/-- ActionPopMpls: the model reports what the regenerated `ActionPopMpls.Len` returns, for every value -/
theorem actionPopMpls_len_gen (v : V) (g : Gen.openflow13.ActionPopMpls) :
    ActionPopMpls.lenM v = .ok (Gen.openflow13.ActionPopMpls.Len g, v) := rfl

/-- BundleControl: the model reports what the regenerated `BundleControl.Len` returns, for every value -/
theorem bundleControl_len_gen (v : V) (g : Gen.openflow13.BundleControl) :
    BundleControl.lenM v = .ok (Gen.openflow13.BundleControl.Len g, v) := rfl

/-- InstrHeader: the model reports what the regenerated `InstrHeader.Len` returns, for every value -/
theorem instrHeader_len_gen (v : V) (g : Gen.openflow13.InstrHeader) :
    InstrHeader.lenM v = .ok (Gen.openflow13.InstrHeader.Len g, v) := rfl

/-- InstrGotoTable: the model reports what the regenerated `InstrGotoTable.Len` returns, for every value -/
theorem instrGotoTable_len_gen (v : V) (g : Gen.openflow13.InstrGotoTable) :
    InstrGotoTable.lenM v = .ok (Gen.openflow13.InstrGotoTable.Len g, v) := rfl

/-- InstrWriteMetadata: the model reports what the regenerated `InstrWriteMetadata.Len` returns, for every value -/
theorem instrWriteMetadata_len_gen (v : V) (g : Gen.openflow13.InstrWriteMetadata) :
    InstrWriteMetadata.lenM v = .ok (Gen.openflow13.InstrWriteMetadata.Len g, v) := rfl

/-- InstrMeter: the model reports what the regenerated `InstrMeter.Len` returns, for every value -/
theorem instrMeter_len_gen (v : V) (g : Gen.openflow13.InstrMeter) :
    InstrMeter.lenM v = .ok (Gen.openflow13.InstrMeter.Len g, v) := rfl

/-- InPortField: the model reports what the regenerated `InPortField.Len` returns, for every value -/
theorem inPortField_len_gen (v : V) (g : Gen.openflow13.InPortField) :
    InPortField.lenM v = .ok (Gen.openflow13.InPortField.Len g, v) := rfl

/-- EthDstField: the model reports what the regenerated `EthDstField.Len` returns, for every value -/
theorem ethDstField_len_gen (v : V) (g : Gen.openflow13.EthDstField) :
    EthDstField.lenM v = .ok (Gen.openflow13.EthDstField.Len g, v) := rfl

/-- EthSrcField: the model reports what the regenerated `EthSrcField.Len` returns, for every value -/
theorem ethSrcField_len_gen (v : V) (g : Gen.openflow13.EthSrcField) :
    EthSrcField.lenM v = .ok (Gen.openflow13.EthSrcField.Len g, v) := rfl

/-- EthTypeField: the model reports what the regenerated `EthTypeField.Len` returns, for every value -/
theorem ethTypeField_len_gen (v : V) (g : Gen.openflow13.EthTypeField) :
    EthTypeField.lenM v = .ok (Gen.openflow13.EthTypeField.Len g, v) := rfl

/-- VlanIdField: the model reports what the regenerated `VlanIdField.Len` returns, for every value -/
theorem vlanIdField_len_gen (v : V) (g : Gen.openflow13.VlanIdField) :
    VlanIdField.lenM v = .ok (Gen.openflow13.VlanIdField.Len g, v) := rfl

/-- MplsLabelField: the model reports what the regenerated `MplsLabelField.Len` returns, for every value -/
theorem mplsLabelField_len_gen (v : V) (g : Gen.openflow13.MplsLabelField) :
    MplsLabelField.lenM v = .ok (Gen.openflow13.MplsLabelField.Len g, v) := rfl

/-- MplsBosField: the model reports what the regenerated `MplsBosField.Len` returns, for every value -/
theorem mplsBosField_len_gen (v : V) (g : Gen.openflow13.MplsBosField) :
    MplsBosField.lenM v = .ok (Gen.openflow13.MplsBosField.Len g, v) := rfl

/-- Ipv4SrcField: the model reports what the regenerated `Ipv4SrcField.Len` returns, for every value -/
theorem ipv4SrcField_len_gen (v : V) (g : Gen.openflow13.Ipv4SrcField) :
    Ipv4SrcField.lenM v = .ok (Gen.openflow13.Ipv4SrcField.Len g, v) := rfl

/-- Ipv4DstField: the model reports what the regenerated `Ipv4DstField.Len` returns, for every value -/
theorem ipv4DstField_len_gen (v : V) (g : Gen.openflow13.Ipv4DstField) :
    Ipv4DstField.lenM v = .ok (Gen.openflow13.Ipv4DstField.Len g, v) := rfl

/-- Ipv6SrcField: the model reports what the regenerated `Ipv6SrcField.Len` returns, for every value -/
theorem ipv6SrcField_len_gen (v : V) (g : Gen.openflow13.Ipv6SrcField) :
    Ipv6SrcField.lenM v = .ok (Gen.openflow13.Ipv6SrcField.Len g, v) := rfl

/-- Ipv6DstField: the model reports what the regenerated `Ipv6DstField.Len` returns, for every value -/
theorem ipv6DstField_len_gen (v : V) (g : Gen.openflow13.Ipv6DstField) :
    Ipv6DstField.lenM v = .ok (Gen.openflow13.Ipv6DstField.Len g, v) := rfl

/-- IPv6FlowLabelField: the model reports what the regenerated `IPv6FlowLabelField.Len` returns, for every value -/
theorem iPv6FlowLabelField_len_gen (v : V) (g : Gen.openflow13.IPv6FlowLabelField) :
    IPv6FlowLabelField.lenM v = .ok (Gen.openflow13.IPv6FlowLabelField.Len g, v) := rfl

/-- IpProtoField: the model reports what the regenerated `IpProtoField.Len` returns, for every value -/
theorem ipProtoField_len_gen (v : V) (g : Gen.openflow13.IpProtoField) :
    IpProtoField.lenM v = .ok (Gen.openflow13.IpProtoField.Len g, v) := rfl

/-- IpDscpField: the model reports what the regenerated `IpDscpField.Len` returns, for every value -/
theorem ipDscpField_len_gen (v : V) (g : Gen.openflow13.IpDscpField) :
    IpDscpField.lenM v = .ok (Gen.openflow13.IpDscpField.Len g, v) := rfl

/-- TunnelIdField: the model reports what the regenerated `TunnelIdField.Len` returns, for every value -/
theorem tunnelIdField_len_gen (v : V) (g : Gen.openflow13.TunnelIdField) :
    TunnelIdField.lenM v = .ok (Gen.openflow13.TunnelIdField.Len g, v) := rfl

/-- MetadataField: the model reports what the regenerated `MetadataField.Len` returns, for every value -/
theorem metadataField_len_gen (v : V) (g : Gen.openflow13.MetadataField) :
    MetadataField.lenM v = .ok (Gen.openflow13.MetadataField.Len g, v) := rfl

/-- PortField: the model reports what the regenerated `PortField.Len` returns, for every value -/
theorem portField_len_gen (v : V) (g : Gen.openflow13.PortField) :
    PortField.lenM v = .ok (Gen.openflow13.PortField.Len g, v) := rfl

/-- TcpFlagsField: the model reports what the regenerated `TcpFlagsField.Len` returns, for every value -/
theorem tcpFlagsField_len_gen (v : V) (g : Gen.openflow13.TcpFlagsField) :
    TcpFlagsField.lenM v = .ok (Gen.openflow13.TcpFlagsField.Len g, v) := rfl

/-- ArpOperField: the model reports what the regenerated `ArpOperField.Len` returns, for every value -/
theorem arpOperField_len_gen (v : V) (g : Gen.openflow13.ArpOperField) :
    ArpOperField.lenM v = .ok (Gen.openflow13.ArpOperField.Len g, v) := rfl

/-- TunnelIpv4SrcField: the model reports what the regenerated `TunnelIpv4SrcField.Len` returns, for every value -/
theorem tunnelIpv4SrcField_len_gen (v : V) (g : Gen.openflow13.TunnelIpv4SrcField) :
    TunnelIpv4SrcField.lenM v = .ok (Gen.openflow13.TunnelIpv4SrcField.Len g, v) := rfl

/-- TunnelIpv4DstField: the model reports what the regenerated `TunnelIpv4DstField.Len` returns, for every value -/
theorem tunnelIpv4DstField_len_gen (v : V) (g : Gen.openflow13.TunnelIpv4DstField) :
    TunnelIpv4DstField.lenM v = .ok (Gen.openflow13.TunnelIpv4DstField.Len g, v) := rfl

/-- ArpXHaField: the model reports what the regenerated `ArpXHaField.Len` returns, for every value -/
theorem arpXHaField_len_gen (v : V) (g : Gen.openflow13.ArpXHaField) :
    ArpXHaField.lenM v = .ok (Gen.openflow13.ArpXHaField.Len g, v) := rfl

/-- ArpXPaField: the model reports what the regenerated `ArpXPaField.Len` returns, for every value -/
theorem arpXPaField_len_gen (v : V) (g : Gen.openflow13.ArpXPaField) :
    ArpXPaField.lenM v = .ok (Gen.openflow13.ArpXPaField.Len g, v) := rfl

/-- ActsetOutputField: the model reports what the regenerated `ActsetOutputField.Len` returns, for every value -/
theorem actsetOutputField_len_gen (v : V) (g : Gen.openflow13.ActsetOutputField) :
    ActsetOutputField.lenM v = .ok (Gen.openflow13.ActsetOutputField.Len g, v) := rfl

/-- IcmpTypeField: the model reports what the regenerated `IcmpTypeField.Len` returns, for every value -/
theorem icmpTypeField_len_gen (v : V) (g : Gen.openflow13.IcmpTypeField) :
    IcmpTypeField.lenM v = .ok (Gen.openflow13.IcmpTypeField.Len g, v) := rfl

/-- IcmpCodeField: the model reports what the regenerated `IcmpCodeField.Len` returns, for every value -/
theorem icmpCodeField_len_gen (v : V) (g : Gen.openflow13.IcmpCodeField) :
    IcmpCodeField.lenM v = .ok (Gen.openflow13.IcmpCodeField.Len g, v) := rfl

/-- DescStats: the model reports what the regenerated `DescStats.Len` returns, for every value -/
theorem descStats_len_gen (v : V) (g : Gen.openflow13.DescStats) :
    DescStats.lenM v = .ok (Gen.openflow13.DescStats.Len g, v) := rfl

/-- AggregateStats: the model reports what the regenerated `AggregateStats.Len` returns, for every value -/
theorem aggregateStats_len_gen (v : V) (g : Gen.openflow13.AggregateStats) :
    AggregateStats.lenM v = .ok (Gen.openflow13.AggregateStats.Len g, v) := rfl

/-- TableStats: the model reports what the regenerated `TableStats.Len` returns, for every value -/
theorem tableStats_len_gen (v : V) (g : Gen.openflow13.TableStats) :
    TableStats.lenM v = .ok (Gen.openflow13.TableStats.Len g, v) := rfl

/-- PortStatsRequest: the model reports what the regenerated `PortStatsRequest.Len` returns, for every value -/
theorem portStatsRequest_len_gen (v : V) (g : Gen.openflow13.PortStatsRequest) :
    PortStatsRequest.lenM v = .ok (Gen.openflow13.PortStatsRequest.Len g, v) := rfl

/-- PortStats: the model reports what the regenerated `PortStats.Len` returns, for every value -/
theorem portStats_len_gen (v : V) (g : Gen.openflow13.PortStats) :
    PortStats.lenM v = .ok (Gen.openflow13.PortStats.Len g, v) := rfl

/-- QueueStatsRequest: the model reports what the regenerated `QueueStatsRequest.Len` returns, for every value -/
theorem queueStatsRequest_len_gen (v : V) (g : Gen.openflow13.QueueStatsRequest) :
    QueueStatsRequest.lenM v = .ok (Gen.openflow13.QueueStatsRequest.Len g, v) := rfl

/-- QueueStats: the model reports what the regenerated `QueueStats.Len` returns, for every value -/
theorem queueStats_len_gen (v : V) (g : Gen.openflow13.QueueStats) :
    QueueStats.lenM v = .ok (Gen.openflow13.QueueStats.Len g, v) := rfl

/-- NXActionHeader: the model reports what the regenerated `NXActionHeader.Len` returns, for every value -/
theorem nXActionHeader_len_gen (v : V) (g : Gen.openflow13.NXActionHeader) :
    NXActionHeader.lenM v = .ok (Gen.openflow13.NXActionHeader.Len g, v) := rfl

/-- NXLearnSpecField: the model reports what the regenerated `NXLearnSpecField.Len` returns, for every value -/
theorem nXLearnSpecField_len_gen (v : V) (g : Gen.openflow13.NXLearnSpecField) :
    NXLearnSpecField.lenM v = .ok (Gen.openflow13.NXLearnSpecField.Len g, v) := rfl

/-- NXActionController: the model reports what the regenerated `NXActionController.Len` returns, for every value -/
theorem nXActionController_len_gen (v : V) (g : Gen.openflow13.NXActionController) :
    NXActionController.lenM v = .ok (Gen.openflow13.NXActionController.Len g, v) := rfl

/-- Uint16Message: the model reports what the regenerated `Uint16Message.Len` returns, for every value -/
theorem uint16Message_len_gen (v : V) (g : Gen.openflow13.Uint16Message) :
    Uint16Message.lenM v = .ok (Gen.openflow13.Uint16Message.Len g, v) := rfl

/-- Uint32Message: the model reports what the regenerated `Uint32Message.Len` returns, for every value -/
theorem uint32Message_len_gen (v : V) (g : Gen.openflow13.Uint32Message) :
    Uint32Message.lenM v = .ok (Gen.openflow13.Uint32Message.Len g, v) := rfl

/-- CTLabel: the model reports what the regenerated `CTLabel.Len` returns, for every value -/
theorem cTLabel_len_gen (v : V) (g : Gen.openflow13.CTLabel) :
    CTLabel.lenM v = .ok (Gen.openflow13.CTLabel.Len g, v) := rfl

/-- ControllerID: the model reports what the regenerated `ControllerID.Len` returns, for every value -/
theorem controllerID_len_gen (v : V) (g : Gen.openflow13.ControllerID) :
    ControllerID.lenM v = .ok (Gen.openflow13.ControllerID.Len g, v) := rfl

/-- TLVTableMap: the model reports what the regenerated `TLVTableMap.Len` returns, for every value -/
theorem tLVTableMap_len_gen (v : V) (g : Gen.openflow13.TLVTableMap) :
    TLVTableMap.lenM v = .ok (Gen.openflow13.TLVTableMap.Len g, v) := rfl

/-- SwitchConfig: the model reports what the regenerated `SwitchConfig.Len` returns, for every value -/
theorem switchConfig_len_gen (v : V) (g : Gen.openflow13.SwitchConfig) :
    SwitchConfig.lenM v = .ok (Gen.openflow13.SwitchConfig.Len g, v) := rfl

/-- common.Header: 8 bytes, as regenerated -/
theorem header_len_gen (v : V) (g : Gen.common.Header) :
    Header.lenM v = .ok (Gen.common.Header.Len g, v) := rfl

/-- common.HelloElemHeader: 4 bytes, as regenerated -/
theorem helloElemHeader_len_gen (v : V) (g : Gen.common.HelloElemHeader) :
    HelloElemHeader.lenM v = .ok (Gen.common.HelloElemHeader.Len g, v) := rfl

/-- protocol.VLAN: 4 bytes, as regenerated -/
theorem vlan_len_gen (v : V) (g : Gen.protocol.VLAN) :
    PVLAN.lenM v = .ok (Gen.protocol.VLAN.Len g, v) := rfl

/-! ### Nicira actions that report the stored header length -/

/-- NXActionConjunction: Len() is the Length stored in the embedded action header — model and regenerated body agree on every value
    whose headers are present, whatever the other fields hold -/
theorem nXActionConjunction_len_gen (ty ln vendor sub : Nat) (r : List V) (g : Gen.openflow13.NXActionConjunction)
    (hg : g.NXActionHeader.ActionHeader.Length = n16 ln) :
    NXActionConjunction.lenM (.obj "NXActionConjunction" (.obj "NXActionHeader" [.obj "ActionHeader" [.num ty, .num ln], .num vendor, .num sub] :: r))
      = .ok (Gen.openflow13.NXActionConjunction.Len g,
          .obj "NXActionConjunction" (.obj "NXActionHeader" [.obj "ActionHeader" [.num ty, .num ln], .num vendor, .num sub] :: r)) := by
  unfold Gen.openflow13.NXActionConjunction.Len
  rw [hg]
  rfl

/-- NXActionRegLoad: Len() is the Length stored in the embedded action header — model and regenerated body agree on every value
    whose headers are present, whatever the other fields hold -/
theorem nXActionRegLoad_len_gen (ty ln vendor sub : Nat) (r : List V) (g : Gen.openflow13.NXActionRegLoad)
    (hg : g.NXActionHeader.ActionHeader.Length = n16 ln) :
    NXActionRegLoad.lenM (.obj "NXActionRegLoad" (.obj "NXActionHeader" [.obj "ActionHeader" [.num ty, .num ln], .num vendor, .num sub] :: r))
      = .ok (Gen.openflow13.NXActionRegLoad.Len g,
          .obj "NXActionRegLoad" (.obj "NXActionHeader" [.obj "ActionHeader" [.num ty, .num ln], .num vendor, .num sub] :: r)) := by
  unfold Gen.openflow13.NXActionRegLoad.Len
  rw [hg]
  rfl

/-- NXActionRegMove: Len() is the Length stored in the embedded action header — model and regenerated body agree on every value
    whose headers are present, whatever the other fields hold -/
theorem nXActionRegMove_len_gen (ty ln vendor sub : Nat) (r : List V) (g : Gen.openflow13.NXActionRegMove)
    (hg : g.NXActionHeader.ActionHeader.Length = n16 ln) :
    NXActionRegMove.lenM (.obj "NXActionRegMove" (.obj "NXActionHeader" [.obj "ActionHeader" [.num ty, .num ln], .num vendor, .num sub] :: r))
      = .ok (Gen.openflow13.NXActionRegMove.Len g,
          .obj "NXActionRegMove" (.obj "NXActionHeader" [.obj "ActionHeader" [.num ty, .num ln], .num vendor, .num sub] :: r)) := by
  unfold Gen.openflow13.NXActionRegMove.Len
  rw [hg]
  rfl

/-- NXActionResubmit: Len() is the Length stored in the embedded action header — model and regenerated body agree on every value
    whose headers are present, whatever the other fields hold -/
theorem nXActionResubmit_len_gen (ty ln vendor sub : Nat) (r : List V) (g : Gen.openflow13.NXActionResubmit)
    (hg : g.NXActionHeader.ActionHeader.Length = n16 ln) :
    NXActionResubmit.lenM (.obj "NXActionResubmit" (.obj "NXActionHeader" [.obj "ActionHeader" [.num ty, .num ln], .num vendor, .num sub] :: r))
      = .ok (Gen.openflow13.NXActionResubmit.Len g,
          .obj "NXActionResubmit" (.obj "NXActionHeader" [.obj "ActionHeader" [.num ty, .num ln], .num vendor, .num sub] :: r)) := by
  unfold Gen.openflow13.NXActionResubmit.Len
  rw [hg]
  rfl

/-- NXActionResubmitTable: Len() is the Length stored in the embedded action header — model and regenerated body agree on every value
    whose headers are present, whatever the other fields hold -/
theorem nXActionResubmitTable_len_gen (ty ln vendor sub : Nat) (r : List V) (g : Gen.openflow13.NXActionResubmitTable)
    (hg : g.NXActionHeader.ActionHeader.Length = n16 ln) :
    NXActionResubmitTable.lenM (.obj "NXActionResubmitTable" (.obj "NXActionHeader" [.obj "ActionHeader" [.num ty, .num ln], .num vendor, .num sub] :: r))
      = .ok (Gen.openflow13.NXActionResubmitTable.Len g,
          .obj "NXActionResubmitTable" (.obj "NXActionHeader" [.obj "ActionHeader" [.num ty, .num ln], .num vendor, .num sub] :: r)) := by
  unfold Gen.openflow13.NXActionResubmitTable.Len
  rw [hg]
  rfl

/-- NXActionOutputReg: Len() is the Length stored in the embedded action header — model and regenerated body agree on every value
    whose headers are present, whatever the other fields hold -/
theorem nXActionOutputReg_len_gen (ty ln vendor sub : Nat) (r : List V) (g : Gen.openflow13.NXActionOutputReg)
    (hg : g.NXActionHeader.ActionHeader.Length = n16 ln) :
    NXActionOutputReg.lenM (.obj "NXActionOutputReg" (.obj "NXActionHeader" [.obj "ActionHeader" [.num ty, .num ln], .num vendor, .num sub] :: r))
      = .ok (Gen.openflow13.NXActionOutputReg.Len g,
          .obj "NXActionOutputReg" (.obj "NXActionHeader" [.obj "ActionHeader" [.num ty, .num ln], .num vendor, .num sub] :: r)) := by
  unfold Gen.openflow13.NXActionOutputReg.Len
  rw [hg]
  rfl

/-- NXActionCTClear: Len() is the Length stored in the embedded action header — model and regenerated body agree on every value
    whose headers are present, whatever the other fields hold -/
theorem nXActionCTClear_len_gen (ty ln vendor sub : Nat) (r : List V) (g : Gen.openflow13.NXActionCTClear)
    (hg : g.NXActionHeader.ActionHeader.Length = n16 ln) :
    NXActionCTClear.lenM (.obj "NXActionCTClear" (.obj "NXActionHeader" [.obj "ActionHeader" [.num ty, .num ln], .num vendor, .num sub] :: r))
      = .ok (Gen.openflow13.NXActionCTClear.Len g,
          .obj "NXActionCTClear" (.obj "NXActionHeader" [.obj "ActionHeader" [.num ty, .num ln], .num vendor, .num sub] :: r)) := by
  unfold Gen.openflow13.NXActionCTClear.Len
  rw [hg]
  rfl

/-- NXActionDecTTL: Len() is the Length stored in the embedded action header — model and regenerated body agree on every value
    whose headers are present, whatever the other fields hold -/
theorem nXActionDecTTL_len_gen (ty ln vendor sub : Nat) (r : List V) (g : Gen.openflow13.NXActionDecTTL)
    (hg : g.NXActionHeader.ActionHeader.Length = n16 ln) :
    NXActionDecTTL.lenM (.obj "NXActionDecTTL" (.obj "NXActionHeader" [.obj "ActionHeader" [.num ty, .num ln], .num vendor, .num sub] :: r))
      = .ok (Gen.openflow13.NXActionDecTTL.Len g,
          .obj "NXActionDecTTL" (.obj "NXActionHeader" [.obj "ActionHeader" [.num ty, .num ln], .num vendor, .num sub] :: r)) := by
  unfold Gen.openflow13.NXActionDecTTL.Len
  rw [hg]
  rfl

/-- NXActionDecTTLCntIDs: Len() is the Length stored in the embedded action header — model and regenerated body agree on every value
    whose headers are present, whatever the other fields hold -/
theorem nXActionDecTTLCntIDs_len_gen (ty ln vendor sub : Nat) (r : List V) (g : Gen.openflow13.NXActionDecTTLCntIDs)
    (hg : g.NXActionHeader.ActionHeader.Length = n16 ln) :
    NXActionDecTTLCntIDs.lenM (.obj "NXActionDecTTLCntIDs" (.obj "NXActionHeader" [.obj "ActionHeader" [.num ty, .num ln], .num vendor, .num sub] :: r))
      = .ok (Gen.openflow13.NXActionDecTTLCntIDs.Len g,
          .obj "NXActionDecTTLCntIDs" (.obj "NXActionHeader" [.obj "ActionHeader" [.num ty, .num ln], .num vendor, .num sub] :: r)) := by
  unfold Gen.openflow13.NXActionDecTTLCntIDs.Len
  rw [hg]
  rfl

/-- the hypothesis of the theorems above is satisfiable by a non-trivial projection -/
example : ({ NXActionHeader := { ActionHeader := { Type_ := 0xffff, Length := n16 24 } } } :
    Gen.openflow13.NXActionConjunction).NXActionHeader.ActionHeader.Length = n16 24 := rfl

/-- NXActionCTNAT: Len() rounds the stored Length up to a multiple of 8, STORES it and returns it. The model returns the
    regenerated result, and the header it leaves behind holds the Length the regenerated receiver holds. -/
theorem nxActionCTNAT_len_gen (ty ln vendor sub : Nat) (r : List V) (g : Gen.openflow13.NXActionCTNAT)
    (hg : g.NXActionHeader.ActionHeader.Length = n16 ln) :
    NXActionCTNAT.lenM (.obj "NXActionCTNAT" (.obj "NXActionHeader" [.obj "ActionHeader" [.num ty, .num ln], .num vendor, .num sub] :: r))
      = .ok ((Gen.openflow13.NXActionCTNAT.Len g).1,
          .obj "NXActionCTNAT" (.obj "NXActionHeader" [.obj "ActionHeader" [.num ty,
            V.u16 (Gen.openflow13.NXActionCTNAT.Len g).2.NXActionHeader.ActionHeader.Length], .num vendor, .num sub] :: r)) := by
  unfold Gen.openflow13.NXActionCTNAT.Len
  simp only [hg]
  rfl

/-- the regenerated NXActionCTNAT.Len touches nothing but the stored Length -/
theorem nxActionCTNAT_len_gen_frame (g : Gen.openflow13.NXActionCTNAT) :
    (Gen.openflow13.NXActionCTNAT.Len g).2 =
      { g with NXActionHeader.ActionHeader.Length := (Gen.openflow13.NXActionCTNAT.Len g).1 } := rfl

/-- the value it returns is the rounded stored length: ((Length + 7) / 8) * 8 in uint16 -/
theorem nxActionCTNAT_len_gen_value (g : Gen.openflow13.NXActionCTNAT) :
    (Gen.openflow13.NXActionCTNAT.Len g).1 = round8 g.NXActionHeader.ActionHeader.Length := rfl

/-! ### learn specs -/

/-- NXLearnSpecHeader.Len() is the stored `length`, for every header value -/
theorem nxLearnSpecHeader_len_gen (s d o nb : V) (ln : Nat) (g : Gen.openflow13.NXLearnSpecHeader) (hg : g.length = n16 ln) :
    NXLearnSpecHeader.lenM (.obj "NXLearnSpecHeader" [s, d, o, nb, .num ln])
      = .ok (Gen.openflow13.NXLearnSpecHeader.Len g, .obj "NXLearnSpecHeader" [s, d, o, nb, .num ln]) := by
  unfold Gen.openflow13.NXLearnSpecHeader.Len
  rw [hg]
  rfl

/-- NXLearnSpec.Len(): header length, plus 2·⌈nBits/16⌉ (immediate source) or 6 (field source), plus 6 for the destination
    unless the spec is an output — the model computes what the regenerated body computes, for every spec whose header is
    present -/
theorem nxLearnSpec_len_gen (src out nb hl : Nat) (d sf df sv : V) :
    NXLearnSpec.lenM (.obj "NXLearnSpec" [.obj "NXLearnSpecHeader" [.num src, d, .num out, .num nb, .num hl], sf, df, sv])
      = .ok (Gen.openflow13.NXLearnSpec.Len
              { Header := { src := decide (src ≠ 0), output := decide (out ≠ 0), nBits := n16 nb, length := n16 hl } },
          .obj "NXLearnSpec" [.obj "NXLearnSpecHeader" [.num src, d, .num out, .num nb, .num hl], sf, df, sv]) := by
  unfold NXLearnSpec.lenM NXLearnSpec.len Gen.openflow13.NXLearnSpec.Len Gen.openflow13.NXLearnSpecHeader.Len NXLearnSpec.srcLen
  by_cases hs : src = 0 <;> by_cases ho : out = 0 <;> simp [hs, ho, same]

/-- ByteArrayField.Len() = uint16(m.Length) -/
theorem byteArrayField_len_gen (d : V) (l : Nat) :
    ByteArrayField.lenM (.obj "ByteArrayField" [d, .num l])
      = .ok (Gen.openflow13.ByteArrayField.Len { Length := n8 l }, .obj "ByteArrayField" [d, .num l]) := by
  unfold Gen.openflow13.ByteArrayField.Len ByteArrayField.lenM
  have : ((n8 l).toUInt64).toUInt16 = (n8 l).toUInt16 := by
    apply UInt16.toNat_inj.mp
    simp
  simp only [this]
  rfl

/-! ### learn-spec header constructors -/

/-- NewLearnHeaderMatchFromValue(nBits): the model's constructor builds the header the regenerated constructor describes
    (flags, nBits, length 2) -/
theorem newLearnHeaderMatchFromValue_gen (nb : Nat) :
    NXLearnSpecHeader.new 1 0 0 nb =
      (let g := Gen.openflow13.NewLearnHeaderMatchFromValue (n16 nb)
       .obj "NXLearnSpecHeader" [.num g.src.toNat, .num g.dst.toNat, .num g.output.toNat, V.u16 g.nBits, .num g.length.toNat]) := rfl

/-- NewLearnHeaderMatchFromField(nBits): the model's constructor builds the header the regenerated constructor describes
    (flags, nBits, length 2) -/
theorem newLearnHeaderMatchFromField_gen (nb : Nat) :
    NXLearnSpecHeader.new 0 0 0 nb =
      (let g := Gen.openflow13.NewLearnHeaderMatchFromField (n16 nb)
       .obj "NXLearnSpecHeader" [.num g.src.toNat, .num g.dst.toNat, .num g.output.toNat, V.u16 g.nBits, .num g.length.toNat]) := rfl

/-- NewLearnHeaderLoadFromValue(nBits): the model's constructor builds the header the regenerated constructor describes
    (flags, nBits, length 2) -/
theorem newLearnHeaderLoadFromValue_gen (nb : Nat) :
    NXLearnSpecHeader.new 1 1 0 nb =
      (let g := Gen.openflow13.NewLearnHeaderLoadFromValue (n16 nb)
       .obj "NXLearnSpecHeader" [.num g.src.toNat, .num g.dst.toNat, .num g.output.toNat, V.u16 g.nBits, .num g.length.toNat]) := rfl

/-- NewLearnHeaderLoadFromField(nBits): the model's constructor builds the header the regenerated constructor describes
    (flags, nBits, length 2) -/
theorem newLearnHeaderLoadFromField_gen (nb : Nat) :
    NXLearnSpecHeader.new 0 1 0 nb =
      (let g := Gen.openflow13.NewLearnHeaderLoadFromField (n16 nb)
       .obj "NXLearnSpecHeader" [.num g.src.toNat, .num g.dst.toNat, .num g.output.toNat, V.u16 g.nBits, .num g.length.toNat]) := rfl

/-- NewLearnHeaderOutputFromField(nBits): the model's constructor builds the header the regenerated constructor describes
    (flags, nBits, length 2) -/
theorem newLearnHeaderOutputFromField_gen (nb : Nat) :
    NXLearnSpecHeader.new 0 0 1 nb =
      (let g := Gen.openflow13.NewLearnHeaderOutputFromField (n16 nb)
       .obj "NXLearnSpecHeader" [.num g.src.toNat, .num g.dst.toNat, .num g.output.toNat, V.u16 g.nBits, .num g.length.toNat]) := rfl

end OFV.Props.C06d
