/-
  C06 — reported size equals encoded size; containers embed children intact.
  Leaf kinds are proved unconditionally; containers are proved from their children's property, so the statements
  compose to every nesting.
-/
import OFV.Model.All
import OFV.Lemmas.Size
namespace OFV.Props.C06
open OFV OFV.Go OFV.Model

/-! ### match-field payloads: all 30 kinds -/

/-- every match payload kind: size = encoding length, and neither call modifies the value -/
theorem payload_size (v : V) :
    ∀ l v1 bs v2, MatchPayload.lenM v = .ok (l, v1) → MatchPayload.marshalM v = .ok (bs, v2) →
      bs.length = l.toNat ∧ v1 = v ∧ v2 = v := by
  intro l v1 bs v2 h1 h2
  unfold MatchPayload.lenM at h1
  unfold MatchPayload.marshalM at h2
  split at h1 <;> rename_i hk <;> simp only [hk] at h2
  all_goals first
    | exact absurd h1 (by simp)
    | (
    simp only [InPortField.lenM, InPortField.marshalM, EthDstField.lenM, EthDstField.marshalM, EthSrcField.lenM, EthSrcField.marshalM, EthTypeField.lenM, EthTypeField.marshalM, VlanIdField.lenM, VlanIdField.marshalM, MplsLabelField.lenM, MplsLabelField.marshalM, MplsBosField.lenM, MplsBosField.marshalM, Ipv4SrcField.lenM, Ipv4SrcField.marshalM, Ipv4DstField.lenM, Ipv4DstField.marshalM, Ipv6SrcField.lenM, Ipv6SrcField.marshalM, Ipv6DstField.lenM, Ipv6DstField.marshalM, IPv6FlowLabelField.lenM, IPv6FlowLabelField.marshalM, IpProtoField.lenM, IpProtoField.marshalM, IpDscpField.lenM, IpDscpField.marshalM, TunnelIdField.lenM, TunnelIdField.marshalM, MetadataField.lenM, MetadataField.marshalM, PortField.lenM, PortField.marshalM, TcpFlagsField.lenM, TcpFlagsField.marshalM, ArpOperField.lenM, ArpOperField.marshalM, TunnelIpv4SrcField.lenM, TunnelIpv4SrcField.marshalM, TunnelIpv4DstField.lenM, TunnelIpv4DstField.marshalM, ArpXHaField.lenM, ArpXHaField.marshalM, ArpXPaField.lenM, ArpXPaField.marshalM, ActsetOutputField.lenM, ActsetOutputField.marshalM, IcmpTypeField.lenM, IcmpTypeField.marshalM, IcmpCodeField.lenM, IcmpCodeField.marshalM, Uint16Message.lenM, Uint16Message.marshalM, Uint32Message.lenM, Uint32Message.marshalM, ByteArrayField.lenM, ByteArrayField.marshalM, CTLabel.lenM, CTLabel.marshalM] at h1 h2
    try split at h1
    all_goals (try split at h2)
    all_goals (try (exact absurd h1 (by simp)))
    all_goals (try (exact absurd h2 (by simp)))
    all_goals (
      obtain ⟨rfl, rfl⟩ := same_ok _ _ _ _ h1
      obtain ⟨rfl, rfl⟩ := same_ok _ _ _ _ h2
      refine ⟨?_, rfl, rfl⟩
      first | (simp [makeCopy_length]; done) | (simp_all [makeCopy_length])))

theorem payload_sizeOK (v : V) : SizeOK MatchPayload.lenM MatchPayload.marshalM v :=
  fun l v1 bs v2 h1 h2 => (payload_size v l v1 bs v2 h1 h2).1

/-- a payload is at most 255 bytes long (the OXM length field is one byte) -/
theorem payload_len_le (v : V) (l : UInt16) (v1 : V) (h : MatchPayload.lenM v = .ok (l, v1)) : l.toNat ≤ 255 := by
  unfold MatchPayload.lenM at h
  split at h
  all_goals first
    | exact absurd h (by simp)
    | (
    simp only [InPortField.lenM, InPortField.marshalM, EthDstField.lenM, EthDstField.marshalM, EthSrcField.lenM, EthSrcField.marshalM, EthTypeField.lenM, EthTypeField.marshalM, VlanIdField.lenM, VlanIdField.marshalM, MplsLabelField.lenM, MplsLabelField.marshalM, MplsBosField.lenM, MplsBosField.marshalM, Ipv4SrcField.lenM, Ipv4SrcField.marshalM, Ipv4DstField.lenM, Ipv4DstField.marshalM, Ipv6SrcField.lenM, Ipv6SrcField.marshalM, Ipv6DstField.lenM, Ipv6DstField.marshalM, IPv6FlowLabelField.lenM, IPv6FlowLabelField.marshalM, IpProtoField.lenM, IpProtoField.marshalM, IpDscpField.lenM, IpDscpField.marshalM, TunnelIdField.lenM, TunnelIdField.marshalM, MetadataField.lenM, MetadataField.marshalM, PortField.lenM, PortField.marshalM, TcpFlagsField.lenM, TcpFlagsField.marshalM, ArpOperField.lenM, ArpOperField.marshalM, TunnelIpv4SrcField.lenM, TunnelIpv4SrcField.marshalM, TunnelIpv4DstField.lenM, TunnelIpv4DstField.marshalM, ArpXHaField.lenM, ArpXHaField.marshalM, ArpXPaField.lenM, ArpXPaField.marshalM, ActsetOutputField.lenM, ActsetOutputField.marshalM, IcmpTypeField.lenM, IcmpTypeField.marshalM, IcmpCodeField.lenM, IcmpCodeField.marshalM, Uint16Message.lenM, Uint16Message.marshalM, Uint32Message.lenM, Uint32Message.marshalM, ByteArrayField.lenM, ByteArrayField.marshalM, CTLabel.lenM, CTLabel.marshalM] at h
    try split at h
    all_goals (try (exact absurd h (by simp)))
    all_goals (
      obtain ⟨rfl, _⟩ := same_ok _ _ _ _ h
      first | decide | (simp [n8]; omega)))

/-! ### MatchField and Match -/

/-- a match field's encoding has exactly the size it reports, whatever it holds -/
theorem matchField_size (v : V) : SizeOK MatchField.lenM MatchField.marshalM v := by
  intro l v1 bs v2 h1 h2
  unfold MatchField.marshalM at h2
  obtain ⟨⟨l', v'⟩, hl, h2⟩ := bind_ok_inv _ _ _ h2
  rw [h1] at hl
  cases hl
  simp only at h2
  split at h2
  · obtain ⟨⟨vb, val'⟩, _, h2⟩ := bind_ok_inv _ _ _ h2
    simp only at h2
    split at h2
    · obtain ⟨out, hf, h2⟩ := bind_ok_inv _ _ _ h2
      cases h2
      exact fill_length _ _ _ hf
    · obtain ⟨⟨mb, mask'⟩, _, h2⟩ := bind_ok_inv _ _ _ h2
      obtain ⟨out, hf, h2⟩ := bind_ok_inv _ _ _ h2
      cases h2
      exact fill_length _ _ _ hf
  · exact absurd h2 (by simp)

/-- a match's encoding has exactly the (padded) size it reports -/
theorem match_size (v : V) : SizeOK Match.lenM Match.marshalM v := by
  intro l v1 bs v2 h1 h2
  unfold Match.marshalM at h2
  obtain ⟨⟨l', v'⟩, hl, h2⟩ := bind_ok_inv _ _ _ h2
  rw [h1] at hl
  cases hl
  simp only at h2
  split at h2
  · obtain ⟨⟨fbs, _⟩, _, h2⟩ := bind_ok_inv _ _ _ h2
    obtain ⟨out, hf, h2⟩ := bind_ok_inv _ _ _ h2
    obtain ⟨rfl, _⟩ := same_ok _ _ _ _ h2
    exact fill_length _ _ _ hf
  · exact absurd h2 (by simp)

/-- the reported size of a match is a multiple of 8 -/
theorem match_len_aligned (v : V) (l : UInt16) (v1 : V) (h : Match.lenM v = .ok (l, v1)) : l.toNat % 8 = 0 := by
  unfold Match.lenM at h
  split at h
  · obtain ⟨⟨ls, _⟩, _, h⟩ := bind_ok_inv _ _ _ h
    obtain ⟨rfl, _⟩ := same_ok _ _ _ _ h
    unfold round8
    rw [UInt16.toNat_mul, UInt16.toNat_div]
    have : (8 : UInt16).toNat = 8 := rfl
    rw [this]
    have hlt := ((4 : UInt16) + sum16 ls + 7).toNat_lt
    have h2 : (4 + sum16 ls + 7 : UInt16).toNat / 8 * 8 < 65536 := by omega
    rw [Nat.mod_eq_of_lt h2]
    omega
  · exact absurd h (by simp)

end OFV.Props.C06
