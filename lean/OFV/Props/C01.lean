/-
  C01 — sent messages are framed exactly: the header carries version 1.3, the kind's type code and a length equal to
  the size the message reports for itself (which C06 relates to the bytes produced).
-/
import OFV.Model.All
import OFV.Lemmas.Size
import OFV.Lemmas.BeAt
import OFV.Props.C06
import OFV.Props.C02
import OFV.Props.C03
namespace OFV.Props.C01
open OFV OFV.Go OFV.Model OFV.Spec

/-- NewOfp13Header stamps version 4 and length 8; the constructors set their type code -/
theorem C01_constructors (xid : Nat) :
    (FlowMod.new xid).fields.head? = some (.obj "Header" [.num 4, .num 14, .num 8, V.u32 (n32 xid)]) ∧
    (GroupMod.new xid).fields.head? = some (.obj "Header" [.num 4, .num 15, .num 8, V.u32 (n32 xid)]) := by
  constructor <;> rfl

theorem header_bytes_take4 (ver ty ln xid : Nat) (hb rest : Bytes)
    (h : Header.bytes (.obj "Header" [.num ver, .num ty, .num ln, .num xid]) = .ok hb) :
    (hb ++ rest).take 4 = [n8 ver, n8 ty] ++ be16 (n16 ln) := by
  simp only [Header.bytes, Res.ok.injEq] at h
  subst h
  simp [be16]

/-- flow-mod, every command and any content: the first four bytes are (version, type, reported size) -/
theorem C01_flowmod_header (ver ty ln xid : Nat) (ck cm tid cmd it ht pr bid op og fl : Nat) (pad m : V) (is : List V)
    (l : UInt16) (v1 : V) (bs : Bytes) (v' : V)
    (hl : FlowMod.lenM (.obj "FlowMod" [.obj "Header" [.num ver, .num ty, .num ln, .num xid], .num ck, .num cm, .num tid,
      .num cmd, .num it, .num ht, .num pr, .num bid, .num op, .num og, .num fl, pad, m, .list is]) = .ok (l, v1))
    (hm : FlowMod.marshalM (.obj "FlowMod" [.obj "Header" [.num ver, .num ty, .num ln, .num xid], .num ck, .num cm,
      .num tid, .num cmd, .num it, .num ht, .num pr, .num bid, .num op, .num og, .num fl, pad, m, .list is]) = .ok (bs, v')) :
    bs.take 4 = [n8 ver, n8 ty] ++ be16 l := by
  unfold FlowMod.marshalM at hm
  obtain ⟨⟨l', v1'⟩, hl', h2⟩ := bind_ok_inv _ _ _ hm
  rw [hl] at hl'
  cases hl'
  obtain ⟨m', is', rfl⟩ := C03.flowmod_lenM_shape _ _ _ _ _ _ _ _ _ _ _ _ _ _ _ _ _ hl
  simp only at h2
  obtain ⟨hb, hhb, h3⟩ := bind_ok_inv _ _ _ h2
  obtain ⟨⟨⟨mb, m''⟩, e0⟩, _, h4⟩ := bind_ok_inv _ _ _ h3
  obtain ⟨⟨ib, is'', e⟩, _, h5⟩ := bind_ok_inv _ _ _ h4
  simp only at h5
  split at h5
  · exact absurd h5 (by simp)
  · simp only [Res.ok.injEq, Prod.mk.injEq] at h5
    obtain ⟨hbs, _⟩ := h5
    rw [← hbs]
    simp only [Header.setLength, V.u16] at hhb
    have := header_bytes_take4 ver ty l.toNat xid hb (be64 (n64 ck) ++ be64 (n64 cm) ++ [n8 tid, n8 cmd] ++ be16 (n16 it)
      ++ be16 (n16 ht) ++ be16 (n16 pr) ++ be32 (n32 bid) ++ be32 (n32 op) ++ be32 (n32 og) ++ be16 (n16 fl) ++ zeros 2
      ++ mb ++ ib) hhb
    simp only [List.append_assoc] at this ⊢
    rw [this, C02.n16_toNat]

end OFV.Props.C01
