/-
  C10c — frame locality: what a decoder returns depends only on the VISIBLE bytes `data[0:len]` of the slice it is given,
  never on what the backing array holds between `len` and `cap` — in the real system the stale contents of the stream's
  recycled pool buffer behind the current frame.  This is the model-level reason why a delivered message cannot be
  corrupted by, or leak, an older frame (C10 / C12); it does NOT follow from totality (C08): Go's `data[a:b]` is checked
  against the capacity only, so a decoder that re-slices without a length check silently reads stale bytes.

  `s.Agree t` : same length and same visible bytes (the backing arrays may differ beyond `len`).

  Proved local, for every receiver and all well-formed agreeing slices:
    * every packet decoder of `protocol`: VLAN, ARP, ICMP, TCP, UDP, IGMPv1/2, IGMPv3 query / group record / report,
      IPv6 option / hop-by-hop / routing / fragment headers, IPv4, IPv6, Ethernet, util.Buffer, DHCP options;
    * OpenFlow: hello element header, controller id, TLV table map / mod, bundle control, bundle experimenter property
      (unconditionally); switch config, error, vendor error, hello (for frames of at least 8 bytes);
    * `Parse` (any nesting bounds) for frames of at least 8 bytes whose type is one of the covered kinds.

  NOT local (concrete counterexamples, each an over-read in the Go code):
    * `Header.UnmarshalBinary`            common/header.go:56-62    `len < 4` is checked, `data[4:8]` is read
    * `HelloElemVersionBitmap.UnmarshalBinary` common/header.go:158 `data[:4]` unchecked
    * `TLVTableReply.UnmarshalBinary`     openflow13/nxt_message.go:223  `data[n:n+10]` unchecked, loop skipped
    * `VendorHeader.UnmarshalBinary`      openflow13/openflow13.go:847-849  `data[n:v.Header.Length]`, Length unchecked
  Reachability through `Parse` (second round):
    * TLV table reply: REACHABLE with a frame whose length equals its Length field (22 bytes in a 32-byte buffer):
      `C10c_parse_tlvtablereply_not_local_counterexample`.
    * vendor header: reachable only with a slice shorter than the frame's own Length field
      (`C10c_parse_vendor_not_local_counterexample`); header: only with 4..7 bytes
      (`C10c_parse_header_not_local_counterexample`); version bitmap: not reachable (`Hello` is local for len ≥ 8).
  Second round, proved local: PhyPort (both sides panic on a short slice, else agree), port-status, features reply,
  every match payload kind, DecodeMatchField, MatchField, Match, flow-removed, packet-in, multipart request,
  bundle-add (given the embedded Parse), the experimenter message (given Length ≤ len and a local body decoder), and
  `Parse` for every kind except flow-mod and multipart reply (`C10c_parse_local_covered2`).
  Third round — NEW OVER-READS reachable through Parse on frames whose length EQUALS their Length field:
    * flow-mod: `InstrActions.UnmarshalBinary` (instruction.go:208-209) trusts `instr.Length`; `DecodeAction(data[n:])` on
      the EMPTY rest re-slices to the capacity (action.go:69 `data[:2]`, action.go:342 `data[:4]`): a whole action is
      decoded from the bytes after the frame — `C10c_parse_flowmod_not_local_counterexample`;
    * multipart reply / flow-stats record: the same — `C10c_parse_multipart_flowstats_not_local_counterexample`.
  Final positive statement `C10c_parse_local`: Parse is local on every `GoodFrame` — every kind except flow-mod and
  multipart reply; experimenter frames not cut before their Length field, TLV table replies with Length ≥ 32, bundle-adds
  whose embedded message is again good (induction over the nesting).  Multipart replies of every type but flow are local
  as well (`C10c_multipart_nonflow_local`).
  Fourth round: capacity-dependent sites machine-checked (goto-table `data[5:8]`, write-metadata `data[4:24]`, and through
  Parse `C10c_parse_flowmod_capacity_dependent_counterexample`); `GoodFrame2` / `C10c_parse_local2` (good frames widened to
  non-flow multipart replies and to flow-mods under any condition that makes the flow-mod decoder local); building blocks
  of that condition: `C10c_decodeaction_local_covered`, `C10c_action_loop_local` (reachable-offset invariant),
  `C10c_instructions_local_partial`, `InstrActions_unmarshalP_loc_inv`.
  Fifth round: `FlowModInFrame t` — the in-frame check (`instrsOK` / `instrOK` / `actionsOK`, Bool-valued walks of the
  instruction and action lists that test the bounds the Go code omits), evaluated on `Slice.exact t.bytes`, i.e. on the visible
  bytes alone — and `C10c_parse_local3`: Parse is local on every good frame, where a flow-mod is good iff it passes the
  check.  Exceptions that remain: (a) TLV table reply with body < 16, (b) flow-mods failing `FlowModInFrame` (both with
  counterexamples), (c) multipart replies of type flow (same loop; the positive statement for `FlowStats` is not assembled
  yet), plus uncovered action kinds (set-field, Nicira) inside flow-mods.
  Sixth round: `FlowStatsInFrame` (record walk `recordsOK` / `flowStatsOK` / `fsInstrsOK` on the visible bytes) and
  `C10c_parse_local4` with `GoodFrame3`: Parse is local on every frame of at least 8 bytes except TLV table replies with
  Length < 32, flow-mods failing `FlowModInFrame`, multipart replies failing `FlowStatsInFrame`, experimenter frames cut
  before their Length field.  Still outside the predicates: action kinds not in `ActionKindCovered` (set-field, Nicira).
  Last round: the chain re-established over `ActionKindCovered2` (old kinds + set-field, conjunction, ct_clear, dec_ttl,
  resubmit, resubmit-table, reg-move, controller): `FlowModInFrame2`, `FlowStatsInFrame2`, `GoodFrame32`,
  `C10c_parse_local5`; an Open-vSwitch-style flow-mod (set-field + resubmit-table + ct_clear) is a good frame.  Outside:
  reg-load / output-reg (`data[12:16]` against the capacity; local on ≥ 16 bytes), learn, note, reg-load2, nat, conntrack,
  dec-ttl-cnt-ids.
-/
import OFV.Lemmas.Local10
namespace OFV.Props.C10c
open OFV OFV.Go OFV.Model

/-- an agreeing pair that differs behind the frame: the same 14 visible bytes, different stale bytes after them -/
example : (Slice.mk ([1,2,3,4,5,6,7,8,9,10,11,12,8,6] ++ [0xaa, 0xbb]) 14).WF ∧ (Slice.mk ([1,2,3,4,5,6,7,8,9,10,11,12,8,6] ++ [0xcc]) 14).WF ∧
    (Slice.mk ([1,2,3,4,5,6,7,8,9,10,11,12,8,6] ++ [0xaa, 0xbb]) 14).Agree (Slice.mk ([1,2,3,4,5,6,7,8,9,10,11,12,8,6] ++ [0xcc]) 14) := by
  unfold Slice.WF Slice.Agree; decide

/-- the read primitives that Go checks against `len` (`data[i]`, `data[a:]`, `UintN(data[a:])`) see the visible bytes only:
    what the recycled buffer holds behind the frame cannot influence them -/
theorem C10c_primitives_local (s t : Slice) (hs : s.WF) (ht : t.WF) (h : s.Agree t) (n : Nat) :
    s.index n = t.index n ∧ s.byteAt n = t.byteAt n ∧ s.u16From n = t.u16From n ∧ s.u32From n = t.u32From n ∧
    s.u64From n = t.u64From n :=
  have haw : Slice.AW s t := ⟨hs, ht, h⟩
  ⟨Slice.index_loc haw n, Slice.byteAt_loc haw n, Slice.u16From_loc haw n, Slice.u32From_loc haw n, Slice.u64From_loc haw n⟩

/-- `data[a:]` of agreeing slices: both panic, or the two sub-slices are well-formed and agree -/
theorem C10c_from_local (s t : Slice) (hs : s.WF) (ht : t.WF) (h : s.Agree t) (a : Nat) :
    (s.fromR a = .panic ∧ t.fromR a = .panic) ∨
    ∃ x y, s.fromR a = .ok x ∧ t.fromR a = .ok y ∧ x.WF ∧ y.WF ∧ x.Agree y :=
  Slice.fromR_loc ⟨hs, ht, h⟩ a

/-- the primitives that Go checks against `cap` only (`data[a:b]`, `data[:b]`, `UintN(data[a:b])`) are local as long as
    the window ends inside the visible bytes (`b ≤ len`) -/
theorem C10c_slice_local (s t : Slice) (hs : s.WF) (ht : t.WF) (h : s.Agree t) (a b : Nat) (hb : b ≤ t.len) :
    ((s.sliceR a b = .panic ∧ t.sliceR a b = .panic) ∨
      ∃ x y, s.sliceR a b = .ok x ∧ t.sliceR a b = .ok y ∧ x.WF ∧ y.WF ∧ x.Agree y) ∧
    s.u16In a b = t.u16In a b ∧ s.u32In a b = t.u32In a b ∧ s.u64In a b = t.u64In a b :=
  have haw : Slice.AW s t := ⟨hs, ht, h⟩
  ⟨Slice.sliceR_loc haw a b hb, Slice.u16In_loc haw a b hb, Slice.u32In_loc haw a b hb, Slice.u64In_loc haw a b hb⟩

example : (4 : Nat) ≤ (Slice.mk [1, 2, 3, 4, 5, 6] 4).len := by decide

/-- leaf packet decoders (VLAN, ARP, ICMP, TCP, UDP, IGMPv1/2, fragment header, IPv6 option, util.Buffer): what the stream's
    recycled buffer holds behind the frame cannot influence the decoded header -/
theorem C10c_leaf_local (recv : V) (s t : Slice) (hs : s.WF) (ht : t.WF) (h : s.Agree t) :
    PVLAN.unmarshal recv s = PVLAN.unmarshal recv t ∧ PARP.unmarshal recv s = PARP.unmarshal recv t ∧
    PICMP.unmarshal recv s = PICMP.unmarshal recv t ∧ PTCP.unmarshal recv s = PTCP.unmarshal recv t ∧
    PUDP.unmarshal recv s = PUDP.unmarshal recv t ∧ PIGMPv1or2.unmarshal recv s = PIGMPv1or2.unmarshal recv t ∧
    PFragment.unmarshal recv s = PFragment.unmarshal recv t ∧ POption.unmarshal recv s = POption.unmarshal recv t ∧
    UBuffer.unmarshal recv s = UBuffer.unmarshal recv t :=
  have haw : Slice.AW s t := ⟨hs, ht, h⟩
  ⟨PVLAN_loc recv haw, PARP_loc recv haw, PICMP_loc recv haw, PTCP_loc recv haw, PUDP_loc recv haw, PIGMPv1or2_loc recv haw,
    PFragment_loc recv haw, POption_loc recv haw, UBuffer_loc recv haw⟩

/-- IGMPv3 query, group record and membership report (address and word lists, nested records): what the recycled buffer
    holds behind the frame cannot influence the decoded message -/
theorem C10c_igmpv3_local (recv : V) (s t : Slice) (hs : s.WF) (ht : t.WF) (h : s.Agree t) :
    PIGMPv3Query.unmarshal recv s = PIGMPv3Query.unmarshal recv t ∧
    PIGMPv3GroupRecord.unmarshal recv s = PIGMPv3GroupRecord.unmarshal recv t ∧
    PIGMPv3MembershipReport.unmarshal recv s = PIGMPv3MembershipReport.unmarshal recv t :=
  have haw : Slice.AW s t := ⟨hs, ht, h⟩
  ⟨PIGMPv3Query_loc recv haw, PIGMPv3GroupRecord_loc recv haw, PIGMPv3MembershipReport_loc recv haw⟩

/-- IPv6 extension headers with their option loop / routing data: local -/
theorem C10c_ip6ext_local (recv : V) (s t : Slice) (hs : s.WF) (ht : t.WF) (h : s.Agree t) :
    PHopByHop.unmarshal recv s = PHopByHop.unmarshal recv t ∧ PRouting.unmarshal recv s = PRouting.unmarshal recv t :=
  have haw : Slice.AW s t := ⟨hs, ht, h⟩
  ⟨PHopByHop_loc recv haw, PRouting_loc recv haw⟩

/-- IPv4 (options window `data[20:IHL*4]`, ICMP / UDP / opaque payload): what the stream's recycled buffer holds behind
    the frame cannot influence the decoded packet -/
theorem C10c_ipv4_local (recv : V) (s t : Slice) (hs : s.WF) (ht : t.WF) (h : s.Agree t) :
    PIPv4.unmarshal recv s = PIPv4.unmarshal recv t := PIPv4_local recv s t hs ht h

/-- IPv6 (extension header chain, ICMPv6 / UDP / opaque payload): what the stream's recycled buffer holds behind the
    frame cannot influence the decoded packet -/
theorem C10c_ipv6_local (recv : V) (s t : Slice) (hs : s.WF) (ht : t.WF) (h : s.Agree t) :
    PIPv6.unmarshal recv s = PIPv6.unmarshal recv t := PIPv6_local recv s t hs ht h

/-- Ethernet (optional VLAN tag; IPv4 / IPv6 / ARP / opaque payload, to any depth): what the stream's recycled buffer
    holds behind the frame cannot influence the decoded frame — the packet carried by a packet-in is a function of its
    own bytes -/
theorem C10c_ethernet_local (recv : V) (s t : Slice) (hs : s.WF) (ht : t.WF) (h : s.Agree t) :
    PEthernet.unmarshal recv s = PEthernet.unmarshal recv t := PEthernet_local recv s t hs ht h

/-- DHCPParseOptions: the option window is checked against `len(in)` before it is sliced: local -/
theorem C10c_dhcp_options_local (s t : Slice) (hs : s.WF) (ht : t.WF) (h : s.Agree t) :
    PDhcpOpt.parseOptions s = PDhcpOpt.parseOptions t := PDhcpOpt_parseOptions_local s t hs ht h

/-- FALSE for the OpenFlow header: `Header.UnmarshalBinary` (common/header.go:56-62) refuses only `len(data) < 4` and then
    reads the Xid from `data[4:8]`.  The two 4-byte slices `04 00 00 08 | 00 00 00 01` and `04 00 00 08 | 00 00 00 02`
    (`|` = end of the slice, the rest is spare capacity) agree and decode to Xid 1 and Xid 2: stale buffer contents end up
    in the decoded header. -/
theorem C10c_header_not_local_counterexample :
    hdrCexS.WF ∧ hdrCexT.WF ∧ hdrCexS.Agree hdrCexT ∧
    Header.unmarshal Header.zero hdrCexS ≠ Header.unmarshal Header.zero hdrCexT := Header_not_local_counterexample

/-- the provable part: the header decoder is local on slices that hold the whole 8-byte header (or fewer than 4 bytes,
    which are refused) -/
theorem C10c_header_local_partial (recv : V) (s t : Slice) (hs : s.WF) (ht : t.WF) (h : s.Agree t)
    (h8 : t.len < 4 ∨ 8 ≤ t.len) : Header.unmarshal recv s = Header.unmarshal recv t :=
  Header_loc_partial recv ⟨hs, ht, h⟩ h8

example : (Slice.exact [4, 0, 0, 8, 0, 0, 0, 7]).len < 4 ∨ 8 ≤ (Slice.exact [4, 0, 0, 8, 0, 0, 0, 7]).len := by decide

/-- FALSE for the hello version-bitmap element called on its own: `data[:4]` (common/header.go:158) is not checked
    against `len`; on an empty slice the element header is whatever the buffer holds. -/
theorem C10c_versionbitmap_not_local_counterexample :
    vbmCexS.WF ∧ vbmCexT.WF ∧ vbmCexS.Agree vbmCexT ∧
    HelloElemVersionBitmap.unmarshal HelloElemVersionBitmap.new vbmCexS ≠
      HelloElemVersionBitmap.unmarshal HelloElemVersionBitmap.new vbmCexT := HelloElemVersionBitmap_not_local_counterexample

/-- the provable part: local on slices of at least 4 bytes (which is how `Hello.UnmarshalBinary` calls it) -/
theorem C10c_versionbitmap_local_partial (recv : V) (s t : Slice) (hs : s.WF) (ht : t.WF) (h : s.Agree t) (h4 : 4 ≤ t.len) :
    HelloElemVersionBitmap.unmarshal recv s = HelloElemVersionBitmap.unmarshal recv t :=
  HelloElemVersionBitmap_loc_partial recv ⟨hs, ht, h⟩ h4

example : 4 ≤ (Slice.exact [0, 1, 0, 8, 0, 0, 0, 16]).len := by decide

/-- FALSE for the TLV table reply body: `copy(t.reserved[0:], data[n:n+10])` (openflow13/nxt_message.go:223) is not
    checked against `len` and the map loop `for n < len(data)` is skipped on a short slice: a 6-byte body is accepted and
    its 10 reserved bytes come from behind the slice. -/
theorem C10c_tlvtablereply_not_local_counterexample :
    tlvCexS.WF ∧ tlvCexT.WF ∧ tlvCexS.Agree tlvCexT ∧
    TLVTableReply.unmarshal TLVTableReply.zero tlvCexS ≠ TLVTableReply.unmarshal TLVTableReply.zero tlvCexT :=
  TLVTableReply_not_local_counterexample

/-- the provable part: local on bodies that hold the 16 fixed bytes -/
theorem C10c_tlvtablereply_local_partial (recv : V) (s t : Slice) (hs : s.WF) (ht : t.WF) (h : s.Agree t) (h16 : 16 ≤ t.len) :
    TLVTableReply.unmarshal recv s = TLVTableReply.unmarshal recv t := TLVTableReply_loc_partial recv ⟨hs, ht, h⟩ h16

example : 16 ≤ (Slice.exact (zeros 24)).len := by decide

/-- OpenFlow leaf kinds whose decoders check their length first: hello element header, controller id, TLV table map and
    mod, bundle control, bundle experimenter property: local without any condition -/
theorem C10c_of_leaf_local (recv : V) (s t : Slice) (hs : s.WF) (ht : t.WF) (h : s.Agree t) :
    HelloElemHeader.unmarshal recv s = HelloElemHeader.unmarshal recv t ∧
    ControllerID.unmarshal recv s = ControllerID.unmarshal recv t ∧
    TLVTableMap.unmarshal recv s = TLVTableMap.unmarshal recv t ∧
    TLVTableMod.unmarshal recv s = TLVTableMod.unmarshal recv t ∧
    BundleControl.unmarshal recv s = BundleControl.unmarshal recv t ∧
    BundlePropertyExperimenter.unmarshal recv s = BundlePropertyExperimenter.unmarshal recv t :=
  have haw : Slice.AW s t := ⟨hs, ht, h⟩
  ⟨HelloElemHeader_loc recv haw, ControllerID_loc recv haw, TLVTableMap_loc recv haw, TLVTableMod_loc recv haw,
    BundleControl_loc recv haw, BundlePropertyExperimenter_loc recv haw⟩

/-- messages that start with the OpenFlow header — switch config, error, vendor error, hello (element loop included):
    for a frame of at least 8 bytes, what the stream's recycled buffer holds behind the frame cannot influence the
    decoded message -/
theorem C10c_simple_messages_local (recv : V) (s t : Slice) (hs : s.WF) (ht : t.WF) (h : s.Agree t) (h8 : 8 ≤ t.len) :
    SwitchConfig.unmarshal recv s = SwitchConfig.unmarshal recv t ∧ ErrorMsg.unmarshal recv s = ErrorMsg.unmarshal recv t ∧
    VendorError.unmarshal recv s = VendorError.unmarshal recv t ∧ Hello.unmarshal recv s = Hello.unmarshal recv t :=
  have haw : Slice.AW s t := ⟨hs, ht, h⟩
  ⟨SwitchConfig_loc recv haw h8, ErrorMsg_loc recv haw h8, VendorError_loc recv haw h8, Hello_loc recv haw h8⟩

example : 8 ≤ (Slice.exact [4, 9, 0, 12, 0, 0, 0, 7, 0, 1, 0, 128]).len := by decide

/-- `openflow13.Parse` on a frame of at least 8 bytes whose type byte is one of the covered kinds (hello, error incl.
    experimenter errors, echo, barrier, get-config request/reply, set-config, features request, and the kinds Parse
    ignores): what the stream's recycled buffer holds behind the frame cannot influence the delivered message — not even
    through the nesting bound, which Parse derives from the CAPACITY (`d`, `d'` arbitrary). -/
theorem C10c_parse_local_covered (s t : Slice) (hs : s.WF) (ht : t.WF) (h : s.Agree t) (h8 : 8 ≤ t.len)
    (hk : ∀ tb, t.byteAt 1 = .ok tb → parseCovered tb.toNat) (d d' : Nat) :
    parse d s = parse d' t := parse_loc ⟨hs, ht, h⟩ h8 hk d d'

/-- the hypotheses of `C10c_parse_local_covered` are met by a real frame: an echo request (type 2) of 8 bytes followed by
    stale bytes in the buffer -/
example : (Slice.mk [4, 2, 0, 8, 0, 0, 0, 7, 0xde, 0xad] 8).WF ∧ 8 ≤ (Slice.mk [4, 2, 0, 8, 0, 0, 0, 7, 0xde, 0xad] 8).len ∧
    (∀ tb, (Slice.mk [4, 2, 0, 8, 0, 0, 0, 7, 0xde, 0xad] 8).byteAt 1 = .ok tb → parseCovered tb.toNat) := by
  refine ⟨by unfold Slice.WF; decide, by decide, ?_⟩
  intro tb htb
  have : tb = 2 := by
    have e : (Slice.mk [4, 2, 0, 8, 0, 0, 0, 7, 0xde, 0xad] 8).byteAt 1 = .ok 2 := rfl
    rw [e] at htb; cases htb; rfl
  subst this
  unfold parseCovered; decide

/-! ### second round -/

/-- REACHABLE THROUGH PARSE: an NXT TLV-table-reply frame `04 04 00 16 00000007 00002320 0000001a 00000001 0002` of 22
    bytes — exactly its Length field, as the stream delivers it — lying in a buffer with 10 more bytes: the reply's 10
    reserved bytes are those stale bytes (`01…01` versus `02…02`).  What the recycled buffer holds behind the frame DOES
    influence the delivered message here. -/
theorem C10c_parse_tlvtablereply_not_local_counterexample :
    tlvFrameS.WF ∧ tlvFrameT.WF ∧ tlvFrameS.Agree tlvFrameT ∧ 8 ≤ tlvFrameT.len ∧
    parse (tlvFrameS.len + 1) tlvFrameS ≠ parse (tlvFrameT.len + 1) tlvFrameT := parse_tlvtablereply_not_local_counterexample

/-- FALSE for the experimenter message: `data[n:v.Header.Length]` (openflow13/openflow13.go:849) trusts the Length field;
    the 16-byte slice `04 04 00 18 00000007 00002320 00000014 | 00…01` (Length field 24) gets its controller id from
    behind the slice. -/
theorem C10c_vendor_not_local_counterexample :
    vendorCexS.WF ∧ vendorCexT.WF ∧ vendorCexS.Agree vendorCexT ∧
    VendorHeader.unmarshal VendorHeader.zero vendorCexS ≠ VendorHeader.unmarshal VendorHeader.zero vendorCexT :=
  VendorHeader_not_local_counterexample

/-- … and through Parse, but only on a slice shorter (16) than the frame's own Length field (24) -/
theorem C10c_parse_vendor_not_local_counterexample :
    vendorCexS.WF ∧ vendorCexT.WF ∧ vendorCexS.Agree vendorCexT ∧ 8 ≤ vendorCexT.len ∧
    parse (vendorCexS.len + 1) vendorCexS ≠ parse (vendorCexT.len + 1) vendorCexT := parse_vendor_not_local_counterexample

/-- the header over-read through Parse needs a slice of 4..7 bytes (an echo request cut after 4 bytes) -/
theorem C10c_parse_header_not_local_counterexample :
    hdrCexS.WF ∧ hdrCexT.WF ∧ hdrCexS.Agree hdrCexT ∧
    parse 5 ⟨[4, 2, 0, 8, 0, 0, 0, 1], 4⟩ ≠ parse 5 ⟨[4, 2, 0, 8, 0, 0, 0, 2], 4⟩ := parse_header_not_local_counterexample

/-- the provable part for the experimenter message: on a slice at least as long as its Length field, with body decoders
    that respect agreement on the body window, what the buffer holds behind the frame cannot influence the result -/
theorem C10c_vendor_local_partial (decVD decVD' : Nat → Slice → R V) (recv : V) (s t : Slice) (hs : s.WF) (ht : t.WF)
    (h : s.Agree t) (hL : ∀ w, t.u16In 2 4 = .ok w → w.toNat ≤ t.len)
    (hd : ∀ ty x y, Slice.AW x y → x.len + 16 ≤ t.len → decVD ty x = decVD' ty y) :
    VendorHeader.unmarshalWith decVD recv s = VendorHeader.unmarshalWith decVD' recv t :=
  VendorHeader_unmarshalWith_loc_partial decVD decVD' recv ⟨hs, ht, h⟩ hL hd

/-- bundle-add checks `8 + msgLen > len(data)` before slicing the embedded message: local, provided the embedded Parse
    gives equal results on agreeing message windows -/
theorem C10c_bundleadd_local (parseF parseF' : Slice → R V) (cl cl' : MsgLenF) (recv : V) (s t : Slice) (hs : s.WF)
    (ht : t.WF) (h : s.Agree t) (hp : ∀ x y, Slice.AW x y → 8 ≤ y.len → y.len + 8 ≤ t.len → parseF x = parseF' y) :
    BundleAdd.unmarshalWith parseF cl recv s = BundleAdd.unmarshalWith parseF' cl' recv t :=
  BundleAdd_unmarshalWith_loc parseF parseF' cl cl' recv ⟨hs, ht, h⟩ hp

example : ∀ x y : Slice, Slice.AW x y → 8 ≤ y.len → y.len + 8 ≤ 100 → (fun _ => (Res.err : R V)) x = (fun _ => Res.err) y :=
  fun _ _ _ _ _ => rfl

/-- PhyPort slices `data[4:8] … data[16:32]` against the capacity with no length check — and is local all the same: on
    fewer than 36 bytes the length-checked `Uint32(data[32:])` that follows panics on both sides
    (`PhyPort_short_panic`), otherwise all windows lie inside the visible bytes -/
theorem C10c_phyport_local (recv : V) (s t : Slice) (hs : s.WF) (ht : t.WF) (h : s.Agree t) :
    PhyPort.unmarshal recv s = PhyPort.unmarshal recv t := PhyPort_loc recv ⟨hs, ht, h⟩

/-- match payloads (all 30 kinds), DecodeMatchField, MatchField, Match: what the stream's recycled buffer holds behind the
    frame cannot influence a decoded match -/
theorem C10c_match_local (recv : V) (s t : Slice) (hs : s.WF) (ht : t.WF) (h : s.Agree t) :
    MatchPayload.unmarshal recv s = MatchPayload.unmarshal recv t ∧
    (∀ cls field length hasMask, DecodeMatchField cls field length hasMask s = DecodeMatchField cls field length hasMask t) ∧
    MatchField.unmarshal recv s = MatchField.unmarshal recv t ∧
    Match.unmarshalP recv s = Match.unmarshalP recv t ∧ Match.unmarshal recv s = Match.unmarshal recv t :=
  have haw : Slice.AW s t := ⟨hs, ht, h⟩
  ⟨MatchPayload_loc recv haw, fun c f l m => DecodeMatchField_loc c f l m haw, MatchField_loc recv haw,
    Match_unmarshalP_loc recv haw, Match_loc recv haw⟩

/-- port-status, features reply, flow-removed, packet-in (match and Ethernet payload), multipart request: for a frame of at
    least 8 bytes, what the stream's recycled buffer holds behind the frame cannot influence the decoded message -/
theorem C10c_messages2_local (recv : V) (s t : Slice) (hs : s.WF) (ht : t.WF) (h : s.Agree t) (h8 : 8 ≤ t.len) :
    PortStatus.unmarshal recv s = PortStatus.unmarshal recv t ∧
    SwitchFeatures.unmarshal recv s = SwitchFeatures.unmarshal recv t ∧
    FlowRemoved.unmarshal recv s = FlowRemoved.unmarshal recv t ∧
    PacketIn.unmarshal recv s = PacketIn.unmarshal recv t ∧
    MultipartRequest.unmarshal recv s = MultipartRequest.unmarshal recv t :=
  have haw : Slice.AW s t := ⟨hs, ht, h⟩
  ⟨PortStatus_loc recv haw h8, SwitchFeatures_loc recv haw h8, FlowRemoved_loc recv haw h8, PacketIn_loc recv haw h8,
    MultipartRequest_loc recv haw h8⟩

/-- `openflow13.Parse` on a frame of at least 8 bytes of ANY kind except flow-mod and multipart reply; an experimenter
    frame must not be cut before its own Length field and must carry neither a TLV table reply (over-read, see the
    counterexample) nor a bundle-add (left open): what the stream's recycled buffer holds behind the frame cannot influence
    the delivered message, whatever nesting bounds `d`, `d'` Parse derives from the capacities. -/
theorem C10c_parse_local_covered2 (s t : Slice) (hs : s.WF) (ht : t.WF) (h : s.Agree t) (h8 : 8 ≤ t.len)
    (hk : ∀ tb, t.byteAt 1 = .ok tb →
      parseCovered2 tb.toNat ∧ (tb.toNat = Gen.openflow13.Type_Experimenter → vendorPlain t)) (d d' : Nat) :
    parse d s = parse d' t := parse_loc2 ⟨hs, ht, h⟩ h8 hk d d'

/-- the hypotheses of `C10c_parse_local_covered2` are met by a port-status frame header (type 12) followed by stale bytes -/
example : (Slice.mk [4, 12, 0, 8, 0, 0, 0, 7, 0xde, 0xad] 8).WF ∧ 8 ≤ (Slice.mk [4, 12, 0, 8, 0, 0, 0, 7, 0xde, 0xad] 8).len ∧
    (∀ tb, (Slice.mk [4, 12, 0, 8, 0, 0, 0, 7, 0xde, 0xad] 8).byteAt 1 = .ok tb →
      parseCovered2 tb.toNat ∧ (tb.toNat = Gen.openflow13.Type_Experimenter → vendorPlain (Slice.mk [4, 12, 0, 8, 0, 0, 0, 7, 0xde, 0xad] 8))) := by
  refine ⟨by unfold Slice.WF; decide, by decide, ?_⟩
  intro tb htb
  have : tb = 12 := by
    have e : (Slice.mk [4, 12, 0, 8, 0, 0, 0, 7, 0xde, 0xad] 8).byteAt 1 = .ok 12 := rfl
    rw [e] at htb; cases htb; rfl
  subst this
  refine ⟨by unfold parseCovered2; decide, fun h => absurd h (by decide)⟩

/-! ### third round -/

/-- NEW, REACHABLE THROUGH PARSE with frame length = Length field = 64: a flow-mod whose only instruction (apply-actions)
    claims 16 bytes while the frame ends after the instruction's 8-byte header.  `DecodeAction` is handed the empty rest and
    re-slices it to the capacity: the delivered flow-mod contains an `ActionDecNwTtl` whose header (`00 18 00 08` versus
    `00 18 00 09`) is the 8 bytes that FOLLOW the frame in the buffer.  What the recycled buffer holds behind the frame
    DOES influence the delivered message. -/
theorem C10c_parse_flowmod_not_local_counterexample :
    fmCexS.WF ∧ fmCexT.WF ∧ fmCexS.Agree fmCexT ∧ 8 ≤ fmCexT.len ∧
    parse (fmCexS.len + 1) fmCexS ≠ parse (fmCexT.len + 1) fmCexT := parse_flowmod_not_local_counterexample

/-- the frame of the previous counterexample has exactly the length its header announces -/
theorem C10c_flowmod_cex_is_whole_frame : fmCexT.u16In 2 4 = .ok 64 ∧ fmCexT.len = 64 :=
  ⟨fmCex_agree.2.2.2.2.1, fmCex_agree.2.2.2.2.2⟩

/-- NEW, REACHABLE THROUGH PARSE with frame length = Length field = 80: the same over-read inside the flow-stats record
    of a multipart reply -/
theorem C10c_parse_multipart_flowstats_not_local_counterexample :
    mpCexS.WF ∧ mpCexT.WF ∧ mpCexS.Agree mpCexT ∧ 8 ≤ mpCexT.len ∧
    parse (mpCexS.len + 1) mpCexS ≠ parse (mpCexT.len + 1) mpCexT := parse_multipart_flowstats_not_local_counterexample

theorem C10c_multipart_cex_is_whole_frame : mpCexT.u16In 2 4 = .ok 80 ∧ mpCexT.len = 80 :=
  ⟨mpCex_agree.2.2.2.2.1, mpCex_agree.2.2.2.2.2⟩

/-- the unit-level defect behind both: `ActionDecNwTtl.UnmarshalBinary` (action.go:342) reads `data[:4]` unchecked -/
theorem C10c_action_decnwttl_not_local_counterexample :
    (Slice.mk [0, 24, 0, 8] 0).WF ∧ (Slice.mk [0, 24, 0, 9] 0).WF ∧ (Slice.mk [0, 24, 0, 8] 0).Agree (Slice.mk [0, 24, 0, 9] 0) ∧
    ActionDecNwTtl.unmarshal ActionDecNwTtl.zero (Slice.mk [0, 24, 0, 8] 0) ≠
      ActionDecNwTtl.unmarshal ActionDecNwTtl.zero (Slice.mk [0, 24, 0, 9] 0) := ActionDecNwTtl_not_local_counterexample

/-- FINAL STATEMENT.  On every good frame — at least 8 bytes; any kind EXCEPT flow-mod and multipart reply (over-reads
    above); an experimenter frame not cut before its Length field, a TLV table reply with Length ≥ 32 (body ≥ 16, otherwise
    `C10c_parse_tlvtablereply_not_local_counterexample`), the message embedded in a bundle-add again a good frame, to
    nesting depth `n` — what the stream's recycled buffer holds behind the frame cannot influence the message that
    `openflow13.Parse` delivers; nor can the nesting bounds `d`, `d'` that Parse derives from the buffers' capacities. -/
theorem C10c_parse_local (n : Nat) (s t : Slice) (hs : s.WF) (ht : t.WF) (h : s.Agree t) (hg : GoodFrame n t) (d d' : Nat) :
    parse d s = parse d' t := parse_good_loc n ⟨hs, ht, h⟩ hg d d'

/-- a good frame: an echo request followed by stale bytes -/
example : GoodFrame 1 (Slice.mk [4, 2, 0, 8, 0, 0, 0, 7, 0xde, 0xad] 8) := by
  unfold GoodFrame
  refine ⟨by decide, ?_⟩
  intro tb htb
  have : tb = 2 := by
    have e : (Slice.mk [4, 2, 0, 8, 0, 0, 0, 7, 0xde, 0xad] 8).byteAt 1 = .ok 2 := rfl
    rw [e] at htb; cases htb; rfl
  subst this
  refine ⟨by unfold parseCovered2; decide, fun h => absurd h (by decide)⟩

/-- multipart records other than flow-stats (aggregate, desc, table, port, queue stats; port / queue stats requests): local -/
theorem C10c_stats_records_local (recv : V) (s t : Slice) (hs : s.WF) (ht : t.WF) (h : s.Agree t) :
    AggregateStats.unmarshal recv s = AggregateStats.unmarshal recv t ∧ DescStats.unmarshal recv s = DescStats.unmarshal recv t ∧
    TableStats.unmarshal recv s = TableStats.unmarshal recv t ∧ PortStats.unmarshal recv s = PortStats.unmarshal recv t ∧
    QueueStats.unmarshal recv s = QueueStats.unmarshal recv t ∧
    PortStatsRequest.unmarshal recv s = PortStatsRequest.unmarshal recv t ∧
    QueueStatsRequest.unmarshal recv s = QueueStatsRequest.unmarshal recv t :=
  have haw : Slice.AW s t := ⟨hs, ht, h⟩
  ⟨AggregateStats_loc recv haw, DescStats_loc recv haw, TableStats_loc recv haw, PortStats_loc recv haw, QueueStats_loc recv haw,
    PortStatsRequest_loc recv haw, QueueStatsRequest_loc recv haw⟩

/-- a multipart reply of any type but flow, on a frame of at least 8 bytes: what the stream's recycled buffer holds behind
    the frame cannot influence the decoded reply -/
theorem C10c_multipart_nonflow_local (cl : MsgLenF) (recv : V) (s t : Slice) (hs : s.WF) (ht : t.WF) (h : s.Agree t)
    (h8 : 8 ≤ t.len) (hty : ∀ mt, t.u16From 8 = .ok mt → mt.toNat ≠ Gen.openflow13.MultipartType_Flow) :
    MultipartReply.unmarshalWith cl recv s = MultipartReply.unmarshalWith cl recv t :=
  MultipartReply_unmarshalWith_loc_partial cl recv ⟨hs, ht, h⟩ h8 hty

example : 8 ≤ (Slice.exact ([4, 19, 0, 16, 0, 0, 0, 7, 0, 3] ++ zeros 6)).len ∧
    ∀ mt, (Slice.exact ([4, 19, 0, 16, 0, 0, 0, 7, 0, 3] ++ zeros 6)).u16From 8 = .ok mt → mt.toNat ≠ Gen.openflow13.MultipartType_Flow := by
  refine ⟨by decide, ?_⟩
  intro mt hmt
  have e : (Slice.exact ([4, 19, 0, 16, 0, 0, 0, 7, 0, 3] ++ zeros 6)).u16From 8 = .ok 3 := rfl
  rw [e] at hmt; cases hmt; decide

/-- the actions whose decoders check `len(data)` before slicing (action header, output, group, set-mpls-ttl, set-nw-ttl,
    set-queue, NX action header): local -/
theorem C10c_actions_guarded_local (recv : V) (s t : Slice) (hs : s.WF) (ht : t.WF) (h : s.Agree t) :
    ActionHeader.unmarshal recv s = ActionHeader.unmarshal recv t ∧ ActionOutput.unmarshal recv s = ActionOutput.unmarshal recv t ∧
    ActionGroup.unmarshal recv s = ActionGroup.unmarshal recv t ∧ ActionMplsTtl.unmarshal recv s = ActionMplsTtl.unmarshal recv t ∧
    ActionNwTtl.unmarshal recv s = ActionNwTtl.unmarshal recv t ∧ ActionSetqueue.unmarshal recv s = ActionSetqueue.unmarshal recv t ∧
    NXActionHeader.unmarshal recv s = NXActionHeader.unmarshal recv t :=
  have haw : Slice.AW s t := ⟨hs, ht, h⟩
  ⟨ActionHeader_loc recv haw, ActionOutput_loc recv haw, ActionGroup_loc recv haw, ActionMplsTtl_loc recv haw,
    ActionNwTtl_loc recv haw, ActionSetqueue_loc recv haw, NXActionHeader_loc recv haw⟩

/-! ### fourth round -/

/-- CAPACITY-dependent site: goto-table re-slices `data[5:8]` unchecked — the same 5 visible bytes panic when the buffer ends
    there and decode when 3 more bytes of capacity follow -/
theorem C10c_gototable_capacity_dependent_counterexample :
    (Slice.mk [0, 1, 0, 8, 7] 5).WF ∧ (Slice.mk [0, 1, 0, 8, 7, 0, 0, 0] 5).WF ∧
    (Slice.mk [0, 1, 0, 8, 7] 5).Agree (Slice.mk [0, 1, 0, 8, 7, 0, 0, 0] 5) ∧
    InstrGotoTable.unmarshal InstrGotoTable.zero (Slice.mk [0, 1, 0, 8, 7] 5) = .panic ∧
    InstrGotoTable.unmarshal InstrGotoTable.zero (Slice.mk [0, 1, 0, 8, 7, 0, 0, 0] 5) =
      .ok (.obj "InstrGotoTable" [.obj "InstrHeader" [.num 1, .num 8], .num 7, .bytes []]) :=
  InstrGotoTable_capacity_dependent_counterexample

/-- CAPACITY-dependent site: write-metadata re-slices `data[4:8]`, `data[8:16]`, `data[16:24]` unchecked -/
theorem C10c_writemetadata_capacity_dependent_counterexample :
    (Slice.mk [0, 2, 0, 24, 0, 0, 0, 0] 8).WF ∧ (Slice.mk ([0, 2, 0, 24, 0, 0, 0, 0] ++ zeros 16) 8).WF ∧
    (Slice.mk [0, 2, 0, 24, 0, 0, 0, 0] 8).Agree (Slice.mk ([0, 2, 0, 24, 0, 0, 0, 0] ++ zeros 16) 8) ∧
    InstrWriteMetadata.unmarshal InstrWriteMetadata.zero (Slice.mk [0, 2, 0, 24, 0, 0, 0, 0] 8) = .panic ∧
    InstrWriteMetadata.unmarshal InstrWriteMetadata.zero (Slice.mk ([0, 2, 0, 24, 0, 0, 0, 0] ++ zeros 16) 8) =
      .ok (.obj "InstrWriteMetadata" [.obj "InstrHeader" [.num 2, .num 24], .bytes [], .num 0, .num 0]) :=
  InstrWriteMetadata_capacity_dependent_counterexample

/-- … and its metadata / mask are then the 16 bytes behind the slice (content over-read: metadata 1 versus 2) -/
theorem C10c_writemetadata_not_local_counterexample :
    (Slice.mk ([0, 2, 0, 24, 0, 0, 0, 0] ++ [0,0,0,0,0,0,0,1] ++ zeros 8) 8).Agree (Slice.mk ([0, 2, 0, 24, 0, 0, 0, 0] ++ [0,0,0,0,0,0,0,2] ++ zeros 8) 8) ∧
    InstrWriteMetadata.unmarshal InstrWriteMetadata.zero (Slice.mk ([0, 2, 0, 24, 0, 0, 0, 0] ++ [0,0,0,0,0,0,0,1] ++ zeros 8) 8) =
      .ok (.obj "InstrWriteMetadata" [.obj "InstrHeader" [.num 2, .num 24], .bytes [], .num 1, .num 0]) ∧
    InstrWriteMetadata.unmarshal InstrWriteMetadata.zero (Slice.mk ([0, 2, 0, 24, 0, 0, 0, 0] ++ [0,0,0,0,0,0,0,2] ++ zeros 8) 8) =
      .ok (.obj "InstrWriteMetadata" [.obj "InstrHeader" [.num 2, .num 24], .bytes [], .num 2, .num 0]) :=
  InstrWriteMetadata_not_local_counterexample

/-- through Parse, frame length = Length field = 61: a flow-mod ending in a 5-byte goto-table fragment is REJECTED when the
    buffer ends with the frame and ACCEPTED when 3 more bytes of capacity follow: the outcome depends on the buffer alone -/
theorem C10c_parse_flowmod_capacity_dependent_counterexample :
    (fmGoto []).WF ∧ (fmGoto [0, 0, 0]).WF ∧ (fmGoto []).Agree (fmGoto [0, 0, 0]) ∧
    parse 62 (fmGoto []) = .err ∧ (parse 62 (fmGoto [0, 0, 0])).isOk = true := parse_flowmod_capacity_dependent_counterexample

/-- FINAL STATEMENT, widened: good frames now include multipart replies of every type but flow, and flow-mods satisfying
    any condition `FM` under which the flow-mod decoder is local.  On such a frame, what the stream's recycled buffer holds
    behind the frame (and how large it is) cannot influence the message that Parse delivers. -/
theorem C10c_parse_local2 (FM : Slice → Prop)
    (hFM : ∀ s t, Slice.AW s t → FM t → FlowMod.unmarshal flowModRecv s = FlowMod.unmarshal flowModRecv t)
    (n : Nat) (s t : Slice) (hs : s.WF) (ht : t.WF) (h : s.Agree t) (hg : GoodFrame2 FM n t) (d d' : Nat) :
    parse d s = parse d' t := parse_good2_loc FM hFM n ⟨hs, ht, h⟩ hg d d'

/-- the hypotheses are satisfiable: with `FM := False` (no flow-mod allowed) a multipart reply of type table is good -/
example : GoodFrame2 (fun _ => False) 1 (Slice.exact ([4, 19, 0, 16, 0, 0, 0, 7, 0, 3] ++ zeros 6)) := by
  unfold GoodFrame2
  refine ⟨by decide, ?_⟩
  intro tb htb
  have : tb = 19 := by
    have e : (Slice.exact ([4, 19, 0, 16, 0, 0, 0, 7, 0, 3] ++ zeros 6)).byteAt 1 = .ok 19 := rfl
    rw [e] at htb; cases htb; rfl
  subst this
  refine ⟨fun h => absurd h (by decide), fun _ mt hmt => ?_, fun h => absurd h (by decide)⟩
  have e : (Slice.exact ([4, 19, 0, 16, 0, 0, 0, 7, 0, 3] ++ zeros 6)).u16From 8 = .ok 3 := rfl
  rw [e] at hmt; cases hmt; decide

/-- the actions that re-slice `data[:4]` unchecked (dec-nw-ttl & co., push, pop-vlan, pop-mpls) and the type switch of
    DecodeAction (`data[:2]`) are local once the slice holds 4 (resp. 2) bytes -/
theorem C10c_actions_unguarded_local_partial (recv : V) (s t : Slice) (hs : s.WF) (ht : t.WF) (h : s.Agree t) (h4 : 4 ≤ t.len) :
    ActionDecNwTtl.unmarshal recv s = ActionDecNwTtl.unmarshal recv t ∧ ActionPush.unmarshal recv s = ActionPush.unmarshal recv t ∧
    ActionPopVlan.unmarshal recv s = ActionPopVlan.unmarshal recv t ∧ ActionPopMpls.unmarshal recv s = ActionPopMpls.unmarshal recv t ∧
    newActionFor s = newActionFor t :=
  have haw : Slice.AW s t := ⟨hs, ht, h⟩
  ⟨ActionDecNwTtl_loc_partial recv haw h4, ActionPush_loc_partial recv haw h4, ActionPopVlan_loc_partial recv haw h4,
    ActionPopMpls_loc_partial recv haw h4, newActionFor_loc_partial haw (by omega)⟩

example : 4 ≤ (Slice.exact [0, 24, 0, 8, 0, 0, 0, 0]).len := by decide

/-- DecodeAction on at least 4 bytes, for the covered kinds (`ActionKindCovered`: header, output, set-queue, group,
    set-mpls-ttl, set-nw-ttl, dec-nw-ttl & co., push, pop-vlan, pop-mpls, NX header, and the nil receiver): local -/
theorem C10c_decodeaction_local_covered (s t : Slice) (hs : s.WF) (ht : t.WF) (h : s.Agree t) (h4 : 4 ≤ t.len)
    (hk : ∀ a, newActionFor t = .ok a → ActionKindCovered a.kind) (d d' : Nat) :
    DecodeAction (d + 1) s = DecodeAction (d' + 1) t := DecodeAction_loc_covered ⟨hs, ht, h⟩ h4 hk d d'

/-- an output action of 16 bytes meets the hypotheses -/
example : 4 ≤ (Slice.exact ([0, 0, 0, 16, 0, 0, 0, 1, 0xff, 0xff] ++ zeros 6)).len ∧
    ∀ a, newActionFor (Slice.exact ([0, 0, 0, 16, 0, 0, 0, 1, 0xff, 0xff] ++ zeros 6)) = .ok a → ActionKindCovered a.kind := by
  refine ⟨by decide, ?_⟩
  intro a ha
  have e : newActionFor (Slice.exact ([0, 0, 0, 16, 0, 0, 0, 1, 0xff, 0xff] ++ zeros 6)) = .ok ActionOutput.zero := rfl
  rw [e] at ha; cases ha
  exact Or.inr (Or.inl rfl)

/-- the action loop of an instruction / bucket (`for n < limit { DecodeAction(data[n:]) }`): local when every offset the
    loop reaches (an invariant `I` closed under "advance by the decoded action's length") leaves at least 4 bytes inside the
    frame and starts an action of a covered kind — the exact in-frame condition the Go code fails to check -/
theorem C10c_action_loop_local (s t : Slice) (hs : s.WF) (ht : t.WF) (h : s.Agree t) (limit n0 : Nat) (xs0 : List V)
    (I : Nat → Prop) (h0 : I n0)
    (hstep : ∀ n, I n → n < limit →
      n + 4 ≤ t.len ∧ (∀ d a, t.fromR n = .ok d → newActionFor d = .ok a → ActionKindCovered a.kind) ∧
      (∀ d act l act', t.fromR n = .ok d → DecodeAction (d.len + 1) d = .ok act → Action.lenM act = .ok (l, act') → l ≠ 0 →
        I (n + l.toNat))) :
    InstrAux.decodeActions s limit n0 xs0 = InstrAux.decodeActions t limit n0 xs0 :=
  decodeActions_loc_inv ⟨hs, ht, h⟩ limit n0 xs0 I h0 hstep

/-- trivially satisfiable: an empty action list (limit = start offset) -/
example : ∀ n, (fun k => k = 8) n → n < 8 → n + 4 ≤ (Slice.exact (zeros 8)).len ∧ True := by
  intro n hn hlt; subst hn; exact absurd hlt (by decide)

/-- instructions: goto-table is local on 8 bytes, write-metadata on 24, meter and the instruction header always (header:
    on 4 bytes); an actions instruction when its action loop stays inside the frame on covered kinds -/
theorem C10c_instructions_local_partial (recv : V) (s t : Slice) (hs : s.WF) (ht : t.WF) (h : s.Agree t) :
    (8 ≤ t.len → InstrGotoTable.unmarshal recv s = InstrGotoTable.unmarshal recv t) ∧
    (24 ≤ t.len → InstrWriteMetadata.unmarshal recv s = InstrWriteMetadata.unmarshal recv t) ∧
    InstrMeter.unmarshal recv s = InstrMeter.unmarshal recv t ∧
    (4 ≤ t.len → InstrHeader.unmarshal4 recv s = InstrHeader.unmarshal4 recv t) :=
  have haw : Slice.AW s t := ⟨hs, ht, h⟩
  ⟨InstrGotoTable_loc_partial recv haw, InstrWriteMetadata_loc_partial recv haw, InstrMeter_loc recv haw,
    InstrHeader_unmarshal4_loc_partial recv haw⟩

example : 24 ≤ (Slice.exact ([0, 2, 0, 24] ++ zeros 20)).len := by decide

/-! ### fifth round -/

/-- the flow-mod decoder as Parse calls it: on agreeing slices whose VISIBLE bytes pass the in-frame check (every instruction
    header, goto-table, write-metadata and every covered action that the loops reach lies inside the frame), what the
    stream's recycled buffer holds behind the frame — and how large it is — cannot influence the decoded flow-mod -/
theorem C10c_flowmod_local_inframe (s t : Slice) (hs : s.WF) (ht : t.WF) (h : s.Agree t) (hok : FlowModInFrame t) :
    FlowMod.unmarshal flowModRecv s = FlowMod.unmarshal flowModRecv t := FlowMod_loc_visible ⟨hs, ht, h⟩ hok

/-- a conformant flow-mod (88 bytes: empty match, goto-table 5, apply-actions [output port 1]) passes the check, whatever
    follows it in the buffer -/
theorem C10c_flowmod_conformant_inframe (tail : Bytes) : FlowModInFrame ⟨fmGoodFrame ++ tail, 88⟩ := fmGoodFrame_inframe tail

/-- the over-read frame of `C10c_parse_flowmod_not_local_counterexample` fails the check -/
theorem C10c_flowmod_cex_not_inframe : ¬ FlowModInFrame fmCexT := fmCex_not_inframe

/-- FINAL STATEMENT (third form).  Parse is local — the delivered message depends neither on what the stream's recycled
    buffer holds behind the frame, nor on its capacity, nor on the nesting bounds derived from it — on every frame of at
    least 8 bytes EXCEPT: (a) TLV table replies with Length < 32 (`C10c_parse_tlvtablereply_not_local_counterexample`);
    (b) flow-mods whose visible bytes fail `FlowModInFrame` (`C10c_parse_flowmod_not_local_counterexample`,
    `C10c_parse_flowmod_capacity_dependent_counterexample`); (c) multipart replies of type flow
    (`C10c_parse_multipart_flowstats_not_local_counterexample`); (d) experimenter frames cut before their Length field;
    a bundle-add is good when its embedded message is. -/
theorem C10c_parse_local3 (n : Nat) (s t : Slice) (hs : s.WF) (ht : t.WF) (h : s.Agree t)
    (hg : GoodFrame2 FlowModInFrame n t) (d d' : Nat) : parse d s = parse d' t :=
  parse_good3_loc n ⟨hs, ht, h⟩ hg d d'

/-- the conformant flow-mod is a good frame, with any stale bytes behind it -/
example (tail : Bytes) : GoodFrame2 FlowModInFrame 1 ⟨fmGoodFrame ++ tail, 88⟩ := by
  unfold GoodFrame2
  refine ⟨by show 8 ≤ 88; decide, ?_⟩
  intro tb htb
  have : tb = 14 := by
    have e : (Slice.mk (fmGoodFrame ++ tail) 88).byteAt 1 = .ok 14 := rfl
    rw [e] at htb; cases htb; rfl
  subst this
  exact ⟨fun _ => fmGoodFrame_inframe tail, fun h => absurd h (by decide), fun h => absurd h (by decide)⟩

/-! ### sixth round -/

/-- the multipart reply as Parse decodes it, flow-stats records included: on agreeing slices whose VISIBLE bytes pass the
    in-frame check (every reached record holds its 48 fixed bytes, its instruction loop up to the record's declared length
    passes the instruction / action checks), what the stream's recycled buffer holds behind the frame cannot influence the
    decoded reply -/
theorem C10c_multipart_local_inframe (s t : Slice) (hs : s.WF) (ht : t.WF) (h : s.Agree t) (hok : FlowStatsInFrame t) :
    MultipartReply.unmarshalWith anyLenM MultipartReply.zero s = MultipartReply.unmarshalWith anyLenM MultipartReply.zero t :=
  MultipartReply_loc_visible ⟨hs, ht, h⟩ hok

/-- a conformant flow-stats reply (104 bytes, one record: empty match, goto-table 5, apply-actions [output port 1]) passes the
    check, whatever follows it in the buffer -/
theorem C10c_flowstats_conformant_inframe (tail : Bytes) : FlowStatsInFrame ⟨mpGoodFrame ++ tail, 104⟩ := mpGoodFrame_inframe tail

/-- the over-read frame of `C10c_parse_multipart_flowstats_not_local_counterexample` fails the check -/
theorem C10c_flowstats_cex_not_inframe : ¬ FlowStatsInFrame mpCexT := mpCex_not_inframe

/-- FINAL STATEMENT (fourth form).  Parse is local — the delivered message depends neither on what the stream's recycled
    buffer holds behind the frame, nor on its capacity, nor on the nesting bounds derived from it — on every frame of at
    least 8 bytes EXCEPT: (a) TLV table replies with Length < 32; (b) flow-mods whose visible bytes fail `FlowModInFrame`;
    (c) multipart replies whose visible bytes fail `FlowStatsInFrame`; (d) experimenter frames cut before their own Length
    field; a bundle-add is good when its embedded message is.  Each exception has a machine-checked counterexample. -/
theorem C10c_parse_local4 (n : Nat) (s t : Slice) (hs : s.WF) (ht : t.WF) (h : s.Agree t) (hg : GoodFrame3 n t) (d d' : Nat) :
    parse d s = parse d' t := parse_good4_loc n ⟨hs, ht, h⟩ hg d d'

/-- the conformant flow-stats reply is a good frame, with any stale bytes behind it -/
example (tail : Bytes) : GoodFrame3 1 ⟨mpGoodFrame ++ tail, 104⟩ := by
  unfold GoodFrame3
  refine ⟨by show 8 ≤ 104; decide, ?_⟩
  intro tb htb
  have : tb = 19 := by
    have e : (Slice.mk (mpGoodFrame ++ tail) 104).byteAt 1 = .ok 19 := rfl
    rw [e] at htb; cases htb; rfl
  subst this
  exact ⟨fun h => absurd h (by decide), fun _ => mpGoodFrame_inframe tail, fun h => absurd h (by decide)⟩

/-- … and so is the conformant flow-mod -/
example (tail : Bytes) : GoodFrame3 1 ⟨fmGoodFrame ++ tail, 88⟩ := by
  unfold GoodFrame3
  refine ⟨by show 8 ≤ 88; decide, ?_⟩
  intro tb htb
  have : tb = 14 := by
    have e : (Slice.mk (fmGoodFrame ++ tail) 88).byteAt 1 = .ok 14 := rfl
    rw [e] at htb; cases htb; rfl
  subst this
  exact ⟨fun _ => fmGoodFrame_inframe tail, fun h => absurd h (by decide), fun h => absurd h (by decide)⟩

/-! ### last round -/

/-- more Nicira kinds whose decoders are local without any condition (resubmit, resubmit-table, reg-move, controller,
    conjunction, ct_clear, dec_ttl) and set-field -/
theorem C10c_nicira_local (recv : V) (s t : Slice) (hs : s.WF) (ht : t.WF) (h : s.Agree t) :
    NXActionResubmit.unmarshal recv s = NXActionResubmit.unmarshal recv t ∧
    NXActionResubmitTable.unmarshal recv s = NXActionResubmitTable.unmarshal recv t ∧
    NXActionRegMove.unmarshal recv s = NXActionRegMove.unmarshal recv t ∧
    NXActionController.unmarshal recv s = NXActionController.unmarshal recv t ∧
    NXActionConjunction.unmarshal recv s = NXActionConjunction.unmarshal recv t ∧
    NXActionCTClear.unmarshal recv s = NXActionCTClear.unmarshal recv t ∧
    NXActionDecTTL.unmarshal recv s = NXActionDecTTL.unmarshal recv t ∧
    ActionSetField.unmarshal recv s = ActionSetField.unmarshal recv t :=
  have haw : Slice.AW s t := ⟨hs, ht, h⟩
  ⟨NXActionResubmit_loc recv haw, NXActionResubmitTable_loc recv haw, NXActionRegMove_loc recv haw,
    NXActionController_loc recv haw, NXActionConjunction_loc recv haw, NXActionCTClear_loc recv haw,
    NXActionDecTTL_loc recv haw, ActionSetField_loc recv haw⟩

/-- reg-load and output-reg re-slice `data[12:16]` against the capacity: local on slices of at least 16 bytes -/
theorem C10c_nicira_reg_local_partial (recv : V) (s t : Slice) (hs : s.WF) (ht : t.WF) (h : s.Agree t) (h16 : 16 ≤ t.len) :
    NXActionRegLoad.unmarshal recv s = NXActionRegLoad.unmarshal recv t ∧
    NXActionOutputReg.unmarshal recv s = NXActionOutputReg.unmarshal recv t :=
  have haw : Slice.AW s t := ⟨hs, ht, h⟩
  ⟨NXActionRegLoad_loc_partial recv haw h16, NXActionOutputReg_loc_partial recv haw h16⟩

example : 16 ≤ (Slice.exact (zeros 24)).len := by decide

/-- an Open-vSwitch-style flow-mod (112 bytes: apply-actions [set-field in_port:=1, resubmit-table 5, ct_clear]) passes the
    widened in-frame check, whatever follows it in the buffer (the round-5 check rejected it: `fmOvsFrame_not_inframe_old`) -/
theorem C10c_flowmod_ovs_conformant_inframe (tail : Bytes) : FlowModInFrame2 ⟨fmOvsFrame ++ tail, 112⟩ := fmOvsFrame_inframe2 tail

/-- FINAL STATEMENT (fifth form), over the widened kind predicate `ActionKindCovered2`.  Parse is local — the delivered
    message depends neither on what the stream's recycled buffer holds behind the frame, nor on its capacity, nor on the
    nesting bounds derived from it — on every frame of at least 8 bytes EXCEPT: (a) TLV table replies with Length < 32;
    (b) flow-mods whose visible bytes fail `FlowModInFrame2`; (c) multipart replies whose visible bytes fail
    `FlowStatsInFrame2`; (d) experimenter frames cut before their own Length field; a bundle-add is good when its
    embedded message is. -/
theorem C10c_parse_local5 (n : Nat) (s t : Slice) (hs : s.WF) (ht : t.WF) (h : s.Agree t) (hg : GoodFrame32 n t) (d d' : Nat) :
    parse d s = parse d' t := parse_good4_loc2 n ⟨hs, ht, h⟩ hg d d'

/-- the Open-vSwitch-style flow-mod is a good frame, with any stale bytes behind it -/
example (tail : Bytes) : GoodFrame32 1 ⟨fmOvsFrame ++ tail, 112⟩ := by
  unfold GoodFrame32
  refine ⟨by show 8 ≤ 112; decide, ?_⟩
  intro tb htb
  have : tb = 14 := by
    have e : (Slice.mk (fmOvsFrame ++ tail) 112).byteAt 1 = .ok 14 := rfl
    rw [e] at htb; cases htb; rfl
  subst this
  exact ⟨fun _ => fmOvsFrame_inframe2 tail, fun h => absurd h (by decide), fun h => absurd h (by decide)⟩

/-- the round-3 over-read flow-mod fails the FINAL flow-mod predicate: exception (b) of `C10c_parse_local5` is witnessed -/
theorem C10c_flowmod_cex_not_inframe2 : ¬ FlowModInFrame2 fmCexT := fmCex_not_inframe2

/-- the round-3 over-read multipart reply fails the FINAL flow-stats predicate: exception (c) is witnessed -/
theorem C10c_flowstats_cex_not_inframe2 : ¬ FlowStatsInFrame2 mpCexT := mpCex_not_inframe2

/-- an Open-vSwitch-style flow-stats reply (128 bytes, one record: apply-actions [set-field, resubmit-table, ct_clear])
    passes the final flow-stats predicate, whatever follows it in the buffer -/
theorem C10c_flowstats_ovs_conformant_inframe (tail : Bytes) : FlowStatsInFrame2 ⟨mpOvsFrame ++ tail, 128⟩ :=
  mpOvsFrame_inframe2 tail

end OFV.Props.C10c
