/-
  C10c — frame locality: what a decoder returns depends only on the VISIBLE bytes `data[0:len]` of the slice it is given,
  never on what the backing array holds between `len` and `cap` — in the real system the stale contents of the stream's
  recycled pool buffer behind the current frame.  This is the model-level reason why a delivered message cannot be
  corrupted by, or leak, an older frame (C10 / C12); it does NOT follow from totality (C08): Go's `data[a:b]` is checked
  against the capacity only, so a decoder that re-slices without a length check silently reads stale bytes.

  `s.Agree t` : same length and same visible bytes (the backing arrays may differ beyond `len`).

  Proved local, for every receiver and all well-formed agreeing slices:
    * every packet decoder of `protocol`: VLAN, ARP, ICMP, TCP, UDP, IGMPv1/2, IGMPv3 query / group record / report,
      IPv6 option / hop-by-hop / routing / fragment headers, IPv4, IPv6, Ethernet, util.Buffer, DHCP options;
    * OpenFlow: hello element header, controller id, TLV table map / mod, bundle control, bundle experimenter property
      (unconditionally); switch config, error, vendor error, hello (for frames of at least 8 bytes);
    * `Parse` (any nesting bounds) for frames of at least 8 bytes whose type is one of the covered kinds.

  NOT local (concrete counterexamples, each an over-read in the Go code):
    * `Header.UnmarshalBinary`            common/header.go:56-62    `len < 4` is checked, `data[4:8]` is read
    * `HelloElemVersionBitmap.UnmarshalBinary` common/header.go:158 `data[:4]` unchecked
    * `TLVTableReply.UnmarshalBinary`     openflow13/nxt_message.go:223  `data[n:n+10]` unchecked, loop skipped
    * `VendorHeader.UnmarshalBinary`      openflow13/openflow13.go:847-849  `data[n:v.Header.Length]`, Length unchecked
  Reachability through `Parse` (second round):
    * TLV table reply: REACHABLE with a frame whose length equals its Length field (22 bytes in a 32-byte buffer):
      `C10c_parse_tlvtablereply_not_local_counterexample`.
    * vendor header: reachable only with a slice shorter than the frame's own Length field
      (`C10c_parse_vendor_not_local_counterexample`); header: only with 4..7 bytes
      (`C10c_parse_header_not_local_counterexample`); version bitmap: not reachable (`Hello` is local for len ≥ 8).
  Second round, proved local: PhyPort (both sides panic on a short slice, else agree), port-status, features reply,
  every match payload kind, DecodeMatchField, MatchField, Match, flow-removed, packet-in, multipart request,
  bundle-add (given the embedded Parse), the experimenter message (given Length ≤ len and a local body decoder), and
  `Parse` for every kind except flow-mod and multipart reply (`C10c_parse_local_covered2`).
  Left open: flow-mod, multipart reply (actions, instructions, stats records), packet-out; Parse on experimenter frames
  that carry a bundle-add (needs an induction over the nesting) .
-/
import OFV.Lemmas.Local4
namespace OFV.Props.C10c
open OFV OFV.Go OFV.Model

/-- an agreeing pair that differs behind the frame: the same 14 visible bytes, different stale bytes after them -/
example : (Slice.mk ([1,2,3,4,5,6,7,8,9,10,11,12,8,6] ++ [0xaa, 0xbb]) 14).WF ∧ (Slice.mk ([1,2,3,4,5,6,7,8,9,10,11,12,8,6] ++ [0xcc]) 14).WF ∧
    (Slice.mk ([1,2,3,4,5,6,7,8,9,10,11,12,8,6] ++ [0xaa, 0xbb]) 14).Agree (Slice.mk ([1,2,3,4,5,6,7,8,9,10,11,12,8,6] ++ [0xcc]) 14) := by
  unfold Slice.WF Slice.Agree; decide

/-- the read primitives that Go checks against `len` (`data[i]`, `data[a:]`, `UintN(data[a:])`) see the visible bytes only:
    what the recycled buffer holds behind the frame cannot influence them -/
theorem C10c_primitives_local (s t : Slice) (hs : s.WF) (ht : t.WF) (h : s.Agree t) (n : Nat) :
    s.index n = t.index n ∧ s.byteAt n = t.byteAt n ∧ s.u16From n = t.u16From n ∧ s.u32From n = t.u32From n ∧
    s.u64From n = t.u64From n :=
  have haw : Slice.AW s t := ⟨hs, ht, h⟩
  ⟨Slice.index_loc haw n, Slice.byteAt_loc haw n, Slice.u16From_loc haw n, Slice.u32From_loc haw n, Slice.u64From_loc haw n⟩

/-- `data[a:]` of agreeing slices: both panic, or the two sub-slices are well-formed and agree -/
theorem C10c_from_local (s t : Slice) (hs : s.WF) (ht : t.WF) (h : s.Agree t) (a : Nat) :
    (s.fromR a = .panic ∧ t.fromR a = .panic) ∨
    ∃ x y, s.fromR a = .ok x ∧ t.fromR a = .ok y ∧ x.WF ∧ y.WF ∧ x.Agree y :=
  Slice.fromR_loc ⟨hs, ht, h⟩ a

/-- the primitives that Go checks against `cap` only (`data[a:b]`, `data[:b]`, `UintN(data[a:b])`) are local as long as
    the window ends inside the visible bytes (`b ≤ len`) -/
theorem C10c_slice_local (s t : Slice) (hs : s.WF) (ht : t.WF) (h : s.Agree t) (a b : Nat) (hb : b ≤ t.len) :
    ((s.sliceR a b = .panic ∧ t.sliceR a b = .panic) ∨
      ∃ x y, s.sliceR a b = .ok x ∧ t.sliceR a b = .ok y ∧ x.WF ∧ y.WF ∧ x.Agree y) ∧
    s.u16In a b = t.u16In a b ∧ s.u32In a b = t.u32In a b ∧ s.u64In a b = t.u64In a b :=
  have haw : Slice.AW s t := ⟨hs, ht, h⟩
  ⟨Slice.sliceR_loc haw a b hb, Slice.u16In_loc haw a b hb, Slice.u32In_loc haw a b hb, Slice.u64In_loc haw a b hb⟩

example : (4 : Nat) ≤ (Slice.mk [1, 2, 3, 4, 5, 6] 4).len := by decide

/-- leaf packet decoders (VLAN, ARP, ICMP, TCP, UDP, IGMPv1/2, fragment header, IPv6 option, util.Buffer): what the stream's
    recycled buffer holds behind the frame cannot influence the decoded header -/
theorem C10c_leaf_local (recv : V) (s t : Slice) (hs : s.WF) (ht : t.WF) (h : s.Agree t) :
    PVLAN.unmarshal recv s = PVLAN.unmarshal recv t ∧ PARP.unmarshal recv s = PARP.unmarshal recv t ∧
    PICMP.unmarshal recv s = PICMP.unmarshal recv t ∧ PTCP.unmarshal recv s = PTCP.unmarshal recv t ∧
    PUDP.unmarshal recv s = PUDP.unmarshal recv t ∧ PIGMPv1or2.unmarshal recv s = PIGMPv1or2.unmarshal recv t ∧
    PFragment.unmarshal recv s = PFragment.unmarshal recv t ∧ POption.unmarshal recv s = POption.unmarshal recv t ∧
    UBuffer.unmarshal recv s = UBuffer.unmarshal recv t :=
  have haw : Slice.AW s t := ⟨hs, ht, h⟩
  ⟨PVLAN_loc recv haw, PARP_loc recv haw, PICMP_loc recv haw, PTCP_loc recv haw, PUDP_loc recv haw, PIGMPv1or2_loc recv haw,
    PFragment_loc recv haw, POption_loc recv haw, UBuffer_loc recv haw⟩

/-- IGMPv3 query, group record and membership report (address and word lists, nested records): what the recycled buffer
    holds behind the frame cannot influence the decoded message -/
theorem C10c_igmpv3_local (recv : V) (s t : Slice) (hs : s.WF) (ht : t.WF) (h : s.Agree t) :
    PIGMPv3Query.unmarshal recv s = PIGMPv3Query.unmarshal recv t ∧
    PIGMPv3GroupRecord.unmarshal recv s = PIGMPv3GroupRecord.unmarshal recv t ∧
    PIGMPv3MembershipReport.unmarshal recv s = PIGMPv3MembershipReport.unmarshal recv t :=
  have haw : Slice.AW s t := ⟨hs, ht, h⟩
  ⟨PIGMPv3Query_loc recv haw, PIGMPv3GroupRecord_loc recv haw, PIGMPv3MembershipReport_loc recv haw⟩

/-- IPv6 extension headers with their option loop / routing data: local -/
theorem C10c_ip6ext_local (recv : V) (s t : Slice) (hs : s.WF) (ht : t.WF) (h : s.Agree t) :
    PHopByHop.unmarshal recv s = PHopByHop.unmarshal recv t ∧ PRouting.unmarshal recv s = PRouting.unmarshal recv t :=
  have haw : Slice.AW s t := ⟨hs, ht, h⟩
  ⟨PHopByHop_loc recv haw, PRouting_loc recv haw⟩

/-- IPv4 (options window `data[20:IHL*4]`, ICMP / UDP / opaque payload): what the stream's recycled buffer holds behind
    the frame cannot influence the decoded packet -/
theorem C10c_ipv4_local (recv : V) (s t : Slice) (hs : s.WF) (ht : t.WF) (h : s.Agree t) :
    PIPv4.unmarshal recv s = PIPv4.unmarshal recv t := PIPv4_local recv s t hs ht h

/-- IPv6 (extension header chain, ICMPv6 / UDP / opaque payload): what the stream's recycled buffer holds behind the
    frame cannot influence the decoded packet -/
theorem C10c_ipv6_local (recv : V) (s t : Slice) (hs : s.WF) (ht : t.WF) (h : s.Agree t) :
    PIPv6.unmarshal recv s = PIPv6.unmarshal recv t := PIPv6_local recv s t hs ht h

/-- Ethernet (optional VLAN tag; IPv4 / IPv6 / ARP / opaque payload, to any depth): what the stream's recycled buffer
    holds behind the frame cannot influence the decoded frame — the packet carried by a packet-in is a function of its
    own bytes -/
theorem C10c_ethernet_local (recv : V) (s t : Slice) (hs : s.WF) (ht : t.WF) (h : s.Agree t) :
    PEthernet.unmarshal recv s = PEthernet.unmarshal recv t := PEthernet_local recv s t hs ht h

/-- DHCPParseOptions: the option window is checked against `len(in)` before it is sliced: local -/
theorem C10c_dhcp_options_local (s t : Slice) (hs : s.WF) (ht : t.WF) (h : s.Agree t) :
    PDhcpOpt.parseOptions s = PDhcpOpt.parseOptions t := PDhcpOpt_parseOptions_local s t hs ht h

/-- FALSE for the OpenFlow header: `Header.UnmarshalBinary` (common/header.go:56-62) refuses only `len(data) < 4` and then
    reads the Xid from `data[4:8]`.  The two 4-byte slices `04 00 00 08 | 00 00 00 01` and `04 00 00 08 | 00 00 00 02`
    (`|` = end of the slice, the rest is spare capacity) agree and decode to Xid 1 and Xid 2: stale buffer contents end up
    in the decoded header. -/
theorem C10c_header_not_local_counterexample :
    hdrCexS.WF ∧ hdrCexT.WF ∧ hdrCexS.Agree hdrCexT ∧
    Header.unmarshal Header.zero hdrCexS ≠ Header.unmarshal Header.zero hdrCexT := Header_not_local_counterexample

/-- the provable part: the header decoder is local on slices that hold the whole 8-byte header (or fewer than 4 bytes,
    which are refused) -/
theorem C10c_header_local_partial (recv : V) (s t : Slice) (hs : s.WF) (ht : t.WF) (h : s.Agree t)
    (h8 : t.len < 4 ∨ 8 ≤ t.len) : Header.unmarshal recv s = Header.unmarshal recv t :=
  Header_loc_partial recv ⟨hs, ht, h⟩ h8

example : (Slice.exact [4, 0, 0, 8, 0, 0, 0, 7]).len < 4 ∨ 8 ≤ (Slice.exact [4, 0, 0, 8, 0, 0, 0, 7]).len := by decide

/-- FALSE for the hello version-bitmap element called on its own: `data[:4]` (common/header.go:158) is not checked
    against `len`; on an empty slice the element header is whatever the buffer holds. -/
theorem C10c_versionbitmap_not_local_counterexample :
    vbmCexS.WF ∧ vbmCexT.WF ∧ vbmCexS.Agree vbmCexT ∧
    HelloElemVersionBitmap.unmarshal HelloElemVersionBitmap.new vbmCexS ≠
      HelloElemVersionBitmap.unmarshal HelloElemVersionBitmap.new vbmCexT := HelloElemVersionBitmap_not_local_counterexample

/-- the provable part: local on slices of at least 4 bytes (which is how `Hello.UnmarshalBinary` calls it) -/
theorem C10c_versionbitmap_local_partial (recv : V) (s t : Slice) (hs : s.WF) (ht : t.WF) (h : s.Agree t) (h4 : 4 ≤ t.len) :
    HelloElemVersionBitmap.unmarshal recv s = HelloElemVersionBitmap.unmarshal recv t :=
  HelloElemVersionBitmap_loc_partial recv ⟨hs, ht, h⟩ h4

example : 4 ≤ (Slice.exact [0, 1, 0, 8, 0, 0, 0, 16]).len := by decide

/-- FALSE for the TLV table reply body: `copy(t.reserved[0:], data[n:n+10])` (openflow13/nxt_message.go:223) is not
    checked against `len` and the map loop `for n < len(data)` is skipped on a short slice: a 6-byte body is accepted and
    its 10 reserved bytes come from behind the slice. -/
theorem C10c_tlvtablereply_not_local_counterexample :
    tlvCexS.WF ∧ tlvCexT.WF ∧ tlvCexS.Agree tlvCexT ∧
    TLVTableReply.unmarshal TLVTableReply.zero tlvCexS ≠ TLVTableReply.unmarshal TLVTableReply.zero tlvCexT :=
  TLVTableReply_not_local_counterexample

/-- the provable part: local on bodies that hold the 16 fixed bytes -/
theorem C10c_tlvtablereply_local_partial (recv : V) (s t : Slice) (hs : s.WF) (ht : t.WF) (h : s.Agree t) (h16 : 16 ≤ t.len) :
    TLVTableReply.unmarshal recv s = TLVTableReply.unmarshal recv t := TLVTableReply_loc_partial recv ⟨hs, ht, h⟩ h16

example : 16 ≤ (Slice.exact (zeros 24)).len := by decide

/-- OpenFlow leaf kinds whose decoders check their length first: hello element header, controller id, TLV table map and
    mod, bundle control, bundle experimenter property: local without any condition -/
theorem C10c_of_leaf_local (recv : V) (s t : Slice) (hs : s.WF) (ht : t.WF) (h : s.Agree t) :
    HelloElemHeader.unmarshal recv s = HelloElemHeader.unmarshal recv t ∧
    ControllerID.unmarshal recv s = ControllerID.unmarshal recv t ∧
    TLVTableMap.unmarshal recv s = TLVTableMap.unmarshal recv t ∧
    TLVTableMod.unmarshal recv s = TLVTableMod.unmarshal recv t ∧
    BundleControl.unmarshal recv s = BundleControl.unmarshal recv t ∧
    BundlePropertyExperimenter.unmarshal recv s = BundlePropertyExperimenter.unmarshal recv t :=
  have haw : Slice.AW s t := ⟨hs, ht, h⟩
  ⟨HelloElemHeader_loc recv haw, ControllerID_loc recv haw, TLVTableMap_loc recv haw, TLVTableMod_loc recv haw,
    BundleControl_loc recv haw, BundlePropertyExperimenter_loc recv haw⟩

/-- messages that start with the OpenFlow header — switch config, error, vendor error, hello (element loop included):
    for a frame of at least 8 bytes, what the stream's recycled buffer holds behind the frame cannot influence the
    decoded message -/
theorem C10c_simple_messages_local (recv : V) (s t : Slice) (hs : s.WF) (ht : t.WF) (h : s.Agree t) (h8 : 8 ≤ t.len) :
    SwitchConfig.unmarshal recv s = SwitchConfig.unmarshal recv t ∧ ErrorMsg.unmarshal recv s = ErrorMsg.unmarshal recv t ∧
    VendorError.unmarshal recv s = VendorError.unmarshal recv t ∧ Hello.unmarshal recv s = Hello.unmarshal recv t :=
  have haw : Slice.AW s t := ⟨hs, ht, h⟩
  ⟨SwitchConfig_loc recv haw h8, ErrorMsg_loc recv haw h8, VendorError_loc recv haw h8, Hello_loc recv haw h8⟩

example : 8 ≤ (Slice.exact [4, 9, 0, 12, 0, 0, 0, 7, 0, 1, 0, 128]).len := by decide

/-- `openflow13.Parse` on a frame of at least 8 bytes whose type byte is one of the covered kinds (hello, error incl.
    experimenter errors, echo, barrier, get-config request/reply, set-config, features request, and the kinds Parse
    ignores): what the stream's recycled buffer holds behind the frame cannot influence the delivered message — not even
    through the nesting bound, which Parse derives from the CAPACITY (`d`, `d'` arbitrary). -/
theorem C10c_parse_local_covered (s t : Slice) (hs : s.WF) (ht : t.WF) (h : s.Agree t) (h8 : 8 ≤ t.len)
    (hk : ∀ tb, t.byteAt 1 = .ok tb → parseCovered tb.toNat) (d d' : Nat) :
    parse d s = parse d' t := parse_loc ⟨hs, ht, h⟩ h8 hk d d'

/-- the hypotheses of `C10c_parse_local_covered` are met by a real frame: an echo request (type 2) of 8 bytes followed by
    stale bytes in the buffer -/
example : (Slice.mk [4, 2, 0, 8, 0, 0, 0, 7, 0xde, 0xad] 8).WF ∧ 8 ≤ (Slice.mk [4, 2, 0, 8, 0, 0, 0, 7, 0xde, 0xad] 8).len ∧
    (∀ tb, (Slice.mk [4, 2, 0, 8, 0, 0, 0, 7, 0xde, 0xad] 8).byteAt 1 = .ok tb → parseCovered tb.toNat) := by
  refine ⟨by unfold Slice.WF; decide, by decide, ?_⟩
  intro tb htb
  have : tb = 2 := by
    have e : (Slice.mk [4, 2, 0, 8, 0, 0, 0, 7, 0xde, 0xad] 8).byteAt 1 = .ok 2 := rfl
    rw [e] at htb; cases htb; rfl
  subst this
  unfold parseCovered; decide

/-! ### second round -/

/-- REACHABLE THROUGH PARSE: an NXT TLV-table-reply frame `04 04 00 16 00000007 00002320 0000001a 00000001 0002` of 22
    bytes — exactly its Length field, as the stream delivers it — lying in a buffer with 10 more bytes: the reply's 10
    reserved bytes are those stale bytes (`01…01` versus `02…02`).  What the recycled buffer holds behind the frame DOES
    influence the delivered message here. -/
theorem C10c_parse_tlvtablereply_not_local_counterexample :
    tlvFrameS.WF ∧ tlvFrameT.WF ∧ tlvFrameS.Agree tlvFrameT ∧ 8 ≤ tlvFrameT.len ∧
    parse (tlvFrameS.len + 1) tlvFrameS ≠ parse (tlvFrameT.len + 1) tlvFrameT := parse_tlvtablereply_not_local_counterexample

/-- FALSE for the experimenter message: `data[n:v.Header.Length]` (openflow13/openflow13.go:849) trusts the Length field;
    the 16-byte slice `04 04 00 18 00000007 00002320 00000014 | 00…01` (Length field 24) gets its controller id from
    behind the slice. -/
theorem C10c_vendor_not_local_counterexample :
    vendorCexS.WF ∧ vendorCexT.WF ∧ vendorCexS.Agree vendorCexT ∧
    VendorHeader.unmarshal VendorHeader.zero vendorCexS ≠ VendorHeader.unmarshal VendorHeader.zero vendorCexT :=
  VendorHeader_not_local_counterexample

/-- … and through Parse, but only on a slice shorter (16) than the frame's own Length field (24) -/
theorem C10c_parse_vendor_not_local_counterexample :
    vendorCexS.WF ∧ vendorCexT.WF ∧ vendorCexS.Agree vendorCexT ∧ 8 ≤ vendorCexT.len ∧
    parse (vendorCexS.len + 1) vendorCexS ≠ parse (vendorCexT.len + 1) vendorCexT := parse_vendor_not_local_counterexample

/-- the header over-read through Parse needs a slice of 4..7 bytes (an echo request cut after 4 bytes) -/
theorem C10c_parse_header_not_local_counterexample :
    hdrCexS.WF ∧ hdrCexT.WF ∧ hdrCexS.Agree hdrCexT ∧
    parse 5 ⟨[4, 2, 0, 8, 0, 0, 0, 1], 4⟩ ≠ parse 5 ⟨[4, 2, 0, 8, 0, 0, 0, 2], 4⟩ := parse_header_not_local_counterexample

/-- the provable part for the experimenter message: on a slice at least as long as its Length field, with body decoders
    that respect agreement on the body window, what the buffer holds behind the frame cannot influence the result -/
theorem C10c_vendor_local_partial (decVD decVD' : Nat → Slice → R V) (recv : V) (s t : Slice) (hs : s.WF) (ht : t.WF)
    (h : s.Agree t) (hL : ∀ w, t.u16In 2 4 = .ok w → w.toNat ≤ t.len)
    (hd : ∀ ty x y, Slice.AW x y → x.len + 16 ≤ t.len → decVD ty x = decVD' ty y) :
    VendorHeader.unmarshalWith decVD recv s = VendorHeader.unmarshalWith decVD' recv t :=
  VendorHeader_unmarshalWith_loc_partial decVD decVD' recv ⟨hs, ht, h⟩ hL hd

/-- bundle-add checks `8 + msgLen > len(data)` before slicing the embedded message: local, provided the embedded Parse
    gives equal results on agreeing message windows -/
theorem C10c_bundleadd_local (parseF parseF' : Slice → R V) (cl cl' : MsgLenF) (recv : V) (s t : Slice) (hs : s.WF)
    (ht : t.WF) (h : s.Agree t) (hp : ∀ x y, Slice.AW x y → 8 ≤ y.len → y.len + 8 ≤ t.len → parseF x = parseF' y) :
    BundleAdd.unmarshalWith parseF cl recv s = BundleAdd.unmarshalWith parseF' cl' recv t :=
  BundleAdd_unmarshalWith_loc parseF parseF' cl cl' recv ⟨hs, ht, h⟩ hp

example : ∀ x y : Slice, Slice.AW x y → 8 ≤ y.len → y.len + 8 ≤ 100 → (fun _ => (Res.err : R V)) x = (fun _ => Res.err) y :=
  fun _ _ _ _ _ => rfl

/-- PhyPort slices `data[4:8] … data[16:32]` against the capacity with no length check — and is local all the same: on
    fewer than 36 bytes the length-checked `Uint32(data[32:])` that follows panics on both sides
    (`PhyPort_short_panic`), otherwise all windows lie inside the visible bytes -/
theorem C10c_phyport_local (recv : V) (s t : Slice) (hs : s.WF) (ht : t.WF) (h : s.Agree t) :
    PhyPort.unmarshal recv s = PhyPort.unmarshal recv t := PhyPort_loc recv ⟨hs, ht, h⟩

/-- match payloads (all 30 kinds), DecodeMatchField, MatchField, Match: what the stream's recycled buffer holds behind the
    frame cannot influence a decoded match -/
theorem C10c_match_local (recv : V) (s t : Slice) (hs : s.WF) (ht : t.WF) (h : s.Agree t) :
    MatchPayload.unmarshal recv s = MatchPayload.unmarshal recv t ∧
    (∀ cls field length hasMask, DecodeMatchField cls field length hasMask s = DecodeMatchField cls field length hasMask t) ∧
    MatchField.unmarshal recv s = MatchField.unmarshal recv t ∧
    Match.unmarshalP recv s = Match.unmarshalP recv t ∧ Match.unmarshal recv s = Match.unmarshal recv t :=
  have haw : Slice.AW s t := ⟨hs, ht, h⟩
  ⟨MatchPayload_loc recv haw, fun c f l m => DecodeMatchField_loc c f l m haw, MatchField_loc recv haw,
    Match_unmarshalP_loc recv haw, Match_loc recv haw⟩

/-- port-status, features reply, flow-removed, packet-in (match and Ethernet payload), multipart request: for a frame of at
    least 8 bytes, what the stream's recycled buffer holds behind the frame cannot influence the decoded message -/
theorem C10c_messages2_local (recv : V) (s t : Slice) (hs : s.WF) (ht : t.WF) (h : s.Agree t) (h8 : 8 ≤ t.len) :
    PortStatus.unmarshal recv s = PortStatus.unmarshal recv t ∧
    SwitchFeatures.unmarshal recv s = SwitchFeatures.unmarshal recv t ∧
    FlowRemoved.unmarshal recv s = FlowRemoved.unmarshal recv t ∧
    PacketIn.unmarshal recv s = PacketIn.unmarshal recv t ∧
    MultipartRequest.unmarshal recv s = MultipartRequest.unmarshal recv t :=
  have haw : Slice.AW s t := ⟨hs, ht, h⟩
  ⟨PortStatus_loc recv haw h8, SwitchFeatures_loc recv haw h8, FlowRemoved_loc recv haw h8, PacketIn_loc recv haw h8,
    MultipartRequest_loc recv haw h8⟩

/-- `openflow13.Parse` on a frame of at least 8 bytes of ANY kind except flow-mod and multipart reply; an experimenter
    frame must not be cut before its own Length field and must carry neither a TLV table reply (over-read, see the
    counterexample) nor a bundle-add (left open): what the stream's recycled buffer holds behind the frame cannot influence
    the delivered message, whatever nesting bounds `d`, `d'` Parse derives from the capacities. -/
theorem C10c_parse_local_covered2 (s t : Slice) (hs : s.WF) (ht : t.WF) (h : s.Agree t) (h8 : 8 ≤ t.len)
    (hk : ∀ tb, t.byteAt 1 = .ok tb →
      parseCovered2 tb.toNat ∧ (tb.toNat = Gen.openflow13.Type_Experimenter → vendorPlain t)) (d d' : Nat) :
    parse d s = parse d' t := parse_loc2 ⟨hs, ht, h⟩ h8 hk d d'

/-- the hypotheses of `C10c_parse_local_covered2` are met by a port-status frame header (type 12) followed by stale bytes -/
example : (Slice.mk [4, 12, 0, 8, 0, 0, 0, 7, 0xde, 0xad] 8).WF ∧ 8 ≤ (Slice.mk [4, 12, 0, 8, 0, 0, 0, 7, 0xde, 0xad] 8).len ∧
    (∀ tb, (Slice.mk [4, 12, 0, 8, 0, 0, 0, 7, 0xde, 0xad] 8).byteAt 1 = .ok tb →
      parseCovered2 tb.toNat ∧ (tb.toNat = Gen.openflow13.Type_Experimenter → vendorPlain (Slice.mk [4, 12, 0, 8, 0, 0, 0, 7, 0xde, 0xad] 8))) := by
  refine ⟨by unfold Slice.WF; decide, by decide, ?_⟩
  intro tb htb
  have : tb = 12 := by
    have e : (Slice.mk [4, 12, 0, 8, 0, 0, 0, 7, 0xde, 0xad] 8).byteAt 1 = .ok 12 := rfl
    rw [e] at htb; cases htb; rfl
  subst this
  refine ⟨by unfold parseCovered2; decide, fun h => absurd h (by decide)⟩

end OFV.Props.C10c
