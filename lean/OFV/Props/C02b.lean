/-
  C02 (part b) — nested lengths, alignment, padding and type codes of every length-prefixed element, per kind.

  "Inside every encoded message, each nested length-prefixed element (match, match field, instruction, standard or
   Nicira action, bucket, hello element, learn spec, TLV map, embedded bundled message) declares exactly the number of
   bytes it occupies, is padded with zero bytes to the 8-byte alignment the formats require, and carries a type/subtype
   code defined by OpenFlow 1.3 or the Nicira extensions.  A receiver that walks the message using only the declared
   lengths therefore visits every element and arrives exactly at the end of the message."

  Reading of the statements (all about the bytes `bs` that `K.marshalM v = .ok (bs, _)` returns):
  * `…_wire`  — for EVERY value of the kind: which stored fields appear at the type / length / vendor / subtype
                offsets (`Spec.beAt bs off width`), and how many bytes there are.  No well-formedness hypothesis.
  * well-formedness is explicit: `ahdr v = some (code, N)` / `nxhdr v = some (0xffff, N, 0x2320, subtype)` — "the
    stored header is what the constructor stored" — and `…_new_wf` show that the constructors establish it.
  * `…_ok`    — for well-formed values: (a) declared length = occupied bytes, (b) multiple of 8 (and zero padding
                where the kind has padding), (c) the type code (and Nicira vendor / subtype) of the specification.
  * `walk…`   — a receiver that only follows declared lengths (`Elem.walkBy`) visits exactly the children's encodings
                of a composite and ends at its last byte.
  * where a statement is FALSE for a value the API can build, the counterexample is proved (`…_counterexample`).
-/
import OFV.Model.All
import OFV.Lemmas.Size
import OFV.Lemmas.SizeTac
import OFV.Lemmas.BeAt
import OFV.Lemmas.ElemFill
import OFV.Props.C02
import OFV.Props.C06
import OFV.Props.C06b
namespace OFV.Props.C02b
open OFV OFV.Go OFV.Model OFV.Spec OFV.Elem

/-! ### vocabulary -/

/-- what a receiver reads at the start of an action / instruction / hello element: type(2) length(2), and the declared
    length is the number of bytes the element occupies -/
structure TLV (code : Nat) (bs : Bytes) : Prop where
  code_ok : beAt bs 0 2 = code
  len_ok : beAt bs 2 2 = bs.length

/-- an experimenter action on the wire: type(2) length(2) vendor(4) subtype(2); the declared length is the number of
    bytes the action occupies -/
structure NXw (ty vendor sub : Nat) (bs : Bytes) : Prop where
  code_ok : beAt bs 0 2 = ty
  len_ok : beAt bs 2 2 = bs.length
  vendor_ok : beAt bs 4 4 = vendor
  sub_ok : beAt bs 8 2 = sub

/-- a Nicira extension action: type 0xffff (OFPAT_EXPERIMENTER), vendor 0x2320 (NX_VENDOR_ID) -/
abbrev NX (sub : Nat) (bs : Bytes) : Prop := NXw 0xffff 0x2320 sub bs

/-- the (type, length) stored in the embedded ActionHeader of a plain action value -/
def ahdr : V → Option (Nat × Nat)
  | .obj _ (.obj "ActionHeader" [.num ty, .num ln] :: _) => some (ty, ln)
  | _ => none

/-- the (type, length, vendor, subtype) stored in the embedded NXActionHeader of a Nicira action value -/
def nxhdr : V → Option (Nat × Nat × Nat × Nat)
  | .obj _ (.obj "NXActionHeader" [.obj "ActionHeader" [.num ty, .num ln], .num vendor, .num sub] :: _) =>
    some (ty, ln, vendor, sub)
  | _ => none

/-- the (type, length) stored in the embedded InstrHeader of an instruction value -/
def ihdr : V → Option (Nat × Nat)
  | .obj _ (.obj "InstrHeader" [.num ty, .num ln] :: _) => some (ty, ln)
  | _ => none

/-- all bytes are zero -/
def AllZero (bs : Bytes) : Prop := ∀ b ∈ bs, b = 0

theorem allZero_zeros (n : Nat) : AllZero (zeros n) := by
  intro b hb; simp [zeros] at hb; exact hb.2

/-! ### helpers: the two header encoders, inverted -/

theorem tlv_of_head (t l : UInt16) (bs rest : Bytes) (e : bs = be16 t ++ be16 l ++ rest) :
    beAt bs 0 2 = t.toNat ∧ beAt bs 2 2 = l.toNat := by
  subst e; exact ⟨beAt_tl_type t l rest, beAt_tl_len t l rest⟩

theorem actionHeader_bytes_inv (h : V) (hb : Bytes) (e : ActionHeader.bytes h = .ok hb) :
    ∃ ty ln, h = .obj "ActionHeader" [.num ty, .num ln] ∧ hb = be16 (n16 ty) ++ be16 (n16 ln) := by
  unfold ActionHeader.bytes at e
  split at e
  · cases e; exact ⟨_, _, rfl, rfl⟩
  · exact absurd e (by simp)

theorem instrHeader_bytes_inv (h : V) (hb : Bytes) (e : InstrHeader.bytes h = .ok hb) :
    ∃ ty ln, h = .obj "InstrHeader" [.num ty, .num ln] ∧ hb = be16 (n16 ty) ++ be16 (n16 ln) := by
  unfold InstrHeader.bytes at e
  split at e
  · cases e; exact ⟨_, _, rfl, rfl⟩
  · exact absurd e (by simp)

theorem nxHeader_bytes_inv (h : V) (hb : Bytes) (e : NXActionHeader.bytes h = .ok hb) :
    ∃ ty ln vd sb, h = .obj "NXActionHeader" [.obj "ActionHeader" [.num ty, .num ln], .num vd, .num sb] ∧
      hb = be16 (n16 ty) ++ be16 (n16 ln) ++ be32 (n32 vd) ++ be16 (n16 sb) := by
  unfold NXActionHeader.bytes at e
  split at e
  · obtain ⟨ab, hab, e⟩ := bind_ok_inv _ _ _ e
    obtain ⟨ty, ln, rfl, rfl⟩ := actionHeader_bytes_inv _ _ hab
    refine ⟨ty, ln, _, _, rfl, ?_⟩
    have := fill_all _ _ _ (by intro p hp; simp only [List.mem_cons, List.mem_nil_iff, or_false] at hp
                               rcases hp with rfl | rfl | rfl <;> simp [pCopy, pU32, pU16, Piece.Tight])
      (by simp [piecesLen, pCopy, pU32, pU16, Piece.adv, Gen.openflow13.NxActionHeaderLength]) e
    rw [this]
    simp [piecesBytes, piecesLen, pCopy, pU32, pU16, Piece.bytes, Piece.adv, Gen.openflow13.NxActionHeaderLength, zeros]
  · exact absurd e (by simp)

/-! ### plain OpenFlow actions: fixed-size kinds

  For every value: the stored type and length words appear at offsets 0 and 2 and the encoding has the kind's fixed
  size.  Hence declared = occupied exactly when the stored Length is that size — which is what the constructors store. -/

/-- plain action whose encoder is `header bytes ++ fixed tail`: stored (type, length) on the wire -/
theorem plain_wire_core (h : V) (hb tail bs : Bytes) (k : String) (r : List V) (ty ln : Nat)
    (hhb : ActionHeader.bytes h = .ok hb) (e : bs = hb ++ tail) (ha : ahdr (.obj k (h :: r)) = some (ty, ln)) :
    beAt bs 0 2 = ty % 65536 ∧ beAt bs 2 2 = ln % 65536 := by
  obtain ⟨ty', ln', rfl, rfl⟩ := actionHeader_bytes_inv _ _ hhb
  simp only [ahdr, Option.some.injEq, Prod.mk.injEq] at ha
  obtain ⟨rfl, rfl⟩ := ha
  obtain ⟨a, b⟩ := tlv_of_head _ _ _ _ e
  exact ⟨by rw [a, n16_toNat'], by rw [b, n16_toNat']⟩

/-- ActionOutput, any value: 16 bytes; stored type at 0, stored length at 2 -/
theorem actionOutput_wire (v : V) (bs : Bytes) (v2 : V) (ty ln : Nat) (ha : ahdr v = some (ty, ln))
    (h : ActionOutput.marshalM v = .ok (bs, v2)) :
    bs.length = 16 ∧ beAt bs 0 2 = ty % 65536 ∧ beAt bs 2 2 = ln % 65536 := by
  unfold ActionOutput.marshalM at h
  split at h
  · obtain ⟨hb, hhb, h⟩ := bind_ok_inv _ _ _ h
    obtain ⟨out, hf, h⟩ := bind_ok_inv _ _ _ h
    obtain ⟨rfl, _⟩ := same_ok _ _ _ _ h
    have hl := fill_length _ _ _ hf
    have hh := fill_head _ _ _ _ (by rw [ActionHeader.bytes_length _ _ hhb]; omega) hf
    exact ⟨hl, plain_wire_core _ _ _ _ _ _ _ _ hhb hh ha⟩
  · exact absurd h (by simp)

/-- ActionGroup, any value: 8 bytes -/
theorem actionGroup_wire (v : V) (bs : Bytes) (v2 : V) (ty ln : Nat) (ha : ahdr v = some (ty, ln))
    (h : ActionGroup.marshalM v = .ok (bs, v2)) :
    bs.length = 8 ∧ beAt bs 0 2 = ty % 65536 ∧ beAt bs 2 2 = ln % 65536 := by
  unfold ActionGroup.marshalM at h
  split at h
  · obtain ⟨hb, hhb, h⟩ := bind_ok_inv _ _ _ h
    obtain ⟨out, hf, h⟩ := bind_ok_inv _ _ _ h
    obtain ⟨rfl, _⟩ := same_ok _ _ _ _ h
    have hl := fill_length _ _ _ hf
    have hh := fill_head _ _ _ _ (by rw [ActionHeader.bytes_length _ _ hhb]; omega) hf
    exact ⟨hl, plain_wire_core _ _ _ _ _ _ _ _ hhb hh ha⟩
  · exact absurd h (by simp)

/-- ActionSetqueue, any value: 8 bytes -/
theorem actionSetqueue_wire (v : V) (bs : Bytes) (v2 : V) (ty ln : Nat) (ha : ahdr v = some (ty, ln))
    (h : ActionSetqueue.marshalM v = .ok (bs, v2)) :
    bs.length = 8 ∧ beAt bs 0 2 = ty % 65536 ∧ beAt bs 2 2 = ln % 65536 := by
  unfold ActionSetqueue.marshalM at h
  split at h
  · obtain ⟨hb, hhb, h⟩ := bind_ok_inv _ _ _ h
    obtain ⟨rfl, _⟩ := same_ok _ _ _ _ h
    have hl := ActionHeader.bytes_length _ _ hhb
    exact ⟨by simp [hl], plain_wire_core _ _ _ _ _ _ _ _ hhb rfl ha⟩
  · exact absurd h (by simp)

/-- ActionDecNwTtl, any value: 8 bytes, the last 4 are zero -/
theorem actionDecNwTtl_wire (v : V) (bs : Bytes) (v2 : V) (ty ln : Nat) (ha : ahdr v = some (ty, ln))
    (h : ActionDecNwTtl.marshalM v = .ok (bs, v2)) :
    bs.length = 8 ∧ beAt bs 0 2 = ty % 65536 ∧ beAt bs 2 2 = ln % 65536 ∧ bs.drop 4 = zeros 4 := by
  unfold ActionDecNwTtl.marshalM at h
  split at h
  · obtain ⟨hb, hhb, h⟩ := bind_ok_inv _ _ _ h
    obtain ⟨rfl, _⟩ := same_ok _ _ _ _ h
    have hl := ActionHeader.bytes_length _ _ hhb
    obtain ⟨a, b⟩ := plain_wire_core _ _ _ _ _ _ _ _ hhb rfl ha
    exact ⟨by simp [hl], a, b, by rw [← hl]; simp⟩
  · exact absurd h (by simp)

/-- ActionPopVlan, any value: 8 bytes, the last 4 are zero -/
theorem actionPopVlan_wire (v : V) (bs : Bytes) (v2 : V) (ty ln : Nat) (ha : ahdr v = some (ty, ln))
    (h : ActionPopVlan.marshalM v = .ok (bs, v2)) :
    bs.length = 8 ∧ beAt bs 0 2 = ty % 65536 ∧ beAt bs 2 2 = ln % 65536 ∧ bs.drop 4 = zeros 4 := by
  unfold ActionPopVlan.marshalM at h
  split at h
  · obtain ⟨hb, hhb, h⟩ := bind_ok_inv _ _ _ h
    obtain ⟨rfl, _⟩ := same_ok _ _ _ _ h
    have hl := ActionHeader.bytes_length _ _ hhb
    obtain ⟨a, b⟩ := plain_wire_core _ _ _ _ _ _ _ _ hhb rfl ha
    exact ⟨by simp [hl], a, b, by rw [← hl]; simp⟩
  · exact absurd h (by simp)

/-- ActionPush (push VLAN / MPLS / PBB), any value: 8 bytes, the last 2 are zero -/
theorem actionPush_wire (v : V) (bs : Bytes) (v2 : V) (ty ln : Nat) (ha : ahdr v = some (ty, ln))
    (h : ActionPush.marshalM v = .ok (bs, v2)) :
    bs.length = 8 ∧ beAt bs 0 2 = ty % 65536 ∧ beAt bs 2 2 = ln % 65536 ∧ bs.drop 6 = zeros 2 := by
  unfold ActionPush.marshalM at h
  split at h
  · obtain ⟨hb, hhb, h⟩ := bind_ok_inv _ _ _ h
    obtain ⟨rfl, _⟩ := same_ok _ _ _ _ h
    have hl := ActionHeader.bytes_length _ _ hhb
    obtain ⟨a, b⟩ := plain_wire_core _ _ _ _ _ _ _ _ hhb (List.append_assoc _ _ _) ha
    refine ⟨by simp [hl], a, b, ?_⟩
    rw [List.drop_append_of_le_length (by simp [hl])]
    rw [List.drop_of_length_le (by simp [hl])]; rfl
  · exact absurd h (by simp)

/-- ActionPopMpls, any value: 8 bytes, the last 2 are zero -/
theorem actionPopMpls_wire (v : V) (bs : Bytes) (v2 : V) (ty ln : Nat) (ha : ahdr v = some (ty, ln))
    (h : ActionPopMpls.marshalM v = .ok (bs, v2)) :
    bs.length = 8 ∧ beAt bs 0 2 = ty % 65536 ∧ beAt bs 2 2 = ln % 65536 ∧ bs.drop 6 = zeros 2 := by
  unfold ActionPopMpls.marshalM at h
  split at h
  · obtain ⟨hb, hhb, h⟩ := bind_ok_inv _ _ _ h
    obtain ⟨rfl, _⟩ := same_ok _ _ _ _ h
    have hl := ActionHeader.bytes_length _ _ hhb
    obtain ⟨a, b⟩ := plain_wire_core _ _ _ _ _ _ _ _ hhb (List.append_assoc _ _ _) ha
    refine ⟨by simp [hl], a, b, ?_⟩
    rw [List.drop_append_of_le_length (by simp [hl])]
    rw [List.drop_of_length_le (by simp [hl])]; rfl
  · exact absurd h (by simp)

/-- (a)+(c) for a plain action from its `…_wire` facts -/
theorem tlv_of_wire (code N : Nat) (bs : Bytes) (hl : bs.length = N) (h0 : beAt bs 0 2 = code % 65536)
    (h2 : beAt bs 2 2 = N % 65536) (hc : code < 65536) (hN : N < 65536) : TLV code bs :=
  ⟨by rw [h0]; omega, by rw [h2, hl]; omega⟩

/-- ActionOutput as NewActionOutput stores it (type OFPAT_OUTPUT, length 16): (a) declares its 16 bytes, (b) aligned,
    (c) type code 0 -/
theorem actionOutput_ok (v : V) (bs : Bytes) (v2 : V) (hwf : ahdr v = some (Gen.openflow13.ActionType_Output, 16))
    (h : ActionOutput.marshalM v = .ok (bs, v2)) : TLV Gen.openflow13.ActionType_Output bs ∧ bs.length % 8 = 0 := by
  obtain ⟨a, b, c⟩ := actionOutput_wire v bs v2 _ _ hwf h
  exact ⟨tlv_of_wire _ _ _ a b c (by decide) (by decide), by omega⟩
theorem actionOutput_new_wf (p : Nat) : ahdr (ActionOutput.new p) = some (Gen.openflow13.ActionType_Output, 16) := rfl

/-- … and the 6 pad bytes of a constructor-built output action are zero -/
theorem actionOutput_new_pad (p : Nat) (bs : Bytes) (v2 : V) (h : ActionOutput.marshalM (ActionOutput.new p) = .ok (bs, v2)) :
    bs.drop 10 = zeros 6 := by
  simp only [ActionOutput.new, ActionOutput.marshalM, ActionHeader.mk, ActionHeader.bytes, V.u32, Res.bind_ok] at h
  obtain ⟨out, hf, h⟩ := bind_ok_inv _ _ _ h
  obtain ⟨rfl, _⟩ := same_ok _ _ _ _ h
  have := fill_all _ _ _ (by intro p hp; simp only [List.mem_cons, List.mem_nil_iff, or_false] at hp
                             rcases hp with rfl | rfl | rfl | rfl <;> simp [pCopy, pU32, pU16, Piece.Tight])
    (by simp [piecesLen, pCopy, pU32, pU16, Piece.adv]) hf
  rw [this]
  simp [piecesBytes, piecesLen, pCopy, pU32, pU16, Piece.bytes, Piece.adv, zeros, be16, be32]

/-- ActionGroup as NewActionGroup stores it -/
theorem actionGroup_ok (v : V) (bs : Bytes) (v2 : V) (hwf : ahdr v = some (Gen.openflow13.ActionType_Group, 8))
    (h : ActionGroup.marshalM v = .ok (bs, v2)) : TLV Gen.openflow13.ActionType_Group bs ∧ bs.length % 8 = 0 := by
  obtain ⟨a, b, c⟩ := actionGroup_wire v bs v2 _ _ hwf h
  exact ⟨tlv_of_wire _ _ _ a b c (by decide) (by decide), by omega⟩
theorem actionGroup_new_wf (g : Nat) : ahdr (ActionGroup.new g) = some (Gen.openflow13.ActionType_Group, 8) := rfl

/-- ActionSetqueue as NewActionSetQueue stores it -/
theorem actionSetqueue_ok (v : V) (bs : Bytes) (v2 : V) (hwf : ahdr v = some (Gen.openflow13.ActionType_SetQueue, 8))
    (h : ActionSetqueue.marshalM v = .ok (bs, v2)) : TLV Gen.openflow13.ActionType_SetQueue bs ∧ bs.length % 8 = 0 := by
  obtain ⟨a, b, c⟩ := actionSetqueue_wire v bs v2 _ _ hwf h
  exact ⟨tlv_of_wire _ _ _ a b c (by decide) (by decide), by omega⟩
theorem actionSetqueue_new_wf (q : Nat) : ahdr (ActionSetqueue.new q) = some (Gen.openflow13.ActionType_SetQueue, 8) := rfl

/-- ActionDecNwTtl as NewActionDecNwTtl stores it; pad bytes zero -/
theorem actionDecNwTtl_ok (v : V) (bs : Bytes) (v2 : V) (hwf : ahdr v = some (Gen.openflow13.ActionType_DecNwTtl, 8))
    (h : ActionDecNwTtl.marshalM v = .ok (bs, v2)) :
    TLV Gen.openflow13.ActionType_DecNwTtl bs ∧ bs.length % 8 = 0 ∧ bs.drop 4 = zeros 4 := by
  obtain ⟨a, b, c, d⟩ := actionDecNwTtl_wire v bs v2 _ _ hwf h
  exact ⟨tlv_of_wire _ _ _ a b c (by decide) (by decide), by omega, d⟩
theorem actionDecNwTtl_new_wf : ahdr ActionDecNwTtl.new = some (Gen.openflow13.ActionType_DecNwTtl, 8) := rfl

/-- ActionPopVlan as NewActionPopVlan stores it; pad bytes zero -/
theorem actionPopVlan_ok (v : V) (bs : Bytes) (v2 : V) (hwf : ahdr v = some (Gen.openflow13.ActionType_PopVlan, 8))
    (h : ActionPopVlan.marshalM v = .ok (bs, v2)) :
    TLV Gen.openflow13.ActionType_PopVlan bs ∧ bs.length % 8 = 0 ∧ bs.drop 4 = zeros 4 := by
  obtain ⟨a, b, c, d⟩ := actionPopVlan_wire v bs v2 _ _ hwf h
  exact ⟨tlv_of_wire _ _ _ a b c (by decide) (by decide), by omega, d⟩
theorem actionPopVlan_new_wf : ahdr ActionPopVlan.new = some (Gen.openflow13.ActionType_PopVlan, 8) := rfl

/-- ActionPush as NewActionPushVlan / NewActionPushMpls store it (any 16-bit type code `ty`, length 8); pad zero -/
theorem actionPush_ok (ty : Nat) (hty : ty < 65536) (v : V) (bs : Bytes) (v2 : V) (hwf : ahdr v = some (ty, 8))
    (h : ActionPush.marshalM v = .ok (bs, v2)) : TLV ty bs ∧ bs.length % 8 = 0 ∧ bs.drop 6 = zeros 2 := by
  obtain ⟨a, b, c, d⟩ := actionPush_wire v bs v2 _ _ hwf h
  exact ⟨tlv_of_wire _ _ _ a b c hty (by decide), by omega, d⟩
theorem actionPush_new_wf (ty et : Nat) : ahdr (ActionPush.new ty et) = some (ty, 8) := rfl

/-- ActionPopMpls as NewActionPopMpls stores it; pad zero -/
theorem actionPopMpls_ok (v : V) (bs : Bytes) (v2 : V) (hwf : ahdr v = some (Gen.openflow13.ActionType_PopMpls, 8))
    (h : ActionPopMpls.marshalM v = .ok (bs, v2)) :
    TLV Gen.openflow13.ActionType_PopMpls bs ∧ bs.length % 8 = 0 ∧ bs.drop 6 = zeros 2 := by
  obtain ⟨a, b, c, d⟩ := actionPopMpls_wire v bs v2 _ _ hwf h
  exact ⟨tlv_of_wire _ _ _ a b c (by decide) (by decide), by omega, d⟩
theorem actionPopMpls_new_wf (et : Nat) : ahdr (ActionPopMpls.new et) = some (Gen.openflow13.ActionType_PopMpls, 8) := rfl

/-- the hypotheses are satisfiable: NewActionOutput(7) encodes, and the conclusion can be checked on its bytes -/
example : ∃ bs v2, ActionOutput.marshalM (ActionOutput.new 7) = .ok (bs, v2) ∧
    TLV Gen.openflow13.ActionType_Output bs ∧ bs.length % 8 = 0 :=
  ⟨_, _, rfl, actionOutput_ok _ _ _ (actionOutput_new_wf 7) rfl⟩
example : ∃ bs v2, ActionPush.marshalM (ActionPush.new Gen.openflow13.ActionType_PushVlan 0x8100) = .ok (bs, v2) ∧
    TLV Gen.openflow13.ActionType_PushVlan bs :=
  ⟨_, _, rfl, (actionPush_ok _ (by decide) _ _ _ (actionPush_new_wf _ _) rfl).1⟩

end OFV.Props.C02b
