/-
  C02 (part b) — nested lengths, alignment, padding and type codes of every length-prefixed element, per kind.

  "Inside every encoded message, each nested length-prefixed element (match, match field, instruction, standard or
   Nicira action, bucket, hello element, learn spec, TLV map, embedded bundled message) declares exactly the number of
   bytes it occupies, is padded with zero bytes to the 8-byte alignment the formats require, and carries a type/subtype
   code defined by OpenFlow 1.3 or the Nicira extensions.  A receiver that walks the message using only the declared
   lengths therefore visits every element and arrives exactly at the end of the message."

  Reading of the statements (all about the bytes `bs` that `K.marshalM v = .ok (bs, _)` returns; vocabulary `TLV`,
  `NXw` / `NX`, `ahdr`, `nxhdr`, `ihdr` in OFV/Lemmas/ElemWire.lean, `walkBy` in OFV/Lemmas/ElemFill.lean):
  * `…_wire`  — for EVERY value of the kind: which stored fields appear at the type / length / vendor / subtype
                offsets (`Spec.beAt bs off width`), and how many bytes there are.  No well-formedness hypothesis.
  * well-formedness is explicit: `ahdr v = some (code, N)` / `nxhdr v = some (0xffff, N, 0x2320, subtype)` — "the
    stored header is what the constructor stored" — and `…_new_wf` show that the constructors establish it.
    `OxmWF` (match fields), `C02.MatchWF` (matches), `ActionWF` / `InstrWF` (through the interfaces).
  * `…_ok`    — for well-formed values: (a) declared length = occupied bytes, (b) multiple of 8 (and zero padding
                where the kind has padding), (c) the type code (and Nicira vendor / subtype) of the specification.
  * `action_declares`, `instruction_declares` — (a)+(b) through the Action / Instruction interface dispatch.
  * `…_walk`  — a receiver that only follows declared lengths (`Elem.walkBy`) visits exactly the children's encodings
                of a composite (InstrActions, Bucket, conntrack action, FlowMod) and ends at its last byte.
  * where a statement is FALSE for a value the API can build, the counterexample is proved
    (`tunMetadata_counterexample`); known stub: `actionHeader_wire`.  The former stub findings `instrMeter_unaligned`
    and `helloElem_aligned_iff` no longer hold — the library was repaired — and are replaced by the positive
    `instrMeter_wire` / `instrMeter_new_ok` and `helloElem_wire` / `helloElem_padded`; the set-TTL actions have their own
    codec (`actionMplsTtl_wire`, `actionNwTtl_wire`, `…_ok`).
  * sizes are computed in uint16 by the library: statements that need "no wrap-around" say so explicitly
    (`bs.length < 65536`, `10 ≤ bs.length`, a bound on the data).
  Not covered here: hello element lists / TLV map lists as walks, the message embedded in a BundleAdd.
-/
import OFV.Model.All
import OFV.Lemmas.Size
import OFV.Lemmas.SizeTac
import OFV.Lemmas.BeAt
import OFV.Lemmas.ElemFill
import OFV.Lemmas.ElemWire
import OFV.Props.C02
import OFV.Props.C06
import OFV.Props.C06b
namespace OFV.Props.C02b
open OFV OFV.Go OFV.Model OFV.Spec OFV.Elem

/-! ### plain OpenFlow actions: fixed-size kinds

  For every value: the stored type and length words appear at offsets 0 and 2 and the encoding has the kind's fixed
  size.  Hence declared = occupied exactly when the stored Length is that size — which is what the constructors store. -/

/-- ActionOutput, any value: 16 bytes; stored type at 0, stored length at 2 -/
theorem actionOutput_wire (v : V) (bs : Bytes) (v2 : V) (ty ln : Nat) (ha : ahdr v = some (ty, ln))
    (h : ActionOutput.marshalM v = .ok (bs, v2)) :
    bs.length = 16 ∧ beAt bs 0 2 = ty % 65536 ∧ beAt bs 2 2 = ln % 65536 := by
  unfold ActionOutput.marshalM at h
  split at h
  · obtain ⟨hb, hhb, h⟩ := bind_ok_inv _ _ _ h
    obtain ⟨out, hf, h⟩ := bind_ok_inv _ _ _ h
    obtain ⟨rfl, _⟩ := same_ok _ _ _ _ h
    have hl := fill_length _ _ _ hf
    have hh := fill_head _ _ _ _ (by rw [ActionHeader.bytes_length _ _ hhb]; omega) hf
    exact ⟨hl, plain_wire_core _ _ _ _ _ _ _ _ hhb hh ha⟩
  · exact absurd h (by simp)

/-- ActionGroup, any value: 8 bytes -/
theorem actionGroup_wire (v : V) (bs : Bytes) (v2 : V) (ty ln : Nat) (ha : ahdr v = some (ty, ln))
    (h : ActionGroup.marshalM v = .ok (bs, v2)) :
    bs.length = 8 ∧ beAt bs 0 2 = ty % 65536 ∧ beAt bs 2 2 = ln % 65536 := by
  unfold ActionGroup.marshalM at h
  split at h
  · obtain ⟨hb, hhb, h⟩ := bind_ok_inv _ _ _ h
    obtain ⟨out, hf, h⟩ := bind_ok_inv _ _ _ h
    obtain ⟨rfl, _⟩ := same_ok _ _ _ _ h
    have hl := fill_length _ _ _ hf
    have hh := fill_head _ _ _ _ (by rw [ActionHeader.bytes_length _ _ hhb]; omega) hf
    exact ⟨hl, plain_wire_core _ _ _ _ _ _ _ _ hhb hh ha⟩
  · exact absurd h (by simp)

/-- ActionSetqueue, any value: 8 bytes -/
theorem actionSetqueue_wire (v : V) (bs : Bytes) (v2 : V) (ty ln : Nat) (ha : ahdr v = some (ty, ln))
    (h : ActionSetqueue.marshalM v = .ok (bs, v2)) :
    bs.length = 8 ∧ beAt bs 0 2 = ty % 65536 ∧ beAt bs 2 2 = ln % 65536 := by
  unfold ActionSetqueue.marshalM at h
  split at h
  · obtain ⟨hb, hhb, h⟩ := bind_ok_inv _ _ _ h
    obtain ⟨rfl, _⟩ := same_ok _ _ _ _ h
    have hl := ActionHeader.bytes_length _ _ hhb
    exact ⟨by simp [hl], plain_wire_core _ _ _ _ _ _ _ _ hhb rfl ha⟩
  · exact absurd h (by simp)

/-- ActionDecNwTtl, any value: 8 bytes, the last 4 are zero -/
theorem actionDecNwTtl_wire (v : V) (bs : Bytes) (v2 : V) (ty ln : Nat) (ha : ahdr v = some (ty, ln))
    (h : ActionDecNwTtl.marshalM v = .ok (bs, v2)) :
    bs.length = 8 ∧ beAt bs 0 2 = ty % 65536 ∧ beAt bs 2 2 = ln % 65536 ∧ bs.drop 4 = zeros 4 := by
  unfold ActionDecNwTtl.marshalM at h
  split at h
  · obtain ⟨hb, hhb, h⟩ := bind_ok_inv _ _ _ h
    obtain ⟨rfl, _⟩ := same_ok _ _ _ _ h
    have hl := ActionHeader.bytes_length _ _ hhb
    obtain ⟨a, b⟩ := plain_wire_core _ _ _ _ _ _ _ _ hhb rfl ha
    exact ⟨by simp [hl], a, b, by rw [← hl]; simp⟩
  · exact absurd h (by simp)

/-- ActionPopVlan, any value: 8 bytes, the last 4 are zero -/
theorem actionPopVlan_wire (v : V) (bs : Bytes) (v2 : V) (ty ln : Nat) (ha : ahdr v = some (ty, ln))
    (h : ActionPopVlan.marshalM v = .ok (bs, v2)) :
    bs.length = 8 ∧ beAt bs 0 2 = ty % 65536 ∧ beAt bs 2 2 = ln % 65536 ∧ bs.drop 4 = zeros 4 := by
  unfold ActionPopVlan.marshalM at h
  split at h
  · obtain ⟨hb, hhb, h⟩ := bind_ok_inv _ _ _ h
    obtain ⟨rfl, _⟩ := same_ok _ _ _ _ h
    have hl := ActionHeader.bytes_length _ _ hhb
    obtain ⟨a, b⟩ := plain_wire_core _ _ _ _ _ _ _ _ hhb rfl ha
    exact ⟨by simp [hl], a, b, by rw [← hl]; simp⟩
  · exact absurd h (by simp)

/-- ActionPush (push VLAN / MPLS / PBB), any value: 8 bytes, the last 2 are zero -/
theorem actionPush_wire (v : V) (bs : Bytes) (v2 : V) (ty ln : Nat) (ha : ahdr v = some (ty, ln))
    (h : ActionPush.marshalM v = .ok (bs, v2)) :
    bs.length = 8 ∧ beAt bs 0 2 = ty % 65536 ∧ beAt bs 2 2 = ln % 65536 ∧ bs.drop 6 = zeros 2 := by
  unfold ActionPush.marshalM at h
  split at h
  · obtain ⟨hb, hhb, h⟩ := bind_ok_inv _ _ _ h
    obtain ⟨rfl, _⟩ := same_ok _ _ _ _ h
    have hl := ActionHeader.bytes_length _ _ hhb
    obtain ⟨a, b⟩ := plain_wire_core _ _ _ _ _ _ _ _ hhb (List.append_assoc _ _ _) ha
    refine ⟨by simp [hl], a, b, ?_⟩
    rw [List.drop_append_of_le_length (by simp [hl])]
    rw [List.drop_of_length_le (by simp [hl])]; rfl
  · exact absurd h (by simp)

/-- ActionPopMpls, any value: 8 bytes, the last 2 are zero -/
theorem actionPopMpls_wire (v : V) (bs : Bytes) (v2 : V) (ty ln : Nat) (ha : ahdr v = some (ty, ln))
    (h : ActionPopMpls.marshalM v = .ok (bs, v2)) :
    bs.length = 8 ∧ beAt bs 0 2 = ty % 65536 ∧ beAt bs 2 2 = ln % 65536 ∧ bs.drop 6 = zeros 2 := by
  unfold ActionPopMpls.marshalM at h
  split at h
  · obtain ⟨hb, hhb, h⟩ := bind_ok_inv _ _ _ h
    obtain ⟨rfl, _⟩ := same_ok _ _ _ _ h
    have hl := ActionHeader.bytes_length _ _ hhb
    obtain ⟨a, b⟩ := plain_wire_core _ _ _ _ _ _ _ _ hhb (List.append_assoc _ _ _) ha
    refine ⟨by simp [hl], a, b, ?_⟩
    rw [List.drop_append_of_le_length (by simp [hl])]
    rw [List.drop_of_length_le (by simp [hl])]; rfl
  · exact absurd h (by simp)

/-- ActionOutput as NewActionOutput stores it (type OFPAT_OUTPUT, length 16): (a) declares its 16 bytes, (b) aligned,
    (c) type code 0 -/
theorem actionOutput_ok (v : V) (bs : Bytes) (v2 : V) (hwf : ahdr v = some (Gen.openflow13.ActionType_Output, 16))
    (h : ActionOutput.marshalM v = .ok (bs, v2)) : TLV Gen.openflow13.ActionType_Output bs ∧ bs.length % 8 = 0 := by
  obtain ⟨a, b, c⟩ := actionOutput_wire v bs v2 _ _ hwf h
  exact ⟨tlv_of_wire _ _ _ a b c (by decide) (by decide), by omega⟩
theorem actionOutput_new_wf (p : Nat) : ahdr (ActionOutput.new p) = some (Gen.openflow13.ActionType_Output, 16) := rfl

/-- … and the 6 pad bytes of a constructor-built output action are zero -/
theorem actionOutput_new_pad (p : Nat) (bs : Bytes) (v2 : V) (h : ActionOutput.marshalM (ActionOutput.new p) = .ok (bs, v2)) :
    bs.drop 10 = zeros 6 := by
  simp only [ActionOutput.new, ActionOutput.marshalM, ActionHeader.mk, ActionHeader.bytes, V.u32, Res.bind_ok] at h
  obtain ⟨out, hf, h⟩ := bind_ok_inv _ _ _ h
  obtain ⟨rfl, _⟩ := same_ok _ _ _ _ h
  have := fill_all _ _ _ (by intro p hp; simp only [List.mem_cons, List.mem_nil_iff, or_false] at hp
                             rcases hp with rfl | rfl | rfl | rfl <;> simp [pCopy, pU32, pU16, Piece.Tight])
    (by simp [piecesLen, pCopy, pU32, pU16, Piece.adv]) hf
  rw [this]
  simp [piecesBytes, piecesLen, pCopy, pU32, pU16, Piece.bytes, Piece.adv, zeros, be16, be32]

/-- ActionGroup as NewActionGroup stores it -/
theorem actionGroup_ok (v : V) (bs : Bytes) (v2 : V) (hwf : ahdr v = some (Gen.openflow13.ActionType_Group, 8))
    (h : ActionGroup.marshalM v = .ok (bs, v2)) : TLV Gen.openflow13.ActionType_Group bs ∧ bs.length % 8 = 0 := by
  obtain ⟨a, b, c⟩ := actionGroup_wire v bs v2 _ _ hwf h
  exact ⟨tlv_of_wire _ _ _ a b c (by decide) (by decide), by omega⟩
theorem actionGroup_new_wf (g : Nat) : ahdr (ActionGroup.new g) = some (Gen.openflow13.ActionType_Group, 8) := rfl

/-- ActionSetqueue as NewActionSetQueue stores it -/
theorem actionSetqueue_ok (v : V) (bs : Bytes) (v2 : V) (hwf : ahdr v = some (Gen.openflow13.ActionType_SetQueue, 8))
    (h : ActionSetqueue.marshalM v = .ok (bs, v2)) : TLV Gen.openflow13.ActionType_SetQueue bs ∧ bs.length % 8 = 0 := by
  obtain ⟨a, b, c⟩ := actionSetqueue_wire v bs v2 _ _ hwf h
  exact ⟨tlv_of_wire _ _ _ a b c (by decide) (by decide), by omega⟩
theorem actionSetqueue_new_wf (q : Nat) : ahdr (ActionSetqueue.new q) = some (Gen.openflow13.ActionType_SetQueue, 8) := rfl

/-- ActionDecNwTtl as NewActionDecNwTtl stores it; pad bytes zero -/
theorem actionDecNwTtl_ok (v : V) (bs : Bytes) (v2 : V) (hwf : ahdr v = some (Gen.openflow13.ActionType_DecNwTtl, 8))
    (h : ActionDecNwTtl.marshalM v = .ok (bs, v2)) :
    TLV Gen.openflow13.ActionType_DecNwTtl bs ∧ bs.length % 8 = 0 ∧ bs.drop 4 = zeros 4 := by
  obtain ⟨a, b, c, d⟩ := actionDecNwTtl_wire v bs v2 _ _ hwf h
  exact ⟨tlv_of_wire _ _ _ a b c (by decide) (by decide), by omega, d⟩
theorem actionDecNwTtl_new_wf : ahdr ActionDecNwTtl.new = some (Gen.openflow13.ActionType_DecNwTtl, 8) := rfl

/-- ActionPopVlan as NewActionPopVlan stores it; pad bytes zero -/
theorem actionPopVlan_ok (v : V) (bs : Bytes) (v2 : V) (hwf : ahdr v = some (Gen.openflow13.ActionType_PopVlan, 8))
    (h : ActionPopVlan.marshalM v = .ok (bs, v2)) :
    TLV Gen.openflow13.ActionType_PopVlan bs ∧ bs.length % 8 = 0 ∧ bs.drop 4 = zeros 4 := by
  obtain ⟨a, b, c, d⟩ := actionPopVlan_wire v bs v2 _ _ hwf h
  exact ⟨tlv_of_wire _ _ _ a b c (by decide) (by decide), by omega, d⟩
theorem actionPopVlan_new_wf : ahdr ActionPopVlan.new = some (Gen.openflow13.ActionType_PopVlan, 8) := rfl

/-- ActionPush as NewActionPushVlan / NewActionPushMpls store it (any 16-bit type code `ty`, length 8); pad zero -/
theorem actionPush_ok (ty : Nat) (hty : ty < 65536) (v : V) (bs : Bytes) (v2 : V) (hwf : ahdr v = some (ty, 8))
    (h : ActionPush.marshalM v = .ok (bs, v2)) : TLV ty bs ∧ bs.length % 8 = 0 ∧ bs.drop 6 = zeros 2 := by
  obtain ⟨a, b, c, d⟩ := actionPush_wire v bs v2 _ _ hwf h
  exact ⟨tlv_of_wire _ _ _ a b c hty (by decide), by omega, d⟩
theorem actionPush_new_wf (ty et : Nat) : ahdr (ActionPush.new ty et) = some (ty, 8) := rfl

/-- ActionPopMpls as NewActionPopMpls stores it; pad zero -/
theorem actionPopMpls_ok (v : V) (bs : Bytes) (v2 : V) (hwf : ahdr v = some (Gen.openflow13.ActionType_PopMpls, 8))
    (h : ActionPopMpls.marshalM v = .ok (bs, v2)) :
    TLV Gen.openflow13.ActionType_PopMpls bs ∧ bs.length % 8 = 0 ∧ bs.drop 6 = zeros 2 := by
  obtain ⟨a, b, c, d⟩ := actionPopMpls_wire v bs v2 _ _ hwf h
  exact ⟨tlv_of_wire _ _ _ a b c (by decide) (by decide), by omega, d⟩
theorem actionPopMpls_new_wf (et : Nat) : ahdr (ActionPopMpls.new et) = some (Gen.openflow13.ActionType_PopMpls, 8) := rfl

/-- ActionMplsTtl (set MPLS TTL), any value: 8 bytes — header, the TTL byte, then 3 zero bytes; stored type / length words at
    offsets 0 / 2 -/
theorem actionMplsTtl_wire (v : V) (bs : Bytes) (v2 : V) (ty ln : Nat) (ha : ahdr v = some (ty, ln))
    (h : ActionMplsTtl.marshalM v = .ok (bs, v2)) :
    bs.length = 8 ∧ beAt bs 0 2 = ty % 65536 ∧ beAt bs 2 2 = ln % 65536 ∧ bs.drop 5 = zeros 3 := by
  unfold ActionMplsTtl.marshalM at h
  split at h
  · obtain ⟨hb, hhb, h⟩ := bind_ok_inv _ _ _ h
    obtain ⟨rfl, _⟩ := same_ok _ _ _ _ h
    have hl := ActionHeader.bytes_length _ _ hhb
    obtain ⟨a, b⟩ := plain_wire_core _ _ _ _ _ _ _ _ hhb rfl ha
    refine ⟨by simp [hl], a, b, ?_⟩
    rw [List.drop_append, List.drop_eq_nil_of_le (by omega), hl]; rfl
  · exact absurd h (by simp)

/-- ActionMplsTtl as NewActionMplsTtl stores it (type SetMplsTtl, length 8): (a) declares its 8 bytes, (b) aligned, the 3 pad
    bytes are zero, (c) the type code of the specification -/
theorem actionMplsTtl_ok (v : V) (bs : Bytes) (v2 : V) (hwf : ahdr v = some (Gen.openflow13.ActionType_SetMplsTtl, 8))
    (h : ActionMplsTtl.marshalM v = .ok (bs, v2)) :
    TLV Gen.openflow13.ActionType_SetMplsTtl bs ∧ bs.length % 8 = 0 ∧ bs.drop 5 = zeros 3 := by
  obtain ⟨a, b, c, d⟩ := actionMplsTtl_wire v bs v2 _ _ hwf h
  exact ⟨tlv_of_wire _ _ _ a b c (by decide) (by decide), by omega, d⟩
theorem actionMplsTtl_new_wf (t : Nat) : ahdr (ActionMplsTtl.new t) = some (Gen.openflow13.ActionType_SetMplsTtl, 8) := rfl

/-- ActionNwTtl (set IP TTL), any value: 8 bytes — header, the TTL byte, then 3 zero bytes; stored type / length words at
    offsets 0 / 2 -/
theorem actionNwTtl_wire (v : V) (bs : Bytes) (v2 : V) (ty ln : Nat) (ha : ahdr v = some (ty, ln))
    (h : ActionNwTtl.marshalM v = .ok (bs, v2)) :
    bs.length = 8 ∧ beAt bs 0 2 = ty % 65536 ∧ beAt bs 2 2 = ln % 65536 ∧ bs.drop 5 = zeros 3 := by
  unfold ActionNwTtl.marshalM at h
  split at h
  · obtain ⟨hb, hhb, h⟩ := bind_ok_inv _ _ _ h
    obtain ⟨rfl, _⟩ := same_ok _ _ _ _ h
    have hl := ActionHeader.bytes_length _ _ hhb
    obtain ⟨a, b⟩ := plain_wire_core _ _ _ _ _ _ _ _ hhb rfl ha
    refine ⟨by simp [hl], a, b, ?_⟩
    rw [List.drop_append, List.drop_eq_nil_of_le (by omega), hl]; rfl
  · exact absurd h (by simp)

/-- ActionNwTtl as NewActionNwTtl stores it (type SetNwTtl, length 8): (a) declares its 8 bytes, (b) aligned, the 3 pad
    bytes are zero, (c) the type code of the specification -/
theorem actionNwTtl_ok (v : V) (bs : Bytes) (v2 : V) (hwf : ahdr v = some (Gen.openflow13.ActionType_SetNwTtl, 8))
    (h : ActionNwTtl.marshalM v = .ok (bs, v2)) :
    TLV Gen.openflow13.ActionType_SetNwTtl bs ∧ bs.length % 8 = 0 ∧ bs.drop 5 = zeros 3 := by
  obtain ⟨a, b, c, d⟩ := actionNwTtl_wire v bs v2 _ _ hwf h
  exact ⟨tlv_of_wire _ _ _ a b c (by decide) (by decide), by omega, d⟩
theorem actionNwTtl_new_wf (t : Nat) : ahdr (ActionNwTtl.new t) = some (Gen.openflow13.ActionType_SetNwTtl, 8) := rfl

/-- the hypotheses are satisfiable: NewActionOutput(7) encodes, and the conclusion can be checked on its bytes -/
example : ∃ bs v2, ActionOutput.marshalM (ActionOutput.new 7) = .ok (bs, v2) ∧
    TLV Gen.openflow13.ActionType_Output bs ∧ bs.length % 8 = 0 :=
  ⟨_, _, rfl, actionOutput_ok _ _ _ (actionOutput_new_wf 7) rfl⟩
example : ∃ bs v2, ActionPush.marshalM (ActionPush.new Gen.openflow13.ActionType_PushVlan 0x8100) = .ok (bs, v2) ∧
    TLV Gen.openflow13.ActionType_PushVlan bs :=
  ⟨_, _, rfl, (actionPush_ok _ (by decide) _ _ _ (actionPush_new_wf _ _) rfl).1⟩
example : ∃ bs v2, ActionNwTtl.marshalM (ActionNwTtl.new 64) = .ok (bs, v2) ∧
    TLV Gen.openflow13.ActionType_SetNwTtl bs ∧ bs.length % 8 = 0 ∧ bs.drop 5 = zeros 3 :=
  ⟨_, _, rfl, actionNwTtl_ok _ _ _ (actionNwTtl_new_wf 64) rfl⟩
example : ∃ bs v2, ActionMplsTtl.marshalM (ActionMplsTtl.new 64) = .ok (bs, v2) ∧
    TLV Gen.openflow13.ActionType_SetMplsTtl bs ∧ bs.length % 8 = 0 ∧ bs.drop 5 = zeros 3 :=
  ⟨_, _, rfl, actionMplsTtl_ok _ _ _ (actionMplsTtl_new_wf 64) rfl⟩

/-! ### ActionSetField: header, the complete OXM field, zero padding to a multiple of 8 -/

/-- ActionSetField, any value: the size is a multiple of 8; stored type / length words at offsets 0 / 2; after the
    4 header bytes comes the complete encoding `fb` of the field, everything after it is zero -/
theorem actionSetField_wire (v : V) (bs : Bytes) (v2 : V) (ty ln : Nat) (ha : ahdr v = some (ty, ln))
    (h : ActionSetField.marshalM v = .ok (bs, v2)) :
    bs.length % 8 = 0 ∧ beAt bs 0 2 = ty % 65536 ∧ beAt bs 2 2 = ln % 65536 ∧
    ∃ hd f fb f', v = .obj "ActionSetField" [hd, f] ∧ MatchField.marshalM f = .ok (fb, f') ∧
      (bs.drop 4).take fb.length = fb ∧ bs.drop (4 + fb.length) = zeros (bs.length - (4 + fb.length)) := by
  obtain ⟨hd, f, hb, fb, f', rfl, hhb, hbl, hfm, e⟩ := C06b.actionSetField_embeds v bs v2 h
  have hal : bs.length % 8 = 0 := by
    have h' := h
    unfold ActionSetField.marshalM at h'
    obtain ⟨⟨l, v'⟩, hl, _⟩ := bind_ok_inv _ _ _ h'
    rw [C06b.actionSetField_size _ l v' bs v2 hl h]
    exact C06b.actionSetField_aligned _ _ _ hl
  obtain ⟨a, b⟩ := plain_wire_core hd hb (fb ++ zeros (bs.length - (4 + fb.length))) bs _ _ _ _ hhb
    (by rw [← List.append_assoc]; exact e) ha
  refine ⟨hal, a, b, hd, f, fb, f', rfl, hfm, ?_, ?_⟩
  · rw [e, List.append_assoc, ← hbl, List.drop_left]; simp
  · have : 4 + fb.length = (hb ++ fb).length := by simp [hbl]
    conv => lhs; rw [e, this, List.drop_left]
    rw [← this]

/-- ActionSetField whose stored Length equals its Len() (what NewActionSetField stores): (a) declares exactly its
    bytes, (b) a multiple of 8, zero padded after the field, (c) type OFPAT_SET_FIELD -/
theorem actionSetField_ok (v : V) (l : UInt16) (v1 : V) (bs : Bytes) (v2 : V)
    (hl : ActionSetField.lenM v = .ok (l, v1)) (hwf : ahdr v = some (Gen.openflow13.ActionType_SetField, l.toNat))
    (h : ActionSetField.marshalM v = .ok (bs, v2)) :
    TLV Gen.openflow13.ActionType_SetField bs ∧ bs.length % 8 = 0 := by
  obtain ⟨a, b, c, _⟩ := actionSetField_wire v bs v2 _ _ hwf h
  have hs := C06b.actionSetField_size v l v1 bs v2 hl h
  have := l.toNat_lt
  exact ⟨⟨by rw [b]; decide, by rw [c, hs]; omega⟩, a⟩

/-- NewActionSetField(field) establishes that well-formedness: the stored Length is Len() -/
theorem actionSetField_new_wf (f v : V) (hn : ActionSetField.new f = .ok v) :
    ∃ l v1, ActionSetField.lenM v = .ok (l, v1) ∧ ahdr v = some (Gen.openflow13.ActionType_SetField, l.toNat) := by
  unfold ActionSetField.new at hn
  obtain ⟨⟨l, v1⟩, hl, hn⟩ := bind_ok_inv _ _ _ hn
  have e1 := ActionSetField.lenM_pure _ _ _ hl
  subst e1
  simp only [ActionHeader.mk, ActionHeader.setLength, Res.bind_ok, Res.pure_eq] at hn
  cases hn
  refine ⟨l, .obj "ActionSetField" [.obj "ActionHeader" [.num Gen.openflow13.ActionType_SetField, V.u16 l], f], ?_, rfl⟩
  unfold ActionSetField.lenM at hl ⊢
  obtain ⟨⟨fl, f'⟩, hfl, hl⟩ := bind_ok_inv _ _ _ hl
  simp only [hfl, Res.bind_ok] at hl ⊢
  cases hl; rfl

/-! ### Nicira actions -/

/-- NXActionConjunction, any value: as many bytes as the stored Length says; if that is at least the 10 header bytes,
    the stored type / vendor / subtype are at offsets 0 / 4 / 8 and the length word declares exactly the bytes present -/
theorem nxConjunction_wire (v : V) (bs : Bytes) (v2 : V) (ty ln vd sb : Nat) (hn : nxhdr v = some (ty, ln, vd, sb))
    (h : NXActionConjunction.marshalM v = .ok (bs, v2)) :
    bs.length = ln % 65536 ∧ (10 ≤ bs.length → NXw (ty % 65536) (vd % 4294967296) (sb % 65536) bs) := by
  nx_stored NXActionConjunction.marshalM h hn
/-- NXActionRegLoad, any value -/
theorem nxRegLoad_wire (v : V) (bs : Bytes) (v2 : V) (ty ln vd sb : Nat) (hn : nxhdr v = some (ty, ln, vd, sb))
    (h : NXActionRegLoad.marshalM v = .ok (bs, v2)) :
    bs.length = ln % 65536 ∧ (10 ≤ bs.length → NXw (ty % 65536) (vd % 4294967296) (sb % 65536) bs) := by
  nx_stored NXActionRegLoad.marshalM h hn
/-- NXActionRegMove, any value -/
theorem nxRegMove_wire (v : V) (bs : Bytes) (v2 : V) (ty ln vd sb : Nat) (hn : nxhdr v = some (ty, ln, vd, sb))
    (h : NXActionRegMove.marshalM v = .ok (bs, v2)) :
    bs.length = ln % 65536 ∧ (10 ≤ bs.length → NXw (ty % 65536) (vd % 4294967296) (sb % 65536) bs) := by
  nx_stored NXActionRegMove.marshalM h hn
/-- NXActionResubmit, any value -/
theorem nxResubmit_wire (v : V) (bs : Bytes) (v2 : V) (ty ln vd sb : Nat) (hn : nxhdr v = some (ty, ln, vd, sb))
    (h : NXActionResubmit.marshalM v = .ok (bs, v2)) :
    bs.length = ln % 65536 ∧ (10 ≤ bs.length → NXw (ty % 65536) (vd % 4294967296) (sb % 65536) bs) := by
  nx_stored NXActionResubmit.marshalM h hn
/-- NXActionResubmitTable (also the CT variant), any value -/
theorem nxResubmitTable_wire (v : V) (bs : Bytes) (v2 : V) (ty ln vd sb : Nat) (hn : nxhdr v = some (ty, ln, vd, sb))
    (h : NXActionResubmitTable.marshalM v = .ok (bs, v2)) :
    bs.length = ln % 65536 ∧ (10 ≤ bs.length → NXw (ty % 65536) (vd % 4294967296) (sb % 65536) bs) := by
  nx_stored NXActionResubmitTable.marshalM h hn
/-- NXActionOutputReg, any value -/
theorem nxOutputReg_wire (v : V) (bs : Bytes) (v2 : V) (ty ln vd sb : Nat) (hn : nxhdr v = some (ty, ln, vd, sb))
    (h : NXActionOutputReg.marshalM v = .ok (bs, v2)) :
    bs.length = ln % 65536 ∧ (10 ≤ bs.length → NXw (ty % 65536) (vd % 4294967296) (sb % 65536) bs) := by
  nx_stored NXActionOutputReg.marshalM h hn
/-- NXActionCTClear, any value -/
theorem nxCTClear_wire (v : V) (bs : Bytes) (v2 : V) (ty ln vd sb : Nat) (hn : nxhdr v = some (ty, ln, vd, sb))
    (h : NXActionCTClear.marshalM v = .ok (bs, v2)) :
    bs.length = ln % 65536 ∧ (10 ≤ bs.length → NXw (ty % 65536) (vd % 4294967296) (sb % 65536) bs) := by
  nx_stored NXActionCTClear.marshalM h hn
/-- NXActionDecTTL, any value -/
theorem nxDecTTL_wire (v : V) (bs : Bytes) (v2 : V) (ty ln vd sb : Nat) (hn : nxhdr v = some (ty, ln, vd, sb))
    (h : NXActionDecTTL.marshalM v = .ok (bs, v2)) :
    bs.length = ln % 65536 ∧ (10 ≤ bs.length → NXw (ty % 65536) (vd % 4294967296) (sb % 65536) bs) := by
  nx_stored NXActionDecTTL.marshalM h hn
/-- NXActionDecTTLCntIDs, any value and any number of controller ids -/
theorem nxDecTTLCntIDs_wire (v : V) (bs : Bytes) (v2 : V) (ty ln vd sb : Nat) (hn : nxhdr v = some (ty, ln, vd, sb))
    (h : NXActionDecTTLCntIDs.marshalM v = .ok (bs, v2)) :
    bs.length = ln % 65536 ∧ (10 ≤ bs.length → NXw (ty % 65536) (vd % 4294967296) (sb % 65536) bs) := by
  nx_stored NXActionDecTTLCntIDs.marshalM h hn

/-- NXActionConjunction as NewNXActionConjunction stores it: 16 bytes, NXAST_CONJUNCTION -/
theorem nxConjunction_ok (v : V) (bs : Bytes) (v2 : V)
    (hwf : nxhdr v = some (Gen.openflow13.ActionType_Experimenter, 16, Gen.openflow13.NxExperimenterID, Gen.openflow13.NXAST_CONJUNCTION))
    (h : NXActionConjunction.marshalM v = .ok (bs, v2)) :
    NX Gen.openflow13.NXAST_CONJUNCTION bs ∧ bs.length = 16 ∧ bs.length % 8 = 0 :=
  nx_ok_of_wire _ _ _ (by decide) (by decide) (by decide) (by decide) (nxConjunction_wire v bs v2 _ _ _ _ hwf h)
theorem nxConjunction_new_wf (c nc id : Nat) : nxhdr (NXActionConjunction.new c nc id) =
    some (Gen.openflow13.ActionType_Experimenter, 16, Gen.openflow13.NxExperimenterID, Gen.openflow13.NXAST_CONJUNCTION) := rfl

/-- NXActionRegLoad as NewNXActionRegLoad stores it: 24 bytes, NXAST_REG_LOAD -/
theorem nxRegLoad_ok (v : V) (bs : Bytes) (v2 : V)
    (hwf : nxhdr v = some (Gen.openflow13.ActionType_Experimenter, 24, Gen.openflow13.NxExperimenterID, Gen.openflow13.NXAST_REG_LOAD))
    (h : NXActionRegLoad.marshalM v = .ok (bs, v2)) :
    NX Gen.openflow13.NXAST_REG_LOAD bs ∧ bs.length = 24 ∧ bs.length % 8 = 0 :=
  nx_ok_of_wire _ _ _ (by decide) (by decide) (by decide) (by decide) (nxRegLoad_wire v bs v2 _ _ _ _ hwf h)
theorem nxRegLoad_new_wf (ofs : Nat) (dst : V) (val : Nat) : nxhdr (NXActionRegLoad.new ofs dst val) =
    some (Gen.openflow13.ActionType_Experimenter, 24, Gen.openflow13.NxExperimenterID, Gen.openflow13.NXAST_REG_LOAD) := rfl

/-- NXActionRegMove as NewNXActionRegMove stores it: 24 bytes, NXAST_REG_MOVE -/
theorem nxRegMove_ok (v : V) (bs : Bytes) (v2 : V)
    (hwf : nxhdr v = some (Gen.openflow13.ActionType_Experimenter, 24, Gen.openflow13.NxExperimenterID, Gen.openflow13.NXAST_REG_MOVE))
    (h : NXActionRegMove.marshalM v = .ok (bs, v2)) :
    NX Gen.openflow13.NXAST_REG_MOVE bs ∧ bs.length = 24 ∧ bs.length % 8 = 0 :=
  nx_ok_of_wire _ _ _ (by decide) (by decide) (by decide) (by decide) (nxRegMove_wire v bs v2 _ _ _ _ hwf h)
theorem nxRegMove_new_wf (nb so dso : Nat) (sf df : V) : nxhdr (NXActionRegMove.new nb so dso sf df) =
    some (Gen.openflow13.ActionType_Experimenter, 24, Gen.openflow13.NxExperimenterID, Gen.openflow13.NXAST_REG_MOVE) := rfl

/-- NXActionResubmit as NewNXActionResubmit stores it: 16 bytes, NXAST_RESUBMIT -/
theorem nxResubmit_ok (v : V) (bs : Bytes) (v2 : V)
    (hwf : nxhdr v = some (Gen.openflow13.ActionType_Experimenter, 16, Gen.openflow13.NxExperimenterID, Gen.openflow13.NXAST_RESUBMIT))
    (h : NXActionResubmit.marshalM v = .ok (bs, v2)) :
    NX Gen.openflow13.NXAST_RESUBMIT bs ∧ bs.length = 16 ∧ bs.length % 8 = 0 :=
  nx_ok_of_wire _ _ _ (by decide) (by decide) (by decide) (by decide) (nxResubmit_wire v bs v2 _ _ _ _ hwf h)
theorem nxResubmit_new_wf (ip : Nat) (v : V) (hn : NXActionResubmit.new ip = .ok v) : nxhdr v =
    some (Gen.openflow13.ActionType_Experimenter, 16, Gen.openflow13.NxExperimenterID, Gen.openflow13.NXAST_RESUBMIT) := by
  cases hn; rfl

/-- NXActionResubmitTable as NewNXActionResubmitTableAction / …CT / …CTNoInPort store it: 16 bytes, the subtype the
    constructor was given (NXAST_RESUBMIT_TABLE or NXAST_CT_RESUBMIT) -/
theorem nxResubmitTable_ok (sub : Nat) (hs : sub < 65536) (v : V) (bs : Bytes) (v2 : V)
    (hwf : nxhdr v = some (Gen.openflow13.ActionType_Experimenter, 16, Gen.openflow13.NxExperimenterID, sub))
    (h : NXActionResubmitTable.marshalM v = .ok (bs, v2)) :
    NX sub bs ∧ bs.length = 16 ∧ bs.length % 8 = 0 :=
  nx_ok_of_wire _ _ _ hs (by decide) (by decide) (by decide) (nxResubmitTable_wire v bs v2 _ _ _ _ hwf h)
theorem nxResubmitTable_new_wf (ip t ct : Nat) :
    nxhdr (NXActionResubmitTable.new Gen.openflow13.NXAST_RESUBMIT_TABLE ip t ct) =
      some (Gen.openflow13.ActionType_Experimenter, 16, Gen.openflow13.NxExperimenterID, Gen.openflow13.NXAST_RESUBMIT_TABLE) ∧
    nxhdr (NXActionResubmitTable.new Gen.openflow13.NXAST_CT_RESUBMIT ip t ct) =
      some (Gen.openflow13.ActionType_Experimenter, 16, Gen.openflow13.NxExperimenterID, Gen.openflow13.NXAST_CT_RESUBMIT) :=
  ⟨rfl, rfl⟩

/-- NXActionOutputReg as NewOutputFromField(WithMaxLen) stores it: 24 bytes, NXAST_OUTPUT_REG -/
theorem nxOutputReg_ok (v : V) (bs : Bytes) (v2 : V)
    (hwf : nxhdr v = some (Gen.openflow13.ActionType_Experimenter, 24, Gen.openflow13.NxExperimenterID, Gen.openflow13.NXAST_OUTPUT_REG))
    (h : NXActionOutputReg.marshalM v = .ok (bs, v2)) :
    NX Gen.openflow13.NXAST_OUTPUT_REG bs ∧ bs.length = 24 ∧ bs.length % 8 = 0 :=
  nx_ok_of_wire _ _ _ (by decide) (by decide) (by decide) (by decide) (nxOutputReg_wire v bs v2 _ _ _ _ hwf h)
theorem nxOutputReg_new_wf (sf : V) (ofs ml : Nat) : nxhdr (NXActionOutputReg.new sf ofs ml) =
    some (Gen.openflow13.ActionType_Experimenter, 24, Gen.openflow13.NxExperimenterID, Gen.openflow13.NXAST_OUTPUT_REG) := rfl

/-- NXActionCTClear as NewNXActionCTClear stores it: 16 bytes, NXAST_CT_CLEAR -/
theorem nxCTClear_ok (v : V) (bs : Bytes) (v2 : V)
    (hwf : nxhdr v = some (Gen.openflow13.ActionType_Experimenter, 16, Gen.openflow13.NxExperimenterID, Gen.openflow13.NXAST_CT_CLEAR))
    (h : NXActionCTClear.marshalM v = .ok (bs, v2)) :
    NX Gen.openflow13.NXAST_CT_CLEAR bs ∧ bs.length = 16 ∧ bs.length % 8 = 0 :=
  nx_ok_of_wire _ _ _ (by decide) (by decide) (by decide) (by decide) (nxCTClear_wire v bs v2 _ _ _ _ hwf h)
theorem nxCTClear_new_wf : nxhdr NXActionCTClear.new =
    some (Gen.openflow13.ActionType_Experimenter, 16, Gen.openflow13.NxExperimenterID, Gen.openflow13.NXAST_CT_CLEAR) := rfl

/-- NXActionDecTTL as NewNXActionDecTTL stores it: 16 bytes, NXAST_DEC_TTL -/
theorem nxDecTTL_ok (v : V) (bs : Bytes) (v2 : V)
    (hwf : nxhdr v = some (Gen.openflow13.ActionType_Experimenter, 16, Gen.openflow13.NxExperimenterID, Gen.openflow13.NXAST_DEC_TTL))
    (h : NXActionDecTTL.marshalM v = .ok (bs, v2)) :
    NX Gen.openflow13.NXAST_DEC_TTL bs ∧ bs.length = 16 ∧ bs.length % 8 = 0 :=
  nx_ok_of_wire _ _ _ (by decide) (by decide) (by decide) (by decide) (nxDecTTL_wire v bs v2 _ _ _ _ hwf h)
theorem nxDecTTL_new_wf : nxhdr NXActionDecTTL.new =
    some (Gen.openflow13.ActionType_Experimenter, 16, Gen.openflow13.NxExperimenterID, Gen.openflow13.NXAST_DEC_TTL) := rfl

/-- NXActionDecTTLCntIDs whose stored Length `ln` is a multiple of 8 (the constructor rounds 16 + 2·#ids up):
    declared = occupied = `ln`, NXAST_DEC_TTL_CNT_IDS -/
theorem nxDecTTLCntIDs_ok (ln : Nat) (h8 : ln % 8 = 0) (h10 : 10 ≤ ln) (hlt : ln < 65536) (v : V) (bs : Bytes) (v2 : V)
    (hwf : nxhdr v = some (Gen.openflow13.ActionType_Experimenter, ln, Gen.openflow13.NxExperimenterID, Gen.openflow13.NXAST_DEC_TTL_CNT_IDS))
    (h : NXActionDecTTLCntIDs.marshalM v = .ok (bs, v2)) :
    NX Gen.openflow13.NXAST_DEC_TTL_CNT_IDS bs ∧ bs.length = ln ∧ bs.length % 8 = 0 :=
  nx_ok_of_wire _ _ _ (by decide) h8 h10 hlt (nxDecTTLCntIDs_wire v bs v2 _ _ _ _ hwf h)
/-- NewNXActionDecTTLCntIDs(controllers, ids…) stores 16 + 2·#ids rounded up to a multiple of 8 (fewer than 32 000 ids) -/
theorem nxDecTTLCntIDs_new_wf (c : Nat) (ids : List V) (hk : ids.length < 32000) :
    ∃ ln, ln % 8 = 0 ∧ 16 + 2 * ids.length ≤ ln ∧ ln < 16 + 2 * ids.length + 8 ∧
      nxhdr (NXActionDecTTLCntIDs.new c ids) =
        some (Gen.openflow13.ActionType_Experimenter, ln, Gen.openflow13.NxExperimenterID, Gen.openflow13.NXAST_DEC_TTL_CNT_IDS) := by
  refine ⟨(8 * ((16 + n16 (2 * ids.length) + 7) / 8) : UInt16).toNat, ?_, ?_, ?_, rfl⟩
  all_goals (
    rw [UInt16.toNat_mul, UInt16.toNat_div, UInt16.toNat_add, UInt16.toNat_add, n16_toNat']
    have h8 : (8 : UInt16).toNat = 8 := rfl
    have h7 : (7 : UInt16).toNat = 7 := rfl
    have h16 : (16 : UInt16).toNat = 16 := rfl
    have hp : (2 : Nat) ^ 16 = 65536 := rfl
    rw [h8, h7, h16, hp]
    omega)

/-- the hypotheses are satisfiable: three controller ids ⇒ stored Length 24, and the encoder succeeds -/
example : (NXActionDecTTLCntIDs.marshalM (NXActionDecTTLCntIDs.new 3 [.num 1, .num 2, .num 3])).isOk = true ∧
    ∀ bs v2, NXActionDecTTLCntIDs.marshalM (NXActionDecTTLCntIDs.new 3 [.num 1, .num 2, .num 3]) = .ok (bs, v2) →
      NX Gen.openflow13.NXAST_DEC_TTL_CNT_IDS bs ∧ bs.length = 24 :=
  ⟨rfl, fun bs v2 h =>
    have := nxDecTTLCntIDs_ok 24 (by decide) (by decide) (by decide) _ bs v2 rfl h
    ⟨this.1, this.2.1⟩⟩

/-! ### Nicira actions whose encoder recomputes the length (`a.Length = a.Len()` before writing the header) -/

/-- NXActionController, any value: always 16 bytes, the length word says 16 (whatever Length was stored) -/
theorem nxController_wire (v : V) (bs : Bytes) (v2 : V) (ty ln vd sb : Nat) (hn : nxhdr v = some (ty, ln, vd, sb))
    (h : NXActionController.marshalM v = .ok (bs, v2)) :
    bs.length = 16 ∧ NXw (ty % 65536) (vd % 4294967296) (sb % 65536) bs := by
  unfold NXActionController.marshalM at h
  split at h
  · obtain ⟨h', hs, h⟩ := bind_ok_inv _ _ _ h
    obtain ⟨hb, hhb, h⟩ := bind_ok_inv _ _ _ h
    obtain ⟨out, hf, h⟩ := bind_ok_inv _ _ _ h
    cases h
    obtain ⟨a, b⟩ := nx_set_core _ _ _ _ 16 _ _ _ _ _ _ _ hn hs hhb hf
    exact ⟨a, b (by rw [a]; decide)⟩
  · exact absurd h (by simp)

/-- NXActionNote, any value: a multiple of 8 bytes; when not empty (the rounded size did not wrap to 0) the length word
    declares exactly the bytes present -/
theorem nxNote_wire (v : V) (bs : Bytes) (v2 : V) (ty ln vd sb : Nat) (hn : nxhdr v = some (ty, ln, vd, sb))
    (h : NXActionNote.marshalM v = .ok (bs, v2)) :
    bs.length % 8 = 0 ∧ (10 ≤ bs.length → NXw (ty % 65536) (vd % 4294967296) (sb % 65536) bs) := by
  unfold NXActionNote.marshalM at h
  split at h
  · obtain ⟨h', hs, h⟩ := bind_ok_inv _ _ _ h
    obtain ⟨hb, hhb, h⟩ := bind_ok_inv _ _ _ h
    obtain ⟨out, hf, h⟩ := bind_ok_inv _ _ _ h
    cases h
    obtain ⟨a, b⟩ := nx_set_core _ _ _ _ _ _ _ _ _ _ _ _ hn hs hhb hf
    exact ⟨by rw [a]; exact round8_aligned _, b⟩
  · exact absurd h (by simp)

/-- … and the bytes after the note are zero (a note that fits: 10 + len ≤ 65528) -/
theorem nxNote_pad (hd : V) (note : Bytes) (bs : Bytes) (v2 : V) (hfit : note.length ≤ 65518)
    (h : NXActionNote.marshalM (.obj "NXActionNote" [hd, .bytes note]) = .ok (bs, v2)) :
    bs.length = (10 + note.length + 7) / 8 * 8 ∧ (bs.drop 10).take note.length = note ∧
      bs.drop (10 + note.length) = zeros (bs.length - (10 + note.length)) := by
  simp only [NXActionNote.marshalM] at h
  obtain ⟨h', hs, h⟩ := bind_ok_inv _ _ _ h
  obtain ⟨hb, hhb, h⟩ := bind_ok_inv _ _ _ h
  obtain ⟨out, hf, h⟩ := bind_ok_inv _ _ _ h
  cases h
  have hbl := NXActionHeader.bytes_length _ _ hhb
  have hl := fill_length _ _ _ hf
  have e1 : (10 + n16 note.length : UInt16).toNat = 10 + note.length := by
    rw [UInt16.toNat_add, n16_toNat']
    have h10 : (10 : UInt16).toNat = 10 := rfl
    have hp : (2 : Nat) ^ 16 = 65536 := rfl
    rw [h10, hp]; omega
  have e2 := round8_ge (10 + n16 note.length) (by rw [e1]; omega)
  have e3 := round8_toNat (10 + n16 note.length)
  rw [e1] at e2 e3
  have hx := fill_all _ _ _ (by intro p hp; simp only [List.mem_cons, List.mem_nil_iff, or_false] at hp
                                rcases hp with rfl | rfl <;> simp [pCopy, Piece.Tight])
    (by simp only [piecesLen, pCopy, List.map_cons, List.map_nil, Piece.adv, List.sum_cons, List.sum_nil, hbl]; omega) hf
  simp only [piecesBytes, piecesLen, pCopy, List.map_cons, List.map_nil, Piece.bytes, Piece.adv, List.sum_cons,
    List.sum_nil, List.flatten_cons, List.flatten_nil, List.append_nil, hbl, Nat.add_zero] at hx
  refine ⟨by rw [hl, e3]; omega, ?_, ?_⟩
  · rw [hx, List.append_assoc, ← hbl, List.drop_left]; simp
  · have : 10 + note.length = (hb ++ note).length := by simp [hbl]
    rw [hl]
    conv => lhs; rw [hx, this, List.drop_left]
    rw [← this]

/-- NXActionLearn, any value: a multiple of 8 bytes; when not empty the length word declares exactly the bytes present -/
theorem nxLearn_wire (v : V) (bs : Bytes) (v2 : V) (ty ln vd sb : Nat) (hn : nxhdr v = some (ty, ln, vd, sb))
    (h : NXActionLearn.marshalM v = .ok (bs, v2)) :
    bs.length % 8 = 0 ∧ (10 ≤ bs.length → NXw (ty % 65536) (vd % 4294967296) (sb % 65536) bs) := by
  unfold NXActionLearn.marshalM at h
  obtain ⟨l, hl, h⟩ := bind_ok_inv _ _ _ h
  have hl8 : l.toNat % 8 = 0 := by
    unfold NXActionLearn.len at hl
    split at hl
    · obtain ⟨t, _, hl⟩ := bind_ok_inv _ _ _ hl
      cases hl
      exact round8_aligned _
    · exact absurd hl (by simp)
  split at h
  · obtain ⟨h', hs, h⟩ := bind_ok_inv _ _ _ h
    obtain ⟨hb, hhb, h⟩ := bind_ok_inv _ _ _ h
    obtain ⟨⟨sbs, sp⟩, _, h⟩ := bind_ok_inv _ _ _ h
    obtain ⟨out, hf, h⟩ := bind_ok_inv _ _ _ h
    cases h
    obtain ⟨a, b⟩ := nx_set_core _ _ _ _ _ _ _ _ _ _ _ _ hn hs hhb hf
    exact ⟨by rw [a]; exact hl8, b⟩
  · exact absurd h (by simp)

/-- NXActionRegLoad2, any value: a multiple of 8 bytes, the length word declares exactly the bytes present; after the
    10 header bytes comes the complete OXM field `fb`, everything after it is zero -/
theorem nxRegLoad2_wire (v : V) (bs : Bytes) (v2 : V) (ty ln vd sb : Nat) (hn : nxhdr v = some (ty, ln, vd, sb))
    (h : NXActionRegLoad2.marshalM v = .ok (bs, v2)) :
    bs.length % 8 = 0 ∧ NXw (ty % 65536) (vd % 4294967296) (sb % 65536) bs ∧
    ∃ hd f pad fb f', v = .obj "NXActionRegLoad2" [hd, f, pad] ∧ MatchField.marshalM f = .ok (fb, f') ∧
      (bs.drop 10).take fb.length = fb ∧ bs.drop (10 + fb.length) = zeros (bs.length - (10 + fb.length)) := by
  unfold NXActionRegLoad2.marshalM at h
  obtain ⟨⟨l0, va⟩, hl0, g1⟩ := bind_ok_inv _ _ _ h
  clear h
  have e0 := NXActionRegLoad2.lenM_pure _ _ _ hl0
  subst e0
  have hl0' := hl0
  unfold NXActionRegLoad2.lenM at hl0'
  split at hl0'
  · rename_i hd f pad
    split at hl0'
    · exact absurd hl0' (by simp)
    · obtain ⟨⟨fl, f1⟩, hfl, hl1⟩ := bind_ok_inv _ _ _ hl0'
      have ef := MatchField.lenM_pure _ _ _ hfl
      subst ef
      have el : l0 = Model.round8 (10 + fl) := by cases hl1; rfl
      subst el
      simp only at g1
      rw [hl0] at g1
      simp only [Res.bind_ok] at g1
      obtain ⟨h', hs, g2⟩ := bind_ok_inv _ _ _ g1
      obtain ⟨hb, hhb, g3⟩ := bind_ok_inv _ _ _ g2
      obtain ⟨⟨fb, f'⟩, hfm, g4⟩ := bind_ok_inv _ _ _ g3
      obtain ⟨out, hf, g5⟩ := bind_ok_inv _ _ _ g4
      have eb : bs = out := by cases g5; rfl
      subst eb
      simp only at hf
      obtain ⟨a, b⟩ := nx_set_core _ _ _ _ _ _ _ _ _ _ _ _ hn hs hhb hf
      have hle := C06b.matchField_len_le _ _ _ hfl
      have hfs := C06.matchField_size _ _ _ _ _ hfl hfm
      have e4 : (10 + fl : UInt16).toNat = 10 + fl.toNat := by
        rw [UInt16.toNat_add]
        have hp : (2 : Nat) ^ 16 = 65536 := rfl
        have h10 : (10 : UInt16).toNat = 10 := rfl
        rw [hp, h10]; omega
      have e5 := round8_ge (10 + fl) (by omega)
      rw [e4] at e5
      have hbl := NXActionHeader.bytes_length _ _ hhb
      have hx := fill_all _ _ _ (by intro p hp; simp only [List.mem_cons, List.mem_nil_iff, or_false] at hp
                                    rcases hp with rfl | rfl <;> simp [pCopy, Piece.Tight])
        (by simp only [piecesLen, pCopy, List.map_cons, List.map_nil, Piece.adv, List.sum_cons, List.sum_nil, hbl]; omega) hf
      simp only [piecesBytes, piecesLen, pCopy, List.map_cons, List.map_nil, Piece.bytes, Piece.adv, List.sum_cons,
        List.sum_nil, List.flatten_cons, List.flatten_nil, List.append_nil, hbl, Nat.add_zero] at hx
      refine ⟨by rw [a]; exact round8_aligned _, b (by omega), hd, _, pad, fb, f', rfl, hfm, ?_, ?_⟩
      · rw [hx, List.append_assoc, ← hbl, List.drop_left]; simp
      · have : 10 + fb.length = (hb ++ fb).length := by simp [hbl]
        rw [a]
        conv => lhs; rw [hx, this, List.drop_left]
        rw [← this]
  · exact absurd hl0' (by simp)

/-- NXActionCTNAT, any value: Len() rounds the stored Length up to a multiple of 8 and stores it back; that many bytes
    are allocated and the rounded value is what the length word says -/
theorem nxCTNAT_wire (v : V) (bs : Bytes) (v2 : V) (ty ln vd sb : Nat) (hn : nxhdr v = some (ty, ln, vd, sb))
    (h : NXActionCTNAT.marshalM v = .ok (bs, v2)) :
    bs.length = (round8 (n16 ln)).toNat ∧ bs.length % 8 = 0 ∧
      (10 ≤ bs.length → NXw (ty % 65536) (vd % 4294967296) (sb % 65536) bs) := by
  unfold NXActionCTNAT.marshalM at h
  obtain ⟨⟨l, va⟩, hl, g1⟩ := bind_ok_inv _ _ _ h
  clear h
  simp only at g1
  unfold NXActionCTNAT.lenM at hl
  split at hl
  · rename_i hd r
    have e := nxhdr_inv _ _ _ _ _ _ _ hn
    subst e
    obtain ⟨l0, hl0, hl2⟩ := bind_ok_inv _ _ _ hl
    simp only [NXActionHeader.length, ActionHeader.length] at hl0
    cases hl0
    obtain ⟨h', hs, hl3⟩ := bind_ok_inv _ _ _ hl2
    cases hl3
    split at g1
    · rename_i heq
      cases heq
      obtain ⟨hb, hhb, g2⟩ := bind_ok_inv _ _ _ g1
      obtain ⟨pp, _, g3⟩ := bind_ok_inv _ _ _ g2
      obtain ⟨out, hf, g4⟩ := bind_ok_inv _ _ _ g3
      cases g4
      obtain ⟨a, b⟩ := nx_set_core "NXActionCTNAT" _ [] _ _ _ _ _ _ _ _ _ hn hs hhb hf
      exact ⟨a, by rw [a]; exact round8_aligned _, b⟩
    · exact absurd g1 (by simp)
  · exact absurd hl (by simp)

/-- NXActionConnTrack, any value and any nested actions (`subLen` / `sub` = Len / MarshalBinary of the nested actions):
    Len() recomputes 24 + Σ nested sizes and stores it; that many bytes are allocated, and the length word says so -/
theorem nxConnTrack_wire (subLen : V → R (UInt16 × V)) (sub : V → R (Bytes × V)) (v : V) (bs : Bytes) (v2 : V)
    (ty ln vd sb : Nat) (hn : nxhdr v = some (ty, ln, vd, sb))
    (h : NXActionConnTrack.marshalWith subLen sub v = .ok (bs, v2)) :
    (∃ l v1, NXActionConnTrack.lenWith subLen v = .ok (l, v1) ∧ bs.length = l.toNat) ∧
      (10 ≤ bs.length → NXw (ty % 65536) (vd % 4294967296) (sb % 65536) bs) := by
  unfold NXActionConnTrack.marshalWith at h
  obtain ⟨⟨l, va⟩, hl, g1⟩ := bind_ok_inv _ _ _ h
  clear h
  simp only at g1
  have hl' := hl
  unfold NXActionConnTrack.lenWith at hl
  split at hl
  · rename_i hd a b c d e f acts
    have e := nxhdr_inv _ _ _ _ _ _ _ hn
    subst e
    obtain ⟨⟨l0, hd0⟩, hl0, hl2⟩ := bind_ok_inv _ _ _ hl
    obtain ⟨e1, e2⟩ := same_ok _ _ _ _ hl0
    subst e1; subst e2
    obtain ⟨⟨ls, acts1⟩, _, hl3⟩ := bind_ok_inv _ _ _ hl2
    obtain ⟨h', hs, hl4⟩ := bind_ok_inv _ _ _ hl3
    cases hl4
    split at g1
    · rename_i heq
      cases heq
      obtain ⟨hb, hhb, g2⟩ := bind_ok_inv _ _ _ g1
      obtain ⟨buf, hf, g3⟩ := bind_ok_inv _ _ _ g2
      obtain ⟨⟨buf', acts'⟩, hacts, g4⟩ := bind_ok_inv _ _ _ g3
      have eb : bs = buf' := by cases g4; rfl
      subst eb
      obtain ⟨a1, b1⟩ := nx_set_core "NXActionConnTrack" _ [] _ _ _ _ _ _ _ _ _ hn hs hhb hf
      have hlen := NXActionConnTrack.marshalActs_length _ _ _ _ _ _ hacts
      refine ⟨⟨_, _, hl', by rw [hlen, a1]⟩, fun h10 => ?_⟩
      have hw := b1 (by rw [← hlen]; exact h10)
      have ht := marshalActs_take _ _ _ _ _ _ hacts 10 (by omega)
      have key : ∀ off w, off + w ≤ 10 → beAt bs off w = beAt buf off w := by
        intro off w hw
        rw [← beAt_take bs 10 off w hw, ← beAt_take buf 10 off w hw, ht]
      exact ⟨by rw [key 0 2 (by omega)]; exact hw.code_ok, by rw [key 2 2 (by omega), hlen]; exact hw.len_ok,
        by rw [key 4 4 (by omega)]; exact hw.vendor_ok, by rw [key 8 2 (by omega)]; exact hw.sub_ok⟩
    · exact absurd g1 (by simp)
  · exact absurd hl (by simp)

/-- NXActionController with a Nicira header of subtype NXAST_CONTROLLER (whatever Length is stored: the encoder
    overwrites it with 16): declared = occupied = 16, aligned, Nicira codes -/
theorem nxController_ok (ln : Nat) (v : V) (bs : Bytes) (v2 : V)
    (hwf : nxhdr v = some (Gen.openflow13.ActionType_Experimenter, ln, Gen.openflow13.NxExperimenterID, Gen.openflow13.NXAST_CONTROLLER))
    (h : NXActionController.marshalM v = .ok (bs, v2)) :
    NX Gen.openflow13.NXAST_CONTROLLER bs ∧ bs.length = 16 ∧ bs.length % 8 = 0 := by
  obtain ⟨a, b⟩ := nxController_wire v bs v2 _ _ _ _ hwf h
  exact ⟨nx_of_nxw _ (by decide) bs b, a, by omega⟩
theorem nxController_new_wf (id : Nat) : nxhdr (NXActionController.new id) =
    some (Gen.openflow13.ActionType_Experimenter, 16, Gen.openflow13.NxExperimenterID, Gen.openflow13.NXAST_CONTROLLER) := rfl

/-- NXActionNote with a Nicira header of subtype NXAST_NOTE and a note of at most 65 518 bytes (the stored Length is
    irrelevant, the encoder overwrites it): declared = occupied = 10 + len(note) rounded up to 8, zero padded -/
theorem nxNote_ok (ln : Nat) (hd : V) (note : Bytes) (bs : Bytes) (v2 : V) (hfit : note.length ≤ 65518)
    (hwf : nxhdr (.obj "NXActionNote" [hd, .bytes note]) =
      some (Gen.openflow13.ActionType_Experimenter, ln, Gen.openflow13.NxExperimenterID, Gen.openflow13.NXAST_NOTE))
    (h : NXActionNote.marshalM (.obj "NXActionNote" [hd, .bytes note]) = .ok (bs, v2)) :
    NX Gen.openflow13.NXAST_NOTE bs ∧ bs.length % 8 = 0 ∧ bs.length = (10 + note.length + 7) / 8 * 8 ∧
      bs.drop (10 + note.length) = zeros (bs.length - (10 + note.length)) := by
  obtain ⟨a, b⟩ := nxNote_wire _ bs v2 _ _ _ _ hwf h
  obtain ⟨c, _, d⟩ := nxNote_pad hd note bs v2 hfit h
  exact ⟨nx_of_nxw _ (by decide) bs (b (by omega)), a, c, d⟩
theorem nxNote_new_wf : nxhdr NXActionNote.new =
    some (Gen.openflow13.ActionType_Experimenter, 10, Gen.openflow13.NxExperimenterID, Gen.openflow13.NXAST_NOTE) := rfl

/-- NXActionLearn with a Nicira header of subtype NXAST_LEARN: declared = occupied, a multiple of 8.
    (`10 ≤ bs.length` fails only when the uint16 size 32 + Σ specs wrapped around, i.e. beyond 65 496 bytes of specs.) -/
theorem nxLearn_ok (ln : Nat) (v : V) (bs : Bytes) (v2 : V)
    (hwf : nxhdr v = some (Gen.openflow13.ActionType_Experimenter, ln, Gen.openflow13.NxExperimenterID, Gen.openflow13.NXAST_LEARN))
    (h : NXActionLearn.marshalM v = .ok (bs, v2)) (hsz : 10 ≤ bs.length) :
    NX Gen.openflow13.NXAST_LEARN bs ∧ bs.length % 8 = 0 := by
  obtain ⟨a, b⟩ := nxLearn_wire v bs v2 _ _ _ _ hwf h
  exact ⟨nx_of_nxw _ (by decide) bs (b hsz), a⟩
theorem nxLearn_new_wf : nxhdr NXActionLearn.new =
    some (Gen.openflow13.ActionType_Experimenter, 10, Gen.openflow13.NxExperimenterID, Gen.openflow13.NXAST_LEARN) := rfl

/-- NXActionRegLoad2 with a Nicira header of subtype NXAST_REG_LOAD2, ANY field: declared = occupied, a multiple of 8,
    zero padded after the field -/
theorem nxRegLoad2_ok (ln : Nat) (v : V) (bs : Bytes) (v2 : V)
    (hwf : nxhdr v = some (Gen.openflow13.ActionType_Experimenter, ln, Gen.openflow13.NxExperimenterID, Gen.openflow13.NXAST_REG_LOAD2))
    (h : NXActionRegLoad2.marshalM v = .ok (bs, v2)) :
    NX Gen.openflow13.NXAST_REG_LOAD2 bs ∧ bs.length % 8 = 0 := by
  obtain ⟨a, b, _⟩ := nxRegLoad2_wire v bs v2 _ _ _ _ hwf h
  exact ⟨nx_of_nxw _ (by decide) bs b, a⟩
theorem nxRegLoad2_new_wf (f : V) : nxhdr (NXActionRegLoad2.new f) =
    some (Gen.openflow13.ActionType_Experimenter, 10, Gen.openflow13.NxExperimenterID, Gen.openflow13.NXAST_REG_LOAD2) := rfl

/-- NXActionCTNAT with a Nicira header of subtype NXAST_NAT whose stored Length `ln` (16 + the ranges added so far) is
    between 10 and 65 528: declared = occupied = `ln` rounded up to a multiple of 8 -/
theorem nxCTNAT_ok (ln : Nat) (h10 : 10 ≤ ln) (hle : ln ≤ 65528) (v : V) (bs : Bytes) (v2 : V)
    (hwf : nxhdr v = some (Gen.openflow13.ActionType_Experimenter, ln, Gen.openflow13.NxExperimenterID, Gen.openflow13.NXAST_NAT))
    (h : NXActionCTNAT.marshalM v = .ok (bs, v2)) :
    NX Gen.openflow13.NXAST_NAT bs ∧ bs.length % 8 = 0 ∧ ln ≤ bs.length ∧ bs.length < ln + 8 := by
  obtain ⟨a, b, c⟩ := nxCTNAT_wire v bs v2 _ _ _ _ hwf h
  have e : (n16 ln).toNat = ln := by rw [n16_toNat']; omega
  have r := round8_ge (n16 ln) (by omega)
  rw [e] at r
  exact ⟨nx_of_nxw _ (by decide) bs (c (by omega)), b, by omega, by omega⟩
theorem nxCTNAT_new_wf : nxhdr NXActionCTNAT.new =
    some (Gen.openflow13.ActionType_Experimenter, 16, Gen.openflow13.NxExperimenterID, Gen.openflow13.NXAST_NAT) := rfl
/-- the range setters keep type, vendor and subtype and store as Length `unpaddedLen()` of the presence bits after the
    call: 16 + the widths of the ranges present, between 16 and 60 (so `nxCTNAT_ok` applies) -/
theorem nxCTNAT_setRange_wf (idx bit : Nat) (add : UInt16) (x v v' : V) (ty ln vd sb : Nat)
    (hwf : nxhdr v = some (ty, ln, vd, sb)) (hs : NXActionCTNAT.setRange idx bit add x v = .ok v') :
    ∃ rp, nxhdr v' = some (ty, (NXActionCTNAT.unpaddedLen rp).toNat, vd, sb) ∧
      16 ≤ (NXActionCTNAT.unpaddedLen rp).toNat ∧ (NXActionCTNAT.unpaddedLen rp).toNat ≤ 60 := by
  have hb : ∀ rp, 16 ≤ (NXActionCTNAT.unpaddedLen rp).toNat ∧ (NXActionCTNAT.unpaddedLen rp).toNat ≤ 60 := by
    intro rp
    unfold NXActionCTNAT.unpaddedLen
    (repeat' split) <;> decide
  unfold NXActionCTNAT.setRange at hs
  split at hs
  · rename_i rp _ _ _ _ _ _
    have e := nxhdr_inv _ _ _ _ _ _ _ hwf
    subst e
    simp only [NXActionHeader.length, ActionHeader.length, NXActionHeader.setLength, ActionHeader.setLength, Res.bind_ok,
      Res.pure_eq, Res.ok.injEq] at hs
    subst hs
    exact ⟨rp ||| bit, rfl, hb _⟩
  · exact absurd hs (by simp)

/-- NXActionConnTrack with a Nicira header of subtype NXAST_CT, any nested actions: declared = occupied
    (`10 ≤ bs.length` fails only when the uint16 size 24 + Σ nested wrapped around) -/
theorem nxConnTrack_ok (ln : Nat) (v : V) (bs : Bytes) (v2 : V)
    (hwf : nxhdr v = some (Gen.openflow13.ActionType_Experimenter, ln, Gen.openflow13.NxExperimenterID, Gen.openflow13.NXAST_CT))
    (h : NXActionConnTrack.marshalM v = .ok (bs, v2)) (hsz : 10 ≤ bs.length) :
    NX Gen.openflow13.NXAST_CT bs :=
  nx_of_nxw _ (by decide) bs ((nxConnTrack_wire _ _ v bs v2 _ _ _ _ hwf h).2 hsz)
theorem nxConnTrack_new_wf : nxhdr NXActionConnTrack.new =
    some (Gen.openflow13.ActionType_Experimenter, 24, Gen.openflow13.NxExperimenterID, Gen.openflow13.NXAST_CT) := rfl

/-- … and it is a multiple of 8 bytes long when every nested action reports a multiple of 8 -/
theorem nxConnTrack_aligned (subLen : V → R (UInt16 × V)) (hd a b c d e f : V) (acts : List V) (l : UInt16) (v1 : V)
    (hsub : ∀ x ∈ acts, ∀ lx x', subLen x = .ok (lx, x') → lx.toNat % 8 = 0)
    (hl : NXActionConnTrack.lenWith subLen (.obj "NXActionConnTrack" [hd, a, b, c, d, e, f, .list acts]) = .ok (l, v1)) :
    l.toNat % 8 = 0 := by
  simp only [NXActionConnTrack.lenWith] at hl
  obtain ⟨⟨l0, hd0⟩, hl0, hl2⟩ := bind_ok_inv _ _ _ hl
  obtain ⟨e1, e2⟩ := same_ok _ _ _ _ hl0
  subst e1; subst e2
  obtain ⟨⟨ls, acts1⟩, hm, hl3⟩ := bind_ok_inv _ _ _ hl2
  obtain ⟨h', hs, hl4⟩ := bind_ok_inv _ _ _ hl3
  have el : l = n16 Gen.openflow13.NxActionHeaderLength + 14 + sum16 ls := by cases hl4; rfl
  subst el
  have hall := mapM2_forall subLen (fun lx => lx.toNat % 8 = 0) acts ls acts1 hm hsub
  have hsum := sum16_aligned ls hall
  rw [UInt16.toNat_add, UInt16.toNat_add]
  have h24 : (n16 Gen.openflow13.NxActionHeaderLength).toNat = 10 := rfl
  have h14 : (14 : UInt16).toNat = 14 := rfl
  have hp : (2 : Nat) ^ 16 = 65536 := rfl
  have := (sum16 ls).toNat_lt
  rw [h24, h14, hp]; omega


/-! ### OXM match fields: class(2) field<<1|hasmask(1) length(1) payload -/

/-- the three header pieces of an OXM TLV read back -/
theorem oxm_head (c : UInt16) (fld ln : UInt8) (bs rest : Bytes) (e : bs = be16 c ++ [fld] ++ [ln] ++ rest) :
    beAt bs 0 2 = c.toNat ∧ beAt bs 2 1 = fld.toNat ∧ beAt bs 3 1 = ln.toNat := by
  subst e
  refine ⟨?_, ?_, ?_⟩
  · simp only [List.append_assoc]; exact beAt_be16 c _
  · simp [beAt, be16]
  · simp [beAt, be16]

/-- MatchField, EVERY value (all 30 payload kinds, with or without mask, with or without experimenter id):
    the class is at offset 0, field and has-mask bit at offset 2, the stored Length byte at offset 3, and the
    encoding is the 4 (or, with an experimenter id, 8) header bytes plus the payload(s) -/
theorem matchField_wire (v : V) (bs : Bytes) (v2 : V) (h : MatchField.marshalM v = .ok (bs, v2)) :
    ∃ c f hm ln eid val mask, v = .obj "MatchField" [.num c, .num f, .num hm, .num ln, .num eid, val, mask] ∧
      beAt bs 0 2 = c % 65536 ∧ beAt bs 3 1 = ln % 256 ∧
      beAt bs 2 1 = (if hm = 0 then shl8 (n8 f) 1 else shl8 (n8 f) 1 ||| 1).toNat ∧
      ∃ lv lm, MatchPayload.lenM val = .ok (lv, val) ∧
        (hm = 0 ∧ lm = 0 ∨ hm ≠ 0 ∧ MatchPayload.lenM mask = .ok (lm, mask)) ∧
        bs.length = (if eid = 0 then 4 else 8) + lv.toNat + lm.toNat := by
  have h0 := h
  unfold MatchField.marshalM at h
  obtain ⟨⟨l, va⟩, hl, g1⟩ := bind_ok_inv _ _ _ h
  clear h
  have e0 := MatchField.lenM_pure _ _ _ hl
  subst e0
  have hsz := C06.matchField_size _ _ _ _ _ hl h0
  simp only at g1
  -- the size
  have hl' := hl
  unfold MatchField.lenM at hl'
  split at hl'
  · rename_i c f hm l4 eid val mask
    obtain ⟨⟨lv, val'⟩, hv, hl2⟩ := bind_ok_inv _ _ _ hl'
    have ev := MatchPayload.lenM_pure _ _ _ hv
    subst ev
    have blv := C06.payload_len_le _ _ _ hv
    have hn : (if eid = 0 then (4 : UInt16) else 8).toNat = (if eid = 0 then 4 else 8) := by split <;> rfl
    have hp : (2 : Nat) ^ 16 = 65536 := rfl
    have hsize : ∃ lm, (hm = 0 ∧ lm = 0 ∨ hm ≠ 0 ∧ MatchPayload.lenM mask = .ok (lm, mask)) ∧
        l.toNat = (if eid = 0 then 4 else 8) + lv.toNat + lm.toNat := by
      simp only at hl2
      split at hl2
      · rename_i hm0
        have el : l = (if eid = 0 then (4 : UInt16) else 8) + lv := by cases hl2; rfl
        subst el
        refine ⟨0, Or.inl ⟨hm0, rfl⟩, ?_⟩
        rw [UInt16.toNat_add, hn, hp]
        have : (0 : UInt16).toNat = 0 := rfl
        rw [this]
        split <;> omega
      · rename_i hm0
        obtain ⟨⟨lm, mask'⟩, hmk, hl3⟩ := bind_ok_inv _ _ _ hl2
        have em := MatchPayload.lenM_pure _ _ _ hmk
        subst em
        have blm := C06.payload_len_le _ _ _ hmk
        have el : l = (if eid = 0 then (4 : UInt16) else 8) + lv + lm := by cases hl3; rfl
        subst el
        refine ⟨lm, Or.inr ⟨hm0, hmk⟩, ?_⟩
        rw [UInt16.toNat_add, UInt16.toNat_add, hn, hp]
        split <;> omega
    obtain ⟨lm, hlm, hltot⟩ := hsize
    have h4 : 4 ≤ l.toNat := by rw [hltot]; split <;> omega
    -- the head
    split at g1
    · rename_i c' f' hm' ln' eid' val' mask' heq
      cases heq
      obtain ⟨⟨vb, val2⟩, _, g2⟩ := bind_ok_inv _ _ _ g1
      have key : ∀ (fld : UInt8) (qs : List Piece) (out : Bytes),
          fill l.toNat ([pU16 c', .put [fld], pU8 ln'] ++ qs) = .ok out →
          beAt out 0 2 = c' % 65536 ∧ beAt out 2 1 = fld.toNat ∧ beAt out 3 1 = ln' % 256 := by
        intro fld qs out hf
        have hx := fill_prefix' _ _ _ _
          (by intro p hp; simp only [List.mem_cons, List.mem_nil_iff, or_false] at hp;
              rcases hp with rfl | rfl | rfl <;> simp [pU16, pU8, Piece.Tight])
          (by simp only [piecesLen, pU16, pU8, List.map_cons, List.map_nil, Piece.adv, List.sum_cons, List.sum_nil,
                be16_length, List.length_cons, List.length_nil]; omega) hf
        simp only [piecesBytes, piecesLen, pU16, pU8, List.map_cons, List.map_nil, Piece.bytes, Piece.adv,
          List.flatten_cons, List.flatten_nil, List.append_nil] at hx
        obtain ⟨a1, a2, a3⟩ := oxm_head _ _ _ out _ hx
        refine ⟨by rw [a1, n16_toNat'], a2, ?_⟩
        rw [a3]; simp [n8, UInt8.toNat_ofNat']
      simp only at g2
      split at g2
      · rename_i hm0
        obtain ⟨out, hf, g3⟩ := bind_ok_inv _ _ _ g2
        have eb : bs = out := by cases g3; rfl
        subst eb
        rw [List.append_assoc] at hf
        obtain ⟨a1, a2, a3⟩ := key _ (MatchField.eidPieces (.num eid) ++ [pCopy vb]) bs hf
        exact ⟨_, _, _, _, _, _, _, rfl, a1, a3, by rw [if_pos hm0]; exact a2, lv, lm, hv, hlm, by rw [hsz, hltot]⟩
      · rename_i hm0
        obtain ⟨⟨mb, mask2⟩, _, g3⟩ := bind_ok_inv _ _ _ g2
        obtain ⟨out, hf, g4⟩ := bind_ok_inv _ _ _ g3
        have eb : bs = out := by cases g4; rfl
        subst eb
        rw [List.append_assoc] at hf
        obtain ⟨a1, a2, a3⟩ := key _ (MatchField.eidPieces (.num eid) ++ [pCopy vb, pCopy mb]) bs hf
        exact ⟨_, _, _, _, _, _, _, rfl, a1, a3, by rw [if_neg hm0]; exact a2, lv, lm, hv, hlm, by rw [hsz, hltot]⟩
    · exact absurd g1 (by simp)
  · exact absurd hl' (by simp)

/-- the constructor pattern of match.go / nx_match.go: no experimenter id, stored Length = value size (+ mask size) -/
def OxmWF (v : V) : Prop :=
  ∃ c f hm ln val mask lv lm, v = .obj "MatchField" [.num c, .num f, .num hm, .num ln, .num 0, val, mask] ∧
    MatchPayload.lenM val = .ok (lv, val) ∧ (hm = 0 ∧ lm = 0 ∨ hm ≠ 0 ∧ MatchPayload.lenM mask = .ok (lm, mask)) ∧
    ln = lv.toNat + lm.toNat ∧ ln < 256

/-- (a) for OXM fields as the constructors build them: the length byte declares exactly the payload bytes that
    follow the 4-byte header -/
theorem matchField_ok (v : V) (hwf : OxmWF v) (bs : Bytes) (v2 : V) (h : MatchField.marshalM v = .ok (bs, v2)) :
    bs.length = 4 + beAt bs 3 1 := by
  obtain ⟨c, f, hm, ln, val, mask, lv, lm, rfl, hlv, hlm, hln, hlt⟩ := hwf
  obtain ⟨c', f', hm', ln', eid', val', mask', heq, _, a3, _, lv', lm', hlv', hlm', hsz⟩ := matchField_wire _ bs v2 h
  cases heq
  rw [hlv] at hlv'
  cases hlv'
  have elm : lm' = lm := by
    rcases hlm with ⟨h0, rfl⟩ | ⟨h1, hm1⟩
    · rcases hlm' with ⟨_, rfl⟩ | ⟨h1', _⟩
      · rfl
      · exact absurd h0 h1'
    · rcases hlm' with ⟨h0', _⟩ | ⟨_, hm1'⟩
      · exact absurd h0' h1
      · rw [hm1] at hm1'; cases hm1'; rfl
  subst elm
  rw [hsz, a3, hln]
  simp only [if_true]
  omega

/-- MatchField.mk (fields without mask: NewInPortField, NewEthTypeField, …) builds a well-formed OXM field whenever the
    Length the constructor passes is the size of the value it passes -/
theorem matchField_mk_wf (cls field : Nat) (l : UInt8) (val : V) (hv : MatchPayload.lenM val = .ok (l.toUInt16, val)) :
    OxmWF (MatchField.mk cls field false l val .nil) :=
  ⟨cls, field, 0, l.toNat, val, .nil, l.toUInt16, 0, rfl, hv, Or.inl ⟨rfl, rfl⟩, by simp, l.toNat_lt⟩

/-- MatchField.mkMasked with a mask (NewEthDstField(addr, mask), NewIpv6SrcField(addr, mask), …): Length = 2·l -/
theorem matchField_mkMasked_wf (cls field : Nat) (l : UInt8) (val m : V) (hl : l.toNat ≤ 127)
    (hv : MatchPayload.lenM val = .ok (l.toUInt16, val)) (hm : MatchPayload.lenM m = .ok (l.toUInt16, m)) :
    OxmWF (MatchField.mkMasked cls field l val (some m)) := by
  refine ⟨cls, field, 1, (l + l).toNat, val, m, l.toUInt16, l.toUInt16, rfl, hv, Or.inr ⟨by decide, hm⟩, ?_, (l + l).toNat_lt⟩
  rw [UInt8.toNat_add]
  simp only [UInt8.toNat_toUInt16]
  omega

/-- instances: the constructors of match.go for an in-port, a masked Ethernet address and a masked IPv6 address -/
example (p : Nat) : OxmWF (MatchField.mk Gen.openflow13.OXM_CLASS_OPENFLOW_BASIC Gen.openflow13.OXM_FIELD_IN_PORT false 4
    (.obj "InPortField" [V.u32 (n32 p)]) .nil) := matchField_mk_wf _ _ 4 _ rfl
example (a m : Bytes) : OxmWF (MatchField.mkMasked Gen.openflow13.OXM_CLASS_OPENFLOW_BASIC Gen.openflow13.OXM_FIELD_ETH_DST 6
    (.obj "EthDstField" [.bytes a]) (some (.obj "EthDstField" [.bytes m]))) := matchField_mkMasked_wf _ _ 6 _ _ (by decide) rfl rfl
example (a m : Bytes) : OxmWF (MatchField.mkMasked Gen.openflow13.OXM_CLASS_OPENFLOW_BASIC Gen.openflow13.OXM_FIELD_IPV6_SRC 16
    (.obj "Ipv6SrcField" [.bytes a]) (some (.obj "Ipv6SrcField" [.bytes m]))) := matchField_mkMasked_wf _ _ 16 _ _ (by decide) rfl rfl

/-- the field NewTunMetadataField(idx, data, mask) returns for a registry header of class `c`, field `f`:
    Length = uint8(len(data)) + uint8(len(mask)) in uint8 arithmetic -/
def tunField (c f : Nat) (data mask : Bytes) : V :=
  setLength (setValueMask (.obj "MatchField" [.num c, .num f, .num 1, .num 0, .num 0, .nil, .nil])
    (.obj "ByteArrayField" [.bytes data, V.u8 (n8 data.length)])
    (some (.obj "ByteArrayField" [.bytes mask, V.u8 (n8 mask.length)]))) (n8 data.length + n8 mask.length)

/-- … with 128 bytes of data and 128 bytes of mask -/
def tunWrapped (c f : Nat) (data mask : Bytes) : V :=
  .obj "MatchField" [.num c, .num f, .num 1, .num 0, .num 0, .obj "ByteArrayField" [.bytes data, .num 128],
    .obj "ByteArrayField" [.bytes mask, .num 128]]

theorem tunField_wraps (c f : Nat) (data mask : Bytes) (hd : data.length = 128) (hm : mask.length = 128) :
    tunField c f data mask = tunWrapped c f data mask := by
  simp only [tunField, tunWrapped, setLength, setValueMask, hd, hm, Option.getD_some]
  rfl

theorem byteArray_lenM (d : Bytes) (n : Nat) : MatchPayload.lenM (.obj "ByteArrayField" [.bytes d, .num n]) =
    .ok ((n8 n).toUInt16, .obj "ByteArrayField" [.bytes d, .num n]) := rfl

/-- COUNTEREXAMPLE to (a) for a value the API can build (an abuse: tun_metadata is at most 124 bytes): a tunnel-metadata
    match with 128 bytes of data and 128 bytes of mask stores Length = uint8(128 + 128) = 0; the encoding has 260 bytes
    and its length byte says 0 -/
theorem tunMetadata_counterexample :
    ∃ bs v2, MatchField.marshalM (tunField Gen.openflow13.OXM_CLASS_NXM_1 40 (zeros 128) (zeros 128)) = .ok (bs, v2) ∧
      beAt bs 3 1 = 0 ∧ bs.length = 260 := by
  rw [tunField_wraps _ _ _ _ (zeros_length 128) (zeros_length 128)]
  have hok : (MatchField.marshalM (tunWrapped Gen.openflow13.OXM_CLASS_NXM_1 40 (zeros 128) (zeros 128))).isOk = true := by
    decide +kernel
  cases hm : MatchField.marshalM (tunWrapped Gen.openflow13.OXM_CLASS_NXM_1 40 (zeros 128) (zeros 128)) with
  | ok p =>
    obtain ⟨bs, v2⟩ := p
    refine ⟨bs, v2, rfl, ?_⟩
    obtain ⟨c, f, hm', ln, eid, val, mask, heq, _, a3, _, lv, lm, hlv, hlm, hsz⟩ := matchField_wire _ bs v2 hm
    cases heq
    rw [byteArray_lenM] at hlv
    cases hlv
    rcases hlm with ⟨h0, _⟩ | ⟨_, hmk⟩
    · exact absurd h0 (by decide)
    · rw [byteArray_lenM] at hmk
      cases hmk
      exact ⟨by rw [a3], by rw [hsz]; rfl⟩
  | err => rw [hm] at hok; exact absurd hok (by decide)
  | panic => rw [hm] at hok; exact absurd hok (by decide)
  | spin => rw [hm] at hok; exact absurd hok (by decide)

/-! ### ofp_match: type(2) length(2) fields, zero padding to a multiple of 8 (the padding is NOT counted in length) -/

/-- Match, EVERY value: a multiple of 8 bytes; when not empty (the uint16 size did not wrap to 0) the stored Type and
    Length words are at offsets 0 and 2 -/
theorem match_wire (ty ln : Nat) (fs : List V) (bs : Bytes) (v2 : V)
    (h : Match.marshalM (.obj "Match" [.num ty, .num ln, .list fs]) = .ok (bs, v2)) :
    bs.length % 8 = 0 ∧ (4 ≤ bs.length → beAt bs 0 2 = ty % 65536 ∧ beAt bs 2 2 = ln % 65536) := by
  have h0 := h
  unfold Match.marshalM at h
  obtain ⟨⟨l, va⟩, hl, g1⟩ := bind_ok_inv _ _ _ h
  clear h
  have e0 := Match.lenM_pure _ _ _ hl
  subst e0
  have hsz := C06.match_size _ _ _ _ _ hl h0
  have hal := C06.match_len_aligned _ _ _ hl
  refine ⟨by rw [hsz]; exact hal, fun h4 => ?_⟩
  simp only at g1
  obtain ⟨⟨bss, fs'⟩, _, g2⟩ := bind_ok_inv _ _ _ g1
  obtain ⟨out, hf, g3⟩ := bind_ok_inv _ _ _ g2
  have eb : bs = out := by obtain ⟨e, _⟩ := same_ok _ _ _ _ g3; exact e
  subst eb
  have hx := fill_prefix' l.toNat [pU16 ty, pU16 ln] (bss.map pCopy) bs
    (by intro p hp; simp only [List.mem_cons, List.mem_nil_iff, or_false] at hp;
        rcases hp with rfl | rfl <;> simp [pU16, Piece.Tight])
    (by simp only [piecesLen, pU16, List.map_cons, List.map_nil, Piece.adv, List.sum_cons, List.sum_nil, be16_length]; omega)
    hf
  simp only [piecesBytes, piecesLen, pU16, List.map_cons, List.map_nil, Piece.bytes, Piece.adv,
    List.flatten_cons, List.flatten_nil, List.append_nil] at hx
  obtain ⟨a, b⟩ := tlv_of_head _ _ _ _ hx
  exact ⟨by rw [a, n16_toNat'], by rw [b, n16_toNat']⟩

/-- a match as NewMatch() + any AddField history leaves it (C02.MatchWF: Type = OXM, Length = 4 + Σ field sizes), with
    fields of altogether at most 65 524 bytes:
    (c) type 1 (OFPMT_OXM); (a) the length word is 4 + Σ of the fields' encodings, which follow the header complete and
    in order; (b) the encoding is that length rounded up to a multiple of 8 and the padding bytes are zero -/
theorem match_ok (m : V) (hwf : C02.MatchWF m) (bs : Bytes) (v2 : V) (h : Match.marshalM m = .ok (bs, v2))
    (hfit : bs.length ≠ 0) :
    ∃ fs bss fs', m.fields[2]? = some (.list fs) ∧ mapM2 MatchField.marshalM fs = .ok (bss, fs') ∧
      beAt bs 0 2 = Gen.openflow13.MatchType_OXM ∧
      (beAt bs 2 2 = 4 + bss.flatten.length ∨ 65528 < 4 + bss.flatten.length) ∧
      (4 + bss.flatten.length ≤ 65528 →
        bs.length = Spec.round8 (beAt bs 2 2) ∧ (bs.drop 4).take bss.flatten.length = bss.flatten ∧
        bs.drop (beAt bs 2 2) = zeros (bs.length - beAt bs 2 2)) := by
  obtain ⟨fs, ls, rfl, hlen, hall⟩ := hwf
  have hmap := mapM2_of_pointwise MatchField.lenM (fun x l y hx => MatchField.lenM_pure x l y hx) fs ls hlen hall
  obtain ⟨hal, hw⟩ := match_wire _ _ _ bs v2 h
  have h4 : 4 ≤ bs.length := by omega
  obtain ⟨a, b⟩ := hw h4
  have h0 := h
  unfold Match.marshalM at h
  obtain ⟨⟨l, va⟩, hl, g1⟩ := bind_ok_inv _ _ _ h
  clear h
  have e0 := Match.lenM_pure _ _ _ hl
  subst e0
  have hsz := C06.match_size _ _ _ _ _ hl h0
  have el : l = Model.round8 (4 + sum16 ls) := by
    simp only [Match.lenM, hmap, Res.bind_ok] at hl
    obtain ⟨e, _⟩ := same_ok _ _ _ _ hl
    exact e
  subst el
  simp only [V.u16] at g1
  obtain ⟨⟨bss, fs'⟩, hmm, g2⟩ := bind_ok_inv _ _ _ g1
  obtain ⟨out, hf, g3⟩ := bind_ok_inv _ _ _ g2
  have eb : bs = out := by obtain ⟨e, _⟩ := same_ok _ _ _ _ g3; exact e
  subst eb
  simp only at hf
  have hlens := mapM2_lengths MatchField.lenM MatchField.marshalM fs ls fs bss fs' hmap hmm
    (fun x _ l y b z hx hy => by
      have e := MatchField.lenM_pure _ _ _ hx
      subst e
      exact C06.matchField_size _ _ _ _ _ hx hy)
  have hflat : bss.flatten.length = (ls.map UInt16.toNat).sum := by rw [flatten_length_sum, hlens]
  have hp : (2 : Nat) ^ 16 = 65536 := rfl
  have h4' : (4 : UInt16).toNat = 4 := rfl
  refine ⟨fs, bss, fs', rfl, hmm, by rw [a]; rfl, ?_, ?_⟩
  · by_cases hbig : 4 + bss.flatten.length ≤ 65528
    · left
      rw [b, UInt16.toNat_add, sum16_toNat ls (by omega), h4', hp, hflat]
      omega
    · right; omega
  · intro hbig
    have hs : (sum16 ls).toNat = (ls.map UInt16.toNat).sum := sum16_toNat ls (by omega)
    have e4 : (4 + sum16 ls : UInt16).toNat = 4 + bss.flatten.length := by
      rw [UInt16.toNat_add, hs, h4', hp, hflat]; omega
    have eb2 : beAt bs 2 2 = 4 + bss.flatten.length := by
      rw [b, ← e4]
      have := (4 + sum16 ls : UInt16).toNat_lt
      omega
    have r8 := round8_toNat (4 + sum16 ls)
    rw [e4] at r8
    have hx := fill_all _ _ _
      (by intro p hp; simp only [List.mem_cons] at hp;
          rcases hp with rfl | rfl | hp
          · simp [pU16, Piece.Tight]
          · simp [pU16, Piece.Tight]
          · exact pieces_copy_tight bss p hp)
      (by rw [piecesLen_cons, piecesLen_cons, piecesLen_copy, ← flatten_length_sum]
          simp only [pU16, Piece.adv, be16_length]
          rw [r8]; omega) hf
    rw [piecesLen_cons, piecesLen_cons, piecesLen_copy, ← flatten_length_sum, piecesBytes_cons, piecesBytes_cons,
      piecesBytes_copy] at hx
    simp only [pU16, Piece.adv, Piece.bytes, be16_length] at hx
    refine ⟨?_, ?_, ?_⟩
    · rw [eb2, hsz, r8]; simp only [Spec.round8]; omega
    · rw [hx, ← List.append_assoc]
      exact mid_of_append _ _ _ 4 (by simp)
    · rw [eb2, hsz]
      conv => lhs; rw [hx, ← List.append_assoc]
      rw [tail_of_append _ _ _ _ (by simp)]
      congr 1
      omega

/-! ### instructions: type(2) length(2) -/

/-- InstrGotoTable, any value: 8 bytes; stored type / length words at offsets 0 / 2; bytes 5-6 zero, byte 7 the first
    pad byte -/
theorem instrGotoTable_wire (v : V) (bs : Bytes) (v2 : V) (ty ln : Nat) (hi : ihdr v = some (ty, ln))
    (h : InstrGotoTable.marshalM v = .ok (bs, v2)) :
    bs.length = 8 ∧ beAt bs 0 2 = ty % 65536 ∧ beAt bs 2 2 = ln % 65536 := by
  unfold InstrGotoTable.marshalM at h
  split at h
  · rename_i hd tid pad
    obtain ⟨hb, hhb, g1⟩ := bind_ok_inv _ _ _ h
    obtain ⟨e, _⟩ := same_ok _ _ _ _ g1
    obtain ⟨ty', ln', rfl, rfl⟩ := instrHeader_bytes_inv _ _ hhb
    simp only [ihdr, Option.some.injEq, Prod.mk.injEq] at hi
    obtain ⟨rfl, rfl⟩ := hi
    subst e
    obtain ⟨a, b⟩ := tlv_of_head (n16 ty') (n16 ln') _ ([n8 tid, 0, 0] ++ makeCopy 1 pad) (List.append_assoc _ _ _)
    exact ⟨by simp [makeCopy_length], by rw [a, n16_toNat'], by rw [b, n16_toNat']⟩
  · exact absurd h (by simp)

/-- InstrGotoTable as NewInstrGotoTable stores it (type OFPIT_GOTO_TABLE, length 8, pad 3 zero bytes):
    (a) declares its 8 bytes, (b) aligned, pad zero, (c) type code 1 -/
theorem instrGotoTable_new_ok (tid : Nat) (bs : Bytes) (v2 : V)
    (h : InstrGotoTable.marshalM (InstrGotoTable.new tid) = .ok (bs, v2)) :
    TLV Gen.openflow13.InstrType_GOTO_TABLE bs ∧ bs.length % 8 = 0 ∧ bs.drop 5 = zeros 3 := by
  obtain ⟨a, b, c⟩ := instrGotoTable_wire _ bs v2 _ _ rfl h
  refine ⟨tlv_of_wire _ _ _ a b c (by decide) (by decide), by omega, ?_⟩
  simp only [InstrGotoTable.new, InstrGotoTable.marshalM, InstrHeader.bytes] at h
  obtain ⟨e, _⟩ := same_ok _ _ _ _ h
  subst e
  rfl

/-- InstrWriteMetadata, any value: 24 bytes; stored type / length words at offsets 0 / 2 -/
theorem instrWriteMetadata_wire (v : V) (bs : Bytes) (v2 : V) (ty ln : Nat) (hi : ihdr v = some (ty, ln))
    (h : InstrWriteMetadata.marshalM v = .ok (bs, v2)) :
    bs.length = 24 ∧ beAt bs 0 2 = ty % 65536 ∧ beAt bs 2 2 = ln % 65536 := by
  unfold InstrWriteMetadata.marshalM at h
  split at h
  · rename_i hd pad md mk
    obtain ⟨hb, hhb, g1⟩ := bind_ok_inv _ _ _ h
    obtain ⟨e, _⟩ := same_ok _ _ _ _ g1
    obtain ⟨ty', ln', rfl, rfl⟩ := instrHeader_bytes_inv _ _ hhb
    simp only [ihdr, Option.some.injEq, Prod.mk.injEq] at hi
    obtain ⟨rfl, rfl⟩ := hi
    subst e
    have hh : be16 (n16 ty') ++ be16 (n16 ln') ++ makeCopy 4 pad ++ be64 (n64 md) ++ be64 (n64 mk) =
        be16 (n16 ty') ++ be16 (n16 ln') ++ (makeCopy 4 pad ++ be64 (n64 md) ++ be64 (n64 mk)) := by
      simp only [List.append_assoc]
    obtain ⟨a, b⟩ := tlv_of_head _ _ _ _ hh
    exact ⟨by simp [makeCopy_length], by rw [a, n16_toNat'], by rw [b, n16_toNat']⟩
  · exact absurd h (by simp)

/-- InstrWriteMetadata as NewInstrWriteMetadata stores it: (a) declares its 24 bytes, (b) aligned, the 4 pad bytes are
    zero, (c) type code 2 -/
theorem instrWriteMetadata_new_ok (md mk : Nat) (bs : Bytes) (v2 : V)
    (h : InstrWriteMetadata.marshalM (InstrWriteMetadata.new md mk) = .ok (bs, v2)) :
    TLV Gen.openflow13.InstrType_WRITE_METADATA bs ∧ bs.length % 8 = 0 ∧ (bs.drop 4).take 4 = zeros 4 := by
  obtain ⟨a, b, c⟩ := instrWriteMetadata_wire _ bs v2 _ _ rfl h
  refine ⟨tlv_of_wire _ _ _ a b c (by decide) (by decide), by omega, ?_⟩
  simp only [InstrWriteMetadata.new, InstrWriteMetadata.marshalM, InstrHeader.bytes] at h
  obtain ⟨e, _⟩ := same_ok _ _ _ _ h
  subst e
  rfl

/-- InstrMeter, any value: 8 bytes — header and the 32-bit meter id; stored type / length words at offsets 0 / 2 (the
    library now gives the instruction its own codec; the former `instrMeter_unaligned` — "4 bytes where the format has
    8" — no longer holds) -/
theorem instrMeter_wire (v : V) (bs : Bytes) (v2 : V) (ty ln : Nat) (hi : ihdr v = some (ty, ln))
    (h : InstrMeter.marshalM v = .ok (bs, v2)) :
    bs.length = 8 ∧ beAt bs 0 2 = ty % 65536 ∧ beAt bs 2 2 = ln % 65536 := by
  unfold InstrMeter.marshalM at h
  split at h
  · rename_i hd m
    obtain ⟨hb, hhb, g1⟩ := bind_ok_inv _ _ _ h
    obtain ⟨e, _⟩ := same_ok _ _ _ _ g1
    obtain ⟨ty', ln', rfl, rfl⟩ := instrHeader_bytes_inv _ _ hhb
    simp only [ihdr, Option.some.injEq, Prod.mk.injEq] at hi
    obtain ⟨rfl, rfl⟩ := hi
    subst e
    obtain ⟨a, b⟩ := tlv_of_head (n16 ty') (n16 ln') _ (be32 (n32 m)) rfl
    exact ⟨by simp, by rw [a, n16_toNat'], by rw [b, n16_toNat']⟩
  · exact absurd h (by simp)

/-- InstrMeter as NewInstrMeter stores it (type OFPIT_METER, length 8): (a) declares its 8 bytes, (b) aligned (no
    padding: the meter id fills bytes 4-7), (c) type code 6 -/
theorem instrMeter_new_ok (m : Nat) (bs : Bytes) (v2 : V) (h : InstrMeter.marshalM (InstrMeter.new m) = .ok (bs, v2)) :
    TLV Gen.openflow13.InstrType_METER bs ∧ bs.length % 8 = 0 ∧ beAt bs 4 4 = m % 4294967296 := by
  obtain ⟨a, b, c⟩ := instrMeter_wire _ bs v2 _ _ rfl h
  refine ⟨tlv_of_wire _ _ _ a b c (by decide) (by decide), by omega, ?_⟩
  simp only [InstrMeter.new, InstrMeter.marshalM, InstrHeader.bytes, V.u32, Res.bind_ok] at h
  obtain ⟨e, _⟩ := same_ok _ _ _ _ h
  subst e
  have h1 : beAt (be16 (n16 Gen.openflow13.InstrType_METER) ++ be16 (n16 8) ++ be32 (n32 (n32 m).toNat)) 4 4 =
      beAt (be32 (n32 (n32 m).toNat)) 0 4 :=
    beAt_append_right (be16 (n16 Gen.openflow13.InstrType_METER) ++ be16 (n16 8)) (be32 (n32 (n32 m).toNat)) 0 4
  have h2 := beAt_be32 (n32 (n32 m).toNat) []
  simp only [List.append_nil] at h2
  rw [h1, h2, n32_toNat', n32_toNat']; omega

/-- InstrActions (apply / write / clear actions), EVERY value with a 16-bit type code: the encoder stores Length = Len()
    first, so (a) the length word declares exactly the bytes present (as long as the whole is shorter than 64 KiB — beyond
    that the uint16 wraps, C06b.instrActions_size_counterexample), (c) the stored type code is at offset 0; the 4 pad
    bytes are a copy of the `pad` field; the actions' encodings follow -/
theorem instrActions_wire (ty : Nat) (x : V) (pad : Bytes) (as : List V) (bs : Bytes) (v2 : V)
    (h : InstrActions.marshalM (.obj "InstrActions" [.obj "InstrHeader" [.num ty, x], .bytes pad, .list as]) = .ok (bs, v2))
    (hlt : bs.length < 65536) :
    beAt bs 0 2 = ty % 65536 ∧ beAt bs 2 2 = bs.length ∧ (bs.drop 4).take 4 = makeCopy 4 pad ∧
    ∃ ls as1 bss as2, mapM2 Action.lenM as = .ok (ls, as1) ∧ mapM2 Action.marshalM as1 = .ok (bss, as2) ∧
      bs.drop 8 = bss.flatten := by
  obtain ⟨t, x', pad', as', ls, as1, hb, bss, as2, heq, hm, hhb, hbl, hmm, e⟩ := C06b.instrActions_embeds _ bs v2 h
  cases heq
  have hsz : bs.length = (8 + sum16 ls : UInt16).toNat := by
    have hl : InstrActions.lenM (.obj "InstrActions" [.obj "InstrHeader" [.num ty, x], .bytes pad, .list as]) =
        .ok (8 + sum16 ls, .obj "InstrActions" [.obj "InstrHeader" [.num ty, x], .bytes pad, .list as1]) := by
      simp only [InstrActions.lenM, hm, Res.bind_ok]
    exact C06b.instrActions_size _ _ _ _ _ hl h hlt
  simp only [InstrHeader.bytes, V.u16, Res.ok.injEq] at hhb
  subst hhb
  have hh : bs = be16 (n16 ty) ++ be16 (n16 (8 + sum16 ls).toNat) ++ (makeCopy 4 pad ++ bss.flatten) := by
    rw [e]; simp only [List.append_assoc]
  obtain ⟨a, b⟩ := tlv_of_head _ _ _ _ hh
  refine ⟨by rw [a, n16_toNat'], by rw [b, hsz, n16_of_toNat], ?_, ls, as1, bss, as2, hm, hmm, ?_⟩
  · rw [e]
    have := mid_of_append (be16 (n16 ty) ++ be16 (n16 (8 + sum16 ls).toNat)) (makeCopy 4 pad) bss.flatten 4 (by simp)
    rw [makeCopy_length] at this
    exact this
  · rw [e]
    exact tail_of_append _ _ _ 8 (by simp [makeCopy_length])

/-- NewInstrApplyActions / NewInstrWriteActions followed by any AddAction calls keep a 16-bit type and 4 zero pad bytes -/
theorem instrActions_new_wf (ty : Nat) :
    InstrActions.new ty = .obj "InstrActions" [.obj "InstrHeader" [.num ty, .num 8], .bytes (zeros 4), .list []] := rfl

/-! ### buckets: length(2) weight(2) watch_port(4) watch_group(4) pad(4) actions, zero padded to Len() -/

/-- Bucket, EVERY value: the length word is Len() = 16 + Σ action sizes rounded up to a multiple of 8; the 4 pad bytes
    are zero; the actions' encodings follow the 16 fixed bytes complete and in order; then zeros up to Len() -/
theorem bucket_wire (v : V) (bs : Bytes) (v2 : V) (h : Bucket.marshalM v = .ok (bs, v2)) :
    ∃ ls as as1 bss as2, v.fields[5]? = some (.list as) ∧ mapM2 Action.lenM as = .ok (ls, as1) ∧
      mapM2 Action.marshalM as1 = .ok (bss, as2) ∧
      beAt bs 0 2 = (Model.round8 (16 + sum16 ls)).toNat ∧ (bs.drop 12).take 4 = zeros 4 ∧
      (bs.drop 16).take bss.flatten.length = bss.flatten ∧
      bs.drop (16 + bss.flatten.length) = zeros ((Model.round8 (16 + sum16 ls)).toNat - (16 + bss.flatten.length)) := by
  unfold Bucket.marshalM at h
  obtain ⟨⟨l, va⟩, hl, g1⟩ := bind_ok_inv _ _ _ h
  clear h
  simp only at g1
  unfold Bucket.lenM at hl
  split at hl
  · rename_i l0 w wp wg p as
    obtain ⟨⟨ls, as1⟩, hm, hl2⟩ := bind_ok_inv _ _ _ hl
    have el : l = Model.round8 (16 + sum16 ls) ∧ va = .obj "Bucket" [l0, w, wp, wg, p, .list as1] := by
      cases hl2; exact ⟨rfl, rfl⟩
    obtain ⟨rfl, rfl⟩ := el
    split at g1
    · rename_i heq
      cases heq
      obtain ⟨⟨abs, as2, e⟩, hml, g2⟩ := bind_ok_inv _ _ _ g1
      obtain ⟨bss, hmm, eabs⟩ := marshalList_eq_mapM2 _ _ _ _ _ _ (fun x _ => Action.marshalM_noErr x) hml
      simp only at g2
      split at g2
      · exact absurd g2 (by simp)
      · subst eabs
        clear g1 hml
        cases g2
        refine ⟨ls, as, as1, bss, as2, rfl, hm, hmm, ?_, ?_, ?_, ?_⟩
        · simp only [List.append_assoc]; exact beAt_be16 _ _
        · rw [List.append_assoc _ bss.flatten]
          exact mid_of_append _ (zeros 4) _ 12 (by simp)
        · exact mid_of_append _ bss.flatten _ 16 (by simp)
        · rw [tail_of_append _ bss.flatten _ _ (by simp)]
          congr 1
          simp; omega
    · exact absurd g1 (by simp)
  · exact absurd hl (by simp)

/-- (a)+(b) for EVERY Bucket whose actions encode to at most 65 512 bytes altogether: the length word declares exactly
    the bytes present, which is a multiple of 8, and the bytes after the last action are zero padding -/
theorem bucket_ok (v : V) (bs : Bytes) (v2 : V) (h : Bucket.marshalM v = .ok (bs, v2))
    (hlt : bs.length ≤ 65528) : beAt bs 0 2 = bs.length ∧ bs.length % 8 = 0 := by
  obtain ⟨ls, as, as1, bss, as2, _, hm, hmm, a, _, c, d⟩ := bucket_wire v bs v2 h
  have hlens := mapM2_lengths Action.lenM Action.marshalM as ls as1 bss as2 hm hmm
    (fun x _ l y b z hx hy => C06b.action_size y l y b z (Action.lenM_idem x l y hx) hy)
  have hflat : bss.flatten.length = (ls.map UInt16.toNat).sum := by rw [flatten_length_sum, hlens]
  -- the encoding holds at least the 16 fixed bytes and the actions
  have hge : 16 + bss.flatten.length ≤ bs.length := by
    have h1 : ((bs.drop 16).take bss.flatten.length).length = bss.flatten.length := by rw [c]
    simp only [List.length_take, List.length_drop] at h1
    have h2 : ((bs.drop 12).take 4).length = 4 := by
      obtain ⟨_, _, _, _, _, _, _, _, _, p4, _⟩ := bucket_wire v bs v2 h
      rw [p4]; rfl
    simp only [List.length_take, List.length_drop] at h2
    omega
  have hs : (sum16 ls).toNat = bss.flatten.length := by rw [hflat]; exact sum16_toNat ls (by omega)
  have hp : (2 : Nat) ^ 16 = 65536 := rfl
  have h16 : (16 : UInt16).toNat = 16 := rfl
  have e16 : (16 + sum16 ls : UInt16).toNat = 16 + bss.flatten.length := by
    rw [UInt16.toNat_add, hs, h16, hp]; omega
  have r8 := round8_ge (16 + sum16 ls) (by rw [e16]; omega)
  rw [e16] at r8
  have hlen : bs.length = (Model.round8 (16 + sum16 ls)).toNat := by
    have h3 : (bs.drop (16 + bss.flatten.length)).length =
        (Model.round8 (16 + sum16 ls)).toNat - (16 + bss.flatten.length) := by rw [d]; simp
    simp only [List.length_drop] at h3
    omega
  exact ⟨by rw [a, hlen], by rw [hlen]; exact round8_aligned _⟩

/-- FIXED DEFECT (the model follows the repaired group.go): the bucket that used to declare 24 bytes and occupy 20
    — one 4-byte header-only action — now occupies the 24 bytes it declares, the last 4 being zero padding -/
theorem bucket_headerOnly_padded :
    ∃ bs v2, Bucket.marshalM (.obj "Bucket" [.num 0, .num 0, .num 0, .num 0, .bytes [],
        .list [ActionHeader.mk Gen.openflow13.ActionType_CopyTtlOut 4]]) = .ok (bs, v2) ∧
      beAt bs 0 2 = 24 ∧ bs.length = 24 ∧ bs.drop 20 = zeros 4 :=
  ⟨_, _, rfl, by decide, by decide, by decide⟩

/-- NewBucket(): Length 16, no actions, 4 zero pad bytes -/
theorem bucket_new_shape : Bucket.new = .obj "Bucket" [.num 16, .num 0, .num Gen.openflow13.P_ANY,
    .num Gen.openflow13.OFPG_ANY, .bytes (zeros 4), .list []] := rfl

/-! ### hello elements: type(2) length(2) bitmaps, padded to 8 (padding not counted) -/

/-- HelloElemVersionBitmap, EVERY value (whatever Length the header field holds — the encoder stores 4 + 4·#bitmaps
    first): the type word at 0, the length word at 2 declares 4 + 4·#bitmaps (padding NOT counted, as the hello element
    format prescribes), the encoding is that rounded up to a multiple of 8; the bitmaps follow the 4 header bytes intact
    and in order, and the padding is zero -/
theorem helloElem_wire (ty : Nat) (x : V) (bms : List V) (bs : Bytes) (v2 : V) (hn : bms.length < 16000)
    (h : HelloElemVersionBitmap.marshalM (.obj "HelloElemVersionBitmap" [.obj "HelloElemHeader" [.num ty, x], .list bms])
      = .ok (bs, v2)) :
    bs.length = Spec.round8 (4 + 4 * bms.length) ∧ beAt bs 0 2 = ty % 65536 ∧ beAt bs 2 2 = 4 + 4 * bms.length ∧
    (bs.drop 4).take (4 * bms.length) = bitmapBytes bms ∧
    bs.drop (4 + 4 * bms.length) = zeros (bs.length - (4 + 4 * bms.length)) := by
  simp only [HelloElemVersionBitmap.marshalM, HelloElemVersionBitmap.len, HelloElemHeader.bytes, V.u16, Res.bind_ok] at h
  obtain ⟨out, hf, g1⟩ := bind_ok_inv _ _ _ h
  have eb : bs = out := by cases g1; rfl
  subst eb
  have hp : (2 : Nat) ^ 16 = 65536 := rfl
  have e4 : (4 + n16 (bms.length * 4) : UInt16).toNat = 4 + 4 * bms.length := by
    rw [UInt16.toNat_add, n16_toNat']
    have h4 : (4 : UInt16).toNat = 4 := rfl
    rw [hp, h4]; omega
  have eL : ((4 + n16 (bms.length * 4) + 7) / 8 * 8 : UInt16).toNat = (4 + 4 * bms.length + 7) / 8 * 8 := by
    rw [UInt16.toNat_mul, UInt16.toNat_div, UInt16.toNat_add, e4]
    have h8 : (8 : UInt16).toNat = 8 := rfl
    have h7 : (7 : UInt16).toNat = 7 := rfl
    rw [h8, h7, hp]; omega
  rw [eL] at hf
  have hl := fill_length _ _ _ hf
  obtain ⟨pl, pb, pt⟩ := bitmapPieces bms
  have hlen : piecesLen (pCopy (be16 (n16 ty) ++ be16 (n16 (4 + n16 (bms.length * 4)).toNat)) ::
      bms.map (fun b => pU32 b.asNat)) = 4 + 4 * bms.length := by
    have : ∀ (hb : Bytes) (ps : List Piece), piecesLen (pCopy hb :: ps) = hb.length + piecesLen ps := by
      intro hb ps; simp [piecesLen, pCopy, Piece.adv]
    rw [this, pl]; simp
  have hx := fill_all _ _ _
    (by intro q hq
        simp only [List.mem_cons] at hq
        rcases hq with rfl | hq
        · trivial
        · exact pt q hq)
    (by rw [hlen]; omega) hf
  rw [hlen] at hx
  have hbytes : piecesBytes (pCopy (be16 (n16 ty) ++ be16 (n16 (4 + n16 (bms.length * 4)).toNat)) ::
      bms.map (fun b => pU32 b.asNat)) =
      be16 (n16 ty) ++ be16 (n16 (4 + n16 (bms.length * 4)).toNat) ++ bitmapBytes bms := by
    have : ∀ (hb : Bytes) (ps : List Piece), piecesBytes (pCopy hb :: ps) = hb ++ piecesBytes ps := by
      intro hb ps; simp [piecesBytes, pCopy, Piece.bytes]
    rw [this, pb]
  rw [hbytes] at hx
  have hh : bs = be16 (n16 ty) ++ be16 (n16 (4 + n16 (bms.length * 4)).toNat) ++
      (bitmapBytes bms ++ zeros ((4 + 4 * bms.length + 7) / 8 * 8 - (4 + 4 * bms.length))) := by
    rw [hx]; simp only [List.append_assoc]
  obtain ⟨a, b⟩ := tlv_of_head _ _ _ _ hh
  refine ⟨hl, a.trans (n16_toNat' _), ?_, ?_, ?_⟩
  · rw [b, n16_of_toNat, e4]
  · rw [hx, ← bitmapBytes_length]
    exact mid_of_append _ _ _ 4 (by simp)
  · rw [hl]
    conv => lhs; rw [hx]
    exact tail_of_append _ _ _ _ (by simp [bitmapBytes_length])

/-- the element NewHelloElemVersionBitmap() builds (type 1, Length 8, one bitmap): (a) declares its 8 bytes,
    (b) a multiple of 8, (c) type OFPHET_VERSIONBITMAP -/
theorem helloElem_new_ok (bs : Bytes) (v2 : V) (h : HelloElemVersionBitmap.marshalM HelloElemVersionBitmap.new = .ok (bs, v2)) :
    TLV Gen.common.HelloElemType_VersionBitmap bs ∧ bs.length % 8 = 0 := by
  obtain ⟨a, b, c, _⟩ := helloElem_wire 1 (.num 8) [.num 18] bs v2 (by decide) h
  exact ⟨⟨b, by rw [c, a]; rfl⟩, by rw [a]; rfl⟩

/-- in general (the Bitmaps field is exported), for EVERY number n of bitmaps and whatever Length the caller stored: the
    length word declares 4 + 4·n, the element occupies that rounded up to a multiple of 8 — so a receiver that advances by
    the declared length rounded up to 8 lands exactly behind it — and every byte behind the declared length is zero; the
    declared length is the occupied size exactly when n is odd.  (Before the library was repaired, the padding the
    format requires was NOT written for even n: the former `helloElem_aligned_iff`.) -/
theorem helloElem_padded (ty : Nat) (x : V) (bms : List V) (bs : Bytes) (v2 : V) (hn : bms.length < 16000)
    (h : HelloElemVersionBitmap.marshalM (.obj "HelloElemVersionBitmap"
      [.obj "HelloElemHeader" [.num ty, x], .list bms]) = .ok (bs, v2)) :
    beAt bs 2 2 = 4 + 4 * bms.length ∧ bs.length = Spec.round8 (beAt bs 2 2) ∧ bs.length % 8 = 0 ∧
    AllZero (bs.drop (beAt bs 2 2)) ∧ (beAt bs 2 2 = bs.length ↔ bms.length % 2 = 1) := by
  obtain ⟨a, _, c, _, e⟩ := helloElem_wire ty x bms bs v2 hn h
  have ha : bs.length = (4 + 4 * bms.length + 7) / 8 * 8 := a
  refine ⟨c, by rw [c]; exact a, by omega, ?_, by rw [c, ha]; omega⟩
  rw [c, e]; exact allZero_zeros _

/-- the hypotheses are satisfiable, on the shape that used to be unpadded (two bitmaps, a stale stored Length): 12 bytes
    declared, 16 bytes written, 4 zero bytes of padding -/
example : ∃ bs v2, HelloElemVersionBitmap.marshalM (.obj "HelloElemVersionBitmap"
      [.obj "HelloElemHeader" [.num 1, .num 0], .list [.num 18, .num 1]]) = .ok (bs, v2) ∧
    bs = [0, 1, 0, 12, 0, 0, 0, 18, 0, 0, 0, 1, 0, 0, 0, 0] := ⟨_, _, rfl, rfl⟩

/-! ### TLV table maps (8 bytes, no length word) and the experimenter bundle property -/

/-- TLVTableMap, EVERY value: 8 bytes — option class(2) type(1) length(1) index(2) — and 2 zero pad bytes -/
theorem tlvTableMap_wire (c t l i : Nat) (p : V) (bs : Bytes) (v2 : V)
    (h : TLVTableMap.marshalM (.obj "TLVTableMap" [.num c, .num t, .num l, .num i, p]) = .ok (bs, v2)) :
    bs.length = 8 ∧ bs = be16 (n16 c) ++ [n8 t] ++ [n8 l] ++ be16 (n16 i) ++ zeros 2 := by
  simp only [TLVTableMap.marshalM] at h
  obtain ⟨out, hf, g1⟩ := bind_ok_inv _ _ _ h
  obtain ⟨e, _⟩ := same_ok _ _ _ _ g1
  subst e
  have hx := fill_all _ _ _
    (by intro q hq; simp only [List.mem_cons, List.mem_nil_iff, or_false] at hq;
        rcases hq with rfl | rfl | rfl | rfl <;> simp [pU16, pU8, Piece.Tight])
    (by simp [piecesLen, pU16, pU8, Piece.adv]) hf
  refine ⟨fill_length _ _ _ hf, ?_⟩
  rw [hx]
  simp [piecesBytes, piecesLen, pU16, pU8, Piece.bytes, Piece.adv]

/-- BundlePropertyExperimenter, any value with at most 65 500 data bytes: type at 0; the length word is 12 + len(data)
    (padding NOT counted, as the bundle extension prescribes); the encoding is that rounded up to a multiple of 8; the
    data follows the 12 header bytes intact and the padding is zero -/
theorem bundleProp_wire (t : Nat) (x : V) (ei et : Nat) (d : Bytes) (bs : Bytes) (v2 : V) (hd : d.length ≤ 65500)
    (h : BundlePropertyExperimenter.marshalM (.obj "BundlePropertyExperimenter" [.num t, x, .num ei, .num et, .bytes d])
      = .ok (bs, v2)) :
    beAt bs 0 2 = t % 65536 ∧ beAt bs 2 2 = 12 + d.length ∧ bs.length = Spec.round8 (12 + d.length) ∧
    (bs.drop 12).take d.length = d ∧ bs.drop (12 + d.length) = zeros (bs.length - (12 + d.length)) := by
  simp only [BundlePropertyExperimenter.marshalM, BundlePropertyExperimenter.len, Res.bind_ok] at h
  obtain ⟨out, hf, g1⟩ := bind_ok_inv _ _ _ h
  have eb : bs = out := by cases g1; rfl
  subst eb
  have hl := fill_length _ _ _ hf
  have hp : (2 : Nat) ^ 16 = 65536 := rfl
  have e12 : (n16 (12 + d.length)).toNat = 12 + d.length := by rw [n16_toNat']; omega
  have eL : ((12 + n16 d.length + 7) / 8 * 8 : UInt16).toNat = (12 + d.length + 7) / 8 * 8 := by
    rw [UInt16.toNat_mul, UInt16.toNat_div, UInt16.toNat_add, UInt16.toNat_add, n16_toNat']
    have h8 : (8 : UInt16).toNat = 8 := rfl
    have h7 : (7 : UInt16).toNat = 7 := rfl
    have h12 : (12 : UInt16).toNat = 12 := rfl
    rw [h8, h7, h12, hp]; omega
  rw [eL] at hl hf
  have hx := fill_all _ _ _
    (by intro q hq; simp only [List.mem_cons, List.mem_nil_iff, or_false] at hq;
        rcases hq with rfl | rfl | rfl | rfl | rfl <;> simp [pU16, pU32, pCopy, Piece.Tight])
    (by simp only [piecesLen, pU16, pU32, pCopy, List.map_cons, List.map_nil, Piece.adv, List.sum_cons, List.sum_nil,
          be16_length, be32_length]; omega) hf
  simp only [piecesBytes, piecesLen, pU16, pU32, pCopy, List.map_cons, List.map_nil, Piece.bytes, Piece.adv,
    List.sum_cons, List.sum_nil, List.flatten_cons, List.flatten_nil, List.append_nil, be16_length, be32_length,
    Nat.add_zero] at hx
  have hh : bs = be16 (n16 t) ++ be16 (n16 (12 + d.length)) ++
      (be32 (n32 ei) ++ be32 (n32 et) ++ d ++ zeros ((12 + d.length + 7) / 8 * 8 - (2 + (2 + (4 + (4 + d.length)))))) := by
    rw [hx]; simp only [List.append_assoc]
  obtain ⟨a, b⟩ := tlv_of_head _ _ _ _ hh
  refine ⟨a.trans (n16_toNat' _), by rw [b, e12], by rw [hl]; rfl, ?_, ?_⟩
  · rw [hx]; simp only [← List.append_assoc]
    exact mid_of_append _ _ _ 12 (by simp)
  · rw [hl]
    conv => lhs; rw [hx]; simp only [← List.append_assoc]
    rw [tail_of_append _ _ _ _ (by simp)]
    congr 1
    omega

/-- NewBundlePropertyExperimenter(): type OFPBPT_EXPERIMENTER = 0xffff -/
theorem bundleProp_new_wf : BundlePropertyExperimenter.new =
    .obj "BundlePropertyExperimenter" [.num Gen.openflow13.OFPBPT_EXPERIMENTER, .num 0, .num 0, .num 0, .bytes []] ∧
    Gen.openflow13.OFPBPT_EXPERIMENTER = 0xffff := ⟨rfl, rfl⟩

/-! ### the Action interface: every well-formed action is self-delimiting -/

/-- plain kinds with a constructor (the encoder writes the STORED length word) -/
def plainWFKinds : List String := ["ActionOutput", "ActionSetqueue", "ActionGroup", "ActionDecNwTtl", "ActionPush",
  "ActionPopVlan", "ActionPopMpls", "ActionSetField", "ActionMplsTtl", "ActionNwTtl"]
/-- Nicira kinds whose encoder writes the STORED length word (and allocates that many bytes) -/
def nxStoredKinds : List String := ["NXActionConjunction", "NXActionRegLoad", "NXActionRegMove", "NXActionResubmit",
  "NXActionResubmitTable", "NXActionOutputReg", "NXActionCTClear", "NXActionDecTTL", "NXActionDecTTLCntIDs"]
/-- Nicira kinds whose encoder recomputes the length word from Len() -/
def nxComputedKinds : List String := ["NXActionController", "NXActionNote", "NXActionLearn", "NXActionRegLoad2",
  "NXActionCTNAT", "NXActionConnTrack"]

/-- WELL-FORMED ACTION, as every constructor / adder of the library leaves it (`d`: remaining nesting bound of the
    interface dispatch, irrelevant for every kind but conntrack):
    Len() is a positive multiple of 8 (at least 16 for Nicira actions), the header has the expected shape, and — for
    the kinds whose encoder copies the stored Length — the stored Length equals Len() -/
def ActionWFD (d : Nat) (v : V) : Prop :=
  ∃ l v1, Action.lenD (d + 1) v = .ok (l, v1) ∧ 8 ≤ l.toNat ∧ l.toNat % 8 = 0 ∧
    ((v.kind ∈ plainWFKinds ∧ ∃ ty, ahdr v = some (ty, l.toNat)) ∨
     (v.kind ∈ nxStoredKinds ∧ 16 ≤ l.toNat ∧ ∃ ty vd sb, nxhdr v = some (ty, l.toNat, vd, sb)) ∨
     (v.kind ∈ nxComputedKinds ∧ 16 ≤ l.toNat ∧ ∃ ty ln vd sb, nxhdr v = some (ty, ln, vd, sb)))

/-- … at the nesting bound of Action.Len() / Action.MarshalBinary() -/
def ActionWF (v : V) : Prop := ActionWFD Action.encDepth v

/-- the length word at offset 2 declares exactly the bytes of the element; at least 8, a multiple of 8 -/
def Declares (bs : Bytes) : Prop := beAt bs 2 2 = bs.length ∧ 8 ≤ bs.length ∧ bs.length % 8 = 0

macro "act_leaf" d:ident v:ident hk:ident h:ident K:ident : tactic => `(tactic| (
  have e : Action.marshalD ($d + 1) $v = $K $v := by
    simp [Action.marshalD, Action.marshalLeaf, $hk:ident]
  rw [e] at $h:ident))

/-- (a)+(b) through the Action interface, at every nesting bound: EVERY well-formed action — any kind, any field
    values — encodes to a self-delimiting element: its length word says exactly how many bytes it occupies, a positive
    multiple of 8 -/
theorem action_declaresD (d : Nat) (v : V) (hwf : ActionWFD d v) (bs : Bytes) (v2 : V)
    (h : Action.marshalD (d + 1) v = .ok (bs, v2)) : Declares bs := by
  obtain ⟨l, v1, hl, h8, hal, hk⟩ := hwf
  have hsz := C06b.action_sizeD (d + 1) v l v1 bs v2 hl h
  have hlt := l.toNat_lt
  refine ⟨?_, by omega, by omega⟩
  rcases hk with ⟨hk, ty, ha⟩ | ⟨hk, h16, ty, vd, sb, hn⟩ | ⟨hk, h16, ty, ln, vd, sb, hn⟩
  · simp only [plainWFKinds, List.mem_cons, List.mem_nil_iff, or_false] at hk
    rcases hk with hk | hk | hk | hk | hk | hk | hk | hk | hk | hk
    · act_leaf d v hk h ActionOutput.marshalM
      rw [(actionOutput_wire v bs v2 _ _ ha h).2.2, hsz]; omega
    · act_leaf d v hk h ActionSetqueue.marshalM
      rw [(actionSetqueue_wire v bs v2 _ _ ha h).2.2, hsz]; omega
    · act_leaf d v hk h ActionGroup.marshalM
      rw [(actionGroup_wire v bs v2 _ _ ha h).2.2, hsz]; omega
    · act_leaf d v hk h ActionDecNwTtl.marshalM
      rw [(actionDecNwTtl_wire v bs v2 _ _ ha h).2.2.1, hsz]; omega
    · act_leaf d v hk h ActionPush.marshalM
      rw [(actionPush_wire v bs v2 _ _ ha h).2.2.1, hsz]; omega
    · act_leaf d v hk h ActionPopVlan.marshalM
      rw [(actionPopVlan_wire v bs v2 _ _ ha h).2.2.1, hsz]; omega
    · act_leaf d v hk h ActionPopMpls.marshalM
      rw [(actionPopMpls_wire v bs v2 _ _ ha h).2.2.1, hsz]; omega
    · act_leaf d v hk h ActionSetField.marshalM
      rw [(actionSetField_wire v bs v2 _ _ ha h).2.2.1, hsz]; omega
    · act_leaf d v hk h ActionMplsTtl.marshalM
      rw [(actionMplsTtl_wire v bs v2 _ _ ha h).2.2.1, hsz]; omega
    · act_leaf d v hk h ActionNwTtl.marshalM
      rw [(actionNwTtl_wire v bs v2 _ _ ha h).2.2.1, hsz]; omega
  · simp only [nxStoredKinds, List.mem_cons, List.mem_nil_iff, or_false] at hk
    rcases hk with hk | hk | hk | hk | hk | hk | hk | hk | hk
    · act_leaf d v hk h NXActionConjunction.marshalM
      exact ((nxConjunction_wire v bs v2 _ _ _ _ hn h).2 (by omega)).len_ok
    · act_leaf d v hk h NXActionRegLoad.marshalM
      exact ((nxRegLoad_wire v bs v2 _ _ _ _ hn h).2 (by omega)).len_ok
    · act_leaf d v hk h NXActionRegMove.marshalM
      exact ((nxRegMove_wire v bs v2 _ _ _ _ hn h).2 (by omega)).len_ok
    · act_leaf d v hk h NXActionResubmit.marshalM
      exact ((nxResubmit_wire v bs v2 _ _ _ _ hn h).2 (by omega)).len_ok
    · act_leaf d v hk h NXActionResubmitTable.marshalM
      exact ((nxResubmitTable_wire v bs v2 _ _ _ _ hn h).2 (by omega)).len_ok
    · act_leaf d v hk h NXActionOutputReg.marshalM
      exact ((nxOutputReg_wire v bs v2 _ _ _ _ hn h).2 (by omega)).len_ok
    · act_leaf d v hk h NXActionCTClear.marshalM
      exact ((nxCTClear_wire v bs v2 _ _ _ _ hn h).2 (by omega)).len_ok
    · act_leaf d v hk h NXActionDecTTL.marshalM
      exact ((nxDecTTL_wire v bs v2 _ _ _ _ hn h).2 (by omega)).len_ok
    · act_leaf d v hk h NXActionDecTTLCntIDs.marshalM
      exact ((nxDecTTLCntIDs_wire v bs v2 _ _ _ _ hn h).2 (by omega)).len_ok
  · simp only [nxComputedKinds, List.mem_cons, List.mem_nil_iff, or_false] at hk
    rcases hk with hk | hk | hk | hk | hk | hk
    · act_leaf d v hk h NXActionController.marshalM
      exact (nxController_wire v bs v2 _ _ _ _ hn h).2.len_ok
    · act_leaf d v hk h NXActionNote.marshalM
      exact ((nxNote_wire v bs v2 _ _ _ _ hn h).2 (by omega)).len_ok
    · act_leaf d v hk h NXActionLearn.marshalM
      exact ((nxLearn_wire v bs v2 _ _ _ _ hn h).2 (by omega)).len_ok
    · act_leaf d v hk h NXActionRegLoad2.marshalM
      exact (nxRegLoad2_wire v bs v2 _ _ _ _ hn h).2.1.len_ok
    · act_leaf d v hk h NXActionCTNAT.marshalM
      exact ((nxCTNAT_wire v bs v2 _ _ _ _ hn h).2.2 (by omega)).len_ok
    · have e : Action.marshalD (d + 1) v = NXActionConnTrack.marshalWith (Action.lenD d) (Action.marshalD d) v := by
        simp [Action.marshalD, hk]
      rw [e] at h
      exact ((nxConnTrack_wire _ _ v bs v2 _ _ _ _ hn h).2 (by omega)).len_ok

/-- (a)+(b) through Action.MarshalBinary() -/
theorem action_declares (v : V) (hwf : ActionWF v) (bs : Bytes) (v2 : V) (h : Action.marshalM v = .ok (bs, v2)) :
    Declares bs := action_declaresD Action.encDepth v hwf bs v2 h

/-! ### WALK: a receiver that follows declared lengths only -/

/-- the declared length of the element at the start of what remains: the type(2) length(2) convention of actions,
    instructions, hello elements, properties -/
def declared22 (bs : Bytes) : Nat := beAt bs 2 2

theorem declares_selfDelim (b : Bytes) (hd : Declares b) : SelfDelim declared22 b := by
  obtain ⟨a, h8, _⟩ := hd
  refine ⟨by omega, fun tail => ?_⟩
  unfold declared22
  rw [beAt_append_left b tail 2 2 (by omega), a]

/-- WALK (generic): the concatenation of elements that each declare their own size is walked — using nothing but the
    length words — into exactly those elements, in order, ending exactly at the last byte -/
theorem walk_declared (bss : List Bytes) (hd : ∀ b ∈ bss, Declares b) :
    walkBy declared22 (bss.length + 1) bss.flatten = some bss :=
  walkBy_flatten declared22 bss (fun b hb => declares_selfDelim b (hd b hb)) _ (Nat.lt_succ_self _)

theorem flatten_aligned (bss : List Bytes) (h : ∀ b ∈ bss, b.length % 8 = 0) : bss.flatten.length % 8 = 0 := by
  induction bss with
  | nil => rfl
  | cons b bs ih =>
    have h1 := h b (by simp)
    have h2 := ih (fun x hx => h x (by simp [hx]))
    simp only [List.flatten_cons, List.length_append]
    omega

/-- WALK of an InstrActions (apply / write actions) whose actions are well-formed (`as1`: the actions as Len() leaves
    them — identical to `as` unless a CTNAT / conntrack action had an unrounded stored length):
    the instruction declares exactly its bytes; walking the bytes after the 8-byte instruction header by declared
    lengths visits exactly the encodings of the actions, in order, and ends exactly at the instruction's last byte;
    everything is 8-byte aligned -/
theorem instrActions_walk (ty : Nat) (x : V) (pad : Bytes) (as : List V) (ls : List UInt16) (as1 : List V)
    (hm : mapM2 Action.lenM as = .ok (ls, as1)) (hwf : ∀ a ∈ as1, ActionWF a) (bs : Bytes) (v2 : V)
    (h : InstrActions.marshalM (.obj "InstrActions" [.obj "InstrHeader" [.num ty, x], .bytes pad, .list as]) = .ok (bs, v2))
    (hlt : bs.length < 65536) :
    ∃ bss as2, mapM2 Action.marshalM as1 = .ok (bss, as2) ∧ beAt bs 2 2 = bs.length ∧
      walkBy declared22 (bss.length + 1) (bs.drop 8) = some bss ∧ bs.length = 8 + bss.flatten.length ∧
      bs.length % 8 = 0 := by
  obtain ⟨_, a2, _, ls', as1', bss, as2, hm', hmm, e⟩ := instrActions_wire ty x pad as bs v2 h hlt
  rw [hm] at hm'
  cases hm'
  have hd : ∀ b ∈ bss, Declares b :=
    mapM2_forall_bytes Action.marshalM Declares as1 bss as2 hmm (fun a ha b a' hb => action_declares a (hwf a ha) b a' hb)
  have hlen : bs.length = 8 + bss.flatten.length := by
    have h8 : 8 ≤ bs.length := by
      have := a2
      by_cases hc : 8 ≤ bs.length
      · exact hc
      · exfalso
        -- the instruction header alone is 8 bytes: 4 header bytes and 4 pad bytes precede the actions
        obtain ⟨_, _, _, _, _, _, hb, _, _, _, _, hhb, hbl, _, e2⟩ := C06b.instrActions_embeds _ bs v2 h
        rw [e2] at hc
        simp [hbl, makeCopy_length] at hc
        omega
    have : (bs.drop 8).length = bss.flatten.length := by rw [e]
    simp only [List.length_drop] at this
    omega
  refine ⟨bss, as2, hmm, a2, ?_, hlen, ?_⟩
  · rw [e]; exact walk_declared bss hd
  · have := flatten_aligned bss (fun b hb => (hd b hb).2.2)
    omega

/-- WALK of a Bucket whose actions are well-formed: the bucket declares exactly its bytes; walking the bytes after the
    16 fixed bytes by declared lengths visits exactly the encodings of the actions and ends at the bucket's last byte -/
theorem bucket_walk (v : V) (as : List V) (ls : List UInt16) (as1 : List V) (hf : v.fields[5]? = some (.list as))
    (hm : mapM2 Action.lenM as = .ok (ls, as1)) (hwf : ∀ a ∈ as1, ActionWF a) (bs : Bytes) (v2 : V)
    (h : Bucket.marshalM v = .ok (bs, v2)) (hlt : bs.length ≤ 65528) :
    ∃ bss as2, mapM2 Action.marshalM as1 = .ok (bss, as2) ∧ beAt bs 0 2 = bs.length ∧
      walkBy declared22 (bss.length + 1) (bs.drop 16) = some bss ∧ bs.length = 16 + bss.flatten.length ∧
      bs.length % 8 = 0 := by
  obtain ⟨ls', as', as1', bss, as2, hf', hm', hmm, a, _, c, d⟩ := bucket_wire v bs v2 h
  rw [hf] at hf'
  cases hf'
  rw [hm] at hm'
  cases hm'
  obtain ⟨b1, b2⟩ := bucket_ok v bs v2 h hlt
  have hd : ∀ b ∈ bss, Declares b :=
    mapM2_forall_bytes Action.marshalM Declares as1 bss as2 hmm (fun a ha b a' hb => action_declares a (hwf a ha) b a' hb)
  have hfa := flatten_aligned bss (fun b hb => (hd b hb).2.2)
  -- sizes: Len() of each action is its encoded size, so Σ = the flattened length, already a multiple of 8: no padding
  have hlens := mapM2_lengths Action.lenM Action.marshalM as ls as1 bss as2 hm hmm
    (fun x _ l y b z hx hy => C06b.action_size y l y b z (Action.lenM_idem x l y hx) hy)
  have hflat : bss.flatten.length = (ls.map UInt16.toNat).sum := by rw [flatten_length_sum, hlens]
  have hge : 16 + bss.flatten.length ≤ bs.length := by
    have h1 : ((bs.drop 16).take bss.flatten.length).length = bss.flatten.length := by rw [c]
    simp only [List.length_take, List.length_drop] at h1
    have h2 : 16 ≤ bs.length := by
      have : 8 ≤ 16 := by decide
      have h3 : (bs.drop (16 + bss.flatten.length)).length =
          (Model.round8 (16 + sum16 ls)).toNat - (16 + bss.flatten.length) := by rw [d]; simp
      simp only [List.length_drop] at h3
      rw [a] at b1
      have hs : (sum16 ls).toNat = bss.flatten.length := by rw [hflat]; exact sum16_toNat ls (by omega)
      have hp : (2 : Nat) ^ 16 = 65536 := rfl
      have h16 : (16 : UInt16).toNat = 16 := rfl
      have e16 : (16 + sum16 ls : UInt16).toNat = 16 + bss.flatten.length := by
        rw [UInt16.toNat_add, hs, h16, hp]; omega
      have r8 := round8_ge (16 + sum16 ls) (by rw [e16]; omega)
      omega
    omega
  have hs : (sum16 ls).toNat = bss.flatten.length := by rw [hflat]; exact sum16_toNat ls (by omega)
  have hp : (2 : Nat) ^ 16 = 65536 := rfl
  have h16 : (16 : UInt16).toNat = 16 := rfl
  have e16 : (16 + sum16 ls : UInt16).toNat = 16 + bss.flatten.length := by
    rw [UInt16.toNat_add, hs, h16, hp]; omega
  have r8 : (Model.round8 (16 + sum16 ls)).toNat = 16 + bss.flatten.length := by
    have := round8_of_aligned (16 + sum16 ls) (by rw [e16]; omega)
    rw [this, e16]
  have hlen : bs.length = 16 + bss.flatten.length := by rw [← b1, a, r8]
  have hdrop : bs.drop 16 = bss.flatten := by
    have : (bs.drop 16).take bss.flatten.length = bs.drop 16 :=
      List.take_of_length_le (by simp only [List.length_drop]; omega)
    rw [← this, c]
  exact ⟨bss, as2, hmm, b1, by rw [hdrop]; exact walk_declared bss hd, hlen, b2⟩

/-! ### the constructors build well-formed actions -/

theorem actionWF_output (p : Nat) : ActionWF (ActionOutput.new p) :=
  ⟨16, _, rfl, by decide, by decide, Or.inl ⟨(by show "ActionOutput" ∈ plainWFKinds; decide), _, rfl⟩⟩
theorem actionWF_setqueue (q : Nat) : ActionWF (ActionSetqueue.new q) :=
  ⟨8, _, rfl, by decide, by decide, Or.inl ⟨(by show "ActionSetqueue" ∈ plainWFKinds; decide), _, rfl⟩⟩
theorem actionWF_group (g : Nat) : ActionWF (ActionGroup.new g) :=
  ⟨8, _, rfl, by decide, by decide, Or.inl ⟨(by show "ActionGroup" ∈ plainWFKinds; decide), _, rfl⟩⟩
theorem actionWF_decNwTtl : ActionWF ActionDecNwTtl.new :=
  ⟨8, _, rfl, by decide, by decide, Or.inl ⟨(by show "ActionDecNwTtl" ∈ plainWFKinds; decide), _, rfl⟩⟩
theorem actionWF_push (ty et : Nat) : ActionWF (ActionPush.new ty et) :=
  ⟨8, _, rfl, by decide, by decide, Or.inl ⟨(by show "ActionPush" ∈ plainWFKinds; decide), _, rfl⟩⟩
theorem actionWF_popVlan : ActionWF ActionPopVlan.new :=
  ⟨8, _, rfl, by decide, by decide, Or.inl ⟨(by show "ActionPopVlan" ∈ plainWFKinds; decide), _, rfl⟩⟩
theorem actionWF_popMpls (et : Nat) : ActionWF (ActionPopMpls.new et) :=
  ⟨8, _, rfl, by decide, by decide, Or.inl ⟨(by show "ActionPopMpls" ∈ plainWFKinds; decide), _, rfl⟩⟩
theorem actionWF_mplsTtl (t : Nat) : ActionWF (ActionMplsTtl.new t) :=
  ⟨8, _, rfl, by decide, by decide, Or.inl ⟨(by show "ActionMplsTtl" ∈ plainWFKinds; decide), _, rfl⟩⟩
theorem actionWF_nwTtl (t : Nat) : ActionWF (ActionNwTtl.new t) :=
  ⟨8, _, rfl, by decide, by decide, Or.inl ⟨(by show "ActionNwTtl" ∈ plainWFKinds; decide), _, rfl⟩⟩
theorem actionWF_conjunction (c nc id : Nat) : ActionWF (NXActionConjunction.new c nc id) :=
  ⟨16, _, rfl, by decide, by decide, Or.inr (Or.inl ⟨(by show "NXActionConjunction" ∈ nxStoredKinds; decide), by decide, _, _, _, rfl⟩)⟩
theorem actionWF_regLoad (ofs : Nat) (dst : V) (val : Nat) : ActionWF (NXActionRegLoad.new ofs dst val) :=
  ⟨24, _, rfl, by decide, by decide, Or.inr (Or.inl ⟨(by show "NXActionRegLoad" ∈ nxStoredKinds; decide), by decide, _, _, _, rfl⟩)⟩
theorem actionWF_regMove (nb so dso : Nat) (sf df : V) : ActionWF (NXActionRegMove.new nb so dso sf df) :=
  ⟨24, _, rfl, by decide, by decide, Or.inr (Or.inl ⟨(by show "NXActionRegMove" ∈ nxStoredKinds; decide), by decide, _, _, _, rfl⟩)⟩
theorem actionWF_resubmitTable (sub ip t ct : Nat) : ActionWF (NXActionResubmitTable.new sub ip t ct) :=
  ⟨16, _, rfl, by decide, by decide, Or.inr (Or.inl ⟨(by show "NXActionResubmitTable" ∈ nxStoredKinds; decide), by decide, _, _, _, rfl⟩)⟩
theorem actionWF_outputReg (sf : V) (ofs ml : Nat) : ActionWF (NXActionOutputReg.new sf ofs ml) :=
  ⟨24, _, rfl, by decide, by decide, Or.inr (Or.inl ⟨(by show "NXActionOutputReg" ∈ nxStoredKinds; decide), by decide, _, _, _, rfl⟩)⟩
theorem actionWF_ctClear : ActionWF NXActionCTClear.new :=
  ⟨16, _, rfl, by decide, by decide, Or.inr (Or.inl ⟨(by show "NXActionCTClear" ∈ nxStoredKinds; decide), by decide, _, _, _, rfl⟩)⟩
theorem actionWF_decTTL : ActionWF NXActionDecTTL.new :=
  ⟨16, _, rfl, by decide, by decide, Or.inr (Or.inl ⟨(by show "NXActionDecTTL" ∈ nxStoredKinds; decide), by decide, _, _, _, rfl⟩)⟩
theorem actionWF_controller (id : Nat) : ActionWF (NXActionController.new id) :=
  ⟨16, _, rfl, by decide, by decide, Or.inr (Or.inr ⟨(by show "NXActionController" ∈ nxComputedKinds; decide), by decide, _, _, _, _, rfl⟩)⟩
theorem actionWF_note : ActionWF NXActionNote.new :=
  ⟨16, _, rfl, by decide, by decide, Or.inr (Or.inr ⟨(by show "NXActionNote" ∈ nxComputedKinds; decide), by decide, _, _, _, _, rfl⟩)⟩
theorem actionWF_learn : ActionWF NXActionLearn.new :=
  ⟨32, _, rfl, by decide, by decide, Or.inr (Or.inr ⟨(by show "NXActionLearn" ∈ nxComputedKinds; decide), by decide, _, _, _, _, rfl⟩)⟩
theorem actionWF_ctNAT : ActionWF NXActionCTNAT.new :=
  ⟨16, _, rfl, by decide, by decide, Or.inr (Or.inr ⟨(by show "NXActionCTNAT" ∈ nxComputedKinds; decide), by decide, _, _, _, _, rfl⟩)⟩
theorem actionWF_connTrack : ActionWF NXActionConnTrack.new :=
  ⟨24, _, rfl, by decide, by decide, Or.inr (Or.inr ⟨(by show "NXActionConnTrack" ∈ nxComputedKinds; decide), by decide, _, _, _, _, rfl⟩)⟩

/-- the hypotheses of `instrActions_walk` are satisfiable: an apply-actions instruction with an output action and a
    conjunction action encodes, and the walk of its 40 bytes finds the two actions -/
example : (InstrActions.marshalM (.obj "InstrActions" [.obj "InstrHeader" [.num Gen.openflow13.InstrType_APPLY_ACTIONS, .num 8],
      .bytes (zeros 4), .list [ActionOutput.new 7, NXActionConjunction.new 1 2 3]])).isOk = true ∧
    ∀ bs v2, InstrActions.marshalM (.obj "InstrActions" [.obj "InstrHeader" [.num Gen.openflow13.InstrType_APPLY_ACTIONS, .num 8],
      .bytes (zeros 4), .list [ActionOutput.new 7, NXActionConjunction.new 1 2 3]]) = .ok (bs, v2) → bs.length < 65536 →
      ∃ bss, beAt bs 2 2 = bs.length ∧ walkBy declared22 (bss.length + 1) (bs.drop 8) = some bss ∧ bss.length = 2 := by
  refine ⟨rfl, fun bs v2 h hlt => ?_⟩
  have hm : mapM2 Action.lenM [ActionOutput.new 7, NXActionConjunction.new 1 2 3] =
      .ok ([16, 16], [ActionOutput.new 7, NXActionConjunction.new 1 2 3]) := rfl
  have hwf : ∀ a ∈ [ActionOutput.new 7, NXActionConjunction.new 1 2 3], ActionWF a := by
    intro a ha
    simp only [List.mem_cons, List.mem_nil_iff, or_false] at ha
    rcases ha with rfl | rfl
    · exact actionWF_output 7
    · exact actionWF_conjunction 1 2 3
  obtain ⟨bss, as2, hmm, a, w, _, _⟩ := instrActions_walk _ _ _ _ _ _ hm hwf bs v2 h hlt
  exact ⟨bss, a, w, (mapM2_length _ _ _ _ hmm).1⟩

/-- a match field reports at least its 4 header bytes -/
theorem matchField_len_ge (v : V) (l : UInt16) (v1 : V) (h : MatchField.lenM v = .ok (l, v1)) : 4 ≤ l.toNat := by
  have hle := C06b.matchField_len_le v l v1 h
  unfold MatchField.lenM at h
  split at h
  · rename_i c f hm ln eid val mask
    obtain ⟨⟨lv, val'⟩, hv, h2⟩ := bind_ok_inv _ _ _ h
    have b1 := C06.payload_len_le _ _ _ hv
    have hn : 4 ≤ (if eid = 0 then (4 : UInt16) else 8).toNat := by split <;> decide
    have hn2 : (if eid = 0 then (4 : UInt16) else 8).toNat ≤ 8 := by split <;> decide
    have hp : (2 : Nat) ^ 16 = 65536 := rfl
    simp only at h2
    split at h2
    · have el : l = (if eid = 0 then (4 : UInt16) else 8) + lv := by cases h2; rfl
      rw [el, UInt16.toNat_add, hp]; omega
    · obtain ⟨⟨lm, mask'⟩, hmk, h3⟩ := bind_ok_inv _ _ _ h2
      have b2 := C06.payload_len_le _ _ _ hmk
      have el : l = (if eid = 0 then (4 : UInt16) else 8) + lv + lm := by cases h3; rfl
      rw [el, UInt16.toNat_add, UInt16.toNat_add, hp]; omega
  · exact absurd h (by simp)

/-- NewActionSetField(field) builds a well-formed action, for ANY field whose Len() succeeds -/
theorem actionWF_setField (f v : V) (hn : ActionSetField.new f = .ok v) : ActionWF v := by
  obtain ⟨l, v1, hl, ha⟩ := actionSetField_new_wf f v hn
  have hk : v.kind = "ActionSetField" := by
    unfold ActionSetField.lenM at hl
    split at hl
    · rfl
    · exact absurd hl (by simp)
  have e : Action.lenM v = ActionSetField.lenM v := by
    simp [Action.lenM, Action.lenD, Action.lenLeaf, hk]
  have hal := C06b.actionSetField_aligned v l v1 hl
  have h8 : 8 ≤ l.toNat := by
    have hl' := hl
    unfold ActionSetField.lenM at hl'
    split at hl'
    · obtain ⟨⟨fl, f'⟩, hfl, hl2⟩ := bind_ok_inv _ _ _ hl'
      have el : l = Model.round8 (4 + fl) := by cases hl2; rfl
      have g4 := matchField_len_ge _ _ _ hfl
      have l4 := C06b.matchField_len_le _ _ _ hfl
      have e4 : (4 + fl : UInt16).toNat = 4 + fl.toNat := by
        rw [UInt16.toNat_add]
        have hp : (2 : Nat) ^ 16 = 65536 := rfl
        have h4 : (4 : UInt16).toNat = 4 := rfl
        rw [hp, h4]; omega
      have r := round8_ge (4 + fl) (by omega)
      rw [el]; omega
    · exact absurd hl' (by simp)
  exact ⟨l, v1, (by show Action.lenM v = _; rw [e]; exact hl), h8, hal, Or.inl ⟨by rw [hk]; decide, _, ha⟩⟩

/-- NewNXActionRegLoad2(field) builds a well-formed action, for ANY field whose Len() succeeds -/
theorem actionWF_regLoad2 (f : V) (fl : UInt16) (f' : V) (hnn : f ≠ .nil) (hfl : MatchField.lenM f = .ok (fl, f')) :
    ActionWF (NXActionRegLoad2.new f) := by
  have ef := MatchField.lenM_pure _ _ _ hfl
  subst ef
  have g4 := matchField_len_ge _ _ _ hfl
  have l4 := C06b.matchField_len_le _ _ _ hfl
  have e4 : (10 + fl : UInt16).toNat = 10 + fl.toNat := by
    rw [UInt16.toNat_add]
    have hp : (2 : Nat) ^ 16 = 65536 := rfl
    have h10 : (10 : UInt16).toNat = 10 := rfl
    rw [hp, h10]; omega
  have r := round8_ge (10 + fl) (by omega)
  have ral := round8_aligned (10 + fl)
  have hl : Action.lenM (NXActionRegLoad2.new f') = .ok (Model.round8 (10 + fl), NXActionRegLoad2.new f') := by
    have e : Action.lenM (NXActionRegLoad2.new f') = NXActionRegLoad2.lenM (NXActionRegLoad2.new f') := by
      simp [Action.lenM, Action.lenD, Action.lenLeaf, NXActionRegLoad2.new, V.kind]
    rw [e]
    cases f' with
    | nil => exact absurd rfl hnn
    | num n => simp only [NXActionRegLoad2.new, NXActionRegLoad2.lenM, hfl, Res.bind_ok]
    | bytes b => simp only [NXActionRegLoad2.new, NXActionRegLoad2.lenM, hfl, Res.bind_ok]
    | list xs => simp only [NXActionRegLoad2.new, NXActionRegLoad2.lenM, hfl, Res.bind_ok]
    | obj k fs => simp only [NXActionRegLoad2.new, NXActionRegLoad2.lenM, hfl, Res.bind_ok]
  exact ⟨_, _, hl, by omega, round8_aligned _, Or.inr (Or.inr ⟨by show "NXActionRegLoad2" ∈ nxComputedKinds; decide,
    by omega, _, _, _, _, rfl⟩)⟩

/-! ### the header-only actions (known finding) -/

/-- A bare ActionHeader value (no constructor builds one; the decoder now represents COPY_TTL_OUT / COPY_TTL_IN /
    DEC_MPLS_TTL / POP_PBB, types 11, 12, 16, 27, by the 8-byte ActionDecNwTtl shape, and ActionMplsTtl / ActionNwTtl have
    their own 8-byte codec): ALWAYS 4 bytes — the stored type and length words and nothing else.  The format requires
    8 (4 bytes of padding): a value with stored Length 8 declares 8 and occupies 4, a value with stored Length 4 is
    self-consistent but not a legal OpenFlow action. -/
theorem actionHeader_wire (ty ln : Nat) (bs : Bytes) (v2 : V)
    (h : ActionHeader.marshalM (.obj "ActionHeader" [.num ty, .num ln]) = .ok (bs, v2)) :
    bs.length = 4 ∧ beAt bs 0 2 = ty % 65536 ∧ beAt bs 2 2 = ln % 65536 ∧ bs.length % 8 ≠ 0 := by
  simp only [ActionHeader.marshalM, ActionHeader.bytes, Res.bind_ok] at h
  obtain ⟨e, _⟩ := same_ok _ _ _ _ h
  subst e
  obtain ⟨a, b⟩ := tlv_of_head (n16 ty) (n16 ln) _ [] (List.append_nil _).symm
  exact ⟨rfl, by rw [a, n16_toNat'], by rw [b, n16_toNat'], by simp⟩

/-! ### the Instruction interface and the walk of a FlowMod -/

/-- WELL-FORMED INSTRUCTION as the constructors / AddAction leave it: goto-table with Length 8, write-metadata with
    Length 24, an actions instruction with a numeric type whose actions (as Len() leaves them) are well-formed, or a
    meter instruction with Length 8 -/
def InstrWF (v : V) : Prop :=
  (v.kind = "InstrGotoTable" ∧ ∃ ty, ihdr v = some (ty, 8)) ∨
  (v.kind = "InstrWriteMetadata" ∧ ∃ ty, ihdr v = some (ty, 24)) ∨
  (∃ ty x pad as ls as1, v = .obj "InstrActions" [.obj "InstrHeader" [.num ty, x], .bytes pad, .list as] ∧
    mapM2 Action.lenM as = .ok (ls, as1) ∧ ∀ a ∈ as1, ActionWF a) ∨
  (v.kind = "InstrMeter" ∧ ∃ ty, ihdr v = some (ty, 8))

theorem instrWF_gotoTable (t : Nat) : InstrWF (InstrGotoTable.new t) := Or.inl ⟨rfl, _, rfl⟩
theorem instrWF_writeMetadata (md mk : Nat) : InstrWF (InstrWriteMetadata.new md mk) := Or.inr (Or.inl ⟨rfl, _, rfl⟩)
theorem instrWF_actions_new (ty : Nat) : InstrWF (InstrActions.new ty) :=
  Or.inr (Or.inr (Or.inl ⟨ty, _, _, [], [], [], rfl, rfl, by intro a ha; simp at ha⟩))
theorem instrWF_meter (m : Nat) : InstrWF (InstrMeter.new m) := Or.inr (Or.inr (Or.inr ⟨rfl, _, rfl⟩))

/-- (a)+(b) through the Instruction interface: every well-formed instruction shorter than 64 KiB declares exactly the
    bytes it occupies, a positive multiple of 8 -/
theorem instruction_declares (v : V) (hwf : InstrWF v) (bs : Bytes) (v2 : V) (h : Instruction.marshalM v = .ok (bs, v2))
    (hlt : bs.length < 65536) : Declares bs := by
  rcases hwf with ⟨hk, ty, hi⟩ | ⟨hk, ty, hi⟩ | ⟨ty, x, pad, as, ls, as1, rfl, hm, hwa⟩ | ⟨hk, ty, hi⟩
  · have e : Instruction.marshalM v = InstrGotoTable.marshalM v := by simp [Instruction.marshalM, hk]
    rw [e] at h
    obtain ⟨a, _, c⟩ := instrGotoTable_wire v bs v2 _ _ hi h
    exact ⟨by rw [c, a], by omega, by omega⟩
  · have e : Instruction.marshalM v = InstrWriteMetadata.marshalM v := by simp [Instruction.marshalM, hk]
    rw [e] at h
    obtain ⟨a, _, c⟩ := instrWriteMetadata_wire v bs v2 _ _ hi h
    exact ⟨by rw [c, a], by omega, by omega⟩
  · have e : Instruction.marshalM (.obj "InstrActions" [.obj "InstrHeader" [.num ty, x], .bytes pad, .list as]) =
        InstrActions.marshalM (.obj "InstrActions" [.obj "InstrHeader" [.num ty, x], .bytes pad, .list as]) := by
      simp [Instruction.marshalM, V.kind]
    rw [e] at h
    obtain ⟨bss, as2, _, a, _, hl, hal⟩ := instrActions_walk ty x pad as ls as1 hm hwa bs v2 h hlt
    exact ⟨a, by omega, hal⟩
  · have e : Instruction.marshalM v = InstrMeter.marshalM v := by simp [Instruction.marshalM, hk]
    rw [e] at h
    obtain ⟨a, _, c⟩ := instrMeter_wire v bs v2 _ _ hi h
    exact ⟨by rw [c, a], by omega, by omega⟩

/-- WALK of a FlowMod (any command but the two deletes) whose instructions — as Len() leaves them — are well-formed:
    after the 8 header bytes, the 40 fixed bytes and the match, walking by declared lengths visits exactly the
    encodings of the instructions, in order, and arrives exactly at the end of the message -/
theorem flowMod_walk (v : V) (bs : Bytes) (v2 : V) (h : FlowMod.marshalM v = .ok (bs, v2)) (hlt : bs.length < 65536)
    (hwf : ∀ is ls is1, v.fields[14]? = some (.list is) → mapM2 Instruction.lenM is = .ok (ls, is1) → ∀ i ∈ is1, InstrWF i) :
    ∃ m mb m', v.fields[13]? = some m ∧ Match.marshalM m = .ok (mb, m') ∧
      (bs.length = 48 + mb.length ∨
       ∃ bss, walkBy declared22 (bss.length + 1) (bs.drop (48 + mb.length)) = some bss ∧
         bs.length = 48 + mb.length + bss.flatten.length) := by
  obtain ⟨hd, ck, cm, tid, cmd, it, ht, pr, bid, op, og, fl, pad, m, is, l, hb, mb, m', rfl, hhb, hbl, hmm, fixed, hfl, hcase⟩ :=
    C06b.flowMod_embeds v bs v2 h
  refine ⟨m, mb, m', rfl, hmm, ?_⟩
  rcases hcase with ⟨_, e⟩ | ⟨_, ls, is1, bss, is2, hml, hmi, e⟩
  · left; rw [e]; simp [hbl, hfl]; omega
  · right
    have hpre : (hb ++ fixed ++ mb).length = 48 + mb.length := by simp [hbl, hfl]; omega
    have hlen : bs.length = 48 + mb.length + bss.flatten.length := by rw [e, List.length_append, hpre]
    have hd : ∀ b ∈ bss, Declares b := by
      intro b hb
      obtain ⟨i, hi, i', hb'⟩ := mapM2_mem_bytes Instruction.marshalM is1 bss is2 hmi b hb
      have := length_le_flatten bss b hb
      exact instruction_declares i (hwf is ls is1 rfl hml i hi) b i' hb' (by omega)
    refine ⟨bss, ?_, hlen⟩
    rw [e, ← hpre, List.drop_left]
    exact walk_declared bss hd

/-! ### conntrack: the nested actions -/

/-- NXActionConnTrack embeds its nested actions intact: when the nested encodings have the sizes the nested Len()
    reported (`hsize`, true of the real Action functions by C06b.action_size), the pad field is the 3-byte array and the
    total stays below 64 KiB, the encoding is the 24 fixed bytes followed by exactly the nested encodings, in order —
    no padding, nothing dropped -/
theorem nxConnTrack_embeds (subLen : V → R (UInt16 × V)) (sub : V → R (Bytes × V))
    (hsize : ∀ x l y b z, subLen x = .ok (l, y) → sub y = .ok (b, z) → b.length = l.toNat)
    (hd a b c d : V) (pad : Bytes) (f : V) (acts : List V) (hpad : pad.length ≤ 3) (bs : Bytes) (v2 : V)
    (h : NXActionConnTrack.marshalWith subLen sub (.obj "NXActionConnTrack" [hd, a, b, c, d, .bytes pad, f, .list acts]) = .ok (bs, v2)) :
    ∃ ls acts1 bss acts2, mapM2 subLen acts = .ok (ls, acts1) ∧ mapM2 sub acts1 = .ok (bss, acts2) ∧
      (24 + bss.flatten.length < 65536 → bs.drop 24 = bss.flatten ∧ bs.length = 24 + bss.flatten.length) := by
  unfold NXActionConnTrack.marshalWith at h
  obtain ⟨⟨l, va⟩, hl, g1⟩ := bind_ok_inv _ _ _ h
  clear h
  simp only at g1
  simp only [NXActionConnTrack.lenWith] at hl
  obtain ⟨⟨l0, hd0⟩, hl0, hl2⟩ := bind_ok_inv _ _ _ hl
  obtain ⟨e1, e2⟩ := same_ok _ _ _ _ hl0
  subst e1; subst e2
  obtain ⟨⟨ls, acts1⟩, hm, hl3⟩ := bind_ok_inv _ _ _ hl2
  obtain ⟨h', hs, hl4⟩ := bind_ok_inv _ _ _ hl3
  have el : l = n16 Gen.openflow13.NxActionHeaderLength + 14 + sum16 ls ∧
      va = .obj "NXActionConnTrack" [h', a, b, c, d, .bytes pad, f, .list acts1] := by cases hl4; exact ⟨rfl, rfl⟩
  obtain ⟨rfl, rfl⟩ := el
  split at g1
  · rename_i heq
    cases heq
    obtain ⟨hb, hhb, g2⟩ := bind_ok_inv _ _ _ g1
    obtain ⟨buf, hf, g3⟩ := bind_ok_inv _ _ _ g2
    obtain ⟨⟨buf', acts'⟩, hacts, g4⟩ := bind_ok_inv _ _ _ g3
    have eb : bs = buf' := by cases g4; rfl
    subst eb
    obtain ⟨bss, hmm⟩ := marshalActs_mapM2 _ _ _ _ _ _ hacts
    refine ⟨ls, acts1, bss, acts', hm, hmm, fun hlt => ?_⟩
    have hlens := mapM2_lengths subLen sub acts ls acts1 bss acts' hm hmm (fun x _ l y b z hx hy => hsize x l y b z hx hy)
    have hflat : bss.flatten.length = (ls.map UInt16.toNat).sum := by rw [flatten_length_sum, hlens]
    have hsum : (sum16 ls).toNat = bss.flatten.length := by rw [hflat]; exact sum16_toNat ls (by omega)
    have hp : (2 : Nat) ^ 16 = 65536 := rfl
    have h10 : (n16 Gen.openflow13.NxActionHeaderLength).toNat = 10 := rfl
    have h14 : (14 : UInt16).toNat = 14 := rfl
    have eL : (n16 Gen.openflow13.NxActionHeaderLength + 14 + sum16 ls).toNat = 24 + bss.flatten.length := by
      rw [UInt16.toNat_add, UInt16.toNat_add, hsum, h10, h14, hp]; omega
    rw [eL] at hf
    have hbl := NXActionHeader.bytes_length _ _ hhb
    have hx := fill_all _ _ _
      (by intro q hq; simp only [List.mem_cons, List.mem_nil_iff, or_false] at hq;
          rcases hq with rfl | rfl | rfl | rfl | rfl | rfl | rfl <;> simp [pCopy, pU16, pU32, pU8, pCopyAdv, Piece.Tight, hpad])
      (by simp only [piecesLen, pCopy, pU16, pU32, pU8, pCopyAdv, List.map_cons, List.map_nil, Piece.adv, List.sum_cons,
            List.sum_nil, be16_length, be32_length, List.length_cons, List.length_nil, hbl]; omega) hf
    have hpl : ∀ x1 x2 x3 x4 x5, piecesLen [pCopy hb, pU16 x1, pU32 x2, pU16 x3, pU8 x4, pCopyAdv pad 3, pU16 x5] = 24 := by
      intro x1 x2 x3 x4 x5
      simp [piecesLen, pCopy, pU16, pU32, pU8, pCopyAdv, Piece.adv, hbl]
    rw [hpl] at hx
    have hpre : ∀ x1 x2 x3 x4 x5, (piecesBytes [pCopy hb, pU16 x1, pU32 x2, pU16 x3, pU8 x4, pCopyAdv pad 3, pU16 x5]).length = 24 := by
      intro x1 x2 x3 x4 x5
      simp only [piecesBytes, pCopy, pU16, pU32, pU8, pCopyAdv, List.map_cons, List.map_nil, Piece.bytes,
        List.flatten_cons, List.flatten_nil, List.length_append, be16_length, be32_length, List.length_cons, List.length_nil,
        hbl, List.length_take, zeros_length]
      omega
    have e24 : 24 + bss.flatten.length - 24 = bss.flatten.length := by omega
    rw [e24] at hx
    rw [hx, ← hpre _ _ _ _ _] at hacts
    have := marshalActs_exact sub acts1 _ _ _ _ bss hacts hmm (Nat.le_refl _)
    rw [this, Nat.sub_self]
    have hdrop : ∀ (pre m : Bytes) (k : Nat), pre.length = k → (pre ++ m).drop k = m := by
      intro pre m k hk; subst hk; exact List.drop_left
    simp only [zeros, List.replicate_zero, List.append_nil]
    exact ⟨hdrop _ _ 24 (hpre _ _ _ _ _), by rw [List.length_append, hpre]⟩
  · exact absurd g1 (by simp)

/-- WALK of a conntrack action whose nested actions (as Len() leaves them) are well-formed: after the 24 fixed bytes,
    walking by declared lengths visits exactly the nested actions' encodings and ends at the action's last byte,
    which is where its own length word says it ends -/
theorem nxConnTrack_walk (hd a b c d : V) (pad : Bytes) (f : V) (acts : List V) (hpad : pad.length ≤ 3) (bs : Bytes) (v2 : V)
    (ty ln vd sb : Nat) (hn : nxhdr (.obj "NXActionConnTrack" [hd, a, b, c, d, .bytes pad, f, .list acts]) = some (ty, ln, vd, sb))
    (h : NXActionConnTrack.marshalM (.obj "NXActionConnTrack" [hd, a, b, c, d, .bytes pad, f, .list acts]) = .ok (bs, v2))
    (hwf : ∀ ls acts1, mapM2 (Action.lenD Action.encDepth) acts = .ok (ls, acts1) → ∀ x ∈ acts1,
      ActionWFD (Action.encDepth - 1) x)
    (hlt : ∀ ls acts1, mapM2 (Action.lenD Action.encDepth) acts = .ok (ls, acts1) → 24 + (ls.map UInt16.toNat).sum < 65536) :
    ∃ bss, beAt bs 2 2 = bs.length ∧ walkBy declared22 (bss.length + 1) (bs.drop 24) = some bss ∧
      bs.length = 24 + bss.flatten.length ∧ bs.length % 8 = 0 := by
  obtain ⟨ls, acts1, bss, acts2, hm, hmm, hfit⟩ := nxConnTrack_embeds (Action.lenD Action.encDepth) (Action.marshalD Action.encDepth)
    (fun x l y bx z hx hy => C06b.action_sizeD _ y l y bx z (Action.lenD_idem _ x l y hx) hy) hd a b c d pad f acts hpad bs v2 h
  obtain ⟨_, hw⟩ := nxConnTrack_wire _ _ _ bs v2 _ _ _ _ hn h
  have hd' : ∀ bx ∈ bss, Declares bx := by
    intro bx hbx
    obtain ⟨x, hx, x', hbx'⟩ := mapM2_mem_bytes _ acts1 bss acts2 hmm bx hbx
    exact action_declaresD (Action.encDepth - 1) x (hwf ls acts1 hm x hx) bx x' hbx'
  -- the allocated size is 24 + Σ Len(), and each nested Len() is the nested encoding's size
  have hlens := mapM2_lengths _ _ acts ls acts1 bss acts2 hm hmm
    (fun x _ l y bx z hx hy => C06b.action_sizeD _ y l y bx z (Action.lenD_idem _ x l y hx) hy)
  have hflat : bss.flatten.length = (ls.map UInt16.toNat).sum := by rw [flatten_length_sum, hlens]
  have hbig : 24 + bss.flatten.length < 65536 := by rw [hflat]; exact hlt ls acts1 hm
  obtain ⟨e1, e2⟩ := hfit hbig
  have hfa := flatten_aligned bss (fun bx hbx => (hd' bx hbx).2.2)
  exact ⟨bss, (hw (by omega)).len_ok, by rw [e1]; exact walk_declared bss hd', e2, by omega⟩

/-! ### learn flow-mod specs (no length word: the size follows from the 16-bit spec header) -/

/-- NXLearnSpec with a header as the five NewLearnHeader… constructors build it (stored header size 2): the spec header
    word is at offset 0, and the spec occupies 2 + (immediate source: 2·⌈nBits/16⌉, field source: 6) + (output spec: 0,
    otherwise a 6-byte destination) bytes — the size an OVS receiver derives from that header word -/
theorem nxLearnSpec_wire (src dst out nb : Nat) (sf df sv : V) (bs : Bytes) (v2 : V)
    (h : NXLearnSpec.marshalM (.obj "NXLearnSpec" [.obj "NXLearnSpecHeader" [.num src, .num dst, .num out, .num nb, .num 2],
      sf, df, sv]) = .ok (bs, v2)) :
    bs.length = ((2 : UInt16) + (if src ≠ 0 then NXLearnSpec.srcLen nb else 6) + (if out = 0 then 6 else 0)).toNat ∧
    (2 ≤ bs.length → beAt bs 0 2 = (NXLearnSpecHeader.word src dst out nb).toNat) := by
  have hlen : NXLearnSpec.lenM (.obj "NXLearnSpec" [.obj "NXLearnSpecHeader" [.num src, .num dst, .num out, .num nb, .num 2],
      sf, df, sv]) = .ok ((if out = 0 then (if src ≠ 0 then n16 2 + NXLearnSpec.srcLen nb else n16 2 + 6) + 6
        else (if src ≠ 0 then n16 2 + NXLearnSpec.srcLen nb else n16 2 + 6)), _) := rfl
  have hsz := C06b.nxLearnSpec_size _ _ _ _ _ hlen h
  constructor
  · rw [hsz]
    have e2 : n16 2 = 2 := rfl
    rw [e2]
    by_cases hs : src ≠ 0 <;> by_cases ho : out = 0 <;> simp [hs, ho]
  · intro h2
    unfold NXLearnSpec.marshalM at h
    obtain ⟨l, _, g1⟩ := bind_ok_inv _ _ _ h
    simp only at g1
    split at g1
    · rename_i heq
      cases heq
      obtain ⟨hb, hhb, g2⟩ := bind_ok_inv _ _ _ g1
      have ehb : hb = be16 (NXLearnSpecHeader.word src dst out nb) := by
        simp only [NXLearnSpecHeader.bytes] at hhb
        have := fill_all _ _ _ (by intro p hp; simp at hp; subst hp; trivial) (by simp [piecesLen, Piece.adv]; decide) hhb
        rw [this]
        simp [piecesBytes, piecesLen, Piece.bytes, Piece.adv, zeros]
        rfl
      subst ehb
      obtain ⟨⟨sd, k⟩, _, g3⟩ := bind_ok_inv _ _ _ g2
      simp only at g3
      have key : ∀ (qs : List Piece) (out' : Bytes), fill l.toNat (pCopy (be16 (NXLearnSpecHeader.word src dst out nb)) :: qs) = .ok out' →
          2 ≤ out'.length → beAt out' 0 2 = (NXLearnSpecHeader.word src dst out nb).toNat := by
        intro qs out' hf hl2
        have hl := fill_length _ _ _ hf
        have hh := fill_head _ _ _ _ (by simp; omega) hf
        rw [hh]; exact beAt_be16 _ _
      split at g3
      · obtain ⟨⟨db, df'⟩, _, g4⟩ := bind_ok_inv _ _ _ g3
        obtain ⟨o, hf, g5⟩ := bind_ok_inv _ _ _ g4
        obtain ⟨e, _⟩ := same_ok _ _ _ _ g5
        subst e
        exact key _ _ hf h2
      · obtain ⟨o, hf, g5⟩ := bind_ok_inv _ _ _ g3
        obtain ⟨e, _⟩ := same_ok _ _ _ _ g5
        subst e
        exact key _ _ hf h2
    · exact absurd g1 (by simp)

/-- the five learn-header constructors store header size 2 -/
theorem nxLearnSpecHeader_new_shape (src dst out nb : Nat) : NXLearnSpecHeader.new src dst out nb =
    .obj "NXLearnSpecHeader" [.num src, .num dst, .num out, V.u16 (n16 nb), .num 2] := rfl

/-! ### the hypotheses of the walk theorems are satisfiable -/

/-- a FlowMod as NewFlowMod() + AddInstruction(goto-table 1) + AddInstruction(apply-actions [output 7]) builds it -/
def exampleFlowMod : V :=
  .obj "FlowMod" [.obj "Header" [.num 4, .num Gen.openflow13.Type_FlowMod, .num 8, .num 7],
    .num 0, .num 0, .num 0, .num Gen.openflow13.FC_ADD, .num 0, .num 0, .num 1000, .num 4294967295,
    .num Gen.openflow13.P_ANY, .num Gen.openflow13.OFPG_ANY, .num 0, .bytes [], Match.new,
    .list [InstrGotoTable.new 1,
      .obj "InstrActions" [.obj "InstrHeader" [.num Gen.openflow13.InstrType_APPLY_ACTIONS, .num 24], .bytes (zeros 4),
        .list [ActionOutput.new 7]]]]

/-- `flowMod_walk` applies to it: the encoder succeeds, and every receiver that follows the declared lengths finds the
    two instructions after header, fixed part and match, and ends at the last byte -/
example : (FlowMod.marshalM exampleFlowMod).isOk = true ∧
    ∀ bs v2, FlowMod.marshalM exampleFlowMod = .ok (bs, v2) → bs.length < 65536 →
      ∃ mb bss, (bs.length = 48 + mb ∨ (walkBy declared22 (bss.length + 1) (bs.drop (48 + mb)) = some bss ∧
        bs.length = 48 + mb + bss.flatten.length)) := by
  refine ⟨rfl, fun bs v2 h hlt => ?_⟩
  obtain ⟨m, mb, m', _, _, hcase⟩ := flowMod_walk exampleFlowMod bs v2 h hlt (by
    intro is ls is1 hf hm i hi
    have e : is = [InstrGotoTable.new 1,
      .obj "InstrActions" [.obj "InstrHeader" [.num Gen.openflow13.InstrType_APPLY_ACTIONS, .num 24], .bytes (zeros 4),
        .list [ActionOutput.new 7]]] := by
      simp only [exampleFlowMod, V.fields] at hf
      injection hf with hf'
      injection hf' with hf''
      exact hf''.symm
    subst e
    have hm' : mapM2 Instruction.lenM [InstrGotoTable.new 1,
      .obj "InstrActions" [.obj "InstrHeader" [.num Gen.openflow13.InstrType_APPLY_ACTIONS, .num 24], .bytes (zeros 4),
        .list [ActionOutput.new 7]]] = .ok ([8, 24], [InstrGotoTable.new 1,
      .obj "InstrActions" [.obj "InstrHeader" [.num Gen.openflow13.InstrType_APPLY_ACTIONS, .num 24], .bytes (zeros 4),
        .list [ActionOutput.new 7]]]) := rfl
    rw [hm'] at hm
    cases hm
    simp only [List.mem_cons, List.mem_nil_iff, or_false] at hi
    rcases hi with rfl | rfl
    · exact instrWF_gotoTable 1
    · exact Or.inr (Or.inr (Or.inl ⟨_, _, _, _, [16], [ActionOutput.new 7], rfl, rfl, by
        intro a ha
        simp only [List.mem_cons, List.mem_nil_iff, or_false] at ha
        subst ha
        exact actionWF_output 7⟩)))
  rcases hcase with e | ⟨bss, w, e⟩
  · exact ⟨mb.length, [], Or.inl e⟩
  · exact ⟨mb.length, bss, Or.inr ⟨w, e⟩⟩

/-- `nxConnTrack_walk` applies to a conntrack action holding an output action (as NewNXActionConnTrack().AddAction
    builds it) -/
example : ∀ bs v2, NXActionConnTrack.marshalM (.obj "NXActionConnTrack" [NXActionHeader.newL Gen.openflow13.NXAST_CT 40,
      .num 0, .num 0, .num 0, .num 255, .bytes [], .num 0, .list [ActionOutput.new 1]]) = .ok (bs, v2) →
    ∃ bss, beAt bs 2 2 = bs.length ∧ walkBy declared22 (bss.length + 1) (bs.drop 24) = some bss ∧ bs.length % 8 = 0 := by
  intro bs v2 h
  have hm : mapM2 (Action.lenD Action.encDepth) [ActionOutput.new 1] = .ok ([16], [ActionOutput.new 1]) := rfl
  obtain ⟨bss, a, w, _, al⟩ := nxConnTrack_walk _ _ _ _ _ [] _ [ActionOutput.new 1] (by decide) bs v2 _ _ _ _ rfl h
    (by intro ls acts1 hm'
        rw [hm] at hm'
        cases hm'
        intro x hx
        simp only [List.mem_cons, List.mem_nil_iff, or_false] at hx
        subst hx
        exact ⟨16, _, rfl, by decide, by decide, Or.inl ⟨by decide, _, rfl⟩⟩)
    (by intro ls acts1 hm'
        rw [hm] at hm'
        cases hm'
        decide)
  exact ⟨bss, a, w, al⟩

theorem actionWF_resubmit (ip : Nat) (v : V) (hn : NXActionResubmit.new ip = .ok v) : ActionWF v := by
  cases hn
  exact ⟨16, _, rfl, by decide, by decide, Or.inr (Or.inl ⟨by show "NXActionResubmit" ∈ nxStoredKinds; decide, by decide, _, _, _, rfl⟩)⟩

/-- `match_ok` applies to NewMatch() + AddField(in_port 7): the history is well-formed (C02.C02_match_history), the
    encoder succeeds, and the 12 + 4 bytes are type 1, length 12, the field, 4 zero bytes -/
example : ∃ m, [MatchField.mk Gen.openflow13.OXM_CLASS_OPENFLOW_BASIC Gen.openflow13.OXM_FIELD_IN_PORT false 4
      (.obj "InPortField" [.num 7]) .nil].foldlM (fun acc f => Match.addField acc f) Match.new = .ok m ∧
    C02.MatchWF m ∧ (Match.marshalM m).isOk = true ∧
    ∀ bs v2, Match.marshalM m = .ok (bs, v2) → bs.length ≠ 0 → beAt bs 0 2 = 1 := by
  refine ⟨_, rfl, ?_⟩
  have hw := C02.C02_match_history [MatchField.mk Gen.openflow13.OXM_CLASS_OPENFLOW_BASIC Gen.openflow13.OXM_FIELD_IN_PORT
    false 4 (.obj "InPortField" [.num 7]) .nil] _ rfl
  refine ⟨hw, rfl, fun bs v2 h hne => ?_⟩
  obtain ⟨_, _, _, _, _, a, _⟩ := match_ok _ hw bs v2 h hne
  exact a

/-- `bucket_walk` applies to NewBucket() + AddAction(output 7) + AddAction(group 3) -/
example : ∀ bs v2, Bucket.marshalM (.obj "Bucket" [.num 16, .num 0, .num Gen.openflow13.P_ANY, .num Gen.openflow13.OFPG_ANY,
      .bytes (zeros 4), .list [ActionOutput.new 7, ActionGroup.new 3]]) = .ok (bs, v2) → bs.length ≤ 65528 →
    ∃ bss, beAt bs 0 2 = bs.length ∧ walkBy declared22 (bss.length + 1) (bs.drop 16) = some bss ∧ bss.length = 2 := by
  intro bs v2 h hlt
  have hm : mapM2 Action.lenM [ActionOutput.new 7, ActionGroup.new 3] = .ok ([16, 8], [ActionOutput.new 7, ActionGroup.new 3]) := rfl
  obtain ⟨bss, as2, hmm, a, w, _, _⟩ := bucket_walk _ _ _ _ rfl hm (by
    intro x hx
    simp only [List.mem_cons, List.mem_nil_iff, or_false] at hx
    rcases hx with rfl | rfl
    · exact actionWF_output 7
    · exact actionWF_group 3) bs v2 h hlt
  exact ⟨bss, a, w, (mapM2_length _ _ _ _ hmm).1⟩

end OFV.Props.C02b
