/-
  C10 — inbound stream: one intact message per complete frame, however the bytes arrive.
  F1: de-framing (all inputs × all chunkings).  F2: buffer pool + goroutines as a transition system (all schedules).
-/
import OFV.Model.Stream.Deframer
import OFV.Model.Stream.StreamSys
namespace OFV.Props.C10
open OFV OFV.Model.Deframer

/-! ## F1 — de-framing -/

/-- any partition of the byte stream into reads (also inside the 4-byte prefix) gives the same result -/
theorem C10_chunks (s : St) (cs : List Bytes) : feedAll s cs = feedBytes s cs.flatten := by
  induction cs generalizing s with
  | nil => rfl
  | cons c cs ih => simp [feedAll, feedBytes, List.foldl_append] at *; exact ih _

/-- mid-frame invariant: `p` is the consumed prefix of frame `f` -/
structure Mid (s : St) (f p : Bytes) (out : List Bytes) : Prop where
  hdr : s.hdr = min p.length 4
  buf : s.buf = p
  out : s.out = out
  h2 : 3 ≤ p.length → s.h2 = f[2]?.getD 0
  h3 : 4 ≤ p.length → s.h3 = f[3]?.getD 0
  msg : 4 ≤ p.length → s.msg = (f.length : Int) - p.length

theorem step_mid (s : St) (f p : Bytes) (c : UInt8) (q : Bytes) (out : List Bytes)
    (hf : WFFrame f) (hpq : f = p ++ c :: q) (h : Mid s f p out) (hq : q ≠ []) :
    Mid (stepByte s c) f (p ++ [c]) out := by
  have hlen : f.length = p.length + 1 + q.length := by rw [hpq]; simp; omega
  have hqpos : 0 < q.length := List.length_pos_iff.mpr hq
  have hc : f[p.length]?.getD 0 = c := by rw [hpq]; simp
  unfold stepByte
  by_cases h4 : p.length < 4
  · have hh : s.hdr < 4 := by rw [h.hdr]; omega
    simp only [hh, if_true]
    have hs : s.hdr = p.length := by rw [h.hdr]; omega
    constructor
    · simp [hs]; omega
    · simp [h.buf]
    · simp [h.out]
    · intro h3; simp at h3
      by_cases e : p.length = 2
      · simp [hs, e]; rw [← hc, e]
      · have : 3 ≤ p.length := by omega
        simp [hs, e]; exact h.h2 this
    · intro h3; simp at h3
      have e : p.length = 3 := by omega
      simp [hs, e]; rw [← hc, e]
    · intro h3; simp at h3
      have e : p.length = 3 := by omega
      have e2 := h.h2 (by omega)
      simp [hs, e, e2]
      have : declLen f = f.length := hf.2
      unfold declLen at this
      rw [← hc, e]; omega
  · have hh : ¬ s.hdr < 4 := by rw [h.hdr]; omega
    have hm := h.msg (by omega)
    have hpos : s.msg > 0 := by rw [hm]; omega
    have hne : ¬ (s.msg - 1 = 0) := by rw [hm]; omega
    simp only [hh, if_false, hpos, if_true, hne]
    constructor
    · simp [h.hdr]; omega
    · simp [h.buf]
    · simp [h.out]
    · intro _; exact h.h2 (by omega)
    · intro _; exact h.h3 (by omega)
    · intro _; simp [hm]; omega

/-- a "clean" state: between frames -/
def Clean (s : St) (out : List Bytes) : Prop := s.hdr = 0 ∧ s.buf = [] ∧ s.out = out

theorem step_last (s : St) (f p : Bytes) (c : UInt8) (out : List Bytes)
    (hf : WFFrame f) (hpq : f = p ++ [c]) (h : Mid s f p out) :
    Clean (stepByte s c) (out ++ [f]) := by
  have hlen : f.length = p.length + 1 := by rw [hpq]; simp
  have h8 := hf.1
  have hh : ¬ s.hdr < 4 := by rw [h.hdr]; omega
  have hm := h.msg (by omega)
  have hpos : s.msg > 0 := by rw [hm]; omega
  have he : s.msg - 1 = 0 := by rw [hm]; omega
  unfold stepByte
  simp only [hh, if_false, hpos, if_true, he]
  exact ⟨rfl, rfl, by simp [h.buf, h.out, hpq]⟩

theorem clean_mid (s : St) (f : Bytes) (out : List Bytes) (h : Clean s out) : Mid s f [] out :=
  ⟨by simp [h.1], h.2.1, h.2.2, by simp, by simp, by simp⟩

/-- feeding the rest `q` of a frame from a mid-frame state completes it -/
theorem feed_rest (f : Bytes) (hf : WFFrame f) (out : List Bytes) :
    ∀ (q p : Bytes) (s : St), f = p ++ q → q ≠ [] → Mid s f p out → Clean (feedBytes s q) (out ++ [f]) := by
  intro q
  induction q with
  | nil => intro p s _ hq; exact absurd rfl hq
  | cons c q ih =>
    intro p s hpq _ hm
    by_cases hq : q = []
    · subst hq
      simp only [feedBytes, List.foldl_cons, List.foldl_nil]
      exact step_last s f p c out hf hpq hm
    · have hm' := step_mid s f p c q out hf hpq hm hq
      have : f = (p ++ [c]) ++ q := by rw [hpq]; simp
      have := ih (p ++ [c]) (stepByte s c) this hq hm'
      simpa [feedBytes] using this

/-- feeding a proper prefix of a frame keeps it pending: nothing is emitted, the buffer holds exactly the prefix -/
theorem feed_prefix (f : Bytes) (hf : WFFrame f) (out : List Bytes) :
    ∀ (p' p q : Bytes) (s : St), f = p ++ p' ++ q → q ≠ [] → Mid s f p out → Mid (feedBytes s p') f (p ++ p') out := by
  intro p'
  induction p' with
  | nil => intro p q s _ _ hm; simpa [feedBytes] using hm
  | cons c p' ih =>
    intro p q s hpq hq hm
    have h1 : f = p ++ c :: (p' ++ q) := by rw [hpq]; simp
    have hne : p' ++ q ≠ [] := by
      intro h; exact hq (List.append_eq_nil_iff.mp h).2
    have hm' := step_mid s f p c (p' ++ q) out hf h1 hm hne
    have h2 : f = (p ++ [c]) ++ p' ++ q := by rw [hpq]; simp
    have := ih (p ++ [c]) q (stepByte s c) h2 hq hm'
    simpa [feedBytes, List.append_assoc] using this

theorem feed_frame (f : Bytes) (hf : WFFrame f) (s : St) (out : List Bytes) (h : Clean s out) :
    Clean (feedBytes s f) (out ++ [f]) := by
  have hne : f ≠ [] := by
    intro h0; have := hf.1; rw [h0] at this; simp at this
  exact feed_rest f hf out f [] s (by simp) hne (clean_mid s f out h)

theorem feed_frames (fs : List Bytes) (h : ∀ f ∈ fs, WFFrame f) (s : St) (out : List Bytes) (hc : Clean s out) :
    Clean (feedBytes s fs.flatten) (out ++ fs) := by
  induction fs generalizing s out with
  | nil => simpa [feedBytes] using hc
  | cons f fs ih =>
    have h1 := feed_frame f (h f (by simp)) s out hc
    have := ih (fun g hg => h g (by simp [hg])) (feedBytes s f) (out ++ [f]) h1
    simpa [feedBytes, List.foldl_append, List.append_assoc] using this

/-- C10/F1: well-formed frames followed by a proper prefix `p` of a well-formed frame, delivered in ANY chunking:
    exactly the complete frames are handed over, each intact and once, in order; the incomplete one is not handed
    over (its bytes wait in the current buffer). -/
theorem C10_frames (fs : List Bytes) (h : ∀ f ∈ fs, WFFrame f) (p q g : Bytes) (hg : WFFrame g) (hpq : g = p ++ q)
    (hq : q ≠ []) (cs : List Bytes) (hcs : cs.flatten = fs.flatten ++ p) :
    (feedAll init cs).out = fs ∧ (feedAll init cs).buf = p := by
  rw [C10_chunks, hcs]
  have h1 := feed_frames fs h init [] ⟨rfl, rfl, rfl⟩
  simp only [List.nil_append] at h1
  have h2 := feed_prefix g hg fs p [] q (feedBytes init fs.flatten) (by simpa using hpq) hq
    (clean_mid _ g fs h1)
  simp only [List.nil_append] at h2
  have : feedBytes init (fs.flatten ++ p) = feedBytes (feedBytes init fs.flatten) p := by
    simp [feedBytes, List.foldl_append]
  rw [this]
  exact ⟨h2.out, h2.buf⟩

/-- the same with nothing pending -/
theorem C10_frames_exact (fs : List Bytes) (h : ∀ f ∈ fs, WFFrame f) (cs : List Bytes) (hcs : cs.flatten = fs.flatten) :
    (feedAll init cs).out = fs ∧ (feedAll init cs).buf = [] := by
  rw [C10_chunks, hcs]
  have h1 := feed_frames fs h init [] ⟨rfl, rfl, rfl⟩
  simp only [List.nil_append] at h1
  exact ⟨h1.2.2, h1.2.1⟩

-- non-vacuity: two frames split inside the length prefix and across the frame boundary, third frame incomplete
example : (feedAll init [[4,0,0],[8,1,2,3],[4,4,0,0,9,1],[2,3,4,5,6,4],[0,0,8]]).out =
    [[4,0,0,8,1,2,3,4], [4,0,0,9,1,2,3,4,5]] := by decide

end OFV.Props.C10

namespace OFV.Props.C10
open OFV.Model.StreamSys

/-! ## F2 — buffer pool and goroutines, every schedule -/

theorem count_set {β} [BEq β] [LawfulBEq β] (a : β) :
    ∀ (L : List (List β)) (i : Nat) (hi : i < L.length) (y : List β),
    (L.set i y).flatten.count a + (L[i]).count a = L.flatten.count a + y.count a
  | [], i, hi, y => by simp at hi
  | z :: zs, 0, _, y => by simp [List.count_append]; omega
  | z :: zs, i+1, hi, y => by
      have := count_set a zs i (by simpa using hi) y
      simp [List.count_append] at *; omega

theorem count_pars (s : St) (a : Frame) (i : Nat) (hi : i < s.pars.length) (x : PSt) :
    ((s.pars.set i x).map PSt.frames).flatten.count a + (PSt.frames s.pars[i]).count a
      = (s.pars.map PSt.frames).flatten.count a + (PSt.frames x).count a := by
  have := count_set a (s.pars.map PSt.frames) i (by simpa using hi) (PSt.frames x)
  rw [List.map_set]
  simpa [List.getElem_map] using this

theorem count_parbufs (s : St) (a : BufId) (i : Nat) (hi : i < s.pars.length) (x : PSt) :
    ((s.pars.set i x).map PSt.bufs).flatten.count a + (PSt.bufs s.pars[i]).count a
      = (s.pars.map PSt.bufs).flatten.count a + (PSt.bufs x).count a := by
  have := count_set a (s.pars.map PSt.bufs) i (by simpa using hi) (PSt.bufs x)
  rw [List.map_set]
  simpa [List.getElem_map] using this

/-- frames are conserved by every transition: none duplicated, none lost, wherever they are -/
theorem step_frames (cap n : Nat) (s s' : St) (h : Step cap n s s') (a : Frame) :
    s'.frames.count a = s.frames.count a := by
  cases h with
  | complete b f t hr ht hf => simp [St.frames, hr, ht, RSt.frames, List.count_append, List.count_cons]
  | sendFull b f hr hl => simp [St.frames, hr, RSt.frames, List.count_append, List.count_cons]
  | takeBuf b e hr he => simp [St.frames, hr, RSt.frames, List.count_append]
  | readError b hr he => simp [St.frames, hr, RSt.frames, List.count_append]
  | parTake i b f r hi hp hf =>
      have h1 := count_pars s a i hi (.holding b f)
      rw [hp] at h1
      simp only [St.frames, hf, List.count_append, List.map_cons, List.count_cons, PSt.frames,
        List.count_nil] at *
      omega
  | parSend i b f hi hp hn =>
      have h1 := count_pars s a i hi (.delivered b)
      rw [hp] at h1
      simp only [St.frames, hn, List.count_append, Option.toList, List.count_cons, PSt.frames,
        List.count_nil] at *
      omega
  | parRelease i b hi hp =>
      have h1 := count_pars s a i hi .idle
      rw [hp] at h1
      simp only [St.frames, List.count_append, PSt.frames, List.count_nil] at *
      omega
  | parShutdown i k hi hp hk =>
      have h1 := count_pars s a i hi .gone
      rw [hp] at h1
      simp only [St.frames, List.count_append, PSt.frames, List.count_nil] at *
      omega
  | consume f hn => simp [St.frames, hn, List.count_append, List.count_cons]

/-- buffers are conserved by every transition: a buffer is never in two hands and never disappears -/
theorem step_bufs (cap n : Nat) (s s' : St) (h : Step cap n s s') (a : BufId) :
    s'.bufs.count a = s.bufs.count a := by
  cases h with
  | complete b f t hr ht hf => simp [St.bufs, hr, RSt.bufs, List.count_append]
  | sendFull b f hr hl => simp [St.bufs, hr, RSt.bufs, List.count_append, List.count_cons]; omega
  | takeBuf b e hr he => simp [St.bufs, hr, he, RSt.bufs, List.count_append, List.count_cons]; omega
  | readError b hr he => simp [St.bufs, hr, RSt.bufs, List.count_append]
  | parTake i b f r hi hp hf =>
      have h1 := count_parbufs s a i hi (.holding b f)
      rw [hp] at h1
      simp only [St.bufs, hf, List.count_append, List.map_cons, List.count_cons, PSt.bufs,
        List.count_nil] at *
      omega
  | parSend i b f hi hp hn =>
      have h1 := count_parbufs s a i hi (.delivered b)
      rw [hp] at h1
      simp only [St.bufs, List.count_append, PSt.bufs, List.count_cons, List.count_nil] at *
      omega
  | parRelease i b hi hp =>
      have h1 := count_parbufs s a i hi .idle
      rw [hp] at h1
      simp only [St.bufs, List.count_append, PSt.bufs, List.count_cons, List.count_nil] at *
      omega
  | parShutdown i k hi hp hk =>
      have h1 := count_parbufs s a i hi .gone
      rw [hp] at h1
      simp only [St.bufs, List.count_append, PSt.bufs, List.count_nil] at *
      omega
  | consume f hn => simp [St.bufs, List.count_append]

/-- the error is published at most once, and only together with the failure -/
theorem step_errors (cap n : Nat) (s s' : St) (h : Step cap n s s') (he : s.errors ≤ 1) : s'.errors ≤ 1 := by
  cases h <;> simp_all

/-- C10/F2: in EVERY reachable state of EVERY schedule, for any number of buffers and parsers:
    frames are conserved (each frame of the script is, counted with multiplicity, in exactly one place: delivered,
    in the Inbound channel, with a parser, in pool.Full, with the reader, or not yet received), buffers are conserved
    (nobody shares a buffer), and at most one error was published. -/
theorem C10_inv (cap nPar : Nat) (s0 s : St) (h : Reach cap nPar s0 s) (he : s0.errors ≤ 1) :
    (∀ a, s.frames.count a = s0.frames.count a) ∧ (∀ b, s.bufs.count b = s0.bufs.count b) ∧ s.errors ≤ 1 := by
  induction h with
  | refl => exact ⟨fun _ => rfl, fun _ => rfl, he⟩
  | step s s' _ hs ih =>
    exact ⟨fun a => (step_frames cap nPar s s' hs a).trans (ih.1 a),
           fun b => (step_bufs cap nPar s s' hs b).trans (ih.2.1 b),
           step_errors cap nPar s s' hs ih.2.2⟩

theorem flatten_replicate_nil {α} (n : Nat) : (List.replicate n ([] : List α)).flatten = [] := by
  induction n with
  | zero => rfl
  | succ n ih => simp [List.replicate_succ, ih]

theorem init_frames (nBuf nPar : Nat) (script : List Frame) (a : Frame) :
    (initSt nBuf nPar script).frames.count a = script.count a := by
  unfold initSt St.frames
  split <;> simp [RSt.frames, PSt.frames, flatten_replicate_nil]

theorem count_le_of_sub {α} [BEq α] [LawfulBEq α] (a : α) (xs ys : List α) : xs.count a ≤ (xs ++ ys).count a := by
  simp [List.count_append]

/-- corollary: what the consumer received is, as a multiset, part of the script — nothing duplicated, merged or
    invented — in every reachable state (also after a failure) -/
theorem C10_delivered_sub (cap nPar nBuf : Nat) (script : List Frame) (s : St)
    (h : Reach cap nPar (initSt nBuf nPar script) s) (a : Frame) : s.out.count a ≤ script.count a := by
  have hinv := (C10_inv cap nPar _ s h (by simp [initSt])).1 a
  have h0 := init_frames nBuf nPar script a
  rw [h0] at hinv
  rw [← hinv]
  unfold St.frames
  simp only [List.append_assoc]
  exact count_le_of_sub a _ _

/-- corollary: in a quiescent state of a failure-free run (nothing in flight, nothing left to receive) every frame of
    the script was delivered exactly once -/
theorem C10_exactly_once (cap nPar nBuf : Nat) (script : List Frame) (s : St)
    (h : Reach cap nPar (initSt nBuf nPar script) s)
    (hq : s.inbound = none ∧ s.full = [] ∧ s.todo = [] ∧ s.rdr.frames = [] ∧ (s.pars.map PSt.frames).flatten = [])
    (a : Frame) : s.out.count a = script.count a := by
  have hinv := (C10_inv cap nPar _ s h (by simp [initSt])).1 a
  have h0 := init_frames nBuf nPar script a
  rw [h0] at hinv
  rw [← hinv]
  unfold St.frames
  simp [hq.1, hq.2.1, hq.2.2.1, hq.2.2.2.1, hq.2.2.2.2]

/-- buffers of the initial state are pairwise distinct, hence in every reachable state no buffer is held twice -/
theorem C10_owned (cap nPar nBuf : Nat) (script : List Frame) (s : St)
    (h : Reach cap nPar (initSt nBuf nPar script) s) (b : BufId) : s.bufs.count b ≤ 1 := by
  have hinv := (C10_inv cap nPar _ s h (by simp [initSt])).2.1 b
  rw [hinv]
  have hnd : (List.range nBuf).Nodup := List.nodup_range
  unfold initSt St.bufs
  split
  · next h0 => subst h0; simp [RSt.bufs, PSt.bufs, flatten_replicate_nil]
  · next h0 =>
    simp only [RSt.bufs, PSt.bufs, List.map_nil, List.append_nil, List.map_replicate, flatten_replicate_nil]
    cases nBuf with
    | zero => exact absurd rfl h0
    | succ n =>
      have hr : List.range (n + 1) = 0 :: (List.range (n + 1)).tail := by
        rw [List.range_succ_eq_map]; rfl
      have : ((List.range (n + 1)).tail ++ [0]).count b = (List.range (n + 1)).count b := by
        conv => rhs; rw [hr]
        simp [List.count_append, List.count_cons]
      rw [this]
      exact List.nodup_iff_count.mp hnd b

end OFV.Props.C10
