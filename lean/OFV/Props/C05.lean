/-
  C05 — decoding an encoding gives back the same value (library round trip).

  For a value `v` of a kind the library can both encode and decode the statement proved is `RoundTrip enc dec v v' bs`:
    * `enc v = ok (bs, v)`                       the value encodes (and the encoder leaves it unchanged),
    * `dec data = ok v'` for EVERY well-formed slice `data` whose visible bytes are `bs ++ tail` — `tail` arbitrary: the
      element is followed by other elements (and the slice may have spare capacity behind them),
    * `enc v' = ok (bs, v')`                     encoding the result reproduces the original bytes.
  `v' = v` except where an UNEXPORTED pad slice (nil or zero bytes in every value the library builds) comes back nil;
  then `v'` is `v` with that pad nil — every exported field is the same.  Decoders are the library's dispatchers
  (`MatchPayload.unmarshal` on the receiver `DecodeMatchField` allocates, `MatchField.unmarshal` which calls
  `DecodeMatchField`, `DecodeAction`, `DecodeInstr`, `parse`).  Messages whose encoder stores the size in Header.Length
  (FlowMod, SwitchConfig, Hello) are stated as: any stored Length `ln0` ↦ (bytes, value with the computed Length), Parse of
  the bytes ↦ that value — whose encoding is the same bytes again (instance `ln0` = computed Length).
  The proofs are in OFV/Lemmas/RT*.lean (well-formedness predicates `PayloadWF`, `RecvOK`, `MatchFieldWF`, `MatchWF`,
  `ActionRT/ActionsRT`, `InstrRT/InstrsRT` are defined there); this file states the property theorems.

  What is proved (all for arbitrary field values inside the stated ranges):
    §1 Header                                   header_roundtrip
    §2 the 30 match payload kinds, uniformly     payload_roundtrip (+ payload_dispatch: the dispatcher runs the kind's decoder)
    §3 MatchField (value, optional mask)         matchField_roundtrip — classes OPENFLOW_BASIC, NXM_1, EXPERIMENTER (all three);
                                                 matchField_registry_covered: instances exist for all 36 + 55 + 2 decodable fields
       Match (field list + padding)              match_roundtrip                  — every field decoded from inside the list
    §4 actions through DecodeAction              actionOutput/Group/Setqueue/Push/PopVlan/PopMpls/DecNwTtl/HeaderOnly/MplsTtl/NwTtl/SetField,
                                                 Nicira: nxConjunction / nxResubmit / nxResubmitTable (2 subtypes) / nxDecTTL
       instructions through DecodeInstr          instrGotoTable / instrWriteMetadata / instrMeter / instrActions (any list of actions)
    §5 messages through Parse                    parse_header_only (6 header-only types); switchConfig_roundtrip (2 types);
                                                 flowMod_roundtrip (Match + instructions + actions nested); flowRemoved_roundtrip;
                                                 helloElem_roundtrip, hello_roundtrip (any number of elements, any number of bitmaps each),
                                                 hello_default_roundtrip;
                                                 errorMsg_roundtrip; portStatus_roundtrip (+ phyPort_roundtrip); bundleProp_roundtrip (element);
                                                 switchFeatures_roundtrip_noports / _partial (ports discarded); packetIn_roundtrip (opaque Ethernet frame)

  Where the round trip is FALSE in the model (= the Go code violates C05), the concrete counterexample is proved:
    switchFeatures_roundtrip_partial         (after the DPID fix) SwitchFeatures.UnmarshalBinary walks over the ports and discards
                                             them: a features reply with ports comes back with Ports = [] (known: D-list "ports")
  Fixed since the first version of this file, the counterexamples replaced by positive theorems: experimenter-class OXM
  (D14: matchField_roundtrip now covers it), NXActionResubmit.TableID (nxResubmit_roundtrip), hello bitmap decoder reading
  to the end of the buffer (D20: helloElem_roundtrip, hello_roundtrip, hello_two_elements_roundtrip), SwitchFeatures DPID never
  written (switchFeatures_roundtrip_noports, switchFeatures_example); ActionMplsTtl / ActionNwTtl / InstrMeter without codecs of
  their own (D42: actionMplsTtl_roundtrip, actionNwTtl_roundtrip, actionTtl_new_roundtrip, instrMeter_roundtrip,
  instrMeter_new_roundtrip); header-only actions decoded as 4 bytes (actionHeaderOnly_roundtrip: 8 bytes); hello elements not
  padded to 8 (hello_roundtrip without `PadOK`, hello_padded_elements_roundtrip).
  Representation change (not a defect): ipv4_short_form — a 4-byte net.IP comes back in the 16-byte form of the same address.
-/
import OFV.Model.All
import OFV.Lemmas.RTBasic
import OFV.Lemmas.RTPayload
import OFV.Lemmas.RTMatch
import OFV.Lemmas.RTAction
import OFV.Lemmas.RTInstr
import OFV.Lemmas.RTList
import OFV.Lemmas.RTMsg
import OFV.Lemmas.RTFlowMod
import OFV.Lemmas.RTNx
import OFV.Lemmas.RTSwitchConfig
import OFV.Lemmas.RTHello
import OFV.Lemmas.RTRegistry
import OFV.Lemmas.RTFlowRemoved
import OFV.Lemmas.RTMsgMore
import OFV.Lemmas.RTSwitchFeatures
import OFV.Lemmas.RTPacketIn
namespace OFV.Props.C05
open OFV OFV.Go OFV.Model OFV.RT

/-- `v` encodes to `bs`; decoding `bs` followed by anything yields `v'`; `v'` encodes to `bs` again. -/
def RoundTrip (enc : V → R (Bytes × V)) (dec : Slice → R V) (v v' : V) (bs : Bytes) : Prop :=
  enc v = .ok (bs, v) ∧ enc v' = .ok (bs, v') ∧
  ∀ (data : Slice) (tail : Bytes), data.WF → data.bytes = bs ++ tail → dec data = .ok v'

/-! ## §1 Header -/

/-- Header: Version/Type below 2^8, Length below 2^16, Xid below 2^32.  `Header.MarshalBinary` writes the four fields as
    they are (it does not recompute Length); decoding the 8 bytes followed by anything, into any receiver, gives the same
    four field values back. -/
theorem header_roundtrip (ver ty ln xid : Nat) (hv : ver < 256) (ht : ty < 256) (hl : ln < 65536)
    (hx : xid < 4294967296) (recv : V) :
    let h := V.obj "Header" [.num ver, .num ty, .num ln, .num xid]
    let bs := [n8 ver, n8 ty] ++ be16 (n16 ln) ++ be32 (n32 xid)
    bs.length = 8 ∧ RoundTrip Header.marshalM (Header.unmarshal recv) h h bs := by
  intro h bs
  obtain ⟨h1, h2, h3⟩ := RT.header_roundtrip ver ty ln xid hv ht hl hx
  exact ⟨h2, h1, h1, fun data tail hd hb => h3 recv data tail hd hb⟩

example : ∃ bs, RoundTrip Header.marshalM (Header.unmarshal Header.zero)
    (.obj "Header" [.num 4, .num 14, .num 80, .num 305419896]) (.obj "Header" [.num 4, .num 14, .num 80, .num 305419896]) bs :=
  ⟨_, (header_roundtrip 4 14 80 305419896 (by decide) (by decide) (by decide) (by decide) Header.zero).2⟩

/-! ## §2 match payload kinds -/

/-- All 30 payload kinds at once.  `PayloadWF v` (OFV/Lemmas/RTPayload.lean): a number below 2^(8·width) for the numeric
    kinds, a byte string of exactly the field's length for EthDst/EthSrc/ArpXHa (6), Ipv6Src/Ipv6Dst/CTLabel (16),
    ByteArrayField (Length < 256 bytes of data), a 16-byte IPv4-in-IPv6 net.IP for the IPv4 kinds.
    `RecvOK v recv`: the receiver is of v's kind (for ByteArrayField it carries the Length to read, as the receiver
    DecodeMatchField prepares does; for ArpXHaField it is an allocated one).
    Then: v encodes unchanged, Len() is the size of the encoding, and the kind's decoder run on the encoding followed by
    anything returns v. -/
theorem payload_roundtrip (v recv : V) (hwf : PayloadWF v) (hr : RecvOK v recv) :
    ∃ bs, RoundTrip MatchPayload.marshalM (MatchPayload.unmarshal recv) v v bs ∧
      ∃ l, MatchPayload.lenM v = .ok (l, v) ∧ l.toNat = bs.length := by
  obtain ⟨bs, he⟩ := payload_encode v hwf
  obtain ⟨l, hl, hl2, _⟩ := payload_len v hwf bs v he
  exact ⟨bs, ⟨he, he, fun data tail hd hb => payload_decode v recv hwf hr bs v he data hd tail hb⟩, l, hl, hl2⟩

/-- the interface dispatch used above runs each kind's own UnmarshalBinary on `new(T)` -/
theorem payload_dispatch (d : Slice) :
    MatchPayload.unmarshal InPortField.zero d = InPortField.unmarshal InPortField.zero d ∧
    MatchPayload.unmarshal EthDstField.zero d = EthDstField.unmarshal EthDstField.zero d ∧
    MatchPayload.unmarshal EthSrcField.zero d = EthSrcField.unmarshal EthSrcField.zero d ∧
    MatchPayload.unmarshal EthTypeField.zero d = EthTypeField.unmarshal EthTypeField.zero d ∧
    MatchPayload.unmarshal VlanIdField.zero d = VlanIdField.unmarshal VlanIdField.zero d ∧
    MatchPayload.unmarshal MplsLabelField.zero d = MplsLabelField.unmarshal MplsLabelField.zero d ∧
    MatchPayload.unmarshal MplsBosField.zero d = MplsBosField.unmarshal MplsBosField.zero d ∧
    MatchPayload.unmarshal Ipv4SrcField.zero d = Ipv4SrcField.unmarshal Ipv4SrcField.zero d ∧
    MatchPayload.unmarshal Ipv4DstField.zero d = Ipv4DstField.unmarshal Ipv4DstField.zero d ∧
    MatchPayload.unmarshal Ipv6SrcField.zero d = Ipv6SrcField.unmarshal Ipv6SrcField.zero d ∧
    MatchPayload.unmarshal Ipv6DstField.zero d = Ipv6DstField.unmarshal Ipv6DstField.zero d ∧
    MatchPayload.unmarshal IPv6FlowLabelField.zero d = IPv6FlowLabelField.unmarshal IPv6FlowLabelField.zero d ∧
    MatchPayload.unmarshal IpProtoField.zero d = IpProtoField.unmarshal IpProtoField.zero d ∧
    MatchPayload.unmarshal IpDscpField.zero d = IpDscpField.unmarshal IpDscpField.zero d ∧
    MatchPayload.unmarshal TunnelIdField.zero d = TunnelIdField.unmarshal TunnelIdField.zero d ∧
    MatchPayload.unmarshal MetadataField.zero d = MetadataField.unmarshal MetadataField.zero d ∧
    MatchPayload.unmarshal PortField.zero d = PortField.unmarshal PortField.zero d ∧
    MatchPayload.unmarshal TcpFlagsField.zero d = TcpFlagsField.unmarshal TcpFlagsField.zero d ∧
    MatchPayload.unmarshal ArpOperField.zero d = ArpOperField.unmarshal ArpOperField.zero d ∧
    MatchPayload.unmarshal TunnelIpv4SrcField.zero d = TunnelIpv4SrcField.unmarshal TunnelIpv4SrcField.zero d ∧
    MatchPayload.unmarshal TunnelIpv4DstField.zero d = TunnelIpv4DstField.unmarshal TunnelIpv4DstField.zero d ∧
    MatchPayload.unmarshal ArpXHaField.zero d = ArpXHaField.unmarshal ArpXHaField.zero d ∧
    MatchPayload.unmarshal ArpXPaField.zero d = ArpXPaField.unmarshal ArpXPaField.zero d ∧
    MatchPayload.unmarshal ActsetOutputField.zero d = ActsetOutputField.unmarshal ActsetOutputField.zero d ∧
    MatchPayload.unmarshal IcmpTypeField.zero d = IcmpTypeField.unmarshal IcmpTypeField.zero d ∧
    MatchPayload.unmarshal IcmpCodeField.zero d = IcmpCodeField.unmarshal IcmpCodeField.zero d ∧
    MatchPayload.unmarshal Uint16Message.zero d = Uint16Message.unmarshal Uint16Message.zero d ∧
    MatchPayload.unmarshal Uint32Message.zero d = Uint32Message.unmarshal Uint32Message.zero d ∧
    MatchPayload.unmarshal CTLabel.zero d = CTLabel.unmarshal CTLabel.zero d ∧
    ∀ l, MatchPayload.unmarshal (.obj "ByteArrayField" [.bytes [], .num l]) d
        = ByteArrayField.unmarshal (.obj "ByteArrayField" [.bytes [], .num l]) d :=
  ⟨rfl, rfl, rfl, rfl, rfl, rfl, rfl, rfl, rfl, rfl, rfl, rfl, rfl, rfl, rfl, rfl, rfl, rfl, rfl, rfl, rfl, rfl, rfl, rfl,
   rfl, rfl, rfl, rfl, rfl, fun _ => rfl⟩

/-- the hypotheses are satisfiable: a numeric kind, a hardware address, an IPv4 address, a byte array -/
example : PayloadWF (.obj "MetadataField" [.num 1311768467463790320]) ∧
    RecvOK (.obj "MetadataField" [.num 1311768467463790320]) MetadataField.zero :=
  ⟨⟨_, rfl, by decide⟩, rfl, by simp [V.kind], by simp [V.kind]⟩
example : PayloadWF (.obj "EthDstField" [.bytes [1, 2, 3, 4, 5, 6]]) ∧
    RecvOK (.obj "EthDstField" [.bytes [1, 2, 3, 4, 5, 6]]) EthDstField.zero :=
  ⟨⟨_, rfl, rfl⟩, rfl, by simp [V.kind], by simp [V.kind]⟩
example : PayloadWF (.obj "Ipv4SrcField" [.bytes (ipv4 10 0 0 1)]) ∧
    RecvOK (.obj "Ipv4SrcField" [.bytes (ipv4 10 0 0 1)]) Ipv4SrcField.zero :=
  ⟨⟨_, rfl, rfl, rfl⟩, rfl, by simp [V.kind], by simp [V.kind]⟩
example : PayloadWF (.obj "ByteArrayField" [.bytes [9, 8, 7, 6], .num 4]) ∧
    RecvOK (.obj "ByteArrayField" [.bytes [9, 8, 7, 6], .num 4]) (byteArrayRecv 4 false) :=
  ⟨⟨_, _, rfl, by decide, rfl⟩, rfl, fun _ => ⟨_, _, _, rfl, rfl⟩, by simp [V.kind]⟩

/-- Representation change of the IPv4 kinds (Ipv4Src/Dst, TunnelIpv4Src/Dst, ArpXPa share this code): a net.IP held in its
    4-byte form encodes to the same 4 bytes as the 16-byte form, and the decoder (`net.IPv4(…)`) always returns the
    16-byte form — the same address (`net.IP.Equal`), a different byte slice; re-encoding reproduces the bytes. -/
theorem ipv4_short_form (a b c d : UInt8) (data : Slice) (tail : Bytes) (hb : data.bytes = [a, b, c, d] ++ tail) :
    MatchPayload.marshalM (.obj "Ipv4SrcField" [.bytes [a, b, c, d]])
      = .ok ([a, b, c, d], .obj "Ipv4SrcField" [.bytes [a, b, c, d]]) ∧
    MatchPayload.unmarshal Ipv4SrcField.zero data = .ok (.obj "Ipv4SrcField" [.bytes (ipv4 a b c d)]) ∧
    MatchPayload.marshalM (.obj "Ipv4SrcField" [.bytes (ipv4 a b c d)])
      = .ok ([a, b, c, d], .obj "Ipv4SrcField" [.bytes (ipv4 a b c d)]) := by
  refine ⟨rfl, ?_, ?_⟩
  · show Ipv4SrcField.unmarshal Ipv4SrcField.zero data = _
    simp only [Ipv4SrcField.unmarshal, readIPv4_eq data a b c d tail hb, Res.bind_ok, Res.pure_eq]
  · show Ipv4SrcField.marshalM (.obj "Ipv4SrcField" [.bytes (ipv4 a b c d)]) = _
    simp only [Ipv4SrcField.marshalM, ipTo4_ipv4, makeCopy_self 4 [a, b, c, d] rfl, same]

/-! ## §3 MatchField and Match -/

/-- MatchField, decoded by `MatchField.UnmarshalBinary` (which dispatches through `DecodeMatchField`) into `new(MatchField)`.
    `MatchFieldWF` (OFV/Lemmas/RTMatch.lean): Class < 2^16, Field < 2^7, Length < 2^8; ExperimenterID is the ONF id
    (0x4f4e4600) in class OXM_CLASS_EXPERIMENTER and 0 in every other class; the (class, field) is one `DecodeMatchField`
    allocates a receiver `r` for (`fieldRecv`: classes OPENFLOW_BASIC, NXM_1, EXPERIMENTER — every class it handles);
    Value is a well-formed payload of r's kind, HasMask ∈ {0,1}, Mask is nil without mask and a well-formed payload of
    r's kind with.  Experimenter-class fields carry the 4 id bytes between the OXM header and the value. -/
theorem matchField_roundtrip (v : V) (hwf : MatchFieldWF v) :
    ∃ bs, RoundTrip MatchField.marshalM (MatchField.unmarshal MatchField.zero) v v bs ∧
      MatchField.lenM v = .ok (UInt16.ofNat bs.length, v) ∧ 4 ≤ bs.length ∧ bs.length ≤ 518 := by
  obtain ⟨bs, h1, h2, h3, h4, h5⟩ := RT.matchField_roundtrip v hwf
  exact ⟨bs, ⟨h1, h1, h5⟩, h2, h3, h4⟩

/-- the theorem is not vacuous anywhere in the registry: for EVERY (class, field) for which `DecodeMatchField` allocates a
    receiver in classes OPENFLOW_BASIC / NXM_1 / EXPERIMENTER (whatever Length byte and mask flag), a well-formed value of the receiver's
    kind exists, i.e. `MatchFieldWF` has instances for that field -/
theorem matchField_registry_covered (c f ln : Nat) (hm : Bool) (r : V) (h : fieldRecv c f ln hm = some r) :
    ∃ val, PayloadWF val ∧ RecvOK val r :=
  fieldRecv_supported c f ln hm r h

/-- the fields concerned: 36 of the 42 OPENFLOW_BASIC entries, all 66 NXM_1 entries and both EXPERIMENTER entries have
    a decoder (the other basic-class ones are `case` labels without a body: DecodeMatchField returns an error for them) -/
example : (basicFieldTable.filter (fun x => x.2.isSome)).length = 36 ∧
    ((nxm1FieldTable 0 false).filter (fun x => x.2.isSome)).length = 66 ∧
    (experimenterFieldTable.filter (fun x => x.2.isSome)).length = 2 := ⟨rfl, rfl, rfl⟩

/-- satisfiable: NewInPortField(7) -/
example : MatchFieldWF (.obj "MatchField" [.num 32768, .num 0, .num 0, .num 4, .num 0, .obj "InPortField" [.num 7], .nil]) :=
  ⟨by decide, by decide, by decide, rfl, ⟨7, rfl, by decide⟩, InPortField.zero, rfl,
    ⟨rfl, by simp [V.kind], by simp [V.kind]⟩, Or.inl ⟨rfl, rfl⟩⟩
/-- satisfiable: NewEthDstField(mac, mask) — a masked field -/
example : MatchFieldWF (.obj "MatchField" [.num 32768, .num 3, .num 1, .num 12, .num 0,
    .obj "EthDstField" [.bytes [1, 2, 3, 4, 5, 6]], .obj "EthDstField" [.bytes [255, 255, 255, 0, 0, 0]]]) :=
  ⟨by decide, by decide, by decide, rfl, ⟨_, rfl, rfl⟩, EthDstField.zero, rfl,
    ⟨rfl, by simp [V.kind], by simp [V.kind]⟩,
    Or.inr ⟨rfl, ⟨_, rfl, rfl⟩, rfl, by simp [V.kind], by simp [V.kind]⟩⟩
/-- satisfiable: a masked NXM tun_metadata0 field (ByteArrayField; the receiver's Length is Length/2) -/
example : MatchFieldWF (.obj "MatchField" [.num 1, .num 40, .num 1, .num 8, .num 0,
    .obj "ByteArrayField" [.bytes [1, 2, 3, 4], .num 4], .obj "ByteArrayField" [.bytes [255, 255, 0, 0], .num 4]]) :=
  ⟨by decide, by decide, by decide, rfl, ⟨_, _, rfl, by decide, rfl⟩, byteArrayRecv 8 true, rfl,
    ⟨rfl, fun _ => ⟨_, _, _, rfl, rfl⟩, by simp [V.kind]⟩,
    Or.inr ⟨rfl, ⟨_, _, rfl, by decide, rfl⟩, rfl, fun _ => ⟨_, _, _, rfl, rfl⟩, by simp [V.kind]⟩⟩

/-- satisfiable in the experimenter class (D14, fixed): tcp_flags 0x01ff with the ONF experimenter id -/
example : MatchFieldWF (.obj "MatchField" [.num 65535, .num 42, .num 0, .num 6, .num 1330529792,
    .obj "TcpFlagsField" [.num 511], .nil]) :=
  ⟨by decide, by decide, by decide, rfl, ⟨511, rfl, by decide⟩, TcpFlagsField.zero, rfl,
    ⟨rfl, by simp [V.kind], by simp [V.kind]⟩, Or.inl ⟨rfl, rfl⟩⟩

/-- … and the bytes of that field: OXM header, experimenter id, value; decoding them followed by anything gives it back -/
theorem matchField_experimenter_example (tail : Bytes) :
    let v := V.obj "MatchField" [.num 65535, .num 42, .num 0, .num 6, .num 1330529792, .obj "TcpFlagsField" [.num 511], .nil]
    MatchField.marshalM v = .ok ([255, 255, 84, 6, 79, 78, 70, 0, 1, 255], v) ∧
    MatchField.unmarshal MatchField.zero (Slice.exact ([255, 255, 84, 6, 79, 78, 70, 0, 1, 255] ++ tail)) = .ok v :=
  ⟨rfl, rfl⟩

/-- Match, decoded into `new(Match)`: `MatchWF` = Type < 2^16, every field `MatchFieldWF`, Length = 4 + Σ field sizes
    (what NewMatch/AddField maintain) and below 65529.  The encoding is padded to a multiple of 8, Len() reports that
    size, and each field is decoded back from its position inside the list. -/
theorem match_roundtrip (v : V) (hwf : MatchWF v) :
    ∃ bs, RoundTrip Match.marshalM (Match.unmarshal Match.zero) v v bs ∧
      Match.lenM v = .ok (UInt16.ofNat bs.length, v) ∧ bs.length % 8 = 0 := by
  obtain ⟨bs, h1, h2, h3, h4, _, _⟩ := RT.match_roundtrip v hwf
  exact ⟨bs, ⟨h1, h1, h4⟩, h2, h3⟩

/-- satisfiable: a match with in_port and a masked eth_dst (Length 4 + 8 + 16 = 28) -/
example : MatchWF (.obj "Match" [.num 1, .num 28, .list [
    .obj "MatchField" [.num 32768, .num 0, .num 0, .num 4, .num 0, .obj "InPortField" [.num 7], .nil],
    .obj "MatchField" [.num 32768, .num 3, .num 1, .num 12, .num 0,
      .obj "EthDstField" [.bytes [1, 2, 3, 4, 5, 6]], .obj "EthDstField" [.bytes [255, 255, 255, 0, 0, 0]]]]]) := by
  refine ⟨by decide, ?_, rfl, by decide⟩
  intro f hf
  simp only [List.mem_cons, List.not_mem_nil, or_false] at hf
  rcases hf with rfl | rfl
  · exact ⟨by decide, by decide, by decide, rfl, ⟨7, rfl, by decide⟩, InPortField.zero, rfl,
      ⟨rfl, by simp [V.kind], by simp [V.kind]⟩, Or.inl ⟨rfl, rfl⟩⟩
  · exact ⟨by decide, by decide, by decide, rfl, ⟨_, rfl, rfl⟩, EthDstField.zero, rfl,
      ⟨rfl, by simp [V.kind], by simp [V.kind]⟩,
      Or.inr ⟨rfl, ⟨_, rfl, rfl⟩, rfl, by simp [V.kind], by simp [V.kind]⟩⟩

/-! ## §4 actions (through DecodeAction) and instructions (through DecodeInstr)

`k` is DecodeAction's nesting budget (any positive value).  The header's Type must be the kind's type code (that is how
DecodeAction finds the kind); the header's Length is arbitrary (< 2^16): neither encoder nor decoder of these kinds uses it. -/

/-- ActionOutput; `pad` nil or up to 6 zero bytes (NewActionOutput: 6) comes back nil -/
theorem actionOutput_roundtrip (ln port ml kp k : Nat) (hln : ln < 65536) (hport : port < 4294967296) (hml : ml < 65536)
    (hkp : kp ≤ 6) :
    RoundTrip Action.marshalM (DecodeAction (k + 1))
      (.obj "ActionOutput" [ActionHeader.mk Gen.openflow13.ActionType_Output ln, .num port, .num ml, .bytes (zeros kp)])
      (.obj "ActionOutput" [ActionHeader.mk Gen.openflow13.ActionType_Output ln, .num port, .num ml, .bytes []])
      (be16 (n16 Gen.openflow13.ActionType_Output) ++ be16 (n16 ln) ++ be32 (n32 port) ++ be16 (n16 ml) ++ zeros 6) := by
  obtain ⟨h1, _, h3⟩ := actionOutput_rt ln port ml kp hln hport hml hkp
  obtain ⟨h1', _, _⟩ := actionOutput_rt ln port ml 0 hln hport hml (by omega)
  exact ⟨h1, h1', fun data tail hd hb => h3 data tail k hd hb⟩

theorem actionGroup_roundtrip (ln g k : Nat) (hln : ln < 65536) (hg : g < 4294967296) :
    let v := V.obj "ActionGroup" [ActionHeader.mk Gen.openflow13.ActionType_Group ln, .num g]
    RoundTrip Action.marshalM (DecodeAction (k + 1)) v v
      (be16 (n16 Gen.openflow13.ActionType_Group) ++ be16 (n16 ln) ++ be32 (n32 g)) := by
  obtain ⟨h1, _, h3⟩ := actionGroup_rt ln g hln hg
  exact ⟨h1, h1, fun data tail hd hb => h3 data tail k hd hb⟩

/-- ActionSetqueue — decodes also when other actions follow (F65) -/
theorem actionSetqueue_roundtrip (ln q k : Nat) (hln : ln < 65536) (hq : q < 4294967296) :
    let v := V.obj "ActionSetqueue" [ActionHeader.mk Gen.openflow13.ActionType_SetQueue ln, .num q]
    RoundTrip Action.marshalM (DecodeAction (k + 1)) v v
      (be16 (n16 Gen.openflow13.ActionType_SetQueue) ++ be16 (n16 ln) ++ be32 (n32 q)) := by
  obtain ⟨h1, _, h3⟩ := actionSetqueue_rt ln q hln hq
  exact ⟨h1, h1, fun data tail hd hb => h3 data tail k hd hb⟩

/-- ActionPush for the three types DecodeAction maps to it (push-vlan 17, push-mpls 19, push-pbb 26); the pad (any value:
    the encoder ignores it) comes back nil -/
theorem actionPush_roundtrip (ty ln et k : Nat) (p : V)
    (hty : ty = Gen.openflow13.ActionType_PushVlan ∨ ty = Gen.openflow13.ActionType_PushMpls ∨
      ty = Gen.openflow13.ActionType_PushPbb) (hln : ln < 65536) (het : et < 65536) :
    RoundTrip Action.marshalM (DecodeAction (k + 1))
      (.obj "ActionPush" [ActionHeader.mk ty ln, .num et, p])
      (.obj "ActionPush" [ActionHeader.mk ty ln, .num et, .bytes []])
      (be16 (n16 ty) ++ be16 (n16 ln) ++ be16 (n16 et) ++ zeros 2) := by
  have hty16 : ty < 65536 := by rcases hty with h | h | h <;> (rw [h]; decide)
  have hlook : actionTypeTable.lookup ty = some ActionPush.zero := by rcases hty with h | h | h <;> (rw [h]; rfl)
  obtain ⟨h1, _, h3⟩ := actionPush_rt ty ln et p hty16 hlook hln het
  obtain ⟨h1', _, _⟩ := actionPush_rt ty ln et (.bytes []) hty16 hlook hln het
  exact ⟨h1, h1', fun data tail hd hb => h3 data tail k hd hb⟩

theorem actionPopMpls_roundtrip (ln et k : Nat) (p : V) (hln : ln < 65536) (het : et < 65536) :
    RoundTrip Action.marshalM (DecodeAction (k + 1))
      (.obj "ActionPopMpls" [ActionHeader.mk Gen.openflow13.ActionType_PopMpls ln, .num et, p])
      (.obj "ActionPopMpls" [ActionHeader.mk Gen.openflow13.ActionType_PopMpls ln, .num et, .bytes []])
      (be16 (n16 Gen.openflow13.ActionType_PopMpls) ++ be16 (n16 ln) ++ be16 (n16 et) ++ zeros 2) := by
  obtain ⟨h1, _, h3⟩ := actionPopMpls_rt ln et p hln het
  obtain ⟨h1', _, _⟩ := actionPopMpls_rt ln et (.bytes []) hln het
  exact ⟨h1, h1', fun data tail hd hb => h3 data tail k hd hb⟩

theorem actionPopVlan_roundtrip (ln k : Nat) (p : V) (hln : ln < 65536) :
    RoundTrip Action.marshalM (DecodeAction (k + 1))
      (.obj "ActionPopVlan" [ActionHeader.mk Gen.openflow13.ActionType_PopVlan ln, p])
      (.obj "ActionPopVlan" [ActionHeader.mk Gen.openflow13.ActionType_PopVlan ln, .bytes []])
      (be16 (n16 Gen.openflow13.ActionType_PopVlan) ++ be16 (n16 ln) ++ zeros 4) := by
  obtain ⟨h1, _, h3⟩ := actionPopVlan_rt ln p hln
  obtain ⟨h1', _, _⟩ := actionPopVlan_rt ln (.bytes []) hln
  exact ⟨h1, h1', fun data tail hd hb => h3 data tail k hd hb⟩

theorem actionDecNwTtl_roundtrip (ln k : Nat) (p : V) (hln : ln < 65536) :
    RoundTrip Action.marshalM (DecodeAction (k + 1))
      (.obj "ActionDecNwTtl" [ActionHeader.mk Gen.openflow13.ActionType_DecNwTtl ln, p])
      (.obj "ActionDecNwTtl" [ActionHeader.mk Gen.openflow13.ActionType_DecNwTtl ln, .bytes []])
      (be16 (n16 Gen.openflow13.ActionType_DecNwTtl) ++ be16 (n16 ln) ++ zeros 4) := by
  obtain ⟨h1, _, h3⟩ := actionDecNwTtl_rt ln p hln
  obtain ⟨h1', _, _⟩ := actionDecNwTtl_rt ln (.bytes []) hln
  exact ⟨h1, h1', fun data tail hd hb => h3 data tail k hd hb⟩

/-- the header-only actions: copy-ttl-out 11, copy-ttl-in 12, dec-mpls-ttl 16, pop-pbb 27.  `DecodeAction` decodes them into
    `new(ActionDecNwTtl)` — header plus 4 bytes of padding, the 8 bytes OpenFlow 1.3 prescribes (fixed: they used to be
    decoded into a bare 4-byte ActionHeader); the pad (any value: the encoder ignores it) comes back nil -/
theorem actionHeaderOnly_roundtrip (ty ln k : Nat) (p : V)
    (hty : ty = Gen.openflow13.ActionType_CopyTtlOut ∨ ty = Gen.openflow13.ActionType_CopyTtlIn ∨
      ty = Gen.openflow13.ActionType_DecMplsTtl ∨ ty = Gen.openflow13.ActionType_PopPbb) (hln : ln < 65536) :
    RoundTrip Action.marshalM (DecodeAction (k + 1))
      (.obj "ActionDecNwTtl" [ActionHeader.mk ty ln, p])
      (.obj "ActionDecNwTtl" [ActionHeader.mk ty ln, .bytes []])
      (be16 (n16 ty) ++ be16 (n16 ln) ++ zeros 4) := by
  obtain ⟨hty16, hlook⟩ := headerOnly_lookup ty hty
  obtain ⟨h1, _, h3⟩ := actionHdrPad_rt ty ln p hty16 hlook hln
  obtain ⟨h1', _, _⟩ := actionHdrPad_rt ty ln (.bytes []) hty16 hlook hln
  exact ⟨h1, h1', fun data tail hd hb => h3 data tail k hd hb⟩

/-- … and their size is 8: `Len()` agrees with the encoding -/
theorem actionHeaderOnly_len (ty ln : Nat) (p : V) :
    Action.lenM (.obj "ActionDecNwTtl" [ActionHeader.mk ty ln, p]) = .ok (8, .obj "ActionDecNwTtl" [ActionHeader.mk ty ln, p]) ∧
    (be16 (n16 ty) ++ be16 (n16 ln) ++ zeros 4).length = 8 := ⟨rfl, rfl⟩

/-- ActionSetField around any well-formed match field: header, field, zero padding to a multiple of 8 -/
theorem actionSetField_roundtrip (ln k : Nat) (f : V) (hln : ln < 65536) (hf : MatchFieldWF f) :
    let v := V.obj "ActionSetField" [ActionHeader.mk Gen.openflow13.ActionType_SetField ln, f]
    ∃ bs, RoundTrip Action.marshalM (DecodeAction (k + 1)) v v bs ∧ Action.lenM v = .ok (UInt16.ofNat bs.length, v) ∧
      bs.length % 8 = 0 := by
  obtain ⟨fb, bs, _, hbs, h1, h2, h3⟩ := actionSetField_rt ln f hln hf
  refine ⟨bs, ⟨h1, h1, fun data tail hd hb => h3 data tail k hd hb⟩, h2, ?_⟩
  rw [hbs]; simp only [List.length_append, be16_length, zeros_length]; omega

/-- ActionMplsTtl (set-mpls-ttl), for EVERY ttl (a byte) and header Length, followed by anything (defect D42, fixed: the
    type now has its own Len / MarshalBinary / UnmarshalBinary — header, ttl, 3 bytes of padding; before, only the 4
    header bytes were written and the ttl came back 0).  The unexported pad (any value: the encoder ignores it) comes back nil. -/
theorem actionMplsTtl_roundtrip (ln ttl k : Nat) (p : V) (hln : ln < 65536) (httl : ttl < 256) :
    RoundTrip Action.marshalM (DecodeAction (k + 1))
      (.obj "ActionMplsTtl" [ActionHeader.mk Gen.openflow13.ActionType_SetMplsTtl ln, .num ttl, p])
      (.obj "ActionMplsTtl" [ActionHeader.mk Gen.openflow13.ActionType_SetMplsTtl ln, .num ttl, .bytes []])
      (be16 (n16 Gen.openflow13.ActionType_SetMplsTtl) ++ be16 (n16 ln) ++ [n8 ttl, 0, 0, 0]) := by
  obtain ⟨h1, _, h3⟩ := actionMplsTtl_rt ln ttl p hln httl
  obtain ⟨h1', _, _⟩ := actionMplsTtl_rt ln ttl (.bytes []) hln httl
  exact ⟨h1, h1', fun data tail hd hb => h3 data tail k hd hb⟩

/-- ActionNwTtl (set-nw-ttl), for every ttl and header Length, followed by anything (defect D42, fixed) -/
theorem actionNwTtl_roundtrip (ln ttl k : Nat) (p : V) (hln : ln < 65536) (httl : ttl < 256) :
    RoundTrip Action.marshalM (DecodeAction (k + 1))
      (.obj "ActionNwTtl" [ActionHeader.mk Gen.openflow13.ActionType_SetNwTtl ln, .num ttl, p])
      (.obj "ActionNwTtl" [ActionHeader.mk Gen.openflow13.ActionType_SetNwTtl ln, .num ttl, .bytes []])
      (be16 (n16 Gen.openflow13.ActionType_SetNwTtl) ++ be16 (n16 ln) ++ [n8 ttl, 0, 0, 0]) := by
  obtain ⟨h1, _, h3⟩ := actionNwTtl_rt ln ttl p hln httl
  obtain ⟨h1', _, _⟩ := actionNwTtl_rt ln ttl (.bytes []) hln httl
  exact ⟨h1, h1', fun data tail hd hb => h3 data tail k hd hb⟩

/-- what the constructors build round-trips with value equality: NewActionMplsTtl(t) / NewActionNwTtl(t) for every `t`
    (the constructor keeps the low byte), 8 bytes each -/
theorem actionTtl_new_roundtrip (t k : Nat) :
    RoundTrip Action.marshalM (DecodeAction (k + 1)) (ActionMplsTtl.new t) (ActionMplsTtl.new t)
      (be16 (n16 Gen.openflow13.ActionType_SetMplsTtl) ++ be16 (n16 8) ++ [n8 t, 0, 0, 0]) ∧
    RoundTrip Action.marshalM (DecodeAction (k + 1)) (ActionNwTtl.new t) (ActionNwTtl.new t)
      (be16 (n16 Gen.openflow13.ActionType_SetNwTtl) ++ be16 (n16 8) ++ [n8 t, 0, 0, 0]) := by
  have hlt : (n8 t).toNat < 256 := (n8 t).toNat_lt
  have hn : n8 (n8 t).toNat = n8 t := UInt8.ofNat_toNat
  have h1 := actionMplsTtl_roundtrip 8 (n8 t).toNat k (.bytes []) (by decide) hlt
  have h2 := actionNwTtl_roundtrip 8 (n8 t).toNat k (.bytes []) (by decide) hlt
  rw [hn] at h1 h2
  exact ⟨h1, h2⟩

/-- the former counterexamples (set-mpls-ttl 7, set-nw-ttl 64, pad of 3 zero bytes as a hand-built value) now come back with
    their TTL -/
theorem actionTtl_examples (tail : Bytes) (k : Nat) :
    (let v := V.obj "ActionMplsTtl" [ActionHeader.mk 15 8, .num 7, .bytes (zeros 3)]
     Action.marshalM v = .ok ([0, 15, 0, 8, 7, 0, 0, 0], v) ∧
     DecodeAction (k + 1) (Slice.exact ([0, 15, 0, 8, 7, 0, 0, 0] ++ tail))
       = .ok (.obj "ActionMplsTtl" [ActionHeader.mk 15 8, .num 7, .bytes []])) ∧
    (let v := V.obj "ActionNwTtl" [ActionHeader.mk 23 8, .num 64, .bytes (zeros 3)]
     Action.marshalM v = .ok ([0, 23, 0, 8, 64, 0, 0, 0], v) ∧
     DecodeAction (k + 1) (Slice.exact ([0, 23, 0, 8, 64, 0, 0, 0] ++ tail))
       = .ok (.obj "ActionNwTtl" [ActionHeader.mk 23 8, .num 64, .bytes []])) := by
  obtain ⟨h1, _, h3⟩ := actionMplsTtl_roundtrip 8 7 k (.bytes (zeros 3)) (by decide) (by decide)
  obtain ⟨g1, _, g3⟩ := actionNwTtl_roundtrip 8 64 k (.bytes (zeros 3)) (by decide) (by decide)
  exact ⟨⟨h1, h3 _ tail (Slice.exact_wf _) (by simp [Slice.exact, Slice.bytes]; rfl)⟩,
    ⟨g1, g3 _ tail (Slice.exact_wf _) (by simp [Slice.exact, Slice.bytes]; rfl)⟩⟩

/-! Nicira actions: type 0xffff, vendor 0x2320; the header's Length must be the kind's size (the encoder allocates
    `Length` bytes). `nxHdr ln sub` / `nxHdrBytes ln sub` (OFV/Lemmas/RTNx.lean) are that header and its 10 bytes. -/

theorem nxConjunction_roundtrip (c nc id k : Nat) (hc : c < 256) (hnc : nc < 256) (hid : id < 4294967296) :
    let v := V.obj "NXActionConjunction" [nxHdr 16 Gen.openflow13.NXAST_CONJUNCTION, .num c, .num nc, .num id]
    RoundTrip Action.marshalM (DecodeAction (k + 1)) v v
      (nxHdrBytes 16 Gen.openflow13.NXAST_CONJUNCTION ++ [n8 c, n8 nc] ++ be32 (n32 id)) := by
  obtain ⟨h1, _, h3⟩ := nxConjunction_rt c nc id hc hnc hid
  exact ⟨h1, h1, fun data tail hd hb => h3 data tail k hd hb⟩

/-- resubmit-table (subtype 14, withCT = false) and ct-resubmit (subtype 44, withCT = true) -/
theorem nxResubmitTable_roundtrip (sub ct ip t k : Nat)
    (hsub : (sub = Gen.openflow13.NXAST_RESUBMIT_TABLE ∧ ct = 0) ∨ (sub = Gen.openflow13.NXAST_CT_RESUBMIT ∧ ct = 1))
    (hip : ip < 65536) (ht : t < 256) :
    let v := V.obj "NXActionResubmitTable" [nxHdr 16 sub, .num ip, .num t, .bytes (zeros 3), .num ct]
    RoundTrip Action.marshalM (DecodeAction (k + 1)) v v (nxHdrBytes 16 sub ++ be16 (n16 ip) ++ [n8 t] ++ zeros 3) := by
  obtain ⟨h1, _, h3⟩ := nxResubmitTable_rt sub ct ip t hsub hip ht
  exact ⟨h1, h1, fun data tail hd hb => h3 data tail k hd hb⟩

theorem nxDecTTL_roundtrip (c k : Nat) (hc : c < 65536) :
    let v := V.obj "NXActionDecTTL" [nxHdr 16 Gen.openflow13.NXAST_DEC_TTL, .num c, .bytes (zeros 4)]
    RoundTrip Action.marshalM (DecodeAction (k + 1)) v v
      (nxHdrBytes 16 Gen.openflow13.NXAST_DEC_TTL ++ be16 (n16 c) ++ zeros 4) := by
  obtain ⟨h1, _, h3⟩ := nxDecTTL_rt c hc
  exact ⟨h1, h1, fun data tail hd hb => h3 data tail k hd hb⟩

/-- NXActionResubmit (fixed): TableID is OFPTT_ALL (255) in the value NewNXActionResubmit builds, `MarshalBinary` keeps 255
    in the receiver and `UnmarshalBinary` sets 255: full round trip with value equality.  (For a hand-built value with
    another TableID `t` the encoder overwrites it: `marshalM (v t) = (bs, v 255)` — second statement.) -/
theorem nxResubmit_roundtrip (ip k : Nat) (hip : ip < 65536) :
    let v := V.obj "NXActionResubmit" [nxHdr 16 Gen.openflow13.NXAST_RESUBMIT, .num ip, .num Gen.openflow13.OFPTT_ALL, .bytes (zeros 3)]
    RoundTrip Action.marshalM (DecodeAction (k + 1)) v v (nxHdrBytes 16 Gen.openflow13.NXAST_RESUBMIT ++ be16 (n16 ip) ++ zeros 4) ∧
    ∀ t, Action.marshalM (.obj "NXActionResubmit" [nxHdr 16 Gen.openflow13.NXAST_RESUBMIT, .num ip, .num t, .bytes (zeros 3)])
      = .ok (nxHdrBytes 16 Gen.openflow13.NXAST_RESUBMIT ++ be16 (n16 ip) ++ zeros 4, v) := by
  obtain ⟨h1, _, h3⟩ := nxResubmit_rt ip Gen.openflow13.OFPTT_ALL hip
  exact ⟨⟨h1, h1, fun data tail hd hb => h3 data tail k hd hb⟩, fun t => (nxResubmit_rt ip t hip).1⟩

/-- InstrGotoTable through DecodeInstr; pad (nil or zero bytes; NewInstrGotoTable: 3) comes back nil -/
theorem instrGotoTable_roundtrip (ln tid kp : Nat) (hln : ln < 65536) (htid : tid < 256) :
    RoundTrip Instruction.marshalM DecodeInstr
      (.obj "InstrGotoTable" [.obj "InstrHeader" [.num Gen.openflow13.InstrType_GOTO_TABLE, .num ln], .num tid, .bytes (zeros kp)])
      (.obj "InstrGotoTable" [.obj "InstrHeader" [.num Gen.openflow13.InstrType_GOTO_TABLE, .num ln], .num tid, .bytes []])
      (be16 (n16 Gen.openflow13.InstrType_GOTO_TABLE) ++ be16 (n16 ln) ++ [n8 tid, 0, 0, 0]) := by
  obtain ⟨h1, _, h3⟩ := instrGotoTable_rt ln tid kp hln htid
  obtain ⟨h1', _, _⟩ := instrGotoTable_rt ln tid 0 hln htid
  exact ⟨h1, h1', h3⟩

/-- InstrWriteMetadata through DecodeInstr; pad (nil or zero bytes) comes back nil -/
theorem instrWriteMetadata_roundtrip (ln md mk kp : Nat) (hln : ln < 65536) (hmd : md < 18446744073709551616)
    (hmk : mk < 18446744073709551616) :
    RoundTrip Instruction.marshalM DecodeInstr
      (.obj "InstrWriteMetadata" [.obj "InstrHeader" [.num Gen.openflow13.InstrType_WRITE_METADATA, .num ln],
        .bytes (zeros kp), .num md, .num mk])
      (.obj "InstrWriteMetadata" [.obj "InstrHeader" [.num Gen.openflow13.InstrType_WRITE_METADATA, .num ln],
        .bytes [], .num md, .num mk])
      (be16 (n16 Gen.openflow13.InstrType_WRITE_METADATA) ++ be16 (n16 ln) ++ zeros 4 ++ be64 (n64 md) ++ be64 (n64 mk)) := by
  obtain ⟨h1, _, h3⟩ := instrWriteMetadata_rt ln md mk kp hln hmd hmk
  obtain ⟨h1', _, _⟩ := instrWriteMetadata_rt ln md mk 0 hln hmd hmk
  exact ⟨h1, h1', h3⟩

/-- Elements inside a list.  InstrActions (write/apply/clear-actions) holding ANY list `as` of actions each of which
    round-trips on its own (`ActionRT a e`, OFV/Lemmas/RTList.lean — established for every action kind of this section by
    `actionRT_output … actionRT_setField`), header Length = 8 + Σ sizes: every action is decoded back from its position in
    the list, whatever precedes and follows it; the instruction itself may be followed by anything. -/
theorem instrActions_roundtrip (ty ln kp : Nat) (as : List V) (encs : List Bytes)
    (hty : ty = Gen.openflow13.InstrType_WRITE_ACTIONS ∨ ty = Gen.openflow13.InstrType_APPLY_ACTIONS ∨
      ty = Gen.openflow13.InstrType_CLEAR_ACTIONS)
    (has : ActionsRT as encs) (hln : ln = 8 + encs.flatten.length) (hlt : ln < 65536) :
    RoundTrip Instruction.marshalM DecodeInstr
      (.obj "InstrActions" [.obj "InstrHeader" [.num ty, .num ln], .bytes (zeros kp), .list as])
      (.obj "InstrActions" [.obj "InstrHeader" [.num ty, .num ln], .bytes [], .list as])
      (be16 (n16 ty) ++ be16 (n16 ln) ++ zeros 4 ++ encs.flatten) := by
  obtain ⟨h1, _, h3⟩ := instrActions_rt ty ln kp as encs hty has hln hlt
  obtain ⟨h1', _, _⟩ := instrActions_rt ty ln 0 as encs hty has hln hlt
  exact ⟨h1, h1', h3⟩

/-- satisfiable, with a mixed list: apply-actions [set-queue 5, output 2, group 9, pop-vlan] (Length 8 + 8 + 16 + 8 + 8) -/
example : ∃ as encs, ActionsRT as encs ∧ as.length = 4 ∧ 48 = 8 + encs.flatten.length :=
  ⟨_, _, .cons (actionRT_setqueue 8 5 (by decide) (by decide))
    (.cons (actionRT_output 16 2 65535 (by decide) (by decide) (by decide))
      (.cons (actionRT_group 8 9 (by decide) (by decide))
        (.cons (actionRT_popVlan 8 (by decide)) .nil))), rfl, rfl⟩

/-- InstrMeter through DecodeInstr, for EVERY meter id (32 bits) and header Length, followed by anything (defect D42,
    fixed: the type now has its own Len / MarshalBinary / UnmarshalBinary — header and meter id, 8 bytes; before, only the 4
    header bytes were written and the instruction decoded to MeterId 0, or to the all-zero instruction when anything
    followed it). -/
theorem instrMeter_roundtrip (ln mid : Nat) (hln : ln < 65536) (hmid : mid < 4294967296) :
    let v := V.obj "InstrMeter" [.obj "InstrHeader" [.num Gen.openflow13.InstrType_METER, .num ln], .num mid]
    RoundTrip Instruction.marshalM DecodeInstr v v
      (be16 (n16 Gen.openflow13.InstrType_METER) ++ be16 (n16 ln) ++ be32 (n32 mid)) ∧
    Instruction.lenM v = .ok (8, v) := by
  obtain ⟨h1, h2, h3⟩ := instrMeter_rt ln mid hln hmid
  exact ⟨⟨h1, h1, h3⟩, h2⟩

/-- NewInstrMeter(m) round-trips with value equality for every `m` (the constructor takes a uint32: the low 32 bits) -/
theorem instrMeter_new_roundtrip (m : Nat) :
    RoundTrip Instruction.marshalM DecodeInstr (InstrMeter.new m) (InstrMeter.new m)
      (be16 (n16 Gen.openflow13.InstrType_METER) ++ be16 (n16 8) ++ be32 (n32 m)) := by
  have hlt : (n32 m).toNat < 4294967296 := (n32 m).toNat_lt
  have hn : n32 (n32 m).toNat = n32 m := UInt32.ofNat_toNat
  have h := (instrMeter_roundtrip 8 (n32 m).toNat (by decide) hlt).1
  rw [hn] at h
  exact h

/-- the former counterexample shape: meter 5 followed by a goto-table instruction decodes to meter 5 -/
example (tail : Bytes) : DecodeInstr (Slice.exact ([0, 6, 0, 8, 0, 0, 0, 5] ++ tail))
    = .ok (.obj "InstrMeter" [.obj "InstrHeader" [.num 6, .num 8], .num 5]) :=
  (instrMeter_roundtrip 8 5 (by decide) (by decide)).1.2.2 _ tail (Slice.exact_wf _) (by simp [Slice.exact, Slice.bytes]; rfl)

/-! ## §5 top-level messages through Parse -/

/-- echo request / echo reply / get-config request / barrier request / barrier reply / features request are bare headers:
    `Parse` (any nesting budget `depth`) on the 8 header bytes followed by anything yields that header. -/
theorem parse_header_only (ver ty ln xid depth : Nat) (hv : ver < 256) (hty : HeaderOnlyType ty) (hl : ln < 65536)
    (hx : xid < 4294967296) :
    let h := V.obj "Header" [.num ver, .num ty, .num ln, .num xid]
    RoundTrip Header.marshalM (parse depth) h h ([n8 ver, n8 ty] ++ be16 (n16 ln) ++ be32 (n32 xid)) :=
  ⟨rfl, rfl, fun data tail hd hb => RT.parse_header_only ver ty ln xid hv hty hl hx depth data tail hd hb⟩

example : HeaderOnlyType Gen.openflow13.Type_BarrierRequest := Or.inr (Or.inr (Or.inr (Or.inl rfl)))

/-- FlowMod through Parse — a top-level message containing a Match (list of fields, padding) and a list of instructions
    (which contain lists of actions).  Every scalar inside its width, `MatchWF m`, every instruction round-trips on its own
    (`InstrsRT is encs`, OFV/Lemmas/RTFlowMod.lean — established by `instrRT_gotoTable`, `instrRT_writeMetadata`, `instrRT_meter`,
    `instrRT_actions` for any action list), delete commands carry no instructions, total size below 2^16.
    `MarshalBinary` stores the total size in Header.Length (whatever Length `ln0` was there) and leaves the rest unchanged;
    `Parse` of those bytes followed by anything returns the value with that Length (unexported pad nil), which in turn
    encodes to the same bytes (take `ln0 = bs.length`, `pad = nil` in the second conjunct). -/
theorem flowMod_roundtrip (ver xid ck cm tid cmd it ht pr bid op og fl : Nat) (m : V) (is : List V) (encs : List Bytes)
    (hver : ver < 256) (hxid : xid < 4294967296) (hck : ck < 18446744073709551616) (hcm : cm < 18446744073709551616)
    (htid : tid < 256) (hcmd : cmd < 256) (hit : it < 65536) (hht : ht < 65536) (hpr : pr < 65536)
    (hbid : bid < 4294967296) (hop : op < 4294967296) (hog : og < 4294967296) (hfl : fl < 65536)
    (hm : MatchWF m) (his : InstrsRT is encs)
    (hdel : (cmd = Gen.openflow13.FC_DELETE ∨ cmd = Gen.openflow13.FC_DELETE_STRICT) → is = []) :
    ∃ mbs, Match.marshalM m = .ok (mbs, m) ∧
      (48 + mbs.length + encs.flatten.length < 65536 →
        ∃ bs, bs.length = 48 + mbs.length + encs.flatten.length ∧
          (∀ (ln0 : Nat) (pad : V),
            FlowMod.marshalM (flowModV ver ln0 xid ck cm tid cmd it ht pr bid op og fl pad m is) =
              .ok (bs, flowModV ver bs.length xid ck cm tid cmd it ht pr bid op og fl pad m is)) ∧
          ∀ (depth : Nat) (data : Slice) (tail : Bytes), data.WF → data.bytes = bs ++ tail →
            parse depth data = .ok (flowModV ver bs.length xid ck cm tid cmd it ht pr bid op og fl (.bytes []) m is)) :=
  flowMod_rt ver xid ck cm tid cmd it ht pr bid op og fl m is encs hver hxid hck hcm htid hcmd hit hht hpr hbid hop hog hfl
    hm his hdel

/-- satisfiable: instructions [meter 9, goto-table 3, write-metadata, apply-actions [set-queue 5, set-nw-ttl 64, output 2]] -/
example : ∃ is encs, InstrsRT is encs ∧ is.length = 4 :=
  ⟨_, _, .cons (instrRT_meter 8 9 (by decide) (by decide))
    (.cons (instrRT_gotoTable 8 3 (by decide) (by decide))
    (.cons (instrRT_writeMetadata 24 81985529216486895 18446744073709551615 (by decide) (by decide) (by decide))
      (.cons (instrRT_actions Gen.openflow13.InstrType_APPLY_ACTIONS 40 _ _ (Or.inr (Or.inl rfl))
        (.cons (actionRT_setqueue 8 5 (by decide) (by decide))
          (.cons (actionRT_nwTtl 8 64 (by decide) (by decide))
            (.cons (actionRT_output 16 2 65535 (by decide) (by decide) (by decide)) .nil))) rfl (by decide)) .nil))), rfl⟩

/-- FlowRemoved through Parse: header, 40 fixed bytes, the Match.  All scalars inside their widths, `MatchWF m`, total size
    `L` = 48 + size of the Match below 2^16.  `MarshalBinary` stores `L` in Header.Length (whatever `ln0` was there); Parse of
    the bytes followed by anything returns the value with Length `L`, which encodes to the same bytes. -/
theorem flowRemoved_roundtrip (ver xid ck pr rs tid ds dn it ht pc bc : Nat) (m : V)
    (hver : ver < 256) (hxid : xid < 4294967296) (hck : ck < 18446744073709551616) (hpr : pr < 65536)
    (hrs : rs < 256) (htid : tid < 256) (hds : ds < 4294967296) (hdn : dn < 4294967296) (hit : it < 65536)
    (hht : ht < 65536) (hpc : pc < 18446744073709551616) (hbc : bc < 18446744073709551616) (hm : MatchWF m) :
    ∃ mbs, Match.marshalM m = .ok (mbs, m) ∧ (48 + mbs.length < 65536 →
      let v := flowRemovedV ver (48 + mbs.length) xid ck pr rs tid ds dn it ht pc bc m
      ∃ bs, (∀ ln0, FlowRemoved.marshalM (flowRemovedV ver ln0 xid ck pr rs tid ds dn it ht pc bc m) = .ok (bs, v)) ∧
        ∀ depth, RoundTrip FlowRemoved.marshalM (parse depth) v v bs) := by
  obtain ⟨mbs, h1, _, _, _, _, _⟩ := RT.match_roundtrip m hm
  refine ⟨mbs, h1, fun hL => ?_⟩
  obtain ⟨mbs', h1', h2⟩ := flowRemoved_rt ver (48 + mbs.length) xid ck pr rs tid ds dn it ht pc bc m hver hL hxid hck hpr hrs
    htid hds hdn hit hht hpc hbc hm
  rw [h1] at h1'
  cases h1'
  obtain ⟨h3, h4⟩ := h2 rfl
  exact ⟨_, h3, fun depth => ⟨h3 _, h3 _, fun data tail hd hb => h4 depth data tail hd hb⟩⟩

/-- SwitchConfig (get-config reply, type 8, and set-config, type 9) through Parse.  `MarshalBinary` stores 12 in
    Header.Length; Parse of the 12 bytes followed by anything returns the value with that Length, which encodes to the
    same bytes (first conjunct with `ln0 = 12`). -/
theorem switchConfig_roundtrip (ver ty xid fl ms : Nat) (hver : ver < 256)
    (hty : ty = Gen.openflow13.Type_GetConfigReply ∨ ty = Gen.openflow13.Type_SetConfig)
    (hxid : xid < 4294967296) (hfl : fl < 65536) (hms : ms < 65536) :
    let bs := [n8 ver, n8 ty] ++ be16 (n16 12) ++ be32 (n32 xid) ++ be16 (n16 fl) ++ be16 (n16 ms)
    (∀ ln0, SwitchConfig.marshalM (switchConfigV ver ty ln0 xid fl ms) = .ok (bs, switchConfigV ver ty 12 xid fl ms)) ∧
    ∀ (depth : Nat) (data : Slice) (tail : Bytes), data.WF → data.bytes = bs ++ tail →
      parse depth data = .ok (switchConfigV ver ty 12 xid fl ms) :=
  switchConfig_rt ver ty xid fl ms hver hty hxid hfl hms

/-- ErrorMsg through Parse (error type other than ET_EXPERIMENTER 0xffff; data `d` with 12 + |d| < 2^16).  `MarshalBinary`
    stores the size 12 + |d| in Header.Length (whatever `ln0` was there).  The decoder takes EVERYTHING behind the 12 fixed
    bytes as the error data: parsing `bs ++ tail` yields the message with data `d ++ tail` — the value itself exactly when
    nothing follows (`tail = []`, third statement). -/
theorem errorMsg_roundtrip (ver xid t c : Nat) (d : Bytes) (hver : ver < 256) (hxid : xid < 4294967296)
    (ht : t < 65536) (hte : t ≠ Gen.openflow13.ET_EXPERIMENTER) (hc : c < 65536) (hd : 12 + d.length < 65536) :
    let v := errorMsgV ver (12 + d.length) xid t c d
    let bs := [n8 ver, n8 Gen.openflow13.Type_Error] ++ be16 (n16 (12 + d.length)) ++ be32 (n32 xid) ++ be16 (n16 t) ++ be16 (n16 c) ++ d
    (∀ ln0, ErrorMsg.marshalM (errorMsgV ver ln0 xid t c d) = .ok (bs, v)) ∧
    (∀ (depth : Nat) (data : Slice) (tail : Bytes), data.WF → data.bytes = bs ++ tail →
      parse depth data = .ok (errorMsgV ver (12 + d.length) xid t c (d ++ tail))) ∧
    ∀ (depth : Nat) (data : Slice), data.WF → data.bytes = bs → parse depth data = .ok v := by
  intro v bs
  obtain ⟨h1, h2⟩ := errorMsg_rt ver xid t c d hver hxid ht hte hc hd
  refine ⟨h1, h2, fun depth data hdw hb => ?_⟩
  have := h2 depth data [] hdw (by rw [hb, List.append_nil])
  rw [List.append_nil] at this
  exact this

/-- PhyPort (the 64-byte port description) in decoded form `phyPortV` (unexported pads nil, 6-byte HWAddr, 16-byte Name),
    decoded into NewPhyPort(), followed by anything -/
theorem phyPort_roundtrip (no : Nat) (hw name : Bytes) (cfg st cur adv sup peer cs ms : Nat)
    (hno : no < 4294967296) (hhw : hw.length = 6) (hname : name.length = 16) (hcfg : cfg < 4294967296)
    (hst : st < 4294967296) (hcur : cur < 4294967296) (hadv : adv < 4294967296) (hsup : sup < 4294967296)
    (hpeer : peer < 4294967296) (hcs : cs < 4294967296) (hms : ms < 4294967296) :
    let v := phyPortV no hw name cfg st cur adv sup peer cs ms
    RoundTrip PhyPort.marshalM (PhyPort.unmarshal PhyPort.new) v v (phyPortBytes no hw name cfg st cur adv sup peer cs ms) := by
  obtain ⟨_, h1, _, h3⟩ := phyPort_rt no hw name cfg st cur adv sup peer cs ms hno hhw hname hcfg hst hcur hadv hsup hpeer hcs hms
  exact ⟨h1, h1, h3⟩

/-- PortStatus through Parse (decoded into NewPortStatus(): 7 pad bytes, Desc = NewPhyPort()).  `MarshalBinary` stores 80 in
    Header.Length; Parse of the 80 bytes followed by anything returns the value with that Length. -/
theorem portStatus_roundtrip (ver xid r no : Nat) (hw name : Bytes) (cfg st cur adv sup peer cs ms : Nat)
    (hver : ver < 256) (hxid : xid < 4294967296) (hr : r < 256)
    (hno : no < 4294967296) (hhw : hw.length = 6) (hname : name.length = 16) (hcfg : cfg < 4294967296)
    (hst : st < 4294967296) (hcur : cur < 4294967296) (hadv : adv < 4294967296) (hsup : sup < 4294967296)
    (hpeer : peer < 4294967296) (hcs : cs < 4294967296) (hms : ms < 4294967296) :
    let d := phyPortV no hw name cfg st cur adv sup peer cs ms
    let bs := [n8 ver, n8 Gen.openflow13.Type_PortStatus] ++ be16 (n16 80) ++ be32 (n32 xid) ++ ([n8 r] ++ zeros 7)
      ++ phyPortBytes no hw name cfg st cur adv sup peer cs ms
    (∀ ln0, PortStatus.marshalM (portStatusV ver ln0 xid r d) = .ok (bs, portStatusV ver 80 xid r d)) ∧
    ∀ (depth : Nat) (data : Slice) (tail : Bytes), data.WF → data.bytes = bs ++ tail →
      parse depth data = .ok (portStatusV ver 80 xid r d) :=
  portStatus_rt ver xid r no hw name cfg st cur adv sup peer cs ms hver hxid hr hno hhw hname hcfg hst hcur hadv hsup hpeer
    hcs hms

/-- BundlePropertyExperimenter (an element of a property list: followed by anything): 12-byte header whose length field is
    12 + |payload| (without padding; `MarshalBinary` stores it in the receiver, whatever `ln0` was there), the payload,
    zero padding to a multiple of 8; Len() = padded size. -/
theorem bundleProp_roundtrip (t ei et : Nat) (d : Bytes) (ht : t < 65536) (hei : ei < 4294967296) (het : et < 4294967296)
    (hd : 12 + d.length + 7 < 65536) (recv : V) :
    let v := bundlePropV t (12 + d.length) ei et d
    let bs := be16 (n16 t) ++ be16 (n16 (12 + d.length)) ++ be32 (n32 ei) ++ be32 (n32 et) ++ d ++
      zeros ((12 + d.length + 7) / 8 * 8 - (12 + d.length))
    RoundTrip BundlePropertyExperimenter.marshalM (BundlePropertyExperimenter.unmarshal recv) v v bs ∧
    (∀ ln0, BundlePropertyExperimenter.marshalM (bundlePropV t ln0 ei et d) = .ok (bs, v)) ∧
    BundlePropertyExperimenter.lenM v = .ok (UInt16.ofNat bs.length, v) ∧ bs.length % 8 = 0 := by
  intro v bs
  obtain ⟨h1, h2, h3, h4⟩ := bundleProp_rt t ei et d ht hei het hd
  exact ⟨⟨h1 _, h1 _, fun data tail hdw hb => h4 recv data tail hdw hb⟩, h1, h2, h3⟩

/-- SwitchFeatures (features reply, type 6) through Parse, decoded into NewFeaturesReply(), the buffer holding exactly the
    message (the port loop runs to the end of the buffer).  8-byte DPID (now written by the encoder — fixed), 2 pad bytes,
    all scalars inside their widths; `ports` any list of port descriptions that round-trip on their own (`PortsRT`, e.g.
    `portRT_phyPort`), 32 + 64·#ports < 2^16.  `MarshalBinary` stores the size in Header.Length and writes the ports;
    `UnmarshalBinary` walks over every port and DISCARDS it (the decoded port is never appended): the result is the value
    with Ports = [] (the receiver's list).  So the value round-trips (and its bytes are reproduced) exactly when it has no
    ports — the 32-byte form, `switchFeatures_roundtrip_noports`; with ports every other field still comes back, the ports
    are lost.  PARTIAL: full statement (false) = the same with the ports preserved. -/
theorem switchFeatures_roundtrip_partial (ver xid : Nat) (dpid : Bytes) (b nt ax : Nat) (pad : Bytes) (caps acts : Nat)
    (ports : List V) (es : List Bytes)
    (hver : ver < 256) (hxid : xid < 4294967296) (hdp : dpid.length = 8) (hb32 : b < 4294967296) (hnt : nt < 256)
    (hax : ax < 256) (hpad : pad.length = 2) (hcaps : caps < 4294967296) (hacts : acts < 4294967296)
    (hps : PortsRT ports es) (hL : 32 + 64 * es.length < 65536) :
    let L := 32 + 64 * es.length
    let bs := [n8 ver, n8 Gen.openflow13.Type_FeaturesReply] ++ be16 (n16 L) ++ be32 (n32 xid) ++ dpid ++ be32 (n32 b)
      ++ [n8 nt, n8 ax] ++ pad ++ be32 (n32 caps) ++ be32 (n32 acts) ++ es.flatten
    (∀ ln0, SwitchFeatures.marshalM (switchFeaturesV ver ln0 xid dpid b nt ax pad caps acts ports)
      = .ok (bs, switchFeaturesV ver L xid dpid b nt ax pad caps acts ports)) ∧
    ∀ (depth : Nat) (data : Slice), data.WF → data.bytes = bs →
      parse depth data = .ok (switchFeaturesV ver L xid dpid b nt ax pad caps acts []) :=
  switchFeatures_rt ver xid dpid b nt ax pad caps acts ports es hver hxid hdp hb32 hnt hax hpad hcaps hacts hps hL

/-- the 32-byte form (no ports): full round trip, Length set to 32 -/
theorem switchFeatures_roundtrip_noports (ver xid : Nat) (dpid : Bytes) (b nt ax : Nat) (pad : Bytes) (caps acts : Nat)
    (hver : ver < 256) (hxid : xid < 4294967296) (hdp : dpid.length = 8) (hb32 : b < 4294967296) (hnt : nt < 256)
    (hax : ax < 256) (hpad : pad.length = 2) (hcaps : caps < 4294967296) (hacts : acts < 4294967296) :
    let v := switchFeaturesV ver 32 xid dpid b nt ax pad caps acts []
    ∃ bs, bs.length = 32 ∧ (∀ ln0, SwitchFeatures.marshalM (switchFeaturesV ver ln0 xid dpid b nt ax pad caps acts []) = .ok (bs, v)) ∧
      ∀ (depth : Nat) (data : Slice), data.WF → data.bytes = bs → parse depth data = .ok v := by
  obtain ⟨h1, h2⟩ := switchFeatures_rt ver xid dpid b nt ax pad caps acts [] [] hver hxid hdp hb32 hnt hax hpad hcaps hacts
    .nil (by decide)
  refine ⟨_, ?_, h1, h2⟩
  simp only [List.length_append, be16_length, be32_length, List.length_cons, List.length_nil, hdp, hpad, List.flatten_nil]

/-- the former counterexample value (DPID 01..08, 256 buffers, 254 tables, capabilities 0x4f) now comes back -/
theorem switchFeatures_example :
    let v := V.obj "SwitchFeatures" [.obj "Header" [.num 4, .num 6, .num 32, .num 7], .bytes [1, 2, 3, 4, 5, 6, 7, 8], .num 256,
      .num 254, .num 0, .bytes (zeros 2), .num 79, .num 0, .list []]
    let bs : Bytes := [4, 6, 0, 32, 0, 0, 0, 7,  1, 2, 3, 4, 5, 6, 7, 8,  0, 0, 1, 0, 254, 0, 0, 0, 0, 0, 0, 79, 0, 0, 0, 0]
    SwitchFeatures.marshalM v = .ok (bs, v) ∧ parse 1 (Slice.exact bs) = .ok v :=
  ⟨rfl, rfl⟩

/-- PacketIn through Parse (decoded into new(PacketIn)), the buffer holding exactly the message (the packet extends to the end
    of the buffer).  Scalars inside their widths, `MatchWF m`, and ANY Ethernet frame that round-trips on its own
    (`EthRT eth eb`, OFV/Lemmas/RTPacketIn.lean: encodes to `eb`, Len = |eb|, decodes from a buffer holding exactly `eb`) —
    `ethRT_opaque` gives such frames: untagged, ethertype other than VLAN/IPv4/IPv6/ARP, raw payload bytes.
    `MarshalBinary` stores the size in Header.Length; layout: header, 16 fixed bytes, match, 2 pad bytes, frame. -/
theorem packetIn_roundtrip (ver xid b t r ti c : Nat) (m eth : V) (eb : Bytes)
    (hver : ver < 256) (hxid : xid < 4294967296) (hb32 : b < 4294967296) (ht : t < 65536) (hr : r < 256) (hti : ti < 256)
    (hc : c < 18446744073709551616) (hm : MatchWF m) (heth : EthRT eth eb) :
    ∃ mbs, Match.marshalM m = .ok (mbs, m) ∧ (26 + mbs.length + eb.length < 65536 →
      let L := 26 + mbs.length + eb.length
      let bs := [n8 ver, n8 Gen.openflow13.Type_PacketIn] ++ be16 (n16 L) ++ be32 (n32 xid)
        ++ (be32 (n32 b) ++ be16 (n16 t) ++ [n8 r, n8 ti] ++ be64 (n64 c)) ++ mbs ++ zeros 2 ++ eb
      (∀ ln0, PacketIn.marshalM (packetInV ver ln0 xid b t r ti c m [] eth) = .ok (bs, packetInV ver L xid b t r ti c m [] eth)) ∧
      ∀ (depth : Nat) (data : Slice), data.WF → data.bytes = bs →
        parse depth data = .ok (packetInV ver L xid b t r ti c m [] eth)) :=
  packetIn_rt ver xid b t r ti c m eth eb hver hxid hb32 ht hr hti hc hm heth

/-- satisfiable: an LLDP-ethertype (0x88cc) frame with 5 raw bytes -/
example : EthRT (ethOpaqueV [1, 2, 3, 4, 5, 6] [7, 8, 9, 10, 11, 12] 35020 [1, 2, 3, 4, 5])
    ([1, 2, 3, 4, 5, 6] ++ [7, 8, 9, 10, 11, 12] ++ be16 (n16 35020) ++ [1, 2, 3, 4, 5]) :=
  ethRT_opaque _ _ 35020 _ rfl rfl (by decide) (by decide) (by decide)

/-- One hello element, followed by anything (the next element, …).  Element = type 1, ANY number of bitmaps (below 2^32
    each), Length = 4 + 4·#bitmaps (`helloElemV ws`).  `HelloElemVersionBitmap.MarshalBinary` writes header and bitmaps and
    pads the element with zeros to a multiple of 8 (`helloElemBytes ws`; fixed: it used not to pad);
    `UnmarshalBinary` reads the bitmaps up to the element's own Length (D20 bitmap part, fixed).  Whatever Length `l0` is
    stored in the value, the encoder stores 4 + 4·#bitmaps (second statement).  Bound: the padded size fits 16 bits. -/
theorem helloElem_roundtrip (recv : V) (ws : List Nat) (hws : ∀ w ∈ ws, w < 4294967296) (hk : 4 + 4 * ws.length + 7 < 65536) :
    RoundTrip HelloElemVersionBitmap.marshalM (HelloElemVersionBitmap.unmarshal recv) (helloElemV ws) (helloElemV ws)
      (helloElemBytes ws) ∧
    (∀ l0, HelloElemVersionBitmap.marshalM
        (.obj "HelloElemVersionBitmap" [.obj "HelloElemHeader" [.num 1, .num l0], .list (ws.map V.num)])
      = .ok (helloElemBytes ws, helloElemV ws)) ∧
    (helloElemBytes ws).length % 8 = 0 := by
  have he := (helloElem_encode 1 (4 + 4 * ws.length) ws hk).1
  refine ⟨⟨he, he, fun data tail hd hb =>
    helloElem_decode recv data hd 1 (by decide) ws hws (by omega) (zeros (helloPad ws.length) ++ tail)
      (by rw [hb]; simp only [helloElemBytes, List.append_assoc])⟩, fun l0 => (helloElem_encode 1 l0 ws hk).1, ?_⟩
  rw [helloElemBytes_length]; omega

/-- Hello with ANY number of version-bitmap elements, each with ANY number of bitmaps, through Parse, the buffer holding
    exactly the message (`data.bytes = bs`; Hello.UnmarshalBinary walks to the end of the buffer, not to Header.Length).
    Condition: every element is `helloElemV ws` (type 1, Length = 4 + 4·#bitmaps, bitmaps < 2^32: `ElemsOK`); total size
    below 2^16.  The encoder pads every element to a multiple of 8 and the decoder advances by the Length rounded up to 8,
    so the former condition `PadOK` (every element but the last has an odd number of bitmaps) is gone (fixed).
    `MarshalBinary` stores the size in Header.Length (whatever `ln0` was there); Parse returns the value with that Length,
    which encodes to the same bytes. -/
theorem hello_roundtrip (ver xid : Nat) (wss : List (List Nat)) (hver : ver < 256) (hxid : xid < 4294967296)
    (hok : ElemsOK wss) (hk : 8 + (helloBody wss).length < 65536) :
    let bs := [n8 ver, n8 0] ++ be16 (n16 (8 + (helloBody wss).length)) ++ be32 (n32 xid) ++ helloBody wss
    (∀ ln0, Hello.marshalM (helloV ver ln0 xid wss) = .ok (bs, helloV ver (8 + (helloBody wss).length) xid wss)) ∧
    ∀ (depth : Nat) (data : Slice), data.WF → data.bytes = bs →
      parse depth data = .ok (helloV ver (8 + (helloBody wss).length) xid wss) :=
  hello_rt ver xid wss hver hxid hok hk

/-- satisfiable with four elements: 1 bitmap (Length 8), 2 bitmaps (Length 12, padded to 16) in the MIDDLE, 3 bitmaps
    (Length 16), none (Length 4, padded to 8); body 8 + 16 + 16 + 8 bytes -/
example : ElemsOK [[18], [4, 5], [1, 2, 3], []] ∧ (helloBody [[18], [4, 5], [1, 2, 3], []]).length = 48 := by
  refine ⟨?_, rfl⟩
  intro ws hws
  simp only [List.mem_cons, List.not_mem_nil, or_false] at hws
  rcases hws with rfl | rfl | rfl | rfl <;> exact ⟨by decide, by decide⟩

/-- NewHello(4) (one version-bitmap element), xid 7: MarshalBinary sets Header.Length = 16; Parse of the 16 bytes gives the
    marshalled value back and it encodes to the same bytes. -/
theorem hello_default_roundtrip :
    ∃ bs v', Hello.marshalM (NewHello 4 7) = .ok (bs, v') ∧ bs.length = 16 ∧
      parse (bs.length + 1) (Slice.exact bs) = .ok v' ∧ Hello.marshalM v' = .ok (bs, v') :=
  ⟨_, _, rfl, rfl, rfl, rfl⟩

/-- the former counterexample (two elements of Length 8) now round-trips -/
theorem hello_two_elements_roundtrip :
    let e1 := V.obj "HelloElemVersionBitmap" [.obj "HelloElemHeader" [.num 1, .num 8], .list [.num 18]]
    let e2 := V.obj "HelloElemVersionBitmap" [.obj "HelloElemHeader" [.num 1, .num 8], .list [.num 1]]
    let v := V.obj "Hello" [.obj "Header" [.num 4, .num 0, .num 24, .num 7], .list [e1, e2]]
    let bs : Bytes := [4, 0, 0, 24, 0, 0, 0, 7,  0, 1, 0, 8, 0, 0, 0, 18,  0, 1, 0, 8, 0, 0, 0, 1]
    Hello.marshalM v = .ok (bs, v) ∧ parse 25 (Slice.exact bs) = .ok v :=
  ⟨rfl, rfl⟩

/-- the former counterexample (an element with two bitmaps, Length 12, FOLLOWED by another element) now round-trips:
    the encoder pads the first element to 16 bytes (Header.Length 32), the decoder advances by 16 and finds the second
    element; nothing is lost (instance of `hello_roundtrip`) -/
theorem hello_padded_elements_roundtrip :
    let e1 := V.obj "HelloElemVersionBitmap" [.obj "HelloElemHeader" [.num 1, .num 12], .list [.num 5, .num 6]]
    let e2 := V.obj "HelloElemVersionBitmap" [.obj "HelloElemHeader" [.num 1, .num 8], .list [.num 18]]
    let v := V.obj "Hello" [.obj "Header" [.num 4, .num 0, .num 32, .num 7], .list [e1, e2]]
    let bs : Bytes := [4, 0, 0, 32, 0, 0, 0, 7,  0, 1, 0, 12, 0, 0, 0, 5, 0, 0, 0, 6, 0, 0, 0, 0,  0, 1, 0, 8, 0, 0, 0, 18]
    Hello.marshalM v = .ok (bs, v) ∧ parse 33 (Slice.exact bs) = .ok v :=
  ⟨rfl, rfl⟩

end OFV.Props.C05
