/-
  C13 (second part) — repeatability of the containers and of the whole `util.Message` interface:
  "Sizing and encoding are repeatable and do not disturb the value: asking a completed value for its size, or encoding
  it, any number of times and in any order gives the same answer every time, and neither operation changes what a later
  encoding or decoding of the same value produces.  Containers may therefore size and embed the same child repeatedly,
  as bundle and vendor wrappers and the stream do."

  Props/C13.lean proves `Pure2` / `Repeatable` (OFV/Lemmas/SizeRepeat.lean) for the leaf kinds, the actions, the
  instructions and the flat messages.  This file closes the list:

  (0) "any number of times and in any order", once and generically (`script_repeatable` …): for a `Repeatable` value
      that can be sized and encoded at all, ANY finite script of Len() / MarshalBinary() calls succeeds, every Len()
      returns the same size, every MarshalBinary() the same bytes, and the value settles: it is what Len() leaves while
      only Len() has been called, and what MarshalBinary() leaves from the first MarshalBinary() on — for ever.
  (1) PacketOut (`packetOut_repeatable_with`: for ANY repeatable payload functions; `packetOut_setData_repeatable`);
  (2) VendorHeader with every payload — ControllerID, TLVTableMod, BundleControl, nil, BundleAdd … — and BundleAdd
      wrapping any message, with properties (`vendorHeader_repeatable_with`, `bundleAdd_repeatable_with`, …);
  (3) MultipartRequest with every body, MultipartReply with any list of records, FlowStats;
  (4) PacketIn with ANY Ethernet frame: Ethernet / IPv4 / IPv6 for any repeatable payload (`ethernet_repeatable_with` …),
      every packet kind of package protocol through its `util.Message` dispatch at every depth
      (`proto_interface_repeatable`).  IPv4.Len() forces IHL ≥ 5 in the receiver: NOT pure (`ipv4_len_not_pure`),
      but idempotent, so a packet-in carrying a decoded IPv4 packet is still repeatable;
  (5) the interface theorem `interface_repeatable`: `Repeatable anyLenM anyMarshalM v` for EVERY value `v` — any of
      the 118 leaf kinds of the dispatch table, the five containers around any such value, containers in containers,
      to every nesting depth (`interface_repeatable_depth`); and `every_kind_repeatable`: every one of the 123 entries
      of the model's kind table.  "Containers may size and embed the same child repeatedly" (`embed_again`).

  All statements hold for EVERY value of the kind — no well-formedness hypothesis (the conclusions of `Repeatable` are
  about calls that succeed; the `example`s show values on which they do).  NO kind was found for which repeatability
  fails in the model; the only subtlety is (0): the value is not frozen after the first CALL but after the first
  ENCODING — a Len() followed by a MarshalBinary() still changes it once more (`len_then_marshal_changes_again`).
-/
import OFV.Model.All
import OFV.Props.C13
import OFV.Lemmas.RepCore
import OFV.Lemmas.RepProto
import OFV.Lemmas.RepMsg
import OFV.Lemmas.RepAny
namespace OFV.Props.C13b
open OFV OFV.Go OFV.Model OFV.Rep

/-- the value can be sized and encoded at all (the hypotheses of `Repeatable`'s four clauses are satisfiable) -/
def Encodable (lenM : V → R (UInt16 × V)) (marshalM : V → R (Bytes × V)) (v : V) : Prop :=
  ∃ l v1 bs v2, lenM v = .ok (l, v1) ∧ marshalM v = .ok (bs, v2)

/-! ### (0) any number of times, in any order -/

/-- ANY finite script of Len() / MarshalBinary() calls (`ops`, a list over the two-constructor type `CallOp`) on a
    repeatable value `v` that can be sized (`l`) and encoded (`bs`): the script succeeds; its answers are `l` for
    every Len() and `bs` for every MarshalBinary() (`scriptAnswers`); the value ends up (`scriptEnd`) untouched if no
    call was made, as `v1` (what Len() leaves) if only Len() was called, as `v2` (what MarshalBinary() leaves) as soon
    as MarshalBinary() was called once. -/
theorem script_repeatable {lenM : V → R (UInt16 × V)} {marshalM : V → R (Bytes × V)} {v : V}
    (hr : Repeatable lenM marshalM v) {l : UInt16} {v1 : V} {bs : Bytes} {v2 : V}
    (h1 : lenM v = .ok (l, v1)) (h2 : marshalM v = .ok (bs, v2)) (ops : List CallOp) :
    runScript lenM marshalM ops v = .ok (scriptAnswers l bs ops, scriptEnd v v1 v2 ops) :=
  runScript_repeatable hr h1 h2 ops

/-- … spelled out answer by answer: the i-th answer is the size `l` if the i-th call is Len(), the bytes `bs` if it is
    MarshalBinary() -/
theorem script_answer {lenM : V → R (UInt16 × V)} {marshalM : V → R (Bytes × V)} {v : V}
    (hr : Repeatable lenM marshalM v) {l : UInt16} {v1 : V} {bs : Bytes} {v2 : V}
    (h1 : lenM v = .ok (l, v1)) (h2 : marshalM v = .ok (bs, v2)) (ops : List CallOp) :
    ∃ outs v', runScript lenM marshalM ops v = .ok (outs, v') ∧ outs.length = ops.length ∧
      ∀ i (hi : i < ops.length) (ho : i < outs.length),
        (ops[i] = .len → outs[i] = .size l) ∧ (ops[i] = .mar → outs[i] = .bytes bs) := by
  refine ⟨_, _, runScript_repeatable hr h1 h2 ops, by simp [scriptAnswers], ?_⟩
  intro i hi ho
  simp only [scriptAnswers, List.getElem_map]
  constructor
  · intro e; rw [e]
  · intro e; rw [e]

/-- … and "after the first call the value no longer changes", precisely: whatever calls were made first (`ops`, at
    least one), one more Len() or MarshalBinary() gives the same answers as before; once MarshalBinary() has been called
    (`ops` contains `.mar`) no further call changes the value at all. -/
theorem script_settles {lenM : V → R (UInt16 × V)} {marshalM : V → R (Bytes × V)} {v : V}
    (hr : Repeatable lenM marshalM v) {l : UInt16} {v1 : V} {bs : Bytes} {v2 : V}
    (h1 : lenM v = .ok (l, v1)) (h2 : marshalM v = .ok (bs, v2)) (ops : List CallOp) (hne : ops ≠ []) :
    (∃ w, lenM (scriptEnd v v1 v2 ops) = .ok (l, w)) ∧ marshalM (scriptEnd v v1 v2 ops) = .ok (bs, v2) ∧
    (ops.any CallOp.isMar = true → lenM (scriptEnd v v1 v2 ops) = .ok (l, scriptEnd v v1 v2 ops) ∧
      marshalM (scriptEnd v v1 v2 ops) = .ok (bs, scriptEnd v v1 v2 ops)) := by
  have hl1 := hr.lenIdem l v1 h1
  have hm1 := hr.marAfterLen l v1 bs v2 h1 h2
  have hl2 := hr.lenAfterMar l v1 bs v2 h1 h2
  have hm2 := hr.marIdem bs v2 h2
  have hemp : ops.isEmpty = false := by cases ops <;> simp_all
  by_cases hm : ops.any CallOp.isMar = true
  · have e : scriptEnd v v1 v2 ops = v2 := by simp only [scriptEnd, hm, if_true]
    rw [e]
    exact ⟨⟨_, hl2⟩, hm2, fun _ => ⟨hl2, hm2⟩⟩
  · have e : scriptEnd v v1 v2 ops = v1 := by simp only [scriptEnd, hm, hemp, Bool.false_eq_true, if_false]
    rw [e]
    exact ⟨⟨_, hl1⟩, hm1, fun h => absurd h hm⟩

/-- the same for a value that can be sized but perhaps not encoded: n+1 calls of Len() all give the first answer -/
theorem len_script_repeatable {lenM : V → R (UInt16 × V)} {marshalM : V → R (Bytes × V)} {v : V}
    (hr : Repeatable lenM marshalM v) {l : UInt16} {v1 : V} (h1 : lenM v = .ok (l, v1)) (n : Nat) :
    runScript lenM marshalM (List.replicate (n + 1) .len) v = .ok (List.replicate (n + 1) (.size l), v1) :=
  runScript_lens hr.lenIdem h1 n

/-- …and for a value that can be encoded but perhaps not sized: n+1 calls of MarshalBinary() all give the first bytes -/
theorem marshal_script_repeatable {lenM : V → R (UInt16 × V)} {marshalM : V → R (Bytes × V)} {v : V}
    (hr : Repeatable lenM marshalM v) {bs : Bytes} {v2 : V} (h2 : marshalM v = .ok (bs, v2)) (n : Nat) :
    runScript lenM marshalM (List.replicate (n + 1) .mar) v = .ok (List.replicate (n + 1) (.bytes bs), v2) :=
  runScript_mars hr.marIdem h2 n

/-- "neither operation changes what a later decoding produces": whatever decoder is run on the bytes of any
    MarshalBinary() of the script, it sees the bytes of the first one -/
theorem later_decoding_same {lenM : V → R (UInt16 × V)} {marshalM : V → R (Bytes × V)} {v : V}
    (hr : Repeatable lenM marshalM v) {l : UInt16} {v1 : V} {bs : Bytes} {v2 : V}
    (h1 : lenM v = .ok (l, v1)) (h2 : marshalM v = .ok (bs, v2)) (ops : List CallOp) (dec : Bytes → R V)
    (outs : List CallOut) (v' : V) (hrun : runScript lenM marshalM ops v = .ok (outs, v')) :
    ∀ bs', CallOut.bytes bs' ∈ outs → dec bs' = dec bs := by
  rw [runScript_repeatable hr h1 h2 ops] at hrun
  cases hrun
  intro bs' hmem
  simp only [scriptAnswers, List.mem_map] at hmem
  obtain ⟨o, _, ho⟩ := hmem
  cases o
  · cases ho
  · cases ho; rfl

/-- the value is NOT in general frozen by the first call: Len() leaves a fresh ErrorMsg as it is, the MarshalBinary()
    that follows still stores `Header.Length` (8 ↦ 12).  From the first MarshalBinary() on it is frozen
    (`script_settles`). -/
theorem len_then_marshal_changes_again :
    ∃ v l v1 bs v2, ErrorMsg.lenM v = .ok (l, v1) ∧ ErrorMsg.marshalM v1 = .ok (bs, v2) ∧ v2 ≠ v1 := by
  refine ⟨ErrorMsg.new, 12, ErrorMsg.new, ?_⟩
  have hl : ErrorMsg.lenM ErrorMsg.new = .ok (12, ErrorMsg.new) := rfl
  have hm' : ∃ bs v2, ErrorMsg.marshalM ErrorMsg.new = .ok (bs, v2) ∧ v2 ≠ ErrorMsg.new :=
    ⟨_, _, rfl, by
      intro h
      simp only [ErrorMsg.new, msgOfpHeader, msgHdrType, newHeader, Header.setLength, V.u8, V.u16, V.u32, V.obj.injEq,
        List.cons.injEq, V.num.injEq, true_and, and_true] at h
      revert h; decide⟩
  obtain ⟨bs', v2', e1, e2⟩ := hm'
  exact ⟨bs', v2', hl, e1, e2⟩

/-! ### (1) PacketOut -/

/-- PacketOut, parameterised by the functions used for the payload: if these are repeatable on every value, so is the
    packet-out — although MarshalBinary() calls Len() twice, stores `Header.Length` and `ActionsLen`, and the actions
    and the payload may store things of their own -/
theorem packetOut_repeatable_with (childLen : MsgLenF) (childMar : MsgMarF)
    (hchild : ∀ d, Repeatable childLen childMar d) (v : V) :
    Repeatable (PacketOut.lenWith childLen) (PacketOut.marshalWith childLen childMar) v :=
  PacketOut.repeatableWith childLen childMar hchild v

/-- PacketOut as the library has it (payload through the `util.Message` interface): every value -/
theorem packetOut_repeatable (v : V) : Repeatable PacketOut.lenM PacketOut.marshalM v := PacketOut.repeatable v

/-- …in particular with the `util.Buffer` payload that `SetData` stores, whatever the packet-out held before -/
theorem packetOut_setData_repeatable (recv : V) (payload : Bytes) (v : V) (_h : PacketOut.setData recv payload = .ok v) :
    Repeatable PacketOut.lenM PacketOut.marshalM v := PacketOut.repeatable v

/-- NewPacketOut(); AddAction(NewActionOutput(7)); SetData(01 02 03) -/
def exPacketOut : V :=
  .obj "PacketOut" [msgOfpHeader Gen.openflow13.Type_PacketOut, .num 4294967295, .num Gen.openflow13.P_ANY, .num 16,
    .bytes (zeros 6), .list [ActionOutput.new 7], .obj "u.Buffer" [.bytes [1, 2, 3]]]

example : (do let p ← PacketOut.addAction PacketOut.new (ActionOutput.new 7); PacketOut.setData p [1, 2, 3]) = .ok exPacketOut := by
  rfl
example : Encodable PacketOut.lenM PacketOut.marshalM exPacketOut := ⟨_, _, _, _, rfl, rfl⟩
/-- a script on it: Len, Marshal, Len, Marshal, Marshal, Len — all sizes 43 -/
example : ∃ bs v', runScript PacketOut.lenM PacketOut.marshalM [.len, .mar, .len, .mar, .mar, .len] exPacketOut =
    .ok ([.size 43, .bytes bs, .size 43, .bytes bs, .bytes bs, .size 43], v') :=
  ⟨_, _, script_repeatable (packetOut_repeatable exPacketOut) (l := 43) rfl rfl _⟩

/-! ### (2) VendorHeader and BundleAdd -/

/-- VendorHeader, parameterised by the payload functions (repeatable on every value, failing on a nil interface):
    repeatable — with a payload of any kind and with a nil payload -/
theorem vendorHeader_repeatable_with (childLen : MsgLenF) (childMar : MsgMarF) (hchild : ChildOK childLen childMar) (v : V) :
    Repeatable (VendorHeader.lenWith childLen) (VendorHeader.marshalWith childLen childMar) v :=
  VendorHeader.repeatableWith childLen childMar hchild v

/-- VendorHeader as the library has it: every value, i.e. every payload kind -/
theorem vendorHeader_repeatable (v : V) : Repeatable VendorHeader.lenM VendorHeader.marshalM v := VendorHeader.repeatable v

/-- …a ControllerID payload (SetControllerId) -/
theorem vendorHeader_controllerID_repeatable (h vn t pad id : V) :
    Repeatable VendorHeader.lenM VendorHeader.marshalM (.obj "VendorHeader" [h, vn, t, .obj "ControllerID" [pad, id]]) :=
  VendorHeader.repeatable _
/-- …a TLVTableMod payload, with any list of maps -/
theorem vendorHeader_tlvTableMod_repeatable (h vn t c pad maps : V) :
    Repeatable VendorHeader.lenM VendorHeader.marshalM (.obj "VendorHeader" [h, vn, t, .obj "TLVTableMod" [c, pad, maps]]) :=
  VendorHeader.repeatable _
/-- …a BundleControl payload -/
theorem vendorHeader_bundleControl_repeatable (h vn t i ty fl : V) :
    Repeatable VendorHeader.lenM VendorHeader.marshalM (.obj "VendorHeader" [h, vn, t, .obj "BundleControl" [i, ty, fl]]) :=
  VendorHeader.repeatable _
/-- …no payload -/
theorem vendorHeader_nil_repeatable (h vn t : V) :
    Repeatable VendorHeader.lenM VendorHeader.marshalM (.obj "VendorHeader" [h, vn, t, .nil]) :=
  VendorHeader.repeatable _
/-- …a BundleAdd payload wrapping any message `m`, with any properties -/
theorem vendorHeader_bundleAdd_repeatable (h vn t i p f m ps : V) :
    Repeatable VendorHeader.lenM VendorHeader.marshalM
      (.obj "VendorHeader" [h, vn, t, .obj "BundleAdd" [i, p, f, m, ps]]) :=
  VendorHeader.repeatable _

/-- BundleAdd, parameterised by the functions used for the wrapped message: repeatable if they are, with any
    properties (which are encoded from copies and so never change) -/
theorem bundleAdd_repeatable_with (childLen : MsgLenF) (childMar : MsgMarF)
    (hchild : ∀ d, Repeatable childLen childMar d) (v : V) :
    Repeatable (BundleAdd.lenWith childLen) (BundleAdd.marshalWith childLen childMar) v :=
  BundleAdd.repeatableWith childLen childMar hchild v

/-- BundleAdd as the library has it: every value -/
theorem bundleAdd_repeatable (v : V) : Repeatable BundleAdd.lenM BundleAdd.marshalM v := BundleAdd.repeatable v

/-- SetControllerId(5) -/
def exVendorCID : V := VendorHeader.mk Gen.openflow13.NxExperimenterID Gen.openflow13.Type_SetControllerId
  (.obj "ControllerID" [.bytes (zeros 6), .num 5])
example : Encodable VendorHeader.lenM VendorHeader.marshalM exVendorCID := ⟨_, _, _, _, rfl, rfl⟩
/-- an experimenter message without payload -/
example : Encodable VendorHeader.lenM VendorHeader.marshalM (VendorHeader.mk 0x2320 0 .nil) := ⟨_, _, _, _, rfl, rfl⟩

/-- a bundle-add message wrapping a FlowMod (whose own MarshalBinary() stores its header length), with one property -/
def exBundleAdd : V := VendorHeader.mk Gen.openflow13.ONF_EXPERIMENTER_ID Gen.openflow13.Type_BundleAdd
  (.obj "BundleAdd" [.num 1, .bytes (zeros 2), .num 0, FlowMod.new 7,
    .list [.obj "BundlePropertyExperimenter" [.num Gen.openflow13.OFPBPT_EXPERIMENTER, .num 0, .num 1, .num 2, .bytes [9, 9, 9, 9]]]])
example : Encodable VendorHeader.lenM VendorHeader.marshalM exBundleAdd := ⟨_, _, _, _, rfl, rfl⟩
/-- the wrapper sizes and embeds the same FlowMod again and again: Marshal, Len, Marshal give one size and one encoding -/
example : ∃ l bs v', runScript VendorHeader.lenM VendorHeader.marshalM [.mar, .len, .mar] exBundleAdd =
    .ok ([.bytes bs, .size l, .bytes bs], v') :=
  ⟨_, _, _, script_repeatable (vendorHeader_repeatable exBundleAdd) rfl rfl _⟩

/-! ### (3) multipart messages -/

/-- MultipartRequest, parameterised by the body functions -/
theorem multipartRequest_repeatable_with (childLen : MsgLenF) (childMar : MsgMarF)
    (hchild : ∀ d, Repeatable childLen childMar d) (v : V) :
    Repeatable (MultipartRequest.lenWith childLen) (MultipartRequest.marshalWith childLen childMar) v :=
  MultipartRequest.repeatableWith childLen childMar hchild v

/-- MultipartRequest as the library has it: every value, i.e. every body kind (FlowStatsRequest,
    AggregateStatsRequest, PortStatsRequest, QueueStatsRequest, …) -/
theorem multipartRequest_repeatable (v : V) : Repeatable MultipartRequest.lenM MultipartRequest.marshalM v :=
  MultipartRequest.repeatable v

/-- MultipartReply, parameterised by the record functions: repeatable for ANY list of records if the record functions
    are (the errors of all records but the last are dropped by the encoder; that does not matter) -/
theorem multipartReply_repeatable_with (childLen : MsgLenF) (childMar : MsgMarF)
    (hchild : ∀ d, Repeatable childLen childMar d) (v : V) :
    Repeatable (MultipartReply.lenWith childLen) (MultipartReply.marshalWith childLen childMar) v :=
  MultipartReply.repeatableWith childLen childMar hchild v

/-- MultipartReply as the library has it: every value, i.e. any list of records of any kinds -/
theorem multipartReply_repeatable (v : V) : Repeatable MultipartReply.lenM MultipartReply.marshalM v :=
  MultipartReply.repeatable v

/-- FlowStats (one record of a flow-stats reply): Len() and MarshalBinary() thread what the instructions and their
    actions store; MarshalBinary() writes the STORED Length field and does not call Len() -/
theorem flowStats_repeatable (v : V) : Repeatable FlowStats.lenM FlowStats.marshalM v := FlowStats.repeatable v

/-- a flow-stats request -/
def exMpRequest : V := .obj "MultipartRequest" [msgOfpHeader Gen.openflow13.Type_MultiPartRequest,
  .num Gen.openflow13.MultipartType_Flow, .num 0, .bytes (zeros 4), FlowStatsRequest.new]
example : Encodable MultipartRequest.lenM MultipartRequest.marshalM exMpRequest := ⟨_, _, _, _, rfl, rfl⟩

/-- a flow-stats reply with two records; the second one carries an apply-actions instruction with an output action -/
def exMpReply : V := .obj "MultipartReply" [msgOfpHeader Gen.openflow13.Type_MultiPartReply,
  .num Gen.openflow13.MultipartType_Flow, .num 0, .bytes (zeros 4),
  .list [FlowStats.new,
    .obj "FlowStats" [.num 0, .num 0, .num 0, .num 0, .num 0, .num 0, .num 0, .num 0, .num 0, .bytes (zeros 4),
      .num 0, .num 0, .num 0, Match.new,
      .list [.obj "InstrActions" [.obj "InstrHeader" [.num Gen.openflow13.InstrType_APPLY_ACTIONS, .num 8], .bytes (zeros 4),
        .list [ActionOutput.new 3]]]]]]
example : Encodable MultipartReply.lenM MultipartReply.marshalM exMpReply := ⟨_, _, _, _, rfl, rfl⟩

/-! ### (4) packets: Ethernet, IPv4, IPv6, and PacketIn -/

/-- an Ethernet frame, parameterised by the payload functions -/
theorem ethernet_repeatable_with (L : V → R (UInt16 × V)) (M : V → R (Bytes × V)) (hchild : ChildOK L M) (v : V) :
    Repeatable (PEthernet.lenW L) (PEthernet.marshalW L M) v := PEthernet.repeatableW L M hchild v

/-- an IPv4 packet, parameterised by the payload functions.  IPv4.Len() stores `IHL = max(IHL, 5)` in the receiver;
    the second call finds that value and stores it again. -/
theorem ipv4_repeatable_with (L : V → R (UInt16 × V)) (M : V → R (Bytes × V)) (hchild : ChildOK L M) (v : V) :
    Repeatable (PIPv4.lenW L) (PIPv4.marshalW L M) v := PIPv4.repeatableW L M hchild v

/-- an IPv6 packet with its hop-by-hop / routing / fragment extension headers, parameterised by the payload functions -/
theorem ipv6_repeatable_with (L : V → R (UInt16 × V)) (M : V → R (Bytes × V)) (hchild : ChildOK L M) (v : V) :
    Repeatable (PIPv6.lenW L) (PIPv6.marshalW L M) v := PIPv6.repeatableW L M hchild v

/-- IPv4.Len() is NOT pure: `NewIPv4()` has IHL = 0 and comes back with IHL = 5 … -/
theorem ipv4_len_not_pure : ∃ v l v1, PIPv4.lenM v = .ok (l, v1) ∧ v1 ≠ v := PIPv4.lenM_not_pure

/-- …but forcing IHL ≥ 5 twice is forcing it once, for every 8-bit IHL -/
theorem ipv4_fix_ihl_idempotent (ihl : UInt8) : PIPv4.fixIHL (PIPv4.fixIHL ihl) = PIPv4.fixIHL ihl := PIPv4.fixIHL_idem ihl

/-- the `util.Message` interface of package protocol — what Ethernet, IPv4 and IPv6 call on their payloads — at every
    nesting depth `d`, for EVERY value: Ethernet (in Ethernet …), IPv4, IPv6, util.Buffer, VLAN, ARP, ICMP, TCP, UDP,
    the IGMP kinds, the IPv6 extension headers and options -/
theorem proto_interface_repeatable (d : Nat) (v : V) : Repeatable (protoAnyLenD d) (protoAnyMarshalD d) v :=
  (protoAny_childOK d).rep v

/-- an Ethernet frame carrying any packet: every value -/
theorem ethernet_repeatable (v : V) : Repeatable PEthernet.lenM PEthernet.marshalM v := PEthernet.repeatable v
/-- …with an opaque `util.Buffer` payload, whatever the other fields hold -/
theorem ethernet_buffer_repeatable (del dst src vlan et : V) (payload : List V) :
    Repeatable PEthernet.lenM PEthernet.marshalM (.obj "p.Ethernet" [del, dst, src, vlan, et, .obj "u.Buffer" payload]) :=
  PEthernet.repeatable _
/-- an IPv4 packet carrying any payload: every value -/
theorem ipv4_repeatable (v : V) : Repeatable PIPv4.lenM PIPv4.marshalM v := PIPv4.repeatable v
/-- an IPv6 packet carrying any payload: every value -/
theorem ipv6_repeatable (v : V) : Repeatable PIPv6.lenM PIPv6.marshalM v := PIPv6.repeatable v
/-- ARP, ICMP, UDP, TCP store nothing -/
theorem arp_pure (v : V) : Pure2 PARP.lenM PARP.marshalM v := PARP.pure2 v
theorem icmp_pure (v : V) : Pure2 PICMP.lenM PICMP.marshalM v := PICMP.pure2 v
theorem udp_pure (v : V) : Pure2 PUDP.lenM PUDP.marshalM v := PUDP.pure2 v
theorem tcp_pure (v : V) : Pure2 PTCP.lenM PTCP.marshalM v := PTCP.pure2 v

/-- PacketIn carrying ANY Ethernet frame — in particular any packet the decoder produced (ARP; IPv4 with ICMP / UDP /
    opaque payload; IPv6 with extension headers and ICMPv6 / UDP / opaque payload; opaque) -/
theorem packetIn_repeatable (v : V) : Repeatable PacketIn.lenM PacketIn.marshalM v := PacketIn.repeatable v

/-- Ethernet(IPv4(UDP "hi")) with the IPv4 header as `NewIPv4()` leaves it (IHL = 0) -/
def exFrame : V :=
  .obj "p.Ethernet" [.num 0, .bytes [1, 2, 3, 4, 5, 6], .bytes [7, 8, 9, 10, 11, 12], PVLAN.new, .num 0x800,
    .obj "p.IPv4" [.num 4, .num 0, .num 0, .num 0, .num 30, .num 0, .num 0, .num 0, .num 64, .num 17, .num 0,
      .bytes [10, 0, 0, 1], .bytes [10, 0, 0, 2], UBuffer.zero,
      .obj "p.UDP" [.num 53, .num 53, .num 10, .num 0, .bytes [104, 105]]]]

/-- a packet-in carrying that frame -/
def exPacketIn : V := .obj "PacketIn" [msgOfpHeader Gen.openflow13.Type_PacketIn, .num 4294967295, .num 44, .num 0, .num 0, .num 0,
  Match.new, .bytes [0, 0], exFrame]

example : Encodable PacketIn.lenM PacketIn.marshalM exPacketIn := ⟨_, _, _, _, rfl, rfl⟩
/-- Len() does modify this packet-in (the IHL deep inside) … -/
example : ∃ l v1, PacketIn.lenM exPacketIn = .ok (l, v1) ∧ v1 ≠ exPacketIn := by
  refine ⟨_, _, rfl, ?_⟩
  intro h
  simp only [exPacketIn, exFrame, V.u8, V.obj.injEq, List.cons.injEq, V.num.injEq, true_and, and_true] at h
  revert h; decide
/-- … and still every script gives one size and one encoding -/
example : ∃ l bs v', runScript PacketIn.lenM PacketIn.marshalM [.len, .len, .mar, .len, .mar] exPacketIn =
    .ok ([.size l, .size l, .bytes bs, .size l, .bytes bs], v') :=
  ⟨_, _, _, script_repeatable (packetIn_repeatable exPacketIn) rfl rfl _⟩

/-- an IPv6 packet with a hop-by-hop header (one option) and a fragment header, carrying ICMPv6 -/
def exIPv6 : V :=
  .obj "p.IPv6" [.num 6, .num 0, .num 0, .num 20, .num 0, .num 64, .bytes (zeros 16), .bytes (zeros 16),
    .obj "p.HopByHopHeader" [.num 44, .num 0, .list [.obj "p.Option" [.num 1, .num 4, .bytes [0, 0, 0, 0]]]],
    .nil,
    .obj "p.FragmentHeader" [.num 58, .num 0, .num 0, .num 0, .num 77],
    .obj "p.ICMP" [.num 128, .num 0, .num 0, .bytes [1, 2, 3, 4]]]
example : Encodable PIPv6.lenM PIPv6.marshalM exIPv6 := ⟨_, _, _, _, rfl, rfl⟩

/-! ### (5) the interface theorem -/

/-- **Len() / MarshalBinary() through the `util.Message` interface are repeatable for EVERY value** — whatever its
    kind (118 leaf kinds of the dispatch table and the five containers PacketOut, VendorHeader, BundleAdd,
    MultipartRequest, MultipartReply), whatever its fields hold, however deeply containers are nested. -/
theorem interface_repeatable (v : V) : Repeatable anyLenM anyMarshalM v := any_repeatable v

/-- …at every depth bound of the dispatch (the model's `anyLenM` uses 8) -/
theorem interface_repeatable_depth (d : Nat) (v : V) : Repeatable (msgAnyLenD d) (msgAnyMarshalD d) v :=
  (msgAny_childOK d).rep v

/-- …so the interface functions are what every container needs from its child functions (`ChildOK`) -/
theorem interface_childOK : ChildOK anyLenM anyMarshalM := any_childOK

/-- every one of the 123 kinds of the model's kind table `kinds` (all Go types with Len / MarshalBinary): repeatable on
    every value, and Len() / MarshalBinary() return a value of the receiver's dynamic type -/
theorem every_kind_repeatable (k : String) (ops : KindOps) (h : kinds.lookup k = some ops) :
    (∀ v, Repeatable ops.lenM ops.marshalM v) ∧
    (∀ v l v1, v.kind = k → ops.lenM v = .ok (l, v1) → v1.kind = k) ∧
    (∀ v bs v2, v.kind = k → ops.marshalM v = .ok (bs, v2) → v2.kind = k) :=
  let ok := kinds_lookup_ok k ops h
  ⟨ok.rep, ok.lenKind, ok.marKind⟩

/-- "Containers may size and embed the same child repeatedly": once a child has been sized and encoded by one
    container (or by the stream), any other container that sizes and encodes it again — any number of times, in any
    order — gets the same size and the same bytes, and leaves the child as it found it. -/
theorem embed_again (child : V) (l : UInt16) (c1 : V) (bs : Bytes) (c2 : V)
    (h1 : anyLenM child = .ok (l, c1)) (h2 : anyMarshalM child = .ok (bs, c2)) (ops : List CallOp) :
    runScript anyLenM anyMarshalM ops c2 = .ok (scriptAnswers l bs ops, c2) :=
  runScript_from_mar ((interface_repeatable child).lenAfterMar l c1 bs c2 h1 h2) ((interface_repeatable child).marIdem bs c2 h2) ops

/-- three levels: a vendor header around a bundle-add around a packet-out around a buffer -/
def exNested : V := VendorHeader.mk Gen.openflow13.ONF_EXPERIMENTER_ID Gen.openflow13.Type_BundleAdd
  (.obj "BundleAdd" [.num 1, .bytes (zeros 2), .num 0, exPacketOut, .list []])
example : Encodable anyLenM anyMarshalM exNested := ⟨_, _, _, _, rfl, rfl⟩
example : ∃ l bs v', runScript anyLenM anyMarshalM [.mar, .mar, .len, .mar, .len] exNested =
    .ok ([.bytes bs, .bytes bs, .size l, .bytes bs, .size l], v') :=
  ⟨_, _, _, script_repeatable (interface_repeatable exNested) rfl rfl _⟩

/-! ### the kinds whose codecs changed with the repaired library (8-byte TTL setters and meter instruction, padded hello
    element that stores its Length, one-byte Pad1 option), through the interface -/

/-- a Hello whose version-bitmap element holds a stale Length (0): MarshalBinary() now stores 8 in the element — the
    element is no longer pure (`C13.helloElemVersionBitmap_not_pure`) but every script still gives one size and one
    encoding -/
def exHello : V := .obj "Hello" [msgOfpHeader Gen.openflow13.Type_Hello,
  .list [.obj "HelloElemVersionBitmap" [.obj "HelloElemHeader" [.num 1, .num 0], .list [.num 18]]]]
example : Encodable anyLenM anyMarshalM exHello := ⟨_, _, _, _, rfl, rfl⟩
example : ∃ l bs v', runScript anyLenM anyMarshalM [.len, .mar, .mar, .len, .mar] exHello =
    .ok ([.size l, .bytes bs, .bytes bs, .size l, .bytes bs], v') :=
  ⟨_, _, _, script_repeatable (interface_repeatable exHello) rfl rfl _⟩
example : anyMarshalM (ActionMplsTtl.new 7) = .ok ([0, 15, 0, 8, 7, 0, 0, 0], ActionMplsTtl.new 7) := rfl
example : Encodable anyLenM anyMarshalM (ActionNwTtl.new 9) := ⟨_, _, _, _, rfl, rfl⟩
example : anyMarshalM (InstrMeter.new 5) = .ok ([0, 6, 0, 8, 0, 0, 0, 5], InstrMeter.new 5) := rfl
example : anyMarshalM (.obj "p.Option" [.num 0, .num 0, .bytes []]) =
    .ok ([0], .obj "p.Option" [.num 0, .num 0, .bytes []]) := rfl

end OFV.Props.C13b
