/-
  C04b — parsed messages expose exactly what a conforming switch put on the wire: the CONTENTS.

  OFV/Props/C04.lean proves the frame-level statements and leaves three hypotheses generic: "the match decodes", "the
  Ethernet frame decodes", "the instruction list decodes".  This file discharges them for the contents a switch really
  sends, always from the byte layout of the specifications (OpenFlow 1.3.5, IEEE 802.3/802.1Q, RFC 791/792/768/826/8200/
  4443, the ONF and Nicira extensions) spelled out with `be16/be32/be64`, explicit pads and explicit bit arithmetic — an
  encoder that shares nothing with the library — and concludes with the exact decoded value.

  1. Packet payloads (`Sw2.Dec f bytes value`: decoder `f` maps EVERY well-formed slice showing `bytes` to `value`;
     `FrameDec` = that for the Ethernet decoder packet-in uses, i.e. hypothesis `he` of `C04.packetIn_gen`):
       eth_untagged, eth_tagged           Ethernet II without / with an 802.1Q tag (PCP, DEI, VID from the TCI bits), any
                                          ethertype and any decodable payload
       l3_ipv4, l3_ipv6, l3_arp, l3_other what follows the ethertype
       ipv4_packet                        IPv4 header (IHL 5; DSCP/ECN, total length, id, flags/fragment offset, TTL,
                                          protocol, checksum, addresses) with any decodable payload
       l4_icmp, l4_udp, l4_other          ICMP (type, code, checksum, data), UDP (ports, length, checksum, data), any
                                          other protocol (opaque bytes) behind IPv4
       arp_packet                         Ethernet/IPv4 ARP
       ipv6_packet                        IPv6 header (version, traffic class, flow label, payload length, next header,
                                          hop limit, addresses), any walked chain of extension headers, any payload
       chain_none, chain_hbh, chain_frag, chain_hbh_frag
                                          no extension header; hop-by-hop header with one 4-byte option (PadN; type ≠ 0);
                                          fragment header; both
       chain_hbh_options, chain_hbh_pad1, chain_hbh_routerAlert_pad1
                                          hop-by-hop header with ANY list of options (`Sw2.Opt`: Pad1 = one zero byte, or
                                          type/length/data); Pad1 + PadN(3); router alert + two Pad1
       u6_icmpv6, u6_udp, u6_other        ICMPv6, UDP, any other upper-layer protocol behind IPv6
       frame_ipv4_icmp, frame_vlan_ipv4_udp, frame_vlan_ipv4_other, frame_vlan_arp, frame_ipv6_icmpv6,
       frame_ipv6_hbh_icmpv6, frame_ipv6_hbhOptions_icmpv6, frame_vlan_ipv6_hbh_frag_udp, frame_ipv6_frag_other
                                          composed frames
       packetIn_of                        packet-in with ANY decodable match and ANY decodable frame
       packetIn_ipv4_icmp, packetIn_vlan_ipv4_udp, packetIn_vlan_arp, packetIn_ipv6_icmpv6, packetIn_ipv6_hbhOptions_icmpv6,
       packetIn_vlan_ipv6_hbh_frag_udp, packetIn_ipv6_frag_other   packet-in carrying these frames (any decodable match)
  2. Matches:
       oxm_basic                          every OXM TLV of class OFPXMC_OPENFLOW_BASIC for which the library has a
                                          decoder (31 of the 40 fields of OpenFlow 1.3.5), with or without mask
       oxm_onf_tcpFlags(_masked), oxm_onf_actsetOutput   ONF experimenter TLVs (class 0xffff, experimenter 0x4f4e4600)
       oxm_nxm_reg(_masked)               Nicira registers (class 1, fields 0..15)
       match_of_tlvs, match_oxm           an `ofp_match` holding ANY list of decodable TLVs / of basic-class fields
       flowRemoved_match, packetIn_match  flow-removed / packet-in with such a match
  3. Instructions and actions:
       action_output, action_setField, action_resubmitTable, action_setNwTtl, action_setMplsTtl, action_headerOnly
       (copy_ttl_out, copy_ttl_in, dec_mpls_ttl, dec_nw_ttl, pop_pbb), instruction_gotoTable, instruction_meter,
       instruction_writeMetadata, action_setField_vlanVid, instruction_actions
                                          one action / instruction from its bytes (apply-actions, write-actions,
                                          clear-actions with ANY list of decodable actions)
       instructions_of_list               any list of decodable instructions as the instruction part of a flow-stats record
       flowStatsReply_records             multipart flow-stats reply with ANY number of records, each with any decodable
                                          match and instruction list
       flowStatsReply_two                 two records: in_port match, [apply-actions [output, set-field, resubmit-table],
                                          goto-table, write-metadata]; and empty match, no instructions

  4. Contents the library used to reject (counterexamples of the previous round, now positive after the repairs):
       flowStatsReply_instructions        flow-stats reply, one record, any decodable match, ANY decodable instruction list
       flowStatsReply_meter               … whose instruction list holds a meter instruction (any 32-bit meter id) anywhere
       ttlActions_dec, instruction_ttlActions, flowStatsReply_setNwTtl
                                          set_nw_ttl, set_mpls_ttl, copy_ttl_out, copy_ttl_in, dec_mpls_ttl, pop_pbb (8 bytes
                                          each) inside any action list; the formerly rejected reply with set_nw_ttl
       packetIn_ipv6_pad1                 the formerly rejected packet-in (hop-by-hop header Pad1 + PadN) with its value

  COUNTEREXAMPLES — conforming contents that Parse does NOT hand over (an error for the whole message):
       packetIn_unsupportedField_rejected   a match that contains in_phy_port (1), vlan_pcp (7), ip_ecn (9), mpls_tc (35),
                                            pbb_isid (37) or ipv6_exthdr (39) — in_phy_port is part of every packet-in of
                                            a switch with logical ports
       flowStatsReply_unsupportedField_rejected, flowStatsReply_vlanPcp_rejected
                                            the same in a flow-stats record (after any decodable records, whatever
                                            follows); for vlan_vid + vlan_pcp this reply used to SUCCEED with the vlan_pcp
                                            silently dropped — the multipart loop now returns the first record's error
  Remarks (not defects of C04): the decoders take everything behind a header as payload — an Ethernet trailer (padding of
  a short frame) ends up in the UDP / ICMP data; IPv4 addresses inside a match come back in the 16-byte `net.IP` form.

  Helper lemmas: OFV/Lemmas/Sw2Eth.lean, Sw2Ip6.lean, Sw2Match.lean, Sw2Instr.lean, Sw2Flow.lean.
-/
import OFV.Model.All
import OFV.Props.C04
import OFV.Lemmas.Sw2Eth
import OFV.Lemmas.Sw2Ip6
import OFV.Lemmas.Sw2Match
import OFV.Lemmas.Sw2Instr
import OFV.Lemmas.Sw2Flow
namespace OFV.Props.C04b
open OFV OFV.Go OFV.Model OFV.Props.C04

/-! ## 1. Packet payloads -/

/-- the Ethernet decoder packet-in uses maps every well-formed slice showing `eb` to `ev` (hypothesis `he` of
    `C04.packetIn_gen`) -/
abbrev FrameDec (eb : Bytes) (ev : V) : Prop := Sw2.Dec (PEthernet.unmarshal PEthernet.zero) eb ev

theorem dec_congr {f : Slice → R V} {b b' : Bytes} {v : V} (h : b = b') (hd : Sw2.Dec f b' v) : Sw2.Dec f b v := by
  rw [h]; exact hd

theorem ofNat8_toNat (n : Nat) (h : n < 256) : (UInt8.ofNat n).toNat = n := Sw2.ofNat8_toNat n h

/-! ### transport and other leaf payloads -/

/-- ICMP / ICMPv6 message: type(1), code(1), checksum(2), data -/
def icmpBytes (ty code : UInt8) (checksum : UInt16) (data : Bytes) : Bytes := [ty, code] ++ be16 checksum ++ data

/-- `p.ICMP(Type,Code,Checksum,Data)` -/
def icmpV (ty code : UInt8) (checksum : UInt16) (data : Bytes) : V :=
  .obj "p.ICMP" [.num ty.toNat, .num code.toNat, .num checksum.toNat, .bytes data]

/-- UDP datagram: source port(2), destination port(2), length(2), checksum(2), data -/
def udpBytes (sport dport len checksum : UInt16) (data : Bytes) : Bytes :=
  be16 sport ++ be16 dport ++ be16 len ++ be16 checksum ++ data

/-- `p.UDP(PortSrc,PortDst,Length,Checksum,Data)` -/
def udpV (sport dport len checksum : UInt16) (data : Bytes) : V :=
  .obj "p.UDP" [.num sport.toNat, .num dport.toNat, .num len.toNat, .num checksum.toNat, .bytes data]

/-- behind an IPv4 header with protocol 1: the ICMP message, field by field, every data byte kept -/
theorem l4_icmp (ty code : UInt8) (checksum : UInt16) (data : Bytes) :
    Sw2.Dec (Sw2.ip4Data 1) (icmpBytes ty code checksum data) (icmpV ty code checksum data) :=
  Sw2.ip4Data_icmp _ _ (dec_congr (by simp only [icmpBytes, List.append_assoc]) (Sw2.icmp_dec _ ty code checksum data))

/-- behind an IPv4 header with protocol 17: the UDP datagram -/
theorem l4_udp (sport dport len checksum : UInt16) (data : Bytes) :
    Sw2.Dec (Sw2.ip4Data 17) (udpBytes sport dport len checksum data) (udpV sport dport len checksum data) :=
  Sw2.ip4Data_udp _ _ (dec_congr (by simp only [udpBytes, List.append_assoc]) (Sw2.udp_dec sport dport len checksum data))

/-- behind an IPv4 header with any other protocol (TCP, SCTP, GRE …): the bytes, untouched -/
theorem l4_other (proto : UInt8) (h1 : proto.toNat ≠ 1) (h17 : proto.toNat ≠ 17) (payload : Bytes) :
    Sw2.Dec (Sw2.ip4Data proto) payload (.obj "u.Buffer" [.bytes payload]) :=
  Sw2.ip4Data_other proto h1 h17 payload

/-! ### IPv4 -/

/-- the fields of an IPv4 header without options (version 4, IHL 5) -/
structure Ipv4Hdr where
  dscp : Nat
  ecn : Nat
  totalLen : UInt16
  ident : UInt16
  flags : Nat
  fragOff : Nat
  ttl : UInt8
  proto : UInt8
  checksum : UInt16
  src : Bytes
  dst : Bytes

namespace Ipv4Hdr
/-- sub-byte fields within their widths, 4-byte addresses -/
def OK (h : Ipv4Hdr) : Prop :=
  h.dscp < 64 ∧ h.ecn < 4 ∧ h.flags < 8 ∧ h.fragOff < 8192 ∧ h.src.length = 4 ∧ h.dst.length = 4
instance (h : Ipv4Hdr) : Decidable h.OK := by unfold OK; infer_instance
/-- RFC 791: version(4 bits) IHL(4) | DSCP(6) ECN(2) | total length(2) | identification(2) | flags(3) fragment offset(13) |
    TTL(1) | protocol(1) | header checksum(2) | source(4) | destination(4) -/
def bytes (h : Ipv4Hdr) : Bytes :=
  [0x45, UInt8.ofNat (h.dscp * 4 + h.ecn)] ++ be16 h.totalLen ++ be16 h.ident ++ be16 (UInt16.ofNat (h.flags * 8192 + h.fragOff))
    ++ [h.ttl, h.proto] ++ be16 h.checksum ++ h.src ++ h.dst
/-- `p.IPv4(Version,IHL,DSCP,ECN,Length,Id,Flags,FragmentOffset,TTL,Protocol,Checksum,NWSrc,NWDst,Options,Data)` -/
def val (h : Ipv4Hdr) (payload : V) : V :=
  .obj "p.IPv4" [.num 4, .num 5, .num h.dscp, .num h.ecn, .num h.totalLen.toNat, .num h.ident.toNat, .num h.flags,
    .num h.fragOff, .num h.ttl.toNat, .num h.proto.toNat, .num h.checksum.toNat, .bytes h.src, .bytes h.dst,
    .obj "u.Buffer" [.bytes []], payload]
end Ipv4Hdr

/-- an IPv4 packet: every header field comes back from its own bits, the payload is whatever its decoder yields -/
theorem ipv4_packet (h : Ipv4Hdr) (hok : h.OK) (pb : Bytes) (pv : V) (hp : Sw2.Dec (Sw2.ip4Data h.proto) pb pv) :
    Sw2.Dec (PIPv4.unmarshal PIPv4.zero) (h.bytes ++ pb) (h.val pv) := by
  obtain ⟨h1, h2, h3, h4, h5, h6⟩ := hok
  have hb1 : (UInt8.ofNat (h.dscp * 4 + h.ecn)).toNat = h.dscp * 4 + h.ecn := ofNat8_toNat _ (by omega)
  have hw : (UInt16.ofNat (h.flags * 8192 + h.fragOff)).toNat = h.flags * 8192 + h.fragOff := Sw.ofNat16_toNat _ (by omega)
  have := Sw2.ipv4_dec 0x45 (UInt8.ofNat (h.dscp * 4 + h.ecn)) h.totalLen h.ident (UInt16.ofNat (h.flags * 8192 + h.fragOff))
    h.ttl h.proto h.checksum h.src h.dst pb pv rfl h5 h6 hp
  rw [hb1, hw] at this
  have e1 : (h.dscp * 4 + h.ecn) / 4 = h.dscp := by omega
  have e2 : (h.dscp * 4 + h.ecn) % 4 = h.ecn := by omega
  have e3 : (h.flags * 8192 + h.fragOff) / 8192 = h.flags := by omega
  have e4 : (h.flags * 8192 + h.fragOff) % 8192 = h.fragOff := by omega
  rw [e1, e2, e3, e4] at this
  exact dec_congr (by simp only [Ipv4Hdr.bytes, List.append_assoc]) this

/-! ### ARP -/

/-- an Ethernet/IPv4 ARP packet (layout `C04.arpBytes`) decodes to its operation and four addresses -/
theorem arp_packet (oper : UInt16) (sha spa tha tpa : Bytes) (hsha : sha.length = 6) (hspa : spa.length = 4)
    (htha : tha.length = 6) (htpa : tpa.length = 4) :
    Sw2.Dec (PARP.unmarshal PARP.zero) (arpBytes oper sha spa tha tpa)
      (.obj "p.ARP" [.num 1, .num 0x0800, .num 6, .num 4, .num oper.toNat, .bytes sha, .bytes spa, .bytes tha, .bytes tpa]) :=
  dec_congr (by simp only [arpBytes, List.append_assoc]) (Sw2.arp_dec oper sha spa tha tpa hsha hspa htha htpa)

/-! ### IPv6 -/

/-- the fields of the IPv6 fixed header (version 6) -/
structure Ipv6Hdr where
  trafficClass : Nat
  flowLabel : Nat
  payloadLen : UInt16
  nextHeader : UInt8
  hopLimit : UInt8
  src : Bytes
  dst : Bytes

namespace Ipv6Hdr
def OK (h : Ipv6Hdr) : Prop := h.trafficClass < 256 ∧ h.flowLabel < 1048576 ∧ h.src.length = 16 ∧ h.dst.length = 16
instance (h : Ipv6Hdr) : Decidable h.OK := by unfold OK; infer_instance
/-- RFC 8200: version(4 bits) traffic class(8) flow label(20) | payload length(2) | next header(1) | hop limit(1) |
    source(16) | destination(16) -/
def bytes (h : Ipv6Hdr) : Bytes :=
  be32 (UInt32.ofNat (6 * 268435456 + h.trafficClass * 1048576 + h.flowLabel)) ++ be16 h.payloadLen
    ++ [h.nextHeader, h.hopLimit] ++ h.src ++ h.dst
/-- `p.IPv6(Version,TrafficClass,FlowLabel,Length,NextHeader,HopLimit,NWSrc,NWDst,HbhHeader,RoutingHeader,FragmentHeader,Data)` -/
def val (h : Ipv6Hdr) (hbh rt fr payload : V) : V :=
  .obj "p.IPv6" [.num 6, .num h.trafficClass, .num h.flowLabel, .num h.payloadLen.toNat, .num h.nextHeader.toNat,
    .num h.hopLimit.toNat, .bytes h.src, .bytes h.dst, hbh, rt, fr, payload]
end Ipv6Hdr

/-- an IPv6 packet: fixed header, extension headers `eb` (any chain the decoder walks: `Sw2.Chain`), upper-layer payload -/
theorem ipv6_packet (h : Ipv6Hdr) (hok : h.OK) (eb pb : Bytes) (nxt : UInt8) (hbh rt fr pv : V)
    (hx : Sw2.Chain h.nextHeader eb nxt hbh rt fr) (hp : Sw2.Dec (Sw2.ip6Data nxt) pb pv) :
    Sw2.Dec (PIPv6.unmarshal PIPv6.zero) (h.bytes ++ eb ++ pb) (h.val hbh rt fr pv) := by
  obtain ⟨h1, h2, h3, h4⟩ := hok
  have hw : (UInt32.ofNat (6 * 268435456 + h.trafficClass * 1048576 + h.flowLabel)).toNat
      = 6 * 268435456 + h.trafficClass * 1048576 + h.flowLabel := by
    simp only [UInt32.toNat_ofNat']
    omega
  have := Sw2.ipv6_dec (UInt32.ofNat (6 * 268435456 + h.trafficClass * 1048576 + h.flowLabel)) h.payloadLen h.nextHeader
    h.hopLimit h.src h.dst eb pb nxt hbh rt fr pv h3 h4 hx hp
  rw [hw] at this
  have e1 : (6 * 268435456 + h.trafficClass * 1048576 + h.flowLabel) / 268435456 = 6 := by omega
  have e2 : (6 * 268435456 + h.trafficClass * 1048576 + h.flowLabel) / 1048576 % 256 = h.trafficClass := by omega
  have e3 : (6 * 268435456 + h.trafficClass * 1048576 + h.flowLabel) % 1048576 = h.flowLabel := by omega
  rw [e1, e2, e3] at this
  exact dec_congr (by simp only [Ipv6Hdr.bytes, List.append_assoc]) this

/-- no extension header: the next-header field names the upper-layer protocol -/
theorem chain_none (nh : UInt8) (h : Sw2.Upper nh) : Sw2.Chain nh [] nh .nil .nil .nil := Sw2.chain_none nh h

/-- hop-by-hop options header (next header 0 in the fixed header): next header(1), hdr ext len 0, one option of type
    `oty` with 4 data bytes (PadN: type 1, four zero bytes) -/
def hbhBytes (nh oty : UInt8) (optData : Bytes) : Bytes := [nh, 0, oty, 4] ++ optData

/-- `p.HopByHopHeader(NextHeader,HEL,[p.Option(Type,Length,Data)])` -/
def hbhV (nh oty : UInt8) (optData : Bytes) : V :=
  .obj "p.HopByHopHeader" [.num nh.toNat, .num 0, .list [.obj "p.Option" [.num oty.toNat, .num 4, .bytes optData]]]

/-- (`oty ≠ 0`: type 0 is Pad1, which has neither length nor data — see `chain_hbh_pad1`) -/
theorem chain_hbh (nh oty : UInt8) (hoty : oty.toNat ≠ 0) (optData : Bytes) (hod : optData.length = 4) (h : Sw2.Upper nh) :
    Sw2.Chain 0 (hbhBytes nh oty optData) nh (hbhV nh oty optData) .nil .nil := Sw2.chain_hbh nh oty hoty optData hod h

/-- hop-by-hop options header in general: next header(1), hdr ext len(1), then ANY list of options (`Sw2.Opt`: Pad1 = the
    single byte 0; every other option = type ≠ 0, data length, data) filling the `8 * (hdr ext len + 1)` bytes -/
def hbhOptsBytes (nh hel : UInt8) (os : List Sw2.Opt) : Bytes := [nh, hel] ++ Sw2.optsBytes os

/-- every option comes back, in order: `p.HopByHopHeader(nh, hel, [p.Option(type, length, data) …])`, a Pad1 as
    `p.Option(0, 0, [])` -/
theorem chain_hbh_options (nh hel : UInt8) (os : List Sw2.Opt) (hos : ∀ o ∈ os, o.OK)
    (hlen : 2 + (Sw2.optsBytes os).length = 8 * (hel.toNat + 1)) (h : Sw2.Upper nh) :
    Sw2.Chain 0 (hbhOptsBytes nh hel os) nh (Sw2.hbhOptsV nh hel os) .nil .nil := Sw2.chain_hbh_opts nh hel os hos hlen h

/-- the padding of RFC 8200: a Pad1 option followed by PadN with three data bytes (00 | 01 03 00 00 00) … -/
theorem chain_hbh_pad1 (nh : UInt8) (h : Sw2.Upper nh) :
    Sw2.Chain 0 [nh, 0, 0, 1, 3, 0, 0, 0] nh
      (.obj "p.HopByHopHeader" [.num nh.toNat, .num 0, .list [.obj "p.Option" [.num 0, .num 0, .bytes []],
        .obj "p.Option" [.num 1, .num 3, .bytes [0, 0, 0]]]]) .nil .nil :=
  Sw2.chain_hbh_pad1_padN nh h

/-- … and a router-alert option (type 5, length 2, value) followed by two Pad1 options (MLD, RSVP) -/
theorem chain_hbh_routerAlert_pad1 (nh : UInt8) (value : UInt16) (h : Sw2.Upper nh) :
    Sw2.Chain 0 ([nh, 0, 5, 2] ++ (be16 value ++ [0, 0])) nh
      (.obj "p.HopByHopHeader" [.num nh.toNat, .num 0, .list [.obj "p.Option" [.num 5, .num 2, .bytes (be16 value)],
        .obj "p.Option" [.num 0, .num 0, .bytes []], .obj "p.Option" [.num 0, .num 0, .bytes []]]]) .nil .nil :=
  Sw2.chain_hbh_routerAlert_pad1 nh value h

/-- fragment header (next header 44): next header(1), reserved(1), fragment offset(13 bits) res(2 bits, zero) M(1 bit),
    identification(4) -/
def fragBytes (nh : UInt8) (offset : Nat) (more : Bool) (ident : UInt32) : Bytes :=
  [nh, 0] ++ be16 (UInt16.ofNat (offset * 8 + (if more then 1 else 0))) ++ be32 ident

/-- `p.FragmentHeader(NextHeader,Reserved,FragmentOffset,MoreFragments,Identification)` -/
def fragV (nh : UInt8) (offset : Nat) (more : Bool) (ident : UInt32) : V :=
  .obj "p.FragmentHeader" [.num nh.toNat, .num 0, .num offset, .num (if more then 1 else 0), .num ident.toNat]

theorem fragV_eq (nh : UInt8) (offset : Nat) (more : Bool) (ident : UInt32) (hoff : offset < 8192) :
    Sw2.fragV nh 0 (UInt16.ofNat (offset * 8 + (if more then 1 else 0))) ident = fragV nh offset more ident := by
  have hw : (UInt16.ofNat (offset * 8 + (if more then 1 else 0))).toNat = offset * 8 + (if more then 1 else 0) :=
    Sw.ofNat16_toNat _ (by cases more <;> simp <;> omega)
  unfold Sw2.fragV fragV
  rw [hw]
  have e1 : (offset * 8 + (if more then 1 else 0)) / 8 = offset := by cases more <;> simp <;> omega
  have e2 : (offset * 8 + (if more then 1 else 0)) % 2 = (if more then 1 else 0) := by cases more <;> simp <;> omega
  rw [e1, e2]
  rfl

theorem chain_frag (nh : UInt8) (offset : Nat) (more : Bool) (ident : UInt32) (hoff : offset < 8192) (h : Sw2.Upper nh) :
    Sw2.Chain 44 (fragBytes nh offset more ident) nh .nil .nil (fragV nh offset more ident) := by
  have := Sw2.chain_frag nh 0 (UInt16.ofNat (offset * 8 + (if more then 1 else 0))) ident h
  rw [fragV_eq nh offset more ident hoff] at this
  simpa only [fragBytes, List.append_assoc] using this

/-- hop-by-hop header followed by a fragment header -/
theorem chain_hbh_frag (oty : UInt8) (hoty : oty.toNat ≠ 0) (optData : Bytes) (hod : optData.length = 4) (nh : UInt8) (offset : Nat)
    (more : Bool) (ident : UInt32) (hoff : offset < 8192) (h : Sw2.Upper nh) :
    Sw2.Chain 0 (hbhBytes 44 oty optData ++ fragBytes nh offset more ident) nh (hbhV 44 oty optData) .nil
      (fragV nh offset more ident) := by
  have := Sw2.chain_hbh_frag oty hoty optData hod nh 0 (UInt16.ofNat (offset * 8 + (if more then 1 else 0))) ident h
  have hv : Sw2.hbhV 44 oty optData = hbhV 44 oty optData := rfl
  rw [fragV_eq nh offset more ident hoff, hv] at this
  simpa only [hbhBytes, fragBytes, List.append_assoc] using this

/-- behind IPv6 with upper-layer protocol 58: the ICMPv6 message -/
theorem u6_icmpv6 (ty code : UInt8) (checksum : UInt16) (data : Bytes) :
    Sw2.Dec (Sw2.ip6Data 58) (icmpBytes ty code checksum data) (icmpV ty code checksum data) :=
  Sw2.ip6Data_icmp _ _ (dec_congr (by simp only [icmpBytes, List.append_assoc]) (Sw2.icmp_dec _ ty code checksum data))

/-- behind IPv6 with upper-layer protocol 17: the UDP datagram -/
theorem u6_udp (sport dport len checksum : UInt16) (data : Bytes) :
    Sw2.Dec (Sw2.ip6Data 17) (udpBytes sport dport len checksum data) (udpV sport dport len checksum data) :=
  Sw2.ip6Data_udp _ _ (dec_congr (by simp only [udpBytes, List.append_assoc]) (Sw2.udp_dec sport dport len checksum data))

/-- behind IPv6 with any other upper-layer protocol: the bytes, untouched -/
theorem u6_other (nxt : UInt8) (h58 : nxt.toNat ≠ 58) (h17 : nxt.toNat ≠ 17) (payload : Bytes) :
    Sw2.Dec (Sw2.ip6Data nxt) payload (.obj "u.Buffer" [.bytes payload]) :=
  Sw2.ip6Data_other nxt h58 h17 payload

/-! ### Ethernet -/

/-- what follows the ethertype 0x0800 / 0x86dd / 0x0806 is decoded as IPv4 / IPv6 / ARP, anything else is kept as bytes -/
theorem l3_ipv4 (pb : Bytes) (pv : V) (h : Sw2.Dec (PIPv4.unmarshal PIPv4.zero) pb pv) : Sw2.Dec (Sw2.ethData 0x0800) pb pv :=
  Sw2.ethData_ipv4 pb pv h

theorem l3_ipv6 (pb : Bytes) (pv : V) (h : Sw2.Dec (PIPv6.unmarshal PIPv6.zero) pb pv) : Sw2.Dec (Sw2.ethData 0x86dd) pb pv :=
  Sw2.ethData_ipv6 pb pv h

theorem l3_arp (pb : Bytes) (pv : V) (h : Sw2.Dec (PARP.unmarshal PARP.zero) pb pv) : Sw2.Dec (Sw2.ethData 0x0806) pb pv :=
  Sw2.ethData_arp pb pv h

theorem l3_other (et : UInt16) (h4 : et.toNat ≠ 0x0800) (h6 : et.toNat ≠ 0x86dd) (ha : et.toNat ≠ 0x0806) (pb : Bytes) :
    Sw2.Dec (Sw2.ethData et) pb (.obj "u.Buffer" [.bytes pb]) := Sw2.ethData_other et h4 h6 ha pb

/-- `p.Ethernet(Delimiter,HWDst,HWSrc,VLAN,Ethertype,Data)` with `p.VLAN(TPID,PCP,DEI,VID)` -/
def ethFrameV (dst src : Bytes) (vlan : V) (etherType : UInt16) (payload : V) : V :=
  .obj "p.Ethernet" [.num 0, .bytes dst, .bytes src, vlan, .num etherType.toNat, payload]

/-- no tag: the zero `p.VLAN` -/
def noVlanV : V := .obj "p.VLAN" [.num 0, .num 0, .num 0, .num 0]

/-- untagged frame (layout `C04.ethBytes`: destination, source, ethertype, payload) with any decodable payload -/
theorem eth_untagged (dst src : Bytes) (etherType : UInt16) (pb : Bytes) (pv : V) (hdst : dst.length = 6)
    (hsrc : src.length = 6) (het : etherType.toNat ≠ 0x8100) (hp : Sw2.Dec (Sw2.ethData etherType) pb pv) :
    FrameDec (ethBytes dst src etherType pb) (ethFrameV dst src noVlanV etherType pv) :=
  dec_congr (by simp only [ethBytes, List.append_assoc]) (Sw2.eth_untagged dst src etherType pb pv hdst hsrc het hp)

/-- 802.1Q-tagged frame: destination(6), source(6), TPID 0x8100, TCI = PCP(3 bits) DEI(1 bit) VID(12 bits), ethertype(2),
    payload -/
def ethTaggedBytes (dst src : Bytes) (pcp dei vid : Nat) (etherType : UInt16) (payload : Bytes) : Bytes :=
  dst ++ src ++ be16 0x8100 ++ be16 (UInt16.ofNat (pcp * 8192 + dei * 4096 + vid)) ++ be16 etherType ++ payload

/-- the tag's three fields come back from the TCI bits (a priority tag, VID 0, included), the rest as for untagged frames -/
theorem eth_tagged (dst src : Bytes) (pcp dei vid : Nat) (etherType : UInt16) (pb : Bytes) (pv : V) (hdst : dst.length = 6)
    (hsrc : src.length = 6) (hpcp : pcp < 8) (hdei : dei < 2) (hvid : vid < 4096) (hp : Sw2.Dec (Sw2.ethData etherType) pb pv) :
    FrameDec (ethTaggedBytes dst src pcp dei vid etherType pb)
      (ethFrameV dst src (.obj "p.VLAN" [.num 0x8100, .num pcp, .num dei, .num vid]) etherType pv) := by
  have hw : (UInt16.ofNat (pcp * 8192 + dei * 4096 + vid)).toNat = pcp * 8192 + dei * 4096 + vid :=
    Sw.ofNat16_toNat _ (by omega)
  have := Sw2.eth_tagged dst src (UInt16.ofNat (pcp * 8192 + dei * 4096 + vid)) etherType pb pv hdst hsrc hp
  rw [hw] at this
  have e1 : (pcp * 8192 + dei * 4096 + vid) / 8192 = pcp := by omega
  have e2 : (pcp * 8192 + dei * 4096 + vid) / 4096 % 2 = dei := by omega
  have e3 : (pcp * 8192 + dei * 4096 + vid) % 4096 = vid := by omega
  rw [e1, e2, e3] at this
  exact dec_congr (by simp only [ethTaggedBytes, List.append_assoc]) this

/-! ### packet-in carrying these frames -/

/-- packet-in (type 10) with ANY decodable match (`Sw2.MatchDec`: the padded `ofp_match` bytes `mb` decode to `mv`) and ANY
    decodable Ethernet frame: all fixed fields, the match and the frame are exposed -/
theorem packetIn_of (xid : UInt32) (len : UInt16) (bufferId : UInt32) (totalLen : UInt16) (reason tableId : UInt8)
    (cookie : UInt64) (mb : Bytes) (mv : V) (hm : Sw2.MatchDec mb mv) (eb : Bytes) (ev : V) (he : FrameDec eb ev)
    (depth : Nat) (s : Slice) (hwf : s.WF)
    (hb : s.bytes = hdr 10 len xid ++ packetInFixed bufferId totalLen reason tableId cookie ++ mb ++ zeros 2 ++ eb) :
    parse depth s = .ok (packetInV (hdrV 10 len.toNat xid) bufferId totalLen reason tableId cookie mv ev) := by
  obtain ⟨hdec, ⟨ml, hml, hmlen⟩, hmb⟩ := hm
  exact packetIn_gen xid len bufferId totalLen reason tableId cookie mb mv ml
    (fun dm hdmwf rest h => hdec _ _ dm hdmwf rest h) hml hmlen hmb eb ev he depth s hwf
    (by rw [hb]; simp only [List.append_assoc])

/-- untagged IPv4 / ICMP (e.g. an echo request punted to the controller) -/
theorem frame_ipv4_icmp (dst src : Bytes) (ip : Ipv4Hdr) (ty code : UInt8) (checksum : UInt16) (data : Bytes)
    (hdst : dst.length = 6) (hsrc : src.length = 6) (hip : ip.OK) (hproto : ip.proto = 1) :
    FrameDec (ethBytes dst src 0x0800 (ip.bytes ++ icmpBytes ty code checksum data))
      (ethFrameV dst src noVlanV 0x0800 (ip.val (icmpV ty code checksum data))) :=
  eth_untagged dst src 0x0800 _ _ hdst hsrc (by decide)
    (l3_ipv4 _ _ (ipv4_packet ip hip _ _ (by rw [hproto]; exact l4_icmp ty code checksum data)))

/-- 802.1Q-tagged IPv4 / UDP -/
theorem frame_vlan_ipv4_udp (dst src : Bytes) (pcp dei vid : Nat) (ip : Ipv4Hdr) (sport dport ulen checksum : UInt16)
    (data : Bytes) (hdst : dst.length = 6) (hsrc : src.length = 6) (hpcp : pcp < 8) (hdei : dei < 2) (hvid : vid < 4096)
    (hip : ip.OK) (hproto : ip.proto = 17) :
    FrameDec (ethTaggedBytes dst src pcp dei vid 0x0800 (ip.bytes ++ udpBytes sport dport ulen checksum data))
      (ethFrameV dst src (.obj "p.VLAN" [.num 0x8100, .num pcp, .num dei, .num vid]) 0x0800
        (ip.val (udpV sport dport ulen checksum data))) :=
  eth_tagged dst src pcp dei vid 0x0800 _ _ hdst hsrc hpcp hdei hvid
    (l3_ipv4 _ _ (ipv4_packet ip hip _ _ (by rw [hproto]; exact l4_udp sport dport ulen checksum data)))

/-- IPv4 carrying a protocol the library does not look into (TCP, …), tagged -/
theorem frame_vlan_ipv4_other (dst src : Bytes) (pcp dei vid : Nat) (ip : Ipv4Hdr) (payload : Bytes)
    (hdst : dst.length = 6) (hsrc : src.length = 6) (hpcp : pcp < 8) (hdei : dei < 2) (hvid : vid < 4096)
    (hip : ip.OK) (h1 : ip.proto.toNat ≠ 1) (h17 : ip.proto.toNat ≠ 17) :
    FrameDec (ethTaggedBytes dst src pcp dei vid 0x0800 (ip.bytes ++ payload))
      (ethFrameV dst src (.obj "p.VLAN" [.num 0x8100, .num pcp, .num dei, .num vid]) 0x0800
        (ip.val (.obj "u.Buffer" [.bytes payload]))) :=
  eth_tagged dst src pcp dei vid 0x0800 _ _ hdst hsrc hpcp hdei hvid
    (l3_ipv4 _ _ (ipv4_packet ip hip _ _ (l4_other ip.proto h1 h17 payload)))

/-- 802.1Q-tagged ARP -/
theorem frame_vlan_arp (dst src : Bytes) (pcp dei vid : Nat) (oper : UInt16) (sha spa tha tpa : Bytes)
    (hdst : dst.length = 6) (hsrc : src.length = 6) (hpcp : pcp < 8) (hdei : dei < 2) (hvid : vid < 4096)
    (hsha : sha.length = 6) (hspa : spa.length = 4) (htha : tha.length = 6) (htpa : tpa.length = 4) :
    FrameDec (ethTaggedBytes dst src pcp dei vid 0x0806 (arpBytes oper sha spa tha tpa))
      (ethFrameV dst src (.obj "p.VLAN" [.num 0x8100, .num pcp, .num dei, .num vid]) 0x0806
        (.obj "p.ARP" [.num 1, .num 0x0800, .num 6, .num 4, .num oper.toNat, .bytes sha, .bytes spa, .bytes tha,
          .bytes tpa])) :=
  eth_tagged dst src pcp dei vid 0x0806 _ _ hdst hsrc hpcp hdei hvid
    (l3_arp _ _ (arp_packet oper sha spa tha tpa hsha hspa htha htpa))

/-- untagged IPv6 / ICMPv6 (neighbour discovery, echo) without extension headers -/
theorem frame_ipv6_icmpv6 (dst src : Bytes) (ip : Ipv6Hdr) (ty code : UInt8) (checksum : UInt16) (data : Bytes)
    (hdst : dst.length = 6) (hsrc : src.length = 6) (hip : ip.OK) (hnh : ip.nextHeader = 58) :
    FrameDec (ethBytes dst src 0x86dd (ip.bytes ++ icmpBytes ty code checksum data))
      (ethFrameV dst src noVlanV 0x86dd (ip.val .nil .nil .nil (icmpV ty code checksum data))) :=
  eth_untagged dst src 0x86dd _ _ hdst hsrc (by decide)
    (l3_ipv6 _ _ (dec_congr (by rw [List.append_nil])
      (ipv6_packet ip hip [] _ 58 _ _ _ _ (by rw [hnh]; exact chain_none 58 (by decide)) (u6_icmpv6 ty code checksum data))))

/-- 802.1Q-tagged IPv6 with a hop-by-hop header (one PadN-sized option) and a fragment header in front of UDP -/
theorem frame_vlan_ipv6_hbh_frag_udp (dst src : Bytes) (pcp dei vid : Nat) (ip : Ipv6Hdr) (oty : UInt8) (optData : Bytes)
    (offset : Nat) (more : Bool) (ident : UInt32) (sport dport ulen checksum : UInt16) (data : Bytes)
    (hdst : dst.length = 6) (hsrc : src.length = 6) (hpcp : pcp < 8) (hdei : dei < 2) (hvid : vid < 4096)
    (hip : ip.OK) (hnh : ip.nextHeader = 0) (hoty : oty.toNat ≠ 0) (hod : optData.length = 4) (hoff : offset < 8192) :
    FrameDec (ethTaggedBytes dst src pcp dei vid 0x86dd (ip.bytes ++ (hbhBytes 44 oty optData ++ fragBytes 17 offset more ident)
        ++ udpBytes sport dport ulen checksum data))
      (ethFrameV dst src (.obj "p.VLAN" [.num 0x8100, .num pcp, .num dei, .num vid]) 0x86dd
        (ip.val (hbhV 44 oty optData) .nil (fragV 17 offset more ident) (udpV sport dport ulen checksum data))) :=
  eth_tagged dst src pcp dei vid 0x86dd _ _ hdst hsrc hpcp hdei hvid
    (l3_ipv6 _ _ (ipv6_packet ip hip _ _ 17 _ _ _ _
      (by rw [hnh]; exact chain_hbh_frag oty hoty optData hod 17 offset more ident hoff (by decide))
      (u6_udp sport dport ulen checksum data)))

/-- untagged IPv6 fragment of a protocol the library does not look into -/
theorem frame_ipv6_frag_other (dst src : Bytes) (ip : Ipv6Hdr) (nxt : UInt8) (offset : Nat) (more : Bool) (ident : UInt32)
    (payload : Bytes) (hdst : dst.length = 6) (hsrc : src.length = 6) (hip : ip.OK) (hnh : ip.nextHeader = 44)
    (hoff : offset < 8192) (hup : Sw2.Upper nxt) (h58 : nxt.toNat ≠ 58) (h17 : nxt.toNat ≠ 17) :
    FrameDec (ethBytes dst src 0x86dd (ip.bytes ++ fragBytes nxt offset more ident ++ payload))
      (ethFrameV dst src noVlanV 0x86dd (ip.val .nil .nil (fragV nxt offset more ident) (.obj "u.Buffer" [.bytes payload]))) :=
  eth_untagged dst src 0x86dd _ _ hdst hsrc (by decide)
    (l3_ipv6 _ _ (ipv6_packet ip hip _ _ nxt _ _ _ _ (by rw [hnh]; exact chain_frag nxt offset more ident hoff hup)
      (u6_other nxt h58 h17 payload)))

/-- untagged IPv6 with a hop-by-hop header in front of ICMPv6 (MLD) -/
theorem frame_ipv6_hbh_icmpv6 (dst src : Bytes) (ip : Ipv6Hdr) (oty : UInt8) (optData : Bytes) (ty code : UInt8)
    (checksum : UInt16) (data : Bytes) (hdst : dst.length = 6) (hsrc : src.length = 6) (hip : ip.OK)
    (hnh : ip.nextHeader = 0) (hoty : oty.toNat ≠ 0) (hod : optData.length = 4) :
    FrameDec (ethBytes dst src 0x86dd (ip.bytes ++ hbhBytes 58 oty optData ++ icmpBytes ty code checksum data))
      (ethFrameV dst src noVlanV 0x86dd (ip.val (hbhV 58 oty optData) .nil .nil (icmpV ty code checksum data))) :=
  eth_untagged dst src 0x86dd _ _ hdst hsrc (by decide)
    (l3_ipv6 _ _ (ipv6_packet ip hip _ _ 58 _ _ _ _ (by rw [hnh]; exact chain_hbh 58 oty hoty optData hod (by decide))
      (u6_icmpv6 ty code checksum data)))

/-- untagged IPv6 with a hop-by-hop header holding ANY list of options — Pad1, PadN, router alert, … — in front of ICMPv6 -/
theorem frame_ipv6_hbhOptions_icmpv6 (dst src : Bytes) (ip : Ipv6Hdr) (hel : UInt8) (os : List Sw2.Opt) (ty code : UInt8)
    (checksum : UInt16) (data : Bytes) (hdst : dst.length = 6) (hsrc : src.length = 6) (hip : ip.OK)
    (hnh : ip.nextHeader = 0) (hos : ∀ o ∈ os, o.OK) (hlen : 2 + (Sw2.optsBytes os).length = 8 * (hel.toNat + 1)) :
    FrameDec (ethBytes dst src 0x86dd (ip.bytes ++ hbhOptsBytes 58 hel os ++ icmpBytes ty code checksum data))
      (ethFrameV dst src noVlanV 0x86dd (ip.val (Sw2.hbhOptsV 58 hel os) .nil .nil (icmpV ty code checksum data))) :=
  eth_untagged dst src 0x86dd _ _ hdst hsrc (by decide)
    (l3_ipv6 _ _ (ipv6_packet ip hip _ _ 58 _ _ _ _ (by rw [hnh]; exact chain_hbh_options 58 hel os hos hlen (by decide))
      (u6_icmpv6 ty code checksum data)))

/-- packet-in carrying a tagged IPv4/UDP packet, with any decodable match -/
theorem packetIn_vlan_ipv4_udp (xid : UInt32) (len : UInt16) (bufferId : UInt32) (totalLen : UInt16) (reason tableId : UInt8)
    (cookie : UInt64) (mb : Bytes) (mv : V) (hm : Sw2.MatchDec mb mv) (dst src : Bytes) (pcp dei vid : Nat) (ip : Ipv4Hdr)
    (sport dport ulen checksum : UInt16) (data : Bytes) (hdst : dst.length = 6) (hsrc : src.length = 6) (hpcp : pcp < 8)
    (hdei : dei < 2) (hvid : vid < 4096) (hip : ip.OK) (hproto : ip.proto = 17) (depth : Nat) (s : Slice) (hwf : s.WF)
    (hb : s.bytes = hdr 10 len xid ++ packetInFixed bufferId totalLen reason tableId cookie ++ mb ++ zeros 2
      ++ ethTaggedBytes dst src pcp dei vid 0x0800 (ip.bytes ++ udpBytes sport dport ulen checksum data)) :
    parse depth s = .ok (packetInV (hdrV 10 len.toNat xid) bufferId totalLen reason tableId cookie mv
      (ethFrameV dst src (.obj "p.VLAN" [.num 0x8100, .num pcp, .num dei, .num vid]) 0x0800
        (ip.val (udpV sport dport ulen checksum data)))) :=
  packetIn_of xid len bufferId totalLen reason tableId cookie mb mv hm _ _
    (frame_vlan_ipv4_udp dst src pcp dei vid ip sport dport ulen checksum data hdst hsrc hpcp hdei hvid hip hproto)
    depth s hwf hb

/-- packet-in carrying an IPv4/ICMP packet -/
theorem packetIn_ipv4_icmp (xid : UInt32) (len : UInt16) (bufferId : UInt32) (totalLen : UInt16) (reason tableId : UInt8)
    (cookie : UInt64) (mb : Bytes) (mv : V) (hm : Sw2.MatchDec mb mv) (dst src : Bytes) (ip : Ipv4Hdr) (ty code : UInt8)
    (checksum : UInt16) (data : Bytes) (hdst : dst.length = 6) (hsrc : src.length = 6) (hip : ip.OK) (hproto : ip.proto = 1)
    (depth : Nat) (s : Slice) (hwf : s.WF)
    (hb : s.bytes = hdr 10 len xid ++ packetInFixed bufferId totalLen reason tableId cookie ++ mb ++ zeros 2
      ++ ethBytes dst src 0x0800 (ip.bytes ++ icmpBytes ty code checksum data)) :
    parse depth s = .ok (packetInV (hdrV 10 len.toNat xid) bufferId totalLen reason tableId cookie mv
      (ethFrameV dst src noVlanV 0x0800 (ip.val (icmpV ty code checksum data)))) :=
  packetIn_of xid len bufferId totalLen reason tableId cookie mb mv hm _ _
    (frame_ipv4_icmp dst src ip ty code checksum data hdst hsrc hip hproto) depth s hwf hb

/-- packet-in carrying a tagged ARP packet -/
theorem packetIn_vlan_arp (xid : UInt32) (len : UInt16) (bufferId : UInt32) (totalLen : UInt16) (reason tableId : UInt8)
    (cookie : UInt64) (mb : Bytes) (mv : V) (hm : Sw2.MatchDec mb mv) (dst src : Bytes) (pcp dei vid : Nat) (oper : UInt16)
    (sha spa tha tpa : Bytes) (hdst : dst.length = 6) (hsrc : src.length = 6) (hpcp : pcp < 8) (hdei : dei < 2)
    (hvid : vid < 4096) (hsha : sha.length = 6) (hspa : spa.length = 4) (htha : tha.length = 6) (htpa : tpa.length = 4)
    (depth : Nat) (s : Slice) (hwf : s.WF)
    (hb : s.bytes = hdr 10 len xid ++ packetInFixed bufferId totalLen reason tableId cookie ++ mb ++ zeros 2
      ++ ethTaggedBytes dst src pcp dei vid 0x0806 (arpBytes oper sha spa tha tpa)) :
    parse depth s = .ok (packetInV (hdrV 10 len.toNat xid) bufferId totalLen reason tableId cookie mv
      (ethFrameV dst src (.obj "p.VLAN" [.num 0x8100, .num pcp, .num dei, .num vid]) 0x0806
        (.obj "p.ARP" [.num 1, .num 0x0800, .num 6, .num 4, .num oper.toNat, .bytes sha, .bytes spa, .bytes tha,
          .bytes tpa]))) :=
  packetIn_of xid len bufferId totalLen reason tableId cookie mb mv hm _ _
    (frame_vlan_arp dst src pcp dei vid oper sha spa tha tpa hdst hsrc hpcp hdei hvid hsha hspa htha htpa) depth s hwf hb

/-- packet-in carrying an IPv6/ICMPv6 packet -/
theorem packetIn_ipv6_icmpv6 (xid : UInt32) (len : UInt16) (bufferId : UInt32) (totalLen : UInt16) (reason tableId : UInt8)
    (cookie : UInt64) (mb : Bytes) (mv : V) (hm : Sw2.MatchDec mb mv) (dst src : Bytes) (ip : Ipv6Hdr) (ty code : UInt8)
    (checksum : UInt16) (data : Bytes) (hdst : dst.length = 6) (hsrc : src.length = 6) (hip : ip.OK)
    (hnh : ip.nextHeader = 58) (depth : Nat) (s : Slice) (hwf : s.WF)
    (hb : s.bytes = hdr 10 len xid ++ packetInFixed bufferId totalLen reason tableId cookie ++ mb ++ zeros 2
      ++ ethBytes dst src 0x86dd (ip.bytes ++ icmpBytes ty code checksum data)) :
    parse depth s = .ok (packetInV (hdrV 10 len.toNat xid) bufferId totalLen reason tableId cookie mv
      (ethFrameV dst src noVlanV 0x86dd (ip.val .nil .nil .nil (icmpV ty code checksum data)))) :=
  packetIn_of xid len bufferId totalLen reason tableId cookie mb mv hm _ _
    (frame_ipv6_icmpv6 dst src ip ty code checksum data hdst hsrc hip hnh) depth s hwf hb

/-- packet-in carrying a tagged IPv6 packet with hop-by-hop and fragment headers in front of UDP -/
theorem packetIn_vlan_ipv6_hbh_frag_udp (xid : UInt32) (len : UInt16) (bufferId : UInt32) (totalLen : UInt16)
    (reason tableId : UInt8) (cookie : UInt64) (mb : Bytes) (mv : V) (hm : Sw2.MatchDec mb mv) (dst src : Bytes)
    (pcp dei vid : Nat) (ip : Ipv6Hdr) (oty : UInt8) (optData : Bytes) (offset : Nat) (more : Bool) (ident : UInt32)
    (sport dport ulen checksum : UInt16) (data : Bytes) (hdst : dst.length = 6) (hsrc : src.length = 6) (hpcp : pcp < 8)
    (hdei : dei < 2) (hvid : vid < 4096) (hip : ip.OK) (hnh : ip.nextHeader = 0) (hoty : oty.toNat ≠ 0)
    (hod : optData.length = 4) (hoff : offset < 8192) (depth : Nat) (s : Slice) (hwf : s.WF)
    (hb : s.bytes = hdr 10 len xid ++ packetInFixed bufferId totalLen reason tableId cookie ++ mb ++ zeros 2
      ++ ethTaggedBytes dst src pcp dei vid 0x86dd (ip.bytes ++ (hbhBytes 44 oty optData ++ fragBytes 17 offset more ident)
        ++ udpBytes sport dport ulen checksum data)) :
    parse depth s = .ok (packetInV (hdrV 10 len.toNat xid) bufferId totalLen reason tableId cookie mv
      (ethFrameV dst src (.obj "p.VLAN" [.num 0x8100, .num pcp, .num dei, .num vid]) 0x86dd
        (ip.val (hbhV 44 oty optData) .nil (fragV 17 offset more ident) (udpV sport dport ulen checksum data)))) :=
  packetIn_of xid len bufferId totalLen reason tableId cookie mb mv hm _ _
    (frame_vlan_ipv6_hbh_frag_udp dst src pcp dei vid ip oty optData offset more ident sport dport ulen checksum data
      hdst hsrc hpcp hdei hvid hip hnh hoty hod hoff) depth s hwf hb

/-- packet-in carrying an IPv6/ICMPv6 packet with a hop-by-hop header of ANY options (Pad1 included), any decodable match -/
theorem packetIn_ipv6_hbhOptions_icmpv6 (xid : UInt32) (len : UInt16) (bufferId : UInt32) (totalLen : UInt16)
    (reason tableId : UInt8) (cookie : UInt64) (mb : Bytes) (mv : V) (hm : Sw2.MatchDec mb mv) (dst src : Bytes) (ip : Ipv6Hdr)
    (hel : UInt8) (os : List Sw2.Opt) (ty code : UInt8) (checksum : UInt16) (data : Bytes) (hdst : dst.length = 6)
    (hsrc : src.length = 6) (hip : ip.OK) (hnh : ip.nextHeader = 0) (hos : ∀ o ∈ os, o.OK)
    (hlen : 2 + (Sw2.optsBytes os).length = 8 * (hel.toNat + 1)) (depth : Nat) (s : Slice) (hwf : s.WF)
    (hb : s.bytes = hdr 10 len xid ++ packetInFixed bufferId totalLen reason tableId cookie ++ mb ++ zeros 2
      ++ ethBytes dst src 0x86dd (ip.bytes ++ hbhOptsBytes 58 hel os ++ icmpBytes ty code checksum data)) :
    parse depth s = .ok (packetInV (hdrV 10 len.toNat xid) bufferId totalLen reason tableId cookie mv
      (ethFrameV dst src noVlanV 0x86dd (ip.val (Sw2.hbhOptsV 58 hel os) .nil .nil (icmpV ty code checksum data)))) :=
  packetIn_of xid len bufferId totalLen reason tableId cookie mb mv hm _ _
    (frame_ipv6_hbhOptions_icmpv6 dst src ip hel os ty code checksum data hdst hsrc hip hnh hos hlen) depth s hwf hb

/-- packet-in carrying an IPv6 fragment of an opaque protocol -/
theorem packetIn_ipv6_frag_other (xid : UInt32) (len : UInt16) (bufferId : UInt32) (totalLen : UInt16) (reason tableId : UInt8)
    (cookie : UInt64) (mb : Bytes) (mv : V) (hm : Sw2.MatchDec mb mv) (dst src : Bytes) (ip : Ipv6Hdr) (nxt : UInt8)
    (offset : Nat) (more : Bool) (ident : UInt32) (payload : Bytes) (hdst : dst.length = 6) (hsrc : src.length = 6)
    (hip : ip.OK) (hnh : ip.nextHeader = 44) (hoff : offset < 8192) (hup : Sw2.Upper nxt) (h58 : nxt.toNat ≠ 58)
    (h17 : nxt.toNat ≠ 17) (depth : Nat) (s : Slice) (hwf : s.WF)
    (hb : s.bytes = hdr 10 len xid ++ packetInFixed bufferId totalLen reason tableId cookie ++ mb ++ zeros 2
      ++ ethBytes dst src 0x86dd (ip.bytes ++ fragBytes nxt offset more ident ++ payload)) :
    parse depth s = .ok (packetInV (hdrV 10 len.toNat xid) bufferId totalLen reason tableId cookie mv
      (ethFrameV dst src noVlanV 0x86dd (ip.val .nil .nil (fragV nxt offset more ident) (.obj "u.Buffer" [.bytes payload])))) :=
  packetIn_of xid len bufferId totalLen reason tableId cookie mb mv hm _ _
    (frame_ipv6_frag_other dst src ip nxt offset more ident payload hdst hsrc hip hnh hoff hup h58 h17) depth s hwf hb

/-! ## 2. Matches -/

/-- every well-formed OXM TLV of class OFPXMC_OPENFLOW_BASIC (`Sw2.Oxm`: field number of the table `Sw2.basicKind`, value
    and optional mask of the field's width; wire form `Sw2.Oxm.bytes`: class 0x8000, field<<1|hasmask, payload length,
    value, mask) is read back as exactly that field, value and mask -/
theorem oxm_basic (o : Sw2.Oxm) (h : o.WF) : Sw2.FieldDec o.bytes o.toV := Sw2.oxm_fieldDec o h

/-- ONF experimenter TLV tcp_flags: class 0xffff, field 42<<1, length 6, experimenter 0x4f4e4600, flags(2) -/
theorem oxm_onf_tcpFlags (flags : UInt16) :
    Sw2.FieldDec (be16 0xffff ++ ([84, 6] ++ (be32 0x4f4e4600 ++ be16 flags)))
      (.obj "MatchField" [.num 0xffff, .num 42, .num 0, .num 6, .num 0x4f4e4600, .obj "TcpFlagsField" [.num flags.toNat], .nil]) :=
  Sw2.onf_tcpFlags flags

/-- the same with a mask: field 42<<1|1, length 8, flags(2), mask(2) -/
theorem oxm_onf_tcpFlags_masked (flags mask : UInt16) :
    Sw2.FieldDec (be16 0xffff ++ ([85, 8] ++ (be32 0x4f4e4600 ++ (be16 flags ++ be16 mask))))
      (.obj "MatchField" [.num 0xffff, .num 42, .num 1, .num 8, .num 0x4f4e4600, .obj "TcpFlagsField" [.num flags.toNat],
        .obj "TcpFlagsField" [.num mask.toNat]]) :=
  Sw2.onf_tcpFlags_masked flags mask

/-- ONF experimenter TLV actset_output: field 43<<1, length 8, experimenter id, port(4) -/
theorem oxm_onf_actsetOutput (port : UInt32) :
    Sw2.FieldDec (be16 0xffff ++ ([86, 8] ++ (be32 0x4f4e4600 ++ be32 port)))
      (.obj "MatchField" [.num 0xffff, .num 43, .num 0, .num 8, .num 0x4f4e4600, .obj "ActsetOutputField" [.num port.toNat], .nil]) :=
  Sw2.onf_actsetOutput port

/-- Nicira register TLV NXM_NX_REGn (class 1, field n < 16): value(4), optionally mask(4) — what Open vSwitch puts into
    packet-in and flow-stats matches next to the basic-class fields -/
theorem oxm_nxm_reg (n : Nat) (hn : n < 16) (value : UInt32) :
    Sw2.FieldDec (be16 1 ++ ([UInt8.ofNat (2 * n), 4] ++ be32 value))
      (.obj "MatchField" [.num 1, .num n, .num 0, .num 4, .num 0, .obj "Uint32Message" [.num value.toNat], .nil]) :=
  Sw2.nxm_reg n hn value

theorem oxm_nxm_reg_masked (n : Nat) (hn : n < 16) (value mask : UInt32) :
    Sw2.FieldDec (be16 1 ++ ([UInt8.ofNat (2 * n + 1), 8] ++ (be32 value ++ be32 mask)))
      (.obj "MatchField" [.num 1, .num n, .num 1, .num 8, .num 0, .obj "Uint32Message" [.num value.toNat],
        .obj "Uint32Message" [.num mask.toNat]]) :=
  Sw2.nxm_reg_masked n hn value mask

/-- an `ofp_match` (`Sw2.matchBytes`: type 1, length = 4 + size of the TLVs, the TLVs, zero padding to a multiple of 8)
    holding ANY list of TLVs that are decodable one by one decodes to the list of their values, in order
    (`Sw2.matchV`: `Match(1, length, [fields])`) — in every position a match occurs (packet-in, flow-removed, flow-stats) -/
theorem match_of_tlvs (fs : List (Bytes × V)) (h : ∀ p ∈ fs, Sw2.FieldDec p.1 p.2)
    (hlen : 4 + (Sw2.tlvCat fs).length + 7 < 60000) : Sw2.MatchDec (Sw2.matchBytes fs) (Sw2.matchV fs) :=
  Sw2.matchDec_of_fields fs h hlen

/-- wire form and value of a list of basic-class fields -/
def oxmPairs (os : List Sw2.Oxm) : List (Bytes × V) := os.map (fun o => (o.bytes, o.toV))

/-- a match with ANY list of basic-class OXM fields (each well-formed) -/
theorem match_oxm (os : List Sw2.Oxm) (h : ∀ o ∈ os, o.WF) (hlen : 4 + (Sw2.tlvCat (oxmPairs os)).length + 7 < 60000) :
    Sw2.MatchDec (Sw2.matchBytes (oxmPairs os)) (Sw2.matchV (oxmPairs os)) :=
  match_of_tlvs _ (by
    intro p hp
    obtain ⟨o, ho, rfl⟩ := List.mem_map.mp hp
    exact oxm_basic o (h o ho)) hlen

/-- flow-removed (type 11) with ANY decodable match -/
theorem flowRemoved_match (xid : UInt32) (len : UInt16) (cookie : UInt64) (priority : UInt16) (reason tableId : UInt8)
    (durationSec durationNsec : UInt32) (idleTimeout hardTimeout : UInt16) (packetCount byteCount : UInt64)
    (mb : Bytes) (mv : V) (hm : Sw2.MatchDec mb mv) (depth : Nat) (s : Slice) (hwf : s.WF)
    (hb : s.bytes = hdr 11 len xid ++ flowRemovedFixed cookie priority reason tableId durationSec durationNsec
      idleTimeout hardTimeout packetCount byteCount ++ mb) :
    parse depth s = .ok (flowRemovedV (hdrV 11 len.toNat xid) cookie priority reason tableId durationSec durationNsec
      idleTimeout hardTimeout packetCount byteCount mv) := by
  obtain ⟨hdec, ⟨ml, hml, _⟩, _⟩ := hm
  exact flowRemoved_gen xid len cookie priority reason tableId durationSec durationNsec idleTimeout hardTimeout packetCount
    byteCount mb mv ml (fun dm hdmwf h => hdec _ _ dm hdmwf [] (by rw [h, List.append_nil])) hml depth s hwf
    (by rw [hb, List.append_assoc])

/-- packet-in with ANY list of basic-class OXM fields in its match and an opaque Ethernet frame -/
theorem packetIn_match (xid : UInt32) (len : UInt16) (bufferId : UInt32) (totalLen : UInt16) (reason tableId : UInt8)
    (cookie : UInt64) (os : List Sw2.Oxm) (h : ∀ o ∈ os, o.WF) (hlen : 4 + (Sw2.tlvCat (oxmPairs os)).length + 7 < 60000)
    (dst src : Bytes) (etherType : UInt16) (payload : Bytes) (hdst : dst.length = 6) (hsrc : src.length = 6)
    (het : OpaqueEtherType etherType) (depth : Nat) (s : Slice) (hwf : s.WF)
    (hb : s.bytes = hdr 10 len xid ++ packetInFixed bufferId totalLen reason tableId cookie
      ++ Sw2.matchBytes (oxmPairs os) ++ zeros 2 ++ ethBytes dst src etherType payload) :
    parse depth s = .ok (packetInV (hdrV 10 len.toNat xid) bufferId totalLen reason tableId cookie
      (Sw2.matchV (oxmPairs os)) (ethV dst src etherType payload)) :=
  packetIn_of xid len bufferId totalLen reason tableId cookie _ _ (match_oxm os h hlen) _ _
    (eth_untagged dst src etherType payload _ hdst hsrc het.1 (l3_other etherType het.2.1 het.2.2.1 het.2.2.2 payload))
    depth s hwf hb

/-! ## 3. Instructions and actions -/

/-- output action: type 0, length 16, port(4), max_len(2), pad(6) ↦ `ActionOutput(ActionHeader(0,16),port,max_len,pad)`
    (`Sw2.ActDec`: DecodeAction reads the bytes back as the value, whatever follows, and its `Len()` is their number) -/
theorem action_output (port : UInt32) (maxLen : UInt16) :
    Sw2.ActDec (be16 0 ++ (be16 16 ++ (be32 port ++ (be16 maxLen ++ zeros 6))))
      (.obj "ActionOutput" [.obj "ActionHeader" [.num 0, .num 16], .num port.toNat, .num maxLen.toNat, .bytes []]) :=
  Sw2.act_output port maxLen

/-- set-field action: type 25, length = 4 + TLV rounded up to 8, ANY decodable OXM TLV, zero padding -/
theorem action_setField (tlv : Bytes) (fv : V) (h : Sw2.FieldDec tlv fv) (hlen : 4 + tlv.length + 7 < 65536) :
    Sw2.ActDec (be16 25 ++ (be16 (UInt16.ofNat ((4 + tlv.length + 7) / 8 * 8)) ++ (tlv ++ zeros ((8 - (4 + tlv.length) % 8) % 8))))
      (.obj "ActionSetField" [.obj "ActionHeader" [.num 25, .num ((4 + tlv.length + 7) / 8 * 8)], fv]) :=
  Sw2.act_setField tlv fv h hlen

/-- Nicira NXAST_RESUBMIT_TABLE: type 0xffff, length 16, vendor 0x00002320, subtype 14, in_port(2), table(1), pad(3) -/
theorem action_resubmitTable (inPort : UInt16) (table : UInt8) :
    Sw2.ActDec (be16 0xffff ++ (be16 16 ++ (be32 0x2320 ++ (be16 14 ++ (be16 inPort ++ ([table] ++ zeros 3))))))
      (.obj "NXActionResubmitTable" [.obj "NXActionHeader" [.obj "ActionHeader" [.num 65535, .num 16], .num 0x2320, .num 14],
        .num inPort.toNat, .num table.toNat, .bytes (zeros 3), .num 0]) :=
  Sw2.act_resubmitTable inPort table

/-- set_nw_ttl: type 23, length 8, ttl(1), pad(3) — ANY ttl; the ttl comes back -/
theorem action_setNwTtl (ttl : UInt8) :
    Sw2.ActDec (be16 23 ++ (be16 8 ++ [ttl, 0, 0, 0]))
      (.obj "ActionNwTtl" [.obj "ActionHeader" [.num 23, .num 8], .num ttl.toNat, .bytes []]) :=
  Sw2.act_setNwTtl ttl

/-- set_mpls_ttl: type 15, length 8, ttl(1), pad(3) -/
theorem action_setMplsTtl (ttl : UInt8) :
    Sw2.ActDec (be16 15 ++ (be16 8 ++ [ttl, 0, 0, 0]))
      (.obj "ActionMplsTtl" [.obj "ActionHeader" [.num 15, .num 8], .num ttl.toNat, .bytes []]) :=
  Sw2.act_setMplsTtl ttl

/-- the actions that consist of the header and four pad bytes — copy_ttl_out (11), copy_ttl_in (12), dec_mpls_ttl (16),
    dec_nw_ttl (24), pop_pbb (27): type, length 8, pad(4).  (The library has one Go type for all of them.) -/
theorem action_headerOnly (ty : UInt16)
    (hty : ty.toNat = 11 ∨ ty.toNat = 12 ∨ ty.toNat = 16 ∨ ty.toNat = 24 ∨ ty.toNat = 27) :
    Sw2.ActDec (be16 ty ++ (be16 8 ++ zeros 4))
      (.obj "ActionDecNwTtl" [.obj "ActionHeader" [.num ty.toNat, .num 8], .bytes []]) :=
  Sw2.act_headerOnly ty hty

/-- goto-table: type 1, length 8, table id, pad(3) -/
theorem instruction_gotoTable (tableId : UInt8) :
    Sw2.InstrDec (be16 1 ++ (be16 8 ++ [tableId, 0, 0, 0]))
      (.obj "InstrGotoTable" [.obj "InstrHeader" [.num 1, .num 8], .num tableId.toNat, .bytes []]) :=
  Sw2.instr_gotoTable tableId

/-- meter: type 6, length 8, meter id(4) — ANY meter id -/
theorem instruction_meter (meterId : UInt32) :
    Sw2.InstrDec (be16 6 ++ (be16 8 ++ be32 meterId))
      (.obj "InstrMeter" [.obj "InstrHeader" [.num 6, .num 8], .num meterId.toNat]) :=
  Sw2.instr_meter meterId

/-- write-metadata: type 2, length 24, pad(4), metadata(8), metadata_mask(8) -/
theorem instruction_writeMetadata (metadata mask : UInt64) :
    Sw2.InstrDec (be16 2 ++ (be16 24 ++ (zeros 4 ++ (be64 metadata ++ be64 mask))))
      (.obj "InstrWriteMetadata" [.obj "InstrHeader" [.num 2, .num 24], .bytes [], .num metadata.toNat, .num mask.toNat]) :=
  Sw2.instr_writeMetadata metadata mask

/-- write-actions (3), apply-actions (4), clear-actions (5): type, length = 8 + size of the actions, pad(4), then ANY list
    of decodable actions — every action comes back, in order -/
theorem instruction_actions (ty : UInt16) (hty : ty.toNat = 3 ∨ ty.toNat = 4 ∨ ty.toNat = 5) (as : List (Bytes × V))
    (h : ∀ p ∈ as, Sw2.ActDec p.1 p.2) (hlen : 8 + (Sw2.wireCat as).length < 65536) :
    Sw2.InstrDec (be16 ty ++ (be16 (UInt16.ofNat (8 + (Sw2.wireCat as).length)) ++ (zeros 4 ++ Sw2.wireCat as)))
      (.obj "InstrActions" [.obj "InstrHeader" [.num ty.toNat, .num (8 + (Sw2.wireCat as).length)], .bytes [],
        .list (as.map Prod.snd)]) :=
  Sw2.instr_actions ty hty as h hlen

/-- ANY list of decodable instructions, concatenated, is what the instruction loop of a flow-stats record reads back -/
theorem instructions_of_list (is : List (Bytes × V)) (h : ∀ p ∈ is, Sw2.InstrDec p.1 p.2) (hlen : (Sw2.wireCat is).length < 65536) :
    Sw2.InstrsDec (Sw2.wireCat is) (is.map Prod.snd) :=
  Sw2.instrsDec_of_list is h hlen

/-- the record type `Sw2.FsRec` writes the layout `C04.flowStatsFixed` followed by match and instructions … -/
theorem fsRec_layout (r : Sw2.FsRec) :
    r.bytes = flowStatsFixed (UInt16.ofNat (48 + r.mb.length + r.ib.length)) r.tableId r.durationSec r.durationNsec r.priority
      r.idleTimeout r.hardTimeout r.flags r.cookie r.packetCount r.byteCount ++ (r.mb ++ r.ib) := by
  simp only [Sw2.FsRec.bytes, Sw2.FsRec.size, flowStatsFixed, List.append_assoc]

/-- … and its value is `C04.flowStatsV` -/
theorem fsRec_value (r : Sw2.FsRec) :
    r.val = flowStatsV (48 + r.mb.length + r.ib.length) r.tableId r.durationSec r.durationNsec r.priority r.idleTimeout
      r.hardTimeout r.flags r.cookie r.packetCount r.byteCount r.mv r.iv := rfl

/-- multipart reply (type 19) of multipart type 1 carrying ANY number of flow-stats records, each with any decodable match
    and any decodable instruction list (`Sw2.FsRec.OK`): every record comes back, in order, complete -/
theorem flowStatsReply_records (xid : UInt32) (mpFlags : UInt16) (rs : List Sw2.FsRec) (h : ∀ r ∈ rs, r.OK)
    (hsize : 16 + (Sw2.recsBytes rs).length < 65536) (depth : Nat) (s : Slice) (hwf : s.WF)
    (hb : s.bytes = hdr 19 (UInt16.ofNat (16 + (Sw2.recsBytes rs).length)) xid ++ be16 1 ++ be16 mpFlags ++ zeros 4
      ++ Sw2.recsBytes rs) :
    parse depth s = .ok (.obj "MultipartReply" [hdrV 19 (16 + (Sw2.recsBytes rs).length) xid, .num 1, .num mpFlags.toNat,
      .bytes [], .list (rs.map Sw2.FsRec.val)]) :=
  Sw2.flowStats_reply xid mpFlags rs h hsize depth s hwf (by rw [hb]; simp only [hdr, List.append_assoc])

/-- the instruction list [apply-actions [output, set-field vlan_vid, resubmit-table], goto-table, write-metadata] on the
    wire: 88 bytes -/
def sampleInstrBytes (outPort : UInt32) (maxLen vid rsInPort : UInt16) (rsTable nextTable : UInt8) (metadata mdMask : UInt64) :
    Bytes :=
  (be16 4 ++ be16 56 ++ zeros 4
      ++ (be16 0 ++ be16 16 ++ be32 outPort ++ be16 maxLen ++ zeros 6)
      ++ (be16 25 ++ be16 16 ++ (be16 0x8000 ++ [12, 2] ++ be16 vid) ++ zeros 6)
      ++ (be16 0xffff ++ be16 16 ++ be32 0x2320 ++ be16 14 ++ be16 rsInPort ++ [rsTable] ++ zeros 3))
    ++ (be16 1 ++ be16 8 ++ [nextTable, 0, 0, 0])
    ++ (be16 2 ++ be16 24 ++ zeros 4 ++ be64 metadata ++ be64 mdMask)

/-- its value -/
def sampleInstrV (outPort : UInt32) (maxLen vid rsInPort : UInt16) (rsTable nextTable : UInt8) (metadata mdMask : UInt64) :
    List V :=
  [.obj "InstrActions" [.obj "InstrHeader" [.num 4, .num 56], .bytes [], .list [
      .obj "ActionOutput" [.obj "ActionHeader" [.num 0, .num 16], .num outPort.toNat, .num maxLen.toNat, .bytes []],
      .obj "ActionSetField" [.obj "ActionHeader" [.num 25, .num 16],
        .obj "MatchField" [.num 0x8000, .num 6, .num 0, .num 2, .num 0, .obj "VlanIdField" [.num vid.toNat], .nil]],
      .obj "NXActionResubmitTable" [.obj "NXActionHeader" [.obj "ActionHeader" [.num 65535, .num 16], .num 0x2320, .num 14],
        .num rsInPort.toNat, .num rsTable.toNat, .bytes (zeros 3), .num 0]]],
   .obj "InstrGotoTable" [.obj "InstrHeader" [.num 1, .num 8], .num nextTable.toNat, .bytes []],
   .obj "InstrWriteMetadata" [.obj "InstrHeader" [.num 2, .num 24], .bytes [], .num metadata.toNat, .num mdMask.toNat]]

/-- the three actions, each with its wire form and value -/
def sampleActions (outPort : UInt32) (maxLen vid rsInPort : UInt16) (rsTable : UInt8) : List (Bytes × V) :=
  [(be16 0 ++ (be16 16 ++ (be32 outPort ++ (be16 maxLen ++ zeros 6))),
     .obj "ActionOutput" [.obj "ActionHeader" [.num 0, .num 16], .num outPort.toNat, .num maxLen.toNat, .bytes []]),
   (be16 25 ++ (be16 16 ++ ((be16 0x8000 ++ ([12, 2] ++ be16 vid)) ++ zeros 6)),
     .obj "ActionSetField" [.obj "ActionHeader" [.num 25, .num 16],
        .obj "MatchField" [.num 0x8000, .num 6, .num 0, .num 2, .num 0, .obj "VlanIdField" [.num vid.toNat], .nil]]),
   (be16 0xffff ++ (be16 16 ++ (be32 0x2320 ++ (be16 14 ++ (be16 rsInPort ++ ([rsTable] ++ zeros 3))))),
     .obj "NXActionResubmitTable" [.obj "NXActionHeader" [.obj "ActionHeader" [.num 65535, .num 16], .num 0x2320, .num 14],
        .num rsInPort.toNat, .num rsTable.toNat, .bytes (zeros 3), .num 0])]

/-- set-field of vlan_vid: type 25, length 16, the 6-byte TLV (class 0x8000, field 6<<1, length 2, vid), 6 pad bytes -/
theorem action_setField_vlanVid (vid : UInt16) :
    Sw2.ActDec (be16 25 ++ (be16 16 ++ ((be16 0x8000 ++ ([12, 2] ++ be16 vid)) ++ zeros 6)))
      (.obj "ActionSetField" [.obj "ActionHeader" [.num 25, .num 16],
        .obj "MatchField" [.num 0x8000, .num 6, .num 0, .num 2, .num 0, .obj "VlanIdField" [.num vid.toNat], .nil]]) := by
  have hvid : (⟨6, .u16 vid, none⟩ : Sw2.Oxm).WF := ⟨"VlanIdField", rfl, trivial, by simp⟩
  have h := oxm_basic _ hvid
  have eb : (⟨6, .u16 vid, none⟩ : Sw2.Oxm).bytes = be16 0x8000 ++ ([12, 2] ++ be16 vid) := rfl
  have ev : (⟨6, .u16 vid, none⟩ : Sw2.Oxm).toV
      = .obj "MatchField" [.num 0x8000, .num 6, .num 0, .num 2, .num 0, .obj "VlanIdField" [.num vid.toNat], .nil] := rfl
  rw [eb, ev] at h
  have hl : (be16 0x8000 ++ ([12, 2] ++ be16 vid)).length = 6 := rfl
  have := action_setField _ _ h (by rw [hl]; decide)
  simp only [hl, Nat.reduceAdd, Nat.reduceDiv, Nat.reduceMul, Nat.reduceMod, Nat.reduceSub] at this
  exact this

theorem sampleActions_dec (outPort : UInt32) (maxLen vid rsInPort : UInt16) (rsTable : UInt8) :
    ∀ p ∈ sampleActions outPort maxLen vid rsInPort rsTable, Sw2.ActDec p.1 p.2 := by
  intro p hp
  simp only [sampleActions, List.mem_cons, List.not_mem_nil, or_false] at hp
  rcases hp with rfl | rfl | rfl
  · exact action_output outPort maxLen
  · exact action_setField_vlanVid vid
  · exact action_resubmitTable rsInPort rsTable

theorem sampleActions_len (outPort : UInt32) (maxLen vid rsInPort : UInt16) (rsTable : UInt8) :
    (Sw2.wireCat (sampleActions outPort maxLen vid rsInPort rsTable)).length = 48 := rfl

/-- the three instructions, each with its wire form and value -/
def sampleInstrs (outPort : UInt32) (maxLen vid rsInPort : UInt16) (rsTable nextTable : UInt8) (metadata mdMask : UInt64) :
    List (Bytes × V) :=
  [(be16 4 ++ (be16 56 ++ (zeros 4 ++ Sw2.wireCat (sampleActions outPort maxLen vid rsInPort rsTable))),
     .obj "InstrActions" [.obj "InstrHeader" [.num 4, .num 56], .bytes [],
       .list ((sampleActions outPort maxLen vid rsInPort rsTable).map Prod.snd)]),
   (be16 1 ++ (be16 8 ++ [nextTable, 0, 0, 0]),
     .obj "InstrGotoTable" [.obj "InstrHeader" [.num 1, .num 8], .num nextTable.toNat, .bytes []]),
   (be16 2 ++ (be16 24 ++ (zeros 4 ++ (be64 metadata ++ be64 mdMask))),
     .obj "InstrWriteMetadata" [.obj "InstrHeader" [.num 2, .num 24], .bytes [], .num metadata.toNat, .num mdMask.toNat])]

/-- that instruction list decodes to exactly these three instructions and three actions -/
theorem sampleInstrs_dec (outPort : UInt32) (maxLen vid rsInPort : UInt16) (rsTable nextTable : UInt8) (metadata mdMask : UInt64) :
    Sw2.InstrsDec (sampleInstrBytes outPort maxLen vid rsInPort rsTable nextTable metadata mdMask)
      (sampleInstrV outPort maxLen vid rsInPort rsTable nextTable metadata mdMask) := by
  have hins : ∀ p ∈ sampleInstrs outPort maxLen vid rsInPort rsTable nextTable metadata mdMask, Sw2.InstrDec p.1 p.2 := by
    intro p hp
    simp only [sampleInstrs, List.mem_cons, List.not_mem_nil, or_false] at hp
    rcases hp with rfl | rfl | rfl
    · have hl := sampleActions_len outPort maxLen vid rsInPort rsTable
      have := instruction_actions 4 (by decide) _ (sampleActions_dec outPort maxLen vid rsInPort rsTable)
        (by rw [hl]; decide)
      simp only [hl, Nat.reduceAdd] at this
      exact this
    · exact instruction_gotoTable nextTable
    · exact instruction_writeMetadata metadata mdMask
  have hl88 : (Sw2.wireCat (sampleInstrs outPort maxLen vid rsInPort rsTable nextTable metadata mdMask)).length = 88 := by
    simp [Sw2.wireCat, sampleInstrs, sampleActions]
  have := instructions_of_list _ hins (by rw [hl88]; decide)
  have e1 : Sw2.wireCat (sampleInstrs outPort maxLen vid rsInPort rsTable nextTable metadata mdMask)
      = sampleInstrBytes outPort maxLen vid rsInPort rsTable nextTable metadata mdMask := by
    simp only [sampleInstrBytes, sampleInstrs, sampleActions, Sw2.wireCat, List.map_cons, List.map_nil, List.flatten_cons,
      List.flatten_nil, List.append_assoc, List.append_nil]
  have e2 : (sampleInstrs outPort maxLen vid rsInPort rsTable nextTable metadata mdMask).map Prod.snd
      = sampleInstrV outPort maxLen vid rsInPort rsTable nextTable metadata mdMask := rfl
  rw [e1, e2] at this
  exact this

/-- the fixed fields of a record, with a given match and instruction list -/
def mkRec (fx : Sw2.FsRec) (mb : Bytes) (mv : V) (ib : Bytes) (iv : List V) : Sw2.FsRec :=
  { fx with mb := mb, mv := mv, ib := ib, iv := iv }

/-- a match on in_port alone is `C04.matchInPort` -/
theorem matchInPort_dec (inPort : UInt32) : Sw2.MatchDec (matchInPort inPort) (Sw.matchInPortV inPort) := by
  have := match_oxm [⟨0, .u32 inPort, none⟩] (by
    intro o ho
    simp only [List.mem_cons, List.not_mem_nil, or_false] at ho
    subst ho
    exact ⟨"InPortField", rfl, trivial, by simp⟩) (by simp [oxmPairs, Sw2.tlvCat, Sw2.Oxm.bytes, Sw2.OxmVal.bytes])
  have hl : (Sw2.tlvCat (oxmPairs [⟨0, .u32 inPort, none⟩])).length = 8 := rfl
  have e1 : Sw2.matchBytes (oxmPairs [⟨0, .u32 inPort, none⟩]) = matchInPort inPort := by
    unfold Sw2.matchBytes
    rw [hl]
    rfl
  have e2 : Sw2.matchV (oxmPairs [⟨0, .u32 inPort, none⟩]) = Sw.matchInPortV inPort := by
    unfold Sw2.matchV
    rw [hl]
    rfl
  rw [e1, e2] at this
  exact this

/-- the empty match is `C04.matchEmpty` -/
theorem matchEmpty_dec : Sw2.MatchDec matchEmpty Sw.matchEmptyV := match_oxm [] (by simp) (by decide)

/-- a record with the empty match and no instructions is well-formed, whatever its fixed fields -/
theorem emptyRec_ok (fx : Sw2.FsRec) : (mkRec fx matchEmpty Sw.matchEmptyV [] []).OK :=
  ⟨matchEmpty_dec, instructions_of_list [] (by simp) (by decide), by show 48 + 8 + 0 < 65536; decide⟩

/-- flow-stats reply with TWO records: the first matches on in_port and carries
    [apply-actions [output, set-field vlan_vid, resubmit-table], goto-table, write-metadata], the second has the empty
    match and no instruction (`fx1`, `fx2`: the ten fixed fields of the records) -/
theorem flowStatsReply_two (xid : UInt32) (mpFlags : UInt16) (fx1 fx2 : Sw2.FsRec) (inPort outPort : UInt32)
    (maxLen vid rsInPort : UInt16) (rsTable nextTable : UInt8) (metadata mdMask : UInt64) (depth : Nat) (s : Slice)
    (hwf : s.WF)
    (hb : s.bytes = hdr 19 224 xid ++ be16 1 ++ be16 mpFlags ++ zeros 4
      ++ (flowStatsFixed 152 fx1.tableId fx1.durationSec fx1.durationNsec fx1.priority fx1.idleTimeout fx1.hardTimeout fx1.flags
            fx1.cookie fx1.packetCount fx1.byteCount ++ matchInPort inPort
          ++ sampleInstrBytes outPort maxLen vid rsInPort rsTable nextTable metadata mdMask)
      ++ (flowStatsFixed 56 fx2.tableId fx2.durationSec fx2.durationNsec fx2.priority fx2.idleTimeout fx2.hardTimeout fx2.flags
            fx2.cookie fx2.packetCount fx2.byteCount ++ matchEmpty)) :
    parse depth s = .ok (.obj "MultipartReply" [hdrV 19 224 xid, .num 1, .num mpFlags.toNat, .bytes [], .list [
      flowStatsV 152 fx1.tableId fx1.durationSec fx1.durationNsec fx1.priority fx1.idleTimeout fx1.hardTimeout fx1.flags
        fx1.cookie fx1.packetCount fx1.byteCount (Sw.matchInPortV inPort)
        (sampleInstrV outPort maxLen vid rsInPort rsTable nextTable metadata mdMask),
      flowStatsV 56 fx2.tableId fx2.durationSec fx2.durationNsec fx2.priority fx2.idleTimeout fx2.hardTimeout fx2.flags
        fx2.cookie fx2.packetCount fx2.byteCount Sw.matchEmptyV []]]) := by
  have h1 : (mkRec fx1 (matchInPort inPort) (Sw.matchInPortV inPort)
      (sampleInstrBytes outPort maxLen vid rsInPort rsTable nextTable metadata mdMask)
      (sampleInstrV outPort maxLen vid rsInPort rsTable nextTable metadata mdMask)).OK :=
    ⟨matchInPort_dec inPort, sampleInstrs_dec outPort maxLen vid rsInPort rsTable nextTable metadata mdMask,
      by show 48 + 16 + 88 < 65536; decide⟩
  have h2 : (mkRec fx2 matchEmpty Sw.matchEmptyV [] []).OK :=
    ⟨matchEmpty_dec, instructions_of_list [] (by simp) (by decide), by show 48 + 8 + 0 < 65536; decide⟩
  have := flowStatsReply_records xid mpFlags [_, _] (by
    intro r hr
    simp only [List.mem_cons, List.not_mem_nil, or_false] at hr
    rcases hr with rfl | rfl
    · exact h1
    · exact h2) (by show 16 + 208 < 65536; decide) depth s hwf (by
      rw [hb]
      simp only [hdr, flowStatsFixed, Sw2.recsBytes, List.map, List.flatten, Sw2.FsRec.bytes, mkRec, List.append_assoc,
        List.append_nil]
      rfl)
  exact this

/-! ## 4. Contents the library used to reject and now hands over (meter, ttl actions, Pad1) -/

/-- flow-stats reply with ONE record: any decodable match, ANY list of decodable instructions -/
theorem flowStatsReply_instructions (xid : UInt32) (mpFlags : UInt16) (fx : Sw2.FsRec) (mb : Bytes) (mv : V)
    (hm : Sw2.MatchDec mb mv) (is : List (Bytes × V)) (his : ∀ p ∈ is, Sw2.InstrDec p.1 p.2)
    (hsize : 16 + (48 + mb.length + (Sw2.wireCat is).length) < 65536) (depth : Nat) (s : Slice) (hwf : s.WF)
    (hb : s.bytes = hdr 19 (UInt16.ofNat (16 + (48 + mb.length + (Sw2.wireCat is).length))) xid ++ be16 1 ++ be16 mpFlags ++ zeros 4
      ++ (flowStatsFixed (UInt16.ofNat (48 + mb.length + (Sw2.wireCat is).length)) fx.tableId fx.durationSec fx.durationNsec
            fx.priority fx.idleTimeout fx.hardTimeout fx.flags fx.cookie fx.packetCount fx.byteCount ++ mb ++ Sw2.wireCat is)) :
    parse depth s = .ok (.obj "MultipartReply" [hdrV 19 (16 + (48 + mb.length + (Sw2.wireCat is).length)) xid, .num 1,
      .num mpFlags.toNat, .bytes [], .list [flowStatsV (48 + mb.length + (Sw2.wireCat is).length) fx.tableId fx.durationSec
        fx.durationNsec fx.priority fx.idleTimeout fx.hardTimeout fx.flags fx.cookie fx.packetCount fx.byteCount mv
        (is.map Prod.snd)]]) := by
  have hok : (mkRec fx mb mv (Sw2.wireCat is) (is.map Prod.snd)).OK :=
    ⟨hm, instructions_of_list is his (by omega), by show 48 + mb.length + (Sw2.wireCat is).length < 65536; omega⟩
  have hrl : (Sw2.recsBytes [mkRec fx mb mv (Sw2.wireCat is) (is.map Prod.snd)]).length
      = 48 + mb.length + (Sw2.wireCat is).length := by
    simp [Sw2.recsBytes, Sw2.FsRec.bytes_length, Sw2.FsRec.size, mkRec]
  have := flowStatsReply_records xid mpFlags [mkRec fx mb mv (Sw2.wireCat is) (is.map Prod.snd)]
    (by
      intro r hr
      simp only [List.mem_cons, List.not_mem_nil, or_false] at hr
      subst hr
      exact hok)
    (by rw [hrl]; exact hsize) depth s hwf
    (by
      rw [hrl, hb]
      simp only [hdr, flowStatsFixed, Sw2.recsBytes_cons, (show Sw2.recsBytes [] = [] from rfl), List.append_nil,
        Sw2.FsRec.bytes, Sw2.FsRec.size, mkRec, List.append_assoc])
  rw [hrl] at this
  exact this

theorem wireCat_insert (pre post : List (Bytes × V)) (b : Bytes) (v : V) :
    Sw2.wireCat (pre ++ [(b, v)] ++ post) = Sw2.wireCat pre ++ b ++ Sw2.wireCat post := by
  simp [Sw2.wireCat]

/-- a flow-stats reply whose record carries a METER instruction (type 6, length 8, ANY 32-bit meter id) anywhere in its
    instruction list — any decodable instructions `pre` before and `post` behind it, any decodable match — parses to
    exactly that list: …, `InstrMeter(InstrHeader(6, 8), meterId)`, … -/
theorem flowStatsReply_meter (xid : UInt32) (mpFlags : UInt16) (fx : Sw2.FsRec) (mb : Bytes) (mv : V)
    (hm : Sw2.MatchDec mb mv) (meterId : UInt32) (pre post : List (Bytes × V)) (hpre : ∀ p ∈ pre, Sw2.InstrDec p.1 p.2)
    (hpost : ∀ p ∈ post, Sw2.InstrDec p.1 p.2)
    (hsize : 16 + (48 + mb.length + ((Sw2.wireCat pre).length + 8 + (Sw2.wireCat post).length)) < 65536)
    (depth : Nat) (s : Slice) (hwf : s.WF)
    (hb : s.bytes = hdr 19 (UInt16.ofNat (16 + (48 + mb.length + ((Sw2.wireCat pre).length + 8 + (Sw2.wireCat post).length)))) xid
      ++ be16 1 ++ be16 mpFlags ++ zeros 4
      ++ (flowStatsFixed (UInt16.ofNat (48 + mb.length + ((Sw2.wireCat pre).length + 8 + (Sw2.wireCat post).length))) fx.tableId
            fx.durationSec fx.durationNsec fx.priority fx.idleTimeout fx.hardTimeout fx.flags fx.cookie fx.packetCount fx.byteCount
          ++ mb ++ (Sw2.wireCat pre ++ (be16 6 ++ be16 8 ++ be32 meterId) ++ Sw2.wireCat post))) :
    parse depth s = .ok (.obj "MultipartReply" [
      hdrV 19 (16 + (48 + mb.length + ((Sw2.wireCat pre).length + 8 + (Sw2.wireCat post).length))) xid, .num 1,
      .num mpFlags.toNat, .bytes [], .list [flowStatsV (48 + mb.length + ((Sw2.wireCat pre).length + 8 + (Sw2.wireCat post).length))
        fx.tableId fx.durationSec fx.durationNsec fx.priority fx.idleTimeout fx.hardTimeout fx.flags fx.cookie fx.packetCount
        fx.byteCount mv
        (pre.map Prod.snd ++ [.obj "InstrMeter" [.obj "InstrHeader" [.num 6, .num 8], .num meterId.toNat]] ++ post.map Prod.snd)]]) := by
  have hcat := wireCat_insert pre post (be16 6 ++ (be16 8 ++ be32 meterId)) (Sw2.meterV meterId)
  have hl : (Sw2.wireCat (pre ++ [(be16 6 ++ (be16 8 ++ be32 meterId), Sw2.meterV meterId)] ++ post)).length
      = (Sw2.wireCat pre).length + 8 + (Sw2.wireCat post).length := by
    rw [hcat]; simp; omega
  have hmap : (pre ++ [(be16 6 ++ (be16 8 ++ be32 meterId), Sw2.meterV meterId)] ++ post).map Prod.snd
      = pre.map Prod.snd ++ [.obj "InstrMeter" [.obj "InstrHeader" [.num 6, .num 8], .num meterId.toNat]] ++ post.map Prod.snd := by
    simp [Sw2.meterV]
  have := flowStatsReply_instructions xid mpFlags fx mb mv hm
    (pre ++ [(be16 6 ++ (be16 8 ++ be32 meterId), Sw2.meterV meterId)] ++ post)
    (by
      intro p hp
      simp only [List.mem_append, List.mem_cons, List.not_mem_nil, or_false] at hp
      rcases hp with (hp | rfl) | hp
      · exact hpre p hp
      · exact instruction_meter meterId
      · exact hpost p hp)
    (by rw [hl]; exact hsize) depth s hwf
    (by rw [hl, hcat, hb]; simp only [List.append_assoc])
  rw [hl, hmap] at this
  exact this

/-- the six actions concerned, each with its wire form (8 bytes) and value: set_nw_ttl, set_mpls_ttl, copy_ttl_out,
    copy_ttl_in, dec_mpls_ttl, pop_pbb -/
def ttlActions (nwTtl mplsTtl : UInt8) : List (Bytes × V) :=
  [(be16 23 ++ (be16 8 ++ [nwTtl, 0, 0, 0]), .obj "ActionNwTtl" [.obj "ActionHeader" [.num 23, .num 8], .num nwTtl.toNat, .bytes []]),
   (be16 15 ++ (be16 8 ++ [mplsTtl, 0, 0, 0]),
     .obj "ActionMplsTtl" [.obj "ActionHeader" [.num 15, .num 8], .num mplsTtl.toNat, .bytes []]),
   (be16 11 ++ (be16 8 ++ zeros 4), .obj "ActionDecNwTtl" [.obj "ActionHeader" [.num 11, .num 8], .bytes []]),
   (be16 12 ++ (be16 8 ++ zeros 4), .obj "ActionDecNwTtl" [.obj "ActionHeader" [.num 12, .num 8], .bytes []]),
   (be16 16 ++ (be16 8 ++ zeros 4), .obj "ActionDecNwTtl" [.obj "ActionHeader" [.num 16, .num 8], .bytes []]),
   (be16 27 ++ (be16 8 ++ zeros 4), .obj "ActionDecNwTtl" [.obj "ActionHeader" [.num 27, .num 8], .bytes []])]

theorem ttlActions_dec (nwTtl mplsTtl : UInt8) : ∀ p ∈ ttlActions nwTtl mplsTtl, Sw2.ActDec p.1 p.2 := by
  intro p hp
  simp only [ttlActions, List.mem_cons, List.not_mem_nil, or_false] at hp
  rcases hp with rfl | rfl | rfl | rfl | rfl | rfl
  · exact action_setNwTtl nwTtl
  · exact action_setMplsTtl mplsTtl
  · exact action_headerOnly 11 (by decide)
  · exact action_headerOnly 12 (by decide)
  · exact action_headerOnly 16 (by decide)
  · exact action_headerOnly 27 (by decide)

/-- write-actions / apply-actions holding these six actions between ANY decodable actions `pre` and `post`: every action
    comes back, in order, the ttl values included -/
theorem instruction_ttlActions (ty : UInt16) (hty : ty.toNat = 3 ∨ ty.toNat = 4 ∨ ty.toNat = 5) (nwTtl mplsTtl : UInt8)
    (pre post : List (Bytes × V)) (hpre : ∀ p ∈ pre, Sw2.ActDec p.1 p.2) (hpost : ∀ p ∈ post, Sw2.ActDec p.1 p.2)
    (hlen : 8 + (Sw2.wireCat (pre ++ ttlActions nwTtl mplsTtl ++ post)).length < 65536) :
    Sw2.InstrDec (be16 ty ++ (be16 (UInt16.ofNat (8 + (Sw2.wireCat (pre ++ ttlActions nwTtl mplsTtl ++ post)).length))
        ++ (zeros 4 ++ Sw2.wireCat (pre ++ ttlActions nwTtl mplsTtl ++ post))))
      (.obj "InstrActions" [.obj "InstrHeader" [.num ty.toNat, .num (8 + (Sw2.wireCat (pre ++ ttlActions nwTtl mplsTtl ++ post)).length)],
        .bytes [], .list ((pre ++ ttlActions nwTtl mplsTtl ++ post).map Prod.snd)]) :=
  instruction_actions ty hty _ (by
    intro p hp
    simp only [List.mem_append] at hp
    rcases hp with (hp | hp) | hp
    · exact hpre p hp
    · exact ttlActions_dec nwTtl mplsTtl p hp
    · exact hpost p hp) hlen

/-- the flow-stats reply that used to be rejected: a record (any decodable match, any fixed fields) whose apply-actions
    holds set_nw_ttl (type 23, length 8, ANY ttl, pad 3) parses, and the ttl comes back -/
theorem flowStatsReply_setNwTtl (xid : UInt32) (mpFlags : UInt16) (fx : Sw2.FsRec) (mb : Bytes) (mv : V)
    (hm : Sw2.MatchDec mb mv) (ttl : UInt8) (depth : Nat) (s : Slice) (hwf : s.WF)
    (hb : s.bytes = hdr 19 (UInt16.ofNat (16 + (48 + mb.length + 16))) xid ++ be16 1 ++ be16 mpFlags ++ zeros 4
      ++ (flowStatsFixed (UInt16.ofNat (48 + mb.length + 16)) fx.tableId fx.durationSec fx.durationNsec fx.priority fx.idleTimeout
            fx.hardTimeout fx.flags fx.cookie fx.packetCount fx.byteCount ++ mb
          ++ (be16 4 ++ be16 16 ++ zeros 4 ++ (be16 23 ++ be16 8 ++ [ttl, 0, 0, 0])))) :
    parse depth s = .ok (.obj "MultipartReply" [hdrV 19 (16 + (48 + mb.length + 16)) xid, .num 1, .num mpFlags.toNat, .bytes [],
      .list [flowStatsV (48 + mb.length + 16) fx.tableId fx.durationSec fx.durationNsec fx.priority fx.idleTimeout fx.hardTimeout
        fx.flags fx.cookie fx.packetCount fx.byteCount mv
        [.obj "InstrActions" [.obj "InstrHeader" [.num 4, .num 16], .bytes [],
          .list [.obj "ActionNwTtl" [.obj "ActionHeader" [.num 23, .num 8], .num ttl.toNat, .bytes []]]]]]]) := by
  have hmb := hm.2.2
  have hact : ∀ p ∈ [(be16 23 ++ (be16 8 ++ [ttl, 0, 0, 0]),
      V.obj "ActionNwTtl" [.obj "ActionHeader" [.num 23, .num 8], .num ttl.toNat, .bytes []])], Sw2.ActDec p.1 p.2 := by
    intro p hp
    simp only [List.mem_cons, List.not_mem_nil, or_false] at hp
    subst hp
    exact action_setNwTtl ttl
  have hwl : (Sw2.wireCat [(be16 23 ++ (be16 8 ++ [ttl, 0, 0, 0]),
      V.obj "ActionNwTtl" [.obj "ActionHeader" [.num 23, .num 8], .num ttl.toNat, .bytes []])]).length = 8 := rfl
  have hi := instruction_actions 4 (by decide) _ hact (by rw [hwl]; decide)
  simp only [hwl, Nat.reduceAdd] at hi
  have hil : (Sw2.wireCat [(be16 4 ++ (be16 (UInt16.ofNat 16) ++ (zeros 4 ++ Sw2.wireCat [(be16 23 ++ (be16 8 ++ [ttl, 0, 0, 0]),
        V.obj "ActionNwTtl" [.obj "ActionHeader" [.num 23, .num 8], .num ttl.toNat, .bytes []])])),
      V.obj "InstrActions" [.obj "InstrHeader" [.num (4 : UInt16).toNat, .num 16], .bytes [],
        .list ([(be16 23 ++ (be16 8 ++ [ttl, 0, 0, 0]),
          V.obj "ActionNwTtl" [.obj "ActionHeader" [.num 23, .num 8], .num ttl.toNat, .bytes []])].map Prod.snd)])]).length = 16 := rfl
  have := flowStatsReply_instructions xid mpFlags fx mb mv hm [(_, _)]
    (by
      intro p hp
      simp only [List.mem_cons, List.not_mem_nil, or_false] at hp
      subst hp
      exact hi)
    (by rw [hil]; omega) depth s hwf
    (by
      rw [hil, hb]
      simp only [Sw2.wireCat, List.map, List.flatten, List.append_assoc]
      rfl)
  rw [hil] at this
  exact this

/-- an IPv6 packet (next header 0) with a hop-by-hop header made of a Pad1 option (one zero byte) and a PadN option of
    5 bytes (01 03 00 00 00), in front of an ICMPv6 echo request -/
def ipv6HbhPad1 : Bytes :=
  be32 0x60000000 ++ be16 20 ++ [0, 64] ++ (zeros 15 ++ [1]) ++ (zeros 15 ++ [2])
    ++ [58, 0, 0, 1, 3, 0, 0, 0] ++ icmpBytes 128 0 0x1234 [1, 2, 3, 4]

/-- the packet-in carrying that packet — it used to be rejected — parses: the hop-by-hop header comes back with its two
    options, the ICMPv6 message behind it (general statement: `packetIn_ipv6_hbhOptions_icmpv6`) -/
theorem packetIn_ipv6_pad1 :
    parse 0 (Slice.exact (hdr 10 112 3 ++ packetInFixed 0xffffffff 70 0 0 0 ++ matchInPort 1 ++ zeros 2
      ++ ethBytes [0x33, 0x33, 0, 0, 0, 1] [2, 0, 0, 0, 0, 1] 0x86dd ipv6HbhPad1))
    = .ok (packetInV (hdrV 10 112 3) 0xffffffff 70 0 0 0 (Sw.matchInPortV 1)
        (ethFrameV [0x33, 0x33, 0, 0, 0, 1] [2, 0, 0, 0, 0, 1] noVlanV 0x86dd
          (.obj "p.IPv6" [.num 6, .num 0, .num 0, .num 20, .num 0, .num 64, .bytes (zeros 15 ++ [1]), .bytes (zeros 15 ++ [2]),
            .obj "p.HopByHopHeader" [.num 58, .num 0, .list [.obj "p.Option" [.num 0, .num 0, .bytes []],
              .obj "p.Option" [.num 1, .num 3, .bytes [0, 0, 0]]]],
            .nil, .nil, icmpV 128 0 0x1234 [1, 2, 3, 4]]))) :=
  packetIn_ipv6_hbhOptions_icmpv6 3 112 0xffffffff 70 0 0 0 _ _ (matchInPort_dec 1) [0x33, 0x33, 0, 0, 0, 1] [2, 0, 0, 0, 0, 1]
    { trafficClass := 0, flowLabel := 0, payloadLen := 20, nextHeader := 0, hopLimit := 64, src := zeros 15 ++ [1],
      dst := zeros 15 ++ [2] } 0 [.pad1, .tlv 1 [0, 0, 0]] 128 0 0x1234 [1, 2, 3, 4] rfl rfl (by decide) rfl
    (by
      intro o ho
      simp only [List.mem_cons, List.not_mem_nil, or_false] at ho
      rcases ho with rfl | rfl
      · trivial
      · exact ⟨by decide, by decide⟩)
    rfl 0 _ (Slice.exact_wf _) (Sw.exact_bytes _)

/-! ## Counterexamples: conforming contents that Parse does not hand over -/

/-- COUNTEREXAMPLE: a packet-in whose match contains — after any list of decodable basic-class fields — a TLV of
    in_phy_port (1), vlan_pcp (7), ip_ecn (9), mpls_tc (35), pbb_isid (37) or ipv6_exthdr (39) is REJECTED as a whole
    (`mlen`: the match length, which covers at least that TLV; `tail`: its payload, any further TLVs, the padding, the two
    pad bytes and the Ethernet frame).  `DecodeMatchField` has a `case` for these fields but allocates no value.
    OpenFlow 1.3.5 §7.4.1 puts in_phy_port into every packet-in whose physical port differs from in_port. -/
theorem packetIn_unsupportedField_rejected (xid : UInt32) (len : UInt16) (bufferId : UInt32) (totalLen : UInt16)
    (reason tableId : UInt8) (cookie : UInt64) (os : List Sw2.Oxm) (hos : ∀ o ∈ os, o.WF) (f : Nat) (hf : Sw2.Unsupported f)
    (hasMask : Bool) (fieldLen : UInt8) (mlen : UInt16) (tail : Bytes)
    (hmlen : 4 + (Sw2.tlvCat (oxmPairs os)).length < mlen.toNat) (depth : Nat) (s : Slice) (hwf : s.WF)
    (hb : s.bytes = hdr 10 len xid ++ packetInFixed bufferId totalLen reason tableId cookie
      ++ (be16 1 ++ be16 mlen ++ Sw2.tlvCat (oxmPairs os)
        ++ (be16 0x8000 ++ [UInt8.ofNat (2 * f + (if hasMask then 1 else 0)), fieldLen]) ++ tail)) :
    parse depth s = .err := by
  simp only [hdr, packetInFixed, List.append_assoc] at hb
  obtain ⟨k, hk⟩ := Sw.parse_step depth s
  have hl : 24 + (4 + (Sw2.tlvCat (oxmPairs os)).length + (4 + tail.length)) = s.len := by
    rw [← Sw.bytes_length s hwf, hb]; simp; omega
  obtain ⟨dm, h1, hdmwf, _, hdm⟩ := Sw.fromR_at s hwf 24 (by omega)
  rw [hb] at hdm
  have hfs : ∀ p ∈ oxmPairs os, Sw2.FieldDec p.1 p.2 := by
    intro p hp
    obtain ⟨o, ho, rfl⟩ := List.mem_map.mp hp
    exact oxm_basic o (hos o ho)
  have hmatch : Match.unmarshal msgMatchZero dm = .err :=
    Sw2.match_unsupported _ _ (oxmPairs os) hfs f hf (if hasMask then 1 else 0) (by cases hasMask <;> simp) fieldLen mlen
      tail dm hdmwf hmlen (by rw [hdm]; rfl)
  rw [hk, Sw.step_packetIn _ s (Sw.byteAt_at s 1 10 _ (by rw [hb]; rfl))]
  unfold PacketIn.unmarshal PacketIn.zero msgTryU
  simp only [Res.bind_ok, Sw.header_at _ s hwf 4 10 len xid _ hb,
    Sw.u32From_at s 8 bufferId _ (by rw [hb]; rfl),
    Sw.u16From_at s 12 totalLen _ (by rw [hb]; rfl),
    Sw.byteAt_at s 14 reason _ (by rw [hb]; rfl),
    Sw.byteAt_at s 15 tableId _ (by rw [hb]; rfl),
    Sw.u64From_at s 16 cookie _ (by rw [hb]; rfl), h1, hmatch]
  rfl

/-- the padded match [vlan_vid = vid, vlan_pcp = pcp] of the specification: 4 + 6 + 5 = 15 bytes, one pad byte -/
def matchVidPcp (vid : UInt16) (pcp : UInt8) : Bytes :=
  be16 1 ++ be16 15 ++ (be16 0x8000 ++ [12, 2] ++ be16 vid) ++ (be16 0x8000 ++ [14, 1] ++ [pcp]) ++ zeros 1

/-- COUNTEREXAMPLE: a flow-stats reply in which — after ANY list of decodable records — comes a record whose match holds,
    after any list of decodable basic-class fields, a TLV of an unsupported field (in_phy_port, vlan_pcp, ip_ecn, mpls_tc,
    pbb_isid, ipv6_exthdr) that ends the match (`mtail`: its payload and the padding; `hfit`: the TLV lies within the last
    8-byte block of the match, e.g. the 5-byte vlan_pcp behind vlan_vid), followed by ANY list of decodable instructions:
    the reply is REJECTED, whatever follows that record (`tail`: further records, anything).  The field decoder fails,
    FlowStats hands the error on, and the multipart loop returns it at the first failing record.  (Before the repair of
    the loop the error was overwritten by the next record's result and the field was lost without notice.) -/
theorem flowStatsReply_unsupportedField_rejected (xid : UInt32) (mpFlags len : UInt16) (rs : List Sw2.FsRec)
    (hrs : ∀ r ∈ rs, r.OK) (fx : Sw2.FsRec) (os : List Sw2.Oxm) (hos : ∀ o ∈ os, o.WF) (f : Nat) (hf : Sw2.Unsupported f)
    (hasMask : Bool) (fieldLen : UInt8) (mlen : UInt16) (mtail : Bytes)
    (hmlen : 4 + (Sw2.tlvCat (oxmPairs os)).length < mlen.toNat)
    (hfit : 4 + (Sw2.tlvCat (oxmPairs os)).length + 4 + mtail.length = (4 + (Sw2.tlvCat (oxmPairs os)).length + 7) / 8 * 8)
    (is : List (Bytes × V)) (his : ∀ p ∈ is, Sw2.InstrDec p.1 p.2)
    (hsize : 48 + (4 + (Sw2.tlvCat (oxmPairs os)).length + 4 + mtail.length) + (Sw2.wireCat is).length < 60000)
    (tail : Bytes) (hlen : 16 + (Sw2.recsBytes rs).length < len.toNat) (depth : Nat) (s : Slice) (hwf : s.WF)
    (hb : s.bytes = hdr 19 len xid ++ be16 1 ++ be16 mpFlags ++ zeros 4 ++ Sw2.recsBytes rs
      ++ (flowStatsFixed (UInt16.ofNat (48 + (4 + (Sw2.tlvCat (oxmPairs os)).length + 4 + mtail.length) + (Sw2.wireCat is).length))
            fx.tableId fx.durationSec fx.durationNsec fx.priority fx.idleTimeout fx.hardTimeout fx.flags fx.cookie fx.packetCount
            fx.byteCount
          ++ (be16 1 ++ be16 mlen ++ Sw2.tlvCat (oxmPairs os)
            ++ (be16 0x8000 ++ [UInt8.ofNat (2 * f + (if hasMask then 1 else 0)), fieldLen]) ++ mtail)
          ++ Sw2.wireCat is)
      ++ tail) :
    parse depth s = .err := by
  have hfs : ∀ p ∈ oxmPairs os, Sw2.FieldDec p.1 p.2 := by
    intro p hp
    obtain ⟨o, ho, rfl⟩ := List.mem_map.mp hp
    exact oxm_basic o (hos o ho)
  obtain ⟨ml, hml, hmlv⟩ := Sw2.match_len_any (.num 1) (.num mlen.toNat) (oxmPairs os) hfs (by omega)
  have hmbl : (be16 1 ++ (be16 mlen ++ (Sw2.tlvCat (oxmPairs os)
      ++ (be16 0x8000 ++ ([UInt8.ofNat (2 * f + (if hasMask then 1 else 0)), fieldLen] ++ mtail))))).length
      = 4 + (Sw2.tlvCat (oxmPairs os)).length + 4 + mtail.length := by simp; omega
  have := Sw2.flowStats_reply_flag_err xid mpFlags len rs hrs
    (mkRec fx (be16 1 ++ (be16 mlen ++ (Sw2.tlvCat (oxmPairs os)
        ++ (be16 0x8000 ++ ([UInt8.ofNat (2 * f + (if hasMask then 1 else 0)), fieldLen] ++ mtail)))))
      (.obj "Match" [.num 1, .num mlen.toNat, .list ((oxmPairs os).map Prod.snd)]) (Sw2.wireCat is) (is.map Prod.snd))
    (by
      intro a b dm hdmwf rest h
      exact Sw2.match_unsupportedP a b (oxmPairs os) hfs f hf (if hasMask then 1 else 0) (by cases hasMask <;> simp) fieldLen mlen
        (mtail ++ rest) dm hdmwf hmlen (by rw [h]; simp only [mkRec, List.append_assoc]))
    ml hml (by rw [hmlv, ← hfit]; exact hmbl.symm)
    (instructions_of_list is his (by omega))
    (by simp only [Sw2.FsRec.size, mkRec, hmbl]; omega)
    tail hlen depth s hwf
    (by
      rw [hb]
      simp only [hdr, flowStatsFixed, Sw2.FsRec.bytes, Sw2.FsRec.size, mkRec, hmbl, List.append_assoc])
  exact this

/-- COUNTEREXAMPLE (instance of the above; this is the reply that used to lose the priority SILENTLY): after any decodable
    records, a record matching on vlan_vid AND vlan_pcp, with any decodable instructions, followed by anything — REJECTED -/
theorem flowStatsReply_vlanPcp_rejected (xid : UInt32) (mpFlags len : UInt16) (rs : List Sw2.FsRec) (hrs : ∀ r ∈ rs, r.OK)
    (fx : Sw2.FsRec) (vid : UInt16) (pcp : UInt8) (is : List (Bytes × V)) (his : ∀ p ∈ is, Sw2.InstrDec p.1 p.2)
    (hsize : 64 + (Sw2.wireCat is).length < 60000) (tail : Bytes) (hlen : 16 + (Sw2.recsBytes rs).length < len.toNat)
    (depth : Nat) (s : Slice) (hwf : s.WF)
    (hb : s.bytes = hdr 19 len xid ++ be16 1 ++ be16 mpFlags ++ zeros 4 ++ Sw2.recsBytes rs
      ++ (flowStatsFixed (UInt16.ofNat (64 + (Sw2.wireCat is).length)) fx.tableId fx.durationSec fx.durationNsec fx.priority
            fx.idleTimeout fx.hardTimeout fx.flags fx.cookie fx.packetCount fx.byteCount ++ matchVidPcp vid pcp ++ Sw2.wireCat is)
      ++ tail) :
    parse depth s = .err := by
  have hvid : ∀ o ∈ [(⟨6, .u16 vid, none⟩ : Sw2.Oxm)], o.WF := by
    intro o ho
    simp only [List.mem_cons, List.not_mem_nil, or_false] at ho
    subst ho
    exact ⟨"VlanIdField", rfl, trivial, by simp⟩
  have hl : (Sw2.tlvCat (oxmPairs [⟨6, .u16 vid, none⟩])).length = 6 := rfl
  exact flowStatsReply_unsupportedField_rejected xid mpFlags len rs hrs fx [⟨6, .u16 vid, none⟩] hvid 7 (by decide) false 1 15
    ([pcp] ++ zeros 1) (by rw [hl]; decide) (by rw [hl]; rfl) is his (by rw [hl]; show 48 + 16 + _ < 60000; omega) tail hlen
    depth s hwf
    (by
      rw [hb, hl]
      simp only [matchVidPcp, List.append_assoc]
      rfl)

/-! ## Examples: every theorem instantiated with concrete values -/

section Examples

/-- sample addresses and headers -/
def macA : Bytes := [0x02, 0, 0, 0, 0, 0x0a]
def macB : Bytes := [0x02, 0, 0, 0, 0, 0x0b]
def ip4h (proto : UInt8) : Ipv4Hdr :=
  { dscp := 46, ecn := 1, totalLen := 40, ident := 0x1234, flags := 2, fragOff := 0, ttl := 64, proto := proto,
    checksum := 0xbeef, src := [10, 0, 0, 1], dst := [10, 0, 0, 2] }
def ip6h (nh : UInt8) : Ipv6Hdr :=
  { trafficClass := 0xb8, flowLabel := 0x12345, payloadLen := 32, nextHeader := nh, hopLimit := 255,
    src := [0xfe, 0x80, 0, 0, 0, 0, 0, 0, 0, 0, 0, 0, 0, 0, 0, 1], dst := [0xff, 2, 0, 0, 0, 0, 0, 0, 0, 0, 0, 0, 0, 0, 0, 1] }
def fxA : Sw2.FsRec :=
  { tableId := 3, durationSec := 100, durationNsec := 5000, priority := 0x8000, idleTimeout := 60, hardTimeout := 0, flags := 1,
    cookie := 0xc00c1e, packetCount := 12, byteCount := 3400, mb := [], mv := .nil, ib := [], iv := [] }

example : Sw2.Dec (Sw2.ip4Data 1) (icmpBytes 8 0 0x1234 [1, 2]) (icmpV 8 0 0x1234 [1, 2]) := l4_icmp 8 0 0x1234 [1, 2]
example : Sw2.Dec (Sw2.ip4Data 17) (udpBytes 53 5353 10 0 [7, 7]) (udpV 53 5353 10 0 [7, 7]) := l4_udp 53 5353 10 0 [7, 7]
example : Sw2.Dec (Sw2.ip4Data 6) [1, 2, 3] (.obj "u.Buffer" [.bytes [1, 2, 3]]) := l4_other 6 (by decide) (by decide) [1, 2, 3]
example : Sw2.Dec (Sw2.ip6Data 58) (icmpBytes 135 0 0x1234 [1, 2]) (icmpV 135 0 0x1234 [1, 2]) := u6_icmpv6 135 0 0x1234 [1, 2]
example : Sw2.Dec (Sw2.ip6Data 17) (udpBytes 546 547 10 0 [7, 7]) (udpV 546 547 10 0 [7, 7]) := u6_udp 546 547 10 0 [7, 7]
example : Sw2.Dec (Sw2.ip6Data 6) [1, 2, 3] (.obj "u.Buffer" [.bytes [1, 2, 3]]) := u6_other 6 (by decide) (by decide) [1, 2, 3]
example : Sw2.Chain 58 [] 58 .nil .nil .nil := chain_none 58 (by decide)
example : Sw2.Chain 0 (hbhBytes 58 1 (zeros 4)) 58 (hbhV 58 1 (zeros 4)) .nil .nil := chain_hbh 58 1 (by decide) (zeros 4) rfl (by decide)
example : Sw2.Chain 44 (fragBytes 17 185 true 0xdeadbeef) 17 .nil .nil (fragV 17 185 true 0xdeadbeef) :=
  chain_frag 17 185 true 0xdeadbeef (by decide) (by decide)
example : Sw2.Chain 0 (hbhBytes 44 1 (zeros 4) ++ fragBytes 6 0 false 7) 6 (hbhV 44 1 (zeros 4)) .nil (fragV 6 0 false 7) :=
  chain_hbh_frag 1 (by decide) (zeros 4) rfl 6 0 false 7 (by decide) (by decide)
example : Sw2.Dec (PIPv4.unmarshal PIPv4.zero) ((ip4h 1).bytes ++ icmpBytes 8 0 0x1234 [1, 2]) ((ip4h 1).val (icmpV 8 0 0x1234 [1, 2])) :=
  ipv4_packet (ip4h 1) (by decide) _ _ (l4_icmp 8 0 0x1234 [1, 2])
example : Sw2.Dec (PIPv6.unmarshal PIPv6.zero) ((ip6h 58).bytes ++ [] ++ icmpBytes 135 0 0x1234 [1, 2])
    ((ip6h 58).val .nil .nil .nil (icmpV 135 0 0x1234 [1, 2])) :=
  ipv6_packet (ip6h 58) (by decide) [] _ 58 _ _ _ _ (chain_none 58 (by decide)) (u6_icmpv6 135 0 0x1234 [1, 2])
example : Sw2.Dec (PARP.unmarshal PARP.zero) (arpBytes 2 macA [10, 0, 0, 1] macB [10, 0, 0, 2])
    (.obj "p.ARP" [.num 1, .num 0x0800, .num 6, .num 4, .num 2, .bytes macA, .bytes [10, 0, 0, 1], .bytes macB, .bytes [10, 0, 0, 2]]) :=
  arp_packet 2 macA [10, 0, 0, 1] macB [10, 0, 0, 2] rfl rfl rfl rfl
example : FrameDec (ethBytes macA macB 0x88cc [1, 2, 3]) (ethFrameV macA macB noVlanV 0x88cc (.obj "u.Buffer" [.bytes [1, 2, 3]])) :=
  eth_untagged macA macB 0x88cc _ _ rfl rfl (by decide) (l3_other 0x88cc (by decide) (by decide) (by decide) [1, 2, 3])
/-- a priority-tagged frame (VID 0, PCP 5) -/
example : FrameDec (ethTaggedBytes macA macB 5 0 0 0x88cc [1, 2, 3])
    (ethFrameV macA macB (.obj "p.VLAN" [.num 0x8100, .num 5, .num 0, .num 0]) 0x88cc (.obj "u.Buffer" [.bytes [1, 2, 3]])) :=
  eth_tagged macA macB 5 0 0 0x88cc _ _ rfl rfl (by decide) (by decide) (by decide)
    (l3_other 0x88cc (by decide) (by decide) (by decide) [1, 2, 3])
example : FrameDec (ethTaggedBytes macA macB 0 0 100 0x0800 ((ip4h 6).bytes ++ [1, 2, 3, 4]))
    (ethFrameV macA macB (.obj "p.VLAN" [.num 0x8100, .num 0, .num 0, .num 100]) 0x0800 ((ip4h 6).val (.obj "u.Buffer" [.bytes [1, 2, 3, 4]]))) :=
  frame_vlan_ipv4_other macA macB 0 0 100 (ip4h 6) [1, 2, 3, 4] rfl rfl (by decide) (by decide) (by decide) (by decide)
    (by decide) (by decide)
example : FrameDec (ethBytes macA macB 0x86dd ((ip6h 0).bytes ++ hbhBytes 58 1 (zeros 4) ++ icmpBytes 130 0 0x1234 [0, 0, 0, 0]))
    (ethFrameV macA macB noVlanV 0x86dd ((ip6h 0).val (hbhV 58 1 (zeros 4)) .nil .nil (icmpV 130 0 0x1234 [0, 0, 0, 0]))) :=
  frame_ipv6_hbh_icmpv6 macA macB (ip6h 0) 1 (zeros 4) 130 0 0x1234 [0, 0, 0, 0] rfl rfl (by decide) rfl (by decide) rfl

/-- packet-in, in_port match, IPv4/ICMP echo request -/
example : parse 0 (Slice.exact (hdr 10 82 3 ++ packetInFixed 0xffffffff 40 0 0 0 ++ matchInPort 1 ++ zeros 2
      ++ ethBytes macA macB 0x0800 ((ip4h 1).bytes ++ icmpBytes 8 0 0x1234 [1, 2])))
    = .ok (packetInV (hdrV 10 82 3) 0xffffffff 40 0 0 0 (Sw.matchInPortV 1)
        (ethFrameV macA macB noVlanV 0x0800 ((ip4h 1).val (icmpV 8 0 0x1234 [1, 2])))) :=
  packetIn_ipv4_icmp 3 82 0xffffffff 40 0 0 0 _ _ (matchInPort_dec 1) macA macB (ip4h 1) 8 0 0x1234 [1, 2] rfl rfl (by decide) rfl
    0 _ (Slice.exact_wf _) (Sw.exact_bytes _)

/-- a packet-in carrying a tagged IPv4/UDP packet -/
def pktA : Bytes :=
  hdr 10 90 3 ++ packetInFixed 7 44 1 2 0xabc ++ matchInPort 1 ++ zeros 2
    ++ ethTaggedBytes macA macB 3 0 100 0x0800 ((ip4h 17).bytes ++ udpBytes 53 5353 12 0 [1, 2, 3, 4])

/-- … decoded from a buffer that continues with other bytes behind the frame -/
example : ∃ v, parse 0 ⟨pktA ++ [0xde, 0xad], pktA.length⟩ = .ok v :=
  ⟨_, packetIn_vlan_ipv4_udp 3 90 7 44 1 2 0xabc _ _ (matchInPort_dec 1) macA macB 3 0 100 (ip4h 17) 53 5353 12 0 [1, 2, 3, 4]
    rfl rfl (by decide) (by decide) (by decide) (by decide) rfl 0 _ (Sw.spare_wf pktA _) (Sw.spare_bytes pktA _)⟩

example : ∃ v, parse 0 (Slice.exact (hdr 10 88 3 ++ packetInFixed 7 46 1 2 0xabc ++ matchInPort 1 ++ zeros 2
      ++ ethTaggedBytes macA macB 0 0 7 0x0806 (arpBytes 1 macB [10, 0, 0, 2] (zeros 6) [10, 0, 0, 1]))) = .ok v :=
  ⟨_, packetIn_vlan_arp 3 88 7 46 1 2 0xabc _ _ (matchInPort_dec 1) macA macB 0 0 7 1 macB [10, 0, 0, 2] (zeros 6) [10, 0, 0, 1]
    rfl rfl (by decide) (by decide) (by decide) rfl rfl rfl rfl 0 _ (Slice.exact_wf _) (Sw.exact_bytes _)⟩

example : ∃ v, parse 0 (Slice.exact (hdr 10 104 3 ++ packetInFixed 7 62 1 2 0xabc ++ matchInPort 1 ++ zeros 2
      ++ ethBytes macA macB 0x86dd ((ip6h 58).bytes ++ icmpBytes 135 0 0x1234 [1, 2, 3, 4]))) = .ok v :=
  ⟨_, packetIn_ipv6_icmpv6 3 104 7 62 1 2 0xabc _ _ (matchInPort_dec 1) macA macB (ip6h 58) 135 0 0x1234 [1, 2, 3, 4]
    rfl rfl (by decide) rfl 0 _ (Slice.exact_wf _) (Sw.exact_bytes _)⟩

example : ∃ v, parse 0 (Slice.exact (hdr 10 128 3 ++ packetInFixed 7 86 1 2 0xabc ++ matchInPort 1 ++ zeros 2
      ++ ethTaggedBytes macA macB 7 1 4095 0x86dd ((ip6h 0).bytes ++ (hbhBytes 44 1 (zeros 4) ++ fragBytes 17 185 true 0xdeadbeef)
        ++ udpBytes 546 547 12 0 [1, 2, 3, 4]))) = .ok v :=
  ⟨_, packetIn_vlan_ipv6_hbh_frag_udp 3 128 7 86 1 2 0xabc _ _ (matchInPort_dec 1) macA macB 7 1 4095 (ip6h 0) 1 (zeros 4) 185 true
    0xdeadbeef 546 547 12 0 [1, 2, 3, 4] rfl rfl (by decide) (by decide) (by decide) (by decide) rfl (by decide) rfl (by decide)
    0 _ (Slice.exact_wf _) (Sw.exact_bytes _)⟩

example : ∃ v, parse 0 (Slice.exact (hdr 10 108 3 ++ packetInFixed 7 66 1 2 0xabc ++ matchInPort 1 ++ zeros 2
      ++ ethBytes macA macB 0x86dd ((ip6h 44).bytes ++ fragBytes 6 100 false 9 ++ [1, 2, 3, 4]))) = .ok v :=
  ⟨_, packetIn_ipv6_frag_other 3 108 7 66 1 2 0xabc _ _ (matchInPort_dec 1) macA macB (ip6h 44) 6 100 false 9 [1, 2, 3, 4]
    rfl rfl (by decide) rfl (by decide) (by decide) (by decide) (by decide) 0 _ (Slice.exact_wf _) (Sw.exact_bytes _)⟩

/-- a match with five basic-class fields, two of them masked: in_port, eth_dst/mask, eth_type, ipv4_src/mask, tunnel_id -/
def sampleOxms : List Sw2.Oxm :=
  [⟨0, .u32 7, none⟩, ⟨3, .mac macA, some (.mac [0xff, 0xff, 0xff, 0, 0, 0])⟩, ⟨5, .u16 0x0800, none⟩,
   ⟨11, .ip4 10 1 0 0, some (.ip4 255 255 0 0)⟩, ⟨38, .u64 0x1122334455667788, none⟩]

theorem sampleOxms_wf : ∀ o ∈ sampleOxms, o.WF := by
  intro o ho
  simp only [sampleOxms, List.mem_cons, List.not_mem_nil, or_false] at ho
  rcases ho with rfl | rfl | rfl | rfl | rfl
  · exact ⟨"InPortField", rfl, trivial, by simp⟩
  · exact ⟨"EthDstField", rfl, rfl, by intro m hm; cases hm; exact ⟨rfl, rfl⟩⟩
  · exact ⟨"EthTypeField", rfl, trivial, by simp⟩
  · exact ⟨"Ipv4SrcField", rfl, trivial, by intro m hm; cases hm; exact ⟨rfl, trivial⟩⟩
  · exact ⟨"TunnelIdField", rfl, trivial, by simp⟩

example : Sw2.FieldDec (be16 0x8000 ++ ([7, 12] ++ (macA ++ [0xff, 0xff, 0xff, 0, 0, 0])))
    (.obj "MatchField" [.num 0x8000, .num 3, .num 1, .num 12, .num 0, .obj "EthDstField" [.bytes macA],
      .obj "EthDstField" [.bytes [0xff, 0xff, 0xff, 0, 0, 0]]]) :=
  oxm_basic ⟨3, .mac macA, some (.mac [0xff, 0xff, 0xff, 0, 0, 0])⟩ (sampleOxms_wf _ (by simp [sampleOxms]))

/-- the five fields plus a masked ONF tcp_flags TLV and an ONF actset_output TLV -/
def sampleTlvs : List (Bytes × V) :=
  oxmPairs sampleOxms ++
    [(be16 0xffff ++ ([85, 8] ++ (be32 0x4f4e4600 ++ (be16 0x0012 ++ be16 0x0fff))),
      .obj "MatchField" [.num 0xffff, .num 42, .num 1, .num 8, .num 0x4f4e4600, .obj "TcpFlagsField" [.num 0x12],
        .obj "TcpFlagsField" [.num 0xfff]]),
     (be16 0xffff ++ ([86, 8] ++ (be32 0x4f4e4600 ++ be32 9)),
      .obj "MatchField" [.num 0xffff, .num 43, .num 0, .num 8, .num 0x4f4e4600, .obj "ActsetOutputField" [.num 9], .nil])]

theorem sampleTlvs_dec : ∀ p ∈ sampleTlvs, Sw2.FieldDec p.1 p.2 := by
  intro p hp
  simp only [sampleTlvs, List.mem_append, List.mem_cons, List.not_mem_nil, or_false] at hp
  rcases hp with hp | rfl | rfl
  · obtain ⟨o, ho, rfl⟩ := List.mem_map.mp hp
    exact oxm_basic o (sampleOxms_wf o ho)
  · exact oxm_onf_tcpFlags_masked 0x0012 0x0fff
  · exact oxm_onf_actsetOutput 9

example : ∃ fv, Sw2.FieldDec (be16 1 ++ ([UInt8.ofNat (2 * 3 + 1), 8] ++ (be32 0xcafe ++ be32 0xffff))) fv :=
  ⟨_, oxm_nxm_reg_masked 3 (by decide) 0xcafe 0xffff⟩
example : ∃ fv, Sw2.FieldDec (be16 1 ++ ([UInt8.ofNat (2 * 15), 4] ++ be32 7)) fv := ⟨_, oxm_nxm_reg 15 (by decide) 7⟩

theorem sampleTlvs_len : (Sw2.tlvCat sampleTlvs).length = 78 := rfl

theorem sampleMatch_dec : Sw2.MatchDec (Sw2.matchBytes sampleTlvs) (Sw2.matchV sampleTlvs) :=
  match_of_tlvs sampleTlvs sampleTlvs_dec (by rw [sampleTlvs_len]; decide)

example : Sw2.MatchDec (Sw2.matchBytes (oxmPairs sampleOxms)) (Sw2.matchV (oxmPairs sampleOxms)) :=
  match_oxm sampleOxms sampleOxms_wf (by decide)

/-- flow-removed with that seven-field match -/
example : ∃ v, parse 0 (Slice.exact (hdr 11 136 3 ++ flowRemovedFixed 0xc00c1e 100 1 7 60 999 30 0 12 3400
      ++ Sw2.matchBytes sampleTlvs)) = .ok v :=
  ⟨_, flowRemoved_match 3 136 0xc00c1e 100 1 7 60 999 30 0 12 3400 _ _ sampleMatch_dec 0 _ (Slice.exact_wf _) (Sw.exact_bytes _)⟩

/-- packet-in with the five-field match and an LLDP frame -/
example : ∃ v, parse 0 (Slice.exact (hdr 10 108 3 ++ packetInFixed 7 18 1 2 0xabc ++ Sw2.matchBytes (oxmPairs sampleOxms) ++ zeros 2
      ++ ethBytes macA macB 0x88cc [1, 2, 3, 4])) = .ok v :=
  ⟨_, packetIn_match 3 108 7 18 1 2 0xabc sampleOxms sampleOxms_wf (by decide) macA macB 0x88cc [1, 2, 3, 4] rfl rfl (by decide)
    0 _ (Slice.exact_wf _) (Sw.exact_bytes _)⟩

/-- packet-in with the seven-field match and a tagged IPv4/UDP packet -/
example : ∃ v, parse 0 (Slice.exact (hdr 10 158 3 ++ packetInFixed 7 44 1 2 0xabc ++ Sw2.matchBytes sampleTlvs ++ zeros 2
      ++ ethTaggedBytes macA macB 3 0 100 0x0800 ((ip4h 17).bytes ++ udpBytes 53 5353 12 0 [1, 2, 3, 4]))) = .ok v :=
  ⟨_, packetIn_of 3 158 7 44 1 2 0xabc _ _ sampleMatch_dec _ _
    (frame_vlan_ipv4_udp macA macB 3 0 100 (ip4h 17) 53 5353 12 0 [1, 2, 3, 4] rfl rfl (by decide) (by decide) (by decide)
      (by decide) rfl) 0 _ (Slice.exact_wf _) (Sw.exact_bytes _)⟩

example : Sw2.InstrDec (be16 5 ++ (be16 8 ++ (zeros 4 ++ [])))
    (.obj "InstrActions" [.obj "InstrHeader" [.num 5, .num 8], .bytes [], .list []]) :=
  instruction_actions 5 (by decide) [] (by simp) (by decide)

example : Sw2.InstrsDec (sampleInstrBytes 2 0xffff 100 0xfff8 5 9 0xaa 0xff) (sampleInstrV 2 0xffff 100 0xfff8 5 9 0xaa 0xff) :=
  sampleInstrs_dec 2 0xffff 100 0xfff8 5 9 0xaa 0xff

/-- three records with the empty match and no instructions -/
def threeRecs : List Sw2.FsRec :=
  [mkRec fxA matchEmpty Sw.matchEmptyV [] [], mkRec fxA matchEmpty Sw.matchEmptyV [] [], mkRec fxA matchEmpty Sw.matchEmptyV [] []]

theorem threeRecs_len : (Sw2.recsBytes threeRecs).length = 168 := by
  simp [Sw2.recsBytes, threeRecs, Sw2.FsRec.bytes_length, Sw2.FsRec.size, mkRec, matchEmpty]

/-- a flow-stats reply with these three records -/
example : ∃ v, parse 0 (Slice.exact (hdr 19 (UInt16.ofNat (16 + (Sw2.recsBytes threeRecs).length)) 3 ++ be16 1 ++ be16 0 ++ zeros 4
      ++ Sw2.recsBytes threeRecs)) = .ok v :=
  ⟨_, flowStatsReply_records 3 0 threeRecs (by
      intro r hr
      simp only [threeRecs, List.mem_cons, List.not_mem_nil, or_false] at hr
      rcases hr with h | h | h <;> (rw [h]; exact emptyRec_ok fxA))
    (by rw [threeRecs_len]; decide) 0 _ (Slice.exact_wf _) (Sw.exact_bytes _)⟩

/-- the two-record reply -/
example : ∃ v, parse 0 (Slice.exact (hdr 19 224 3 ++ be16 1 ++ be16 1 ++ zeros 4
      ++ (flowStatsFixed 152 3 100 5000 0x8000 60 0 1 0xc00c1e 12 3400 ++ matchInPort 1
          ++ sampleInstrBytes 2 0xffff 100 0xfff8 5 9 0xaa 0xff)
      ++ (flowStatsFixed 56 3 100 5000 0x8000 60 0 1 0xc00c1e 12 3400 ++ matchEmpty))) = .ok v :=
  ⟨_, flowStatsReply_two 3 1 fxA fxA 1 2 0xffff 100 0xfff8 5 9 0xaa 0xff 0 _ (Slice.exact_wf _) (Sw.exact_bytes _)⟩

/-- COUNTEREXAMPLE instance: packet-in of a switch with logical ports: in_port 7, in_phy_port 3 -/
example : parse 0 (Slice.exact (hdr 10 72 3 ++ packetInFixed 0xffffffff 18 0 0 0
      ++ (be16 1 ++ be16 20 ++ Sw2.tlvCat (oxmPairs [⟨0, .u32 7, none⟩]) ++ (be16 0x8000 ++ [UInt8.ofNat (2 * 1 + 0), 4])
        ++ (be32 3 ++ zeros 4 ++ zeros 2 ++ ethBytes macA macB 0x88cc [1, 2, 3, 4])))) = .err :=
  packetIn_unsupportedField_rejected 3 72 0xffffffff 18 0 0 0 [⟨0, .u32 7, none⟩] (by
      intro o ho
      simp only [List.mem_cons, List.not_mem_nil, or_false] at ho
      subst ho
      exact ⟨"InPortField", rfl, trivial, by simp⟩) 1 (by decide) false 4 20 _ (by decide) 0 _ (Slice.exact_wf _)
    (Sw.exact_bytes _)

/-- a goto-table instruction, with wire form and value -/
def gotoNine : List (Bytes × V) := [(be16 1 ++ (be16 8 ++ [9, 0, 0, 0]), Sw.gotoTableV 9)]

/-- meter 5 behind a goto-table instruction -/
example : ∃ v, parse 0 (Slice.exact (hdr 19 (UInt16.ofNat (16 + (48 + matchEmpty.length + ((Sw2.wireCat gotoNine).length + 8
        + (Sw2.wireCat []).length)))) 3 ++ be16 1 ++ be16 0 ++ zeros 4
      ++ (flowStatsFixed (UInt16.ofNat (48 + matchEmpty.length + ((Sw2.wireCat gotoNine).length + 8 + (Sw2.wireCat []).length)))
          3 100 5000 0x8000 60 0 1 0xc00c1e 12 3400
        ++ matchEmpty ++ (Sw2.wireCat gotoNine ++ (be16 6 ++ be16 8 ++ be32 5) ++ Sw2.wireCat [])))) = .ok v :=
  ⟨_, flowStatsReply_meter 3 0 fxA matchEmpty _ matchEmpty_dec 5 gotoNine []
    (by
      intro p hp
      simp only [gotoNine, List.mem_cons, List.not_mem_nil, or_false] at hp
      subst hp
      exact instruction_gotoTable 9) (by simp) (by show 16 + (48 + 8 + (8 + 8 + 0)) < 65536; decide) 0 _ (Slice.exact_wf _)
    (Sw.exact_bytes _)⟩

/-- set_nw_ttl 64 -/
example : ∃ v, parse 0 (Slice.exact (hdr 19 (UInt16.ofNat (16 + (48 + matchEmpty.length + 16))) 3 ++ be16 1 ++ be16 0 ++ zeros 4
      ++ (flowStatsFixed (UInt16.ofNat (48 + matchEmpty.length + 16)) 3 100 5000 0x8000 60 0 1 0xc00c1e 12 3400 ++ matchEmpty
        ++ (be16 4 ++ be16 16 ++ zeros 4 ++ (be16 23 ++ be16 8 ++ [64, 0, 0, 0]))))) = .ok v :=
  ⟨_, flowStatsReply_setNwTtl 3 0 fxA matchEmpty _ matchEmpty_dec 64 0 _ (Slice.exact_wf _) (Sw.exact_bytes _)⟩

/-- apply-actions [output, set_nw_ttl 64, set_mpls_ttl 32, copy_ttl_out, copy_ttl_in, dec_mpls_ttl, pop_pbb] -/
example : ∃ iv, Sw2.InstrDec (be16 4 ++ (be16 (UInt16.ofNat (8 + (Sw2.wireCat ([(be16 0 ++ (be16 16 ++ (be32 2 ++ (be16 0xffff
      ++ zeros 6))), Sw2.outputV 2 0xffff)] ++ ttlActions 64 32 ++ [])).length)) ++ (zeros 4 ++ Sw2.wireCat ([(be16 0 ++ (be16 16 ++
      (be32 2 ++ (be16 0xffff ++ zeros 6))), Sw2.outputV 2 0xffff)] ++ ttlActions 64 32 ++ [])))) iv :=
  ⟨_, instruction_ttlActions 4 (by decide) 64 32 [(_, _)] []
    (by
      intro p hp
      simp only [List.mem_cons, List.not_mem_nil, or_false] at hp
      subst hp
      exact action_output 2 0xffff) (by simp) (by decide)⟩

example : Sw2.Chain 0 (hbhOptsBytes 58 1 [.tlv 5 [0, 0], .pad1, .tlv 1 [0, 0, 0, 0, 0, 0], .pad1]) 58
    (Sw2.hbhOptsV 58 1 [.tlv 5 [0, 0], .pad1, .tlv 1 [0, 0, 0, 0, 0, 0], .pad1]) .nil .nil :=
  chain_hbh_options 58 1 _ (by decide) (by decide) (by decide)
example : ∃ hv, Sw2.Chain 0 [58, 0, 0, 1, 3, 0, 0, 0] 58 hv .nil .nil := ⟨_, chain_hbh_pad1 58 (by decide)⟩
example : ∃ hv, Sw2.Chain 0 ([58, 0, 5, 2] ++ (be16 0 ++ [0, 0])) 58 hv .nil .nil := ⟨_, chain_hbh_routerAlert_pad1 58 0 (by decide)⟩

/-- COUNTEREXAMPLE instance: vlan 5 with priority 3 in the first of two records — the reply is rejected -/
example : parse 0 (Slice.exact (hdr 19 136 3 ++ be16 1 ++ be16 0 ++ zeros 4 ++ Sw2.recsBytes []
      ++ (flowStatsFixed (UInt16.ofNat (64 + (Sw2.wireCat []).length)) 3 100 5000 0x8000 60 0 1 0xc00c1e 12 3400
          ++ matchVidPcp 0x1005 3 ++ Sw2.wireCat [])
      ++ (flowStatsFixed 56 3 100 5000 0x8000 60 0 1 0xc00c1e 12 3400 ++ matchEmpty))) = .err :=
  flowStatsReply_vlanPcp_rejected 3 0 136 [] (by simp) fxA 0x1005 3 [] (by simp) (by decide) _ (by decide) 0 _
    (Slice.exact_wf _) (Sw.exact_bytes _)

end Examples

end OFV.Props.C04b
