/-
  C19 — ofbase encoder/decoder primitives are symmetric and alignment-exact.
-/
import OFV.Model.OfBase
namespace OFV.Props.C19
open OFV OFV.Go OFV.Model.OfBase

theorem bmod_small (x : Int) (h1 : -(2^63) ≤ x) (h2 : x < 2^63) : x.bmod (2^64) = x := by
  unfold Int.bmod; simp only []; split <;> omega

/-- the regenerated Int64 alignment expression, in plain arithmetic (offsets below 2^62) -/
theorem skipAlign_offset (d : Dec) (h : d.base + d.offset + 7 < 2^62) :
    (skipAlign d).offset = (d.base + d.offset + 7) / 8 * 8 - d.base := by
  unfold skipAlign Gen.ofbase.Decoder.SkipAlign
  simp only []
  generalize d.offset = a at *
  generalize d.base = b at *
  have ha : (Int64.ofNat a).toInt = a := Int64.toInt_ofNat_of_lt (by omega)
  have hb : (Int64.ofNat b).toInt = b := Int64.toInt_ofNat_of_lt (by omega)
  have h7 : (7 : Int64).toInt = 7 := rfl
  have h8 : (8 : Int64).toInt = 8 := rfl
  have e1 : (Int64.ofNat b + Int64.ofNat a).toInt = b + a := by
    rw [Int64.toInt_add, ha, hb, bmod_small] <;> omega
  have e2 : (Int64.ofNat b + Int64.ofNat a + 7).toInt = b + a + 7 := by
    rw [Int64.toInt_add, e1, h7, bmod_small] <;> omega
  have e3 : ((Int64.ofNat b + Int64.ofNat a + 7) / 8).toInt = (b + a + 7) / 8 := by
    rw [Int64.toInt_div, e2, h8, Int.tdiv_eq_ediv_of_nonneg (by omega), bmod_small] <;> omega
  have e4 : ((Int64.ofNat b + Int64.ofNat a + 7) / 8 * 8).toInt = (b + a + 7) / 8 * 8 := by
    rw [Int64.toInt_mul, e3, h8, bmod_small] <;> omega
  have e5 : ((Int64.ofNat b + Int64.ofNat a + 7) / 8 * 8 - Int64.ofNat b).toInt = (b + a + 7) / 8 * 8 - b := by
    rw [Int64.toInt_sub, e4, hb, bmod_small] <;> omega
  have e6 : ((Int64.ofNat b + Int64.ofNat a + 7) / 8 * 8 - Int64.ofNat b - Int64.ofNat a).toInt
      = (b + a + 7) / 8 * 8 - b - a := by
    rw [Int64.toInt_sub, e5, ha, bmod_small] <;> omega
  have e7 : (Int64.ofNat a + ((Int64.ofNat b + Int64.ofNat a + 7) / 8 * 8 - Int64.ofNat b - Int64.ofNat a)).toInt
      = (b + a + 7) / 8 * 8 - b := by
    rw [Int64.toInt_add, e6, ha, bmod_small] <;> omega
  rw [Int64.toNatClampNeg, e7]
  omega

/-- alignment skip of a (possibly sliced) decoder: lands on the next multiple of 8 counted from the start of the
    enclosing message, moves forward by at most 7, never backwards, and not further than necessary -/
theorem C19_align_dec (d : Dec) (h : d.base + d.offset + 7 < 2^62) :
    let d' := skipAlign d
    (d'.base + d'.offset) % 8 = 0 ∧ d.offset ≤ d'.offset ∧ d'.offset - d.offset ≤ 7 ∧
    (∀ k, d.offset ≤ k → (d.base + k) % 8 = 0 → d'.offset ≤ k) ∧ d'.base = d.base ∧ d'.buf = d.buf := by
  have ho := skipAlign_offset d h
  have hb : (skipAlign d).base = d.base := rfl
  have hbuf : (skipAlign d).buf = d.buf := rfl
  simp only [ho, hb, hbuf]
  refine ⟨by omega, by omega, by omega, ?_, trivial, trivial⟩
  intro k hk hm
  omega

/-- encoder alignment: pads with fewer than 8 zero bytes up to a multiple of 8 -/
theorem C19_align_enc (e : Enc) :
    (encSkipAlign e).length % 8 = 0 ∧ (encSkipAlign e).length - e.length < 8 ∧
    ∃ k, k < 8 ∧ encSkipAlign e = e ++ zeros k := by
  unfold encSkipAlign
  have hl : (e ++ zeros ((e.length + 7) / 8 * 8 - e.length)).length = e.length + ((e.length + 7) / 8 * 8 - e.length) := by simp
  refine ⟨by omega, by omega, ⟨(e.length + 7) / 8 * 8 - e.length, by omega, rfl⟩⟩

/-- each Put appends exactly the value's width -/
theorem C19_put_widths (e : Enc) :
    (∀ v, (putU8 e v).length = e.length + 1) ∧ (∀ v, (putU16 e v).length = e.length + 2) ∧
    (∀ v, (putU32 e v).length = e.length + 4) ∧ (∀ v, (putU64 e v).length = e.length + 8) ∧
    (∀ h l, (putU128 e h l).length = e.length + 16) ∧ (∀ b, (write e b).length = e.length + b.length) := by
  simp [putU8, putU16, putU32, putU64, putU128, write]

/-- each successful Read advances the position by exactly the value's width and leaves buffer and base alone -/
theorem C19_read_widths (d : Dec) :
    (∀ v d', readByte d = some (v, d') → d' = { d with offset := d.offset + 1 }) ∧
    (∀ v d', readU16 d = some (v, d') → d' = { d with offset := d.offset + 2 }) ∧
    (∀ v d', readU32 d = some (v, d') → d' = { d with offset := d.offset + 4 }) ∧
    (∀ v d', readU64 d = some (v, d') → d' = { d with offset := d.offset + 8 }) ∧
    (∀ v d', readU128 d = some (v, d') → d' = { d with offset := d.offset + 16 }) ∧
    (∀ n v d', readN d n = some (v, d') → d' = { d with offset := d.offset + n }) := by
  refine ⟨?_, ?_, ?_, ?_, ?_, ?_⟩
  · intro v d' h
    simp only [readByte, Option.map_eq_some_iff] at h
    obtain ⟨c, _, hc⟩ := h
    exact (Prod.mk.inj hc).2.symm
  all_goals
    intros
    rename_i h
    first
      | (unfold readU16 at h; repeat (split at h <;> try contradiction))
      | (unfold readU32 at h; repeat (split at h <;> try contradiction))
      | (unfold readU64 at h; repeat (split at h <;> try contradiction))
      | (unfold readU128 at h; repeat (split at h <;> try contradiction))
      | (unfold readN at h; repeat (split at h <;> try contradiction))
    exact ((Prod.mk.inj (Option.some.inj h)).2).symm

theorem window_at (pre p suf : Bytes) (base n : Nat) (hn : p.length = n) :
    window ⟨Slice.exact (pre ++ (p ++ suf)), pre.length, base⟩ n = some p := by
  subst hn
  simp [window, Slice.slice, Slice.exact, Slice.bytes]

theorem encStep_mono (e : Enc) (w : W) : e.length ≤ (encStep e w).length := by
  cases w <;> simp [encStep, putU8, putU16, putU32, putU64, putU128, write, encSkipAlign]

theorem encRun_mono (e : Enc) (ws : List W) : e.length ≤ (encRun e ws).length := by
  induction ws generalizing e with
  | nil => exact Nat.le_refl _
  | cons w ws ih => exact Nat.le_trans (encStep_mono e w) (ih _)

theorem encStep_prefix (e : Enc) (w : W) : ∃ p, encStep e w = e ++ p := by
  cases w <;> simp [encStep, putU8, putU16, putU32, putU64, putU128, write, encSkipAlign, List.append_assoc]

theorem encRun_prefix (e : Enc) (ws : List W) : ∃ p, encRun e ws = e ++ p := by
  induction ws generalizing e with
  | nil => exact ⟨[], by simp [encRun]⟩
  | cons w ws ih =>
    obtain ⟨p1, h1⟩ := encStep_prefix e w
    obtain ⟨p2, h2⟩ := ih (encStep e w)
    exact ⟨p1 ++ p2, by simp [encRun] at h2 ⊢; rw [h2, h1, List.append_assoc]⟩

/-- one write followed by its read, anywhere in a message (prefix `e` already written, anything after) -/
theorem step_rt (e : Enc) (w : W) (suf : Bytes) (hlen : (encStep e w).length + 7 < 2^62) :
    decStep ⟨Slice.exact (encStep e w ++ suf), e.length, 0⟩ w =
      some (w, ⟨Slice.exact (encStep e w ++ suf), (encStep e w).length, 0⟩) := by
  cases w with
  | u8 v =>
    simp [decStep, encStep, putU8, readByte, Slice.index, Slice.exact]
  | u16 v =>
    have h := rd16_be16 v []
    simp only [List.append_nil] at h
    simp only [decStep, encStep, putU16, readU16, List.append_assoc, window_at e (be16 v) suf 0 2 rfl, h]
    simp
  | u32 v =>
    have h := rd32_be32 v []
    simp only [List.append_nil] at h
    simp only [decStep, encStep, putU32, readU32, List.append_assoc, window_at e (be32 v) suf 0 4 rfl, h]
    simp
  | u64 v =>
    have h := rd64_be64 v []
    simp only [List.append_nil] at h
    simp only [decStep, encStep, putU64, readU64, List.append_assoc, window_at e (be64 v) suf 0 8 rfl, h]
    simp
  | u128 hi lo =>
    have hh := rd64_be64 hi []
    have hl := rd64_be64 lo []
    simp only [List.append_nil] at hh hl
    have h2 : ((Slice.exact (e ++ (be64 hi ++ (be64 lo ++ suf)))).slice (e.length + 8) (e.length + 16)).map (·.bytes) = some (be64 lo) := by
      have := window_at (e ++ be64 hi) (be64 lo) suf 0 8 rfl
      simp only [be64_length, List.length_append, window, List.append_assoc] at this
      simpa [Nat.add_assoc] using this
    simp only [decStep, encStep, putU128, readU128, List.append_assoc,
      window_at e (be64 hi) (be64 lo ++ suf) 0 8 rfl, hh, h2, hl]
    simp
  | raw bs =>
    simp only [decStep, encStep, write, readN, List.append_assoc, window_at e bs suf 0 bs.length rfl]
    simp
  | align =>
    simp only [decStep, encStep, Option.some.injEq, Prod.mk.injEq, true_and]
    have hlen' : e.length + 7 < 2 ^ 62 := by
      have := encStep_mono e .align
      simp only [encStep] at hlen this
      omega
    have := skipAlign_offset ⟨Slice.exact (encSkipAlign e ++ suf), e.length, 0⟩ (by simpa using hlen')
    have hb : (skipAlign ⟨Slice.exact (encSkipAlign e ++ suf), e.length, 0⟩).base = 0 := rfl
    have hbuf : (skipAlign ⟨Slice.exact (encSkipAlign e ++ suf), e.length, 0⟩).buf = Slice.exact (encSkipAlign e ++ suf) := rfl
    cases hd : skipAlign ⟨Slice.exact (encSkipAlign e ++ suf), e.length, 0⟩ with
    | mk b o ba =>
      rw [hd] at this hb hbuf
      simp only at this hb hbuf
      subst hb hbuf
      simp only [Dec.mk.injEq, true_and, and_true]
      rw [this]
      simp [encSkipAlign]
      omega

/-- C19 round trip: ANY sequence of typed writes (8/16/32/64/128-bit, raw bytes, alignment skips), any values,
    followed by anything: the matching reads return the same values in order and end exactly at the encoded length -/
theorem C19_rt_from (e : Enc) (ws : List W) (suf : Bytes) (hlen : (encRun e ws).length + 7 < 2^62) :
    decAll ⟨Slice.exact (encRun e ws ++ suf), e.length, 0⟩ ws =
      some (ws, ⟨Slice.exact (encRun e ws ++ suf), (encRun e ws).length, 0⟩) := by
  induction ws generalizing e suf with
  | nil => simp [decAll, encRun]
  | cons w ws ih =>
    have hrun : encRun e (w :: ws) = encRun (encStep e w) ws := rfl
    rw [hrun] at hlen ⊢
    obtain ⟨p, hp⟩ := encRun_prefix (encStep e w) ws
    have hmono := encRun_mono (encStep e w) ws
    have h1 := step_rt e w (p ++ suf) (by omega)
    have hfull : encRun (encStep e w) ws ++ suf = encStep e w ++ (p ++ suf) := by rw [hp, List.append_assoc]
    simp only [decAll, bind, Option.bind]
    rw [hfull, h1]
    simp only []
    have h2 := ih (encStep e w) suf hlen
    rw [hfull] at h2
    rw [h2]
    simp [pure]

theorem C19_rt (ws : List W) (hlen : (encRun [] ws).length + 7 < 2^62) :
    decAll (newDecoder (Slice.exact (encRun [] ws))) ws =
      some (ws, ⟨Slice.exact (encRun [] ws), (encRun [] ws).length, 0⟩) := by
  have := C19_rt_from [] ws [] hlen
  simpa [newDecoder] using this

/-- nested (sliced) decoders keep absolute offsets: `Within root d` = the decoder's buffer is the root message from
    absolute position `d.base` on.  Preserved by slicing at any depth; reads return the root's bytes. -/
def Within (root : Bytes) (d : Dec) : Prop := d.buf.buf = root.drop d.base

theorem C19_slice_within (root : Bytes) (d c d' : Dec) (len rew : Nat) (hw : Within root d)
    (h : sliceDecoder d len rew = some (c, d')) :
    Within root c ∧ Within root d' ∧ c.base + c.offset = d.base + d.offset ∧
    d'.offset = d.offset + len - rew ∧ d'.base = d.base ∧ c.buf.len = len - rew := by
  unfold sliceDecoder at h
  split at h
  · simp only [Slice.slice, Option.map_eq_some_iff] at h
    obtain ⟨s, hs, hcd⟩ := h
    split at hs
    · cases hs
      cases hcd
      refine ⟨?_, hw, by simp; omega, rfl, rfl, by simp; omega⟩
      unfold Within at hw ⊢
      simp only [hw, List.drop_drop]
      congr 1; omega
    · exact absurd hs (by simp)
  · exact absurd h (by simp)

theorem C19_within_new (root : Bytes) : Within root (newDecoder (Slice.exact root)) := by
  simp [Within, newDecoder, Slice.exact]

theorem C19_within_read (root : Bytes) (d : Dec) (hw : Within root d) (v : UInt8) (d' : Dec)
    (h : readByte d = some (v, d')) : root[d.base + d.offset]? = some v ∧ Within root d' := by
  simp only [readByte, Slice.index, Option.map_eq_some_iff] at h
  obtain ⟨c, hc, hcd⟩ := h
  split at hc
  · unfold Within at hw
    rw [hw, List.getElem?_drop] at hc
    cases hcd
    exact ⟨hc, hw⟩
  · exact absurd hc (by simp)

/-- decoding a message header from fewer than 8 bytes is an error, not a panic (the model's `none` is the error
    return; `headerDecode` has no panic outcome at all because of the recover) -/
theorem C19_header_short (d : Dec) (h : length d < 8) : headerDecode d = none := by
  simp [headerDecode, h]

theorem C19_header_ok (b0 b1 b2 b3 b4 b5 b6 b7 : UInt8) (rest : Bytes) :
    headerDecode (newDecoder (Slice.exact (b0 :: b1 :: b2 :: b3 :: b4 :: b5 :: b6 :: b7 :: rest))) =
      some (⟨b0, b1, UInt16.ofNat (b2.toNat * 256 + b3.toNat),
             UInt32.ofNat (b4.toNat * 16777216 + b5.toNat * 65536 + b6.toNat * 256 + b7.toNat)⟩,
            ⟨Slice.exact (b0 :: b1 :: b2 :: b3 :: b4 :: b5 :: b6 :: b7 :: rest), 8, 0⟩) := by
  simp [headerDecode, length, newDecoder, Slice.exact, readByte, Slice.index, readU16, readU32, window, Slice.slice,
    Slice.bytes, rd16, rd32]
  omega

example : encRun [] [.u8 1, .align, .u16 0x0203, .u128 4 5, .raw [9, 9, 9], .align, .u32 7] =
    [1,0,0,0,0,0,0,0, 2,3, 0,0,0,0,0,0,0,4, 0,0,0,0,0,0,0,5, 9,9,9, 0,0,0, 0,0,0,7] := by decide

end OFV.Props.C19
