/-
  C12 — parsed messages own their memory.

  The model has value semantics (a decoded `V` cannot alias its input), so aliasing is not expressible as a theorem
  about `OFV.Model.parse`.  What is proved here is about FACTS REGENERATED FROM THE GO SOURCE on every run
  (OFV/Gen/Facts.lean, produced by ofvextract):

    * `retained`   — every statement, in any function with a `[]byte` parameter, that keeps a sub-slice of that
                     parameter alive (stores it in a field, appends it as an element, wraps it in a bytes.Buffer,
                     puts it in a composite literal, returns or sends it) instead of copying it;
    * `parseReach` — the functions reachable from `openflow13.Parse` in the static call graph (rapid type analysis:
                     interface calls resolve to the methods of the types instantiated in reachable code).

  Theorem: no retaining statement lies in a function reachable from Parse.  A change that makes a decoder keep
  `data[a:b]` changes `retained`, this theorem stops checking, and the check then searches for a concrete input with
  the dynamic "scribble" run (parse, overwrite the whole backing array, compare the message and its re-encoding).
  The dynamic run also decides the property directly on every generated message.
-/
import OFV.Gen.Facts
namespace OFV.Props.C12
open OFV.Gen

/-- the retaining statements that lie inside functions reachable from Parse -/
def parseRetained : List (String × String × String) := retained.filter (fun r => parseReach.contains r.1)

/-- no function reachable from `openflow13.Parse` keeps a sub-slice of a `[]byte` parameter -/
theorem C12_no_retaining_site_reachable_from_Parse : parseRetained = [] := by decide +kernel

/-- the analysis is not vacuous (1): the call graph does reach the nested decoders — packet-in and the packet it
    carries, vendor and bundle messages and what they wrap, multipart bodies, matches, actions, instructions -/
theorem C12_reach_covers_nested_decoders :
    ∀ k ∈ ["openflow13.Parse", "openflow13.PacketIn.UnmarshalBinary", "protocol.Ethernet.UnmarshalBinary",
           "protocol.IPv4.UnmarshalBinary", "protocol.IPv6.UnmarshalBinary", "protocol.ARP.UnmarshalBinary",
           "protocol.ICMP.UnmarshalBinary", "protocol.UDP.UnmarshalBinary", "util.Buffer.UnmarshalBinary",
           "openflow13.VendorHeader.UnmarshalBinary", "openflow13.BundleAdd.UnmarshalBinary",
           "openflow13.BundlePropertyExperimenter.UnmarshalBinary", "openflow13.MultipartReply.UnmarshalBinary",
           "openflow13.Match.UnmarshalBinary", "openflow13.MatchField.UnmarshalBinary", "openflow13.DecodeAction",
           "openflow13.DecodeInstr", "openflow13.FlowMod.UnmarshalBinary", "openflow13.ErrorMsg.UnmarshalBinary",
           "common.Hello.UnmarshalBinary"],
      parseReach.contains k = true := by decide +kernel

/-- the analysis is not vacuous (2): it does see retaining statements — the ones outside Parse's reach (setters that
    keep the caller's slice, the IGMPv3 decoders, the DHCP / LLDP readers) -/
theorem C12_retained_sees_aliasing :
    ("protocol.IGMPv3Query.UnmarshalBinary", "append-elem",
      "p.SourceAddresses = append(p.SourceAddresses, data[n:n+4])") ∈ retained ∧
    ("openflow13.PacketOut.SetData", "newbuffer", "util.NewBuffer(data)") ∈ retained := by decide +kernel

end OFV.Props.C12
