/-
  C03 (part c) — API HISTORIES: every value put into a message THROUGH THE API appears in the encoding at its specified
  place, whatever sequence of builder calls (any order, any repetition) produced the message.

  Props/C03.lean and C03b.lean prove the layout of single VALUES; this file quantifies over all CALL SEQUENCES
  (`Hist.runOps apply v ops`, induction over `ops` in OFV/Lemmas/Hist.lean) and composes with those layouts:

  * conntrack builder (`Hist.CtOp`: Commit / Force / Table / ZoneImm / ZoneRange / AddAction) from NewNXActionConnTrack():
      `ct_history`        Flags = OR-accumulation (COMMIT bit iff Commit() was called at least once, FORCE likewise; nothing
                          ever clears a bit), (ZoneSrc, ZoneOfsNbits) = those of the LAST ZoneImm/ZoneRange call (0, 0 if
                          none), RecircTable = that of the last Table call (NX_CT_RECIRC_NONE if none), pad / alg untouched,
                          nested actions = all AddAction arguments in call order (each as its own Len() leaves it)
      `ct_zoneImm_clears` ZoneImm after ZoneRange: ZoneSrc is 0 again (the last zone call wins)
      `ct_history_bytes`  the same on the BYTES: offsets 10 / 12 / 16 / 18 / 22, nested actions in order from 24
  * NAT builder (`Hist.NatOp`) from NewNXActionCTNAT():
      `nat_history` (values), `nat_flags_persistent`, `nat_history_bytes` (bytes, specification order whatever the call
      order), `nat_history_length` (stored Length = unpaddedLen of the presence bits for every history, Len() interleaved
      anywhere; fewer than 8 padding bytes — the former finding `nat_repeat_length_counterexample`, repaired in the library)
  * adders (fold of the adder over ANY list of children, composed with the `…_in_order` theorems of C03b):
      `bucket_adders`, `groupMod_adders`, `flowMod_adders`, `packetOut_adders`, `match_adders`
-/
import OFV.Model.All
import OFV.Lemmas.Hist
import OFV.Props.C03b
namespace OFV.Props.C03c
open OFV OFV.Go OFV.Model OFV.Spec OFV.Model.Hist

/-! ### conntrack builder -/

/-- Conntrack builder, EVERY call sequence from NewNXActionConnTrack() that runs to its end (a call can only fail on a
    nil/ill-typed argument): the COMMIT / FORCE bits are set exactly when Commit() / Force() was called at least once and
    no other flag bit is set; the zone pair is that of the last ZoneImm / ZoneRange call ((0, 0) if there is none), the
    recirculation table that of the last Table call (NX_CT_RECIRC_NONE if none); pad and alg keep the constructor's
    values; the nested actions are exactly the AddAction arguments in call order, each as its own Len() leaves it. -/
theorem ct_history (ops : List CtOp) (w : V) (h : runOps ctApply NXActionConnTrack.new ops = .ok w) :
    ∃ h' ls as', mapM2 Action.lenM (ctAdded ops) = .ok (ls, as') ∧
      w = .obj "NXActionConnTrack" [h',
        .num ((if ops.any CtOp.isCommit then Gen.openflow13.NX_CT_F_COMMIT else 0) |||
              (if ops.any CtOp.isForce then Gen.openflow13.NX_CT_F_FORCE else 0)),
        .num ((ctZone ops).getD (0, 0)).1, .num ((ctZone ops).getD (0, 0)).2,
        .num ((ctTable ops).getD Gen.openflow13.NX_CT_RECIRC_NONE), .bytes [], .num 0, .list as'] := by
  obtain ⟨h', ls, as', hm, rfl⟩ := ct_from_any ops _ 0 0 0 _ _ _ [] w h
  refine ⟨h', ls, as', hm, ?_⟩
  rw [ctFlagsFrom_eq]
  simp [Gen.openflow13.NX_CT_F_COMMIT, Gen.openflow13.NX_CT_F_FORCE]

/-- what "the last zone call" means: if the history is `pre`, then a zone call supplying (zs, zo), then calls none of
    which is ZoneImm / ZoneRange, the zone pair of the result is (zs, zo) -/
theorem ct_zone_last (pre post : List CtOp) (op : CtOp) (z : Nat × Nat) (hz : ctZoneVal op = some z)
    (hpost : ∀ o ∈ post, ctZoneVal o = none) : ctZone (pre ++ op :: post) = some z :=
  (lastSome_spec ctZoneVal _ z).mpr ⟨pre, op, post, rfl, hz, hpost⟩

/-- ZoneImm(z) after ZoneRange(...) (and after anything else): the zone source is CLEARED and the immediate zone is z,
    whatever came before and whatever non-zone calls follow -/
theorem ct_zoneImm_clears (pre post : List CtOp) (z : Nat) (hpost : ∀ o ∈ post, ctZoneVal o = none) (w : V)
    (h : runOps ctApply NXActionConnTrack.new (pre ++ .zoneImm z :: post) = .ok w) :
    ∃ h' fl rt as', w = .obj "NXActionConnTrack" [h', fl, .num 0, .num (n16 z).toNat, rt, .bytes [], .num 0, as'] := by
  obtain ⟨h', ls, as', _, rfl⟩ := ct_history _ w h
  rw [ct_zone_last pre post (.zoneImm z) (0, (n16 z).toNat) rfl hpost]
  exact ⟨_, _, _, _, rfl⟩

example : ∀ o ∈ [CtOp.commit, .table 5, .addAction []], ctZoneVal o = none := by
  intro o ho; simp at ho; rcases ho with rfl | rfl | rfl <;> rfl

/-- the same on the BYTES, composed with `C03b.nxConnTrack_layout'` / `nxConnTrack_actions_in_order`: for every call
    sequence, the encoding carries the flag word of the history at offset 10 (16 bits), the zone source of the last zone
    call at 12 (32 bits), its ofs_nbits / immediate zone at 16 (16 bits), the table of the last Table call at 18 (8 bits),
    alg = 0 at 22; and the encodings of the AddAction arguments, complete and in call order, from offset 24 (the k-th at
    24 + the sizes of the earlier ones) -/
theorem ct_history_bytes (ops : List CtOp) (w : V) (h : runOps ctApply NXActionConnTrack.new ops = .ok w)
    (bs : Bytes) (w' : V) (hm : NXActionConnTrack.marshalM w = .ok (bs, w')) :
    beAt bs 10 2 = ((if ops.any CtOp.isCommit then Gen.openflow13.NX_CT_F_COMMIT else 0) |||
                    (if ops.any CtOp.isForce then Gen.openflow13.NX_CT_F_FORCE else 0)) ∧
    beAt bs 12 4 = ((ctZone ops).getD (0, 0)).1 ∧ beAt bs 16 2 = ((ctZone ops).getD (0, 0)).2 ∧
    beAt bs 18 1 = (ctTable ops).getD Gen.openflow13.NX_CT_RECIRC_NONE ∧ beAt bs 22 2 = 0 ∧
    ∃ ls as' ls1 acts1 bss acts2, mapM2 Action.lenM (ctAdded ops) = .ok (ls, as') ∧
      mapM2 (Action.lenD Action.encDepth) as' = .ok (ls1, acts1) ∧
      mapM2 (Action.marshalD Action.encDepth) acts1 = .ok (bss, acts2) ∧
      (24 + bss.flatten.length ≤ bs.length → InOrderAt bs 24 bss) := by
  obtain ⟨h', ls, as', hadd, rfl⟩ := ct_history ops w h
  have hlay := C03b.nxConnTrack_layout' _ bs w' hm
  have r1 : beAt bs 10 2 = _ % 2 ^ (8 * 2) := hlay ⟨"Flags", 10, 2, .num⟩ (by simp [layoutOf, Spec.layouts, List.lookup])
  have r2 : beAt bs 12 4 = _ % 2 ^ (8 * 4) := hlay ⟨"ZoneSrc", 12, 4, .num⟩ (by simp [layoutOf, Spec.layouts, List.lookup])
  have r3 : beAt bs 16 2 = _ % 2 ^ (8 * 2) := hlay ⟨"ZoneOfsNbits", 16, 2, .num⟩ (by simp [layoutOf, Spec.layouts, List.lookup])
  have r4 : beAt bs 18 1 = _ % 2 ^ (8 * 1) := hlay ⟨"RecircTable", 18, 1, .num⟩ (by simp [layoutOf, Spec.layouts, List.lookup])
  have r5 : beAt bs 22 2 = _ % 2 ^ (8 * 2) := hlay ⟨"Alg", 22, 2, .num⟩ (by simp [layoutOf, Spec.layouts, List.lookup])
  have hz : ((ctZone ops).getD (0, 0)).1 < 2 ^ 32 ∧ ((ctZone ops).getD (0, 0)).2 < 2 ^ 16 := by
    cases hzz : ctZone ops with
    | none => exact ⟨by decide, by decide⟩
    | some z => exact lastSome_forall ctZoneVal (fun z => z.1 < 2 ^ 32 ∧ z.2 < 2 ^ 16) (fun op z hz => ctZoneVal_range op z.1 z.2 hz) ops z hzz
  have ht : (ctTable ops).getD Gen.openflow13.NX_CT_RECIRC_NONE < 2 ^ 8 := by
    cases htt : ctTable ops with
    | none => decide
    | some t => exact lastSome_forall ctTableVal (· < 2 ^ 8) ctTableVal_range ops t htt
  refine ⟨?_, ?_, ?_, ?_, ?_, ?_⟩
  · rw [r1]; split <;> split <;> decide
  · rw [r2]; exact Nat.mod_eq_of_lt hz.1
  · rw [r3]; exact Nat.mod_eq_of_lt hz.2
  · rw [r4]; exact Nat.mod_eq_of_lt ht
  · rw [r5]
  · obtain ⟨_, _, _, _, _, _, _, acts, ls1, acts1, bss, acts2, heq, h1, h2, h3⟩ :=
      C03b.nxConnTrack_actions_in_order _ _ _ bs w' hm
    cases heq
    exact ⟨ls, _, ls1, acts1, bss, acts2, hadd, h1, h2, h3⟩

/-- a concrete history (Commit, ZoneRange, Table 7, Force, ZoneImm 9, Commit, AddAction(ct_clear)) and its encoding:
    flags 3, zone source 0 (cleared by the later ZoneImm), zone 9, table 7, then the nested action -/
example : (runOps ctApply NXActionConnTrack.new
      [.commit, .zoneRange (.obj "MatchField" [.num 1, .num 6, .num 0, .num 4, .num 0, .nil, .nil]) (.obj "NXRange" [.num 0, .num 15]),
       .table 7, .force, .zoneImm 9, .commit, .addAction [NXActionCTClear.new]] >>= NXActionConnTrack.marshalM).map (·.1) =
    .ok [0xff, 0xff, 0, 40, 0, 0, 0x23, 0x20, 0, 35, 0, 3, 0, 0, 0, 0, 0, 9, 7, 0, 0, 0, 0, 0,
         0xff, 0xff, 0, 16, 0, 0, 0x23, 0x20, 0, 43, 0, 0, 0, 0, 0, 0] := by rfl

/-! ### NAT builder -/

/-- NAT builder, EVERY call sequence from NewNXActionCTNAT() (a refused flag setter leaves the action as it is): the
    pad is untouched; Flags is the accumulation `natFlagsFrom` (each flag setter ORs its bit in unless the flag it
    excludes is already set), which never has SNAT and DNAT together, nor PROTO_HASH and PROTO_RANDOM, nor a bit above
    the five flags; bit j of rangePresent is set exactly when the j-th range setter was called at least once; range field
    j holds the argument of the LAST call of its setter, and the constructor's nil when there was none -/
theorem nat_history (ops : List NatOp) (w : V) (h : runOps natApply NXActionCTNAT.new ops = .ok w) :
    ∃ h', w = .obj "NXActionCTNAT" ([h', .bytes (zeros 2), .num (natFlagsFrom 0 ops), .num (natRpFrom 0 ops)] ++
        natFieldsFrom [.bytes [], .bytes [], .bytes [], .bytes [], .nil, .nil] ops) ∧
      NatFlagsSane (natFlagsFrom 0 ops) ∧
      (∀ j : Fin 6, (natRpFrom 0 ops).testBit j.val = (lastSome (natRangeVal j) ops).isSome) ∧
      (∀ j : Fin 6, (natFieldsFrom [.bytes [], .bytes [], .bytes [], .bytes [], .nil, .nil] ops)[j.val]? =
        some ((lastSome (natRangeVal j) ops).getD (([.bytes [], .bytes [], .bytes [], .bytes [], .nil, .nil] : List V)[j.val]?.getD .nil))) := by
  obtain ⟨h', rfl⟩ := nat_from_any ops _ _ 0 0 _ _ _ _ _ _ w h
  refine ⟨h', rfl, natFlagsFrom_sane ops 0 (by decide), ?_, ?_⟩
  · intro j; rw [natRpFrom_testBit]; simp
  · intro j; exact natFieldsFrom_get ops _ j rfl

/-- PERSISTENT is set exactly when SetPersistent() was called at least once (it is never refused) -/
theorem nat_flags_persistent (ops : List NatOp) (fl : Nat) :
    (natFlagsFrom fl ops).testBit 2 = (fl.testBit 2 || ops.any (fun o => match o with | .persistent => true | _ => false)) := by
  have t1 : Nat.testBit 1 2 = false := by decide
  have t2 : Nat.testBit 2 2 = false := by decide
  have t4 : Nat.testBit 4 2 = true := by decide
  have t8 : Nat.testBit 8 2 = false := by decide
  have t16 : Nat.testBit 16 2 = false := by decide
  unfold natFlagsFrom
  induction ops generalizing fl with
  | nil => simp
  | cons op ops ih =>
    rw [List.foldl_cons, ih]
    cases op <;> simp only [natFlagStep, natFlagArgs, List.any_cons, Gen.openflow13.NX_NAT_F_DST, Gen.openflow13.NX_NAT_F_SRC,
      Gen.openflow13.NX_NAT_F_PROTO_RANDOM, Gen.openflow13.NX_NAT_F_PROTO_HASH, Gen.openflow13.NX_NAT_F_PERSISTENT] <;>
      (try split) <;> simp_all [Nat.testBit_or, Nat.and_zero]

/-- THE STORED LENGTH (the positive statement the former finding `nat_repeat_length_counterexample` contradicted; the
    library was repaired: every range setter now stores `unpaddedLen()` instead of adding its width).  For EVERY call
    sequence from NewNXActionCTNAT() — range setters repeated at will, Len() interleaved anywhere — type, vendor, subtype
    and pad are untouched and the stored Length is `unpaddedLen` of the presence bits (16 + the widths of the ranges
    present; 16 when no range setter was called), or that rounded up to 8 when a Len() came after the last setter;
    without interleaved Len() calls it is exactly `unpaddedLen`.  Hence Len() returns `unpaddedLen` rounded up to 8 and
    the encoding is that long: at least the content, fewer than 8 padding bytes. -/
theorem nat_history_length (ops : List NatOp) (w : V) (h : runOps natApply NXActionCTNAT.new ops = .ok w) :
    ∃ ln fl a b c d e f,
      w = natObj (.num Gen.openflow13.ActionType_Experimenter) ln (.num Gen.openflow13.NxExperimenterID)
        (.num (n16 Gen.openflow13.NXAST_NAT).toNat) (.bytes (zeros 2)) fl (natRpFrom 0 ops) a b c d e f ∧
      NatLenInv ln (natRpFrom 0 ops) ∧
      (ops.all (fun o => !o.isLen) = true → ln = (NXActionCTNAT.unpaddedLen (natRpFrom 0 ops)).toNat) ∧
      (∃ w1, NXActionCTNAT.lenM w = .ok (round8 (NXActionCTNAT.unpaddedLen (natRpFrom 0 ops)), w1)) ∧
      ∀ bs w', NXActionCTNAT.marshalM w = .ok (bs, w') →
        bs.length = (round8 (NXActionCTNAT.unpaddedLen (natRpFrom 0 ops))).toNat ∧
        (NXActionCTNAT.unpaddedLen (natRpFrom 0 ops)).toNat ≤ bs.length ∧
        bs.length < (NXActionCTNAT.unpaddedLen (natRpFrom 0 ops)).toNat + 8 := by
  obtain ⟨ln, fl, a, b, c, d, e, f, rfl, hinv, hex⟩ :=
    nat_len_from_any ops (.num Gen.openflow13.ActionType_Experimenter) 16 _ _ _ 0 0 _ _ _ _ _ _ w h
  have hinv' := hinv (Or.inl rfl)
  have hr := unpaddedLen_round (natRpFrom 0 ops)
  have hround : round8 (n16 ln) = round8 (NXActionCTNAT.unpaddedLen (natRpFrom 0 ops)) := by
    rcases hinv' with h' | h'
    · rw [h', n16_toNat_id]
    · rw [h', n16_toNat_id, hr.1]
  refine ⟨ln, fl, a, b, c, d, e, f, rfl, hinv', fun hall => hex hall rfl, ?_, ?_⟩
  · simp only [natObj, NXActionCTNAT.lenM, NXActionHeader.length, ActionHeader.length, NXActionHeader.setLength,
      ActionHeader.setLength, Res.bind_ok, hround]
    exact ⟨_, rfl⟩
  · intro bs w' hm
    have hl := natMarshal_length _ _ _ _ _ bs w' hm
    rw [hround] at hl
    rw [hl]
    exact ⟨rfl, hr.2.1, hr.2.2⟩

/-- the same on the BYTES, composed with `C03b.nxCTNAT_presence`: for every sequence of calls with proper arguments
    (`NatArgOK`: non-empty addresses, non-nil ports), in ANY order, with repetitions and with Len() interleaved, the
    encoding is the 10-byte header, two pad bytes, the flag word of the history at 12, the presence word at 14, then — in
    the SPECIFICATION order IPv4 min, IPv4 max, IPv6 min, IPv6 max, proto min, proto max, independent of the call order —
    the j-th range exactly when its setter was called, holding the argument of the last such call; then FEWER THAN 8
    zero padding bytes (no fit hypothesis: the stored Length always covers the content, `nat_history_length`) -/
theorem nat_history_bytes (ops : List NatOp) (hok : ∀ op ∈ ops, NatArgOK op) (w : V)
    (h : runOps natApply NXActionCTNAT.new ops = .ok w) (bs : Bytes) (w' : V) (hm : NXActionCTNAT.marshalM w = .ok (bs, w')) :
    ∃ (hb a b c d : Bytes) (e f : V) (npad : Nat), hb.length = 10 ∧ npad < 8 ∧
      natFieldsFrom [.bytes [], .bytes [], .bytes [], .bytes [], .nil, .nil] ops = [.bytes a, .bytes b, .bytes c, .bytes d, e, f] ∧
      bs = hb ++ zeros 2 ++ be16 (n16 (natFlagsFrom 0 ops)) ++ be16 (n16 (natRpFrom 0 ops)) ++
          natOptBits (natRpFrom 0 ops) a b c d e f ++ zeros npad := by
  obtain ⟨h1, fl', rp', a, b, c, d, e, f, hw, hp⟩ := nat_present_from_any ops _ _ 0 0 [] [] [] [] .nil .nil w h hok natPresent_new
  obtain ⟨h2, hw2, _⟩ := nat_history ops w h
  obtain ⟨_, _, _, _, _, _, _, _, _, _, _, _, hlen⟩ := nat_history_length ops w h
  obtain ⟨hl1, hl2, hl3⟩ := hlen bs w' hm
  rw [hw] at hw2
  simp only [V.obj.injEq, true_and, List.cons_append, List.nil_append, List.cons.injEq, V.num.injEq] at hw2
  obtain ⟨_, rfl, rfl, hfs⟩ := hw2
  subst hw
  have hopt := natOptBits_length _ a b c d e f hp
  obtain ⟨hb, hhb, hbs⟩ := C03b.nxCTNAT_presence _ _ _ _ _ _ _ _ _ _ bs w' hm hp (by omega)
  exact ⟨hb, a, b, c, d, e, f, _, hhb, by omega, (by first | exact hfs | exact hfs.symm), hbs⟩

/-- a concrete history — ports before addresses, a Len() in the middle, SetRangeIPv4Min called twice, DNAT refused after
    SNAT — and its encoding: flags SRC|PERSISTENT = 5, presence 0x13, then 10.0.0.9 (the LAST IPv4-min argument),
    10.0.0.20, port 1000; length 16 + 4 + 4 + 2 = 26 rounded to 32 -/
example : (runOps natApply NXActionCTNAT.new
      [.range 4 (.num 1000), .snat, .range 0 (.bytes [10, 0, 0, 1]), .len, .dnat, .range 1 (.bytes [10, 0, 0, 20]), .persistent,
       .range 0 (.bytes [10, 0, 0, 9])] >>= NXActionCTNAT.marshalM).map (·.1) =
    .ok [0xff, 0xff, 0, 32, 0, 0, 0x23, 0x20, 0, 36, 0, 0, 0, 5, 0, 0x13, 10, 0, 0, 9, 10, 0, 0, 20, 0x03, 0xe8,
         0, 0, 0, 0, 0, 0] := by rfl

example : ∀ op ∈ [NatOp.range 4 (.num 1000), .snat, .range 0 (.bytes [10, 0, 0, 1])], NatArgOK op := by
  intro op ho; simp at ho
  rcases ho with rfl | rfl | rfl
  · simp only [NatArgOK]; rw [if_neg (by decide)]; exact ⟨_, rfl⟩
  · trivial
  · simp only [NatArgOK]; rw [if_pos (by decide)]; exact ⟨_, rfl, by simp⟩

/-- the sequence of the former finding, replayed on the repaired library: NewNXActionCTNAT(); SetRangeIPv6Min(ip);
    SetRangeIPv6Min(ip) now encodes in 32 bytes (not 48), exactly like a single call — also with a Len() in between -/
example :
    let ip : Bytes := [0x20, 1, 0, 0, 0, 0, 0, 0, 0, 0, 0, 0, 0, 0, 0, 7]
    ((runOps natApply NXActionCTNAT.new [.range 2 (.bytes ip), .range 2 (.bytes ip)] >>= NXActionCTNAT.marshalM).map (·.1) =
      .ok ([0xff, 0xff, 0, 32, 0, 0, 0x23, 0x20, 0, 36, 0, 0, 0, 0, 0, 4] ++ ip)) ∧
    ((runOps natApply NXActionCTNAT.new [.range 2 (.bytes ip), .len, .range 2 (.bytes ip)] >>= NXActionCTNAT.marshalM).map (·.1) =
      (runOps natApply NXActionCTNAT.new [.range 2 (.bytes ip)] >>= NXActionCTNAT.marshalM).map (·.1)) := by
  exact ⟨rfl, rfl⟩

/-! ### adders -/

/-- Bucket.AddAction over ANY list of actions, from any bucket: never fails, the action list is the old one followed by
    the arguments in call order, nothing else changes; and the encoding carries the actions' encodings (each as Len()
    leaves it), complete and in that order, from offset 16 (k-th at 16 + sizes of the earlier ones) -/
theorem bucket_adders (xs : List V) (l w wp wg p : V) (as : List V) :
    ∃ b, foldAdd Bucket.addAction (.obj "Bucket" [l, w, wp, wg, p, .list as]) xs = .ok b ∧
      b = .obj "Bucket" [l, w, wp, wg, p, .list (as ++ xs)] ∧
      ∀ bs b', Bucket.marshalM b = .ok (bs, b') → ∃ ls as1 bss as2, mapM2 Action.lenM (as ++ xs) = .ok (ls, as1) ∧
        mapM2 Action.marshalM as1 = .ok (bss, as2) ∧ InOrderAt bs 16 bss := by
  refine ⟨_, bucket_fold xs l w wp wg p as, rfl, ?_⟩
  intro bs b' hm
  obtain ⟨_, _, _, _, _, as0, ls, as1, bss, as2, heq, h1, h2, h3⟩ := C03b.bucket_in_order _ bs b' hm
  cases heq
  exact ⟨ls, as1, bss, as2, h1, h2, h3⟩

/-- GroupMod.AddBucket over ANY list of buckets (commands other than DELETE): buckets = old ++ arguments in call order;
    their encodings sit complete and in that order from offset 16 -/
theorem groupMod_adders (xs : List V) (h : V) (cmd : Nat) (t p g : V) (bks : List V) :
    ∃ m, foldAdd GroupMod.addBucket (.obj "GroupMod" [h, .num cmd, t, p, g, .list bks]) xs = .ok m ∧
      m = .obj "GroupMod" [h, .num cmd, t, p, g, .list (bks ++ xs)] ∧
      ∀ bs m', GroupMod.marshalM m = .ok (bs, m') → cmd ≠ Gen.openflow13.OFPGC_DELETE →
        ∃ ls bks1 bss bks2, mapM2 Bucket.lenM (bks ++ xs) = .ok (ls, bks1) ∧
          mapM2 Bucket.marshalCopyM bks1 = .ok (bss, bks2) ∧ InOrderAt bs 16 bss := by
  refine ⟨_, groupMod_fold xs h _ t p g bks, rfl, ?_⟩
  intro bs m' hm hnd
  obtain ⟨_, _, _, _, _, _, heq, hh⟩ := C03b.groupMod_buckets_in_order _ bs m' hm
  cases heq
  exact hh hnd

/-- FlowMod.AddInstruction over ANY list of instructions: the library appends in call order and reorders NOTHING (a
    meter instruction added last stays last); for commands other than the two deletes the instructions' encodings sit,
    complete and in call order, after the 48 fixed bytes and the match -/
theorem flowMod_adders (xs : List V) (h ck cm tid : V) (cmd : Nat) (it ht pr bid op og fl pad m : V) (is : List V) :
    ∃ f, foldAdd FlowMod.addInstruction (.obj "FlowMod" [h, ck, cm, tid, .num cmd, it, ht, pr, bid, op, og, fl, pad, m, .list is]) xs = .ok f ∧
      f = .obj "FlowMod" [h, ck, cm, tid, .num cmd, it, ht, pr, bid, op, og, fl, pad, m, .list (is ++ xs)] ∧
      ∀ bs f', FlowMod.marshalM f = .ok (bs, f') →
        ¬(cmd = Gen.openflow13.FC_DELETE ∨ cmd = Gen.openflow13.FC_DELETE_STRICT) →
        ∃ mb m' ls is1 bss is2, Match.marshalM m = .ok (mb, m') ∧ mapM2 Instruction.lenM (is ++ xs) = .ok (ls, is1) ∧
          mapM2 Instruction.marshalM is1 = .ok (bss, is2) ∧ InOrderAt bs (48 + mb.length) bss := by
  refine ⟨_, flowMod_fold xs h ck cm tid _ it ht pr bid op og fl pad m is, rfl, ?_⟩
  intro bs f' hm hnd
  obtain ⟨_, _, _, _, _, _, _, _, _, _, _, _, _, _, _, mb, m', heq, hmm, hh⟩ := C03b.flowMod_instructions_in_order _ bs f' hm
  cases heq
  obtain ⟨ls, is1, bss, is2, h1, h2, h3⟩ := hh hnd
  exact ⟨mb, m', ls, is1, bss, is2, hmm, h1, h2, h3⟩

/-- PacketOut.AddAction over ANY list of actions (the run fails only if an action's Len() does): actions = old ++ the
    arguments in call order, each as its Len() leaves it; ActionsLen = old + Σ Len (uint16); nothing else changes -/
theorem packetOut_adders (xs : List V) (h b ip : V) (al : Nat) (pad : V) (as : List V) (d w : V) (hal : al < 65536)
    (hw : foldAdd PacketOut.addAction (.obj "PacketOut" [h, b, ip, .num al, pad, .list as, d]) xs = .ok w) :
    ∃ ls xs', mapM2 Action.lenM xs = .ok (ls, xs') ∧
      w = .obj "PacketOut" [h, b, ip, .num (n16 al + sum16 ls).toNat, pad, .list (as ++ xs'), d] :=
  packetOut_fold xs h b ip al pad as d w hal hw

example : (4 : Nat) < 65536 := by decide

/-- Match.AddField over ANY list of fields from NewMatch(): fields = the arguments in call order, Length = 4 + Σ Len;
    and the encoding has type 1 at 0, that length at 2, then the fields' encodings complete and in call order from 4 -/
theorem match_adders (xs : List V) (w : V) (hw : foldAdd Match.addField Match.new xs = .ok w) :
    ∃ ls xs', mapM2 MatchField.lenM xs = .ok (ls, xs') ∧
      w = .obj "Match" [.num Gen.openflow13.MatchType_OXM, .num (4 + sum16 ls).toNat, .list xs'] ∧
      ∀ bs w', Match.marshalM w = .ok (bs, w') →
        beAt bs 0 2 = Gen.openflow13.MatchType_OXM ∧ beAt bs 2 2 = (4 + sum16 ls).toNat ∧
        ∃ bss fs', mapM2 MatchField.marshalM xs' = .ok (bss, fs') ∧ (4 + bss.flatten.length ≤ bs.length → InOrderAt bs 4 bss) := by
  obtain ⟨ls, xs', hm, rfl⟩ := match_fold xs _ 4 [] w (by decide) hw
  refine ⟨ls, xs', hm, by simp [n16], ?_⟩
  intro bs w' hmar
  have e : (n16 4 + sum16 ls) = 4 + sum16 ls := by simp [n16]
  rw [e] at hmar
  simp only [List.nil_append] at hmar
  obtain ⟨h1, h2, bss, fs', h3, h4⟩ := C03b.match_layout _ _ _ bs w' hmar
  refine ⟨by rw [h1]; decide, by rw [h2]; exact Nat.mod_eq_of_lt (UInt16.toNat_lt _), bss, fs', h3, fun hf => (h4 hf).2⟩

end OFV.Props.C03c
