/-
  C03 (part d) — the byte layout of the hand model is the byte layout the Go encoders produce NOW (tie T1, encoders).

  "Every field of an encoded value appears at the offset, with the width and in the byte order the specification assigns."

  C03 / C03b / C03c prove the layout about the hand-written model (`K.marshalM`). This file closes the other half for the
  straight-line encoders: ofvextract translates the Go `MarshalBinary` bodies of these kinds statement by statement
  (`make`, `binary.BigEndian.PutUintN(data[n:], …)`, `data[n] = …`, `copy`, `append`, the cursor arithmetic, the embedded
  header's encoder; vocabulary: `OFV/Go/Buf.lean`) into `OFV.Gen.<pkg>.<K>.MarshalBinary`, regenerated on every run. Each
  theorem says: for EVERY value of the kind (all field values; headers present), the model's `K.marshalM` returns
  exactly the bytes of the regenerated body — and panics exactly when it does. A swapped field, a wrong offset or width, a
  changed byte order or a missing pad in the Go source changes the regenerated definition and breaks the theorem.
  The projection g carries the same field values as the model value (n8/n16/n32/n64 = the Go field widths).
-/
import OFV.Model.All
import OFV.Gen.Pure
import OFV.Lemmas.BufFill
set_option linter.unusedSimpArgs false
namespace OFV.Props.C03d
open OFV OFV.Go OFV.Model

/-- common.Header: version, type, length (be16 at 2), xid (be32 at 4) -/
theorem header_enc_gen (ver ty ln xid : Nat) :
    Header.marshalM (.obj "Header" [.num ver, .num ty, .num ln, .num xid]) =
      (Gen.common.Header.MarshalBinary { Version := n8 ver, Type_ := n8 ty, Length := n16 ln, Xid := n32 xid }) >>= fun bs => .ok (bs, .obj "Header" [.num ver, .num ty, .num ln, .num xid]) := by
  simp [Header.marshalM, Gen.common.Header.MarshalBinary, ActionHeader.bytes, InstrHeader.bytes, NXActionHeader.bytes, NXActionHeader.length, ActionHeader.length, Header.bytes, same,
    Gen.common.Header.MarshalBinary, Gen.common.HelloElemHeader.MarshalBinary, Gen.openflow13.ActionHeader.MarshalBinary,
    Gen.openflow13.InstrHeader.MarshalBinary, Gen.openflow13.NXActionHeader.MarshalBinary,
    Gen.openflow13.ActionHeader.Len, Gen.openflow13.InstrHeader.Len, Gen.openflow13.NXActionHeader.Len, Gen.common.Header.Len,
    Gen.openflow13.NxActionHeaderLength, n16,
    Buf.make, Buf.set, Buf.put, Buf.putIn, Buf.copy, Buf.copyIn, overwrite, zeros, be16, be32, be64,
    fill, fillFrom, pCopy, pU8, pU16, pU32, pU64]

/-- common.HelloElemHeader: type, length -/
theorem helloElemHeader_enc_gen (ty ln : Nat) :
    HelloElemHeader.marshalM (.obj "HelloElemHeader" [.num ty, .num ln]) =
      (Gen.common.HelloElemHeader.MarshalBinary { Type_ := n16 ty, Length := n16 ln }) >>= fun bs => .ok (bs, .obj "HelloElemHeader" [.num ty, .num ln]) := by
  simp [HelloElemHeader.marshalM, Gen.common.HelloElemHeader.MarshalBinary, HelloElemHeader.bytes, ActionHeader.bytes, InstrHeader.bytes, NXActionHeader.bytes, NXActionHeader.length, ActionHeader.length, Header.bytes, same,
    Gen.common.Header.MarshalBinary, Gen.common.HelloElemHeader.MarshalBinary, Gen.openflow13.ActionHeader.MarshalBinary,
    Gen.openflow13.InstrHeader.MarshalBinary, Gen.openflow13.NXActionHeader.MarshalBinary,
    Gen.openflow13.ActionHeader.Len, Gen.openflow13.InstrHeader.Len, Gen.openflow13.NXActionHeader.Len, Gen.common.Header.Len,
    Gen.openflow13.NxActionHeaderLength, n16,
    Buf.make, Buf.set, Buf.put, Buf.putIn, Buf.copy, Buf.copyIn, overwrite, zeros, be16, be32, be64,
    fill, fillFrom, pCopy, pU8, pU16, pU32, pU64]

/-- ActionHeader: type at 0, length at 2 -/
theorem actionHeader_enc_gen (ty ln : Nat) :
    ActionHeader.marshalM (.obj "ActionHeader" [.num ty, .num ln]) =
      (Gen.openflow13.ActionHeader.MarshalBinary { Type_ := n16 ty, Length := n16 ln }) >>= fun bs => .ok (bs, .obj "ActionHeader" [.num ty, .num ln]) := by
  simp [ActionHeader.marshalM, Gen.openflow13.ActionHeader.MarshalBinary, ActionHeader.bytes, InstrHeader.bytes, NXActionHeader.bytes, NXActionHeader.length, ActionHeader.length, Header.bytes, same,
    Gen.common.Header.MarshalBinary, Gen.common.HelloElemHeader.MarshalBinary, Gen.openflow13.ActionHeader.MarshalBinary,
    Gen.openflow13.InstrHeader.MarshalBinary, Gen.openflow13.NXActionHeader.MarshalBinary,
    Gen.openflow13.ActionHeader.Len, Gen.openflow13.InstrHeader.Len, Gen.openflow13.NXActionHeader.Len, Gen.common.Header.Len,
    Gen.openflow13.NxActionHeaderLength, n16,
    Buf.make, Buf.set, Buf.put, Buf.putIn, Buf.copy, Buf.copyIn, overwrite, zeros, be16, be32, be64,
    fill, fillFrom, pCopy, pU8, pU16, pU32, pU64]

/-- ActionOutput with an empty pad (actionOutput_enc_gen: any pad): header, port (be32 at 4), max_len (be16 at 8) -/
theorem actionOutputNoPad_enc_gen (ty ln port ml : Nat) :
    ActionOutput.marshalM (.obj "ActionOutput" [.obj "ActionHeader" [.num ty, .num ln], .num port, .num ml, .bytes []]) =
      (Gen.openflow13.ActionOutput.MarshalBinary { ActionHeader := { Type_ := n16 ty, Length := n16 ln }, Port := n32 port, MaxLen := n16 ml, pad := [] }) >>= fun bs => .ok (bs, .obj "ActionOutput" [.obj "ActionHeader" [.num ty, .num ln], .num port, .num ml, .bytes []]) := by
  simp [ActionOutput.marshalM, Gen.openflow13.ActionOutput.MarshalBinary, Gen.openflow13.ActionOutput.Len, ActionHeader.bytes, InstrHeader.bytes, NXActionHeader.bytes, NXActionHeader.length, ActionHeader.length, Header.bytes, same,
    Gen.common.Header.MarshalBinary, Gen.common.HelloElemHeader.MarshalBinary, Gen.openflow13.ActionHeader.MarshalBinary,
    Gen.openflow13.InstrHeader.MarshalBinary, Gen.openflow13.NXActionHeader.MarshalBinary,
    Gen.openflow13.ActionHeader.Len, Gen.openflow13.InstrHeader.Len, Gen.openflow13.NXActionHeader.Len, Gen.common.Header.Len,
    Gen.openflow13.NxActionHeaderLength, n16,
    Buf.make, Buf.set, Buf.put, Buf.putIn, Buf.copy, Buf.copyIn, overwrite, zeros, be16, be32, be64,
    fill, fillFrom, pCopy, pU8, pU16, pU32, pU64]

/-- ActionSetqueue: header, queue id (be32 at 4) -/
theorem actionSetqueue_enc_gen (ty ln q : Nat) :
    ActionSetqueue.marshalM (.obj "ActionSetqueue" [.obj "ActionHeader" [.num ty, .num ln], .num q]) =
      (Gen.openflow13.ActionSetqueue.MarshalBinary { ActionHeader := { Type_ := n16 ty, Length := n16 ln }, QueueId := n32 q }) >>= fun bs => .ok (bs, .obj "ActionSetqueue" [.obj "ActionHeader" [.num ty, .num ln], .num q]) := by
  simp [ActionSetqueue.marshalM, Gen.openflow13.ActionSetqueue.MarshalBinary, ActionHeader.bytes, InstrHeader.bytes, NXActionHeader.bytes, NXActionHeader.length, ActionHeader.length, Header.bytes, same,
    Gen.common.Header.MarshalBinary, Gen.common.HelloElemHeader.MarshalBinary, Gen.openflow13.ActionHeader.MarshalBinary,
    Gen.openflow13.InstrHeader.MarshalBinary, Gen.openflow13.NXActionHeader.MarshalBinary,
    Gen.openflow13.ActionHeader.Len, Gen.openflow13.InstrHeader.Len, Gen.openflow13.NXActionHeader.Len, Gen.common.Header.Len,
    Gen.openflow13.NxActionHeaderLength, n16,
    Buf.make, Buf.set, Buf.put, Buf.putIn, Buf.copy, Buf.copyIn, overwrite, zeros, be16, be32, be64,
    fill, fillFrom, pCopy, pU8, pU16, pU32, pU64]

/-- ActionGroup: header, group id (be32 at 4) -/
theorem actionGroup_enc_gen (ty ln q : Nat) :
    ActionGroup.marshalM (.obj "ActionGroup" [.obj "ActionHeader" [.num ty, .num ln], .num q]) =
      (Gen.openflow13.ActionGroup.MarshalBinary { ActionHeader := { Type_ := n16 ty, Length := n16 ln }, GroupId := n32 q }) >>= fun bs => .ok (bs, .obj "ActionGroup" [.obj "ActionHeader" [.num ty, .num ln], .num q]) := by
  simp [ActionGroup.marshalM, Gen.openflow13.ActionGroup.MarshalBinary, Gen.openflow13.ActionGroup.Len, ActionHeader.bytes, InstrHeader.bytes, NXActionHeader.bytes, NXActionHeader.length, ActionHeader.length, Header.bytes, same,
    Gen.common.Header.MarshalBinary, Gen.common.HelloElemHeader.MarshalBinary, Gen.openflow13.ActionHeader.MarshalBinary,
    Gen.openflow13.InstrHeader.MarshalBinary, Gen.openflow13.NXActionHeader.MarshalBinary,
    Gen.openflow13.ActionHeader.Len, Gen.openflow13.InstrHeader.Len, Gen.openflow13.NXActionHeader.Len, Gen.common.Header.Len,
    Gen.openflow13.NxActionHeaderLength, n16,
    Buf.make, Buf.set, Buf.put, Buf.putIn, Buf.copy, Buf.copyIn, overwrite, zeros, be16, be32, be64,
    fill, fillFrom, pCopy, pU8, pU16, pU32, pU64]

/-- ActionMplsTtl: header, ttl at 4, three zero bytes -/
theorem actionMplsTtl_enc_gen (ty ln t : Nat) (p : V) :
    ActionMplsTtl.marshalM (.obj "ActionMplsTtl" [.obj "ActionHeader" [.num ty, .num ln], .num t, p]) =
      (Gen.openflow13.ActionMplsTtl.MarshalBinary { ActionHeader := { Type_ := n16 ty, Length := n16 ln }, MplsTtl := n8 t }) >>= fun bs => .ok (bs, .obj "ActionMplsTtl" [.obj "ActionHeader" [.num ty, .num ln], .num t, p]) := by
  simp [ActionMplsTtl.marshalM, Gen.openflow13.ActionMplsTtl.MarshalBinary, ActionHeader.bytes, InstrHeader.bytes, NXActionHeader.bytes, NXActionHeader.length, ActionHeader.length, Header.bytes, same,
    Gen.common.Header.MarshalBinary, Gen.common.HelloElemHeader.MarshalBinary, Gen.openflow13.ActionHeader.MarshalBinary,
    Gen.openflow13.InstrHeader.MarshalBinary, Gen.openflow13.NXActionHeader.MarshalBinary,
    Gen.openflow13.ActionHeader.Len, Gen.openflow13.InstrHeader.Len, Gen.openflow13.NXActionHeader.Len, Gen.common.Header.Len,
    Gen.openflow13.NxActionHeaderLength, n16,
    Buf.make, Buf.set, Buf.put, Buf.putIn, Buf.copy, Buf.copyIn, overwrite, zeros, be16, be32, be64,
    fill, fillFrom, pCopy, pU8, pU16, pU32, pU64]

/-- ActionNwTtl: header, ttl at 4, three zero bytes -/
theorem actionNwTtl_enc_gen (ty ln t : Nat) (p : V) :
    ActionNwTtl.marshalM (.obj "ActionNwTtl" [.obj "ActionHeader" [.num ty, .num ln], .num t, p]) =
      (Gen.openflow13.ActionNwTtl.MarshalBinary { ActionHeader := { Type_ := n16 ty, Length := n16 ln }, NwTtl := n8 t }) >>= fun bs => .ok (bs, .obj "ActionNwTtl" [.obj "ActionHeader" [.num ty, .num ln], .num t, p]) := by
  simp [ActionNwTtl.marshalM, Gen.openflow13.ActionNwTtl.MarshalBinary, ActionHeader.bytes, InstrHeader.bytes, NXActionHeader.bytes, NXActionHeader.length, ActionHeader.length, Header.bytes, same,
    Gen.common.Header.MarshalBinary, Gen.common.HelloElemHeader.MarshalBinary, Gen.openflow13.ActionHeader.MarshalBinary,
    Gen.openflow13.InstrHeader.MarshalBinary, Gen.openflow13.NXActionHeader.MarshalBinary,
    Gen.openflow13.ActionHeader.Len, Gen.openflow13.InstrHeader.Len, Gen.openflow13.NXActionHeader.Len, Gen.common.Header.Len,
    Gen.openflow13.NxActionHeaderLength, n16,
    Buf.make, Buf.set, Buf.put, Buf.putIn, Buf.copy, Buf.copyIn, overwrite, zeros, be16, be32, be64,
    fill, fillFrom, pCopy, pU8, pU16, pU32, pU64]

/-- ActionDecNwTtl: header, four zero bytes -/
theorem actionDecNwTtl_enc_gen (ty ln : Nat) (p : V) :
    ActionDecNwTtl.marshalM (.obj "ActionDecNwTtl" [.obj "ActionHeader" [.num ty, .num ln], p]) =
      (Gen.openflow13.ActionDecNwTtl.MarshalBinary { ActionHeader := { Type_ := n16 ty, Length := n16 ln } }) >>= fun bs => .ok (bs, .obj "ActionDecNwTtl" [.obj "ActionHeader" [.num ty, .num ln], p]) := by
  simp [ActionDecNwTtl.marshalM, Gen.openflow13.ActionDecNwTtl.MarshalBinary, ActionHeader.bytes, InstrHeader.bytes, NXActionHeader.bytes, NXActionHeader.length, ActionHeader.length, Header.bytes, same,
    Gen.common.Header.MarshalBinary, Gen.common.HelloElemHeader.MarshalBinary, Gen.openflow13.ActionHeader.MarshalBinary,
    Gen.openflow13.InstrHeader.MarshalBinary, Gen.openflow13.NXActionHeader.MarshalBinary,
    Gen.openflow13.ActionHeader.Len, Gen.openflow13.InstrHeader.Len, Gen.openflow13.NXActionHeader.Len, Gen.common.Header.Len,
    Gen.openflow13.NxActionHeaderLength, n16,
    Buf.make, Buf.set, Buf.put, Buf.putIn, Buf.copy, Buf.copyIn, overwrite, zeros, be16, be32, be64,
    fill, fillFrom, pCopy, pU8, pU16, pU32, pU64]

/-- ActionPopVlan: header, four zero bytes -/
theorem actionPopVlan_enc_gen (ty ln : Nat) (p : V) :
    ActionPopVlan.marshalM (.obj "ActionPopVlan" [.obj "ActionHeader" [.num ty, .num ln], p]) =
      (Gen.openflow13.ActionPopVlan.MarshalBinary { ActionHeader := { Type_ := n16 ty, Length := n16 ln } }) >>= fun bs => .ok (bs, .obj "ActionPopVlan" [.obj "ActionHeader" [.num ty, .num ln], p]) := by
  simp [ActionPopVlan.marshalM, Gen.openflow13.ActionPopVlan.MarshalBinary, ActionHeader.bytes, InstrHeader.bytes, NXActionHeader.bytes, NXActionHeader.length, ActionHeader.length, Header.bytes, same,
    Gen.common.Header.MarshalBinary, Gen.common.HelloElemHeader.MarshalBinary, Gen.openflow13.ActionHeader.MarshalBinary,
    Gen.openflow13.InstrHeader.MarshalBinary, Gen.openflow13.NXActionHeader.MarshalBinary,
    Gen.openflow13.ActionHeader.Len, Gen.openflow13.InstrHeader.Len, Gen.openflow13.NXActionHeader.Len, Gen.common.Header.Len,
    Gen.openflow13.NxActionHeaderLength, n16,
    Buf.make, Buf.set, Buf.put, Buf.putIn, Buf.copy, Buf.copyIn, overwrite, zeros, be16, be32, be64,
    fill, fillFrom, pCopy, pU8, pU16, pU32, pU64]

/-- ActionPush: header, ethertype (be16 at 4), two zero bytes -/
theorem actionPush_enc_gen (ty ln et : Nat) (p : V) :
    ActionPush.marshalM (.obj "ActionPush" [.obj "ActionHeader" [.num ty, .num ln], .num et, p]) =
      (Gen.openflow13.ActionPush.MarshalBinary { ActionHeader := { Type_ := n16 ty, Length := n16 ln }, EtherType := n16 et }) >>= fun bs => .ok (bs, .obj "ActionPush" [.obj "ActionHeader" [.num ty, .num ln], .num et, p]) := by
  simp [ActionPush.marshalM, Gen.openflow13.ActionPush.MarshalBinary, ActionHeader.bytes, InstrHeader.bytes, NXActionHeader.bytes, NXActionHeader.length, ActionHeader.length, Header.bytes, same,
    Gen.common.Header.MarshalBinary, Gen.common.HelloElemHeader.MarshalBinary, Gen.openflow13.ActionHeader.MarshalBinary,
    Gen.openflow13.InstrHeader.MarshalBinary, Gen.openflow13.NXActionHeader.MarshalBinary,
    Gen.openflow13.ActionHeader.Len, Gen.openflow13.InstrHeader.Len, Gen.openflow13.NXActionHeader.Len, Gen.common.Header.Len,
    Gen.openflow13.NxActionHeaderLength, n16,
    Buf.make, Buf.set, Buf.put, Buf.putIn, Buf.copy, Buf.copyIn, overwrite, zeros, be16, be32, be64,
    fill, fillFrom, pCopy, pU8, pU16, pU32, pU64]

/-- ActionPopMpls: header, ethertype (be16 at 4), two zero bytes -/
theorem actionPopMpls_enc_gen (ty ln et : Nat) (p : V) :
    ActionPopMpls.marshalM (.obj "ActionPopMpls" [.obj "ActionHeader" [.num ty, .num ln], .num et, p]) =
      (Gen.openflow13.ActionPopMpls.MarshalBinary { ActionHeader := { Type_ := n16 ty, Length := n16 ln }, EtherType := n16 et }) >>= fun bs => .ok (bs, .obj "ActionPopMpls" [.obj "ActionHeader" [.num ty, .num ln], .num et, p]) := by
  simp [ActionPopMpls.marshalM, Gen.openflow13.ActionPopMpls.MarshalBinary, ActionHeader.bytes, InstrHeader.bytes, NXActionHeader.bytes, NXActionHeader.length, ActionHeader.length, Header.bytes, same,
    Gen.common.Header.MarshalBinary, Gen.common.HelloElemHeader.MarshalBinary, Gen.openflow13.ActionHeader.MarshalBinary,
    Gen.openflow13.InstrHeader.MarshalBinary, Gen.openflow13.NXActionHeader.MarshalBinary,
    Gen.openflow13.ActionHeader.Len, Gen.openflow13.InstrHeader.Len, Gen.openflow13.NXActionHeader.Len, Gen.common.Header.Len,
    Gen.openflow13.NxActionHeaderLength, n16,
    Buf.make, Buf.set, Buf.put, Buf.putIn, Buf.copy, Buf.copyIn, overwrite, zeros, be16, be32, be64,
    fill, fillFrom, pCopy, pU8, pU16, pU32, pU64]

/-- InstrHeader: type at 0, length at 2 -/
theorem instrHeader_enc_gen (ty ln : Nat) :
    InstrHeader.marshalM (.obj "InstrHeader" [.num ty, .num ln]) =
      (Gen.openflow13.InstrHeader.MarshalBinary { Type_ := n16 ty, Length := n16 ln }) >>= fun bs => .ok (bs, .obj "InstrHeader" [.num ty, .num ln]) := by
  simp [InstrHeader.marshalM, Gen.openflow13.InstrHeader.MarshalBinary, ActionHeader.bytes, InstrHeader.bytes, NXActionHeader.bytes, NXActionHeader.length, ActionHeader.length, Header.bytes, same,
    Gen.common.Header.MarshalBinary, Gen.common.HelloElemHeader.MarshalBinary, Gen.openflow13.ActionHeader.MarshalBinary,
    Gen.openflow13.InstrHeader.MarshalBinary, Gen.openflow13.NXActionHeader.MarshalBinary,
    Gen.openflow13.ActionHeader.Len, Gen.openflow13.InstrHeader.Len, Gen.openflow13.NXActionHeader.Len, Gen.common.Header.Len,
    Gen.openflow13.NxActionHeaderLength, n16,
    Buf.make, Buf.set, Buf.put, Buf.putIn, Buf.copy, Buf.copyIn, overwrite, zeros, be16, be32, be64,
    fill, fillFrom, pCopy, pU8, pU16, pU32, pU64]

/-- InstrMeter: header, meter id (be32 at 4) -/
theorem instrMeter_enc_gen (ty ln m : Nat) :
    InstrMeter.marshalM (.obj "InstrMeter" [.obj "InstrHeader" [.num ty, .num ln], .num m]) =
      (Gen.openflow13.InstrMeter.MarshalBinary { InstrHeader := { Type_ := n16 ty, Length := n16 ln }, MeterId := n32 m }) >>= fun bs => .ok (bs, .obj "InstrMeter" [.obj "InstrHeader" [.num ty, .num ln], .num m]) := by
  simp [InstrMeter.marshalM, Gen.openflow13.InstrMeter.MarshalBinary, ActionHeader.bytes, InstrHeader.bytes, NXActionHeader.bytes, NXActionHeader.length, ActionHeader.length, Header.bytes, same,
    Gen.common.Header.MarshalBinary, Gen.common.HelloElemHeader.MarshalBinary, Gen.openflow13.ActionHeader.MarshalBinary,
    Gen.openflow13.InstrHeader.MarshalBinary, Gen.openflow13.NXActionHeader.MarshalBinary,
    Gen.openflow13.ActionHeader.Len, Gen.openflow13.InstrHeader.Len, Gen.openflow13.NXActionHeader.Len, Gen.common.Header.Len,
    Gen.openflow13.NxActionHeaderLength, n16,
    Buf.make, Buf.set, Buf.put, Buf.putIn, Buf.copy, Buf.copyIn, overwrite, zeros, be16, be32, be64,
    fill, fillFrom, pCopy, pU8, pU16, pU32, pU64]

/-- NXActionHeader: action header, vendor (be32 at 4), subtype (be16 at 8) -/
theorem nxActionHeader_enc_gen (ty ln vendor sub : Nat) :
    NXActionHeader.marshalM (.obj "NXActionHeader" [.obj "ActionHeader" [.num ty, .num ln], .num vendor, .num sub]) =
      (Gen.openflow13.NXActionHeader.MarshalBinary { ActionHeader := { Type_ := n16 ty, Length := n16 ln }, Vendor := n32 vendor, Subtype := n16 sub }) >>= fun bs => .ok (bs, .obj "NXActionHeader" [.obj "ActionHeader" [.num ty, .num ln], .num vendor, .num sub]) := by
  simp [NXActionHeader.marshalM, Gen.openflow13.NXActionHeader.MarshalBinary, ActionHeader.bytes, InstrHeader.bytes, NXActionHeader.bytes, NXActionHeader.length, ActionHeader.length, Header.bytes, same,
    Gen.common.Header.MarshalBinary, Gen.common.HelloElemHeader.MarshalBinary, Gen.openflow13.ActionHeader.MarshalBinary,
    Gen.openflow13.InstrHeader.MarshalBinary, Gen.openflow13.NXActionHeader.MarshalBinary,
    Gen.openflow13.ActionHeader.Len, Gen.openflow13.InstrHeader.Len, Gen.openflow13.NXActionHeader.Len, Gen.common.Header.Len,
    Gen.openflow13.NxActionHeaderLength, n16,
    Buf.make, Buf.set, Buf.put, Buf.putIn, Buf.copy, Buf.copyIn, overwrite, zeros, be16, be32, be64,
    fill, fillFrom, pCopy, pU8, pU16, pU32, pU64]

/-- the Nicira header's ten bytes, model side -/
theorem nxh_model (ty ln vendor sub : Nat) :
    NXActionHeader.bytes (.obj "NXActionHeader" [.obj "ActionHeader" [.num ty, .num ln], .num vendor, .num sub]) =
      .ok (be16 (n16 ty) ++ be16 (n16 ln) ++ be32 (n32 vendor) ++ be16 (n16 sub)) := by
  simp [NXActionHeader.bytes, ActionHeader.bytes, Gen.openflow13.NxActionHeaderLength, fill, fillFrom, pCopy, pU32, pU16, overwrite, zeros, be16, be32]

/-- the Nicira header's ten bytes, regenerated side -/
theorem nxh_gen (ty ln vendor sub : Nat) :
    Gen.openflow13.NXActionHeader.MarshalBinary { ActionHeader := { Type_ := n16 ty, Length := n16 ln }, Vendor := n32 vendor, Subtype := n16 sub } =
      .ok (be16 (n16 ty) ++ be16 (n16 ln) ++ be32 (n32 vendor) ++ be16 (n16 sub)) := by
  simp [Gen.openflow13.NXActionHeader.MarshalBinary, Gen.openflow13.ActionHeader.MarshalBinary, Gen.openflow13.NXActionHeader.Len,
    Gen.openflow13.ActionHeader.Len, Gen.openflow13.NxActionHeaderLength, n16, Buf.make, Buf.put, Buf.putIn, Buf.copy, overwrite, zeros, be16, be32]

/-- NXActionConjunction: Nicira header, clause at 10, n_clause at 11, id (be32 at 12), in a buffer of the STORED length
    (any stored length: both sides panic together when it is too short) -/
theorem nxActionConjunction_enc_gen (ty ln vendor sub c nc id : Nat) :
    NXActionConjunction.marshalM (.obj "NXActionConjunction" [.obj "NXActionHeader" [.obj "ActionHeader" [.num ty, .num ln], .num vendor, .num sub], .num c, .num nc, .num id]) =
      (Gen.openflow13.NXActionConjunction.MarshalBinary { NXActionHeader := { ActionHeader := { Type_ := n16 ty, Length := n16 ln }, Vendor := n32 vendor, Subtype := n16 sub }, Clause := n8 c, NClause := n8 nc, ID := n32 id }) >>=
        fun bs => .ok (bs, .obj "NXActionConjunction" [.obj "NXActionHeader" [.obj "ActionHeader" [.num ty, .num ln], .num vendor, .num sub], .num c, .num nc, .num id]) := by
  simp only [NXActionConjunction.marshalM, Gen.openflow13.NXActionConjunction.MarshalBinary, nxh_model, nxh_gen, NXActionHeader.length, ActionHeader.length,
    Gen.openflow13.NXActionConjunction.Len, Res.bind_ok, fill, fillFrom_put, fillFrom_copy, fillFrom_nil, pCopy, pU8, pU16, pU32, pU64, same, Buf.set, Buf.make,
    List.length_cons, List.length_nil, bind_assoc, Res.pure_eq]

/-- ActionOutput with ANY pad bytes: header, port (be32 at 4), max_len (be16 at 8), the pad copied at 10 (truncated to the
    16-byte buffer) -/
theorem actionOutput_enc_gen (ty ln port ml : Nat) (pad : Bytes) :
    ActionOutput.marshalM (.obj "ActionOutput" [.obj "ActionHeader" [.num ty, .num ln], .num port, .num ml, .bytes pad]) =
      (Gen.openflow13.ActionOutput.MarshalBinary { ActionHeader := { Type_ := n16 ty, Length := n16 ln }, Port := n32 port, MaxLen := n16 ml, pad := pad }) >>=
        fun bs => .ok (bs, .obj "ActionOutput" [.obj "ActionHeader" [.num ty, .num ln], .num port, .num ml, .bytes pad]) := by
  have h16 : ((4 : UInt16) + 12).toNat = 16 := by decide
  have hl32 : ∀ x : UInt32, (be32 x).length = 4 := fun _ => rfl
  have hl16 : ∀ x : UInt16, (be16 x).length = 2 := fun _ => rfl
  have hg : Gen.openflow13.ActionHeader.MarshalBinary { Type_ := n16 ty, Length := n16 ln } = .ok (be16 (n16 ty) ++ be16 (n16 ln)) := by
    simp [Gen.openflow13.ActionHeader.MarshalBinary, Gen.openflow13.ActionHeader.Len, Buf.make, Buf.putIn, overwrite, zeros, be16]
  simp only [ActionOutput.marshalM, Gen.openflow13.ActionOutput.MarshalBinary, ActionHeader.bytes, hg, Gen.openflow13.ActionOutput.Len,
    Gen.openflow13.ActionHeader.Len, h16, hl32, hl16, Res.bind_ok, fill, fillFrom_put, fillFrom_copy, fillFrom_nil, pCopy, pU8, pU16, pU32, pU64, same, Buf.set, Buf.make,
    List.length_cons, List.length_nil, bind_assoc, Res.pure_eq]

/-- ControllerID: six zero bytes, id (be16 at 6) -/
theorem controllerID_enc_gen (p : V) (id : Nat) :
    ControllerID.marshalM (.obj "ControllerID" [p, .num id]) =
      (Gen.openflow13.ControllerID.MarshalBinary { ID := n16 id }) >>= fun bs => .ok (bs, .obj "ControllerID" [p, .num id]) := by
  simp [ControllerID.marshalM, Gen.openflow13.ControllerID.MarshalBinary, Gen.openflow13.ControllerID.Len, ActionHeader.bytes, InstrHeader.bytes, NXActionHeader.bytes, NXActionHeader.length, ActionHeader.length, Header.bytes, same,
    Gen.common.Header.MarshalBinary, Gen.common.HelloElemHeader.MarshalBinary, Gen.openflow13.ActionHeader.MarshalBinary,
    Gen.openflow13.InstrHeader.MarshalBinary, Gen.openflow13.NXActionHeader.MarshalBinary,
    Gen.openflow13.ActionHeader.Len, Gen.openflow13.InstrHeader.Len, Gen.openflow13.NXActionHeader.Len, Gen.common.Header.Len,
    Gen.openflow13.NxActionHeaderLength, n16,
    Buf.make, Buf.set, Buf.put, Buf.putIn, Buf.copy, Buf.copyIn, overwrite, zeros, be16, be32, be64,
    fill, fillFrom, pCopy, pU8, pU16, pU32, pU64]

/-- TLVTableMap: class (be16 at 0), type at 2, length at 3, index (be16 at 4), two zero bytes -/
theorem tlvTableMap_enc_gen (c t l i : Nat) (p : V) :
    TLVTableMap.marshalM (.obj "TLVTableMap" [.num c, .num t, .num l, .num i, p]) =
      (Gen.openflow13.TLVTableMap.MarshalBinary { OptClass := n16 c, OptType := n8 t, OptLength := n8 l, Index := n16 i }) >>= fun bs => .ok (bs, .obj "TLVTableMap" [.num c, .num t, .num l, .num i, p]) := by
  simp [TLVTableMap.marshalM, Gen.openflow13.TLVTableMap.MarshalBinary, Gen.openflow13.TLVTableMap.Len, ActionHeader.bytes, InstrHeader.bytes, NXActionHeader.bytes, NXActionHeader.length, ActionHeader.length, Header.bytes, same,
    Gen.common.Header.MarshalBinary, Gen.common.HelloElemHeader.MarshalBinary, Gen.openflow13.ActionHeader.MarshalBinary,
    Gen.openflow13.InstrHeader.MarshalBinary, Gen.openflow13.NXActionHeader.MarshalBinary,
    Gen.openflow13.ActionHeader.Len, Gen.openflow13.InstrHeader.Len, Gen.openflow13.NXActionHeader.Len, Gen.common.Header.Len,
    Gen.openflow13.NxActionHeaderLength, n16,
    Buf.make, Buf.set, Buf.put, Buf.putIn, Buf.copy, Buf.copyIn, overwrite, zeros, be16, be32, be64,
    fill, fillFrom, pCopy, pU8, pU16, pU32, pU64]

/-- BundleControl: bundle id (be32 at 0), type (be16 at 4), flags (be16 at 6) -/
theorem bundleControl_enc_gen (i t f : Nat) :
    BundleControl.marshalM (.obj "BundleControl" [.num i, .num t, .num f]) =
      (Gen.openflow13.BundleControl.MarshalBinary { BundleID := n32 i, Type_ := n16 t, Flags := n16 f }) >>= fun bs => .ok (bs, .obj "BundleControl" [.num i, .num t, .num f]) := by
  simp [BundleControl.marshalM, Gen.openflow13.BundleControl.MarshalBinary, Gen.openflow13.BundleControl.Len, ActionHeader.bytes, InstrHeader.bytes, NXActionHeader.bytes, NXActionHeader.length, ActionHeader.length, Header.bytes, same,
    Gen.common.Header.MarshalBinary, Gen.common.HelloElemHeader.MarshalBinary, Gen.openflow13.ActionHeader.MarshalBinary,
    Gen.openflow13.InstrHeader.MarshalBinary, Gen.openflow13.NXActionHeader.MarshalBinary,
    Gen.openflow13.ActionHeader.Len, Gen.openflow13.InstrHeader.Len, Gen.openflow13.NXActionHeader.Len, Gen.common.Header.Len,
    Gen.openflow13.NxActionHeaderLength, n16,
    Buf.make, Buf.set, Buf.put, Buf.putIn, Buf.copy, Buf.copyIn, overwrite, zeros, be16, be32, be64,
    fill, fillFrom, pCopy, pU8, pU16, pU32, pU64]

/-- InPortField: the value, 32 bits big-endian -/
theorem inPortField_enc_gen (x : Nat) :
    InPortField.marshalM (.obj "InPortField" [.num x]) =
      (Gen.openflow13.InPortField.MarshalBinary { InPort := n32 x }) >>= fun bs => .ok (bs, .obj "InPortField" [.num x]) := by
  simp [InPortField.marshalM, Gen.openflow13.InPortField.MarshalBinary, Gen.openflow13.InPortField.Len, ActionHeader.bytes, InstrHeader.bytes, NXActionHeader.bytes, NXActionHeader.length, ActionHeader.length, Header.bytes, same,
    Gen.common.Header.MarshalBinary, Gen.common.HelloElemHeader.MarshalBinary, Gen.openflow13.ActionHeader.MarshalBinary,
    Gen.openflow13.InstrHeader.MarshalBinary, Gen.openflow13.NXActionHeader.MarshalBinary,
    Gen.openflow13.ActionHeader.Len, Gen.openflow13.InstrHeader.Len, Gen.openflow13.NXActionHeader.Len, Gen.common.Header.Len,
    Gen.openflow13.NxActionHeaderLength, n16,
    Buf.make, Buf.set, Buf.put, Buf.putIn, Buf.copy, Buf.copyIn, overwrite, zeros, be16, be32, be64,
    fill, fillFrom, pCopy, pU8, pU16, pU32, pU64]

/-- EthTypeField: the value, 16 bits big-endian -/
theorem ethTypeField_enc_gen (x : Nat) :
    EthTypeField.marshalM (.obj "EthTypeField" [.num x]) =
      (Gen.openflow13.EthTypeField.MarshalBinary { EthType := n16 x }) >>= fun bs => .ok (bs, .obj "EthTypeField" [.num x]) := by
  simp [EthTypeField.marshalM, Gen.openflow13.EthTypeField.MarshalBinary, Gen.openflow13.EthTypeField.Len, ActionHeader.bytes, InstrHeader.bytes, NXActionHeader.bytes, NXActionHeader.length, ActionHeader.length, Header.bytes, same,
    Gen.common.Header.MarshalBinary, Gen.common.HelloElemHeader.MarshalBinary, Gen.openflow13.ActionHeader.MarshalBinary,
    Gen.openflow13.InstrHeader.MarshalBinary, Gen.openflow13.NXActionHeader.MarshalBinary,
    Gen.openflow13.ActionHeader.Len, Gen.openflow13.InstrHeader.Len, Gen.openflow13.NXActionHeader.Len, Gen.common.Header.Len,
    Gen.openflow13.NxActionHeaderLength, n16,
    Buf.make, Buf.set, Buf.put, Buf.putIn, Buf.copy, Buf.copyIn, overwrite, zeros, be16, be32, be64,
    fill, fillFrom, pCopy, pU8, pU16, pU32, pU64]

/-- VlanIdField: the value, 16 bits big-endian -/
theorem vlanIdField_enc_gen (x : Nat) :
    VlanIdField.marshalM (.obj "VlanIdField" [.num x]) =
      (Gen.openflow13.VlanIdField.MarshalBinary { VlanId := n16 x }) >>= fun bs => .ok (bs, .obj "VlanIdField" [.num x]) := by
  simp [VlanIdField.marshalM, Gen.openflow13.VlanIdField.MarshalBinary, Gen.openflow13.VlanIdField.Len, ActionHeader.bytes, InstrHeader.bytes, NXActionHeader.bytes, NXActionHeader.length, ActionHeader.length, Header.bytes, same,
    Gen.common.Header.MarshalBinary, Gen.common.HelloElemHeader.MarshalBinary, Gen.openflow13.ActionHeader.MarshalBinary,
    Gen.openflow13.InstrHeader.MarshalBinary, Gen.openflow13.NXActionHeader.MarshalBinary,
    Gen.openflow13.ActionHeader.Len, Gen.openflow13.InstrHeader.Len, Gen.openflow13.NXActionHeader.Len, Gen.common.Header.Len,
    Gen.openflow13.NxActionHeaderLength, n16,
    Buf.make, Buf.set, Buf.put, Buf.putIn, Buf.copy, Buf.copyIn, overwrite, zeros, be16, be32, be64,
    fill, fillFrom, pCopy, pU8, pU16, pU32, pU64]

/-- MplsLabelField: the value, 32 bits big-endian -/
theorem mplsLabelField_enc_gen (x : Nat) :
    MplsLabelField.marshalM (.obj "MplsLabelField" [.num x]) =
      (Gen.openflow13.MplsLabelField.MarshalBinary { MplsLabel := n32 x }) >>= fun bs => .ok (bs, .obj "MplsLabelField" [.num x]) := by
  simp [MplsLabelField.marshalM, Gen.openflow13.MplsLabelField.MarshalBinary, Gen.openflow13.MplsLabelField.Len, ActionHeader.bytes, InstrHeader.bytes, NXActionHeader.bytes, NXActionHeader.length, ActionHeader.length, Header.bytes, same,
    Gen.common.Header.MarshalBinary, Gen.common.HelloElemHeader.MarshalBinary, Gen.openflow13.ActionHeader.MarshalBinary,
    Gen.openflow13.InstrHeader.MarshalBinary, Gen.openflow13.NXActionHeader.MarshalBinary,
    Gen.openflow13.ActionHeader.Len, Gen.openflow13.InstrHeader.Len, Gen.openflow13.NXActionHeader.Len, Gen.common.Header.Len,
    Gen.openflow13.NxActionHeaderLength, n16,
    Buf.make, Buf.set, Buf.put, Buf.putIn, Buf.copy, Buf.copyIn, overwrite, zeros, be16, be32, be64,
    fill, fillFrom, pCopy, pU8, pU16, pU32, pU64]

/-- MplsBosField: the value, 8 bits big-endian -/
theorem mplsBosField_enc_gen (x : Nat) :
    MplsBosField.marshalM (.obj "MplsBosField" [.num x]) =
      (Gen.openflow13.MplsBosField.MarshalBinary { MplsBos := n8 x }) >>= fun bs => .ok (bs, .obj "MplsBosField" [.num x]) := by
  simp [MplsBosField.marshalM, Gen.openflow13.MplsBosField.MarshalBinary, Gen.openflow13.MplsBosField.Len, ActionHeader.bytes, InstrHeader.bytes, NXActionHeader.bytes, NXActionHeader.length, ActionHeader.length, Header.bytes, same,
    Gen.common.Header.MarshalBinary, Gen.common.HelloElemHeader.MarshalBinary, Gen.openflow13.ActionHeader.MarshalBinary,
    Gen.openflow13.InstrHeader.MarshalBinary, Gen.openflow13.NXActionHeader.MarshalBinary,
    Gen.openflow13.ActionHeader.Len, Gen.openflow13.InstrHeader.Len, Gen.openflow13.NXActionHeader.Len, Gen.common.Header.Len,
    Gen.openflow13.NxActionHeaderLength, n16,
    Buf.make, Buf.set, Buf.put, Buf.putIn, Buf.copy, Buf.copyIn, overwrite, zeros, be16, be32, be64,
    fill, fillFrom, pCopy, pU8, pU16, pU32, pU64]

/-- IPv6FlowLabelField: the value, 32 bits big-endian -/
theorem iPv6FlowLabelField_enc_gen (x : Nat) :
    IPv6FlowLabelField.marshalM (.obj "IPv6FlowLabelField" [.num x]) =
      (Gen.openflow13.IPv6FlowLabelField.MarshalBinary { FlowLabel := n32 x }) >>= fun bs => .ok (bs, .obj "IPv6FlowLabelField" [.num x]) := by
  simp [IPv6FlowLabelField.marshalM, Gen.openflow13.IPv6FlowLabelField.MarshalBinary, Gen.openflow13.IPv6FlowLabelField.Len, ActionHeader.bytes, InstrHeader.bytes, NXActionHeader.bytes, NXActionHeader.length, ActionHeader.length, Header.bytes, same,
    Gen.common.Header.MarshalBinary, Gen.common.HelloElemHeader.MarshalBinary, Gen.openflow13.ActionHeader.MarshalBinary,
    Gen.openflow13.InstrHeader.MarshalBinary, Gen.openflow13.NXActionHeader.MarshalBinary,
    Gen.openflow13.ActionHeader.Len, Gen.openflow13.InstrHeader.Len, Gen.openflow13.NXActionHeader.Len, Gen.common.Header.Len,
    Gen.openflow13.NxActionHeaderLength, n16,
    Buf.make, Buf.set, Buf.put, Buf.putIn, Buf.copy, Buf.copyIn, overwrite, zeros, be16, be32, be64,
    fill, fillFrom, pCopy, pU8, pU16, pU32, pU64]

/-- IpProtoField: the value, 8 bits big-endian -/
theorem ipProtoField_enc_gen (x : Nat) :
    IpProtoField.marshalM (.obj "IpProtoField" [.num x]) =
      (Gen.openflow13.IpProtoField.MarshalBinary { protocol := n8 x }) >>= fun bs => .ok (bs, .obj "IpProtoField" [.num x]) := by
  simp [IpProtoField.marshalM, Gen.openflow13.IpProtoField.MarshalBinary, Gen.openflow13.IpProtoField.Len, ActionHeader.bytes, InstrHeader.bytes, NXActionHeader.bytes, NXActionHeader.length, ActionHeader.length, Header.bytes, same,
    Gen.common.Header.MarshalBinary, Gen.common.HelloElemHeader.MarshalBinary, Gen.openflow13.ActionHeader.MarshalBinary,
    Gen.openflow13.InstrHeader.MarshalBinary, Gen.openflow13.NXActionHeader.MarshalBinary,
    Gen.openflow13.ActionHeader.Len, Gen.openflow13.InstrHeader.Len, Gen.openflow13.NXActionHeader.Len, Gen.common.Header.Len,
    Gen.openflow13.NxActionHeaderLength, n16,
    Buf.make, Buf.set, Buf.put, Buf.putIn, Buf.copy, Buf.copyIn, overwrite, zeros, be16, be32, be64,
    fill, fillFrom, pCopy, pU8, pU16, pU32, pU64]

/-- IpDscpField: the value, 8 bits big-endian -/
theorem ipDscpField_enc_gen (x : Nat) :
    IpDscpField.marshalM (.obj "IpDscpField" [.num x]) =
      (Gen.openflow13.IpDscpField.MarshalBinary { dscp := n8 x }) >>= fun bs => .ok (bs, .obj "IpDscpField" [.num x]) := by
  simp [IpDscpField.marshalM, Gen.openflow13.IpDscpField.MarshalBinary, Gen.openflow13.IpDscpField.Len, ActionHeader.bytes, InstrHeader.bytes, NXActionHeader.bytes, NXActionHeader.length, ActionHeader.length, Header.bytes, same,
    Gen.common.Header.MarshalBinary, Gen.common.HelloElemHeader.MarshalBinary, Gen.openflow13.ActionHeader.MarshalBinary,
    Gen.openflow13.InstrHeader.MarshalBinary, Gen.openflow13.NXActionHeader.MarshalBinary,
    Gen.openflow13.ActionHeader.Len, Gen.openflow13.InstrHeader.Len, Gen.openflow13.NXActionHeader.Len, Gen.common.Header.Len,
    Gen.openflow13.NxActionHeaderLength, n16,
    Buf.make, Buf.set, Buf.put, Buf.putIn, Buf.copy, Buf.copyIn, overwrite, zeros, be16, be32, be64,
    fill, fillFrom, pCopy, pU8, pU16, pU32, pU64]

/-- TunnelIdField: the value, 64 bits big-endian -/
theorem tunnelIdField_enc_gen (x : Nat) :
    TunnelIdField.marshalM (.obj "TunnelIdField" [.num x]) =
      (Gen.openflow13.TunnelIdField.MarshalBinary { TunnelId := n64 x }) >>= fun bs => .ok (bs, .obj "TunnelIdField" [.num x]) := by
  simp [TunnelIdField.marshalM, Gen.openflow13.TunnelIdField.MarshalBinary, Gen.openflow13.TunnelIdField.Len, ActionHeader.bytes, InstrHeader.bytes, NXActionHeader.bytes, NXActionHeader.length, ActionHeader.length, Header.bytes, same,
    Gen.common.Header.MarshalBinary, Gen.common.HelloElemHeader.MarshalBinary, Gen.openflow13.ActionHeader.MarshalBinary,
    Gen.openflow13.InstrHeader.MarshalBinary, Gen.openflow13.NXActionHeader.MarshalBinary,
    Gen.openflow13.ActionHeader.Len, Gen.openflow13.InstrHeader.Len, Gen.openflow13.NXActionHeader.Len, Gen.common.Header.Len,
    Gen.openflow13.NxActionHeaderLength, n16,
    Buf.make, Buf.set, Buf.put, Buf.putIn, Buf.copy, Buf.copyIn, overwrite, zeros, be16, be32, be64,
    fill, fillFrom, pCopy, pU8, pU16, pU32, pU64]

/-- MetadataField: the value, 64 bits big-endian -/
theorem metadataField_enc_gen (x : Nat) :
    MetadataField.marshalM (.obj "MetadataField" [.num x]) =
      (Gen.openflow13.MetadataField.MarshalBinary { Metadata := n64 x }) >>= fun bs => .ok (bs, .obj "MetadataField" [.num x]) := by
  simp [MetadataField.marshalM, Gen.openflow13.MetadataField.MarshalBinary, Gen.openflow13.MetadataField.Len, ActionHeader.bytes, InstrHeader.bytes, NXActionHeader.bytes, NXActionHeader.length, ActionHeader.length, Header.bytes, same,
    Gen.common.Header.MarshalBinary, Gen.common.HelloElemHeader.MarshalBinary, Gen.openflow13.ActionHeader.MarshalBinary,
    Gen.openflow13.InstrHeader.MarshalBinary, Gen.openflow13.NXActionHeader.MarshalBinary,
    Gen.openflow13.ActionHeader.Len, Gen.openflow13.InstrHeader.Len, Gen.openflow13.NXActionHeader.Len, Gen.common.Header.Len,
    Gen.openflow13.NxActionHeaderLength, n16,
    Buf.make, Buf.set, Buf.put, Buf.putIn, Buf.copy, Buf.copyIn, overwrite, zeros, be16, be32, be64,
    fill, fillFrom, pCopy, pU8, pU16, pU32, pU64]

/-- PortField: the value, 16 bits big-endian -/
theorem portField_enc_gen (x : Nat) :
    PortField.marshalM (.obj "PortField" [.num x]) =
      (Gen.openflow13.PortField.MarshalBinary { port := n16 x }) >>= fun bs => .ok (bs, .obj "PortField" [.num x]) := by
  simp [PortField.marshalM, Gen.openflow13.PortField.MarshalBinary, Gen.openflow13.PortField.Len, ActionHeader.bytes, InstrHeader.bytes, NXActionHeader.bytes, NXActionHeader.length, ActionHeader.length, Header.bytes, same,
    Gen.common.Header.MarshalBinary, Gen.common.HelloElemHeader.MarshalBinary, Gen.openflow13.ActionHeader.MarshalBinary,
    Gen.openflow13.InstrHeader.MarshalBinary, Gen.openflow13.NXActionHeader.MarshalBinary,
    Gen.openflow13.ActionHeader.Len, Gen.openflow13.InstrHeader.Len, Gen.openflow13.NXActionHeader.Len, Gen.common.Header.Len,
    Gen.openflow13.NxActionHeaderLength, n16,
    Buf.make, Buf.set, Buf.put, Buf.putIn, Buf.copy, Buf.copyIn, overwrite, zeros, be16, be32, be64,
    fill, fillFrom, pCopy, pU8, pU16, pU32, pU64]

/-- TcpFlagsField: the value, 16 bits big-endian -/
theorem tcpFlagsField_enc_gen (x : Nat) :
    TcpFlagsField.marshalM (.obj "TcpFlagsField" [.num x]) =
      (Gen.openflow13.TcpFlagsField.MarshalBinary { TcpFlags := n16 x }) >>= fun bs => .ok (bs, .obj "TcpFlagsField" [.num x]) := by
  simp [TcpFlagsField.marshalM, Gen.openflow13.TcpFlagsField.MarshalBinary, Gen.openflow13.TcpFlagsField.Len, ActionHeader.bytes, InstrHeader.bytes, NXActionHeader.bytes, NXActionHeader.length, ActionHeader.length, Header.bytes, same,
    Gen.common.Header.MarshalBinary, Gen.common.HelloElemHeader.MarshalBinary, Gen.openflow13.ActionHeader.MarshalBinary,
    Gen.openflow13.InstrHeader.MarshalBinary, Gen.openflow13.NXActionHeader.MarshalBinary,
    Gen.openflow13.ActionHeader.Len, Gen.openflow13.InstrHeader.Len, Gen.openflow13.NXActionHeader.Len, Gen.common.Header.Len,
    Gen.openflow13.NxActionHeaderLength, n16,
    Buf.make, Buf.set, Buf.put, Buf.putIn, Buf.copy, Buf.copyIn, overwrite, zeros, be16, be32, be64,
    fill, fillFrom, pCopy, pU8, pU16, pU32, pU64]

/-- ArpOperField: the value, 16 bits big-endian -/
theorem arpOperField_enc_gen (x : Nat) :
    ArpOperField.marshalM (.obj "ArpOperField" [.num x]) =
      (Gen.openflow13.ArpOperField.MarshalBinary { ArpOper := n16 x }) >>= fun bs => .ok (bs, .obj "ArpOperField" [.num x]) := by
  simp [ArpOperField.marshalM, Gen.openflow13.ArpOperField.MarshalBinary, Gen.openflow13.ArpOperField.Len, ActionHeader.bytes, InstrHeader.bytes, NXActionHeader.bytes, NXActionHeader.length, ActionHeader.length, Header.bytes, same,
    Gen.common.Header.MarshalBinary, Gen.common.HelloElemHeader.MarshalBinary, Gen.openflow13.ActionHeader.MarshalBinary,
    Gen.openflow13.InstrHeader.MarshalBinary, Gen.openflow13.NXActionHeader.MarshalBinary,
    Gen.openflow13.ActionHeader.Len, Gen.openflow13.InstrHeader.Len, Gen.openflow13.NXActionHeader.Len, Gen.common.Header.Len,
    Gen.openflow13.NxActionHeaderLength, n16,
    Buf.make, Buf.set, Buf.put, Buf.putIn, Buf.copy, Buf.copyIn, overwrite, zeros, be16, be32, be64,
    fill, fillFrom, pCopy, pU8, pU16, pU32, pU64]

/-- ActsetOutputField: the value, 32 bits big-endian -/
theorem actsetOutputField_enc_gen (x : Nat) :
    ActsetOutputField.marshalM (.obj "ActsetOutputField" [.num x]) =
      (Gen.openflow13.ActsetOutputField.MarshalBinary { OutputPort := n32 x }) >>= fun bs => .ok (bs, .obj "ActsetOutputField" [.num x]) := by
  simp [ActsetOutputField.marshalM, Gen.openflow13.ActsetOutputField.MarshalBinary, Gen.openflow13.ActsetOutputField.Len, ActionHeader.bytes, InstrHeader.bytes, NXActionHeader.bytes, NXActionHeader.length, ActionHeader.length, Header.bytes, same,
    Gen.common.Header.MarshalBinary, Gen.common.HelloElemHeader.MarshalBinary, Gen.openflow13.ActionHeader.MarshalBinary,
    Gen.openflow13.InstrHeader.MarshalBinary, Gen.openflow13.NXActionHeader.MarshalBinary,
    Gen.openflow13.ActionHeader.Len, Gen.openflow13.InstrHeader.Len, Gen.openflow13.NXActionHeader.Len, Gen.common.Header.Len,
    Gen.openflow13.NxActionHeaderLength, n16,
    Buf.make, Buf.set, Buf.put, Buf.putIn, Buf.copy, Buf.copyIn, overwrite, zeros, be16, be32, be64,
    fill, fillFrom, pCopy, pU8, pU16, pU32, pU64]

/-- IcmpTypeField: the value, 8 bits big-endian -/
theorem icmpTypeField_enc_gen (x : Nat) :
    IcmpTypeField.marshalM (.obj "IcmpTypeField" [.num x]) =
      (Gen.openflow13.IcmpTypeField.MarshalBinary { Type_ := n8 x }) >>= fun bs => .ok (bs, .obj "IcmpTypeField" [.num x]) := by
  simp [IcmpTypeField.marshalM, Gen.openflow13.IcmpTypeField.MarshalBinary, Gen.openflow13.IcmpTypeField.Len, ActionHeader.bytes, InstrHeader.bytes, NXActionHeader.bytes, NXActionHeader.length, ActionHeader.length, Header.bytes, same,
    Gen.common.Header.MarshalBinary, Gen.common.HelloElemHeader.MarshalBinary, Gen.openflow13.ActionHeader.MarshalBinary,
    Gen.openflow13.InstrHeader.MarshalBinary, Gen.openflow13.NXActionHeader.MarshalBinary,
    Gen.openflow13.ActionHeader.Len, Gen.openflow13.InstrHeader.Len, Gen.openflow13.NXActionHeader.Len, Gen.common.Header.Len,
    Gen.openflow13.NxActionHeaderLength, n16,
    Buf.make, Buf.set, Buf.put, Buf.putIn, Buf.copy, Buf.copyIn, overwrite, zeros, be16, be32, be64,
    fill, fillFrom, pCopy, pU8, pU16, pU32, pU64]

/-- IcmpCodeField: the value, 8 bits big-endian -/
theorem icmpCodeField_enc_gen (x : Nat) :
    IcmpCodeField.marshalM (.obj "IcmpCodeField" [.num x]) =
      (Gen.openflow13.IcmpCodeField.MarshalBinary { Code := n8 x }) >>= fun bs => .ok (bs, .obj "IcmpCodeField" [.num x]) := by
  simp [IcmpCodeField.marshalM, Gen.openflow13.IcmpCodeField.MarshalBinary, Gen.openflow13.IcmpCodeField.Len, ActionHeader.bytes, InstrHeader.bytes, NXActionHeader.bytes, NXActionHeader.length, ActionHeader.length, Header.bytes, same,
    Gen.common.Header.MarshalBinary, Gen.common.HelloElemHeader.MarshalBinary, Gen.openflow13.ActionHeader.MarshalBinary,
    Gen.openflow13.InstrHeader.MarshalBinary, Gen.openflow13.NXActionHeader.MarshalBinary,
    Gen.openflow13.ActionHeader.Len, Gen.openflow13.InstrHeader.Len, Gen.openflow13.NXActionHeader.Len, Gen.common.Header.Len,
    Gen.openflow13.NxActionHeaderLength, n16,
    Buf.make, Buf.set, Buf.put, Buf.putIn, Buf.copy, Buf.copyIn, overwrite, zeros, be16, be32, be64,
    fill, fillFrom, pCopy, pU8, pU16, pU32, pU64]

/-- Uint16Message: the value, 16 bits big-endian -/
theorem uint16Message_enc_gen (x : Nat) :
    Uint16Message.marshalM (.obj "Uint16Message" [.num x]) =
      (Gen.openflow13.Uint16Message.MarshalBinary { Data := n16 x }) >>= fun bs => .ok (bs, .obj "Uint16Message" [.num x]) := by
  simp [Uint16Message.marshalM, Gen.openflow13.Uint16Message.MarshalBinary, Gen.openflow13.Uint16Message.Len, ActionHeader.bytes, InstrHeader.bytes, NXActionHeader.bytes, NXActionHeader.length, ActionHeader.length, Header.bytes, same,
    Gen.common.Header.MarshalBinary, Gen.common.HelloElemHeader.MarshalBinary, Gen.openflow13.ActionHeader.MarshalBinary,
    Gen.openflow13.InstrHeader.MarshalBinary, Gen.openflow13.NXActionHeader.MarshalBinary,
    Gen.openflow13.ActionHeader.Len, Gen.openflow13.InstrHeader.Len, Gen.openflow13.NXActionHeader.Len, Gen.common.Header.Len,
    Gen.openflow13.NxActionHeaderLength, n16,
    Buf.make, Buf.set, Buf.put, Buf.putIn, Buf.copy, Buf.copyIn, overwrite, zeros, be16, be32, be64,
    fill, fillFrom, pCopy, pU8, pU16, pU32, pU64]

/-- Uint32Message: the value, 32 bits big-endian -/
theorem uint32Message_enc_gen (x : Nat) :
    Uint32Message.marshalM (.obj "Uint32Message" [.num x]) =
      (Gen.openflow13.Uint32Message.MarshalBinary { Data := n32 x }) >>= fun bs => .ok (bs, .obj "Uint32Message" [.num x]) := by
  simp [Uint32Message.marshalM, Gen.openflow13.Uint32Message.MarshalBinary, Gen.openflow13.Uint32Message.Len, ActionHeader.bytes, InstrHeader.bytes, NXActionHeader.bytes, NXActionHeader.length, ActionHeader.length, Header.bytes, same,
    Gen.common.Header.MarshalBinary, Gen.common.HelloElemHeader.MarshalBinary, Gen.openflow13.ActionHeader.MarshalBinary,
    Gen.openflow13.InstrHeader.MarshalBinary, Gen.openflow13.NXActionHeader.MarshalBinary,
    Gen.openflow13.ActionHeader.Len, Gen.openflow13.InstrHeader.Len, Gen.openflow13.NXActionHeader.Len, Gen.common.Header.Len,
    Gen.openflow13.NxActionHeaderLength, n16,
    Buf.make, Buf.set, Buf.put, Buf.putIn, Buf.copy, Buf.copyIn, overwrite, zeros, be16, be32, be64,
    fill, fillFrom, pCopy, pU8, pU16, pU32, pU64]

/-! ### round T1d: Nicira actions in a buffer of the stored length, byte-array payloads, instructions with pad -/

/-- NXActionCTClear: Nicira header, then the zero array copied at 10 (buffer of the stored length; any array content) -/
theorem nXActionCTClear_enc_gen (ty ln vendor sub : Nat) (z : Bytes) :
    NXActionCTClear.marshalM (.obj "NXActionCTClear" [.obj "NXActionHeader" [.obj "ActionHeader" [.num ty, .num ln], .num vendor, .num sub], .bytes z]) =
      (Gen.openflow13.NXActionCTClear.MarshalBinary { NXActionHeader := { ActionHeader := { Type_ := n16 ty, Length := n16 ln }, Vendor := n32 vendor, Subtype := n16 sub }, zeros := z }) >>= fun bs => .ok (bs, .obj "NXActionCTClear" [.obj "NXActionHeader" [.obj "ActionHeader" [.num ty, .num ln], .num vendor, .num sub], .bytes z]) := by
  simp only [NXActionCTClear.marshalM, Gen.openflow13.NXActionCTClear.MarshalBinary, nxh_model, nxh_gen, NXActionHeader.length, ActionHeader.length,
    Gen.openflow13.NXActionCTClear.Len, Res.bind_ok, Res.bind_ok_right, fill, fillFrom_put, fillFrom_copy, fillFrom_copyAdv, fillFrom_skip, fillFrom_nil, pCopy, pCopyAdv, pSkip, pU8, pU16, pU32, pU64, same,
    Buf.set, Buf.make, be16_len, be32_len, be64_len, List.length_cons, List.length_nil, bind_assoc, Res.pure_eq]

/-- NXActionDecTTL: Nicira header, controllers (be16 at 10), the zero array copied at 12 -/
theorem nXActionDecTTL_enc_gen (ty ln vendor sub : Nat) (c : Nat) (z : Bytes) :
    NXActionDecTTL.marshalM (.obj "NXActionDecTTL" [.obj "NXActionHeader" [.obj "ActionHeader" [.num ty, .num ln], .num vendor, .num sub], .num c, .bytes z]) =
      (Gen.openflow13.NXActionDecTTL.MarshalBinary { NXActionHeader := { ActionHeader := { Type_ := n16 ty, Length := n16 ln }, Vendor := n32 vendor, Subtype := n16 sub }, controllers := n16 c, zeros := z }) >>= fun bs => .ok (bs, .obj "NXActionDecTTL" [.obj "NXActionHeader" [.obj "ActionHeader" [.num ty, .num ln], .num vendor, .num sub], .num c, .bytes z]) := by
  simp only [NXActionDecTTL.marshalM, Gen.openflow13.NXActionDecTTL.MarshalBinary, nxh_model, nxh_gen, NXActionHeader.length, ActionHeader.length,
    Gen.openflow13.NXActionDecTTL.Len, Res.bind_ok, Res.bind_ok_right, fill, fillFrom_put, fillFrom_copy, fillFrom_copyAdv, fillFrom_skip, fillFrom_nil, pCopy, pCopyAdv, pSkip, pU8, pU16, pU32, pU64, same,
    Buf.set, Buf.make, be16_len, be32_len, be64_len, List.length_cons, List.length_nil, bind_assoc, Res.pure_eq]

/-- NXActionResubmitTable: Nicira header, in_port (be16 at 10), table at 12, three bytes left zero -/
theorem nXActionResubmitTable_enc_gen (ty ln vendor sub : Nat) (ip t : Nat) (pad ct : V) :
    NXActionResubmitTable.marshalM (.obj "NXActionResubmitTable" [.obj "NXActionHeader" [.obj "ActionHeader" [.num ty, .num ln], .num vendor, .num sub], .num ip, .num t, pad, ct]) =
      (Gen.openflow13.NXActionResubmitTable.MarshalBinary { NXActionHeader := { ActionHeader := { Type_ := n16 ty, Length := n16 ln }, Vendor := n32 vendor, Subtype := n16 sub }, InPort := n16 ip, TableID := n8 t }) >>= fun bs => .ok (bs, .obj "NXActionResubmitTable" [.obj "NXActionHeader" [.obj "ActionHeader" [.num ty, .num ln], .num vendor, .num sub], .num ip, .num t, pad, ct]) := by
  simp only [NXActionResubmitTable.marshalM, Gen.openflow13.NXActionResubmitTable.MarshalBinary, nxh_model, nxh_gen, NXActionHeader.length, ActionHeader.length,
    Gen.openflow13.NXActionResubmitTable.Len, Res.bind_ok, Res.bind_ok_right, fill, fillFrom_put, fillFrom_copy, fillFrom_copyAdv, fillFrom_skip, fillFrom_nil, pCopy, pCopyAdv, pSkip, pU8, pU16, pU32, pU64, same,
    Buf.set, Buf.make, be16_len, be32_len, be64_len, List.length_cons, List.length_nil, bind_assoc, Res.pure_eq]

/-- NXActionResubmit: Nicira header, in_port (be16 at 10), nothing written after it; the encoder STORES table id 255
    (OFPTT_ALL) in the receiver — the model leaves behind the table id the regenerated receiver holds -/
theorem nxActionResubmit_enc_gen (ty ln vendor sub ip : Nat) (t0 pad : V) (t : Nat) :
    NXActionResubmit.marshalM (.obj "NXActionResubmit" [.obj "NXActionHeader" [.obj "ActionHeader" [.num ty, .num ln], .num vendor, .num sub], .num ip, t0, pad]) =
      (Gen.openflow13.NXActionResubmit.MarshalBinary { NXActionHeader := { ActionHeader := { Type_ := n16 ty, Length := n16 ln }, Vendor := n32 vendor, Subtype := n16 sub }, InPort := n16 ip, TableID := n8 t }) >>=
        fun r => .ok (r.1, .obj "NXActionResubmit" [.obj "NXActionHeader" [.obj "ActionHeader" [.num ty, .num ln], .num vendor, .num sub], .num ip, .num r.2.TableID.toNat, pad]) := by
  simp only [NXActionResubmit.marshalM, Gen.openflow13.NXActionResubmit.MarshalBinary, nxh_model, nxh_gen, NXActionHeader.length, ActionHeader.length,
    Gen.openflow13.NXActionResubmit.Len, Res.bind_ok, Res.bind_ok_right, fill, fillFrom_put, fillFrom_copy, fillFrom_copyAdv, fillFrom_skip, fillFrom_nil, pCopy, pCopyAdv, pSkip, pU8, pU16, pU32, pU64, same,
    Buf.set, Buf.make, be16_len, be32_len, be64_len, List.length_cons, List.length_nil, bind_assoc, Res.pure_eq]
  simp [Res.bind_assoc', Gen.openflow13.OFPTT_ALL]

/-- EthDstField: make(6) then copy of the address bytes (shorter: zero-filled, longer: truncated) -/
theorem ethDstField_enc_gen (b : Bytes) :
    EthDstField.marshalM (.obj "EthDstField" [.bytes b]) =
      (Gen.openflow13.EthDstField.MarshalBinary { EthDst := b }) >>= fun bs => .ok (bs, .obj "EthDstField" [.bytes b]) := by
  simp [EthDstField.marshalM, Gen.openflow13.EthDstField.MarshalBinary, Gen.openflow13.EthDstField.Len, same, Buf.make, Buf.copy, makeCopy, copyInto, overwrite]

/-- EthSrcField: make(6) then copy of the address bytes (shorter: zero-filled, longer: truncated) -/
theorem ethSrcField_enc_gen (b : Bytes) :
    EthSrcField.marshalM (.obj "EthSrcField" [.bytes b]) =
      (Gen.openflow13.EthSrcField.MarshalBinary { EthSrc := b }) >>= fun bs => .ok (bs, .obj "EthSrcField" [.bytes b]) := by
  simp [EthSrcField.marshalM, Gen.openflow13.EthSrcField.MarshalBinary, Gen.openflow13.EthSrcField.Len, same, Buf.make, Buf.copy, makeCopy, copyInto, overwrite]

/-- Ipv6SrcField: make(16) then copy of the address bytes (shorter: zero-filled, longer: truncated) -/
theorem ipv6SrcField_enc_gen (b : Bytes) :
    Ipv6SrcField.marshalM (.obj "Ipv6SrcField" [.bytes b]) =
      (Gen.openflow13.Ipv6SrcField.MarshalBinary { Ipv6Src := b }) >>= fun bs => .ok (bs, .obj "Ipv6SrcField" [.bytes b]) := by
  simp [Ipv6SrcField.marshalM, Gen.openflow13.Ipv6SrcField.MarshalBinary, Gen.openflow13.Ipv6SrcField.Len, same, Buf.make, Buf.copy, makeCopy, copyInto, overwrite]

/-- Ipv6DstField: make(16) then copy of the address bytes (shorter: zero-filled, longer: truncated) -/
theorem ipv6DstField_enc_gen (b : Bytes) :
    Ipv6DstField.marshalM (.obj "Ipv6DstField" [.bytes b]) =
      (Gen.openflow13.Ipv6DstField.MarshalBinary { Ipv6Dst := b }) >>= fun bs => .ok (bs, .obj "Ipv6DstField" [.bytes b]) := by
  simp [Ipv6DstField.marshalM, Gen.openflow13.Ipv6DstField.MarshalBinary, Gen.openflow13.Ipv6DstField.Len, same, Buf.make, Buf.copy, makeCopy, copyInto, overwrite]

/-- ArpXHaField: make(6) then copy of the address bytes (shorter: zero-filled, longer: truncated) -/
theorem arpXHaField_enc_gen (b : Bytes) :
    ArpXHaField.marshalM (.obj "ArpXHaField" [.bytes b]) =
      (Gen.openflow13.ArpXHaField.MarshalBinary { ArpHa := b }) >>= fun bs => .ok (bs, .obj "ArpXHaField" [.bytes b]) := by
  simp [ArpXHaField.marshalM, Gen.openflow13.ArpXHaField.MarshalBinary, Gen.openflow13.ArpXHaField.Len, same, Buf.make, Buf.copy, makeCopy, copyInto, overwrite]

/-- InstrGotoTable: header, table id at 4, two zero bytes, the first pad byte (if any) at 7 -/
theorem instrGotoTable_enc_gen (ty ln tid : Nat) (pad : Bytes) :
    InstrGotoTable.marshalM (.obj "InstrGotoTable" [.obj "InstrHeader" [.num ty, .num ln], .num tid, .bytes pad]) =
      (Gen.openflow13.InstrGotoTable.MarshalBinary { InstrHeader := { Type_ := n16 ty, Length := n16 ln }, TableId := n8 tid, pad := pad }) >>=
        fun bs => .ok (bs, .obj "InstrGotoTable" [.obj "InstrHeader" [.num ty, .num ln], .num tid, .bytes pad]) := by
  cases pad <;>
  simp [InstrGotoTable.marshalM, Gen.openflow13.InstrGotoTable.MarshalBinary, Gen.openflow13.InstrHeader.MarshalBinary, Gen.openflow13.InstrHeader.Len,
    InstrHeader.bytes, same, Buf.make, Buf.set, Buf.put, Buf.putIn, Buf.copy, makeCopy, copyInto, overwrite, zeros, be16]
  omega

/-- InstrWriteMetadata with an empty pad: header, four zero bytes, metadata (be64 at 8), mask (be64 at 16) -/
theorem instrWriteMetadataNoPad_enc_gen (ty ln md mk : Nat) :
    InstrWriteMetadata.marshalM (.obj "InstrWriteMetadata" [.obj "InstrHeader" [.num ty, .num ln], .bytes [], .num md, .num mk]) =
      (Gen.openflow13.InstrWriteMetadata.MarshalBinary { InstrHeader := { Type_ := n16 ty, Length := n16 ln }, pad := [], Metadata := n64 md, MetadataMask := n64 mk }) >>=
        fun bs => .ok (bs, .obj "InstrWriteMetadata" [.obj "InstrHeader" [.num ty, .num ln], .bytes [], .num md, .num mk]) := by
  simp [InstrWriteMetadata.marshalM, Gen.openflow13.InstrWriteMetadata.MarshalBinary, Gen.openflow13.InstrHeader.MarshalBinary, Gen.openflow13.InstrHeader.Len,
    InstrHeader.bytes, same, Buf.make, Buf.set, Buf.put, Buf.putIn, Buf.copy, makeCopy, copyInto, overwrite, zeros, be16, be64]

end OFV.Props.C03d
