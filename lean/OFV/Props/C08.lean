/-
  C08 — packet-header decoders are total on arbitrary packet bytes.

  For every decoder of package `protocol` (model: `OFV/Model/Proto.lean`) this file proves
      theorem C08_<kind>_total (recv : V) (data : Slice) (hwf : data.WF) : Res.Total (K.unmarshal recv data)
  i.e. for EVERY receiver value and EVERY well-formed slice (len ≤ cap; the bytes between len and cap are arbitrary) the
  decoder returns a value or an error — never `.panic` (index / slice bounds, nil dereference) and never `.spin` (a loop
  that does not advance or exhausts its fuel).  Kinds: util.Buffer, VLAN, ARP, ICMP, TCP, UDP, IGMPv1or2, IGMPv3Query,
  IGMPv3GroupRecord, IGMPv3MembershipReport, IPv6 Option, HopByHopHeader, RoutingHeader, FragmentHeader, IPv4, IPv6,
  Ethernet, DHCPParseOptions, DHCP.Write, and the LLDP TLV `Write`s.  No hypothesis on the receiver is needed, except for
  LLDP.Write / TLV.Write, which dereference the receiver's chassis, port and TTL TLVs (stated explicitly, shown necessary by
  examples).

  Composite decoders are proved from the theorems of their parts:
      HopByHop ← Option (loop `goLoop`, via `goLoop_total`);  IGMPv3MembershipReport ← IGMPv3GroupRecord;
      IPv4 ← ICMP, UDP, Buffer;  IPv6 ← HopByHop, Routing, Fragment (loop `xloop`), ICMP, UDP, Buffer;
      Ethernet ← VLAN, IPv4, IPv6, ARP, Buffer;  DHCP.Write ← DHCPParseOptions;  LLDP.Write ← TLV.Write.
  Where a composite needs more than totality of a part (how far the part reaches into the data), the part has a
  `C08_<kind>_shape` theorem: "an error, or a value of the expected struct whose declared size lies inside the data".

  "Within time proportional to the input": in the model every loop carries a fuel that is linear in the input length
  (`Len + 2 ≤ len + 2` for hop-by-hop options, `len + 1` for DHCP options, `len + 4` for the IPv6 extension chain) and
  exhausting it — or an iteration that does not advance — is the outcome `.spin`; the counted loops (IGMPv3 sources,
  auxiliary words, group records) consume ≥ 4 resp. ≥ 8 checked bytes per iteration.  So "never `.spin`" is termination
  within linearly many iterations.  The facts about the regenerated size functions that make the loops advance are
  proved first (`C08_HopByHop_Len`, `C08_Routing_Len`, `C08_Option_Len`, …).

  No decoder of the (post-fix) model turned out to be partial: there is no `_partial` theorem and no counterexample.
-/
import OFV.Model.All
import OFV.Lemmas.Read
import OFV.Lemmas.Loop
import OFV.Lemmas.Total
namespace OFV.Props.C08
open OFV OFV.Go OFV.Model

/-! ### size functions (regenerated from the Go source, `OFV/Gen/Pure.lean`) -/

/-- an IPv6 option reports one byte when it is Pad1 (type 0), otherwise `Length + 2` bytes, computed without 16-bit
    wrap-around — hence at least 1: the option loop of the hop-by-hop decoder always moves forward -/
theorem C08_Option_Len (o : Gen.protocol.Option) :
    (Gen.protocol.Option.Len o).toNat = if o.Type_ = 0 then 1 else o.Length.toNat + 2 := by
  unfold Gen.protocol.Option.Len
  have := o.Length.toNat_lt
  split
  · rfl
  · simp [UInt16.toNat_add]; omega

/-- a hop-by-hop header reports exactly `8 * (HEL + 1)` bytes: the sum is taken in 16 bits, so `HEL = 255` gives 2048 and
    not 0 (no 8-bit wrap-around) -/
theorem C08_HopByHop_Len (h : Gen.protocol.HopByHopHeader) :
    (Gen.protocol.HopByHopHeader.Len h).toNat = 8 * (h.HEL.toNat + 1) := by
  unfold Gen.protocol.HopByHopHeader.Len
  have := h.HEL.toNat_lt
  simp [UInt16.toNat_add, UInt16.toNat_mul]; omega

/-- a routing header reports exactly `8 * (HEL + 1)` bytes (no 8-bit wrap-around) -/
theorem C08_Routing_Len (h : Gen.protocol.RoutingHeader) :
    (Gen.protocol.RoutingHeader.Len h).toNat = 8 * (h.HEL.toNat + 1) := by
  unfold Gen.protocol.RoutingHeader.Len
  have := h.HEL.toNat_lt
  simp [UInt16.toNat_add, UInt16.toNat_mul]; omega

/-- an IGMPv3 query reports `12 + 4·NumberOfSources` modulo 2^16 (the decoder itself compares in `int`, without wrap-around) -/
theorem C08_IGMPv3Query_Len (p : Gen.protocol.IGMPv3Query) :
    (Gen.protocol.IGMPv3Query.Len p).toNat = (12 + 4 * p.NumberOfSources.toNat) % 65536 := by
  unfold Gen.protocol.IGMPv3Query.Len
  simp [UInt16.toNat_add, UInt16.toNat_mul]; omega

/-- an IGMPv3 group record reports `8 + 4·AuxDataLen + 4·NumberOfSources` modulo 2^16; the report decoder advances by the
    unwrapped sum (`PIGMPv3GroupRecord.trueSize`), see `C08_IGMPv3GroupRecord_shape` -/
theorem C08_IGMPv3GroupRecord_Len (p : Gen.protocol.IGMPv3GroupRecord) :
    (Gen.protocol.IGMPv3GroupRecord.Len p).toNat = (8 + 4 * p.AuxDataLen.toNat + 4 * p.NumberOfSources.toNat) % 65536 := by
  unfold Gen.protocol.IGMPv3GroupRecord.Len
  have := p.AuxDataLen.toNat_lt
  simp [UInt16.toNat_add, UInt16.toNat_mul]; omega

/-- consequence used by the loops: a hop-by-hop header is at least 8 bytes, an option at least 1 (Pad1), and at least 2
    when it is not Pad1 -/
theorem C08_sizes_positive (h : Gen.protocol.HopByHopHeader) (r : Gen.protocol.RoutingHeader) (o : Gen.protocol.Option) :
    8 ≤ (Gen.protocol.HopByHopHeader.Len h).toNat ∧ 8 ≤ (Gen.protocol.RoutingHeader.Len r).toNat ∧
    1 ≤ (Gen.protocol.Option.Len o).toNat ∧ (o.Type_ ≠ 0 → 2 ≤ (Gen.protocol.Option.Len o).toNat) := by
  rw [C08_HopByHop_Len, C08_Routing_Len, C08_Option_Len]
  refine ⟨by omega, by omega, ?_, ?_⟩
  · split <;> omega
  · intro h0; rw [if_neg h0]; omega

/-! ### leaf decoders -/

/-- util.Buffer (opaque payload) decoder: always succeeds -/
theorem C08_UBuffer_total (recv : V) (data : Slice) : Res.Total (UBuffer.unmarshal recv data) :=
  Or.inl ⟨_, rfl⟩

/-- VLAN tag decoder: any receiver, any well-formed slice — a value or an error -/
theorem C08_VLAN_total (recv : V) (data : Slice) (hwf : data.WF) : Res.Total (PVLAN.unmarshal recv data) := by
  unfold PVLAN.unmarshal
  split
  · exact Or.inr rfl
  · rename_i hlen
    obtain ⟨x0, h0⟩ := Slice.u16In_ok_len data hwf 0 2 (by omega) (by omega)
    obtain ⟨x2, h2⟩ := Slice.u16From_ok data hwf 2 (by omega)
    simp only [h0, h2, Res.bind_ok]
    exact Or.inl ⟨_, rfl⟩

/-- ARP decoder: total; the four address windows `8 .. 8+2·HWLength+2·ProtoLength` are checked against `len` first -/
theorem C08_ARP_total (recv : V) (data : Slice) (hwf : data.WF) : Res.Total (PARP.unmarshal recv data) := by
  unfold PARP.unmarshal
  split
  · exact Or.inr rfl
  · rename_i hlen
    obtain ⟨x0, h0⟩ := Slice.u16In_ok_len data hwf 0 2 (by omega) (by omega)
    obtain ⟨x2, h2⟩ := Slice.u16In_ok_len data hwf 2 4 (by omega) (by omega)
    obtain ⟨x4, h4⟩ := Slice.byteAt_ok data hwf 4 (by omega)
    obtain ⟨x5, h5⟩ := Slice.byteAt_ok data hwf 5 (by omega)
    obtain ⟨x6, h6⟩ := Slice.u16In_ok_len data hwf 6 8 (by omega) (by omega)
    simp only [h0, h2, h4, h5, h6, Res.bind_ok]
    split
    · exact Or.inr rfl
    · rename_i hl2
      obtain ⟨s1, h1, _⟩ := Slice.sliceR_ok_len data hwf 8 (8 + x4.toNat) (by omega) (by omega)
      obtain ⟨s2, h2, _⟩ := Slice.sliceR_ok_len data hwf (8 + x4.toNat) (8 + x4.toNat + x5.toNat) (by omega) (by omega)
      obtain ⟨s3, h3, _⟩ := Slice.sliceR_ok_len data hwf (8 + x4.toNat + x5.toNat) (8 + x4.toNat + x5.toNat + x4.toNat) (by omega) (by omega)
      obtain ⟨s4, h4, _⟩ := Slice.sliceR_ok_len data hwf (8 + x4.toNat + x5.toNat + x4.toNat) (8 + x4.toNat + x5.toNat + x4.toNat + x5.toNat) (by omega) (by omega)
      simp only [h1, h2, h3, h4, Res.bind_ok]
      exact Or.inl ⟨_, rfl⟩

/-- ICMP decoder: total -/
theorem C08_ICMP_total (recv : V) (data : Slice) (hwf : data.WF) : Res.Total (PICMP.unmarshal recv data) := by
  unfold PICMP.unmarshal
  split
  · exact Or.inr rfl
  · rename_i hlen
    obtain ⟨x0, h0⟩ := Slice.byteAt_ok data hwf 0 (by omega)
    obtain ⟨x1, h1⟩ := Slice.byteAt_ok data hwf 1 (by omega)
    obtain ⟨x2, h2⟩ := Slice.u16In_ok_len data hwf 2 4 (by omega) (by omega)
    obtain ⟨r, hr, _⟩ := Slice.fromR_ok_len data hwf 4 (by omega)
    simp only [h0, h1, h2, hr, Res.bind_ok]
    exact Or.inl ⟨_, rfl⟩

/-- TCP decoder: total, whatever payload the receiver held before -/
theorem C08_TCP_total (recv : V) (data : Slice) (hwf : data.WF) : Res.Total (PTCP.unmarshal recv data) := by
  unfold PTCP.unmarshal
  split
  · exact Or.inr rfl
  · rename_i hlen
    obtain ⟨x0, h0⟩ := Slice.u16In_ok_len data hwf 0 2 (by omega) (by omega)
    obtain ⟨x2, h2⟩ := Slice.u16In_ok_len data hwf 2 4 (by omega) (by omega)
    obtain ⟨x4, h4⟩ := Slice.u32In_ok_len data hwf 4 8 (by omega) (by omega)
    obtain ⟨x8, h8⟩ := Slice.u32In_ok_len data hwf 8 12 (by omega) (by omega)
    obtain ⟨x12, h12⟩ := Slice.byteAt_ok data hwf 12 (by omega)
    obtain ⟨x13, h13⟩ := Slice.byteAt_ok data hwf 13 (by omega)
    obtain ⟨x14, h14⟩ := Slice.u16In_ok_len data hwf 14 16 (by omega) (by omega)
    obtain ⟨x16, h16⟩ := Slice.u16In_ok_len data hwf 16 18 (by omega) (by omega)
    obtain ⟨x18, h18⟩ := Slice.u16In_ok_len data hwf 18 20 (by omega) (by omega)
    obtain ⟨r, hr, _⟩ := Slice.fromR_ok_len data hwf 20 (by omega)
    simp only [h0, h2, h4, h8, h12, h13, h14, h16, h18, hr, Res.bind_ok]
    exact Or.inl ⟨_, rfl⟩

/-- UDP decoder: total, whatever payload the receiver held before -/
theorem C08_UDP_total (recv : V) (data : Slice) (hwf : data.WF) : Res.Total (PUDP.unmarshal recv data) := by
  unfold PUDP.unmarshal
  split
  · exact Or.inr rfl
  · rename_i hlen
    obtain ⟨x0, h0⟩ := Slice.u16In_ok_len data hwf 0 2 (by omega) (by omega)
    obtain ⟨x2, h2⟩ := Slice.u16In_ok_len data hwf 2 4 (by omega) (by omega)
    obtain ⟨x4, h4⟩ := Slice.u16In_ok_len data hwf 4 6 (by omega) (by omega)
    obtain ⟨x6, h6⟩ := Slice.u16In_ok_len data hwf 6 8 (by omega) (by omega)
    obtain ⟨r, hr, _⟩ := Slice.fromR_ok_len data hwf 8 (by omega)
    simp only [h0, h2, h4, h6, hr, Res.bind_ok]
    exact Or.inl ⟨_, rfl⟩

/-- IGMP v1/v2 decoder: total -/
theorem C08_IGMPv1or2_total (recv : V) (data : Slice) (hwf : data.WF) : Res.Total (PIGMPv1or2.unmarshal recv data) := by
  unfold PIGMPv1or2.unmarshal
  split
  · exact Or.inr rfl
  · rename_i hlen
    obtain ⟨x0, h0⟩ := Slice.byteAt_ok data hwf 0 (by omega)
    obtain ⟨x1, h1⟩ := Slice.byteAt_ok data hwf 1 (by omega)
    obtain ⟨x2, h2⟩ := Slice.u16In_ok_len data hwf 2 4 (by omega) (by omega)
    obtain ⟨g, hg, _⟩ := Slice.sliceR_ok_len data hwf 4 8 (by omega) (by omega)
    simp only [h0, h1, h2, hg, Res.bind_ok]
    exact Or.inl ⟨_, rfl⟩

/-- IPv6 fragment header decoder: an error, or a `p.FragmentHeader` and the data holds its 8 bytes -/
theorem C08_Fragment_shape (recv : V) (data : Slice) (hwf : data.WF) :
    PFragment.unmarshal recv data = .err ∨
    ∃ v, PFragment.unmarshal recv data = .ok v ∧
      ∃ nh rs off m ident, v = .obj "p.FragmentHeader" [V.u8 nh, V.u8 rs, V.u16 off, V.bool m, V.u32 ident] ∧ 8 ≤ data.len := by
  unfold PFragment.unmarshal
  split
  · exact Or.inl rfl
  · rename_i hlen
    obtain ⟨x0, h0⟩ := Slice.byteAt_ok data hwf 0 (by omega)
    obtain ⟨x1, h1⟩ := Slice.byteAt_ok data hwf 1 (by omega)
    obtain ⟨x2, h2⟩ := Slice.u16From_ok data hwf 2 (by omega)
    obtain ⟨x4, h4⟩ := Slice.u32From_ok data hwf 4 (by omega)
    simp only [h0, h1, h2, h4, Res.bind_ok]
    exact Or.inr ⟨_, rfl, _, _, _, _, _, rfl, by omega⟩

/-- IPv6 fragment header decoder: total -/
theorem C08_Fragment_total (recv : V) (data : Slice) (hwf : data.WF) : Res.Total (PFragment.unmarshal recv data) := by
  unfold PFragment.unmarshal
  split
  · exact Or.inr rfl
  · rename_i hlen
    obtain ⟨x0, h0⟩ := Slice.byteAt_ok data hwf 0 (by omega)
    obtain ⟨x1, h1⟩ := Slice.byteAt_ok data hwf 1 (by omega)
    obtain ⟨x2, h2⟩ := Slice.u16From_ok data hwf 2 (by omega)
    obtain ⟨x4, h4⟩ := Slice.u32From_ok data hwf 4 (by omega)
    simp only [h0, h1, h2, h4, Res.bind_ok]
    exact Or.inl ⟨_, rfl⟩

/-- IPv6 option decoder: an error, or a `p.Option` whose declared size (`Option.Len`: 1 byte for Pad1, `Length + 2`
    otherwise) is at least 1 and lies inside the data -/
theorem C08_Option_shape (recv : V) (data : Slice) (hwf : data.WF) :
    POption.unmarshal recv data = .err ∨
    ∃ v, POption.unmarshal recv data = .ok v ∧
      ∃ ty ln d, v = .obj "p.Option" [V.u8 ty, V.u8 ln, .bytes d] ∧
        1 ≤ (Gen.protocol.Option.Len { Type_ := ty, Length := ln }).toNat ∧
        (Gen.protocol.Option.Len { Type_ := ty, Length := ln }).toNat ≤ data.len := by
  unfold POption.unmarshal
  split
  · rename_i hpad
    exact Or.inr ⟨_, rfl, 0, 0, [], rfl, by decide, by
      have : (Gen.protocol.Option.Len { Type_ := 0, Length := 0 }).toNat = 1 := by decide
      omega⟩
  · split
    · exact Or.inl rfl
    · rename_i hlen
      obtain ⟨x0, h0⟩ := Slice.byteAt_ok data hwf 0 (by omega)
      obtain ⟨x1, h1⟩ := Slice.byteAt_ok data hwf 1 (by omega)
      simp only [h0, h1, Res.bind_ok]
      split
      · exact Or.inl rfl
      · rename_i hl2
        obtain ⟨s, hs, _⟩ := Slice.sliceR_ok_len data hwf 2 (2 + x1.toNat) (by omega) (by omega)
        simp only [hs, Res.bind_ok]
        refine Or.inr ⟨_, rfl, x0, x1, _, rfl, ?_, ?_⟩
        · rw [C08_Option_Len]; split <;> omega
        · rw [C08_Option_Len]; dsimp only; split <;> omega

/-- IPv6 option decoder: total -/
theorem C08_Option_total (recv : V) (data : Slice) (hwf : data.WF) : Res.Total (POption.unmarshal recv data) :=
  Res.total_of_cases (C08_Option_shape recv data hwf)

/-- IPv6 routing header decoder: an error, or a `p.RoutingHeader` whose `8·(HEL+1)` bytes lie inside the data -/
theorem C08_Routing_shape (recv : V) (data : Slice) (hwf : data.WF) :
    PRouting.unmarshal recv data = .err ∨
    ∃ v, PRouting.unmarshal recv data = .ok v ∧
      ∃ nh hel rt sl buf, v = .obj "p.RoutingHeader" [V.u8 nh, V.u8 hel, V.u8 rt, V.u8 sl, buf] ∧ 8 * (hel.toNat + 1) ≤ data.len := by
  unfold PRouting.unmarshal
  split
  · exact Or.inl rfl
  · rename_i hlen
    obtain ⟨x0, h0⟩ := Slice.byteAt_ok data hwf 0 (by omega)
    obtain ⟨x1, h1⟩ := Slice.byteAt_ok data hwf 1 (by omega)
    simp only [h0, h1, Res.bind_ok]
    split
    · exact Or.inl rfl
    · rename_i hl2
      obtain ⟨x2, h2⟩ := Slice.byteAt_ok data hwf 2 (by omega)
      obtain ⟨x3, h3⟩ := Slice.byteAt_ok data hwf 3 (by omega)
      simp only [h2, h3, Res.bind_ok]
      have hl := C08_Routing_Len { NextHeader := x0, HEL := x1, RoutingType := x2, SegmentsLeft := x3 }
      simp only at hl
      obtain ⟨s, hs, _⟩ := Slice.sliceR_ok_len data hwf 4 (Gen.protocol.RoutingHeader.Len { NextHeader := x0, HEL := x1, RoutingType := x2, SegmentsLeft := x3 }).toNat (by omega) (by omega)
      simp only [hs, Res.bind_ok, UBuffer.unmarshal]
      exact Or.inr ⟨_, rfl, _, _, _, _, _, rfl, by omega⟩

/-- IPv6 routing header decoder: total -/
theorem C08_Routing_total (recv : V) (data : Slice) (hwf : data.WF) : Res.Total (PRouting.unmarshal recv data) :=
  Res.total_of_cases (C08_Routing_shape recv data hwf)

/-! ### loops: hop-by-hop options, DHCP options, IGMPv3 -/

/-- one iteration of the hop-by-hop option loop started inside the data: an error, or the offset grows by at least 1
    (a Pad1 option is a single byte; every other option takes at least 2) -/
theorem C08_HopByHop_body (data : Slice) (hwf : data.WF) (s : PHopByHop.St) (hn : s.n ≤ data.len) :
    hbhBody data s = .err ∨ ∃ s', hbhBody data s = .ok s' ∧ s.n + 1 ≤ s'.n := by
  unfold hbhBody
  obtain ⟨d, hd, hdwf, _⟩ := Slice.fromR_ok_len data hwf s.n hn
  rcases C08_Option_shape POption.zero d hdwf with h | ⟨v, hv, ty, ln, dd, rfl, hpos, _⟩
  · simp only [hd, h, Res.bind_ok, Res.bind_err]; exact Or.inl trivial
  · simp only [hd, hv, Res.bind_ok, POption.len, V.u8]
    refine Or.inr ⟨_, rfl, ?_⟩
    have e8 : ∀ x : UInt8, n8 x.toNat = x := fun x => by simp [n8]
    simp only [e8]
    omega

/-- IPv6 hop-by-hop header decoder (option loop via `goLoop`): an error, or a `p.HopByHopHeader` whose `8·(HEL+1)` bytes lie
    inside the data; in particular neither a panic nor an endless loop, for every receiver -/
theorem C08_HopByHop_shape (recv : V) (data : Slice) (hwf : data.WF) :
    PHopByHop.unmarshal recv data = .err ∨
    ∃ v, PHopByHop.unmarshal recv data = .ok v ∧
      ∃ nh hel opts, v = .obj "p.HopByHopHeader" [V.u8 nh, V.u8 hel, .list opts] ∧ 8 * (hel.toNat + 1) ≤ data.len := by
  unfold PHopByHop.unmarshal
  split
  · exact Or.inl rfl
  · rename_i hlen
    obtain ⟨x0, h0⟩ := Slice.byteAt_ok data hwf 0 (by omega)
    obtain ⟨x1, h1⟩ := Slice.byteAt_ok data hwf 1 (by omega)
    simp only [h0, h1, Res.bind_ok]
    split
    · exact Or.inl rfl
    · rename_i hl2
      have hl := C08_HopByHop_Len { NextHeader := x0, HEL := x1 }
      simp only at hl
      simp only [hl]
      have hbody : ∀ s : PHopByHop.St, decide (s.n < 8 * (x1.toNat + 1)) = true →
          hbhBody data s = .err ∨ ∃ s', hbhBody data s = .ok s' ∧ s.n < s'.n := by
        intro s hc
        have hlt : s.n < 8 * (x1.toNat + 1) := by simpa using hc
        rcases C08_HopByHop_body data hwf s (by omega) with h | ⟨s', h, hle⟩
        · exact Or.inl h
        · exact Or.inr ⟨s', h, by omega⟩
      rcases goLoop_total (σ := PHopByHop.St) (fun s => decide (s.n < 8 * (x1.toNat + 1))) (·.n) (hbhBody data)
        (8 * (x1.toNat + 1)) (fun s hc => by simpa using hc) hbody
        (8 * (x1.toNat + 1) + 2) { n := 2, opts := _ } (by simp; omega) with h | ⟨t, h, _⟩
      · unfold hbhBody at h
        rw [h]; exact Or.inl rfl
      · unfold hbhBody at h
        rw [h]; simp only [Res.bind_ok]
        exact Or.inr ⟨_, rfl, _, _, _, rfl, by omega⟩

/-- IPv6 hop-by-hop header decoder: total -/
theorem C08_HopByHop_total (recv : V) (data : Slice) (hwf : data.WF) : Res.Total (PHopByHop.unmarshal recv data) :=
  Res.total_of_cases (C08_HopByHop_shape recv data hwf)

/-- one iteration of DHCPParseOptions started inside the input: an error, or the position grows -/
theorem C08_DhcpParseOptions_body (inp : Slice) (hwf : inp.WF) (s : PDhcpOpt.St) (hn : s.pos < inp.len) :
    dhcpBody inp s = .err ∨ ∃ s', dhcpBody inp s = .ok s' ∧ s.pos < s'.pos := by
  unfold dhcpBody
  obtain ⟨t, ht⟩ := Slice.byteAt_ok inp hwf s.pos hn
  simp only [ht, Res.bind_ok]
  split
  · exact Or.inr ⟨_, rfl, by simp⟩
  · split
    · exact Or.inr ⟨_, rfl, by simp⟩
    · split
      · rename_i h1
        obtain ⟨l, hl⟩ := Slice.byteAt_ok inp hwf (s.pos + 1) (by omega)
        simp only [hl, Res.bind_ok]
        split
        · exact Or.inl rfl
        · obtain ⟨d, hd, _⟩ := Slice.sliceR_ok_len inp hwf (s.pos + 1 + 1) (s.pos + 1 + 1 + l.toNat) (by omega) (by omega)
          simp only [hd, Res.bind_ok]
          exact Or.inr ⟨_, rfl, by simp; omega⟩
      · exact Or.inr ⟨_, rfl, by simp⟩

/-- DHCPParseOptions: total on every well-formed input (the loop ends within `len + 1` iterations) -/
theorem C08_DhcpParseOptions_total (inp : Slice) (hwf : inp.WF) : Res.Total (PDhcpOpt.parseOptions inp) := by
  unfold PDhcpOpt.parseOptions
  have hbody : ∀ s : PDhcpOpt.St, (decide (s.pos < inp.len) && !s.done) = true →
      dhcpBody inp s = .err ∨ ∃ s', dhcpBody inp s = .ok s' ∧ s.pos < s'.pos := by
    intro s hc
    have hlt : s.pos < inp.len := by simp at hc; exact hc.1
    exact C08_DhcpParseOptions_body inp hwf s hlt
  rcases goLoop_total (σ := PDhcpOpt.St) (fun s => decide (s.pos < inp.len) && !s.done) (·.pos) (dhcpBody inp)
    inp.len (fun s hc => by simp at hc; exact hc.1) hbody
    (inp.len + 1) { pos := 0, opts := [], done := false } (by simp) with h | ⟨t, h, _⟩
  · unfold dhcpBody at h
    rw [h]; exact Or.inr rfl
  · unfold dhcpBody at h
    rw [h]; exact Or.inl ⟨_, rfl⟩

/-- reading `k` 4-byte addresses from offset `n` succeeds when `n + 4k ≤ len` -/
theorem C08_readIPs_ok (data : Slice) (hwf : data.WF) : ∀ k n, n + 4 * k ≤ data.len → ∃ l, pReadIPs data n k = .ok l := by
  intro k
  induction k with
  | zero => intro n _; exact ⟨_, rfl⟩
  | succ k ih =>
    intro n h
    unfold pReadIPs
    obtain ⟨s, hs, _⟩ := Slice.sliceR_ok_len data hwf n (n + 4) (by omega) (by omega)
    obtain ⟨l, hl⟩ := ih (n + 4) (by omega)
    simp only [hs, hl, Res.bind_ok]
    exact ⟨_, rfl⟩

/-- reading `k` 32-bit words from offset `n` succeeds when `n + 4k ≤ len` -/
theorem C08_readU32s_ok (data : Slice) (hwf : data.WF) : ∀ k n, n + 4 * k ≤ data.len → ∃ l, pReadU32s data n k = .ok l := by
  intro k
  induction k with
  | zero => intro n _; exact ⟨_, rfl⟩
  | succ k ih =>
    intro n h
    unfold pReadU32s
    obtain ⟨w, hw⟩ := Slice.u32From_ok data hwf n (by omega)
    obtain ⟨l, hl⟩ := ih (n + 4) (by omega)
    simp only [hw, hl, Res.bind_ok]
    exact ⟨_, rfl⟩

/-- IGMPv3 query decoder: total (the source count is checked against `len` before the addresses are read) -/
theorem C08_IGMPv3Query_total (recv : V) (data : Slice) (hwf : data.WF) : Res.Total (PIGMPv3Query.unmarshal recv data) := by
  unfold PIGMPv3Query.unmarshal
  split
  · exact Or.inr rfl
  · rename_i hlen
    obtain ⟨x0, h0⟩ := Slice.byteAt_ok data hwf 0 (by omega)
    obtain ⟨x1, h1⟩ := Slice.byteAt_ok data hwf 1 (by omega)
    obtain ⟨x2, h2⟩ := Slice.u16From_ok data hwf 2 (by omega)
    obtain ⟨g, hg, _⟩ := Slice.sliceR_ok_len data hwf 4 8 (by omega) (by omega)
    obtain ⟨x8, h8⟩ := Slice.byteAt_ok data hwf 8 (by omega)
    obtain ⟨x9, h9⟩ := Slice.byteAt_ok data hwf 9 (by omega)
    obtain ⟨x10, h10⟩ := Slice.u16From_ok data hwf 10 (by omega)
    simp only [h0, h1, h2, hg, h8, h9, h10, Res.bind_ok]
    split
    · exact Or.inr rfl
    · rename_i hl2
      obtain ⟨ips, hips⟩ := C08_readIPs_ok data hwf x10.toNat 12 (by omega)
      simp only [hips, Res.bind_ok]
      exact Or.inl ⟨_, rfl⟩

/-- IGMPv3 group record decoder: an error, or a record whose true size `8 + 4·AuxDataLen + 4·NumberOfSources` (computed
    without wrap-around, as the report decoder does) lies inside the data -/
theorem C08_IGMPv3GroupRecord_shape (recv : V) (data : Slice) (hwf : data.WF) :
    PIGMPv3GroupRecord.unmarshal recv data = .err ∨
    ∃ v, PIGMPv3GroupRecord.unmarshal recv data = .ok v ∧
      ∃ l, PIGMPv3GroupRecord.trueSize v = .ok l ∧ l ≤ data.len := by
  unfold PIGMPv3GroupRecord.unmarshal
  split
  · exact Or.inl rfl
  · rename_i hlen
    obtain ⟨x0, h0⟩ := Slice.byteAt_ok data hwf 0 (by omega)
    obtain ⟨x1, h1⟩ := Slice.byteAt_ok data hwf 1 (by omega)
    obtain ⟨x2, h2⟩ := Slice.u16From_ok data hwf 2 (by omega)
    obtain ⟨g, hg, _⟩ := Slice.sliceR_ok_len data hwf 4 8 (by omega) (by omega)
    simp only [h0, h1, h2, hg, Res.bind_ok]
    split
    · exact Or.inl rfl
    · rename_i hl2
      obtain ⟨ips, hips⟩ := C08_readIPs_ok data hwf x2.toNat 8 (by omega)
      obtain ⟨ws, hws⟩ := C08_readU32s_ok data hwf x1.toNat (8 + 4 * x2.toNat) (by omega)
      simp only [hips, hws, Res.bind_ok]
      refine Or.inr ⟨_, rfl, 8 + x1.toNat * 4 + x2.toNat * 4, ?_, ?_⟩
      · simp only [PIGMPv3GroupRecord.trueSize, V.u8, V.u16, n8_toNat, n16_toNat]
      · omega

/-- IGMPv3 group record decoder: total -/
theorem C08_IGMPv3GroupRecord_total (recv : V) (data : Slice) (hwf : data.WF) :
    Res.Total (PIGMPv3GroupRecord.unmarshal recv data) :=
  Res.total_of_cases (C08_IGMPv3GroupRecord_shape recv data hwf)

/-- the record loop of the IGMPv3 membership report, started inside the data: total for every announced record count -/
theorem C08_readRecs_total (data : Slice) (hwf : data.WF) : ∀ k n, n ≤ data.len → Res.Total (PIGMPv3MembershipReport.readRecs data n k) := by
  intro k
  induction k with
  | zero => intro n _; exact Or.inl ⟨_, rfl⟩
  | succ k ih =>
    intro n hn
    unfold PIGMPv3MembershipReport.readRecs
    obtain ⟨d, hd, hdwf, hdlen⟩ := Slice.fromR_ok_len data hwf n hn
    simp only [hd, Res.bind_ok]
    rcases C08_IGMPv3GroupRecord_shape PIGMPv3GroupRecord.zero d hdwf with h | ⟨v, hv, l, hl, hle⟩
    · simp only [h, Res.bind_err]; exact Or.inr rfl
    · simp only [hv, hl, Res.bind_ok]
      rcases ih (n + l) (by omega) with ⟨rest, hr⟩ | hr
      · simp only [hr, Res.bind_ok]; exact Or.inl ⟨_, rfl⟩
      · simp only [hr, Res.bind_err]; exact Or.inr rfl

/-- IGMPv3 membership report decoder: total — proved from the group-record theorem -/
theorem C08_IGMPv3MembershipReport_total (recv : V) (data : Slice) (hwf : data.WF) :
    Res.Total (PIGMPv3MembershipReport.unmarshal recv data) := by
  unfold PIGMPv3MembershipReport.unmarshal
  split
  · exact Or.inr rfl
  · rename_i hlen
    obtain ⟨x0, h0⟩ := Slice.byteAt_ok data hwf 0 (by omega)
    obtain ⟨x2, h2⟩ := Slice.u16From_ok data hwf 2 (by omega)
    obtain ⟨x6, h6⟩ := Slice.u16From_ok data hwf 6 (by omega)
    simp only [h0, h2, h6, Res.bind_ok]
    rcases C08_readRecs_total data hwf x6.toNat 8 (by omega) with ⟨rest, hr⟩ | hr
    · split <;> (simp only [hr, Res.bind_ok]; exact Or.inl ⟨_, rfl⟩)
    · split <;> (simp only [hr, Res.bind_err]; exact Or.inr rfl)

/-! ### composites: IPv4, IPv6, Ethernet, DHCP, LLDP -/

/-- the IHL nibble is at most 15, so `IHL * 4` does not wrap in 8 bits -/
theorem C08_IPv4_IHL_le (b : UInt8) : (PIPv4.unpackIHL b).toNat ≤ 15 := by
  unfold PIPv4.unpackIHL
  rw [UInt8.toNat_and]
  exact Nat.and_le_right

/-- IPv4 decoder: total — the option window `20 .. 4·IHL` is checked (`5 ≤ IHL`, `4·IHL ≤ len`), the payload goes to the ICMP /
    UDP / Buffer decoder, whose theorems are used -/
theorem C08_IPv4_total (recv : V) (data : Slice) (hwf : data.WF) : Res.Total (PIPv4.unmarshal recv data) := by
  unfold PIPv4.unmarshal
  split
  · exact Or.inr rfl
  · rename_i hlen
    obtain ⟨b0, h0⟩ := Slice.byteAt_ok data hwf 0 (by omega)
    obtain ⟨b1, h1⟩ := Slice.byteAt_ok data hwf 1 (by omega)
    obtain ⟨x2, h2⟩ := Slice.u16From_ok data hwf 2 (by omega)
    obtain ⟨x4, h4⟩ := Slice.u16From_ok data hwf 4 (by omega)
    obtain ⟨x6, h6⟩ := Slice.u16From_ok data hwf 6 (by omega)
    obtain ⟨x8, h8⟩ := Slice.byteAt_ok data hwf 8 (by omega)
    obtain ⟨x9, h9⟩ := Slice.byteAt_ok data hwf 9 (by omega)
    obtain ⟨x10, h10⟩ := Slice.u16From_ok data hwf 10 (by omega)
    obtain ⟨s, hs, _⟩ := Slice.sliceR_ok_len data hwf 12 16 (by omega) (by omega)
    obtain ⟨d, hd, _⟩ := Slice.sliceR_ok_len data hwf 16 20 (by omega) (by omega)
    simp only [h0, h1, h2, h4, h6, h8, h9, h10, hs, hd, Res.bind_ok]
    split
    · exact Or.inr rfl
    · rename_i hihl
      have hle := C08_IPv4_IHL_le b0
      simp only [Bool.or_eq_true, decide_eq_true_eq, not_or, UInt8.lt_iff_toNat_lt] at hihl
      have h5 : 5 ≤ (PIPv4.unpackIHL b0).toNat := by
        have := hihl.1
        have h55 : UInt8.toNat 5 = 5 := rfl
        omega
      have hmul : (PIPv4.unpackIHL b0 * 4).toNat = (PIPv4.unpackIHL b0).toNat * 4 := by
        rw [UInt8.toNat_mul]; simp; omega
      obtain ⟨osl, hosl, _⟩ := Slice.sliceR_ok_len data hwf 20 (PIPv4.unpackIHL b0 * 4).toNat (by omega) (by omega)
      obtain ⟨rest, hrest, hrwf, _⟩ := Slice.fromR_ok_len data hwf (PIPv4.unpackIHL b0 * 4).toNat (by omega)
      simp only [hosl, hrest, Res.bind_ok, UBuffer.unmarshal]
      split
      · rcases C08_ICMP_total PIPv4.newICMP rest hrwf with ⟨v, hv⟩ | hv
        · simp only [hv, Res.bind_ok]; exact Or.inl ⟨_, rfl⟩
        · simp only [hv, Res.bind_err]; exact Or.inr rfl
      · split
        · rcases C08_UDP_total PIPv4.newUDP rest hrwf with ⟨v, hv⟩ | hv
          · simp only [hv, Res.bind_ok]; exact Or.inl ⟨_, rfl⟩
          · simp only [hv, Res.bind_err]; exact Or.inr rfl
        · exact Or.inl ⟨_, rfl⟩

/-- one pass of the IPv6 extension-header switch started inside the data: an error, leaving the loop, or advancing by at
    least 8 bytes and staying inside the data — from the hop-by-hop, routing and fragment theorems -/
theorem C08_IPv6_xstep (data : Slice) (hwf : data.WF) (s : PIPv6.XSt) (hn : s.n ≤ data.len) :
    PIPv6.xstep data s = .err ∨ PIPv6.xstep data s = .ok none ∨
    ∃ s', PIPv6.xstep data s = .ok (some s') ∧ s.n + 8 ≤ s'.n ∧ s'.n ≤ data.len := by
  unfold PIPv6.xstep
  obtain ⟨d, hd, hdwf, hdlen⟩ := Slice.fromR_ok_len data hwf s.n hn
  split
  · rcases C08_HopByHop_shape PHopByHop.zero d hdwf with h | ⟨v, hv, nh, hel, opts, rfl, hle⟩
    · simp only [hd, h, Res.bind_ok, Res.bind_err]; exact Or.inl trivial
    · simp only [hd, hv, Res.bind_ok, PHopByHop.nextHeader, PHopByHop.len, V.u8, C08_HopByHop_Len, n8_toNat]
      refine Or.inr (Or.inr ⟨_, rfl, ?_, ?_⟩) <;> simp only <;> omega
  · split
    · rcases C08_Routing_shape PRouting.zero d hdwf with h | ⟨v, hv, nh, hel, rt, sl, buf, rfl, hle⟩
      · simp only [hd, h, Res.bind_ok, Res.bind_err]; exact Or.inl trivial
      · simp only [hd, hv, Res.bind_ok, PRouting.nextHeader, PRouting.len, V.u8, C08_Routing_Len, n8_toNat]
        refine Or.inr (Or.inr ⟨_, rfl, ?_, ?_⟩) <;> simp only <;> omega
    · split
      · rcases C08_Fragment_shape PFragment.zero d hdwf with h | ⟨v, hv, nh, rs, off, m, ident, rfl, hle⟩
        · simp only [hd, h, Res.bind_ok, Res.bind_err]; exact Or.inl trivial
        · simp only [hd, hv, Res.bind_ok, PFragment.nextHeader, PFragment.len, V.u8, V.u16, V.u32, V.bool,
            Gen.protocol.FragmentHeader.Len]
          refine Or.inr (Or.inr ⟨_, rfl, ?_, ?_⟩) <;> simp only <;> (try (have : (8 : UInt16).toNat = 8 := rfl)) <;> omega
      · exact Or.inr (Or.inl rfl)

/-- the IPv6 extension-header loop: with fuel above `len - n` it returns an error or a final offset inside the data (never
    `.spin`: no header has size 0 any more, never `.panic`) -/
theorem C08_IPv6_xloop (data : Slice) (hwf : data.WF) :
    ∀ fuel (s : PIPv6.XSt), s.n ≤ data.len → data.len - s.n < fuel →
      PIPv6.xloop data fuel s = .err ∨ ∃ t, PIPv6.xloop data fuel s = .ok t ∧ t.n ≤ data.len := by
  intro fuel
  induction fuel with
  | zero => intro s _ h; omega
  | succ f ih =>
    intro s hn hf
    unfold PIPv6.xloop
    rcases C08_IPv6_xstep data hwf s hn with h | h | ⟨s', h, hadv, hle⟩
    · rw [h]; exact Or.inl rfl
    · rw [h]; exact Or.inr ⟨s, rfl, hn⟩
    · rw [h]
      simp only
      rw [if_neg (by omega)]
      exact ih s' hle (by omega)

/-- IPv6 decoder: total — extension-header chain, then ICMPv6 / UDP / Buffer payload -/
theorem C08_IPv6_total (recv : V) (data : Slice) (hwf : data.WF) : Res.Total (PIPv6.unmarshal recv data) := by
  unfold PIPv6.unmarshal
  split
  · exact Or.inr rfl
  · rename_i hlen
    obtain ⟨b0, h0⟩ := Slice.byteAt_ok data hwf 0 (by omega)
    obtain ⟨b1, h1⟩ := Slice.byteAt_ok data hwf 1 (by omega)
    obtain ⟨w, hw⟩ := Slice.u32In_ok_len data hwf 0 4 (by omega) (by omega)
    obtain ⟨x4, h4⟩ := Slice.u16From_ok data hwf 4 (by omega)
    obtain ⟨x6, h6⟩ := Slice.byteAt_ok data hwf 6 (by omega)
    obtain ⟨x7, h7⟩ := Slice.byteAt_ok data hwf 7 (by omega)
    obtain ⟨s, hs, _⟩ := Slice.sliceR_ok_len data hwf 8 24 (by omega) (by omega)
    obtain ⟨d, hd, _⟩ := Slice.sliceR_ok_len data hwf 24 40 (by omega) (by omega)
    simp only [h0, h1, hw, h4, h6, h7, hs, hd, Res.bind_ok]
    rcases C08_IPv6_xloop data hwf (data.len + 4) { n := 40, nxt := x6, hbh := _, rt := _, fr := _ } (by simp; omega) (by simp; omega)
      with h | ⟨t, h, hle⟩
    · rw [h]; exact Or.inr rfl
    · rw [h]
      obtain ⟨rest, hrest, hrwf, _⟩ := Slice.fromR_ok_len data hwf t.n hle
      simp only [hrest, Res.bind_ok]
      split
      · rcases C08_ICMP_total PIPv4.newICMP rest hrwf with ⟨v, hv⟩ | hv
        · simp only [hv, Res.bind_ok]; exact Or.inl ⟨_, rfl⟩
        · simp only [hv, Res.bind_err]; exact Or.inr rfl
      · split
        · rcases C08_UDP_total PIPv4.newUDP rest hrwf with ⟨v, hv⟩ | hv
          · simp only [hv, Res.bind_ok]; exact Or.inl ⟨_, rfl⟩
          · simp only [hv, Res.bind_err]; exact Or.inr rfl
        · exact Or.inl ⟨_, rfl⟩

/-- the payload dispatch of the Ethernet decoder (IPv4 / IPv6 / ARP / Buffer) is total, from the theorems of the parts -/
theorem C08_Ethernet_payload_total (et : UInt16) (rest : Slice) (hrwf : rest.WF) (k : V → R V) (hk : ∀ a, ∃ b, k a = .ok b) :
    Res.Total (
        if et.toNat = Gen.protocol.IPv4_MSG then PIPv4.unmarshal PIPv4.zero rest >>= k
        else if et.toNat = Gen.protocol.IPv6_MSG then PIPv6.unmarshal PIPv6.zero rest >>= k
        else if et.toNat = Gen.protocol.ARP_MSG then PARP.unmarshal PARP.zero rest >>= k
        else UBuffer.unmarshal UBuffer.zero rest >>= k) := by
  split
  · exact Res.total_bind_ok (C08_IPv4_total PIPv4.zero rest hrwf) k hk
  · split
    · exact Res.total_bind_ok (C08_IPv6_total PIPv6.zero rest hrwf) k hk
    · split
      · exact Res.total_bind_ok (C08_ARP_total PARP.zero rest hrwf) k hk
      · exact Res.total_bind_ok (C08_UBuffer_total UBuffer.zero rest) k hk

/-- Ethernet decoder: total — optional VLAN tag, then the payload dispatch -/
theorem C08_Ethernet_total (recv : V) (data : Slice) (hwf : data.WF) : Res.Total (PEthernet.unmarshal recv data) := by
  unfold PEthernet.unmarshal
  split
  · exact Or.inr rfl
  · rename_i hlen
    obtain ⟨s1, hs1, _⟩ := Slice.sliceR_ok_len data hwf 0 6 (by omega) (by omega)
    obtain ⟨s2, hs2, _⟩ := Slice.sliceR_ok_len data hwf 6 12 (by omega) (by omega)
    obtain ⟨et0, het0⟩ := Slice.u16From_ok data hwf 12 (by omega)
    simp only [hs1, hs2, het0, Res.bind_ok]
    split
    · -- VLAN-tagged
      obtain ⟨d, hd, hdwf, hdlen⟩ := Slice.fromR_ok_len data hwf 12 (by omega)
      simp only [hd, Res.bind_ok]
      rcases C08_VLAN_total PVLAN.zero d hdwf with ⟨vl, hvl⟩ | hvl
      · simp only [hvl, Res.bind_ok]
        split
        · exact Or.inr rfl
        · rename_i h18
          obtain ⟨et, het⟩ := Slice.u16From_ok data hwf 16 (by omega)
          obtain ⟨rest, hrest, hrwf, _⟩ := Slice.fromR_ok_len data hwf 18 (by omega)
          simp only [het, hrest, Res.bind_ok, Res.pure_eq]
          exact C08_Ethernet_payload_total et rest hrwf _ (fun _ => ⟨_, rfl⟩)
      · simp only [hvl, Res.bind_err]; exact Or.inr rfl
    · obtain ⟨rest, hrest, hrwf, _⟩ := Slice.fromR_ok_len data hwf 14 (by omega)
      simp only [hrest, Res.bind_ok, Res.pure_eq]
      exact C08_Ethernet_payload_total et0 rest hrwf _ (fun _ => ⟨_, rfl⟩)

/-- DHCP.Write (the DHCP decoder): total for every receiver and every byte string — fixed part, hardware address window
    (`HardwareLen ≤ 16` checked), option list via DHCPParseOptions -/
theorem C08_DHCP_total (recv : V) (b : Bytes) : Res.Total (PDHCP.write recv b) := by
  unfold PDHCP.write
  split
  · exact Or.inr rfl
  · rename_i hlen
    have hwf : (Slice.exact b).WF := Slice.exact_wf b
    have hl : (Slice.exact b).len = b.length := rfl
    obtain ⟨x0, h0⟩ := Slice.byteAt_ok _ hwf 0 (by omega)
    obtain ⟨x1, h1⟩ := Slice.byteAt_ok _ hwf 1 (by omega)
    obtain ⟨x2, h2⟩ := Slice.byteAt_ok _ hwf 2 (by omega)
    obtain ⟨x3, h3⟩ := Slice.byteAt_ok _ hwf 3 (by omega)
    obtain ⟨x4, h4⟩ := Slice.u32In_ok_len _ hwf 4 8 (by omega) (by omega)
    obtain ⟨x8, h8⟩ := Slice.u16In_ok_len _ hwf 8 10 (by omega) (by omega)
    obtain ⟨x10, h10⟩ := Slice.u16In_ok_len _ hwf 10 12 (by omega) (by omega)
    obtain ⟨cip, hcip, _⟩ := Slice.sliceR_ok_len _ hwf 12 16 (by omega) (by omega)
    obtain ⟨yip, hyip, _⟩ := Slice.sliceR_ok_len _ hwf 16 20 (by omega) (by omega)
    obtain ⟨sip, hsip, _⟩ := Slice.sliceR_ok_len _ hwf 20 24 (by omega) (by omega)
    obtain ⟨gip, hgip, _⟩ := Slice.sliceR_ok_len _ hwf 24 28 (by omega) (by omega)
    obtain ⟨hw, hhw, hhwwf, hhwlen⟩ := Slice.sliceR_ok_len _ hwf 28 44 (by omega) (by omega)
    obtain ⟨sname, hsname, _⟩ := Slice.sliceR_ok_len _ hwf 44 108 (by omega) (by omega)
    obtain ⟨file, hfile, _⟩ := Slice.sliceR_ok_len _ hwf 108 236 (by omega) (by omega)
    obtain ⟨mg, hmg⟩ := Slice.u32In_ok_len _ hwf 236 240 (by omega) (by omega)
    simp only [h0, h1, h2, h3, h4, h8, h10, hcip, hyip, hsip, hgip, hhw, Res.bind_ok]
    split
    · exact Or.inr rfl
    · rename_i h16
      have hbl : hw.bytes.length = 16 := by rw [Slice.bytes_length hw hhwwf]; omega
      obtain ⟨hws, hhws⟩ : ∃ t, (Slice.exact hw.bytes).uptoR x2.toNat = .ok t := by
        unfold Slice.uptoR Slice.upto
        exact ⟨_, Slice.sliceR_ok _ 0 x2.toNat (by omega) (by show x2.toNat ≤ hw.bytes.length; omega)⟩
      simp only [hhws, hsname, hfile, hmg, Res.bind_ok]
      split
      · exact Or.inr rfl
      · rcases C08_DhcpParseOptions_total (Slice.exact (b.drop 240)) (Slice.exact_wf _) with ⟨os, hos⟩ | hos
        · simp only [hos, Res.bind_ok]; exact Or.inl ⟨_, rfl⟩
        · simp only [hos, Res.bind_err]; exact Or.inr rfl

/-- ChassisTLV / PortTLV `Write` on a receiver of the right struct type always returns, and the receiver keeps its type -/
theorem C08_TLV_total (kind : String) (ty ln st d : V) (b : Bytes) :
    ∃ n e ty' ln' st' d', PTLV.write kind (.obj kind [ty, ln, st, d]) b = .ok (n, e, .obj kind [ty', ln', st', d']) := by
  unfold PTLV.write
  simp only [ne_eq, not_true_eq_false, if_false]
  split
  · split
    · exact ⟨_, _, _, _, _, _, rfl⟩
    · split
      · exact ⟨_, _, _, _, _, _, rfl⟩
      · exact ⟨_, _, _, _, _, _, rfl⟩
  · exact ⟨_, _, _, _, _, _, rfl⟩

/-- TTLTLV `Write` on a `p.TTLTLV` receiver always returns -/
theorem C08_TTLTLV_total (ty ln secs : V) (b : Bytes) :
    ∃ r, PTLV.ttlWrite (.obj "p.TTLTLV" [ty, ln, secs]) b = .ok r := by
  unfold PTLV.ttlWrite
  simp only
  split
  · split
    · exact ⟨_, rfl⟩
    · exact ⟨_, rfl⟩
  · exact ⟨_, rfl⟩

/-- LLDP.Write: total for every byte string, provided the receiver is an LLDP struct whose Chassis, Port and TTL TLVs are
    struct values of their types (as in every LLDP value the library builds — in Go the three fields are embedded struct
    values, so this always holds; in the untyped model a nil receiver or a nil TLV is a nil dereference).  Write decodes
    the chassis TLV, the port TLV behind it and the TTL TLV behind that; it stops after a TLV that consumed nothing. -/
theorem C08_LLDP_total (c1 c2 c3 c4 p1 p2 p3 p4 t1 t2 t3 : V) (b : Bytes) :
    Res.Total (PLLDP.write (.obj "p.LLDP" [.obj "p.ChassisTLV" [c1, c2, c3, c4], .obj "p.PortTLV" [p1, p2, p3, p4],
      .obj "p.TTLTLV" [t1, t2, t3]]) b) := by
  unfold PLLDP.write
  simp only
  obtain ⟨m, e1, a1, a2, a3, a4, hch⟩ := C08_TLV_total "p.ChassisTLV" c1 c2 c3 c4 b
  simp only [hch, Res.bind_ok]
  split
  · split
    · exact Or.inr rfl
    · exact Or.inl ⟨_, rfl⟩
  · obtain ⟨o, e2, q1, q2, q3, q4, hpt⟩ := C08_TLV_total "p.PortTLV" p1 p2 p3 p4 (b.drop m)
    simp only [hpt, Res.bind_ok]
    split
    · split
      · exact Or.inr rfl
      · exact Or.inl ⟨_, rfl⟩
    · obtain ⟨⟨p, e3, r⟩, httl⟩ := C08_TTLTLV_total t1 t2 t3 (b.drop (m + o))
      simp only [httl, Res.bind_ok]
      split
      · exact Or.inr rfl
      · exact Or.inl ⟨_, rfl⟩

/-! ### the hypotheses are satisfiable; the LLDP hypothesis is needed; former defect inputs -/

/-- a well-formed slice with spare capacity (len 4, cap 6) -/
example : (⟨[0x81, 0, 0x20, 5, 9, 9], 4⟩ : Slice).WF := by unfold Slice.WF; decide
example : PVLAN.unmarshal PVLAN.zero ⟨[0x81, 0, 0x20, 5, 9, 9], 4⟩ = .ok (.obj "p.VLAN" [.num 0x8100, .num 1, .num 0, .num 5]) := by rfl
/-- a hop-by-hop header with one option decodes -/
example : PHopByHop.unmarshal PHopByHop.zero (Slice.exact [59, 0, 1, 4, 0, 0, 0, 0]) =
    .ok (.obj "p.HopByHopHeader" [.num 59, .num 0, .list [.obj "p.Option" [.num 1, .num 4, .bytes [0, 0, 0, 0]]]]) := by rfl
/-- `HEL = 255` (size 2048, formerly 0) is rejected, also inside an IPv6 packet naming hop-by-hop as next header -/
example : PHopByHop.unmarshal PHopByHop.zero (Slice.exact [0, 255]) = .err := by rfl
example : PIPv6.unmarshal PIPv6.zero (Slice.exact (zeros 40 ++ [0, 255])) = .err := by rfl
/-- the receiver hypothesis of `C08_LLDP_total` cannot be dropped: a nil receiver / a nil Chassis TLV panics, and — now that
    Write decodes the TTL TLV too — so does a nil TTL TLV once the chassis and port TLVs have been decoded (model only:
    in Go the three TLVs are struct-valued fields and cannot be nil) -/
example : PLLDP.write .nil [] = .panic := rfl
example : PLLDP.write (.obj "p.LLDP" [.nil, .nil, .nil]) [] = .panic := rfl
example : PLLDP.write (.obj "p.LLDP" [.obj "p.ChassisTLV" [.num 0, .num 0, .num 0, .bytes []],
    .obj "p.PortTLV" [.num 0, .num 0, .num 0, .bytes []], .nil]) [2, 2, 4, 9, 4, 4, 2, 5, 8, 6, 6, 2, 0, 120] = .panic := by rfl
/-- … and it holds of the zero LLDP value of the kind table; a whole frame (chassis, port, TTL = 120 s) is decoded -/
example : Res.Total (PLLDP.write (.obj "p.LLDP" [.obj "p.ChassisTLV" [.num 0, .num 0, .num 0, .bytes []],
    .obj "p.PortTLV" [.num 0, .num 0, .num 0, .bytes []], .obj "p.TTLTLV" [.num 0, .num 0, .num 0]]) [2, 7, 4, 1, 2, 3, 4, 5, 6]) :=
  C08_LLDP_total _ _ _ _ _ _ _ _ _ _ _ _
example : PLLDP.write (.obj "p.LLDP" [.obj "p.ChassisTLV" [.num 0, .num 0, .num 0, .bytes []],
    .obj "p.PortTLV" [.num 0, .num 0, .num 0, .bytes []], .obj "p.TTLTLV" [.num 0, .num 0, .num 0]])
      [2, 2, 4, 9, 4, 4, 2, 5, 8, 6, 6, 2, 0, 120] =
    .ok (.obj "p.LLDP" [.obj "p.ChassisTLV" [.num 1, .num 2, .num 4, .bytes [9, 4]],
      .obj "p.PortTLV" [.num 2, .num 2, .num 5, .bytes [8, 6]], .obj "p.TTLTLV" [.num 3, .num 2, .num 120]], 14) := by rfl

end OFV.Props.C08
