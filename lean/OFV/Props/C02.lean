/-
  C02 — nested lengths, alignment and type codes follow the OpenFlow 1.3 / Nicira wire grammar.
  (i) every type / subtype / class code the library writes is the one the specification assigns (regenerated
  constants against the independent tables); (ii) padding rules: every rounded size is a multiple of 8;
  (iii) builder histories keep the cached lengths in step: Match.Length after ANY sequence of AddField.
  The walk of the implementation's bytes by the independent receiver (Spec.walk) is evaluated by the check on every
  generated API history.
-/
import OFV.Model.All
import OFV.Lemmas.Size
import OFV.Spec.Walk
namespace OFV.Props.C02
open OFV OFV.Go OFV.Model

/-- message type codes (OpenFlow 1.3.5 §7.1) -/
theorem C02_msg_types :
    Gen.openflow13.Type_Hello = 0 ∧ Gen.openflow13.Type_Error = 1 ∧ Gen.openflow13.Type_EchoRequest = 2 ∧
    Gen.openflow13.Type_EchoReply = 3 ∧ Gen.openflow13.Type_Experimenter = 4 ∧ Gen.openflow13.Type_FeaturesRequest = 5 ∧
    Gen.openflow13.Type_FeaturesReply = 6 ∧ Gen.openflow13.Type_GetConfigRequest = 7 ∧
    Gen.openflow13.Type_GetConfigReply = 8 ∧ Gen.openflow13.Type_SetConfig = 9 ∧ Gen.openflow13.Type_PacketIn = 10 ∧
    Gen.openflow13.Type_FlowRemoved = 11 ∧ Gen.openflow13.Type_PortStatus = 12 ∧ Gen.openflow13.Type_PacketOut = 13 ∧
    Gen.openflow13.Type_FlowMod = 14 ∧ Gen.openflow13.Type_GroupMod = 15 ∧ Gen.openflow13.Type_PortMod = 16 ∧
    Gen.openflow13.Type_TableMod = 17 ∧ Gen.openflow13.Type_MultiPartRequest = 18 ∧
    Gen.openflow13.Type_MultiPartReply = 19 ∧ Gen.openflow13.Type_BarrierRequest = 20 ∧
    Gen.openflow13.Type_BarrierReply = 21 ∧ Gen.openflow13.VERSION = 4 := by decide

/-- action type codes (ofp_action_type) and the Nicira vendor id -/
theorem C02_action_types :
    Gen.openflow13.ActionType_Output = 0 ∧ Gen.openflow13.ActionType_CopyTtlOut = 11 ∧
    Gen.openflow13.ActionType_CopyTtlIn = 12 ∧ Gen.openflow13.ActionType_SetMplsTtl = 15 ∧
    Gen.openflow13.ActionType_DecMplsTtl = 16 ∧ Gen.openflow13.ActionType_PushVlan = 17 ∧
    Gen.openflow13.ActionType_PopVlan = 18 ∧ Gen.openflow13.ActionType_PushMpls = 19 ∧
    Gen.openflow13.ActionType_PopMpls = 20 ∧ Gen.openflow13.ActionType_SetQueue = 21 ∧
    Gen.openflow13.ActionType_Group = 22 ∧ Gen.openflow13.ActionType_SetNwTtl = 23 ∧
    Gen.openflow13.ActionType_DecNwTtl = 24 ∧ Gen.openflow13.ActionType_SetField = 25 ∧
    Gen.openflow13.ActionType_PushPbb = 26 ∧ Gen.openflow13.ActionType_PopPbb = 27 ∧
    Gen.openflow13.ActionType_Experimenter = 0xffff ∧ Gen.openflow13.NxExperimenterID = 0x2320 ∧
    Gen.openflow13.NxActionHeaderLength = 10 ∧ Gen.openflow13.ONF_EXPERIMENTER_ID = 0x4f4e4600 := by decide

/-- Nicira action subtypes (nicira-ext.h) -/
theorem C02_nx_subtypes :
    Gen.openflow13.NXAST_RESUBMIT = 1 ∧ Gen.openflow13.NXAST_REG_MOVE = 6 ∧ Gen.openflow13.NXAST_REG_LOAD = 7 ∧
    Gen.openflow13.NXAST_NOTE = 8 ∧ Gen.openflow13.NXAST_RESUBMIT_TABLE = 14 ∧ Gen.openflow13.NXAST_OUTPUT_REG = 15 ∧
    Gen.openflow13.NXAST_LEARN = 16 ∧ Gen.openflow13.NXAST_DEC_TTL = 18 ∧ Gen.openflow13.NXAST_CONTROLLER = 20 ∧
    Gen.openflow13.NXAST_DEC_TTL_CNT_IDS = 21 ∧ Gen.openflow13.NXAST_OUTPUT_REG2 = 32 ∧
    Gen.openflow13.NXAST_REG_LOAD2 = 33 ∧ Gen.openflow13.NXAST_CONJUNCTION = 34 ∧ Gen.openflow13.NXAST_CT = 35 ∧
    Gen.openflow13.NXAST_NAT = 36 ∧ Gen.openflow13.NXAST_CT_CLEAR = 43 ∧ Gen.openflow13.NXAST_CT_RESUBMIT = 44 := by decide

/-- instruction types, OXM classes, match type, Nicira / ONF message types -/
theorem C02_other_codes :
    Gen.openflow13.InstrType_GOTO_TABLE = 1 ∧ Gen.openflow13.InstrType_WRITE_METADATA = 2 ∧
    Gen.openflow13.InstrType_WRITE_ACTIONS = 3 ∧ Gen.openflow13.InstrType_APPLY_ACTIONS = 4 ∧
    Gen.openflow13.InstrType_CLEAR_ACTIONS = 5 ∧ Gen.openflow13.InstrType_METER = 6 ∧
    Gen.openflow13.OXM_CLASS_NXM_0 = 0 ∧ Gen.openflow13.OXM_CLASS_NXM_1 = 1 ∧
    Gen.openflow13.OXM_CLASS_OPENFLOW_BASIC = 0x8000 ∧ Gen.openflow13.OXM_CLASS_EXPERIMENTER = 0xffff ∧
    Gen.openflow13.MatchType_OXM = 1 ∧ Gen.openflow13.Type_SetControllerId = 20 ∧
    Gen.openflow13.Type_TlvTableMod = 24 ∧ Gen.openflow13.Type_TlvTableRequest = 25 ∧
    Gen.openflow13.Type_TlvTableReply = 26 ∧ Gen.openflow13.Type_BundleCtrl = 2300 ∧
    Gen.openflow13.Type_BundleAdd = 2301 ∧ Gen.common.HelloElemType_VersionBitmap = 1 := by decide

/-- every size the library rounds up is a multiple of 8 (uint16 arithmetic as in the code) -/
theorem round8_aligned (n : UInt16) : (round8 n).toNat % 8 = 0 := by
  unfold round8
  rw [UInt16.toNat_mul, UInt16.toNat_div]
  have : (8 : UInt16).toNat = 8 := rfl
  rw [this]
  have hlt := (n + 7).toNat_lt
  have h2 : (n + 7).toNat / 8 * 8 < 65536 := by omega
  rw [Nat.mod_eq_of_lt h2]
  omega

/-- … and is the least multiple of 8 that holds the content, when nothing wraps -/
theorem round8_ge (n : UInt16) (h : n.toNat + 7 < 65536) : n.toNat ≤ (round8 n).toNat ∧ (round8 n).toNat < n.toNat + 8 := by
  unfold round8
  rw [UInt16.toNat_mul, UInt16.toNat_div, UInt16.toNat_add]
  have h8 : (8 : UInt16).toNat = 8 := rfl
  have h7 : (7 : UInt16).toNat = 7 := rfl
  rw [h8, h7, Nat.mod_eq_of_lt h]
  have h2 : (n.toNat + 7) / 8 * 8 < 65536 := by omega
  rw [Nat.mod_eq_of_lt h2]
  omega

/-- builder invariant of a match: Type = OXM and the cached Length = 4 + Σ sizes of the fields added so far -/
def MatchWF (m : V) : Prop :=
  ∃ fs : List V, ∃ ls : List UInt16, m = .obj "Match" [.num Gen.openflow13.MatchType_OXM, V.u16 (4 + sum16 ls), .list fs] ∧
    ls.length = fs.length ∧ ∀ i, (h : i < fs.length) → ∃ f', MatchField.lenM fs[i] = .ok (ls[i]?.getD 0, f')

theorem matchWF_new : MatchWF Match.new :=
  ⟨[], [], by simp [Match.new, V.u16, sum16], rfl, by intro i h; simp at h⟩

theorem sum16_append (a b : List UInt16) : sum16 (a ++ b) = sum16 a + sum16 b := by
  induction a with
  | nil => simp [sum16_nil]
  | cons x xs ih => simp only [List.cons_append, sum16_cons, ih, UInt16.add_assoc]

/-- the size function of a payload does not modify it -/
theorem payload_len_pure (v : V) (l : UInt16) (v1 : V) (h : MatchPayload.lenM v = .ok (l, v1)) : v1 = v := by
  unfold MatchPayload.lenM at h
  split at h
  all_goals first
    | exact absurd h (by simp)
    | (
    simp only [InPortField.lenM, EthDstField.lenM, EthSrcField.lenM, EthTypeField.lenM, VlanIdField.lenM, MplsLabelField.lenM, MplsBosField.lenM, Ipv4SrcField.lenM, Ipv4DstField.lenM, Ipv6SrcField.lenM, Ipv6DstField.lenM, IPv6FlowLabelField.lenM, IpProtoField.lenM, IpDscpField.lenM, TunnelIdField.lenM, MetadataField.lenM, PortField.lenM, TcpFlagsField.lenM, ArpOperField.lenM, TunnelIpv4SrcField.lenM, TunnelIpv4DstField.lenM, ArpXHaField.lenM, ArpXPaField.lenM, ActsetOutputField.lenM, IcmpTypeField.lenM, IcmpCodeField.lenM, Uint16Message.lenM, Uint32Message.lenM, ByteArrayField.lenM, CTLabel.lenM] at h
    try split at h
    all_goals (try (exact absurd h (by simp)))
    all_goals (exact (same_ok _ _ _ _ h).2))

/-- MatchField.Len() does not modify the field -/
theorem matchField_lenM_pure (f : V) (l : UInt16) (f' : V) (h : MatchField.lenM f = .ok (l, f')) : f' = f := by
  unfold MatchField.lenM at h
  split at h
  · rename_i c fld hm ln eid val mask
    obtain ⟨⟨lv, val'⟩, hv, h2⟩ := bind_ok_inv _ _ _ h
    clear h
    have e1 := payload_len_pure _ _ _ hv
    subst e1
    by_cases hm0 : hm = 0
    · subst hm0
      simp only [if_true] at h2
      simp at h2; exact h2.2.symm
    · simp only [hm0, if_false] at h2
      obtain ⟨⟨lm, mask'⟩, hmk, h3⟩ := bind_ok_inv _ _ _ h2
      clear h2
      have e2 := payload_len_pure _ _ _ hmk
      subst e2
      simp at h3; exact h3.2.symm
  · exact absurd h (by simp)

theorem n16_toNat (x : UInt16) : n16 x.toNat = x := by
  apply UInt16.toNat_inj.mp
  simp [n16]

/-- C02 history: after ANY sequence of AddField calls the cached length is header + Σ field sizes -/
theorem C02_addField_inv (m f : V) (m' : V) (hwf : MatchWF m) (h : Match.addField m f = .ok m') : MatchWF m' := by
  obtain ⟨fs, ls, rfl, hlen, hall⟩ := hwf
  unfold Match.addField at h
  simp only [V.u16] at h
  obtain ⟨⟨l, f'⟩, hl, h2⟩ := bind_ok_inv _ _ _ h
  clear h
  have ef := matchField_lenM_pure _ _ _ hl
  subst ef
  simp only [Res.pure_eq, Res.ok.injEq] at h2
  subst h2
  refine ⟨fs ++ [f'], ls ++ [l], ?_, by simp [hlen], ?_⟩
  · simp only [V.u16, n16_toNat, sum16_append, sum16_cons, sum16_nil]
    congr 3
    simp [UInt16.add_assoc]
  · intro i hi
    by_cases hlt : i < fs.length
    · obtain ⟨g, hg⟩ := hall i hlt
      refine ⟨g, ?_⟩
      rw [List.getElem_append_left hlt, List.getElem?_append_left (by omega)]
      exact hg
    · have hi' : i = fs.length := by simp at hi; omega
      subst hi'
      refine ⟨f', ?_⟩
      simp [hlen.symm, hl]

/-- … hence for every history starting from NewMatch() -/
theorem C02_match_history (fs : List V) (m : V)
    (h : fs.foldlM (fun acc f => Match.addField acc f) Match.new = .ok m) : MatchWF m := by
  revert h
  suffices ∀ m0, MatchWF m0 → fs.foldlM (fun acc f => Match.addField acc f) m0 = .ok m → MatchWF m from
    this _ matchWF_new
  induction fs with
  | nil => intro m0 hw h0; simp [List.foldlM] at h0; cases h0; exact hw
  | cons f fs ih =>
    intro m0 hw h0
    simp only [List.foldlM] at h0
    obtain ⟨m1, h1, h2⟩ := bind_ok_inv _ _ _ h0
    exact ih m1 (C02_addField_inv m0 f m1 hw h1) h2

end OFV.Props.C02
