/-
  C17 — the generic match-field builder places value and mask correctly or reports an error.
  Statements are about Model.MFG.NewMatchField (the code after repair 29c7516), over unbounded integers.
-/
import OFV.Model.MatchFieldGen
namespace OFV.Props.C17
open OFV OFV.Go OFV.Model OFV.Model.MFG

theorem pow256 (L : Nat) : 256 ^ L = 2 ^ (8 * L) := by
  rw [show (256 : Nat) = 2 ^ 8 from rfl, ← Nat.pow_mul]

theorem big2byte_ok (i L : Nat) (h : bitLen i ≤ 8 * L) :
    big2byte i L = .ok (.obj "ByteArrayField" [.bytes (beN L i), .num L]) := by
  have : i < 256 ^ L := by rw [pow256]; exact (bitLen_le_iff i (8 * L)).mp h
  simp [big2byte, this]

theorem finishMasked_total (mk : V → V → V) (L v m : Nat) :
    finishMasked mk L v m ≠ .panic ∧ finishMasked mk L v m ≠ .spin := by
  unfold finishMasked
  split
  · exact ⟨by simp, by simp⟩
  · split
    · exact ⟨by simp, by simp⟩
    · rw [big2byte_ok _ _ (by omega)]
      simp only []
      split
      · exact ⟨by simp, by simp⟩
      · rw [big2byte_ok _ _ (by omega)]
        exact ⟨by simp, by simp⟩

theorem finishPlain_total (mk : V → V → V) (L v : Nat) :
    finishPlain mk L v ≠ .panic ∧ finishPlain mk L v ≠ .spin := by
  unfold finishPlain
  split
  · exact ⟨by simp, by simp⟩
  · rw [big2byte_ok _ _ (by omega)]
    exact ⟨by simp, by simp⟩

/-- NEVER a panic and never an endless loop, for any name, any integer (also negative), any mask arguments -/
theorem C17_total (name : String) (data : Int) (mask : List Int) :
    NewMatchField name data mask ≠ .panic ∧ NewMatchField name data mask ≠ .spin := by
  unfold NewMatchField
  split
  · exact ⟨by simp, by simp⟩
  · split
    · exact ⟨by simp, by simp⟩
    · split
      · exact ⟨by simp, by simp⟩
      · split
        · exact finishPlain_total _ _ _
        · simp only []
          split
          · exact ⟨by simp, by simp⟩
          · exact finishMasked_total _ _ _ _

theorem land_window (v s w : Nat) (hv : v < 2 ^ w) : (v * 2 ^ s) &&& rangeMask s w = v * 2 ^ s := by
  unfold rangeMask
  rw [← Nat.shiftLeft_eq, ← Nat.shiftLeft_eq, ← Nat.shiftLeft_and_distrib, Nat.and_two_pow_sub_one_eq_mod,
    Nat.mod_eq_of_lt hv]

theorem window_lt (v s w k : Nat) (hv : v < 2 ^ w) (hk : s + w ≤ k) : v * 2 ^ s < 2 ^ k := by
  calc v * 2 ^ s < 2 ^ w * 2 ^ s := Nat.mul_lt_mul_of_pos_right hv (Nat.pow_pos (by omega))
    _ = 2 ^ (w + s) := (Nat.pow_add 2 w s).symm
    _ ≤ 2 ^ k := Nat.pow_le_pow_right (by omega) (by omega)

theorem rangeMask_lt (s w k : Nat) (hw : 0 < w) (hk : s + w ≤ k) : rangeMask s w < 2 ^ k := by
  unfold rangeMask
  exact window_lt (2 ^ w - 1) s w k (by have := Nat.pow_pos (a := 2) (n := w) (by omega); omega) hk

/-- C17 main case: value `v` placed at window (offset `s`, width `w`) of a field of `L` bytes:
    the value bytes are v·2^s, the mask bytes are exactly the window, the value has no bit outside the mask,
    both are `L` bytes long, the header says "masked, 2L payload bytes" -/
theorem C17_window (name : String) (hdr : Gen.openflow13.MatchField) (L s w v : Nat)
    (hf : FindFieldHeaderByName name true = some hdr) (hL : hdr.Length.toNat = 2 * L)
    (hwin : s + w ≤ 8 * L) (hw : 0 < w) (hv : v < 2 ^ w) :
    NewMatchField name ((v : Int)) [(s : Int), (w : Int)] =
      .ok (.obj "MatchField" [V.u16 hdr.Class, V.u8 hdr.Field, V.bool hdr.HasMask, V.u8 hdr.Length, .num 0,
        .obj "ByteArrayField" [.bytes (beN L (v * 2 ^ s)), .num L],
        .obj "ByteArrayField" [.bytes (beN L ((2 ^ w - 1) * 2 ^ s)), .num L]]) ∧
    (v * 2 ^ s) &&& ((2 ^ w - 1) * 2 ^ s) = v * 2 ^ s ∧
    (beN L (v * 2 ^ s)).length = L ∧ (beN L ((2 ^ w - 1) * 2 ^ s)).length = L := by
  have hhalf : (hdr.Length / 2).toNat = L := by
    rw [UInt8.toNat_div]; simp; omega
  have hland := land_window v s w hv
  have hvlt := window_lt v s w (8 * L) hv hwin
  have hmlt := rangeMask_lt s w (8 * L) hw hwin
  refine ⟨?_, by simpa [rangeMask] using hland, by simp, by simp⟩
  unfold NewMatchField
  simp only [List.length_cons, List.length_nil, show ¬ (0 + 1 + 1 > 3) by omega, if_false, show (0 + 1 + 1 > 0) by omega,
    decide_true, hf]
  have hneg : ¬ ((v : Int) < 0) := by omega
  simp only [hneg, if_false, hhalf]
  have hany : List.any [(s : Int), (w : Int)] (fun m => decide (m < 0 ∨ m > 8 * (L : Int))) = false := by
    simp only [List.any_cons, List.any_nil, Bool.or_false, Bool.or_eq_false_iff, decide_eq_false_iff_not]
    constructor <;> omega
  simp only [hany, Bool.false_eq_true, if_false, shifts, if_true]
  simp only [Int.toNat_natCast s, Int.toNat_natCast w,
    Int.toNat_natCast v]
  have hb1 : ¬ (bitLen (rangeMask s w) > 8 * L) := by
    have := (bitLen_le_iff (rangeMask s w) (8 * L)).mpr hmlt; omega
  have hb2 : ¬ (bitLen (v * 2 ^ s) > 8 * L) := by
    have := (bitLen_le_iff (v * 2 ^ s) (8 * L)).mpr hvlt; omega
  unfold finishMasked
  simp only [hland, ne_eq, not_true_eq_false, if_false, hb1, hb2]
  rw [big2byte_ok _ _ (by omega), big2byte_ok _ _ (by omega)]
  simp [rangeMask]

/-- no mask: the value right-aligned in `L` bytes, or an error when it does not fit or is negative -/
theorem C17_nomask (name : String) (hdr : Gen.openflow13.MatchField) (v : Nat)
    (hf : FindFieldHeaderByName name false = some hdr) (hv : v < 2 ^ (8 * hdr.Length.toNat)) :
    NewMatchField name ((v : Int)) [] =
      .ok (.obj "MatchField" [V.u16 hdr.Class, V.u8 hdr.Field, V.bool hdr.HasMask, V.u8 hdr.Length, .num 0,
        .obj "ByteArrayField" [.bytes (beN hdr.Length.toNat v), .num hdr.Length.toNat], .nil]) := by
  unfold NewMatchField
  have hneg : ¬ ((v : Int) < 0) := by omega
  have hb : ¬ (bitLen v > 8 * hdr.Length.toNat) := by
    have := (bitLen_le_iff v (8 * hdr.Length.toNat)).mpr hv; omega
  simp only [List.length_nil, show ¬ (0 > 3) by omega, if_false, show ¬ (0 > 0) by omega, decide_false, hf, hneg,
    Int.toNat_natCast v]
  unfold finishPlain
  simp only [hb, if_false]
  rw [big2byte_ok _ _ (by omega)]

theorem C17_reject_too_wide (name : String) (hdr : Gen.openflow13.MatchField) (v : Nat)
    (hf : FindFieldHeaderByName name false = some hdr) (hv : 2 ^ (8 * hdr.Length.toNat) ≤ v) :
    NewMatchField name ((v : Int)) [] = .err := by
  unfold NewMatchField
  have hneg : ¬ ((v : Int) < 0) := by omega
  have hb : bitLen v > 8 * hdr.Length.toNat := by
    have := (bitLen_le_iff v (8 * hdr.Length.toNat)); omega
  simp only [List.length_nil, show ¬ (0 > 3) by omega, if_false, show ¬ (0 > 0) by omega, decide_false, hf, hneg,
    Int.toNat_natCast v]
  unfold finishPlain
  simp only [hb, if_true]

theorem C17_reject_negative (name : String) (v : Int) (hv : v < 0) (mask : List Int) :
    NewMatchField name v mask = .err := by
  unfold NewMatchField
  split
  · rfl
  · split
    · rfl
    · simp [hv]

theorem C17_reject_unknown (name : String) (v : Int) (mask : List Int)
    (h : FindFieldHeaderByName name (decide (mask.length > 0)) = none) : NewMatchField name v mask = .err := by
  unfold NewMatchField
  split
  · rfl
  · simp [h]

theorem C17_reject_many_args (name : String) (v : Int) (mask : List Int) (h : mask.length > 3) :
    NewMatchField name v mask = .err := by
  simp [NewMatchField, h]

theorem C17_reject_negative_arg (name : String) (v : Int) (mask : List Int) (m : Int) (hm : m ∈ mask) (hneg : m < 0) :
    NewMatchField name v mask = .err := by
  unfold NewMatchField
  by_cases h3 : mask.length > 3
  · simp [h3]
  · simp only [h3, if_false]
    cases hf : FindFieldHeaderByName name (decide (mask.length > 0)) with
    | none => rfl
    | some hdr =>
      simp only []
      by_cases hd : v < 0
      · simp [hd]
      · simp only [hd, if_false]
        cases mask with
        | nil => simp at hm
        | cons m0 rest =>
          simp only []
          have : List.any (m0 :: rest) (fun m => decide (m < 0 ∨ m > 8 * ((hdr.Length / 2).toNat : Int))) = true := by
            rw [List.any_eq_true]
            exact ⟨m, hm, by simp [hneg]⟩
          simp only [this, if_true]

/-- a window reaching beyond the field, or a value wider than its window, is an error -/
theorem C17_reject_window (name : String) (hdr : Gen.openflow13.MatchField) (L s w v : Nat)
    (hf : FindFieldHeaderByName name true = some hdr) (hL : hdr.Length.toNat = 2 * L)
    (hbad : s + w > 8 * L ∨ v ≥ 2 ^ w) (hw : 0 < w) :
    NewMatchField name ((v : Int)) [(s : Int), (w : Int)] = .err := by
  have hres := (C17_total name ((v : Int)) [(s : Int), (w : Int)])
  -- the function is total; show the success branch is impossible
  cases hr : NewMatchField name ((v : Int)) [(s : Int), (w : Int)] with
  | err => rfl
  | panic => exact absurd hr hres.1
  | spin => exact absurd hr hres.2
  | ok f =>
    exfalso
    have hhalf : (hdr.Length / 2).toNat = L := by
      rw [UInt8.toNat_div]; simp; omega
    unfold NewMatchField at hr
    simp only [List.length_cons, List.length_nil, show ¬ (0 + 1 + 1 > 3) by omega, if_false,
      show (0 + 1 + 1 > 0) by omega, decide_true, hf, show ¬ ((v : Int) < 0) by omega, hhalf] at hr
    split at hr
    · exact absurd hr (by simp)
    · simp only [Int.toNat_natCast s, Int.toNat_natCast w,
        Int.toNat_natCast v, shifts, if_true] at hr
      unfold finishMasked at hr
      split at hr
      · exact absurd hr (by simp)
      · next hland =>
        split at hr
        · exact absurd hr (by simp)
        · next hb1 =>
          -- mask fits: s + w ≤ 8L
          have hm : rangeMask s w < 2 ^ (8 * L) := (bitLen_le_iff _ _).mp (by omega)
          have hsw : s + w ≤ 8 * L := by
            apply Classical.byContradiction
            intro hc
            have h2 : 2 ^ (8 * L) ≤ rangeMask s w := by
              unfold rangeMask
              have h3 : 2 ^ (8 * L) ≤ 2 ^ (w - 1) * 2 ^ s := by
                rw [← Nat.pow_add]; exact Nat.pow_le_pow_right (by omega) (by omega)
              have h4 : 2 ^ (w - 1) ≤ 2 ^ w - 1 := by
                have : 2 ^ w = 2 * 2 ^ (w - 1) := by
                  rw [← Nat.pow_succ']; congr 1; omega
                have := Nat.pow_pos (a := 2) (n := w - 1) (by omega)
                omega
              exact Nat.le_trans h3 (Nat.mul_le_mul_right _ h4)
            omega
          rcases hbad with hb | hb
          · omega
          · -- value wider than the window: v·2^s has a bit outside the mask
            apply hland
            intro heq
            have h5 : (v * 2 ^ s) &&& rangeMask s w = (v % 2 ^ w) * 2 ^ s := by
              unfold rangeMask
              rw [← Nat.shiftLeft_eq, ← Nat.shiftLeft_eq, ← Nat.shiftLeft_and_distrib,
                Nat.and_two_pow_sub_one_eq_mod, Nat.shiftLeft_eq]
            rw [h5] at heq
            have h6 : v % 2 ^ w = v := Nat.eq_of_mul_eq_mul_right (Nat.pow_pos (by omega)) heq
            have := Nat.mod_lt v (Nat.pow_pos (a := 2) (n := w) (by omega))
            omega

-- non-vacuity: the hypotheses of C17_window are satisfiable (reg0, window (4,8), value 0xab)
example : ∃ f, NewMatchField "NXM_NX_REG0" 171 [4, 8] = .ok f :=
  ⟨_, (C17_window "NXM_NX_REG0" { Class := 1, Field := 0, HasMask := true, Length := 8 } 4 4 8 171
        (by decide +kernel) rfl (by omega) (by omega) (by omega)).1⟩

end OFV.Props.C17
