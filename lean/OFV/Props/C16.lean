/-
  C16 — bit-range helpers: mask, offset and width agree for every range.
  All statements are about the definitions REGENERATED from /repo (OFV.Gen.openflow13).
-/
import OFV.Gen.Pure
import OFV.Spec.Bits
namespace OFV.Props.C16
open OFV OFV.Gen.openflow13

/-- Go `int` argument for a small natural number -/
abbrev I (n : Nat) : Int64 := Int64.ofNat n

/-- every range 0 ≤ s ≤ e ≤ 31 (528 of them): the mask is exactly (2^(e-s+1)-1)·2^s.  Kernel evaluation. -/
theorem C16_mask : ∀ s e : Fin 32, s ≤ e →
    (NewNXRange (I s) (I e)).ToUint32Mask = Spec.bits s e := by
  decide +kernel

/-- the same, bit by bit: bit i of the mask is set iff s ≤ i ≤ e -/
theorem C16_mask_bits (s e : Fin 32) (h : s ≤ e) (i : Nat) :
    ((NewNXRange (I s) (I e)).ToUint32Mask).toNat.testBit i = (decide (s.val ≤ i) && decide (i ≤ e.val)) := by
  rw [C16_mask s e h]
  exact Spec.bits_testBit s e h (by omega) i

/-- the range described by offset and width is the same range -/
theorem C16_mask_ofs_nbits : ∀ s e : Fin 32, s ≤ e →
    (NewNXRangeByOfsNBits (I s) (I (e - s + 1))).ToUint32Mask = Spec.bits s e := by
  decide +kernel

theorem enc_toNat (ofs n : UInt16) (h1 : ofs.toNat < 1024) (h2 : 1 ≤ n.toNat) (h3 : n.toNat ≤ 64) :
    (encodeOfsNbits ofs n).toNat = Spec.ofsNbits ofs.toNat n.toNat := by
  unfold encodeOfsNbits Spec.ofsNbits Go.shl16
  have hs : (ofs <<< 6).toNat = ofs.toNat <<< 6 := by
    simp [UInt16.toNat_shiftLeft, Nat.shiftLeft_eq]; omega
  have hn : (n - 1).toNat = n.toNat - 1 := by
    rw [UInt16.toNat_sub_of_le]
    · rfl
    · show (1 : UInt16).toNat ≤ n.toNat
      simpa using h2
  simp only [show (6 : Nat) < 16 by omega, if_true]
  rw [UInt16.toNat_or]
  have : (UInt16.ofNat 6) = 6 := rfl
  rw [this, hs, hn, ← Nat.shiftLeft_add_eq_or_of_lt (by omega), Nat.shiftLeft_eq]

/-- all (offset, width) with offset < 1024, 1 ≤ width ≤ 64: offset and width are recovered exactly and
    sit in the upper 10 / lower 6 bits -/
theorem C16_ofsnbits (ofs n : UInt16) (h1 : ofs.toNat < 1024) (h2 : 1 ≤ n.toNat) (h3 : n.toNat ≤ 64) :
    decodeOfs (encodeOfsNbits ofs n) = ofs ∧ decodeNbits (encodeOfsNbits ofs n) = n ∧
    (encodeOfsNbits ofs n).toNat / 64 = ofs.toNat ∧ (encodeOfsNbits ofs n).toNat % 64 = n.toNat - 1 := by
  have he := enc_toNat ofs n h1 h2 h3
  unfold Spec.ofsNbits at he
  refine ⟨?_, ?_, ?_, ?_⟩
  · apply UInt16.toNat_inj.mp
    simp [decodeOfs, Go.shr16, UInt16.toNat_shiftRight, Nat.shiftRight_eq_div_pow, he]; omega
  · apply UInt16.toNat_inj.mp
    have : ((encodeOfsNbits ofs n) &&& 63).toNat = (encodeOfsNbits ofs n).toNat % 64 := by
      rw [UInt16.toNat_and]; exact Nat.and_two_pow_sub_one_eq_mod _ 6
    simp [decodeNbits, UInt16.toNat_add, this, he]; omega
  · omega
  · omega

/-- describing the range by (first, last) gives the same word as by (offset, width) -/
theorem C16_startEnd (s e : UInt16) (h1 : s.toNat < 1024) (h2 : s.toNat ≤ e.toNat) (h3 : e.toNat - s.toNat < 64) :
    encodeOfsNbitsStartEnd s e = encodeOfsNbits s (e - s + 1) := by
  apply UInt16.toNat_inj.mp
  have hsub : (e - s).toNat = e.toNat - s.toNat := UInt16.toNat_sub_of_le _ _ (by simpa [UInt16.le_iff_toNat_le] using h2)
  have hn : (e - s + 1).toNat = e.toNat - s.toNat + 1 := by
    rw [UInt16.toNat_add, hsub]; simp; omega
  rw [enc_toNat s (e - s + 1) h1 (by omega) (by omega), hn]
  unfold encodeOfsNbitsStartEnd Go.shl16 Spec.ofsNbits
  have hs : (s <<< 6).toNat = s.toNat * 64 := by
    simp [UInt16.toNat_shiftLeft, Nat.shiftLeft_eq]; omega
  simp only [show (6 : Nat) < 16 by omega, if_true]
  have : (UInt16.ofNat 6) = 6 := rfl
  rw [this, UInt16.toNat_add, hs, hsub]
  omega

/-- the two range constructors agree (Go `int` arithmetic, any values) -/
theorem C16_agree (s e : Int64) : NewNXRangeByOfsNBits s (e - s + 1) = NewNXRange s e := by
  unfold NewNXRangeByOfsNBits NewNXRange
  congr 1
  apply Int64.toBitVec_inj.mp
  simp only [Int64.toBitVec_add, Int64.toBitVec_sub]
  bv_omega

theorem i64_to16 (s : Nat) : (Int64.ofNat s).toUInt64.toUInt16 = UInt16.ofNat s := by
  apply UInt16.toNat_inj.mp
  simp

/-- accessors of a range built from (first, last) -/
theorem C16_accessors (s e : Nat) (h : s ≤ e) (he : e < 1024) (hw : e - s < 64) :
    (NewNXRange (I s) (I e)).GetOfs = UInt16.ofNat s ∧
    (NewNXRange (I s) (I e)).GetNbits = UInt16.ofNat (e - s + 1) ∧
    (NewNXRange (I s) (I e)).ToOfsBits = encodeOfsNbits (UInt16.ofNat s) (UInt16.ofNat (e - s + 1)) ∧
    (NewNXRange (I s) (I e)).ToOfsBits.toNat = Spec.ofsNbits s (e - s + 1) := by
  have hs16 : (UInt16.ofNat s).toNat = s := by simp; omega
  have he16 : (UInt16.ofNat e).toNat = e := by simp; omega
  have hn16 : (UInt16.ofNat (e - s + 1)).toNat = e - s + 1 := by simp; omega
  have h3 : (NewNXRange (I s) (I e)).ToOfsBits = encodeOfsNbits (UInt16.ofNat s) (UInt16.ofNat (e - s + 1)) := by
    unfold NXRange.ToOfsBits NewNXRange I
    simp only [i64_to16]
    rw [C16_startEnd _ _ (by omega) (by omega) (by omega)]
    congr 1
    apply UInt16.toNat_inj.mp
    rw [UInt16.toNat_add, UInt16.toNat_sub_of_le _ _ (by simp [UInt16.le_iff_toNat_le]; omega), hn16, hs16, he16]
    simp; omega
  refine ⟨?_, ?_, h3, ?_⟩
  · simp [NXRange.GetOfs, NewNXRange, I, i64_to16]
  · unfold NXRange.GetNbits NewNXRange I
    simp only []
    rw [← Int64.ofNat_sub _ _ h, show (1 : Int64) = Int64.ofNat 1 from rfl, ← Int64.ofNat_add, i64_to16]
  · rw [h3, enc_toNat _ _ (by omega) (by omega) (by omega), hs16, hn16]

example : (NewNXRange 4 11).ToUint32Mask = 0x00000ff0 ∧ (NewNXRange 0 0).ToUint32Mask = 1 ∧
    (NewNXRange 0 31).ToUint32Mask = 0xffffffff ∧ encodeOfsNbits 16 16 = 0x040f := by decide

end OFV.Props.C16
