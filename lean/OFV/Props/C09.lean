/-
  C09 — packet headers (Go package `protocol`) round-trip; bit-fields stay in lane; payload demux is right.

  1. LANE theorems (`lane_*`): for ALL in-range field values, unpacking the packed byte/word gives back every field
     exactly, so no sub-byte field disturbs its neighbours: VLAN PCP/DEI/VID (`lane_vlan_tci`), IPv4 version/IHL,
     DSCP/ECN, flags/fragment offset, IPv6 version/class/flow label (spread over the first four bytes), TCP data offset
     and code bits, IPv6 fragment offset/more flag, IGMPv3 S flag/QRV.  The range hypotheses are necessary
     (`lane_*_needs_range`: the Go encoders add/shift without masking, so an out-of-range field spills into its
     neighbour; only TCP masks, `lane_tcp_masks`).  No lane identity is false for in-range values.

  2. ROUND-TRIP theorems (`*_roundtrip`).  For a well-formed value `v` of a header kind — `K.WFv v`, an explicit decidable
     predicate: every numeric field within its bit width, byte-string fields of the length the wire format gives them,
     the length/count fields consistent with the parts present, fields that are not on the wire at their zero value —
     `RoundTrip k v` says: `MarshalBinary` succeeds with bytes `bs` and leaves `v` unchanged, `Len()` reports exactly
     `bs.length`, and `UnmarshalBinary` on a fresh `new(K)` given `bs` (with arbitrary spare capacity behind the slice)
     gives back exactly `v`; hence re-encoding reproduces `bs` (`RoundTrip.reencode`).  `RoundTripPrefix` (fixed-size
     kinds) adds: arbitrary trailing bytes inside the slice are ignored, i.e. exactly `Len()` bytes are consumed.
       leaf kinds   VLAN, ARP, ICMP, UDP, TCP, FragmentHeader, Option, IGMPv1or2, RoutingHeader, u.Buffer
       lists        HopByHopHeader (options: one-byte Pad1 options — type 0, `Length` 0 and no data, since nothing but the
                    type byte reaches the wire, `option_pad1_carries_no_data` — and `2 + Length`-byte options mixed in
                    any order), IGMPv3Query (sources), IGMPv3GroupRecord (sources + aux words),
                    IGMPv3MembershipReport (group records)
       containers   IPv4 (options; ICMP / UDP / opaque payload), IPv6 (any chain of hop-by-hop / routing / fragment headers
                    that the next-header values describe, `chain_lemma`; ICMPv6 / UDP / opaque payload), Ethernet
                    (untagged or 802.1Q-tagged; IPv4 / IPv6 / ARP / opaque payload) — all at any nesting depth
     DEFECT witness `ethernet_priority_tag_lost`: the Ethernet encoder emits the 802.1Q tag only when the VLAN id is
     non-zero, so a priority-tagged frame (id 0, priority 5 — every field in range) is encoded without its tag and does
     not round-trip (hence `Ethernet.WFv` demands a non-zero id for tagged frames).  Two more restrictions the code
     imposes are visible in the predicates: an ARP value must have HWLength 6 / ProtoLength 4 (the decoder always builds
     6- and 4-byte address arrays), and fields that never reach the wire (Ethernet.Delimiter, IGMPv3 Reserved fields) must
     be 0.  TCP (protocol 6) is not demultiplexed by the IPv4 / IPv6 decoders: it comes back as an opaque `u.Buffer`.

  3. DEMUX theorems (`ethernet_demux`, `ipv4_demux`, `ipv6_demux`): whenever `Ethernet/IPv4/IPv6.UnmarshalBinary`
     succeeds, the payload was decoded from the bytes behind the header by the decoder — and therefore has the kind — that
     the ethertype found after an optional 0x8100 tag / the IPv4 protocol number / the last next-header value of the IPv6
     extension-header chain (`Chain`: hop-by-hop 0, routing 43, fragment 44 are followed) selects.

  Helper lemmas: `OFV.Lemmas.LaneBits`, `OFV.Lemmas.RoundTripCore`, `OFV.Lemmas.RoundTripProto`.
-/
import OFV.Model.All
import OFV.Lemmas.Size
import OFV.Lemmas.Read
import OFV.Lemmas.LaneBits
import OFV.Lemmas.RoundTripCore
import OFV.Lemmas.RoundTripProto
namespace OFV.Props.C09
open OFV OFV.Go OFV.Model OFV.Lemmas.Lane OFV.Lemmas.RT

/-! ## 1. Lane theorems -/


/-- VLAN tag control word: priority (3 bits), DEI (1 bit) and VLAN id (12 bits) each come back exactly. -/
theorem lane_vlan_tci (pcp dei : UInt8) (vid : UInt16) (hp : pcp.toNat < 8) (hd : dei.toNat < 2)
    (hv : vid.toNat < 4096) :
    PVLAN.unpackPCP (PVLAN.packTCI pcp dei vid) = pcp ∧ PVLAN.unpackDEI (PVLAN.packTCI pcp dei vid) = dei
    ∧ PVLAN.unpackVID (PVLAN.packTCI pcp dei vid) = vid := by
  have hpack : (PVLAN.packTCI pcp dei vid).toNat = pcp.toNat * 8192 + dei.toNat * 4096 + vid.toNat := by
    unfold PVLAN.packTCI
    simp only [UInt16.toNat_add, UInt16.toNat_or, UInt16.toNat_shiftLeft, UInt8.toNat_toUInt16, Nat.shiftLeft_eq]
    simp
    omega
  refine ⟨?_, ?_, ?_⟩
  · unfold PVLAN.unpackPCP
    apply UInt8.toNat_inj.mp
    simp only [UInt16.toNat_toUInt8, UInt16.toNat_shiftRight, UInt16.toNat_and, hpack, Nat.shiftRight_and_distrib]
    have : (57344 : UInt16).toNat >>> ((13 : UInt16).toNat % 16) = 2 ^ 3 - 1 := by decide
    rw [this, mask_and, Nat.shiftRight_eq_div_pow]
    have : (13 : UInt16).toNat % 16 = 13 := by decide
    rw [this]
    omega
  · unfold PVLAN.unpackDEI
    apply UInt8.toNat_inj.mp
    simp only [UInt16.toNat_toUInt8, UInt16.toNat_shiftRight, UInt16.toNat_and, hpack, Nat.shiftRight_and_distrib]
    have : (4096 : UInt16).toNat >>> ((12 : UInt16).toNat % 16) = 2 ^ 1 - 1 := by decide
    rw [this, mask_and, Nat.shiftRight_eq_div_pow]
    have : (12 : UInt16).toNat % 16 = 12 := by decide
    rw [this]
    omega
  · unfold PVLAN.unpackVID
    apply UInt16.toNat_inj.mp
    simp only [UInt16.toNat_and, hpack]
    have : (4095 : UInt16).toNat = 2 ^ 12 - 1 := by decide
    rw [this, mask_and]
    omega

/-- IPv4 first byte: version and header length nibbles. -/
theorem lane_ipv4_version_ihl (ver ihl : UInt8) (h1 : ver.toNat < 16) (h2 : ihl.toNat < 16) :
    PIPv4.unpackVersion (PIPv4.packVerIHL ver ihl) = ver ∧ PIPv4.unpackIHL (PIPv4.packVerIHL ver ihl) = ihl :=
  ipv4_verihl ver ihl h1 h2

/-- IPv4 second byte: DSCP (6 bits) and ECN (2 bits). -/
theorem lane_ipv4_dscp_ecn (dscp ecn : UInt8) (h1 : dscp.toNat < 64) (h2 : ecn.toNat < 4) :
    PIPv4.unpackDSCP (PIPv4.packDscpEcn dscp ecn) = dscp ∧ PIPv4.unpackECN (PIPv4.packDscpEcn dscp ecn) = ecn :=
  ipv4_dscpecn dscp ecn h1 h2

/-- IPv4 flags (3 bits) and fragment offset (13 bits). -/
theorem lane_ipv4_flags_frag (flags frag : UInt16) (h1 : flags.toNat < 8) (h2 : frag.toNat < 8192) :
    PIPv4.unpackFlags (PIPv4.packFlagsFrag flags frag) = flags ∧
      PIPv4.unpackFrag (PIPv4.packFlagsFrag flags frag) = frag := by
  have h13 : (13 : UInt16).toNat % 16 = 13 := by decide
  have hpack : (PIPv4.packFlagsFrag flags frag).toNat = flags.toNat * 8192 + frag.toNat := by
    unfold PIPv4.packFlagsFrag
    simp only [UInt16.toNat_add, UInt16.toNat_shiftLeft, Nat.shiftLeft_eq, h13]
    omega
  constructor
  · unfold PIPv4.unpackFlags
    apply UInt16.toNat_inj.mp
    simp only [UInt16.toNat_shiftRight, hpack, Nat.shiftRight_eq_div_pow, h13]
    omega
  · unfold PIPv4.unpackFrag
    apply UInt16.toNat_inj.mp
    simp only [UInt16.toNat_and, hpack]
    have : (8191 : UInt16).toNat = 2 ^ 13 - 1 := by decide
    rw [this, and_mask]
    omega

/-- IPv6 fragment header: fragment offset (13 bits, above two reserved bits) and the more-fragments flag (bit 0). -/
theorem lane_fragment (off : UInt16) (more : Bool) (h : off.toNat < 8192) :
    PFragment.unpackOff (PFragment.packFrag off more) = off ∧
      PFragment.unpackMore (PFragment.packFrag off more) = more := by
  have h3 : (3 : UInt16).toNat % 16 = 3 := by decide
  have hpack : (PFragment.packFrag off more).toNat = off.toNat * 8 + (if more then 1 else 0) := by
    unfold PFragment.packFrag
    cases more
    · simp only [UInt16.toNat_shiftLeft, Nat.shiftLeft_eq, h3, Bool.false_eq_true, if_false]
      omega
    · simp only [if_true, UInt16.toNat_or, UInt16.toNat_shiftLeft, Nat.shiftLeft_eq, h3]
      have h8 : off.toNat * 2 ^ 3 % 2 ^ 16 = off.toNat * 2 ^ 3 := by omega
      have h1 : (1 : UInt16).toNat = 1 := by decide
      rw [h8, h1, or_eq_add 3 off.toNat 1 (by omega)]
  constructor
  · unfold PFragment.unpackOff
    apply UInt16.toNat_inj.mp
    simp only [UInt16.toNat_shiftRight, hpack, Nat.shiftRight_eq_div_pow, h3]
    split <;> omega
  · unfold PFragment.unpackMore
    have : ((PFragment.packFrag off more) &&& 1).toNat = (if more then 1 else 0) := by
      simp only [UInt16.toNat_and, hpack]
      have : (1 : UInt16).toNat = 2 ^ 1 - 1 := by decide
      rw [this, and_mask]
      split <;> omega
    cases more
    · have h0 : (PFragment.packFrag off false) &&& 1 = 0 := UInt16.toNat_inj.mp (by rw [this]; rfl)
      rw [h0]; rfl
    · have h0 : (PFragment.packFrag off true) &&& 1 = 1 := UInt16.toNat_inj.mp (by rw [this]; rfl)
      rw [h0]; rfl

/-- IPv6 first four bytes `b0 b1 lo_hi lo_lo`: the version (4 bits), the traffic class (8 bits, straddling `b0`/`b1`)
    and the flow label (20 bits, straddling `b1` and the low word) all come back exactly; `w` is the 32-bit word the
    decoder reads from `data[0:4]`. -/
theorem lane_ipv6_version_class_flow (ver tc : UInt8) (fl : UInt32) (h1 : ver.toNat < 16) (h2 : fl.toNat < 2 ^ 20) :
    PIPv6.unpackVersion (PIPv6.packB0 ver tc) = ver ∧
    PIPv6.unpackClass (PIPv6.packB0 ver tc) (PIPv6.packB1 tc fl) = tc ∧
    ∀ w, rd32 ([PIPv6.packB0 ver tc, PIPv6.packB1 tc fl] ++ be16 (PIPv6.packLo fl)) = some w →
      PIPv6.unpackFlow w = fl := by
  have hx : ((fl >>> 16).toUInt8).toNat = fl.toNat / 65536 := by
    simp only [UInt32.toNat_toUInt8, UInt32.toNat_shiftRight, Nat.shiftRight_eq_div_pow]
    have : (16 : UInt32).toNat % 32 = 16 := by decide
    rw [this]; omega
  have hb0 := ipv6_b0 ver tc h1
  have hb1 := ipv6_b1 tc ((fl >>> 16).toUInt8) (by rw [hx]; omega)
  refine ⟨hb0.1, ?_, ?_⟩
  · unfold PIPv6.unpackClass
    rw [hb0.2]
    show ((tc >>> (4 : UInt8)) <<< (4 : UInt8)) |||
      ((((tc <<< (4 : UInt8)) &&& (0xf0 : UInt8)) ||| (fl >>> 16).toUInt8) >>> (4 : UInt8)) = tc
    rw [hb1.1]
    exact nibbles tc
  · intro w hw
    simp only [be16, rd32, List.cons_append, List.nil_append, Option.some.injEq] at hw
    subst hw
    have hlow : (PIPv6.packB1 tc fl).toNat % 16 = fl.toNat / 65536 := by
      have := congrArg UInt8.toNat hb1.2
      rw [UInt8.toNat_and, hx] at this
      have h15 : (15 : UInt8).toNat = 2 ^ 4 - 1 := by decide
      rw [h15, and_mask] at this
      exact this
    apply UInt32.toNat_inj.mp
    unfold PIPv6.unpackFlow
    rw [UInt32.toNat_and]
    have hm : (0x000FFFFF : UInt32).toNat = 2 ^ 20 - 1 := by decide
    rw [hm, and_mask, UInt32.toNat_ofNat']
    have hlo : (PIPv6.packLo fl).toNat = fl.toNat % 65536 := by
      unfold PIPv6.packLo; simp
    have ha := (PIPv6.packB0 ver tc).toNat_lt
    have hb := (PIPv6.packB1 tc fl).toNat_lt
    have hc := (PIPv6.packLo fl).toNat_lt
    simp only [UInt8.toNat_ofNat']
    omega

/-- TCP byte 12 (data offset, 4 bits) and byte 13 (code bits, 6 bits). -/
theorem lane_tcp (hl code : UInt8) (h1 : hl.toNat < 16) (h2 : code.toNat < 64) :
    PTCP.unpackOff (PTCP.packOff hl) = hl ∧ PTCP.unpackCode (PTCP.packCode code) = code :=
  ⟨tcp_off hl h1, tcp_code code h2⟩

/-- IGMPv3 query byte 8: suppress-router-processing flag (bit 3) and robustness value (3 bits). -/
theorem lane_igmpv3_s_qrv (s : Bool) (qrv : UInt8) (h : qrv.toNat < 8) :
    PIGMPv3Query.unpackS (PIGMPv3Query.packSQRV s qrv) = s ∧
      PIGMPv3Query.unpackQRV (PIGMPv3Query.packSQRV s qrv) = qrv :=
  igmp_sqrv s qrv h

/-! ### the range hypotheses are needed: an out-of-range field spills into its neighbour
    (the Go encoders add/shift without masking, except TCP and IGMPv3 which mask). -/

/-- a VLAN id of 4096 (13 bits) comes back as DEI = 1, id 0 -/
theorem lane_vlan_needs_range :
    PVLAN.unpackDEI (PVLAN.packTCI 0 0 4096) = 1 ∧ PVLAN.unpackVID (PVLAN.packTCI 0 0 4096) = 0 := by decide

/-- an IPv4 header length of 16 comes back as version + 1, header length 0 -/
theorem lane_ipv4_needs_range :
    PIPv4.unpackVersion (PIPv4.packVerIHL 4 16) = 5 ∧ PIPv4.unpackIHL (PIPv4.packVerIHL 4 16) = 0 := by decide

/-- an ECN of 4 (3 bits) comes back as DSCP + 1, ECN 0 -/
theorem lane_dscp_needs_range :
    PIPv4.unpackDSCP (PIPv4.packDscpEcn 10 4) = 11 ∧ PIPv4.unpackECN (PIPv4.packDscpEcn 10 4) = 0 := by decide

/-- TCP masks: an out-of-range field is truncated and never reaches the neighbouring byte -/
theorem lane_tcp_masks (hl code : UInt8) :
    PTCP.unpackOff (PTCP.packOff hl) = hl &&& 0x0f ∧ PTCP.unpackCode (PTCP.packCode code) = code &&& 0x3f :=
  ⟨forall_u8_lt 256 (fun hl => PTCP.unpackOff (PTCP.packOff hl) = hl &&& 0x0f) (by decide +kernel) hl hl.toNat_lt,
   forall_u8_lt 256 (fun code => PTCP.unpackCode (PTCP.packCode code) = code &&& 0x3f) (by decide +kernel) code
     code.toNat_lt⟩

/-! ## 2. Round-trip theorems -/


/-- `RoundTrip k v`: `MarshalBinary` of `v` succeeds with some bytes `bs` and does not modify `v`; `Len()` reports
    exactly `bs.length`; and decoding `bs` into a fresh value — whatever spare capacity lies behind the slice — gives
    back exactly `v` (so re-encoding reproduces `bs`, and the reported size equals the bytes consumed). -/
def RoundTrip (k : KindOps) (v : V) : Prop :=
  ∃ bs l, k.marshalM v = .ok (bs, v) ∧ k.lenM v = .ok (l, v) ∧ bs.length = l.toNat ∧
    ∀ spare, k.unmarshal k.zero ⟨bs ++ spare, bs.length⟩ = .ok v

/-- `RoundTripPrefix k v`: as `RoundTrip`, and moreover the decoder consumes exactly the header: any bytes that follow
    inside the slice (`n ≥ bs.length`) and any spare capacity are ignored. -/
def RoundTripPrefix (k : KindOps) (v : V) : Prop :=
  ∃ bs l, k.marshalM v = .ok (bs, v) ∧ k.lenM v = .ok (l, v) ∧ bs.length = l.toNat ∧
    ∀ tail n, bs.length ≤ n → n ≤ (bs ++ tail).length → k.unmarshal k.zero ⟨bs ++ tail, n⟩ = .ok v

/-- the stronger form implies the plain one -/
theorem RoundTripPrefix.roundTrip {k : KindOps} {v : V} (h : RoundTripPrefix k v) : RoundTrip k v := by
  obtain ⟨bs, l, h1, h2, h3, h4⟩ := h
  exact ⟨bs, l, h1, h2, h3, fun spare => h4 spare bs.length (Nat.le_refl _) (by simp)⟩

/-- re-encoding the decoded value reproduces the bytes -/
theorem RoundTrip.reencode {k : KindOps} {v : V} (h : RoundTrip k v) :
    ∃ bs, k.marshalM v = .ok (bs, v) ∧ ∀ spare w, k.unmarshal k.zero ⟨bs ++ spare, bs.length⟩ = .ok w →
      k.marshalM w = .ok (bs, w) := by
  obtain ⟨bs, l, h1, _, _, h4⟩ := h
  refine ⟨bs, h1, ?_⟩
  intro spare w hw
  rw [h4 spare] at hw
  cases hw
  exact h1

/-- the `Len / MarshalBinary / UnmarshalBinary / new(T)` quadruples of the leaf kinds (as registered in `kindsProto`) -/
def kVLAN : KindOps := ⟨PVLAN.lenM, PVLAN.marshalM, PVLAN.unmarshal, PVLAN.zero⟩
def kARP : KindOps := ⟨PARP.lenM, PARP.marshalM, PARP.unmarshal, PARP.zero⟩
def kICMP : KindOps := ⟨PICMP.lenM, PICMP.marshalM, PICMP.unmarshal, PICMP.zero⟩
def kUDP : KindOps := ⟨PUDP.lenM, PUDP.marshalM, PUDP.unmarshal, PUDP.zero⟩
def kTCP : KindOps := ⟨PTCP.lenM, PTCP.marshalM, PTCP.unmarshal, PTCP.zero⟩
def kFragment : KindOps := ⟨PFragment.lenM, PFragment.marshalM, PFragment.unmarshal, PFragment.zero⟩
def kOption : KindOps := ⟨POption.lenM, POption.marshalM, POption.unmarshal, POption.zero⟩
def kIGMPv1or2 : KindOps := ⟨PIGMPv1or2.lenM, PIGMPv1or2.marshalM, PIGMPv1or2.unmarshal, PIGMPv1or2.zero⟩
def kRouting : KindOps := ⟨PRouting.lenM, PRouting.marshalM, PRouting.unmarshal, PRouting.zero⟩

/-! ### VLAN -/


/-- well-formed VLAN tag: TPID 16 bits, priority 3 bits, DEI 1 bit, id 12 bits -/
def VLAN.WFv : V → Prop
  | .obj "p.VLAN" [.num tpid, .num pcp, .num dei, .num vid] => tpid < 65536 ∧ pcp < 8 ∧ dei < 2 ∧ vid < 4096
  | _ => False
instance : DecidablePred VLAN.WFv := fun v => by unfold VLAN.WFv; split <;> infer_instance

/-- a well-formed VLAN tag round-trips through its 4 bytes; trailing bytes are ignored -/
theorem vlan_roundtrip (v : V) (h : VLAN.WFv v) : RoundTripPrefix kVLAN v := by
  unfold VLAN.WFv at h
  split at h
  · rename_i tpid pcp dei vid
    obtain ⟨h1, h2, h3, h4⟩ := h
    obtain ⟨l1, l2, l3⟩ := lane_vlan_tci (n8 pcp) (n8 dei) (n16 vid) (by rw [n8_toNat _ (by omega)]; exact h2)
      (by rw [n8_toNat _ (by omega)]; exact h3) (by rw [n16_toNat _ (by omega)]; exact h4)
    refine ⟨be16 (n16 tpid) ++ be16 (PVLAN.packTCI (n8 pcp) (n8 dei) (n16 vid)), 4, ?_⟩
    refine ⟨?_, ?_, ?_, ?_⟩
    · simp [kVLAN, PVLAN.marshalM, PVLAN.bytes, same]
    · simp [kVLAN, PVLAN.lenM, same]
    · simp
    · intro tail n hn1 hn2
      simp at hn1 hn2
      have a1 : ¬ n < 4 := by omega
      have a2 : 2 ≤ n := by omega
      have a3 : 2 ≤ n - 2 := by omega
      have hp : pcp < 256 := by omega
      have hd : dei < 256 := by omega
      have hv : vid < 65536 := by omega
      rt_reads [kVLAN, PVLAN.unmarshal, PVLAN.zero, a1, a2, a3, l1, l2, l3, h1, hp, hd, hv]
  · exact h.elim

example : VLAN.WFv (.obj "p.VLAN" [.num 0x8100, .num 5, .num 1, .num 0xabc]) := by decide

/-! ### ARP -/


/-- well-formed ARP packet (Ethernet/IPv4, the only shape the decoder produces): hardware length 6, protocol length 4,
    6-byte hardware and 4-byte protocol addresses -/
def ARP.WFv : V → Prop
  | .obj "p.ARP" [.num ht, .num pt, .num hl, .num pl, .num op, .bytes hs, .bytes ips, .bytes hd, .bytes ipd] =>
    ht < 65536 ∧ pt < 65536 ∧ hl = 6 ∧ pl = 4 ∧ op < 65536 ∧
      hs.length = 6 ∧ ips.length = 4 ∧ hd.length = 6 ∧ ipd.length = 4
  | _ => False
instance : DecidablePred ARP.WFv := fun v => by unfold ARP.WFv; split <;> infer_instance

/-- a well-formed ARP packet round-trips through its 28 bytes; trailing bytes are ignored -/
theorem arp_roundtrip (v : V) (h : ARP.WFv v) : RoundTripPrefix kARP v := by
  unfold ARP.WFv at h
  split at h
  · rename_i ht pt hl pl op hs ips hd ipd
    obtain ⟨h1, h2, rfl, rfl, h5, h6, h7, h8, h9⟩ := h
    obtain ⟨a0, a1, a2, a3, a4, a5, rfl⟩ := bytes_len6 hs h6
    obtain ⟨b0, b1, b2, b3, rfl⟩ := bytes_len4 ips h7
    obtain ⟨c0, c1, c2, c3, c4, c5, rfl⟩ := bytes_len6 hd h8
    obtain ⟨d0, d1, d2, d3, rfl⟩ := bytes_len4 ipd h9
    have k6 : (n8 6).toNat = 6 := rfl
    have k4 : (n8 4).toNat = 4 := rfl
    refine ⟨be16 (n16 ht) ++ be16 (n16 pt) ++ [n8 6, n8 4] ++ be16 (n16 op) ++ [a0, a1, a2, a3, a4, a5] ++ [b0, b1, b2, b3]
      ++ [c0, c1, c2, c3, c4, c5] ++ [d0, d1, d2, d3], 28, ?_⟩
    refine ⟨?_, ?_, ?_, ?_⟩
    · simp only [kARP, PARP.marshalM, PARP.len, Res.bind_ok, arp_len, k6, k4]
      simp only [show (28 : UInt16).toNat = 28 from rfl, pIpTo4_four _ h7, pIpTo4_four _ h9, pCopyIn, pFitTo_self _ _ h6,
        pFitTo_self _ _ h7, pFitTo_self _ _ h8, pFitTo_self _ _ h9]
      rt_fill
      simp [piecesBytes, Piece.bytes, pU8, pU16, same]
    · simp [kARP, PARP.lenM, PARP.len, same, arp_len]
    · simp
    · intro tail n hn1 hn2
      simp at hn1 hn2
      simp only [kARP]
      unfold PARP.unmarshal
      have e1 : ¬ n < 8 := by omega
      have e2 : 4 < n := by omega
      have e3 : 5 < n := by omega
      have e4 : ¬ n - 8 < 6 * 2 + 4 * 2 := by omega
      rt_reads [e1, e2, e3, e4, k6, k4, h1, h2, h5]
  · exact h.elim

example : ARP.WFv (.obj "p.ARP" [.num 1, .num 0x800, .num 6, .num 4, .num 2, .bytes [1, 2, 3, 4, 5, 6],
    .bytes [10, 0, 0, 1], .bytes [7, 8, 9, 10, 11, 12], .bytes [10, 0, 0, 2]]) := by decide

/-- an ARP value with 2-byte hardware addresses (HWLength 2, consistent with the parts present) -/
def arpShort : V := .obj "p.ARP" [.num 1, .num 0x800, .num 2, .num 4, .num 1, .bytes [0xaa, 0xbb],
  .bytes [10, 0, 0, 1], .bytes [0xcc, 0xdd], .bytes [10, 0, 0, 2]]

/-- why `ARP.WFv` fixes HWLength = 6 and ProtoLength = 4: the encoder honours the length fields, but the decoder always
    builds 6-byte hardware and 4-byte protocol address arrays, so shorter addresses come back zero-padded
    (the field values are not preserved; re-encoding still reproduces the bytes) -/
theorem arp_short_hw_not_preserved :
    PARP.marshalM arpShort = .ok ([0, 1, 8, 0, 2, 4, 0, 1, 0xaa, 0xbb, 10, 0, 0, 1, 0xcc, 0xdd, 10, 0, 0, 2], arpShort) ∧
    PARP.unmarshal PARP.zero (Slice.exact [0, 1, 8, 0, 2, 4, 0, 1, 0xaa, 0xbb, 10, 0, 0, 1, 0xcc, 0xdd, 10, 0, 0, 2]) =
      .ok (.obj "p.ARP" [.num 1, .num 0x800, .num 2, .num 4, .num 1, .bytes [0xaa, 0xbb, 0, 0, 0, 0],
        .bytes [10, 0, 0, 1], .bytes [0xcc, 0xdd, 0, 0, 0, 0], .bytes [10, 0, 0, 2]]) := ⟨rfl, rfl⟩

/-! ### ICMP -/


/-- well-formed ICMP message: type/code 8 bits, checksum 16 bits, total size fits the 16-bit `Len()` -/
def ICMP.WFv : V → Prop
  | .obj "p.ICMP" [.num ty, .num code, .num cs, .bytes d] => ty < 256 ∧ code < 256 ∧ cs < 65536 ∧ 4 + d.length < 65536
  | _ => False
instance : DecidablePred ICMP.WFv := fun v => by unfold ICMP.WFv; split <;> infer_instance

/-- a well-formed ICMP message round-trips (header and payload) -/
theorem icmp_roundtrip (v : V) (h : ICMP.WFv v) : RoundTrip kICMP v := by
  unfold ICMP.WFv at h
  split at h
  · rename_i ty code cs d
    obtain ⟨h1, h2, h3, h4⟩ := h
    have hl : (n16 (4 + d.length)).toNat = 4 + d.length := n16_toNat _ h4
    refine ⟨[n8 ty, n8 code] ++ be16 (n16 cs) ++ d, n16 (4 + d.length), ?_⟩
    refine ⟨?_, ?_, ?_, ?_⟩
    · simp only [kICMP, PICMP.marshalM, PICMP.len, Res.bind_ok, hl]
      rt_fill
      simp [piecesBytes, Piece.bytes, pU8, pU16, pCopy, same]
    · simp [kICMP, PICMP.lenM, PICMP.len, same]
    · simp [hl]; omega
    · intro spare
      simp only [kICMP]
      unfold PICMP.unmarshal
      rt_reads [PICMP.zero, h1, h2, h3]
  · exact h.elim

example : ICMP.WFv (.obj "p.ICMP" [.num 8, .num 0, .num 0xf7ff, .bytes [1, 2, 3]]) := by decide

/-! ### UDP -/


/-- well-formed UDP datagram: ports, length and checksum 16 bits, total size fits the 16-bit `Len()` -/
def UDP.WFv : V → Prop
  | .obj "p.UDP" [.num ps, .num pd, .num ln, .num cs, .bytes d] =>
    ps < 65536 ∧ pd < 65536 ∧ ln < 65536 ∧ cs < 65536 ∧ 8 + d.length < 65536
  | _ => False
instance : DecidablePred UDP.WFv := fun v => by unfold UDP.WFv; split <;> infer_instance

/-- a well-formed UDP datagram round-trips (header and payload) -/
theorem udp_roundtrip (v : V) (h : UDP.WFv v) : RoundTrip kUDP v := by
  unfold UDP.WFv at h
  split at h
  · rename_i ps pd ln cs d
    obtain ⟨h1, h2, h3, h4, h5⟩ := h
    have hl : (n16 (8 + d.length)).toNat = 8 + d.length := n16_toNat _ h5
    refine ⟨be16 (n16 ps) ++ be16 (n16 pd) ++ be16 (n16 ln) ++ be16 (n16 cs) ++ d, n16 (8 + d.length), ?_⟩
    refine ⟨?_, ?_, ?_, ?_⟩
    · simp only [kUDP, PUDP.marshalM, PUDP.len, Res.bind_ok, hl]
      rt_fill
      simp [piecesBytes, Piece.bytes, pU16, pCopy, same]
    · simp [kUDP, PUDP.lenM, PUDP.len, same]
    · simp [hl]; omega
    · intro spare
      simp only [kUDP]
      unfold PUDP.unmarshal
      rt_reads [PUDP.zero, h1, h2, h3, h4]
  · exact h.elim

example : UDP.WFv (.obj "p.UDP" [.num 68, .num 67, .num 11, .num 0, .bytes [1, 2, 3]]) := by decide

/-! ### TCP -/


/-- well-formed TCP segment: ports/window/checksum/urgent 16 bits, sequence numbers 32 bits, data offset 4 bits,
    code bits 6 bits, total size fits the 16-bit `Len()` -/
def TCP.WFv : V → Prop
  | .obj "p.TCP" [.num ps, .num pd, .num sq, .num ak, .num hl, .num code, .num win, .num cs, .num urg, .bytes d] =>
    ps < 65536 ∧ pd < 65536 ∧ sq < 4294967296 ∧ ak < 4294967296 ∧ hl < 16 ∧ code < 64 ∧ win < 65536 ∧ cs < 65536 ∧
      urg < 65536 ∧ 20 + d.length < 65536
  | _ => False
instance : DecidablePred TCP.WFv := fun v => by unfold TCP.WFv; split <;> infer_instance

/-- a well-formed TCP segment round-trips (header, data offset / code lanes, payload) -/
theorem tcp_roundtrip (v : V) (h : TCP.WFv v) : RoundTrip kTCP v := by
  unfold TCP.WFv at h
  split at h
  · rename_i ps pd sq ak hl code win cs urg d
    obtain ⟨h1, h2, h3, h4, h5, h6, h7, h8, h9, h10⟩ := h
    have hlen : (n16 (20 + d.length)).toNat = 20 + d.length := n16_toNat _ h10
    obtain ⟨l1, l2⟩ := lane_tcp (n8 hl) (n8 code) (by rw [n8_toNat _ (by omega)]; exact h5)
      (by rw [n8_toNat _ (by omega)]; exact h6)
    have hh : hl < 256 := by omega
    have hc : code < 256 := by omega
    refine ⟨be16 (n16 ps) ++ be16 (n16 pd) ++ be32 (n32 sq) ++ be32 (n32 ak) ++ [PTCP.packOff (n8 hl), PTCP.packCode (n8 code)]
      ++ be16 (n16 win) ++ be16 (n16 cs) ++ be16 (n16 urg) ++ d, n16 (20 + d.length), ?_⟩
    refine ⟨?_, ?_, ?_, ?_⟩
    · simp only [kTCP, PTCP.marshalM, PTCP.len, Res.bind_ok, hlen]
      rt_fill
      simp [piecesBytes, Piece.bytes, pU16, pU32, pCopy, same]
    · simp [kTCP, PTCP.lenM, PTCP.len, same]
    · simp [hlen]; omega
    · intro spare
      simp only [kTCP]
      unfold PTCP.unmarshal
      rt_reads [PTCP.zero, h1, h2, h3, h4, h7, h8, h9, l1, l2, hh, hc]
      cases d with
      | nil => simp
      | cons x xs => simp
  · exact h.elim

example : TCP.WFv (.obj "p.TCP" [.num 80, .num 4242, .num 0xdeadbeef, .num 1, .num 5, .num 0x12, .num 512, .num 0,
    .num 0, .bytes [1, 2, 3]]) := by decide

/-! ### IPv6 fragment header -/


/-- well-formed fragment header: next header / reserved 8 bits, offset 13 bits, more-flag 0/1, identification 32 bits -/
def Fragment.WFv : V → Prop
  | .obj "p.FragmentHeader" [.num nh, .num rs, .num off, .num m, .num ident] =>
    nh < 256 ∧ rs < 256 ∧ off < 8192 ∧ m < 2 ∧ ident < 4294967296
  | _ => False
instance : DecidablePred Fragment.WFv := fun v => by unfold Fragment.WFv; split <;> infer_instance

/-- a well-formed fragment header round-trips through its 8 bytes; trailing bytes are ignored -/
theorem fragment_roundtrip (v : V) (h : Fragment.WFv v) : RoundTripPrefix kFragment v := by
  unfold Fragment.WFv at h
  split at h
  · rename_i nh rs off m ident
    obtain ⟨h1, h2, h3, h4, h5⟩ := h
    obtain ⟨l1, l2⟩ := lane_fragment (n16 off) (m != 0) (by rw [n16_toNat _ (by omega)]; exact h3)
    have ho : off < 65536 := by omega
    have hm : V.bool (m != 0) = .num m := by
      have : m = 0 ∨ m = 1 := by omega
      rcases this with rfl | rfl <;> rfl
    refine ⟨[n8 nh, n8 rs] ++ be16 (PFragment.packFrag (n16 off) (m != 0)) ++ be32 (n32 ident), 8, ?_⟩
    refine ⟨?_, ?_, ?_, ?_⟩
    · simp only [kFragment, PFragment.marshalM, PFragment.bytes, PFragment.len, Res.bind_ok,
        Gen.protocol.FragmentHeader.Len]
      rw [show (8 : UInt16).toNat = 8 from rfl]
      rt_fill
      simp [piecesBytes, Piece.bytes, pU8, pU32, same]
    · simp [kFragment, PFragment.lenM, PFragment.len, same, Gen.protocol.FragmentHeader.Len]
    · simp
    · intro tail n hn1 hn2
      simp at hn1 hn2
      simp only [kFragment]
      unfold PFragment.unmarshal
      have a1 : ¬ n < 8 := by omega
      have a2 : 0 < n := by omega
      have a3 : 1 < n := by omega
      have a4 : 2 ≤ n - 2 := by omega
      have a5 : 4 ≤ n - 4 := by omega
      have a6 : 2 ≤ n := by omega
      have a7 : 4 ≤ n := by omega
      rt_reads [a1, a2, a3, a4, a5, a6, a7, l1, l2, h1, h2, ho, hm, h5]
  · exact h.elim

example : Fragment.WFv (.obj "p.FragmentHeader" [.num 17, .num 0, .num 0x1abc, .num 1, .num 0xcafe0001]) := by decide

/-! ### IPv6 option (TLV inside a hop-by-hop header) -/


/-- well-formed option: type/length 8 bits, the data is exactly `Length` bytes; a Pad1 option (type 0) is the single type
    byte on the wire — neither a length nor data — so its `Length` must be 0 (and its data empty) -/
def Option.WFv : V → Prop
  | .obj "p.Option" [.num ty, .num ln, .bytes d] => ty < 256 ∧ ln < 256 ∧ d.length = ln ∧ (ty = 0 → ln = 0)
  | _ => False
instance : DecidablePred Option.WFv := fun v => by unfold Option.WFv; split <;> infer_instance

/-- the Pad1 option round-trips through its single byte `0`; trailing bytes are ignored -/
theorem option_pad1_roundtrip : RoundTripPrefix kOption (.obj "p.Option" [.num 0, .num 0, .bytes []]) := by
  refine ⟨[0], 1, rfl, rfl, rfl, ?_⟩
  intro tail n hn1 hn2
  simp at hn1 hn2
  simp only [kOption]
  unfold POption.unmarshal
  have a1 : 1 ≤ n := hn1
  have a2 : 0 < n := by omega
  rt_reads [a1, a2]

/-- a well-formed option round-trips — Pad1 through its single byte, every other option through its `2 + Length`
    bytes; trailing bytes are ignored -/
theorem option_roundtrip (v : V) (h : Option.WFv v) : RoundTripPrefix kOption v := by
  unfold Option.WFv at h
  split at h
  · rename_i ty ln d
    obtain ⟨h1, h2, h3, h4⟩ := h
    subst h3
    by_cases h0 : ty = 0
    · subst h0
      have hd : d = [] := List.eq_nil_of_length_eq_zero (h4 rfl)
      subst hd
      exact option_pad1_roundtrip
    have hlen := option_len ty d.length h1 h0 h2
    have hne : ¬ n8 ty = 0 := fun e => h0 ((n8_eq_zero ty h1).mp e)
    refine ⟨[n8 ty, n8 d.length] ++ d, Gen.protocol.Option.Len { Type_ := n8 ty, Length := n8 d.length }, ?_⟩
    refine ⟨?_, ?_, ?_, ?_⟩
    · simp only [kOption, POption.marshalM, POption.bytes, POption.len, Res.bind_ok, hlen, if_neg hne]
      rt_fill
      simp [piecesBytes, Piece.bytes, pU8, pCopy, same]
    · simp [kOption, POption.lenM, POption.len, same]
    · simp [hlen]
    · intro tail n hn1 hn2
      simp at hn1 hn2
      simp only [kOption]
      unfold POption.unmarshal
      have a1 : ¬ n < 2 := by omega
      have a2 : 0 < n := by omega
      have a3 : 1 < n := by omega
      have a4 : ¬ n - 2 < d.length := by omega
      have a5 : 2 + d.length ≤ d.length + tail.length + 1 + 1 := by omega
      rt_reads [a1, a2, a3, a4, a5, n8_toNat _ h2, h1, h2, hne]
  · exact h.elim

example : Option.WFv (.obj "p.Option" [.num 5, .num 2, .bytes [0, 0]]) := by decide
example : Option.WFv (.obj "p.Option" [.num 0, .num 0, .bytes []]) := by decide

/-- the restriction on Pad1 in `Option.WFv` is necessary: a type-0 option whose `Length` / data are not empty is encoded
    as the single byte `0` (Pad1 has no length and no data on the wire), and that byte decodes to the empty Pad1 -/
theorem option_pad1_carries_no_data :
    POption.marshalM (.obj "p.Option" [.num 0, .num 2, .bytes [7, 9]]) = .ok ([0], .obj "p.Option" [.num 0, .num 2, .bytes [7, 9]]) ∧
    ∀ spare, POption.unmarshal POption.zero ⟨[0] ++ spare, 1⟩ = .ok (.obj "p.Option" [.num 0, .num 0, .bytes []]) :=
  ⟨rfl, fun _ => rfl⟩

/-! ### IGMP v1/v2 -/


/-- well-formed IGMPv1/v2 message: type / max response time 8 bits, checksum 16 bits, 4-byte group address -/
def IGMPv1or2.WFv : V → Prop
  | .obj "p.IGMPv1or2" [.num ty, .num mrt, .num cs, .bytes g] => ty < 256 ∧ mrt < 256 ∧ cs < 65536 ∧ g.length = 4
  | _ => False
instance : DecidablePred IGMPv1or2.WFv := fun v => by unfold IGMPv1or2.WFv; split <;> infer_instance

/-- a well-formed IGMPv1/v2 message round-trips through its 8 bytes; trailing bytes are ignored -/
theorem igmpv1or2_roundtrip (v : V) (h : IGMPv1or2.WFv v) : RoundTripPrefix kIGMPv1or2 v := by
  unfold IGMPv1or2.WFv at h
  split at h
  · rename_i ty mrt cs g
    obtain ⟨h1, h2, h3, h4⟩ := h
    obtain ⟨g0, g1, g2, g3, rfl⟩ := bytes_len4 g h4
    refine ⟨[n8 ty, n8 mrt] ++ be16 (n16 cs) ++ [g0, g1, g2, g3], 8, ?_⟩
    refine ⟨?_, ?_, ?_, ?_⟩
    · simp only [kIGMPv1or2, PIGMPv1or2.marshalM, PIGMPv1or2.len, Res.bind_ok, Gen.protocol.IGMPv1or2.Len]
      rw [show (8 : UInt16).toNat = 8 from rfl, pIpTo4_four _ h4, pCopyIn, pFitTo_self _ _ h4]
      rt_fill
      simp [piecesBytes, Piece.bytes, pU8, pU16, same]
    · simp [kIGMPv1or2, PIGMPv1or2.lenM, PIGMPv1or2.len, same, Gen.protocol.IGMPv1or2.Len]
    · simp
    · intro tail n hn1 hn2
      simp at hn1 hn2
      simp only [kIGMPv1or2]
      unfold PIGMPv1or2.unmarshal
      have a1 : ¬ n < 8 := by omega
      have a2 : 0 < n := by omega
      have a3 : 1 < n := by omega
      rt_reads [a1, a2, a3, h1, h2, h3]
  · exact h.elim

example : IGMPv1or2.WFv (.obj "p.IGMPv1or2" [.num 0x16, .num 100, .num 0xabcd, .bytes [224, 0, 0, 251]]) := by decide

/-! ### IPv6 routing header -/


/-- well-formed routing header: four 8-bit fields and a data buffer that fills the header up to `8·(HEL+1)` bytes -/
def Routing.WFv : V → Prop
  | .obj "p.RoutingHeader" [.num nh, .num hel, .num rt, .num sl, .obj "u.Buffer" [.bytes c]] =>
    nh < 256 ∧ hel < 256 ∧ rt < 256 ∧ sl < 256 ∧ c.length + 4 = 8 * (hel + 1)
  | _ => False
instance : DecidablePred Routing.WFv := fun v => by unfold Routing.WFv; split <;> infer_instance

/-- a well-formed routing header round-trips through its `8·(HEL+1)` bytes; trailing bytes are ignored -/
theorem routing_roundtrip (v : V) (h : Routing.WFv v) : RoundTripPrefix kRouting v := by
  unfold Routing.WFv at h
  split at h
  · rename_i nh hel rt sl c
    obtain ⟨h1, h2, h3, h4, h5⟩ := h
    have hlen := ext_len hel h2
    refine ⟨[n8 nh, n8 hel, n8 rt, n8 sl] ++ c, (8 : UInt16) * (((n8 hel).toUInt64).toUInt16 + (1 : UInt16)), ?_⟩
    refine ⟨?_, ?_, ?_, ?_⟩
    · simp only [kRouting, PRouting.marshalM, PRouting.bytes, PRouting.len, Res.bind_ok,
        Gen.protocol.RoutingHeader.Len, hlen, UBuffer.content]
      obtain ⟨o, ho⟩ := fill_ok_le (8 * (hel + 1)) [pU8 nh, pU8 hel, pU8 rt, pU8 sl] (by simp [Piece.Tight, pU8])
        (by simp [piecesLen, Piece.adv, pU8]; omega)
      rw [ho]
      simp only [Res.bind_ok]
      rt_fill
      simp [piecesBytes, Piece.bytes, pU8, pCopy, same]
    · simp [kRouting, PRouting.lenM, PRouting.len, same, Gen.protocol.RoutingHeader.Len]
    · rw [hlen]; simp; omega
    · intro tail n hn1 hn2
      simp at hn1 hn2
      simp only [kRouting]
      unfold PRouting.unmarshal
      have a1 : ¬ n < 2 := by omega
      have a2 : 0 < n := by omega
      have a3 : 1 < n := by omega
      have a4 : 2 < n := by omega
      have a5 : 3 < n := by omega
      have a6 : ¬ n < 8 * (hel + 1) := by omega
      simp only [Gen.protocol.RoutingHeader.Len]
      have a7 : 8 * (hel + 1) % 65536 = 8 * (hel + 1) := by omega
      have a8 : 4 ≤ 8 * (hel + 1) ∧ 8 * (hel + 1) ≤ c.length + tail.length + 1 + 1 + 1 + 1 := by omega
      have a9 := take_prefix (8 * (hel + 1) - 4) c tail (by omega)
      rt_reads [a1, a2, a3, a4, a5, a6, a7, a8, a9, n8_toNat _ h2, h1, h2, h3, h4, UBuffer.unmarshal, UBuffer.mk]
  · exact h.elim

example : Routing.WFv (.obj "p.RoutingHeader" [.num 6, .num 0, .num 0, .num 1, .obj "u.Buffer" [.bytes [1, 2, 3, 4]]]) := by
  decide

/-! ### IPv6 hop-by-hop header (a list of options) -/

/-- encoded size of an option value: 1 for Pad1 (type 0), otherwise `2 + Length` -/
def optSize : V → Nat
  | .obj "p.Option" [.num ty, .num ln, _] => if ty = 0 then 1 else ln + 2
  | _ => 0

/-- the reported size of a well-formed option is 1 for Pad1 and `2 + Length` otherwise (at least 1, so the option loop
    advances) -/
theorem option_len_size (o : V) (h : Option.WFv o) : ∀ l, POption.len o = .ok l → l.toNat = optSize o ∧ 1 ≤ l.toNat := by
  unfold Option.WFv at h
  split at h
  · rename_i ty ln d
    intro l hl
    simp only [POption.len] at hl
    cases hl
    by_cases h0 : ty = 0
    · subst h0
      rw [option_len_pad1 ln]
      exact ⟨rfl, Nat.le_refl _⟩
    · rw [option_len ty ln h.1 h0 h.2.1]
      refine ⟨?_, by omega⟩
      simp only [optSize, if_neg h0]
  · exact h.elim

/-- what the round trip of one well-formed option provides, in the terms the hop-by-hop header uses -/
theorem option_facts (o : V) (h : Option.WFv o) :
    ∃ bs l, POption.bytes o = .ok bs ∧ POption.len o = .ok l ∧ bs.length = l.toNat ∧ l.toNat = optSize o ∧ 1 ≤ l.toNat ∧
      ∀ tail n, bs.length ≤ n → n ≤ (bs ++ tail).length → POption.unmarshal POption.zero ⟨bs ++ tail, n⟩ = .ok o := by
  obtain ⟨bs, l, h1, h2, h3, h4⟩ := option_roundtrip o h
  simp only [kOption, POption.marshalM, POption.lenM] at h1 h2
  obtain ⟨b, hb, h1⟩ := bind_ok_inv _ _ _ h1
  obtain ⟨rfl, _⟩ := same_ok _ _ _ _ h1
  obtain ⟨l', hl', h2⟩ := bind_ok_inv _ _ _ h2
  obtain ⟨rfl, _⟩ := same_ok _ _ _ _ h2
  obtain ⟨q1, q2⟩ := option_len_size o h l hl'
  exact ⟨bs, l, hb, hl', h3, q1, q2, h4⟩

/-- one pass of the hop-by-hop decoder's option loop -/
def hbhBody (data : Slice) (s : PHopByHop.St) : R PHopByHop.St := do
  let d ← data.fromR s.n
  let o ← POption.unmarshal POption.zero d
  let ol ← POption.len o
  pure { n := s.n + ol.toNat, opts := s.opts ++ [o] }

/-- a list of well-formed options: the encoder's pieces are the concatenation `W` of their encodings, and the
    decoder's option loop started at the beginning of `W` stops at its end having appended exactly these options -/
theorem hbh_opts (os : List V) (hwf : ∀ o ∈ os, Option.WFv o) :
    ∃ W : Bytes, W.length = (os.map optSize).sum ∧ os.length ≤ W.length ∧
      (∃ ps, PHopByHop.optPieces os = .ok ps ∧ piecesBytes ps = W ∧ piecesLen ps = W.length ∧ ∀ p ∈ ps, p.Tight) ∧
      ∀ (pre tail : Bytes) (len : Nat) (acc : List V) (L fuel : Nat), pre.length + W.length = L → L ≤ len →
        len ≤ (pre ++ W ++ tail).length → os.length < fuel →
        goLoop fuel (fun s => decide (s.n < L)) (·.n) (hbhBody ⟨pre ++ W ++ tail, len⟩) { n := pre.length, opts := acc }
          = .ok { n := L, opts := acc ++ os } := by
  induction os with
  | nil =>
    refine ⟨[], rfl, Nat.le_refl _, ⟨[], rfl, rfl, rfl, by simp⟩, ?_⟩
    intro pre tail len acc L fuel hL _ _ hf
    obtain ⟨f, rfl⟩ : ∃ f, fuel = f + 1 := ⟨fuel - 1, by simp at hf; omega⟩
    simp at hL
    subst hL
    simp [goLoop]
  | cons o os ih =>
    obtain ⟨W', hW', hWl', ⟨ps', hps1, hps2, hps3, hps4⟩, hloop⟩ := ih (fun x hx => hwf x (by simp [hx]))
    obtain ⟨bs, l, hb, hl, hbl, hsz, hpos, hdec⟩ := option_facts o (hwf o (by simp))
    refine ⟨bs ++ W', ?_, ?_, ⟨pCopyAdv bs l.toNat :: ps', ?_, ?_, ?_, ?_⟩, ?_⟩
    · simp [hW', hbl, hsz]
    · simp; omega
    · simp [PHopByHop.optPieces, hb, hl, hps1]
    · simp [piecesBytes, Piece.bytes, pCopyAdv, ← hbl, zeros] at hps2 ⊢
      exact hps2
    · simp [piecesLen, Piece.adv, pCopyAdv, ← hbl] at hps3 ⊢
      exact hps3
    · intro p hp
      simp at hp
      rcases hp with rfl | hp
      · simp [Piece.Tight, pCopyAdv, hbl]
      · exact hps4 p hp
    · intro pre tail len acc L fuel hL hLlen hlen hf
      obtain ⟨f, rfl⟩ : ∃ f, fuel = f + 1 := ⟨fuel - 1, by simp at hf; omega⟩
      simp at hL hlen hf
      unfold goLoop
      have hc : decide (pre.length < L) = true := by simp; omega
      simp only [hc, if_true]
      have hstep : hbhBody ⟨pre ++ (bs ++ W') ++ tail, len⟩ { n := pre.length, opts := acc }
          = .ok { n := pre.length + l.toNat, opts := acc ++ [o] } := by
        unfold hbhBody
        simp only
        rw [Slice.fromR_ok _ _ (by simp; omega)]
        simp only [Res.bind_ok]
        have hd : List.drop pre.length (pre ++ (bs ++ W') ++ tail) = bs ++ (W' ++ tail) := by simp
        rw [hd, hdec (W' ++ tail) (len - pre.length) (by omega) (by simp; omega)]
        simp only [Res.bind_ok, hl]
        rfl
      rw [hstep]
      simp only
      rw [if_neg (by omega)]
      have := hloop (pre ++ bs) tail len (acc ++ [o]) L f (by simp; omega) hLlen (by simp; omega) (by omega)
      simp only [List.length_append, List.append_assoc] at this
      rw [hbl] at this
      simp only [List.append_assoc]
      rw [this]
      simp

/-- `HopByHopHeader` operations -/
def kHopByHop : KindOps := ⟨PHopByHop.lenM, PHopByHop.marshalM, PHopByHop.unmarshal, PHopByHop.zero⟩

/-- well-formed hop-by-hop header: 8-bit fields, well-formed options — Pad1 (one byte each) and ordinary options
    (`2 + Length` bytes each) in any order — that fill the header exactly up to `8·(HEL+1)` -/
def HopByHop.WFv : V → Prop
  | .obj "p.HopByHopHeader" [.num nh, .num hel, .list os] =>
    nh < 256 ∧ hel < 256 ∧ (∀ o ∈ os, Option.WFv o) ∧ 2 + (os.map optSize).sum = 8 * (hel + 1)
  | _ => False
instance : DecidablePred HopByHop.WFv := fun v => by unfold HopByHop.WFv; split <;> infer_instance

/-- a well-formed hop-by-hop header (any number of options, Pad1 and ordinary options mixed in any order) round-trips
    through its `8·(HEL+1)` bytes; trailing bytes are ignored -/
theorem hopbyhop_roundtrip (v : V) (h : HopByHop.WFv v) : RoundTripPrefix kHopByHop v := by
  unfold HopByHop.WFv at h
  split at h
  · rename_i nh hel os
    obtain ⟨h1, h2, h3, h4⟩ := h
    have hlen := ext_len hel h2
    obtain ⟨W, hW, hWl, ⟨ps, hps1, hps2, hps3, hps4⟩, hloop⟩ := hbh_opts os h3
    refine ⟨[n8 nh, n8 hel] ++ W, (8 : UInt16) * (((n8 hel).toUInt64).toUInt16 + (1 : UInt16)), ?_⟩
    refine ⟨?_, ?_, ?_, ?_⟩
    · simp only [kHopByHop, PHopByHop.marshalM, PHopByHop.bytes, PHopByHop.len, Res.bind_ok,
        Gen.protocol.HopByHopHeader.Len, hlen, hps1]
      obtain ⟨o, ho⟩ := fill_ok_le (8 * (hel + 1)) [pU8 nh, pU8 hel] (by simp [Piece.Tight, pU8])
        (by simp [piecesLen, Piece.adv, pU8]; omega)
      rw [ho]
      simp only [Res.bind_ok]
      rw [fill_ok _ _ (by
          intro p hp
          simp at hp
          rcases hp with rfl | rfl | hp
          · simp [Piece.Tight, pU8]
          · simp [Piece.Tight, pU8]
          · exact hps4 p hp)
        (by simp [piecesLen, Piece.adv, pU8] at hps3 ⊢; omega)]
      simp [piecesBytes, Piece.bytes, pU8, same] at hps2 ⊢
      exact hps2
    · simp [kHopByHop, PHopByHop.lenM, PHopByHop.len, same, Gen.protocol.HopByHopHeader.Len]
    · rw [hlen]; simp; omega
    · intro tail n hn1 hn2
      simp at hn1 hn2
      simp only [kHopByHop]
      unfold PHopByHop.unmarshal
      have a1 : ¬ n < 2 := by omega
      have a2 : 0 < n := by omega
      have a3 : 1 < n := by omega
      have r0 : (⟨[n8 nh, n8 hel] ++ W ++ tail, n⟩ : Slice).byteAt 0 = .ok (n8 nh) := by rt_reads [a2]
      have r1 : (⟨[n8 nh, n8 hel] ++ W ++ tail, n⟩ : Slice).byteAt 1 = .ok (n8 hel) := by rt_reads [a3]
      simp only [r0, r1, Res.bind_ok, a1, if_false, n8_toNat _ h2]
      have a6 : ¬ n < 8 * (hel + 1) := by omega
      simp only [a6, if_false, Gen.protocol.HopByHopHeader.Len, hlen]
      have := hloop [n8 nh, n8 hel] tail n [] (8 * (hel + 1)) (8 * (hel + 1) + 2) (by simp; omega) (by omega)
        (by simp; omega) (by omega)
      rw [show [n8 nh, n8 hel].length = 2 from rfl] at this
      show (goLoop (8 * (hel + 1) + 2) (fun s => decide (s.n < 8 * (hel + 1))) (·.n)
        (hbhBody ⟨[n8 nh, n8 hel] ++ W ++ tail, n⟩) { n := 2, opts := [] } >>= _) = _
      rw [this]
      simp [u8_n8, h1, h2]
  · exact h.elim

example : HopByHop.WFv (.obj "p.HopByHopHeader" [.num 58, .num 1, .list [.obj "p.Option" [.num 5, .num 2, .bytes [0, 7]],
    .obj "p.Option" [.num 1, .num 8, .bytes [0, 0, 0, 0, 0, 0, 0, 0]]]]) := by decide

/-- Pad1 options mixed with ordinary ones: `Pad1, (5, 2, [0, 7]), Pad1` fills an 8-byte header -/
example : HopByHop.WFv (.obj "p.HopByHopHeader" [.num 58, .num 0, .list [.obj "p.Option" [.num 0, .num 0, .bytes []],
    .obj "p.Option" [.num 5, .num 2, .bytes [0, 7]], .obj "p.Option" [.num 0, .num 0, .bytes []]]]) := by decide

/-- the mixed header above on the wire: each Pad1 is the single byte `0`, and the 8 bytes decode back to the same three
    options (instance of `hopbyhop_roundtrip`, here with the bytes spelled out) -/
example :
    PHopByHop.marshalM (.obj "p.HopByHopHeader" [.num 58, .num 0, .list [.obj "p.Option" [.num 0, .num 0, .bytes []],
        .obj "p.Option" [.num 5, .num 2, .bytes [0, 7]], .obj "p.Option" [.num 0, .num 0, .bytes []]]])
      = .ok ([58, 0, 0, 5, 2, 0, 7, 0], .obj "p.HopByHopHeader" [.num 58, .num 0, .list [.obj "p.Option" [.num 0, .num 0, .bytes []],
        .obj "p.Option" [.num 5, .num 2, .bytes [0, 7]], .obj "p.Option" [.num 0, .num 0, .bytes []]]]) ∧
    PHopByHop.unmarshal PHopByHop.zero (Slice.exact [58, 0, 0, 5, 2, 0, 7, 0])
      = .ok (.obj "p.HopByHopHeader" [.num 58, .num 0, .list [.obj "p.Option" [.num 0, .num 0, .bytes []],
        .obj "p.Option" [.num 5, .num 2, .bytes [0, 7]], .obj "p.Option" [.num 0, .num 0, .bytes []]]]) :=
  ⟨rfl, rfl⟩

/-! ### IGMPv3 query (S/QRV lane, list of source addresses) -/

def kIGMPv3Query : KindOps := ⟨PIGMPv3Query.lenM, PIGMPv3Query.marshalM, PIGMPv3Query.unmarshal, PIGMPv3Query.zero⟩

/-- well-formed IGMPv3 query: 8/16-bit fields in range, Reserved 0 (it is not on the wire), S flag 0/1, QRV 3 bits,
    4-byte group and source addresses, `NumberOfSources` = number of sources present, size fits 16 bits -/
def IGMPv3Query.WFv : V → Prop
  | .obj "p.IGMPv3Query" [.num ty, .num mrt, .num cs, .bytes g, .num rsv, .num s, .num rv, .num it, .num ns, .list srcs] =>
    ty < 256 ∧ mrt < 256 ∧ cs < 65536 ∧ g.length = 4 ∧ rsv = 0 ∧ s < 2 ∧ rv < 8 ∧ it < 256 ∧ ns = srcs.length ∧
      12 + 4 * ns < 65536 ∧ ∀ x ∈ srcs, isIP4 x
  | _ => False
instance : DecidablePred IGMPv3Query.WFv := fun v => by unfold IGMPv3Query.WFv; split <;> infer_instance

/-- a well-formed IGMPv3 query (S / QRV lanes, any number of sources) round-trips -/
theorem igmpv3query_roundtrip (v : V) (h : IGMPv3Query.WFv v) : RoundTrip kIGMPv3Query v := by
  unfold IGMPv3Query.WFv at h
  split at h
  · rename_i ty mrt cs g rsv s rv it ns srcs
    obtain ⟨h1, h2, h3, h4, rfl, h6, h7, h8, rfl, h10, h11⟩ := h
    obtain ⟨ips, rfl, hips, hpl⟩ := ip4_list srcs h11
    simp only [List.length_map] at h10 ⊢
    obtain ⟨g0, g1, g2, g3, rfl⟩ := bytes_len4 g h4
    obtain ⟨p1, p2, p3⟩ := ip4_pieces ips hips
    have hfl := ip4_flatten_length ips hips
    have hlen := igmpv3q_len ips.length h10
    obtain ⟨l1, l2⟩ := lane_igmpv3_s_qrv (s != 0) (n8 rv) (by rw [n8_toNat _ (by omega)]; exact h7)
    have hs : V.bool (s != 0) = .num s := by
      have : s = 0 ∨ s = 1 := by omega
      rcases this with rfl | rfl <;> rfl
    have hrv : rv < 256 := by omega
    have hns : ips.length < 65536 := by omega
    refine ⟨[n8 ty, n8 mrt] ++ be16 (n16 cs) ++ [g0, g1, g2, g3] ++ [PIGMPv3Query.packSQRV (s != 0) (n8 rv), n8 it]
      ++ be16 (n16 ips.length) ++ ips.flatten, (12 : UInt16) + n16 ips.length * (4 : UInt16), ?_⟩
    refine ⟨?_, ?_, ?_, ?_⟩
    · simp only [kIGMPv3Query, PIGMPv3Query.marshalM, PIGMPv3Query.len, Res.bind_ok, Gen.protocol.IGMPv3Query.Len, hlen, hpl]
      rw [pIpTo4_four _ h4, pCopyIn, pFitTo_self _ _ h4]
      rw [fill_ok _ _ (by
          intro p hp
          simp only [List.cons_append, List.nil_append, List.mem_cons] at hp
          rcases hp with rfl | rfl | rfl | rfl | rfl | rfl | rfl | hp
          all_goals first | (simp [Piece.Tight, pU8, pU16]; done) | exact p3 p hp)
        (by simp [piecesLen, Piece.adv, pU8, pU16] at p2 ⊢; omega)]
      simp [piecesBytes, Piece.bytes, pU8, pU16, same] at p1 ⊢
      exact p1
    · simp [kIGMPv3Query, PIGMPv3Query.lenM, PIGMPv3Query.len, same, Gen.protocol.IGMPv3Query.Len]
    · rw [hlen]; simp only [List.length_append, List.length_cons, List.length_nil, be16_length, hfl]
    · intro spare
      simp only [kIGMPv3Query]
      unfold PIGMPv3Query.unmarshal
      have hbl : ([n8 ty, n8 mrt] ++ be16 (n16 cs) ++ [g0, g1, g2, g3] ++ [PIGMPv3Query.packSQRV (s != 0) (n8 rv), n8 it]
        ++ be16 (n16 ips.length) ++ ips.flatten).length = 12 + 4 * ips.length := by
        simp only [List.length_append, List.length_cons, List.length_nil, be16_length, hfl]
      rw [hbl]
      have hrd := readIPs_flatten ips hips ([n8 ty, n8 mrt] ++ be16 (n16 cs) ++ [g0, g1, g2, g3] ++
        [PIGMPv3Query.packSQRV (s != 0) (n8 rv), n8 it] ++ be16 (n16 ips.length)) spare (12 + 4 * ips.length)
      rw [show ([n8 ty, n8 mrt] ++ be16 (n16 cs) ++ [g0, g1, g2, g3] ++
        [PIGMPv3Query.packSQRV (s != 0) (n8 rv), n8 it] ++ be16 (n16 ips.length)).length = 12 from rfl] at hrd
      generalize hdata : (⟨[n8 ty, n8 mrt] ++ be16 (n16 cs) ++ [g0, g1, g2, g3] ++
        [PIGMPv3Query.packSQRV (s != 0) (n8 rv), n8 it] ++ be16 (n16 ips.length) ++ ips.flatten ++ spare, 12 + 4 * ips.length⟩ : Slice) = data at hrd ⊢
      have a0 : 0 < 12 + 4 * ips.length := by omega
      have a1 : 1 < 12 + 4 * ips.length := by omega
      have a8 : 8 < 12 + 4 * ips.length := by omega
      have a9 : 9 < 12 + 4 * ips.length := by omega
      have a2 : 2 ≤ 12 + 4 * ips.length := by omega
      have a10 : 10 ≤ 12 + 4 * ips.length := by omega
      have b2 : 2 ≤ 12 + 4 * ips.length - 2 := by omega
      have b10 : 2 ≤ 12 + 4 * ips.length - 10 := by omega
      have r0 : data.byteAt 0 = .ok (n8 ty) := by rw [← hdata]; rt_reads [a0]
      have r1 : data.byteAt 1 = .ok (n8 mrt) := by rw [← hdata]; rt_reads [a1]
      have r2 : data.u16From 2 = .ok (n16 cs) := by rw [← hdata]; rt_reads [a2, b2]
      have r4 : data.sliceR 4 8 = .ok ⟨[g0, g1, g2, g3] ++ ([PIGMPv3Query.packSQRV (s != 0) (n8 rv), n8 it] ++ be16 (n16 ips.length) ++ ips.flatten ++ spare), 4⟩ := by
        rw [← hdata]; rt_reads []
      have r8 : data.byteAt 8 = .ok (PIGMPv3Query.packSQRV (s != 0) (n8 rv)) := by rw [← hdata]; rt_reads [a8]
      have r9 : data.byteAt 9 = .ok (n8 it) := by rw [← hdata]; rt_reads [a9]
      have r10 : data.u16From 10 = .ok (n16 ips.length) := by rw [← hdata]; rt_reads [a10, b10]
      have rl : data.len = 12 + 4 * ips.length := by rw [← hdata]
      simp only [r0, r1, r2, r4, r8, r9, r10, rl, Res.bind_ok, n16_toNat _ hns, hrd]
      have c1 : ¬ (12 + 4 * ips.length < 12) := by omega
      have c2 : ¬ (12 + 4 * ips.length < 12 + ips.length * 4) := by omega
      simp [c1, c2, PIGMPv3Query.zero, l1, l2, hs, u8_n8, u16_n16, h1, h2, h3, hrv, h8, hns, Slice.bytes, makeCopy_self]
  · exact h.elim

example : IGMPv3Query.WFv (.obj "p.IGMPv3Query" [.num 0x11, .num 100, .num 0xabcd, .bytes [224, 0, 0, 1], .num 0, .num 1,
    .num 5, .num 125, .num 2, .list [.bytes [10, 0, 0, 1], .bytes [10, 0, 0, 2]]]) := by decide

/-! ### IGMPv3 group record and membership report (nested lists) -/

def kIGMPv3GroupRecord : KindOps :=
  ⟨PIGMPv3GroupRecord.lenM, PIGMPv3GroupRecord.marshalM, PIGMPv3GroupRecord.unmarshal, PIGMPv3GroupRecord.zero⟩

/-- well-formed IGMPv3 group record: 8-bit type, `AuxDataLen` = number of 32-bit auxiliary words present,
    `NumberOfSources` = number of 4-byte source addresses present, 4-byte multicast address, size fits 16 bits -/
def IGMPv3GroupRecord.WFv : V → Prop
  | .obj "p.IGMPv3GroupRecord" [.num ty, .num aux, .num ns, .bytes mc, .list srcs, .list auxd] =>
    ty < 256 ∧ aux < 256 ∧ aux = auxd.length ∧ ns = srcs.length ∧ mc.length = 4 ∧ 8 + 4 * aux + 4 * ns < 65536 ∧
      (∀ x ∈ srcs, isIP4 x) ∧ (∀ x ∈ auxd, isU32 x)
  | _ => False
instance : DecidablePred IGMPv3GroupRecord.WFv := fun v => by unfold IGMPv3GroupRecord.WFv; split <;> infer_instance

/-- encoded size of a group record -/
def recSize : V → Nat
  | .obj "p.IGMPv3GroupRecord" [_, .num aux, .num ns, _, _, _] => 8 + 4 * aux + 4 * ns
  | _ => 0

/-- a well-formed IGMPv3 group record (sources and auxiliary words) round-trips; trailing bytes are ignored -/
theorem igmpv3grouprecord_roundtrip (v : V) (h : IGMPv3GroupRecord.WFv v) : RoundTripPrefix kIGMPv3GroupRecord v := by
  unfold IGMPv3GroupRecord.WFv at h
  split at h
  · rename_i ty aux ns mc srcs auxd
    obtain ⟨h1, h2, rfl, rfl, h5, h6, h7, h8⟩ := h
    obtain ⟨ips, rfl, hips, hpl⟩ := ip4_list srcs h7
    obtain ⟨ws, rfl, hwp⟩ := u32_list auxd h8
    simp only [List.length_map] at h2 h6 ⊢
    obtain ⟨m0, m1, m2, m3, rfl⟩ := bytes_len4 mc h5
    obtain ⟨p1, p2, p3⟩ := ip4_pieces ips hips
    obtain ⟨q1, q2, q3, q4⟩ := u32_pieces ws
    have hfl := ip4_flatten_length ips hips
    have hlen := grouprec_len ws.length ips.length h2 h6
    have hns : ips.length < 65536 := by omega
    refine ⟨[n8 ty, n8 ws.length] ++ be16 (n16 ips.length) ++ [m0, m1, m2, m3] ++ ips.flatten ++ (ws.map be32).flatten,
      ((8 : UInt16) + ((n8 ws.length).toUInt64).toUInt16 * (4 : UInt16)) + n16 ips.length * (4 : UInt16), ?_⟩
    refine ⟨?_, ?_, ?_, ?_⟩
    · simp only [kIGMPv3GroupRecord, PIGMPv3GroupRecord.marshalM, PIGMPv3GroupRecord.bytes, PIGMPv3GroupRecord.len, Res.bind_ok,
        Gen.protocol.IGMPv3GroupRecord.Len, hlen, hpl, hwp]
      rw [pIpTo4_four _ h5, pCopyIn, pFitTo_self _ _ h5]
      rw [fill_ok _ _ (by
          intro p hp
          simp only [List.cons_append, List.nil_append, List.mem_cons, List.mem_append] at hp
          rcases hp with rfl | rfl | rfl | rfl | hp | hp
          all_goals first | (simp [Piece.Tight, pU8, pU16]; done) | exact p3 p hp | exact q3 p hp)
        (by simp [piecesLen, Piece.adv, pU8, pU16] at p2 q2 ⊢; omega)]
      simp [piecesBytes, Piece.bytes, pU8, pU16, same] at p1 q1 ⊢
      rw [p1, q1]
    · simp [kIGMPv3GroupRecord, PIGMPv3GroupRecord.lenM, PIGMPv3GroupRecord.len, same, Gen.protocol.IGMPv3GroupRecord.Len]
    · rw [hlen]; simp only [List.length_append, List.length_cons, List.length_nil, be16_length, hfl, q4]; omega
    · intro tail n hn1 hn2
      have hbl : ([n8 ty, n8 ws.length] ++ be16 (n16 ips.length) ++ [m0, m1, m2, m3] ++ ips.flatten ++
          (ws.map be32).flatten).length = 8 + 4 * ips.length + 4 * ws.length := by
        simp only [List.length_append, List.length_cons, List.length_nil, be16_length, hfl, q4]
      rw [hbl] at hn1
      rw [List.length_append, hbl] at hn2
      simp only [kIGMPv3GroupRecord]
      unfold PIGMPv3GroupRecord.unmarshal
      have hrd := readIPs_flatten ips hips ([n8 ty, n8 ws.length] ++ be16 (n16 ips.length) ++ [m0, m1, m2, m3])
        ((ws.map be32).flatten ++ tail) n
      rw [show ([n8 ty, n8 ws.length] ++ be16 (n16 ips.length) ++ [m0, m1, m2, m3]).length = 8 from rfl] at hrd
      have hrw := readU32s_flatten ws ([n8 ty, n8 ws.length] ++ be16 (n16 ips.length) ++ [m0, m1, m2, m3] ++ ips.flatten)
        tail n (by simp only [List.length_append, List.length_cons, List.length_nil, be16_length, hfl]; omega)
        (by simp only [List.length_append, List.length_cons, List.length_nil, be16_length, hfl, q4]; omega)
      rw [show ([n8 ty, n8 ws.length] ++ be16 (n16 ips.length) ++ [m0, m1, m2, m3] ++ ips.flatten).length
        = 8 + 4 * ips.length from by
          simp only [List.length_append, List.length_cons, List.length_nil, be16_length, hfl]] at hrw
      have hassoc : [n8 ty, n8 ws.length] ++ be16 (n16 ips.length) ++ [m0, m1, m2, m3] ++ ips.flatten ++
          ((ws.map be32).flatten ++ tail) = [n8 ty, n8 ws.length] ++ be16 (n16 ips.length) ++ [m0, m1, m2, m3] ++
          ips.flatten ++ (ws.map be32).flatten ++ tail := by simp only [List.append_assoc]
      rw [hassoc] at hrd
      generalize hdata : (⟨[n8 ty, n8 ws.length] ++ be16 (n16 ips.length) ++ [m0, m1, m2, m3] ++ ips.flatten ++
          (ws.map be32).flatten ++ tail, n⟩ : Slice) = data at hrd hrw ⊢
      have a0 : 0 < n := by omega
      have a1 : 1 < n := by omega
      have a2 : 2 ≤ n := by omega
      have b2 : 2 ≤ n - 2 := by omega
      have r0 : data.byteAt 0 = .ok (n8 ty) := by rw [← hdata]; rt_reads [a0]
      have r1 : data.byteAt 1 = .ok (n8 ws.length) := by rw [← hdata]; rt_reads [a1]
      have r2 : data.u16From 2 = .ok (n16 ips.length) := by rw [← hdata]; rt_reads [a2, b2]
      have r4 : data.sliceR 4 8 = .ok ⟨[m0, m1, m2, m3] ++ (ips.flatten ++ (ws.map be32).flatten ++ tail), 4⟩ := by
        rw [← hdata]; rt_reads []
      have rl : data.len = n := by rw [← hdata]
      simp only [r0, r1, r2, r4, rl, Res.bind_ok, n16_toNat _ hns, n8_toNat _ h2, hrd, hrw]
      have c1 : ¬ (n < 8) := by omega
      have c2 : ¬ (n < 8 + ws.length * 4 + ips.length * 4) := by omega
      simp [c1, c2, PIGMPv3GroupRecord.zero, u8_n8, u16_n16, h1, h2, hns, Slice.bytes, makeCopy_self]
  · exact h.elim

/-- for a well-formed record the three size computations agree: `Len()`, the decoder's `int` size, `recSize` (≥ 8) -/
theorem grouprec_sizes (r : V) (h : IGMPv3GroupRecord.WFv r) :
    PIGMPv3GroupRecord.trueSize r = .ok (recSize r) ∧ 8 ≤ recSize r ∧
      ∀ l, PIGMPv3GroupRecord.len r = .ok l → l.toNat = recSize r := by
  unfold IGMPv3GroupRecord.WFv at h
  split at h
  · rename_i ty aux ns mc srcs auxd
    obtain ⟨h1, h2, h3, h4, h5, h6, h7, h8⟩ := h
    refine ⟨?_, ?_, ?_⟩
    · simp only [PIGMPv3GroupRecord.trueSize, recSize, n8_toNat _ h2, n16_toNat ns (by omega)]
      congr 1; omega
    · simp only [recSize]; omega
    · intro l hl
      simp only [PIGMPv3GroupRecord.len, Gen.protocol.IGMPv3GroupRecord.Len] at hl
      cases hl
      rw [grouprec_len aux ns h2 h6]; rfl
  · exact h.elim

/-- what the round trip of one well-formed group record provides, in the terms the membership report uses -/
theorem grouprec_facts (r : V) (h : IGMPv3GroupRecord.WFv r) :
    ∃ bs l, PIGMPv3GroupRecord.bytes r = .ok bs ∧ PIGMPv3GroupRecord.len r = .ok l ∧ bs.length = l.toNat ∧
      l.toNat = recSize r ∧ PIGMPv3GroupRecord.trueSize r = .ok (recSize r) ∧ 8 ≤ recSize r ∧
      ∀ tail n, bs.length ≤ n → n ≤ (bs ++ tail).length →
        PIGMPv3GroupRecord.unmarshal PIGMPv3GroupRecord.zero ⟨bs ++ tail, n⟩ = .ok r := by
  obtain ⟨bs, l, h1, h2, h3, h4⟩ := igmpv3grouprecord_roundtrip r h
  simp only [kIGMPv3GroupRecord, PIGMPv3GroupRecord.marshalM, PIGMPv3GroupRecord.lenM] at h1 h2
  obtain ⟨b, hb, h1⟩ := bind_ok_inv _ _ _ h1
  obtain ⟨rfl, _⟩ := same_ok _ _ _ _ h1
  obtain ⟨l', hl', h2⟩ := bind_ok_inv _ _ _ h2
  obtain ⟨rfl, _⟩ := same_ok _ _ _ _ h2
  obtain ⟨q1, q3, q2⟩ := grouprec_sizes r h
  exact ⟨bs, l, hb, hl', h3, q2 l hl', q1, q3, h4⟩

/-- a list of well-formed group records: the encoder's pieces are the concatenation `W` of their encodings, and the
    decoder's record loop started at the beginning of `W` reads back exactly these records -/
theorem report_recs (rs : List V) (hwf : ∀ r ∈ rs, IGMPv3GroupRecord.WFv r) :
    ∃ W : Bytes, W.length = (rs.map recSize).sum ∧ 8 * rs.length ≤ W.length ∧
      (∃ ps ls, PIGMPv3MembershipReport.recPieces rs = .ok ps ∧ PIGMPv3MembershipReport.recLens rs = .ok ls ∧
        (ls.map UInt16.toNat).sum = W.length ∧ piecesBytes ps = W ∧ piecesLen ps = W.length ∧ ∀ p ∈ ps, p.Tight) ∧
      ∀ (pre tail : Bytes) (len : Nat), pre.length + W.length ≤ len → len ≤ (pre ++ W ++ tail).length →
        PIGMPv3MembershipReport.readRecs ⟨pre ++ W ++ tail, len⟩ pre.length rs.length = .ok rs := by
  induction rs with
  | nil =>
    exact ⟨[], rfl, Nat.le_refl _, ⟨[], [], rfl, rfl, rfl, rfl, rfl, by simp⟩, fun _ _ _ _ _ => rfl⟩
  | cons r rs ih =>
    obtain ⟨W', hW', hW8, ⟨ps', ls', hps0, hls0, hls1, hps2, hps3, hps4⟩, hrd⟩ := ih (fun x hx => hwf x (by simp [hx]))
    obtain ⟨bs, l, hb, hl, hbl, hsz, hts, hge, hdec⟩ := grouprec_facts r (hwf r (by simp))
    refine ⟨bs ++ W', ?_, ?_, ⟨pCopyAdv bs l.toNat :: ps', l :: ls', ?_, ?_, ?_, ?_, ?_, ?_⟩, ?_⟩
    · simp [hW', hbl, hsz]
    · simp; omega
    · simp [PIGMPv3MembershipReport.recPieces, hb, hl, hps0]
    · simp [PIGMPv3MembershipReport.recLens, hl, hls0]
    · simp [hls1, hbl]
    · simp [piecesBytes, Piece.bytes, pCopyAdv, ← hbl, zeros] at hps2 ⊢
      exact hps2
    · simp [piecesLen, Piece.adv, pCopyAdv, ← hbl] at hps3 ⊢
      exact hps3
    · intro p hp
      simp at hp
      rcases hp with rfl | hp
      · simp [Piece.Tight, pCopyAdv, hbl]
      · exact hps4 p hp
    · intro pre tail len h1 h2
      simp at h1 h2
      simp only [List.length_cons, PIGMPv3MembershipReport.readRecs]
      rw [Slice.fromR_ok _ _ (by show pre.length ≤ len; omega)]
      simp only [Res.bind_ok]
      have hd : List.drop pre.length (pre ++ (bs ++ W') ++ tail) = bs ++ (W' ++ tail) := by simp
      rw [hd, hdec (W' ++ tail) (len - pre.length) (by omega) (by simp; omega)]
      simp only [Res.bind_ok, hts]
      have := hrd (pre ++ bs) tail len (by simp; omega) (by simp; omega)
      simp only [List.length_append, List.append_assoc] at this
      rw [hbl, hsz] at this
      simp only [List.append_assoc]
      rw [this]
      rfl

/-- `IGMPv3MembershipReport` operations -/
def kIGMPv3MembershipReport : KindOps := ⟨PIGMPv3MembershipReport.lenM, PIGMPv3MembershipReport.marshalM,
  PIGMPv3MembershipReport.unmarshal, PIGMPv3MembershipReport.zero⟩

/-- well-formed IGMPv3 membership report: 8-bit type, 16-bit checksum, the two reserved fields 0 (they are not written to
    the wire), `NumberOfGroups` = number of (well-formed) group records present, size fits 16 bits -/
def IGMPv3MembershipReport.WFv : V → Prop
  | .obj "p.IGMPv3MembershipReport" [.num ty, .num r1, .num cs, .num r2, .num ng, .list rs] =>
    ty < 256 ∧ r1 = 0 ∧ cs < 65536 ∧ r2 = 0 ∧ ng = rs.length ∧ (∀ r ∈ rs, IGMPv3GroupRecord.WFv r) ∧
      8 + (rs.map recSize).sum < 65536
  | _ => False
instance : DecidablePred IGMPv3MembershipReport.WFv := fun v => by
  unfold IGMPv3MembershipReport.WFv; split <;> infer_instance

/-- a well-formed IGMPv3 membership report (any number of group records) round-trips -/
theorem igmpv3membershipreport_roundtrip (v : V) (h : IGMPv3MembershipReport.WFv v) :
    RoundTrip kIGMPv3MembershipReport v := by
  unfold IGMPv3MembershipReport.WFv at h
  split at h
  · rename_i ty r1 cs r2 ng rs
    obtain ⟨h1, rfl, h3, rfl, rfl, h6, h7⟩ := h
    obtain ⟨W, hW, hW8, ⟨ps, ls, hps0, hls0, hls1, hps2, hps3, hps4⟩, hrd⟩ := report_recs rs h6
    have hsum : (sum16 ls).toNat = W.length := by rw [sum16_toNat ls (by omega), hls1]
    have hlen : ((8 : UInt16) + sum16 ls).toNat = 8 + W.length := by
      rw [UInt16.toNat_add, hsum]
      have : (8 : UInt16).toNat = 8 := rfl
      rw [this]; omega
    have hrs : rs.length < 65536 := by omega
    refine ⟨[n8 ty, 0] ++ be16 (n16 cs) ++ [0, 0] ++ be16 (n16 rs.length) ++ W, (8 : UInt16) + sum16 ls, ?_⟩
    refine ⟨?_, ?_, ?_, ?_⟩
    · simp only [kIGMPv3MembershipReport, PIGMPv3MembershipReport.marshalM, PIGMPv3MembershipReport.len, Res.bind_ok, hls0, hlen,
        hps0]
      obtain ⟨o, ho⟩ := fill_ok_le (8 + W.length) [pU8 ty, pSkip 1, pU16 cs, pSkip 2, pU16 rs.length]
        (by simp [Piece.Tight, pU8, pU16, pSkip]) (by simp [piecesLen, Piece.adv, pU8, pU16, pSkip])
      rw [ho]
      simp only [Res.bind_ok]
      rw [fill_ok _ _ (by
          intro p hp
          simp only [List.cons_append, List.nil_append, List.mem_cons] at hp
          rcases hp with rfl | rfl | rfl | rfl | rfl | hp
          all_goals first | (simp [Piece.Tight, pU8, pU16, pSkip]; done) | exact hps4 p hp)
        (by simp [piecesLen, Piece.adv, pU8, pU16, pSkip] at hps3 ⊢; omega)]
      simp [piecesBytes, Piece.bytes, pU8, pU16, pSkip, same, zeros] at hps2 ⊢
      exact hps2
    · simp [kIGMPv3MembershipReport, PIGMPv3MembershipReport.lenM, PIGMPv3MembershipReport.len, same, hls0]
    · rw [hlen]; simp only [List.length_append, List.length_cons, List.length_nil, be16_length]
    · intro spare
      have hbl : ([n8 ty, 0] ++ be16 (n16 cs) ++ [0, 0] ++ be16 (n16 rs.length) ++ W).length = 8 + W.length := by
        simp only [List.length_append, List.length_cons, List.length_nil, be16_length]
      rw [hbl]
      simp only [kIGMPv3MembershipReport]
      unfold PIGMPv3MembershipReport.unmarshal
      have hrd' := hrd ([n8 ty, 0] ++ be16 (n16 cs) ++ [0, 0] ++ be16 (n16 rs.length)) spare (8 + W.length)
        (by simp) (by simp only [List.length_append, List.length_cons, List.length_nil, be16_length]; omega)
      rw [show ([n8 ty, 0] ++ be16 (n16 cs) ++ [0, 0] ++ be16 (n16 rs.length) : Bytes).length = 8 from rfl] at hrd'
      generalize hdata : (⟨[n8 ty, 0] ++ be16 (n16 cs) ++ [0, 0] ++ be16 (n16 rs.length) ++ W ++ spare, 8 + W.length⟩ : Slice)
        = data at hrd' ⊢
      have a0 : 0 < 8 + W.length := by omega
      have a2 : 2 ≤ 8 + W.length := by omega
      have a6 : 6 ≤ 8 + W.length := by omega
      have b2 : 2 ≤ 8 + W.length - 2 := by omega
      have b6 : 2 ≤ 8 + W.length - 6 := by omega
      have r0 : data.byteAt 0 = .ok (n8 ty) := by rw [← hdata]; rt_reads [a0]
      have r2 : data.u16From 2 = .ok (n16 cs) := by rw [← hdata]; rt_reads [a2, b2]
      have r6 : data.u16From 6 = .ok (n16 rs.length) := by rw [← hdata]; rt_reads [a6, b6]
      have rl : data.len = 8 + W.length := by rw [← hdata]
      simp only [r0, r2, r6, rl, Res.bind_ok, n16_toNat _ hrs, hrd']
      have c1 : ¬ (8 + W.length < 8) := by omega
      simp [c1, PIGMPv3MembershipReport.zero, u8_n8, u16_n16, h1, h3, hrs]
  · exact h.elim

example : IGMPv3GroupRecord.WFv (.obj "p.IGMPv3GroupRecord" [.num 1, .num 1, .num 2, .bytes [224, 0, 0, 9],
    .list [.bytes [10, 0, 0, 1], .bytes [10, 0, 0, 2]], .list [.num 0xdeadbeef]]) := by decide

example : IGMPv3MembershipReport.WFv (.obj "p.IGMPv3MembershipReport" [.num 0x22, .num 0, .num 0xabcd, .num 0, .num 2,
    .list [.obj "p.IGMPv3GroupRecord" [.num 1, .num 1, .num 2, .bytes [224, 0, 0, 9],
             .list [.bytes [10, 0, 0, 1], .bytes [10, 0, 0, 2]], .list [.num 0xdeadbeef]],
           .obj "p.IGMPv3GroupRecord" [.num 4, .num 0, .num 0, .bytes [224, 0, 0, 10], .list [], .list []]]]) := by decide

/-! ### IPv4 (container: header lanes, options, payload chosen by the protocol number) -/

def kBuffer : KindOps := ⟨UBuffer.lenM, UBuffer.marshalM, UBuffer.unmarshal, UBuffer.zero⟩
/-- `IPv4` operations at top level -/
def kIPv4 : KindOps := ⟨PIPv4.lenM, PIPv4.marshalM, PIPv4.unmarshal, PIPv4.zero⟩

/-- well-formed opaque payload: its size fits the 16-bit `Len()` -/
def Buffer.WFv : V → Prop
  | .obj "u.Buffer" [.bytes c] => c.length < 65536
  | _ => False
instance : DecidablePred Buffer.WFv := fun v => by unfold Buffer.WFv; split <;> infer_instance

/-- an opaque payload round-trips -/
theorem buffer_roundtrip (v : V) (h : Buffer.WFv v) : RoundTrip kBuffer v := by
  unfold Buffer.WFv at h
  split at h
  · rename_i c
    refine ⟨c, n16 c.length, ?_, ?_, ?_, ?_⟩
    · simp [kBuffer, UBuffer.marshalM, UBuffer.content, same]
    · simp [kBuffer, UBuffer.lenM, UBuffer.content, same]
    · rw [n16_toNat _ h]
    · intro spare
      simp [kBuffer, UBuffer.unmarshal, UBuffer.mk, Slice.bytes]
  · exact h.elim

/-- the payload an IPv4 header with protocol number `pr` may carry so that the decoder finds it again:
    ICMP for 1, UDP for 17, an opaque buffer for any other protocol -/
def IPv4.PayloadOK (pr : Nat) (dat : V) : Prop :=
  (pr = Gen.protocol.Type_ICMP ∧ ICMP.WFv dat) ∨ (pr = Gen.protocol.Type_UDP ∧ UDP.WFv dat) ∨
    (pr ≠ Gen.protocol.Type_ICMP ∧ pr ≠ Gen.protocol.Type_UDP ∧ Buffer.WFv dat)
instance (pr : Nat) (dat : V) : Decidable (IPv4.PayloadOK pr dat) := by unfold IPv4.PayloadOK; infer_instance

/-- the decoder's payload choice as a function of the protocol byte -/
def ipv4PayloadDecode (pr : UInt8) (rest : Slice) : R V :=
  if pr.toNat = Gen.protocol.Type_ICMP then PICMP.unmarshal PIPv4.newICMP rest
  else if pr.toNat = Gen.protocol.Type_UDP then PUDP.unmarshal PIPv4.newUDP rest
  else UBuffer.unmarshal UBuffer.zero rest

/-- well-formed values have the kind their predicate names -/
theorem icmp_kind_of_wf (v : V) (h : ICMP.WFv v) : v.kind = "p.ICMP" := by
  unfold ICMP.WFv at h; split at h
  · rfl
  · exact h.elim
/-- well-formed values have the kind their predicate names -/
theorem udp_kind_of_wf (v : V) (h : UDP.WFv v) : v.kind = "p.UDP" := by
  unfold UDP.WFv at h; split at h
  · rfl
  · exact h.elim
/-- well-formed values have the kind their predicate names -/
theorem buffer_kind_of_wf (v : V) (h : Buffer.WFv v) : v.kind = "u.Buffer" := by
  unfold Buffer.WFv at h; split at h
  · rfl
  · exact h.elim

/-- what an admissible IPv4 payload provides to the container: the `util.Message` dispatch reaches its kind, it
    round-trips, and the decoder's choice for `pr` is its decoder -/
theorem ipv4_payload_facts (pr : Nat) (hpr : pr < 256) (dat : V) (h : IPv4.PayloadOK pr dat) (d : Nat) :
    dat.isNil = false ∧ ∃ pb pl, protoAnyLenD (d + 1) dat = .ok (pl, dat) ∧ protoAnyMarshalD (d + 1) dat = .ok (pb, dat) ∧
      pb.length = pl.toNat ∧ ∀ spare, ipv4PayloadDecode (n8 pr) ⟨pb ++ spare, pb.length⟩ = .ok dat := by
  have hn : (n8 pr).toNat = pr := n8_toNat _ hpr
  rcases h with ⟨hp, hw⟩ | ⟨hp, hw⟩ | ⟨hp, hq, hw⟩
  · have hk := icmp_kind_of_wf dat hw
    obtain ⟨pb, pl, h1, h2, h3, h4⟩ := icmp_roundtrip dat hw
    refine ⟨?_, pb, pl, ?_, ?_, h3, ?_⟩
    · cases dat <;> simp_all [V.kind, V.isNil]
    · simp only [protoAnyLenD, hk]; exact h2
    · simp only [protoAnyMarshalD, hk]; exact h1
    · intro spare
      unfold ipv4PayloadDecode
      rw [hn, if_pos hp]
      exact h4 spare
  · have hk := udp_kind_of_wf dat hw
    obtain ⟨pb, pl, h1, h2, h3, h4⟩ := udp_roundtrip dat hw
    have hne : pr ≠ Gen.protocol.Type_ICMP := by rw [hp]; decide
    refine ⟨?_, pb, pl, ?_, ?_, h3, ?_⟩
    · cases dat <;> simp_all [V.kind, V.isNil]
    · simp only [protoAnyLenD, hk]; exact h2
    · simp only [protoAnyMarshalD, hk]; exact h1
    · intro spare
      unfold ipv4PayloadDecode
      rw [hn, if_neg hne, if_pos hp]
      exact h4 spare
  · have hk := buffer_kind_of_wf dat hw
    obtain ⟨pb, pl, h1, h2, h3, h4⟩ := buffer_roundtrip dat hw
    refine ⟨?_, pb, pl, ?_, ?_, h3, ?_⟩
    · cases dat <;> simp_all [V.kind, V.isNil]
    · simp only [protoAnyLenD, hk]; exact h2
    · simp only [protoAnyMarshalD, hk]; exact h1
    · intro spare
      unfold ipv4PayloadDecode
      rw [hn, if_neg hp, if_neg hq]
      exact h4 spare

/-- encoded size of an admissible IPv4 / IPv6 payload -/
def paySize : V → Nat
  | .obj "p.ICMP" [_, _, _, .bytes d] => 4 + d.length
  | .obj "p.UDP" [_, _, _, _, .bytes d] => 8 + d.length
  | .obj "u.Buffer" [.bytes c] => c.length
  | _ => 0

/-- `Len()` of a well-formed ICMP message is `paySize` -/
theorem icmp_size (dat : V) (h : ICMP.WFv dat) (l : UInt16) (hl : PICMP.lenM dat = .ok (l, dat)) : l.toNat = paySize dat := by
  unfold ICMP.WFv at h
  split at h
  · simp [PICMP.lenM, PICMP.len, same] at hl
    rw [← hl, n16_toNat _ h.2.2.2]; rfl
  · exact h.elim
/-- `Len()` of a well-formed UDP datagram is `paySize` -/
theorem udp_size (dat : V) (h : UDP.WFv dat) (l : UInt16) (hl : PUDP.lenM dat = .ok (l, dat)) : l.toNat = paySize dat := by
  unfold UDP.WFv at h
  split at h
  · simp [PUDP.lenM, PUDP.len, same] at hl
    rw [← hl, n16_toNat _ h.2.2.2.2]; rfl
  · exact h.elim
/-- `Len()` of a well-formed buffer is `paySize` -/
theorem buffer_size (dat : V) (h : Buffer.WFv dat) (l : UInt16) (hl : UBuffer.lenM dat = .ok (l, dat)) : l.toNat = paySize dat := by
  unfold Buffer.WFv at h
  split at h
  · simp [UBuffer.lenM, UBuffer.content, same] at hl
    rw [← hl, n16_toNat _ h]; rfl
  · exact h.elim

/-- the size the `util.Message` dispatch reports for an admissible IPv4 payload is `paySize` -/
theorem ipv4_payload_size (pr : Nat) (dat : V) (h : IPv4.PayloadOK pr dat) (d : Nat) (pl : UInt16)
    (hl : protoAnyLenD (d + 1) dat = .ok (pl, dat)) : pl.toNat = paySize dat := by
  rcases h with ⟨_, hw⟩ | ⟨_, hw⟩ | ⟨_, _, hw⟩
  · have hk := icmp_kind_of_wf dat hw
    simp only [protoAnyLenD, hk] at hl
    exact icmp_size dat hw pl hl
  · have hk := udp_kind_of_wf dat hw
    simp only [protoAnyLenD, hk] at hl
    exact udp_size dat hw pl hl
  · have hk := buffer_kind_of_wf dat hw
    simp only [protoAnyLenD, hk] at hl
    exact buffer_size dat hw pl hl

/-- well-formed IPv4 packet: every field within its bit width (version/IHL nibbles, DSCP 6 bits, ECN 2 bits, flags 3 bits,
    fragment offset 13 bits), 5 ≤ IHL, 4-byte addresses, options filling the header up to `4·IHL` bytes, a payload the
    protocol number announces, total size within 16 bits -/
def IPv4.WFv : V → Prop
  | .obj "p.IPv4" [.num ver, .num ihl, .num dscp, .num ecn, .num ln, .num ident, .num fl, .num fo, .num ttl, .num pr, .num cs,
      .bytes src, .bytes dst, .obj "u.Buffer" [.bytes ob], dat] =>
    ver < 16 ∧ 5 ≤ ihl ∧ ihl < 16 ∧ dscp < 64 ∧ ecn < 4 ∧ ln < 65536 ∧ ident < 65536 ∧ fl < 8 ∧ fo < 8192 ∧ ttl < 256 ∧
      pr < 256 ∧ cs < 65536 ∧ src.length = 4 ∧ dst.length = 4 ∧ ob.length + 20 = 4 * ihl ∧ IPv4.PayloadOK pr dat ∧
      4 * ihl + paySize dat < 65536
  | _ => False
instance : DecidablePred IPv4.WFv := fun v => by unfold IPv4.WFv; split <;> infer_instance

/-- the IPv4 operations as a container at nesting depth `d + 1` sees them -/
def kIPv4At (d : Nat) : KindOps :=
  ⟨PIPv4.lenW (protoAnyLenD (d + 1)), PIPv4.marshalW (protoAnyLenD (d + 1)) (protoAnyMarshalD (d + 1)), PIPv4.unmarshal, PIPv4.zero⟩

/-- a well-formed IPv4 packet round-trips, at any nesting depth (so it can be used inside an Ethernet frame) -/
theorem ipv4_roundtrip_at (d : Nat) (v : V) (h : IPv4.WFv v) : RoundTrip (kIPv4At d) v := by
  unfold IPv4.WFv at h
  split at h
  · rename_i ver ihl dscp ecn ln ident fl fo ttl pr cs src dst ob dat
    obtain ⟨h1, h2, h3, h4, h5, h6, h7, h8, h9, h10, h11, h12, h13, h14, h15, h16, h17⟩ := h
    obtain ⟨hnil, pb, pl, hpl, hpm, hpbl, hpdec⟩ := ipv4_payload_facts pr h11 dat h16 d
    have hps := ipv4_payload_size pr dat h16 d pl hpl
    obtain ⟨hfix, hhl, hmul⟩ := ipv4_hdrlen ihl h2 h3
    obtain ⟨s0, s1, s2, s3, rfl⟩ := bytes_len4 src h13
    obtain ⟨d0, d1, d2, d3, rfl⟩ := bytes_len4 dst h14
    have hL : (PIPv4.hdrLen (n8 ihl) + pl).toNat = 4 * ihl + pb.length := by
      rw [UInt16.toNat_add, hhl, hpbl]; omega
    have hlenW : PIPv4.lenW (protoAnyLenD (d + 1)) (.obj "p.IPv4" [.num ver, .num ihl, .num dscp, .num ecn, .num ln, .num ident, .num fl,
        .num fo, .num ttl, .num pr, .num cs, .bytes [s0, s1, s2, s3], .bytes [d0, d1, d2, d3], .obj "u.Buffer" [.bytes ob], dat])
        = .ok (PIPv4.hdrLen (n8 ihl) + pl, .obj "p.IPv4" [.num ver, .num ihl, .num dscp, .num ecn, .num ln, .num ident, .num fl,
        .num fo, .num ttl, .num pr, .num cs, .bytes [s0, s1, s2, s3], .bytes [d0, d1, d2, d3], .obj "u.Buffer" [.bytes ob], dat]) := by
      simp only [PIPv4.lenW, hfix, hnil, hpl, Res.bind_ok, u8_n8 ihl (by omega)]
      rfl
    obtain ⟨l1, l2⟩ := lane_ipv4_version_ihl (n8 ver) (n8 ihl) (by rw [n8_toNat _ (by omega)]; exact h1)
      (by rw [n8_toNat _ (by omega)]; exact h3)
    obtain ⟨l3, l4⟩ := lane_ipv4_dscp_ecn (n8 dscp) (n8 ecn) (by rw [n8_toNat _ (by omega)]; exact h4)
      (by rw [n8_toNat _ (by omega)]; exact h5)
    obtain ⟨l5, l6⟩ := lane_ipv4_flags_frag (n16 fl) (n16 fo) (by rw [n16_toNat _ (by omega)]; exact h8)
      (by rw [n16_toNat _ (by omega)]; exact h9)
    refine ⟨[PIPv4.packVerIHL (n8 ver) (n8 ihl), PIPv4.packDscpEcn (n8 dscp) (n8 ecn)] ++ be16 (n16 ln) ++ be16 (n16 ident) ++
      be16 (PIPv4.packFlagsFrag (n16 fl) (n16 fo)) ++ [n8 ttl, n8 pr] ++ be16 (n16 cs) ++ [s0, s1, s2, s3] ++ [d0, d1, d2, d3] ++ ob
      ++ pb, PIPv4.hdrLen (n8 ihl) + pl, ?_⟩
    refine ⟨?_, ?_, ?_, ?_⟩
    · simp only [kIPv4At, PIPv4.marshalW, hlenW, Res.bind_ok, UBuffer.content, hL, hnil, hpm]
      have hpre : ∀ p ∈ [Piece.put [PIPv4.packVerIHL (n8 ver) (n8 ihl)], Piece.put [PIPv4.packDscpEcn (n8 dscp) (n8 ecn)], pU16 ln,
              pU16 ident, Piece.put (be16 (PIPv4.packFlagsFrag (n16 fl) (n16 fo))), pU8 ttl, pU8 pr, pU16 cs,
              pCopyAdv (pIpTo4 [s0, s1, s2, s3]) 4, pCopyAdv (pIpTo4 [d0, d1, d2, d3]) 4, pCopy ob], p.Tight := by
        simp [Piece.Tight, pU8, pU16, pCopy, pCopyAdv, pIpTo4_four _ h13, pIpTo4_four _ h14]
      have hplen : piecesLen [Piece.put [PIPv4.packVerIHL (n8 ver) (n8 ihl)], Piece.put [PIPv4.packDscpEcn (n8 dscp) (n8 ecn)], pU16 ln,
              pU16 ident, Piece.put (be16 (PIPv4.packFlagsFrag (n16 fl) (n16 fo))), pU8 ttl, pU8 pr, pU16 cs,
              pCopyAdv (pIpTo4 [s0, s1, s2, s3]) 4, pCopyAdv (pIpTo4 [d0, d1, d2, d3]) 4, pCopy ob] = 4 * ihl := by
        simp [piecesLen, Piece.adv, pU8, pU16, pCopy, pCopyAdv]; omega
      have hpb : piecesBytes [Piece.put [PIPv4.packVerIHL (n8 ver) (n8 ihl)], Piece.put [PIPv4.packDscpEcn (n8 dscp) (n8 ecn)], pU16 ln,
              pU16 ident, Piece.put (be16 (PIPv4.packFlagsFrag (n16 fl) (n16 fo))), pU8 ttl, pU8 pr, pU16 cs,
              pCopyAdv (pIpTo4 [s0, s1, s2, s3]) 4, pCopyAdv (pIpTo4 [d0, d1, d2, d3]) 4, pCopy ob] =
          [PIPv4.packVerIHL (n8 ver) (n8 ihl), PIPv4.packDscpEcn (n8 dscp) (n8 ecn)] ++ be16 (n16 ln) ++ be16 (n16 ident) ++
          be16 (PIPv4.packFlagsFrag (n16 fl) (n16 fo)) ++ [n8 ttl, n8 pr] ++ be16 (n16 cs) ++ [s0, s1, s2, s3] ++ [d0, d1, d2, d3] ++ ob := by
        simp [piecesBytes, Piece.bytes, pU8, pU16, pCopy, pCopyAdv, pIpTo4_four _ h13, pIpTo4_four _ h14, zeros]
      rw [fill_exact _ _ hpre (by rw [hplen]; omega), hplen, hpb]
      simp only [Res.bind_ok, Bool.false_eq_true, if_false]
      have hfl : ([PIPv4.packVerIHL (n8 ver) (n8 ihl), PIPv4.packDscpEcn (n8 dscp) (n8 ecn)] ++ be16 (n16 ln) ++ be16 (n16 ident) ++
          be16 (PIPv4.packFlagsFrag (n16 fl) (n16 fo)) ++ [n8 ttl, n8 pr] ++ be16 (n16 cs) ++ [s0, s1, s2, s3] ++ [d0, d1, d2, d3] ++ ob).length
          = 4 * ihl := by
        simp only [List.length_append, List.length_cons, List.length_nil, be16_length]; omega
      have hk : 4 * ihl + pb.length - 4 * ihl = pb.length := by omega
      rw [hk, ← hfl, fillFrom_exact _ [pCopy pb] pb.length (by simp [Piece.Tight, pCopy]) (by simp [piecesLen, Piece.adv, pCopy])]
      simp [piecesBytes, Piece.bytes, piecesLen, Piece.adv, pCopy, zeros]
    · simp only [kIPv4At, hlenW]
    · rw [hL]; simp only [List.length_append, List.length_cons, List.length_nil, be16_length]; omega
    · intro spare
      have hbl : ([PIPv4.packVerIHL (n8 ver) (n8 ihl), PIPv4.packDscpEcn (n8 dscp) (n8 ecn)] ++ be16 (n16 ln) ++ be16 (n16 ident) ++
          be16 (PIPv4.packFlagsFrag (n16 fl) (n16 fo)) ++ [n8 ttl, n8 pr] ++ be16 (n16 cs) ++ [s0, s1, s2, s3] ++ [d0, d1, d2, d3] ++ ob
          ++ pb).length = 4 * ihl + pb.length := by
        simp only [List.length_append, List.length_cons, List.length_nil, be16_length]; omega
      rw [hbl]
      simp only [kIPv4At]
      unfold PIPv4.unmarshal
      generalize hdata : (⟨[PIPv4.packVerIHL (n8 ver) (n8 ihl), PIPv4.packDscpEcn (n8 dscp) (n8 ecn)] ++ be16 (n16 ln) ++
          be16 (n16 ident) ++ be16 (PIPv4.packFlagsFrag (n16 fl) (n16 fo)) ++ [n8 ttl, n8 pr] ++ be16 (n16 cs) ++ [s0, s1, s2, s3] ++
          [d0, d1, d2, d3] ++ ob ++ pb ++ spare, 4 * ihl + pb.length⟩ : Slice) = data
      have a0 : 0 < 4 * ihl + pb.length := by omega
      have a1 : 1 < 4 * ihl + pb.length := by omega
      have a8 : 8 < 4 * ihl + pb.length := by omega
      have a9 : 9 < 4 * ihl + pb.length := by omega
      have c2 : 2 ≤ 4 * ihl + pb.length := by omega
      have c4 : 4 ≤ 4 * ihl + pb.length := by omega
      have c6 : 6 ≤ 4 * ihl + pb.length := by omega
      have c10 : 10 ≤ 4 * ihl + pb.length := by omega
      have b2 : 2 ≤ 4 * ihl + pb.length - 2 := by omega
      have b4 : 2 ≤ 4 * ihl + pb.length - 4 := by omega
      have b6 : 2 ≤ 4 * ihl + pb.length - 6 := by omega
      have b10 : 2 ≤ 4 * ihl + pb.length - 10 := by omega
      have r0 : data.byteAt 0 = .ok (PIPv4.packVerIHL (n8 ver) (n8 ihl)) := by rw [← hdata]; rt_reads [a0]
      have r1 : data.byteAt 1 = .ok (PIPv4.packDscpEcn (n8 dscp) (n8 ecn)) := by rw [← hdata]; rt_reads [a1]
      have r2 : data.u16From 2 = .ok (n16 ln) := by rw [← hdata]; rt_reads [c2, b2]
      have r4 : data.u16From 4 = .ok (n16 ident) := by rw [← hdata]; rt_reads [c4, b4]
      have r6 : data.u16From 6 = .ok (PIPv4.packFlagsFrag (n16 fl) (n16 fo)) := by rw [← hdata]; rt_reads [c6, b6]
      have r8 : data.byteAt 8 = .ok (n8 ttl) := by rw [← hdata]; rt_reads [a8]
      have r9 : data.byteAt 9 = .ok (n8 pr) := by rw [← hdata]; rt_reads [a9]
      have r10 : data.u16From 10 = .ok (n16 cs) := by rw [← hdata]; rt_reads [c10, b10]
      have r12 : data.sliceR 12 16 = .ok ⟨[s0, s1, s2, s3] ++ ([d0, d1, d2, d3] ++ ob ++ pb ++ spare), 4⟩ := by
        rw [← hdata]; rt_reads []
      have r16 : data.sliceR 16 20 = .ok ⟨[d0, d1, d2, d3] ++ (ob ++ pb ++ spare), 4⟩ := by
        rw [← hdata]; rt_reads []
      have r20 : data.sliceR 20 (4 * ihl) = .ok ⟨ob ++ (pb ++ spare), ob.length⟩ := by
        rw [← hdata]
        rw [Slice.sliceR_ok _ _ _ (by omega) (by simp only [List.length_append, List.length_cons, List.length_nil, be16_length]; omega)]
        have : 4 * ihl - 20 = ob.length := by omega
        rw [this]
        simp [be16_cells]
      have rr : data.fromR (4 * ihl) = .ok ⟨pb ++ spare, pb.length⟩ := by
        rw [← hdata]
        rw [Slice.fromR_ok _ _ (by show 4 * ihl ≤ 4 * ihl + pb.length; omega)]
        have hpre : ([PIPv4.packVerIHL (n8 ver) (n8 ihl), PIPv4.packDscpEcn (n8 dscp) (n8 ecn)] ++ be16 (n16 ln) ++
          be16 (n16 ident) ++ be16 (PIPv4.packFlagsFrag (n16 fl) (n16 fo)) ++ [n8 ttl, n8 pr] ++ be16 (n16 cs) ++ [s0, s1, s2, s3] ++
          [d0, d1, d2, d3] ++ ob).length = 4 * ihl := by
          simp only [List.length_append, List.length_cons, List.length_nil, be16_length]; omega
        congr 2
        · rw [List.append_assoc _ pb spare, ← hpre, List.drop_left]
        · show 4 * ihl + pb.length - 4 * ihl = pb.length; omega
      have rl : data.len = 4 * ihl + pb.length := by rw [← hdata]
      simp only [r0, r1, r2, r4, r6, r8, r9, r10, r12, r16, rl, Res.bind_ok, l2]
      have e1 : ¬ (4 * ihl + pb.length < 20) := by omega
      have e2 : ¬ (n8 ihl < 5) := by
        rw [UInt8.lt_iff_toNat_lt, n8_toNat _ (by omega)]
        have : (5 : UInt8).toNat = 5 := rfl
        omega
      have e3 : ¬ ((n8 ihl).toNat * 4 > 4 * ihl + pb.length) := by rw [n8_toNat _ (by omega)]; omega
      simp only [e1, e2, e3, if_false, Bool.false_or, decide_false, hmul, r20, rr, Res.bind_ok, Bool.false_eq_true]
      have hdec := hpdec spare
      unfold ipv4PayloadDecode at hdec
      simp only [UBuffer.unmarshal, Res.bind_ok]
      have g1 : ver < 256 := by omega
      have g2 : ihl < 256 := by omega
      have g3 : dscp < 256 := by omega
      have g4 : ecn < 256 := by omega
      have g5 : fl < 65536 := by omega
      have g6 : fo < 65536 := by omega
      by_cases hp : (n8 pr).toNat = Gen.protocol.Type_ICMP
      · rw [if_pos hp] at hdec ⊢
        rw [hdec]
        simp [UBuffer.mk, Slice.bytes, l1, l3, l4, l5, l6, u8_n8, u16_n16, h6, h7, h10, h11, h12,
          makeCopy_self, g1, g2, g3, g4, g5, g6]
      · rw [if_neg hp] at hdec ⊢
        by_cases hq : (n8 pr).toNat = Gen.protocol.Type_UDP
        · rw [if_pos hq] at hdec ⊢
          rw [hdec]
          simp [UBuffer.mk, Slice.bytes, l1, l3, l4, l5, l6, u8_n8, u16_n16, h6, h7, h10, h11, h12,
            makeCopy_self, g1, g2, g3, g4, g5, g6]
        · rw [if_neg hq] at hdec ⊢
          simp only [UBuffer.unmarshal, Res.ok.injEq] at hdec
          rw [hdec]
          simp [UBuffer.mk, Slice.bytes, l1, l3, l4, l5, l6, u8_n8, u16_n16, h6, h7, h10, h11, h12,
            makeCopy_self, g1, g2, g3, g4, g5, g6]
  · exact h.elim

/-- a well-formed IPv4 packet (header lanes, options, ICMP / UDP / opaque payload) round-trips -/
theorem ipv4_roundtrip (v : V) (h : IPv4.WFv v) : RoundTrip kIPv4 v := ipv4_roundtrip_at 15 v h

example : IPv4.WFv (.obj "p.IPv4" [.num 4, .num 6, .num 10, .num 1, .num 31, .num 0x1234, .num 2, .num 100, .num 64, .num 1,
    .num 0xbeef, .bytes [10, 0, 0, 1], .bytes [10, 0, 0, 2], .obj "u.Buffer" [.bytes [9, 9, 9, 9]],
    .obj "p.ICMP" [.num 8, .num 0, .num 0xf7ff, .bytes [1, 2, 3]]]) := by decide

/-! ### IPv6 (container: version / class / flow-label lanes, payload chosen by the next-header value) -/

/-- the payload an IPv6 packet whose header chain ends with next-header value `nx` may carry so that the decoder
    finds it again: ICMPv6 (decoded as `p.ICMP`) for 58, UDP for 17, an opaque buffer otherwise -/
def IPv6.PayloadOK (nx : Nat) (dat : V) : Prop :=
  (nx = Gen.protocol.Type_IPv6ICMP ∧ ICMP.WFv dat) ∨ (nx = Gen.protocol.Type_UDP ∧ UDP.WFv dat) ∨
    (nx ≠ Gen.protocol.Type_IPv6ICMP ∧ nx ≠ Gen.protocol.Type_UDP ∧ Buffer.WFv dat)
instance (nx : Nat) (dat : V) : Decidable (IPv6.PayloadOK nx dat) := by unfold IPv6.PayloadOK; infer_instance

/-- the decoder's payload choice as a function of the last next-header value -/
def ipv6PayloadDecode (nx : UInt8) (rest : Slice) : R V :=
  if nx.toNat = Gen.protocol.Type_IPv6ICMP then PICMP.unmarshal PIPv4.newICMP rest
  else if nx.toNat = Gen.protocol.Type_UDP then PUDP.unmarshal PIPv4.newUDP rest
  else UBuffer.unmarshal UBuffer.zero rest

/-- what an admissible IPv6 payload provides to the container: the dispatch reaches its kind, it round-trips, its size
    is `paySize`, and the decoder's choice for the last next-header value `nx` is its decoder -/
theorem ipv6_payload_facts (nx : Nat) (hnx : nx < 256) (dat : V) (h : IPv6.PayloadOK nx dat) (d : Nat) :
    dat.isNil = false ∧ ∃ pb pl, protoAnyLenD (d + 1) dat = .ok (pl, dat) ∧ protoAnyMarshalD (d + 1) dat = .ok (pb, dat) ∧
      pb.length = pl.toNat ∧ pl.toNat = paySize dat ∧ ∀ spare, ipv6PayloadDecode (n8 nx) ⟨pb ++ spare, pb.length⟩ = .ok dat := by
  have hn : (n8 nx).toNat = nx := n8_toNat _ hnx
  rcases h with ⟨hp, hw⟩ | ⟨hp, hw⟩ | ⟨hp, hq, hw⟩
  · have hk := icmp_kind_of_wf dat hw
    obtain ⟨pb, pl, h1, h2, h3, h4⟩ := icmp_roundtrip dat hw
    refine ⟨?_, pb, pl, ?_, ?_, h3, icmp_size dat hw pl h2, ?_⟩
    · cases dat <;> simp_all [V.kind, V.isNil]
    · simp only [protoAnyLenD, hk]; exact h2
    · simp only [protoAnyMarshalD, hk]; exact h1
    · intro spare
      unfold ipv6PayloadDecode
      rw [hn, if_pos hp]
      exact h4 spare
  · have hk := udp_kind_of_wf dat hw
    obtain ⟨pb, pl, h1, h2, h3, h4⟩ := udp_roundtrip dat hw
    have hne : nx ≠ Gen.protocol.Type_IPv6ICMP := by rw [hp]; decide
    refine ⟨?_, pb, pl, ?_, ?_, h3, udp_size dat hw pl h2, ?_⟩
    · cases dat <;> simp_all [V.kind, V.isNil]
    · simp only [protoAnyLenD, hk]; exact h2
    · simp only [protoAnyMarshalD, hk]; exact h1
    · intro spare
      unfold ipv6PayloadDecode
      rw [hn, if_neg hne, if_pos hp]
      exact h4 spare
  · have hk := buffer_kind_of_wf dat hw
    obtain ⟨pb, pl, h1, h2, h3, h4⟩ := buffer_roundtrip dat hw
    refine ⟨?_, pb, pl, ?_, ?_, h3, buffer_size dat hw pl h2, ?_⟩
    · cases dat <;> simp_all [V.kind, V.isNil]
    · simp only [protoAnyLenD, hk]; exact h2
    · simp only [protoAnyMarshalD, hk]; exact h1
    · intro spare
      unfold ipv6PayloadDecode
      rw [hn, if_neg hp, if_neg hq]
      exact h4 spare

/-- the IPv6 operations as a container at nesting depth `d + 2` sees them (`d = 15` is the top level) -/
def kIPv6At (d : Nat) : KindOps :=
  ⟨PIPv6.lenW (protoAnyLenD (d + 1)), PIPv6.marshalW (protoAnyLenD (d + 1)) (protoAnyMarshalD (d + 1)), PIPv6.unmarshal, PIPv6.zero⟩
/-- `IPv6` operations at top level -/
def kIPv6 : KindOps := ⟨PIPv6.lenM, PIPv6.marshalM, PIPv6.unmarshal, PIPv6.zero⟩

/-- the three kinds of IPv6 extension header the library knows -/
inductive ExtK
  | hbh | rt | fr
deriving DecidableEq

/-- the `NextHeader` field (the first field of every extension header) -/
def nhOf : V → Nat
  | .obj _ (.num nh :: _) => nh
  | _ => 0

/-- encoded size of an extension header value (0 for an absent one) -/
def extSize : V → Nat
  | .obj "p.HopByHopHeader" [_, .num hel, _] => 8 * (hel + 1)
  | .obj "p.RoutingHeader" [_, .num hel, _, _, _] => 8 * (hel + 1)
  | .obj "p.FragmentHeader" _ => 8
  | _ => 0

/-- the walk along the next-header values starting from `nxt`: which extension headers are visited, in order, and the
    value announced for the payload; at most `fuel` headers -/
def extPath (hbh rt fr : V) : Nat → Nat → List ExtK × Nat
  | 0, nxt => ([], nxt)
  | f + 1, nxt =>
    if nxt = Gen.protocol.Type_HBH then
      (ExtK.hbh :: (extPath hbh rt fr f (nhOf hbh)).1, (extPath hbh rt fr f (nhOf hbh)).2)
    else if nxt = Gen.protocol.Type_Routing then
      (ExtK.rt :: (extPath hbh rt fr f (nhOf rt)).1, (extPath hbh rt fr f (nhOf rt)).2)
    else if nxt = Gen.protocol.Type_Fragment then
      (ExtK.fr :: (extPath hbh rt fr f (nhOf fr)).1, (extPath hbh rt fr f (nhOf fr)).2)
    else ([], nxt)

/-- what the round trip of one extension header provides to the IPv6 container -/
def ExtFacts (bytes : V → R Bytes) (next : V → R UInt8) (len : V → R UInt16) (unm : V → Slice → R V) (zero : V)
    (X : V) (bs : Bytes) : Prop :=
  bytes X = .ok bs ∧ next X = .ok (n8 (nhOf X)) ∧ nhOf X < 256 ∧ (∃ l, len X = .ok l ∧ bs.length = l.toNat) ∧
    bs.length = extSize X ∧ 8 ≤ bs.length ∧ X.isNil = false ∧
    ∀ tail n, bs.length ≤ n → n ≤ (bs ++ tail).length → unm zero ⟨bs ++ tail, n⟩ = .ok X

/-- a well-formed hop-by-hop header provides `ExtFacts` -/
theorem hbh_ext_facts (X : V) (h : HopByHop.WFv X) :
    ∃ bs, ExtFacts PHopByHop.bytes PHopByHop.nextHeader PHopByHop.len PHopByHop.unmarshal PHopByHop.zero X bs := by
  unfold HopByHop.WFv at h
  split at h
  · rename_i nh hel os
    have hwf : HopByHop.WFv (.obj "p.HopByHopHeader" [.num nh, .num hel, .list os]) := by
      simp only [HopByHop.WFv]; exact h
    obtain ⟨bs, l, h1, h2, h3, h4⟩ := hopbyhop_roundtrip _ hwf
    simp only [kHopByHop, PHopByHop.marshalM, PHopByHop.lenM] at h1 h2 h4
    obtain ⟨b, hb, h1⟩ := bind_ok_inv _ _ _ h1
    obtain ⟨rfl, _⟩ := same_ok _ _ _ _ h1
    obtain ⟨l', hl', h2⟩ := bind_ok_inv _ _ _ h2
    obtain ⟨rfl, _⟩ := same_ok _ _ _ _ h2
    have hsz : bs.length = 8 * (hel + 1) := by
      simp only [PHopByHop.len, Gen.protocol.HopByHopHeader.Len] at hl'
      cases hl'
      rw [h3, ext_len hel h.2.1]
    exact ⟨bs, hb, rfl, h.1, ⟨l, hl', h3⟩, hsz, by omega, rfl, h4⟩
  · exact h.elim

/-- a well-formed routing header provides `ExtFacts` -/
theorem routing_ext_facts (X : V) (h : Routing.WFv X) :
    ∃ bs, ExtFacts PRouting.bytes PRouting.nextHeader PRouting.len PRouting.unmarshal PRouting.zero X bs := by
  unfold Routing.WFv at h
  split at h
  · rename_i nh hel rt sl c
    have hwf : Routing.WFv (.obj "p.RoutingHeader" [.num nh, .num hel, .num rt, .num sl, .obj "u.Buffer" [.bytes c]]) := by
      simp only [Routing.WFv]; exact h
    obtain ⟨bs, l, h1, h2, h3, h4⟩ := routing_roundtrip _ hwf
    simp only [kRouting, PRouting.marshalM, PRouting.lenM] at h1 h2 h4
    obtain ⟨b, hb, h1⟩ := bind_ok_inv _ _ _ h1
    obtain ⟨rfl, _⟩ := same_ok _ _ _ _ h1
    obtain ⟨l', hl', h2⟩ := bind_ok_inv _ _ _ h2
    obtain ⟨rfl, _⟩ := same_ok _ _ _ _ h2
    have hsz : bs.length = 8 * (hel + 1) := by
      simp only [PRouting.len, Gen.protocol.RoutingHeader.Len] at hl'
      cases hl'
      rw [h3, ext_len hel h.2.1]
    exact ⟨bs, hb, rfl, h.1, ⟨l, hl', h3⟩, hsz, by omega, rfl, h4⟩
  · exact h.elim

/-- a well-formed fragment header provides `ExtFacts` -/
theorem fragment_ext_facts (X : V) (h : Fragment.WFv X) :
    ∃ bs, ExtFacts PFragment.bytes PFragment.nextHeader PFragment.len PFragment.unmarshal PFragment.zero X bs := by
  unfold Fragment.WFv at h
  split at h
  · rename_i nh rs off m ident
    have hwf : Fragment.WFv (.obj "p.FragmentHeader" [.num nh, .num rs, .num off, .num m, .num ident]) := by
      simp only [Fragment.WFv]; exact h
    obtain ⟨bs, l, h1, h2, h3, h4⟩ := fragment_roundtrip _ hwf
    simp only [kFragment, PFragment.marshalM, PFragment.lenM] at h1 h2 h4
    obtain ⟨b, hb, h1⟩ := bind_ok_inv _ _ _ h1
    obtain ⟨rfl, _⟩ := same_ok _ _ _ _ h1
    obtain ⟨l', hl', h2⟩ := bind_ok_inv _ _ _ h2
    obtain ⟨rfl, _⟩ := same_ok _ _ _ _ h2
    have hsz : bs.length = 8 := by
      simp only [PFragment.len, Gen.protocol.FragmentHeader.Len] at hl'
      cases hl'
      rw [h3]; rfl
    exact ⟨bs, hb, rfl, h.1, ⟨l, hl', h3⟩, hsz, by omega, rfl, h4⟩
  · exact h.elim

/-- the header of each kind in an IPv6 value, and its well-formedness -/
def hdrOf (hbh rt fr : V) : ExtK → V
  | .hbh => hbh | .rt => rt | .fr => fr
def hdrWF (hbh rt fr : V) : ExtK → Prop
  | .hbh => HopByHop.WFv hbh | .rt => Routing.WFv rt | .fr => Fragment.WFv fr
instance (hbh rt fr : V) : DecidablePred (hdrWF hbh rt fr) := fun K => by cases K <;> unfold hdrWF <;> infer_instance

/-- the decoder's state after it has visited the headers in `p`, ending at offset `n` with `nxt` announced -/
def visited (hbh rt fr : V) (p : List ExtK) (st : PIPv6.XSt) (n : Nat) (nxt : UInt8) : PIPv6.XSt :=
  { n := n, nxt := nxt, hbh := if ExtK.hbh ∈ p then hbh else st.hbh, rt := if ExtK.rt ∈ p then rt else st.rt,
    fr := if ExtK.fr ∈ p then fr else st.fr }

/-- a next-header value that announces no extension header ends both walks at once -/
theorem chain_stop (hbh rt fr : V) (nxt : Nat) (hn : nxt < 256) (h0 : nxt ≠ Gen.protocol.Type_HBH)
    (h1 : nxt ≠ Gen.protocol.Type_Routing) (h2 : nxt ≠ Gen.protocol.Type_Fragment) :
    (∀ ef, 0 < ef → PIPv6.extChain hbh rt fr ef (n8 nxt) = .ok []) ∧
    (∀ (data : Slice) (df : Nat) (st : PIPv6.XSt), st.nxt = n8 nxt → 0 < df → PIPv6.xloop data df st = .ok st) := by
  have hnn : (n8 nxt).toNat = nxt := n8_toNat _ hn
  constructor
  · intro ef hef
    obtain ⟨e, rfl⟩ : ∃ e, ef = e + 1 := ⟨ef - 1, by omega⟩
    simp only [PIPv6.extChain, hnn, h0, h1, h2, if_false]
  · intro data df st hst hdf
    obtain ⟨g, rfl⟩ : ∃ g, df = g + 1 := ⟨df - 1, by omega⟩
    simp only [PIPv6.xloop, PIPv6.xstep, hst, hnn, h0, h1, h2, if_false]

/-- one step of the encoder's walk through a hop-by-hop header -/
theorem enc_step_hbh (hbh rt fr : V) (bs : Bytes) (ws : List Bytes) (e : Nat)
    (hf : ExtFacts PHopByHop.bytes PHopByHop.nextHeader PHopByHop.len PHopByHop.unmarshal PHopByHop.zero hbh bs)
    (hrest : PIPv6.extChain hbh rt fr e (n8 (nhOf hbh)) = .ok ws) :
    PIPv6.extChain hbh rt fr (e + 1) (n8 Gen.protocol.Type_HBH) = .ok (bs :: ws) := by
  obtain ⟨f1, f2, _⟩ := hf
  have hnn : (n8 Gen.protocol.Type_HBH).toNat = Gen.protocol.Type_HBH := rfl
  simp only [PIPv6.extChain, hnn, if_true, f1, f2, hrest, Res.bind_ok, Res.pure_eq]

/-- one step of the decoder's walk through a hop-by-hop header -/
theorem dec_step_hbh (hbh : V) (bs pre rest : Bytes) (len g : Nat) (st t : PIPv6.XSt)
    (hf : ExtFacts PHopByHop.bytes PHopByHop.nextHeader PHopByHop.len PHopByHop.unmarshal PHopByHop.zero hbh bs)
    (hn : st.n = pre.length) (hx : st.nxt = n8 Gen.protocol.Type_HBH) (hl1 : pre.length + bs.length ≤ len)
    (hl2 : len ≤ (pre ++ bs ++ rest).length)
    (hrest : PIPv6.xloop ⟨pre ++ bs ++ rest, len⟩ g { st with n := st.n + bs.length, nxt := n8 (nhOf hbh), hbh := hbh } = .ok t) :
    PIPv6.xloop ⟨pre ++ bs ++ rest, len⟩ (g + 1) st = .ok t := by
  obtain ⟨f1, f2, f3, ⟨l, f4, f5⟩, f6, f7, f8, f9⟩ := hf
  have hnn : (n8 Gen.protocol.Type_HBH).toNat = Gen.protocol.Type_HBH := rfl
  have hstep : PIPv6.xstep ⟨pre ++ bs ++ rest, len⟩ st
      = .ok (some { st with n := st.n + bs.length, nxt := n8 (nhOf hbh), hbh := hbh }) := by
    simp only [PIPv6.xstep, hx, hnn, if_true]
    rw [hn, Slice.fromR_ok _ _ (by show pre.length ≤ len; omega)]
    simp only [Res.bind_ok]
    have hd : List.drop pre.length (pre ++ bs ++ rest) = bs ++ rest := by simp
    simp at hl2
    rw [hd, f9 rest (len - pre.length) (by omega) (by simp; omega)]
    simp only [Res.bind_ok, f2, f4, f5, Res.pure_eq]
  unfold PIPv6.xloop
  rw [hstep]
  simp only
  rw [if_neg (by simp only [not_and]; intro h; omega)]
  exact hrest

/-- one step of the encoder's walk through a routing header -/
theorem enc_step_rt (hbh rt fr : V) (bs : Bytes) (ws : List Bytes) (e : Nat)
    (hf : ExtFacts PRouting.bytes PRouting.nextHeader PRouting.len PRouting.unmarshal PRouting.zero rt bs)
    (hrest : PIPv6.extChain hbh rt fr e (n8 (nhOf rt)) = .ok ws) :
    PIPv6.extChain hbh rt fr (e + 1) (n8 Gen.protocol.Type_Routing) = .ok (bs :: ws) := by
  obtain ⟨f1, f2, _⟩ := hf
  have hnn : (n8 Gen.protocol.Type_Routing).toNat = Gen.protocol.Type_Routing := rfl
  have hne : ¬ (Gen.protocol.Type_Routing = Gen.protocol.Type_HBH) := by decide
  simp only [PIPv6.extChain, hnn, hne, if_false, if_true, f1, f2, hrest, Res.bind_ok, Res.pure_eq]

/-- one step of the decoder's walk through a routing header -/
theorem dec_step_rt (rt : V) (bs pre rest : Bytes) (len g : Nat) (st t : PIPv6.XSt)
    (hf : ExtFacts PRouting.bytes PRouting.nextHeader PRouting.len PRouting.unmarshal PRouting.zero rt bs)
    (hn : st.n = pre.length) (hx : st.nxt = n8 Gen.protocol.Type_Routing) (hl1 : pre.length + bs.length ≤ len)
    (hl2 : len ≤ (pre ++ bs ++ rest).length)
    (hrest : PIPv6.xloop ⟨pre ++ bs ++ rest, len⟩ g { st with n := st.n + bs.length, nxt := n8 (nhOf rt), rt := rt } = .ok t) :
    PIPv6.xloop ⟨pre ++ bs ++ rest, len⟩ (g + 1) st = .ok t := by
  obtain ⟨f1, f2, f3, ⟨l, f4, f5⟩, f6, f7, f8, f9⟩ := hf
  have hnn : (n8 Gen.protocol.Type_Routing).toNat = Gen.protocol.Type_Routing := rfl
  have hstep : PIPv6.xstep ⟨pre ++ bs ++ rest, len⟩ st
      = .ok (some { st with n := st.n + bs.length, nxt := n8 (nhOf rt), rt := rt }) := by
    have hne : ¬ (Gen.protocol.Type_Routing = Gen.protocol.Type_HBH) := by decide
    simp only [PIPv6.xstep, hx, hnn, hne, if_false, if_true]
    rw [hn, Slice.fromR_ok _ _ (by show pre.length ≤ len; omega)]
    simp only [Res.bind_ok]
    have hd : List.drop pre.length (pre ++ bs ++ rest) = bs ++ rest := by simp
    simp at hl2
    rw [hd, f9 rest (len - pre.length) (by omega) (by simp; omega)]
    simp only [Res.bind_ok, f2, f4, f5, Res.pure_eq]
  unfold PIPv6.xloop
  rw [hstep]
  simp only
  rw [if_neg (by simp only [not_and]; intro h; omega)]
  exact hrest

/-- one step of the encoder's walk through a fragment header -/
theorem enc_step_fr (hbh rt fr : V) (bs : Bytes) (ws : List Bytes) (e : Nat)
    (hf : ExtFacts PFragment.bytes PFragment.nextHeader PFragment.len PFragment.unmarshal PFragment.zero fr bs)
    (hrest : PIPv6.extChain hbh rt fr e (n8 (nhOf fr)) = .ok ws) :
    PIPv6.extChain hbh rt fr (e + 1) (n8 Gen.protocol.Type_Fragment) = .ok (bs :: ws) := by
  obtain ⟨f1, f2, _⟩ := hf
  have hnn : (n8 Gen.protocol.Type_Fragment).toNat = Gen.protocol.Type_Fragment := rfl
  have hne : ¬ (Gen.protocol.Type_Fragment = Gen.protocol.Type_HBH) := by decide
  have hne2 : ¬ (Gen.protocol.Type_Fragment = Gen.protocol.Type_Routing) := by decide
  simp only [PIPv6.extChain, hnn, hne, hne2, if_false, if_true, f1, f2, hrest, Res.bind_ok, Res.pure_eq]

/-- one step of the decoder's walk through a fragment header -/
theorem dec_step_fr (fr : V) (bs pre rest : Bytes) (len g : Nat) (st t : PIPv6.XSt)
    (hf : ExtFacts PFragment.bytes PFragment.nextHeader PFragment.len PFragment.unmarshal PFragment.zero fr bs)
    (hn : st.n = pre.length) (hx : st.nxt = n8 Gen.protocol.Type_Fragment) (hl1 : pre.length + bs.length ≤ len)
    (hl2 : len ≤ (pre ++ bs ++ rest).length)
    (hrest : PIPv6.xloop ⟨pre ++ bs ++ rest, len⟩ g { st with n := st.n + bs.length, nxt := n8 (nhOf fr), fr := fr } = .ok t) :
    PIPv6.xloop ⟨pre ++ bs ++ rest, len⟩ (g + 1) st = .ok t := by
  obtain ⟨f1, f2, f3, ⟨l, f4, f5⟩, f6, f7, f8, f9⟩ := hf
  have hnn : (n8 Gen.protocol.Type_Fragment).toNat = Gen.protocol.Type_Fragment := rfl
  have hstep : PIPv6.xstep ⟨pre ++ bs ++ rest, len⟩ st
      = .ok (some { st with n := st.n + bs.length, nxt := n8 (nhOf fr), fr := fr }) := by
    have hne : ¬ (Gen.protocol.Type_Fragment = Gen.protocol.Type_HBH) := by decide
    have hne2 : ¬ (Gen.protocol.Type_Fragment = Gen.protocol.Type_Routing) := by decide
    simp only [PIPv6.xstep, hx, hnn, hne, hne2, if_false, if_true]
    rw [hn, Slice.fromR_ok _ _ (by show pre.length ≤ len; omega)]
    simp only [Res.bind_ok]
    have hd : List.drop pre.length (pre ++ bs ++ rest) = bs ++ rest := by simp
    simp at hl2
    rw [hd, f9 rest (len - pre.length) (by omega) (by simp; omega)]
    simp only [Res.bind_ok, f2, f4, f5, Res.pure_eq]
  unfold PIPv6.xloop
  rw [hstep]
  simp only
  rw [if_neg (by simp only [not_and]; intro h; omega)]
  exact hrest

/-- THE CHAIN LEMMA.  Follow the next-header values from `nxt` for at most `f` headers; if every visited header is
    well-formed and the walk ends at a value that announces no further extension header, then the encoder's walk
    (`extChain`) emits exactly the encodings `ws` of the visited headers, and on any buffer that continues with `ws` the
    decoder's walk (`xloop`) visits the same headers, stores each of them in its slot, and stops behind them. -/
theorem chain_lemma (hbh rt fr : V) : ∀ (f nxt : Nat), nxt < 256 →
    (∀ K ∈ (extPath hbh rt fr f nxt).1, hdrWF hbh rt fr K) →
    (extPath hbh rt fr f nxt).2 ≠ Gen.protocol.Type_HBH → (extPath hbh rt fr f nxt).2 ≠ Gen.protocol.Type_Routing →
    (extPath hbh rt fr f nxt).2 ≠ Gen.protocol.Type_Fragment →
    ∃ ws : List Bytes,
      ws.flatten.length = ((extPath hbh rt fr f nxt).1.map (fun K => extSize (hdrOf hbh rt fr K))).sum ∧
      (extPath hbh rt fr f nxt).2 < 256 ∧
      (∀ K ∈ (extPath hbh rt fr f nxt).1, (hdrOf hbh rt fr K).isNil = false) ∧
      (∀ ef, (extPath hbh rt fr f nxt).1.length < ef → PIPv6.extChain hbh rt fr ef (n8 nxt) = .ok ws) ∧
      (∀ (pre tail : Bytes) (len df : Nat) (st : PIPv6.XSt), st.n = pre.length → st.nxt = n8 nxt →
        pre.length + ws.flatten.length ≤ len → len ≤ (pre ++ ws.flatten ++ tail).length →
        (extPath hbh rt fr f nxt).1.length < df →
        PIPv6.xloop ⟨pre ++ ws.flatten ++ tail, len⟩ df st =
          .ok (visited hbh rt fr (extPath hbh rt fr f nxt).1 st (pre.length + ws.flatten.length)
            (n8 (extPath hbh rt fr f nxt).2))) := by
  intro f
  induction f with
  | zero =>
    intro nxt hn _ h0 h1 h2
    simp only [extPath] at h0 h1 h2 ⊢
    obtain ⟨c1, c2⟩ := chain_stop hbh rt fr nxt hn h0 h1 h2
    refine ⟨[], rfl, hn, by simp, fun ef hef => c1 ef (by simpa using hef), ?_⟩
    intro pre tail len df st hsn hsx _ _ hdf
    rw [c2 _ df st hsx (by simpa using hdf)]
    cases st
    simp [visited] at hsn hsx ⊢
    exact ⟨hsn, hsx⟩
  | succ f ih =>
    intro nxt hn hwf h0 h1 h2
    by_cases c0 : nxt = Gen.protocol.Type_HBH
    · subst c0
      simp only [extPath, if_true] at hwf h0 h1 h2 ⊢
      have hX : HopByHop.WFv hbh := hwf ExtK.hbh (by simp)
      obtain ⟨bs, hf⟩ := hbh_ext_facts hbh hX
      obtain ⟨ws, i1, i2, i3, i4, i5⟩ := ih (nhOf hbh) hf.2.2.1 (fun K hK => hwf K (by simp [hK])) h0 h1 h2
      refine ⟨bs :: ws, ?_, i2, ?_, ?_, ?_⟩
      · simp only [List.flatten_cons, List.length_append, List.map_cons, List.sum_cons, i1, hdrOf, hf.2.2.2.2.1]
      · intro K hK
        simp at hK
        rcases hK with rfl | hK
        · exact hf.2.2.2.2.2.2.1
        · exact i3 K hK
      · intro ef hef
        simp only [List.length_cons] at hef
        obtain ⟨e, rfl⟩ : ∃ e, ef = e + 1 := ⟨ef - 1, by omega⟩
        exact enc_step_hbh hbh rt fr bs ws e hf (i4 e (by omega))
      · intro pre tail len df st hsn hsx hl1 hl2 hdf
        obtain ⟨g, rfl⟩ : ∃ g, df = g + 1 := ⟨df - 1, by simp only [List.length_cons] at hdf; omega⟩
        simp only [List.flatten_cons, List.length_append, List.length_cons] at hl1 hl2 hdf ⊢
        have hbuf : pre ++ (bs ++ ws.flatten) ++ tail = pre ++ bs ++ (ws.flatten ++ tail) := by
          simp only [List.append_assoc]
        rw [hbuf]
        apply dec_step_hbh hbh bs pre (ws.flatten ++ tail) len g st _ hf hsn hsx (by omega)
          (by simp only [List.length_append]; omega)
        have := i5 (pre ++ bs) tail len g { st with n := st.n + bs.length, nxt := n8 (nhOf hbh), hbh := hbh }
          (by simp only [List.length_append, hsn]) rfl (by simp only [List.length_append]; omega)
          (by simp only [List.length_append]; omega) (by omega)
        have hbuf2 : pre ++ bs ++ ws.flatten ++ tail = pre ++ bs ++ (ws.flatten ++ tail) := by
          simp only [List.append_assoc]
        rw [hbuf2] at this
        rw [this]
        simp [visited, Nat.add_assoc]
    · by_cases c1 : nxt = Gen.protocol.Type_Routing
      · subst c1
        have hne : ¬ (Gen.protocol.Type_Routing = Gen.protocol.Type_HBH) := by decide
        simp only [extPath, hne, if_false, if_true] at hwf h0 h1 h2 ⊢
        have hX : Routing.WFv rt := hwf ExtK.rt (by simp)
        obtain ⟨bs, hf⟩ := routing_ext_facts rt hX
        obtain ⟨ws, i1, i2, i3, i4, i5⟩ := ih (nhOf rt) hf.2.2.1 (fun K hK => hwf K (by simp [hK])) h0 h1 h2
        refine ⟨bs :: ws, ?_, i2, ?_, ?_, ?_⟩
        · simp only [List.flatten_cons, List.length_append, List.map_cons, List.sum_cons, i1, hdrOf, hf.2.2.2.2.1]
        · intro K hK
          simp at hK
          rcases hK with rfl | hK
          · exact hf.2.2.2.2.2.2.1
          · exact i3 K hK
        · intro ef hef
          simp only [List.length_cons] at hef
          obtain ⟨e, rfl⟩ : ∃ e, ef = e + 1 := ⟨ef - 1, by omega⟩
          exact enc_step_rt hbh rt fr bs ws e hf (i4 e (by omega))
        · intro pre tail len df st hsn hsx hl1 hl2 hdf
          obtain ⟨g, rfl⟩ : ∃ g, df = g + 1 := ⟨df - 1, by simp only [List.length_cons] at hdf; omega⟩
          simp only [List.flatten_cons, List.length_append, List.length_cons] at hl1 hl2 hdf ⊢
          have hbuf : pre ++ (bs ++ ws.flatten) ++ tail = pre ++ bs ++ (ws.flatten ++ tail) := by
            simp only [List.append_assoc]
          rw [hbuf]
          apply dec_step_rt rt bs pre (ws.flatten ++ tail) len g st _ hf hsn hsx (by omega)
            (by simp only [List.length_append]; omega)
          have := i5 (pre ++ bs) tail len g { st with n := st.n + bs.length, nxt := n8 (nhOf rt), rt := rt }
            (by simp only [List.length_append, hsn]) rfl (by simp only [List.length_append]; omega)
            (by simp only [List.length_append]; omega) (by omega)
          have hbuf2 : pre ++ bs ++ ws.flatten ++ tail = pre ++ bs ++ (ws.flatten ++ tail) := by
            simp only [List.append_assoc]
          rw [hbuf2] at this
          rw [this]
          simp [visited, Nat.add_assoc]
      · by_cases c2 : nxt = Gen.protocol.Type_Fragment
        · subst c2
          have hne : ¬ (Gen.protocol.Type_Fragment = Gen.protocol.Type_HBH) := by decide
          have hne2 : ¬ (Gen.protocol.Type_Fragment = Gen.protocol.Type_Routing) := by decide
          simp only [extPath, hne, hne2, if_false, if_true] at hwf h0 h1 h2 ⊢
          have hX : Fragment.WFv fr := hwf ExtK.fr (by simp)
          obtain ⟨bs, hf⟩ := fragment_ext_facts fr hX
          obtain ⟨ws, i1, i2, i3, i4, i5⟩ := ih (nhOf fr) hf.2.2.1 (fun K hK => hwf K (by simp [hK])) h0 h1 h2
          refine ⟨bs :: ws, ?_, i2, ?_, ?_, ?_⟩
          · simp only [List.flatten_cons, List.length_append, List.map_cons, List.sum_cons, i1, hdrOf, hf.2.2.2.2.1]
          · intro K hK
            simp at hK
            rcases hK with rfl | hK
            · exact hf.2.2.2.2.2.2.1
            · exact i3 K hK
          · intro ef hef
            simp only [List.length_cons] at hef
            obtain ⟨e, rfl⟩ : ∃ e, ef = e + 1 := ⟨ef - 1, by omega⟩
            exact enc_step_fr hbh rt fr bs ws e hf (i4 e (by omega))
          · intro pre tail len df st hsn hsx hl1 hl2 hdf
            obtain ⟨g, rfl⟩ : ∃ g, df = g + 1 := ⟨df - 1, by simp only [List.length_cons] at hdf; omega⟩
            simp only [List.flatten_cons, List.length_append, List.length_cons] at hl1 hl2 hdf ⊢
            have hbuf : pre ++ (bs ++ ws.flatten) ++ tail = pre ++ bs ++ (ws.flatten ++ tail) := by
              simp only [List.append_assoc]
            rw [hbuf]
            apply dec_step_fr fr bs pre (ws.flatten ++ tail) len g st _ hf hsn hsx (by omega)
              (by simp only [List.length_append]; omega)
            have := i5 (pre ++ bs) tail len g { st with n := st.n + bs.length, nxt := n8 (nhOf fr), fr := fr }
              (by simp only [List.length_append, hsn]) rfl (by simp only [List.length_append]; omega)
              (by simp only [List.length_append]; omega) (by omega)
            have hbuf2 : pre ++ bs ++ ws.flatten ++ tail = pre ++ bs ++ (ws.flatten ++ tail) := by
              simp only [List.append_assoc]
            rw [hbuf2] at this
            rw [this]
            simp [visited, Nat.add_assoc]
        · simp only [extPath, c0, c1, c2, if_false] at h0 h1 h2 ⊢
          obtain ⟨e1, e2⟩ := chain_stop hbh rt fr nxt hn c0 c1 c2
          refine ⟨[], rfl, hn, by simp, fun ef hef => e1 ef (by simpa using hef), ?_⟩
          intro pre tail len df st hsn hsx _ _ hdf
          rw [e2 _ df st hsx (by simpa using hdf)]
          cases st
          simp [visited] at hsn hsx ⊢
          exact ⟨hsn, hsx⟩

/-- the walk visits at most `fuel` headers -/
theorem extPath_length (hbh rt fr : V) : ∀ f nxt, (extPath hbh rt fr f nxt).1.length ≤ f := by
  intro f
  induction f with
  | zero => intro nxt; simp [extPath]
  | succ f ih =>
    intro nxt
    simp only [extPath]
    split
    · simp only [List.length_cons]; have := ih (nhOf hbh); omega
    · split
      · simp only [List.length_cons]; have := ih (nhOf rt); omega
      · split
        · simp only [List.length_cons]; have := ih (nhOf fr); omega
        · simp

/-- summing over a duplicate-free list of header kinds = summing over the kinds that occur -/
theorem nodup_sum (g : ExtK → Nat) : ∀ (p : List ExtK), p.Nodup →
    (p.map g).sum = (if ExtK.hbh ∈ p then g .hbh else 0) + (if ExtK.rt ∈ p then g .rt else 0) +
      (if ExtK.fr ∈ p then g .fr else 0) := by
  intro p
  induction p with
  | nil => intro _; rfl
  | cons K p ih =>
    intro hnd
    rw [List.nodup_cons] at hnd
    have := ih hnd.2
    simp only [List.map_cons, List.sum_cons, this]
    cases K <;> simp_all <;> omega

/-- well-formed IPv6 packet: version 4 bits, traffic class 8 bits, flow label 20 bits, 16-bit length, 8-bit next header /
    hop limit, 16-byte addresses; the walk along the next-header values (starting at `NextHeader`, through the
    `NextHeader` fields of the hop-by-hop / routing / fragment headers present) visits no header twice, every visited
    header is well-formed, every header NOT visited is absent (nil), the walk ends at a value announcing the payload
    that is present, and the total size fits 16 bits -/
def IPv6.WFv : V → Prop
  | .obj "p.IPv6" [.num ver, .num tc, .num fl, .num ln, .num nh, .num hl, .bytes src, .bytes dst, hbh, rt, fr, dat] =>
    ver < 16 ∧ tc < 256 ∧ fl < 1048576 ∧ ln < 65536 ∧ nh < 256 ∧ hl < 256 ∧ src.length = 16 ∧ dst.length = 16 ∧
      (extPath hbh rt fr 3 nh).1.Nodup ∧
      (extPath hbh rt fr 3 nh).2 ≠ Gen.protocol.Type_HBH ∧ (extPath hbh rt fr 3 nh).2 ≠ Gen.protocol.Type_Routing ∧
      (extPath hbh rt fr 3 nh).2 ≠ Gen.protocol.Type_Fragment ∧
      (∀ K ∈ (extPath hbh rt fr 3 nh).1, hdrWF hbh rt fr K) ∧
      (ExtK.hbh ∉ (extPath hbh rt fr 3 nh).1 → hbh.isNil = true) ∧
      (ExtK.rt ∉ (extPath hbh rt fr 3 nh).1 → rt.isNil = true) ∧
      (ExtK.fr ∉ (extPath hbh rt fr 3 nh).1 → fr.isNil = true) ∧
      IPv6.PayloadOK (extPath hbh rt fr 3 nh).2 dat ∧
      40 + extSize hbh + extSize rt + extSize fr + paySize dat < 65536
  | _ => False
instance : DecidablePred IPv6.WFv := fun v => by unfold IPv6.WFv; split <;> infer_instance

/-- `Len()` of an optional extension header (0 when absent) is `extSize` -/
theorem optlen_of_facts (len : V → R UInt16) (X : V)
    (h : X.isNil = true ∨ ∃ (bs : Bytes) (l : UInt16), len X = .ok l ∧ bs.length = l.toNat ∧ bs.length = extSize X ∧ X.isNil = false) :
    ∃ l, PIPv6.optLen len X = .ok l ∧ l.toNat = extSize X := by
  rcases h with h | ⟨bs, l, h1, h2, h3, h4⟩
  · rw [isNil_eq X h]
    exact ⟨0, rfl, rfl⟩
  · exact ⟨l, by simp [PIPv6.optLen, h4, h1], by omega⟩

/-- encoded size of an admissible Ethernet payload -/
def frameSize : V → Nat
  | .obj "p.IPv4" [_, .num ihl, _, _, _, _, _, _, _, _, _, _, _, _, dat] => 4 * ihl + paySize dat
  | .obj "p.IPv6" [_, _, _, _, _, _, _, _, hbh, rt, fr, dat] => 40 + extSize hbh + extSize rt + extSize fr + paySize dat
  | .obj "p.ARP" _ => 28
  | v => paySize v

/-- IPv6 round trip, with the encoded size made explicit -/
theorem ipv6_roundtrip_size_at (d : Nat) (v : V) (h : IPv6.WFv v) :
    ∃ bs l, (kIPv6At d).marshalM v = .ok (bs, v) ∧ (kIPv6At d).lenM v = .ok (l, v) ∧ bs.length = l.toNat ∧
      l.toNat = frameSize v ∧ ∀ spare, (kIPv6At d).unmarshal (kIPv6At d).zero ⟨bs ++ spare, bs.length⟩ = .ok v := by
  unfold IPv6.WFv at h
  split at h
  · rename_i ver tc fl ln nh hl src dst hbh rt fr dat
    obtain ⟨h1, h2, h3, h4, h5, h6, h7, h8, hnd, hl0, hl1, hl2, hwfK, hnH, hnR, hnF, h12, h13⟩ := h
    obtain ⟨ws, w1, w2, w3, w4, w5⟩ := chain_lemma hbh rt fr 3 nh h5 hwfK hl0 hl1 hl2
    generalize hP : (extPath hbh rt fr 3 nh).1 = P at *
    generalize hlast : (extPath hbh rt fr 3 nh).2 = last at *
    have hPlen : P.length ≤ 3 := by rw [← hP]; exact extPath_length hbh rt fr 3 nh
    obtain ⟨hnil, pb, pl, hpl, hpm, hpbl, hps, hpdec⟩ := ipv6_payload_facts last w2 dat h12 d
    obtain ⟨s0, s1, s2, s3, s4, s5, s6, s7, s8, s9, s10, s11, s12, s13, s14, s15, rfl⟩ := bytes_len16 src h7
    obtain ⟨d0, d1, d2, d3, d4, d5, d6, d7, d8, d9, d10, d11, d12, d13, d14, d15, rfl⟩ := bytes_len16 dst h8
    -- sizes of the three optional headers
    have eH : hbh.isNil = true ∨ ∃ (bs : Bytes) (l : UInt16), PHopByHop.len hbh = .ok l ∧ bs.length = l.toNat ∧
        bs.length = extSize hbh ∧ hbh.isNil = false := by
      by_cases hm : ExtK.hbh ∈ P
      · obtain ⟨bs, _, _, _, ⟨l, q1, q2⟩, q3, _, q4, _⟩ := hbh_ext_facts hbh (hwfK _ hm)
        exact Or.inr ⟨bs, l, q1, q2, q3, q4⟩
      · exact Or.inl (hnH hm)
    have eR : rt.isNil = true ∨ ∃ (bs : Bytes) (l : UInt16), PRouting.len rt = .ok l ∧ bs.length = l.toNat ∧
        bs.length = extSize rt ∧ rt.isNil = false := by
      by_cases hm : ExtK.rt ∈ P
      · obtain ⟨bs, _, _, _, ⟨l, q1, q2⟩, q3, _, q4, _⟩ := routing_ext_facts rt (hwfK _ hm)
        exact Or.inr ⟨bs, l, q1, q2, q3, q4⟩
      · exact Or.inl (hnR hm)
    have eF : fr.isNil = true ∨ ∃ (bs : Bytes) (l : UInt16), PFragment.len fr = .ok l ∧ bs.length = l.toNat ∧
        bs.length = extSize fr ∧ fr.isNil = false := by
      by_cases hm : ExtK.fr ∈ P
      · obtain ⟨bs, _, _, _, ⟨l, q1, q2⟩, q3, _, q4, _⟩ := fragment_ext_facts fr (hwfK _ hm)
        exact Or.inr ⟨bs, l, q1, q2, q3, q4⟩
      · exact Or.inl (hnF hm)
    obtain ⟨lH, lH1, lH2⟩ := optlen_of_facts PHopByHop.len hbh eH
    obtain ⟨lR, lR1, lR2⟩ := optlen_of_facts PRouting.len rt eR
    obtain ⟨lF, lF1, lF2⟩ := optlen_of_facts PFragment.len fr eF
    have hW : ws.flatten.length = extSize hbh + extSize rt + extSize fr := by
      rw [w1, nodup_sum _ P hnd]
      simp only [hdrOf]
      have z : extSize V.nil = 0 := rfl
      have t1 : (if ExtK.hbh ∈ P then extSize hbh else 0) = extSize hbh := by
        by_cases hm : ExtK.hbh ∈ P
        · rw [if_pos hm]
        · rw [if_neg hm, isNil_eq _ (hnH hm), z]
      have t2 : (if ExtK.rt ∈ P then extSize rt else 0) = extSize rt := by
        by_cases hm : ExtK.rt ∈ P
        · rw [if_pos hm]
        · rw [if_neg hm, isNil_eq _ (hnR hm), z]
      have t3 : (if ExtK.fr ∈ P then extSize fr else 0) = extSize fr := by
        by_cases hm : ExtK.fr ∈ P
        · rw [if_pos hm]
        · rw [if_neg hm, isNil_eq _ (hnF hm), z]
      rw [t1, t2, t3]
    have hnh : (n8 nh).toNat = nh := n8_toNat _ h5
    have hL : ((40 : UInt16) + lH + lR + lF + pl).toNat = 40 + ws.flatten.length + pb.length := by
      simp only [UInt16.toNat_add, lH2, lR2, lF2, hpbl, hW]
      have : (40 : UInt16).toNat = 40 := rfl
      rw [this, hps]; omega
    have hlenW : PIPv6.lenW (protoAnyLenD (d + 1)) (.obj "p.IPv6" [.num ver, .num tc, .num fl, .num ln, .num nh, .num hl,
        .bytes [s0, s1, s2, s3, s4, s5, s6, s7, s8, s9, s10, s11, s12, s13, s14, s15],
        .bytes [d0, d1, d2, d3, d4, d5, d6, d7, d8, d9, d10, d11, d12, d13, d14, d15], hbh, rt, fr, dat])
        = .ok ((40 : UInt16) + lH + lR + lF + pl, .obj "p.IPv6" [.num ver, .num tc, .num fl, .num ln, .num nh, .num hl,
        .bytes [s0, s1, s2, s3, s4, s5, s6, s7, s8, s9, s10, s11, s12, s13, s14, s15],
        .bytes [d0, d1, d2, d3, d4, d5, d6, d7, d8, d9, d10, d11, d12, d13, d14, d15], hbh, rt, fr, dat]) := by
      simp [PIPv6.lenW, lH1, lR1, lF1, hpl]
    obtain ⟨l1, l2, l3⟩ := lane_ipv6_version_class_flow (n8 ver) (n8 tc) (n32 fl) (by rw [n8_toNat _ (by omega)]; exact h1)
      (by rw [n32_toNat _ (by omega)]; exact h3)
    have l3' : PIPv6.unpackFlow (mk32 (PIPv6.packB0 (n8 ver) (n8 tc)) (PIPv6.packB1 (n8 tc) (n32 fl))
        (hi16 (PIPv6.packLo (n32 fl))) (lo16 (PIPv6.packLo (n32 fl)))) = n32 fl := l3 _ (rd32_cons _ _ _ _ [])
    refine ⟨[PIPv6.packB0 (n8 ver) (n8 tc), PIPv6.packB1 (n8 tc) (n32 fl)] ++ be16 (PIPv6.packLo (n32 fl)) ++ be16 (n16 ln) ++
      [n8 nh, n8 hl] ++ [s0, s1, s2, s3, s4, s5, s6, s7, s8, s9, s10, s11, s12, s13, s14, s15] ++
      [d0, d1, d2, d3, d4, d5, d6, d7, d8, d9, d10, d11, d12, d13, d14, d15] ++ ws.flatten ++ pb, (40 : UInt16) + lH + lR + lF + pl, ?_⟩
    refine ⟨?_, ?_, ?_, ?_, ?_⟩
    · simp only [kIPv6At, PIPv6.marshalW, hlenW, Res.bind_ok, hL, hnil, hpm]
      have hch : PIPv6.extChain hbh rt fr ((40 + ws.flatten.length + pb.length) / 8 + 2) (n8 nh) = .ok ws :=
        w4 _ (by omega)
      have hpre : ∀ p ∈ [Piece.put [PIPv6.packB0 (n8 ver) (n8 tc)], Piece.put [PIPv6.packB1 (n8 tc) (n32 fl)],
              Piece.put (be16 (PIPv6.packLo (n32 fl))), pU16 ln, pU8 nh, pU8 hl,
              pCopyAdv [s0, s1, s2, s3, s4, s5, s6, s7, s8, s9, s10, s11, s12, s13, s14, s15] 16,
              pCopyAdv [d0, d1, d2, d3, d4, d5, d6, d7, d8, d9, d10, d11, d12, d13, d14, d15] 16], p.Tight := by
        simp [Piece.Tight, pU8, pU16, pCopyAdv]
      have hplen : piecesLen [Piece.put [PIPv6.packB0 (n8 ver) (n8 tc)], Piece.put [PIPv6.packB1 (n8 tc) (n32 fl)],
              Piece.put (be16 (PIPv6.packLo (n32 fl))), pU16 ln, pU8 nh, pU8 hl,
              pCopyAdv [s0, s1, s2, s3, s4, s5, s6, s7, s8, s9, s10, s11, s12, s13, s14, s15] 16,
              pCopyAdv [d0, d1, d2, d3, d4, d5, d6, d7, d8, d9, d10, d11, d12, d13, d14, d15] 16] = 40 := by
        simp [piecesLen, Piece.adv, pU8, pU16, pCopyAdv]
      have hpbb : piecesBytes [Piece.put [PIPv6.packB0 (n8 ver) (n8 tc)], Piece.put [PIPv6.packB1 (n8 tc) (n32 fl)],
              Piece.put (be16 (PIPv6.packLo (n32 fl))), pU16 ln, pU8 nh, pU8 hl,
              pCopyAdv [s0, s1, s2, s3, s4, s5, s6, s7, s8, s9, s10, s11, s12, s13, s14, s15] 16,
              pCopyAdv [d0, d1, d2, d3, d4, d5, d6, d7, d8, d9, d10, d11, d12, d13, d14, d15] 16] =
          [PIPv6.packB0 (n8 ver) (n8 tc), PIPv6.packB1 (n8 tc) (n32 fl)] ++ be16 (PIPv6.packLo (n32 fl)) ++ be16 (n16 ln) ++
      [n8 nh, n8 hl] ++ [s0, s1, s2, s3, s4, s5, s6, s7, s8, s9, s10, s11, s12, s13, s14, s15] ++
      [d0, d1, d2, d3, d4, d5, d6, d7, d8, d9, d10, d11, d12, d13, d14, d15] := by
        simp [piecesBytes, Piece.bytes, pU8, pU16, pCopyAdv, zeros]
      obtain ⟨o, ho⟩ := fill_ok_le (40 + ws.flatten.length + pb.length) _ hpre (by rw [hplen]; omega)
      rw [ho, hch]
      simp only [Res.bind_ok, Bool.false_eq_true, if_false]
      obtain ⟨cp1, cp2, cp3⟩ := copy_pieces ws
      have hpre2 : ∀ p ∈ [Piece.put [PIPv6.packB0 (n8 ver) (n8 tc)], Piece.put [PIPv6.packB1 (n8 tc) (n32 fl)],
              Piece.put (be16 (PIPv6.packLo (n32 fl))), pU16 ln, pU8 nh, pU8 hl,
              pCopyAdv [s0, s1, s2, s3, s4, s5, s6, s7, s8, s9, s10, s11, s12, s13, s14, s15] 16,
              pCopyAdv [d0, d1, d2, d3, d4, d5, d6, d7, d8, d9, d10, d11, d12, d13, d14, d15] 16] ++ List.map pCopy ws ++ [pCopy []], p.Tight := by
        intro p hp
        rw [List.mem_append, List.mem_append] at hp
        rcases hp with (hp | hp) | hp
        · exact hpre p hp
        · exact cp3 p hp
        · simp at hp; subst hp; simp [Piece.Tight, pCopy]
      have hplen2 : piecesLen ([Piece.put [PIPv6.packB0 (n8 ver) (n8 tc)], Piece.put [PIPv6.packB1 (n8 tc) (n32 fl)],
              Piece.put (be16 (PIPv6.packLo (n32 fl))), pU16 ln, pU8 nh, pU8 hl,
              pCopyAdv [s0, s1, s2, s3, s4, s5, s6, s7, s8, s9, s10, s11, s12, s13, s14, s15] 16,
              pCopyAdv [d0, d1, d2, d3, d4, d5, d6, d7, d8, d9, d10, d11, d12, d13, d14, d15] 16] ++ List.map pCopy ws ++ [pCopy []]) = 40 + ws.flatten.length := by
        unfold piecesLen at hplen cp2 ⊢
        rw [List.map_append, List.map_append, List.sum_append, List.sum_append, hplen, cp2]
        simp [Piece.adv, pCopy]
      have hpbb2 : piecesBytes ([Piece.put [PIPv6.packB0 (n8 ver) (n8 tc)], Piece.put [PIPv6.packB1 (n8 tc) (n32 fl)],
              Piece.put (be16 (PIPv6.packLo (n32 fl))), pU16 ln, pU8 nh, pU8 hl,
              pCopyAdv [s0, s1, s2, s3, s4, s5, s6, s7, s8, s9, s10, s11, s12, s13, s14, s15] 16,
              pCopyAdv [d0, d1, d2, d3, d4, d5, d6, d7, d8, d9, d10, d11, d12, d13, d14, d15] 16] ++ List.map pCopy ws ++ [pCopy []]) =
          [PIPv6.packB0 (n8 ver) (n8 tc), PIPv6.packB1 (n8 tc) (n32 fl)] ++ be16 (PIPv6.packLo (n32 fl)) ++ be16 (n16 ln) ++
      [n8 nh, n8 hl] ++ [s0, s1, s2, s3, s4, s5, s6, s7, s8, s9, s10, s11, s12, s13, s14, s15] ++
      [d0, d1, d2, d3, d4, d5, d6, d7, d8, d9, d10, d11, d12, d13, d14, d15] ++ ws.flatten := by
        unfold piecesBytes at hpbb cp1 ⊢
        rw [List.map_append, List.map_append, List.flatten_append, List.flatten_append, hpbb, cp1]
        simp [Piece.bytes, pCopy]
      rw [fill_exact _ _ hpre2 (by rw [hplen2]; omega), hplen2, hpbb2]
      simp only [Res.bind_ok]
      have hfl : ([PIPv6.packB0 (n8 ver) (n8 tc), PIPv6.packB1 (n8 tc) (n32 fl)] ++ be16 (PIPv6.packLo (n32 fl)) ++ be16 (n16 ln) ++
      [n8 nh, n8 hl] ++ [s0, s1, s2, s3, s4, s5, s6, s7, s8, s9, s10, s11, s12, s13, s14, s15] ++
      [d0, d1, d2, d3, d4, d5, d6, d7, d8, d9, d10, d11, d12, d13, d14, d15] ++ ws.flatten).length = 40 + ws.flatten.length := by
        simp only [List.length_append, List.length_cons, List.length_nil, be16_length]
      have hk : 40 + ws.flatten.length + pb.length - (40 + ws.flatten.length) = pb.length := by omega
      rw [hk]
      conv => lhs; arg 1; arg 2; rw [← hfl]
      rw [fillFrom_exact _ [pCopy pb] pb.length (by simp [Piece.Tight, pCopy]) (by simp [piecesLen, Piece.adv, pCopy])]
      simp [piecesBytes, Piece.bytes, piecesLen, Piece.adv, pCopy, zeros]
    · simp only [kIPv6At, hlenW]
    · rw [hL]; simp only [List.length_append, List.length_cons, List.length_nil, be16_length]
    · rw [hL, hW, hpbl, hps]; simp only [frameSize]; omega
    · intro spare
      generalize hWF : ws.flatten = wf at *
      have hbl : (([PIPv6.packB0 (n8 ver) (n8 tc), PIPv6.packB1 (n8 tc) (n32 fl)] ++ be16 (PIPv6.packLo (n32 fl)) ++ be16 (n16 ln) ++
      [n8 nh, n8 hl] ++ [s0, s1, s2, s3, s4, s5, s6, s7, s8, s9, s10, s11, s12, s13, s14, s15] ++
      [d0, d1, d2, d3, d4, d5, d6, d7, d8, d9, d10, d11, d12, d13, d14, d15]) ++ wf ++ pb).length = 40 + wf.length + pb.length := by
        simp only [List.length_append, List.length_cons, List.length_nil, be16_length]
      rw [hbl]
      simp only [kIPv6At]
      unfold PIPv6.unmarshal
      have hx := w5 (([PIPv6.packB0 (n8 ver) (n8 tc), PIPv6.packB1 (n8 tc) (n32 fl)] ++ be16 (PIPv6.packLo (n32 fl)) ++ be16 (n16 ln) ++
      [n8 nh, n8 hl] ++ [s0, s1, s2, s3, s4, s5, s6, s7, s8, s9, s10, s11, s12, s13, s14, s15] ++
      [d0, d1, d2, d3, d4, d5, d6, d7, d8, d9, d10, d11, d12, d13, d14, d15])) (pb ++ spare) (40 + wf.length + pb.length) (40 + wf.length + pb.length + 4)
        { n := 40, nxt := n8 nh, hbh := .nil, rt := .nil, fr := .nil } rfl rfl
        (by simp only [List.length_append, List.length_cons, List.length_nil, be16_length]; omega)
        (by simp only [List.length_append, List.length_cons, List.length_nil, be16_length]; omega) (by omega)
      rw [show (([PIPv6.packB0 (n8 ver) (n8 tc), PIPv6.packB1 (n8 tc) (n32 fl)] ++ be16 (PIPv6.packLo (n32 fl)) ++ be16 (n16 ln) ++
      [n8 nh, n8 hl] ++ [s0, s1, s2, s3, s4, s5, s6, s7, s8, s9, s10, s11, s12, s13, s14, s15] ++
      [d0, d1, d2, d3, d4, d5, d6, d7, d8, d9, d10, d11, d12, d13, d14, d15])).length = 40 from rfl] at hx
      have hassoc : ([PIPv6.packB0 (n8 ver) (n8 tc), PIPv6.packB1 (n8 tc) (n32 fl)] ++ be16 (PIPv6.packLo (n32 fl)) ++ be16 (n16 ln) ++
      [n8 nh, n8 hl] ++ [s0, s1, s2, s3, s4, s5, s6, s7, s8, s9, s10, s11, s12, s13, s14, s15] ++
      [d0, d1, d2, d3, d4, d5, d6, d7, d8, d9, d10, d11, d12, d13, d14, d15]) ++ wf ++ (pb ++ spare) = ([PIPv6.packB0 (n8 ver) (n8 tc), PIPv6.packB1 (n8 tc) (n32 fl)] ++ be16 (PIPv6.packLo (n32 fl)) ++ be16 (n16 ln) ++
      [n8 nh, n8 hl] ++ [s0, s1, s2, s3, s4, s5, s6, s7, s8, s9, s10, s11, s12, s13, s14, s15] ++
      [d0, d1, d2, d3, d4, d5, d6, d7, d8, d9, d10, d11, d12, d13, d14, d15]) ++ wf ++ pb ++ spare := by
        simp only [List.append_assoc]
      rw [hassoc] at hx
      have hrr : (⟨([PIPv6.packB0 (n8 ver) (n8 tc), PIPv6.packB1 (n8 tc) (n32 fl)] ++ be16 (PIPv6.packLo (n32 fl)) ++ be16 (n16 ln) ++
      [n8 nh, n8 hl] ++ [s0, s1, s2, s3, s4, s5, s6, s7, s8, s9, s10, s11, s12, s13, s14, s15] ++
      [d0, d1, d2, d3, d4, d5, d6, d7, d8, d9, d10, d11, d12, d13, d14, d15]) ++ wf ++ pb ++ spare, 40 + wf.length + pb.length⟩ : Slice).fromR (40 + wf.length)
          = .ok ⟨pb ++ spare, pb.length⟩ := by
        rw [Slice.fromR_ok _ _ (by show 40 + wf.length ≤ 40 + wf.length + pb.length; omega)]
        have hpl2 : (([PIPv6.packB0 (n8 ver) (n8 tc), PIPv6.packB1 (n8 tc) (n32 fl)] ++ be16 (PIPv6.packLo (n32 fl)) ++ be16 (n16 ln) ++
      [n8 nh, n8 hl] ++ [s0, s1, s2, s3, s4, s5, s6, s7, s8, s9, s10, s11, s12, s13, s14, s15] ++
      [d0, d1, d2, d3, d4, d5, d6, d7, d8, d9, d10, d11, d12, d13, d14, d15]) ++ wf).length = 40 + wf.length := by
          simp only [List.length_append, List.length_cons, List.length_nil, be16_length]
        congr 2
        · rw [List.append_assoc _ pb spare, ← hpl2, List.drop_left]
        · show 40 + wf.length + pb.length - (40 + wf.length) = pb.length; omega
      generalize hdata : (⟨([PIPv6.packB0 (n8 ver) (n8 tc), PIPv6.packB1 (n8 tc) (n32 fl)] ++ be16 (PIPv6.packLo (n32 fl)) ++ be16 (n16 ln) ++
      [n8 nh, n8 hl] ++ [s0, s1, s2, s3, s4, s5, s6, s7, s8, s9, s10, s11, s12, s13, s14, s15] ++
      [d0, d1, d2, d3, d4, d5, d6, d7, d8, d9, d10, d11, d12, d13, d14, d15]) ++ wf ++ pb ++ spare, 40 + wf.length + pb.length⟩ : Slice) = data at hx hrr ⊢
      have a0 : 0 < 40 + wf.length + pb.length := by omega
      have a1 : 1 < 40 + wf.length + pb.length := by omega
      have a6 : 6 < 40 + wf.length + pb.length := by omega
      have a7 : 7 < 40 + wf.length + pb.length := by omega
      have c4 : 4 ≤ 40 + wf.length + pb.length := by omega
      have b4 : 2 ≤ 40 + wf.length + pb.length - 4 := by omega
      have r0 : data.byteAt 0 = .ok (PIPv6.packB0 (n8 ver) (n8 tc)) := by rw [← hdata]; rt_reads [a0]
      have r1 : data.byteAt 1 = .ok (PIPv6.packB1 (n8 tc) (n32 fl)) := by rw [← hdata]; rt_reads [a1]
      have rw4 : data.u32In 0 4 = .ok (mk32 (PIPv6.packB0 (n8 ver) (n8 tc)) (PIPv6.packB1 (n8 tc) (n32 fl))
          (hi16 (PIPv6.packLo (n32 fl))) (lo16 (PIPv6.packLo (n32 fl)))) := by rw [← hdata]; rt_reads []
      have r4 : data.u16From 4 = .ok (n16 ln) := by rw [← hdata]; rt_reads [c4, b4]
      have r6 : data.byteAt 6 = .ok (n8 nh) := by rw [← hdata]; rt_reads [a6]
      have r7 : data.byteAt 7 = .ok (n8 hl) := by rw [← hdata]; rt_reads [a7]
      have r8 : data.sliceR 8 24 = .ok ⟨[s0, s1, s2, s3, s4, s5, s6, s7, s8, s9, s10, s11, s12, s13, s14, s15] ++
          ([d0, d1, d2, d3, d4, d5, d6, d7, d8, d9, d10, d11, d12, d13, d14, d15] ++ wf ++ pb ++ spare), 16⟩ := by
        rw [← hdata]; rt_reads []
      have r24 : data.sliceR 24 40 = .ok ⟨[d0, d1, d2, d3, d4, d5, d6, d7, d8, d9, d10, d11, d12, d13, d14, d15] ++
          (wf ++ pb ++ spare), 16⟩ := by
        rw [← hdata]; rt_reads []
      have rl : data.len = 40 + wf.length + pb.length := by rw [← hdata]
      have e1 : ¬ (40 + wf.length + pb.length < 40) := by omega
      simp only [r0, r1, rw4, r4, r6, r7, r8, r24, rl, Res.bind_ok, e1, if_false, PIPv6.zero, hx, visited, hrr]
      have hdec := hpdec spare
      unfold ipv6PayloadDecode at hdec
      rw [← bind_ite, ← bind_ite, hdec]
      have vH : (if ExtK.hbh ∈ P then hbh else V.nil) = hbh := by
        by_cases hm : ExtK.hbh ∈ P
        · rw [if_pos hm]
        · rw [if_neg hm, isNil_eq _ (hnH hm)]
      have vR : (if ExtK.rt ∈ P then rt else V.nil) = rt := by
        by_cases hm : ExtK.rt ∈ P
        · rw [if_pos hm]
        · rw [if_neg hm, isNil_eq _ (hnR hm)]
      have vF : (if ExtK.fr ∈ P then fr else V.nil) = fr := by
        by_cases hm : ExtK.fr ∈ P
        · rw [if_pos hm]
        · rw [if_neg hm, isNil_eq _ (hnF hm)]
      simp [Slice.bytes, makeCopy_self, l1, l2, l3', u8_n8, u16_n16, u32_n32, h2, h4, h5, h6, (by omega : ver < 256),
        (by omega : fl < 4294967296), vH, vR, vF]
  · exact h.elim

/-- a well-formed IPv6 packet round-trips, at any nesting depth -/
theorem ipv6_roundtrip_at (d : Nat) (v : V) (h : IPv6.WFv v) : RoundTrip (kIPv6At d) v := by
  obtain ⟨bs, l, h1, h2, h3, _, h5⟩ := ipv6_roundtrip_size_at d v h
  exact ⟨bs, l, h1, h2, h3, h5⟩

/-- a well-formed IPv6 packet — header lanes, any admissible chain of hop-by-hop / routing / fragment headers in the order
    the next-header values give, ICMPv6 / UDP / opaque payload — round-trips -/
theorem ipv6_roundtrip (v : V) (h : IPv6.WFv v) : RoundTrip kIPv6 v := ipv6_roundtrip_at 15 v h

/-- no extension header: next header 17 announces the UDP payload directly -/
example : IPv6.WFv (.obj "p.IPv6" [.num 6, .num 0xa5, .num 0xfedcb, .num 11, .num 17, .num 64,
    .bytes [0x20, 1, 0xd, 0xb8, 0, 0, 0, 0, 0, 0, 0, 0, 0, 0, 0, 1], .bytes [0x20, 1, 0xd, 0xb8, 0, 0, 0, 0, 0, 0, 0, 0, 0, 0, 0, 2],
    .nil, .nil, .nil, .obj "p.UDP" [.num 68, .num 67, .num 11, .num 0, .bytes [1, 2, 3]]]) := by decide

/-- hop-by-hop (0) → fragment (44) → ICMPv6 (58) -/
example : IPv6.WFv (.obj "p.IPv6" [.num 6, .num 0, .num 1, .num 23, .num 0, .num 64,
    .bytes [0x20, 1, 0xd, 0xb8, 0, 0, 0, 0, 0, 0, 0, 0, 0, 0, 0, 1], .bytes [0x20, 1, 0xd, 0xb8, 0, 0, 0, 0, 0, 0, 0, 0, 0, 0, 0, 2],
    .obj "p.HopByHopHeader" [.num 44, .num 0, .list [.obj "p.Option" [.num 1, .num 4, .bytes [0, 0, 0, 0]]]],
    .nil,
    .obj "p.FragmentHeader" [.num 58, .num 0, .num 0x1abc, .num 1, .num 0xcafe0001],
    .obj "p.ICMP" [.num 128, .num 0, .num 0xf7ff, .bytes [1, 2, 3]]]) := by decide

/-! ### Ethernet (container: optional 802.1Q tag, payload chosen by the ethertype) -/

/-- the payload an Ethernet frame with ethertype `et` may carry so that the decoder finds it again:
    IPv4 for 0x0800, IPv6 for 0x86dd, ARP for 0x0806, an opaque buffer for any other ethertype -/
def Ethernet.PayloadOK (et : Nat) (dat : V) : Prop :=
  (et = Gen.protocol.IPv4_MSG ∧ IPv4.WFv dat) ∨ (et = Gen.protocol.IPv6_MSG ∧ IPv6.WFv dat) ∨
    (et = Gen.protocol.ARP_MSG ∧ ARP.WFv dat) ∨
    (et ≠ Gen.protocol.IPv4_MSG ∧ et ≠ Gen.protocol.IPv6_MSG ∧ et ≠ Gen.protocol.ARP_MSG ∧ Buffer.WFv dat)
instance (et : Nat) (dat : V) : Decidable (Ethernet.PayloadOK et dat) := by unfold Ethernet.PayloadOK; infer_instance

/-- the decoder's payload choice as a function of the ethertype -/
def etherPayloadDecode (et : UInt16) (rest : Slice) : R V :=
  if et.toNat = Gen.protocol.IPv4_MSG then PIPv4.unmarshal PIPv4.zero rest
  else if et.toNat = Gen.protocol.IPv6_MSG then PIPv6.unmarshal PIPv6.zero rest
  else if et.toNat = Gen.protocol.ARP_MSG then PARP.unmarshal PARP.zero rest
  else UBuffer.unmarshal UBuffer.zero rest

/-- well-formed values have the kind their predicate names -/
theorem ipv4_kind_of_wf (v : V) (h : IPv4.WFv v) : v.kind = "p.IPv4" := by
  unfold IPv4.WFv at h; split at h
  · rfl
  · exact h.elim
/-- well-formed values have the kind their predicate names -/
theorem ipv6_kind_of_wf (v : V) (h : IPv6.WFv v) : v.kind = "p.IPv6" := by
  unfold IPv6.WFv at h; split at h
  · rfl
  · exact h.elim
/-- well-formed values have the kind their predicate names -/
theorem arp_kind_of_wf (v : V) (h : ARP.WFv v) : v.kind = "p.ARP" := by
  unfold ARP.WFv at h; split at h
  · rfl
  · exact h.elim

/-- `Len()` of a well-formed IPv4 packet is `frameSize` -/
theorem ipv4_frame_size (d : Nat) (dat : V) (h : IPv4.WFv dat) (l : UInt16)
    (hl : PIPv4.lenW (protoAnyLenD (d + 1)) dat = .ok (l, dat)) : l.toNat = frameSize dat := by
  unfold IPv4.WFv at h
  split at h
  · rename_i ver ihl dscp ecn ln ident fl fo ttl pr cs src dst ob pay
    obtain ⟨h1, h2, h3, h4, h5, h6, h7, h8, h9, h10, h11, h12, h13, h14, h15, h16, h17⟩ := h
    obtain ⟨hnil, pb, pl, hpl, hpm, hpbl, hpdec⟩ := ipv4_payload_facts pr h11 pay h16 d
    have hps := ipv4_payload_size pr pay h16 d pl hpl
    obtain ⟨hfix, hhl, hmul⟩ := ipv4_hdrlen ihl h2 h3
    simp only [PIPv4.lenW, hfix, hnil, hpl, Res.bind_ok] at hl
    simp at hl
    rw [← hl.1, UInt16.toNat_add, hhl, hps]
    simp only [frameSize]
    omega
  · exact h.elim

/-- `Len()` of a well-formed ARP packet is `frameSize` (28) -/
theorem arp_frame_size (dat : V) (h : ARP.WFv dat) (l : UInt16) (hl : PARP.lenM dat = .ok (l, dat)) :
    l.toNat = frameSize dat := by
  unfold ARP.WFv at h
  split at h
  · obtain ⟨h1, h2, rfl, rfl, h5⟩ := h
    simp [PARP.lenM, PARP.len, same, arp_len] at hl
    rw [← hl]; rfl
  · exact h.elim

/-- for a buffer `frameSize` is `paySize` -/
theorem buffer_frame_size (dat : V) (h : Buffer.WFv dat) : frameSize dat = paySize dat := by
  unfold Buffer.WFv at h
  split at h
  · rfl
  · exact h.elim

/-- what an admissible Ethernet payload provides to the container -/
theorem ether_payload_facts (et : Nat) (het : et < 65536) (dat : V) (h : Ethernet.PayloadOK et dat) (d : Nat) :
    dat.isNil = false ∧ ∃ pb pl, protoAnyLenD (d + 2) dat = .ok (pl, dat) ∧ protoAnyMarshalD (d + 2) dat = .ok (pb, dat) ∧
      pb.length = pl.toNat ∧ pl.toNat = frameSize dat ∧
      ∀ spare, etherPayloadDecode (n16 et) ⟨pb ++ spare, pb.length⟩ = .ok dat := by
  have hn : (n16 et).toNat = et := n16_toNat _ het
  rcases h with ⟨hp, hw⟩ | ⟨hp, hw⟩ | ⟨hp, hw⟩ | ⟨h4, h6, ha, hw⟩
  · have hk := ipv4_kind_of_wf dat hw
    obtain ⟨pb, pl, h1, h2, h3, h4⟩ := ipv4_roundtrip_at d dat hw
    simp only [kIPv4At] at h1 h2 h4
    refine ⟨?_, pb, pl, ?_, ?_, h3, ipv4_frame_size d dat hw pl h2, ?_⟩
    · cases dat <;> simp_all [V.kind, V.isNil]
    · simp only [protoAnyLenD, hk]; exact h2
    · simp only [protoAnyMarshalD, hk]; exact h1
    · intro spare
      unfold etherPayloadDecode
      rw [hn, if_pos hp]
      exact h4 spare
  · have hk := ipv6_kind_of_wf dat hw
    obtain ⟨pb, pl, h1, h2, h3, hsz, h4⟩ := ipv6_roundtrip_size_at d dat hw
    simp only [kIPv6At] at h1 h2 h4
    have hne4 : et ≠ Gen.protocol.IPv4_MSG := by rw [hp]; decide
    refine ⟨?_, pb, pl, ?_, ?_, h3, hsz, ?_⟩
    · cases dat <;> simp_all [V.kind, V.isNil]
    · simp only [protoAnyLenD, hk]; exact h2
    · simp only [protoAnyMarshalD, hk]; exact h1
    · intro spare
      unfold etherPayloadDecode
      rw [hn, if_neg hne4, if_pos hp]
      exact h4 spare
  · have hk := arp_kind_of_wf dat hw
    obtain ⟨pb, pl, h1, h2, h3, h4⟩ := (arp_roundtrip dat hw).roundTrip
    simp only [kARP] at h1 h2 h4
    have hne4 : et ≠ Gen.protocol.IPv4_MSG := by rw [hp]; decide
    have hne6 : et ≠ Gen.protocol.IPv6_MSG := by rw [hp]; decide
    refine ⟨?_, pb, pl, ?_, ?_, h3, arp_frame_size dat hw pl h2, ?_⟩
    · cases dat <;> simp_all [V.kind, V.isNil]
    · simp only [protoAnyLenD, hk]; exact h2
    · simp only [protoAnyMarshalD, hk]; exact h1
    · intro spare
      unfold etherPayloadDecode
      rw [hn, if_neg hne4, if_neg hne6, if_pos hp]
      exact h4 spare
  · have hk := buffer_kind_of_wf dat hw
    obtain ⟨pb, pl, h1, h2, h3, h4'⟩ := buffer_roundtrip dat hw
    simp only [kBuffer] at h1 h2 h4'
    refine ⟨?_, pb, pl, ?_, ?_, h3, ?_, ?_⟩
    · cases dat <;> simp_all [V.kind, V.isNil]
    · simp only [protoAnyLenD, hk]; exact h2
    · simp only [protoAnyMarshalD, hk]; exact h1
    · rw [buffer_frame_size dat hw]; exact buffer_size dat hw pl h2
    · intro spare
      unfold etherPayloadDecode
      rw [hn, if_neg h4, if_neg h6, if_neg ha]
      exact h4' spare

/-- the Ethernet operations as a container at nesting depth `d + 3` sees them (`d = 13` is the top level) -/
def kEthernetAt (d : Nat) : KindOps :=
  ⟨PEthernet.lenW (protoAnyLenD (d + 2)), PEthernet.marshalW (protoAnyLenD (d + 2)) (protoAnyMarshalD (d + 2)),
    PEthernet.unmarshal, PEthernet.zero⟩
/-- `Ethernet` operations at top level -/
def kEthernet : KindOps := ⟨PEthernet.lenM, PEthernet.marshalM, PEthernet.unmarshal, PEthernet.zero⟩

/-- well-formed Ethernet frame: Delimiter 0 (not on the wire), 6-byte addresses, 16-bit ethertype, a payload the
    ethertype announces, and either no tag (the zero VLAN value; then the ethertype itself must not be 0x8100) or an
    802.1Q tag with TPID 0x8100, priority 3 bits, DEI 1 bit and a NON-ZERO 12-bit id; total size within 16 bits -/
def Ethernet.WFv : V → Prop
  | .obj "p.Ethernet" [.num del, .bytes dst, .bytes src, .obj "p.VLAN" [.num tpid, .num pcp, .num dei, .num vid], .num et, dat] =>
    del = 0 ∧ dst.length = 6 ∧ src.length = 6 ∧ et < 65536 ∧ Ethernet.PayloadOK et dat ∧
      ((tpid = 0 ∧ pcp = 0 ∧ dei = 0 ∧ vid = 0 ∧ et ≠ Gen.protocol.VLAN_MSG ∧ 14 + frameSize dat < 65536) ∨
       (tpid = Gen.protocol.VLAN_MSG ∧ pcp < 8 ∧ dei < 2 ∧ 0 < vid ∧ vid < 4096 ∧ 18 + frameSize dat < 65536))
  | _ => False
instance : DecidablePred Ethernet.WFv := fun v => by unfold Ethernet.WFv; split <;> infer_instance

/-- an untagged frame (zero VLAN value, ethertype ≠ 0x8100) with an admissible payload round-trips -/
theorem ethernet_untagged_roundtrip (d : Nat) (dst src : Bytes) (et : Nat) (dat : V) (h2 : dst.length = 6) (h3 : src.length = 6)
    (h4 : et < 65536) (h5 : Ethernet.PayloadOK et dat) (h6 : et ≠ Gen.protocol.VLAN_MSG) (h7 : 14 + frameSize dat < 65536) :
    RoundTrip (kEthernetAt d) (.obj "p.Ethernet" [.num 0, .bytes dst, .bytes src, .obj "p.VLAN" [.num 0, .num 0, .num 0, .num 0],
      .num et, dat]) := by
  obtain ⟨hnil, pb, pl, hpl, hpm, hpbl, hps, hpdec⟩ := ether_payload_facts et h4 dat h5 d
  obtain ⟨a0, a1, a2, a3, a4, a5, rfl⟩ := bytes_len6 dst h2
  obtain ⟨b0, b1, b2, b3, b4, b5, rfl⟩ := bytes_len6 src h3
  have hL : ((12 : UInt16) + 2 + pl).toNat = 14 + pb.length := by
    rw [UInt16.toNat_add, hpbl]
    have : ((12 : UInt16) + 2).toNat = 14 := rfl
    rw [this]; omega
  have hlenW : PEthernet.lenW (protoAnyLenD (d + 2)) (.obj "p.Ethernet" [.num 0, .bytes [a0, a1, a2, a3, a4, a5],
      .bytes [b0, b1, b2, b3, b4, b5], .obj "p.VLAN" [.num 0, .num 0, .num 0, .num 0], .num et, dat])
      = .ok ((12 : UInt16) + 2 + pl, .obj "p.Ethernet" [.num 0, .bytes [a0, a1, a2, a3, a4, a5],
      .bytes [b0, b1, b2, b3, b4, b5], .obj "p.VLAN" [.num 0, .num 0, .num 0, .num 0], .num et, dat]) := by
    simp [PEthernet.lenW, PVLAN.vid, hnil, hpl]
  refine ⟨[a0, a1, a2, a3, a4, a5] ++ [b0, b1, b2, b3, b4, b5] ++ be16 (n16 et) ++ pb, (12 : UInt16) + 2 + pl, ?_⟩
  refine ⟨?_, ?_, ?_, ?_⟩
  · simp only [kEthernetAt, PEthernet.marshalW, hlenW, Res.bind_ok, hL, hnil, hpm, PVLAN.vid]
    have hne : ¬ ((0 : Nat) ≠ 0) := by simp
    simp only [hne, if_false, List.append_nil, List.cons_append, List.nil_append, Bool.false_eq_true]
    have hpre : ∀ p ∈ [pCopy [a0, a1, a2, a3, a4, a5], pCopy [b0, b1, b2, b3, b4, b5], pU16 et], p.Tight := by
      simp [Piece.Tight, pU16, pCopy]
    have hplen : piecesLen [pCopy [a0, a1, a2, a3, a4, a5], pCopy [b0, b1, b2, b3, b4, b5], pU16 et] = 14 := by
      simp [piecesLen, Piece.adv, pU16, pCopy]
    have hpbb : piecesBytes [pCopy [a0, a1, a2, a3, a4, a5], pCopy [b0, b1, b2, b3, b4, b5], pU16 et]
        = [a0, a1, a2, a3, a4, a5] ++ [b0, b1, b2, b3, b4, b5] ++ be16 (n16 et) := by
      simp [piecesBytes, Piece.bytes, pU16, pCopy]
    rw [fill_exact _ _ hpre (by rw [hplen]; omega), hplen, hpbb]
    simp only [Res.bind_ok]
    have hfl : ([a0, a1, a2, a3, a4, a5] ++ [b0, b1, b2, b3, b4, b5] ++ be16 (n16 et)).length = 14 := rfl
    have hk : 14 + pb.length - 14 = pb.length := by omega
    rw [hk]
    conv => lhs; arg 1; arg 2; rw [← hfl]
    rw [fillFrom_exact _ [Piece.put pb] pb.length (by simp [Piece.Tight]) (by simp [piecesLen, Piece.adv])]
    simp [piecesBytes, Piece.bytes, piecesLen, Piece.adv, zeros]
  · simp only [kEthernetAt, hlenW]
  · rw [hL]; simp only [List.length_append, List.length_cons, List.length_nil, be16_length]
  · intro spare
    have hbl : ([a0, a1, a2, a3, a4, a5] ++ [b0, b1, b2, b3, b4, b5] ++ be16 (n16 et) ++ pb).length = 14 + pb.length := by
      simp only [List.length_append, List.length_cons, List.length_nil, be16_length]
    rw [hbl]
    simp only [kEthernetAt]
    unfold PEthernet.unmarshal
    generalize hdata : (⟨[a0, a1, a2, a3, a4, a5] ++ [b0, b1, b2, b3, b4, b5] ++ be16 (n16 et) ++ pb ++ spare, 14 + pb.length⟩ : Slice)
      = data
    have c12 : 12 ≤ 14 + pb.length := by omega
    have b12 : 2 ≤ 14 + pb.length - 12 := by omega
    have r0 : data.sliceR 0 6 = .ok ⟨[a0, a1, a2, a3, a4, a5] ++ ([b0, b1, b2, b3, b4, b5] ++ be16 (n16 et) ++ pb ++ spare), 6⟩ := by
      rw [← hdata]; rt_reads []
    have r6 : data.sliceR 6 12 = .ok ⟨[b0, b1, b2, b3, b4, b5] ++ (be16 (n16 et) ++ pb ++ spare), 6⟩ := by
      rw [← hdata]; rt_reads []
    have r12 : data.u16From 12 = .ok (n16 et) := by rw [← hdata]; rt_reads [c12, b12]
    have rr : data.fromR 14 = .ok ⟨pb ++ spare, pb.length⟩ := by
      rw [← hdata]; rt_reads []
    have rl : data.len = 14 + pb.length := by rw [← hdata]
    have e1 : ¬ (14 + pb.length < 14) := by omega
    have e2 : ¬ ((n16 et).toNat = Gen.protocol.VLAN_MSG) := by rw [n16_toNat _ h4]; exact h6
    simp only [r0, r6, r12, rl, Res.bind_ok, e1, e2, if_false, rr]
    have hdec := hpdec spare
    unfold etherPayloadDecode at hdec
    rw [← bind_ite, ← bind_ite, ← bind_ite, hdec]
    simp [PEthernet.zero, PVLAN.zero, Slice.bytes, makeCopy_self, u16_n16, h4]

/-- a frame with an 802.1Q tag (TPID 0x8100, non-zero VLAN id; PCP / DEI / id lanes) and an admissible payload round-trips -/
theorem ethernet_tagged_roundtrip (d : Nat) (dst src : Bytes) (pcp dei vid et : Nat) (dat : V) (h2 : dst.length = 6)
    (h3 : src.length = 6) (h4 : et < 65536) (h5 : Ethernet.PayloadOK et dat) (hp : pcp < 8) (hd : dei < 2) (hv0 : 0 < vid)
    (hv : vid < 4096) (h7 : 18 + frameSize dat < 65536) :
    RoundTrip (kEthernetAt d) (.obj "p.Ethernet" [.num 0, .bytes dst, .bytes src,
      .obj "p.VLAN" [.num Gen.protocol.VLAN_MSG, .num pcp, .num dei, .num vid], .num et, dat]) := by
  obtain ⟨hnil, pb, pl, hpl, hpm, hpbl, hps, hpdec⟩ := ether_payload_facts et h4 dat h5 d
  obtain ⟨a0, a1, a2, a3, a4, a5, rfl⟩ := bytes_len6 dst h2
  obtain ⟨b0, b1, b2, b3, b4, b5, rfl⟩ := bytes_len6 src h3
  obtain ⟨l1, l2, l3⟩ := lane_vlan_tci (n8 pcp) (n8 dei) (n16 vid) (by rw [n8_toNat _ (by omega)]; exact hp)
    (by rw [n8_toNat _ (by omega)]; exact hd) (by rw [n16_toNat _ (by omega)]; exact hv)
  have hL : ((12 : UInt16) + 4 + 2 + pl).toNat = 18 + pb.length := by
    rw [UInt16.toNat_add, hpbl]
    have : ((12 : UInt16) + 4 + 2).toNat = 18 := rfl
    rw [this]; omega
  have hvne : vid ≠ 0 := by omega
  have hlenW : PEthernet.lenW (protoAnyLenD (d + 2)) (.obj "p.Ethernet" [.num 0, .bytes [a0, a1, a2, a3, a4, a5],
      .bytes [b0, b1, b2, b3, b4, b5], .obj "p.VLAN" [.num Gen.protocol.VLAN_MSG, .num pcp, .num dei, .num vid], .num et, dat])
      = .ok ((12 : UInt16) + 4 + 2 + pl, .obj "p.Ethernet" [.num 0, .bytes [a0, a1, a2, a3, a4, a5],
      .bytes [b0, b1, b2, b3, b4, b5], .obj "p.VLAN" [.num Gen.protocol.VLAN_MSG, .num pcp, .num dei, .num vid], .num et, dat]) := by
    simp [PEthernet.lenW, PVLAN.vid, hnil, hpl, hvne]
  refine ⟨[a0, a1, a2, a3, a4, a5] ++ [b0, b1, b2, b3, b4, b5] ++ be16 (n16 Gen.protocol.VLAN_MSG) ++
    be16 (PVLAN.packTCI (n8 pcp) (n8 dei) (n16 vid)) ++ be16 (n16 et) ++ pb, (12 : UInt16) + 4 + 2 + pl, ?_⟩
  refine ⟨?_, ?_, ?_, ?_⟩
  · simp only [kEthernetAt, PEthernet.marshalW, hlenW, Res.bind_ok, hL, hnil, hpm, PVLAN.vid, PVLAN.bytes]
    simp only [hvne, ne_eq, not_false_eq_true, if_true, List.cons_append, List.nil_append, Bool.false_eq_true, if_false]
    have hpre : ∀ p ∈ [pCopy [a0, a1, a2, a3, a4, a5], pCopy [b0, b1, b2, b3, b4, b5],
        pCopy (be16 (n16 Gen.protocol.VLAN_MSG) ++ be16 (PVLAN.packTCI (n8 pcp) (n8 dei) (n16 vid))), pU16 et], p.Tight := by
      simp [Piece.Tight, pU16, pCopy]
    have hplen : piecesLen [pCopy [a0, a1, a2, a3, a4, a5], pCopy [b0, b1, b2, b3, b4, b5],
        pCopy (be16 (n16 Gen.protocol.VLAN_MSG) ++ be16 (PVLAN.packTCI (n8 pcp) (n8 dei) (n16 vid))), pU16 et] = 18 := by
      simp [piecesLen, Piece.adv, pU16, pCopy]
    have hpbb : piecesBytes [pCopy [a0, a1, a2, a3, a4, a5], pCopy [b0, b1, b2, b3, b4, b5],
        pCopy (be16 (n16 Gen.protocol.VLAN_MSG) ++ be16 (PVLAN.packTCI (n8 pcp) (n8 dei) (n16 vid))), pU16 et]
        = [a0, a1, a2, a3, a4, a5] ++ [b0, b1, b2, b3, b4, b5] ++ be16 (n16 Gen.protocol.VLAN_MSG) ++
          be16 (PVLAN.packTCI (n8 pcp) (n8 dei) (n16 vid)) ++ be16 (n16 et) := by
      simp [piecesBytes, Piece.bytes, pU16, pCopy]
    rw [fill_exact _ _ hpre (by rw [hplen]; omega), hplen, hpbb]
    simp only [Res.bind_ok]
    have hfl : ([a0, a1, a2, a3, a4, a5] ++ [b0, b1, b2, b3, b4, b5] ++ be16 (n16 Gen.protocol.VLAN_MSG) ++
          be16 (PVLAN.packTCI (n8 pcp) (n8 dei) (n16 vid)) ++ be16 (n16 et)).length = 18 := rfl
    have hk : 18 + pb.length - 18 = pb.length := by omega
    rw [hk]
    conv => lhs; arg 1; arg 2; rw [← hfl]
    rw [fillFrom_exact _ [Piece.put pb] pb.length (by simp [Piece.Tight]) (by simp [piecesLen, Piece.adv])]
    simp [piecesBytes, Piece.bytes, piecesLen, Piece.adv, zeros]
  · simp only [kEthernetAt, hlenW]
  · rw [hL]; simp only [List.length_append, List.length_cons, List.length_nil, be16_length]
  · intro spare
    have hbl : ([a0, a1, a2, a3, a4, a5] ++ [b0, b1, b2, b3, b4, b5] ++ be16 (n16 Gen.protocol.VLAN_MSG) ++
        be16 (PVLAN.packTCI (n8 pcp) (n8 dei) (n16 vid)) ++ be16 (n16 et) ++ pb).length = 18 + pb.length := by
      simp only [List.length_append, List.length_cons, List.length_nil, be16_length]
    rw [hbl]
    simp only [kEthernetAt]
    unfold PEthernet.unmarshal
    generalize hdata : (⟨[a0, a1, a2, a3, a4, a5] ++ [b0, b1, b2, b3, b4, b5] ++ be16 (n16 Gen.protocol.VLAN_MSG) ++
        be16 (PVLAN.packTCI (n8 pcp) (n8 dei) (n16 vid)) ++ be16 (n16 et) ++ pb ++ spare, 18 + pb.length⟩ : Slice) = data
    have c12 : 12 ≤ 18 + pb.length := by omega
    have b12 : 2 ≤ 18 + pb.length - 12 := by omega
    have c16 : 16 ≤ 18 + pb.length := by omega
    have b16 : 2 ≤ 18 + pb.length - 16 := by omega
    have r0 : data.sliceR 0 6 = .ok ⟨[a0, a1, a2, a3, a4, a5] ++ ([b0, b1, b2, b3, b4, b5] ++ be16 (n16 Gen.protocol.VLAN_MSG) ++
        be16 (PVLAN.packTCI (n8 pcp) (n8 dei) (n16 vid)) ++ be16 (n16 et) ++ pb ++ spare), 6⟩ := by
      rw [← hdata]; rt_reads []
    have r6 : data.sliceR 6 12 = .ok ⟨[b0, b1, b2, b3, b4, b5] ++ (be16 (n16 Gen.protocol.VLAN_MSG) ++
        be16 (PVLAN.packTCI (n8 pcp) (n8 dei) (n16 vid)) ++ be16 (n16 et) ++ pb ++ spare), 6⟩ := by
      rw [← hdata]; rt_reads []
    have r12 : data.u16From 12 = .ok (n16 Gen.protocol.VLAN_MSG) := by rw [← hdata]; rt_reads [c12, b12]
    have r12' : data.fromR 12 = .ok ⟨be16 (n16 Gen.protocol.VLAN_MSG) ++
        be16 (PVLAN.packTCI (n8 pcp) (n8 dei) (n16 vid)) ++ (be16 (n16 et) ++ pb ++ spare), 6 + pb.length⟩ := by
      rw [← hdata, Slice.fromR_ok _ _ (by show 12 ≤ 18 + pb.length; omega)]
      have : 18 + pb.length - 12 = 6 + pb.length := by omega
      simp [this]
    have r16 : data.u16From 16 = .ok (n16 et) := by rw [← hdata]; rt_reads [c16, b16]
    have rr : data.fromR 18 = .ok ⟨pb ++ spare, pb.length⟩ := by
      rw [← hdata]; rt_reads []
    have rl : data.len = 18 + pb.length := by rw [← hdata]
    have e1 : ¬ (18 + pb.length < 14) := by omega
    have e2 : (n16 Gen.protocol.VLAN_MSG).toNat = Gen.protocol.VLAN_MSG := rfl
    have e3 : ¬ (18 + pb.length < 18) := by omega
    have hvl := vlan_roundtrip (.obj "p.VLAN" [.num Gen.protocol.VLAN_MSG, .num pcp, .num dei, .num vid])
      (by simp only [VLAN.WFv]; exact ⟨by decide, hp, hd, hv⟩)
    obtain ⟨vbs, vl, hv1, hv2, hv3, hv4⟩ := hvl
    simp only [kVLAN, PVLAN.marshalM, PVLAN.bytes, Res.bind_ok, same, Res.ok.injEq, Prod.mk.injEq, and_true] at hv1
    subst hv1
    have hvdec := hv4 (be16 (n16 et) ++ pb ++ spare) (6 + pb.length) (by simp; omega) (by simp; omega)
    simp only [kVLAN] at hvdec
    simp only [r0, r6, r12, r12', rl, Res.bind_ok, e1, e2, e3, if_true, if_false, hvdec, r16, Res.pure_eq, rr]
    have hdec := hpdec spare
    unfold etherPayloadDecode at hdec
    rw [← bind_ite, ← bind_ite, ← bind_ite, hdec]
    simp [PEthernet.zero, Slice.bytes, makeCopy_self, u16_n16, h4]

/-- a well-formed Ethernet frame (untagged, or tagged with a non-zero VLAN id; IPv4 / IPv6 / ARP / opaque payload) round-trips,
    at any nesting depth -/
theorem ethernet_roundtrip_at (d : Nat) (v : V) (h : Ethernet.WFv v) : RoundTrip (kEthernetAt d) v := by
  unfold Ethernet.WFv at h
  split at h
  · rename_i del dst src tpid pcp dei vid et dat
    obtain ⟨rfl, h2, h3, h4, h5, h6⟩ := h
    rcases h6 with ⟨rfl, rfl, rfl, rfl, h7, h8⟩ | ⟨rfl, hp, hd, hv0, hv, h8⟩
    · exact ethernet_untagged_roundtrip d dst src et dat h2 h3 h4 h5 h7 h8
    · exact ethernet_tagged_roundtrip d dst src pcp dei vid et dat h2 h3 h4 h5 hp hd hv0 hv h8
  · exact h.elim

/-- … in particular at top level (`Ethernet.Len/MarshalBinary/UnmarshalBinary`) -/
theorem ethernet_roundtrip (v : V) (h : Ethernet.WFv v) : RoundTrip kEthernet v := ethernet_roundtrip_at 14 v h

example : Ethernet.WFv (.obj "p.Ethernet" [.num 0, .bytes [1, 1, 1, 1, 1, 1], .bytes [2, 2, 2, 2, 2, 2],
    .obj "p.VLAN" [.num 0x8100, .num 5, .num 1, .num 7], .num 0x806,
    .obj "p.ARP" [.num 1, .num 0x800, .num 6, .num 4, .num 2, .bytes [1, 2, 3, 4, 5, 6],
      .bytes [10, 0, 0, 1], .bytes [7, 8, 9, 10, 11, 12], .bytes [10, 0, 0, 2]]]) := by decide

/-- a tagged frame carrying IPv6 with a routing header (43) in front of UDP (17) -/
example : Ethernet.WFv (.obj "p.Ethernet" [.num 0, .bytes [1, 1, 1, 1, 1, 1], .bytes [2, 2, 2, 2, 2, 2],
    .obj "p.VLAN" [.num 0x8100, .num 3, .num 0, .num 100], .num 0x86dd,
    .obj "p.IPv6" [.num 6, .num 0, .num 1, .num 19, .num 43, .num 64,
      .bytes [0x20, 1, 0xd, 0xb8, 0, 0, 0, 0, 0, 0, 0, 0, 0, 0, 0, 1], .bytes [0x20, 1, 0xd, 0xb8, 0, 0, 0, 0, 0, 0, 0, 0, 0, 0, 0, 2],
      .nil, .obj "p.RoutingHeader" [.num 17, .num 0, .num 0, .num 1, .obj "u.Buffer" [.bytes [1, 2, 3, 4]]], .nil,
      .obj "p.UDP" [.num 68, .num 67, .num 11, .num 0, .bytes [1, 2, 3]]]]) := by decide

/-- a priority-tagged frame: 802.1Q tag with priority 5 and VLAN id 0 (legal on the wire) -/
def prioTagged : V := .obj "p.Ethernet" [.num 0, .bytes [1, 1, 1, 1, 1, 1], .bytes [2, 2, 2, 2, 2, 2],
  .obj "p.VLAN" [.num 0x8100, .num 5, .num 0, .num 0], .num 0x88b5, .obj "u.Buffer" [.bytes [7, 7]]]

/-- DEFECT witness: the encoder writes the 802.1Q tag only when the VLAN id is non-zero, so a priority-tagged frame
    (every field within its bit width) is encoded WITHOUT its tag and decodes to a frame whose VLAN fields are all 0:
    the round trip loses TPID and priority.  This is why `Ethernet.WFv` has to demand a non-zero id for tagged frames. -/
theorem ethernet_priority_tag_lost :
    PEthernet.marshalM prioTagged = .ok ([1, 1, 1, 1, 1, 1, 2, 2, 2, 2, 2, 2, 0x88, 0xb5, 7, 7], prioTagged) ∧
    PEthernet.unmarshal PEthernet.zero (Slice.exact [1, 1, 1, 1, 1, 1, 2, 2, 2, 2, 2, 2, 0x88, 0xb5, 7, 7]) =
      .ok (.obj "p.Ethernet" [.num 0, .bytes [1, 1, 1, 1, 1, 1], .bytes [2, 2, 2, 2, 2, 2],
        .obj "p.VLAN" [.num 0, .num 0, .num 0, .num 0], .num 0x88b5, .obj "u.Buffer" [.bytes [7, 7]]]) := by
  constructor
  · rfl
  · rfl

/-! ## 3. Demux theorems -/


/-- the payload kind the IPv4 decoder must choose for protocol number `pr` -/
def ipv4PayloadKind (pr : UInt8) : String :=
  if pr.toNat = Gen.protocol.Type_ICMP then "p.ICMP" else if pr.toNat = Gen.protocol.Type_UDP then "p.UDP" else "u.Buffer"

/-- IPv4 demux: whenever `IPv4.UnmarshalBinary` succeeds, the decoded `Protocol` field is byte 9 of the packet, the
    payload was decoded from `data[4·IHL:]` (IHL = low nibble of byte 0), and its kind is the one the protocol number
    selects — `p.ICMP` for 1, `p.UDP` for 17, `u.Buffer` (the raw rest) for anything else -/
theorem ipv4_demux (recv : V) (data : Slice) (v : V) (h : PIPv4.unmarshal recv data = .ok v) :
    ∃ pr b0 rest f0 f1 f2 f3 f4 f5 f6 f7 f8 f10 f11 f12 f13 dat,
      data.byteAt 9 = .ok pr ∧ data.byteAt 0 = .ok b0 ∧ data.fromR ((PIPv4.unpackIHL b0) * 4).toNat = .ok rest ∧
      v = .obj "p.IPv4" [f0, f1, f2, f3, f4, f5, f6, f7, f8, V.u8 pr, f10, f11, f12, f13, dat] ∧
      dat.kind = ipv4PayloadKind pr ∧
      (pr.toNat = Gen.protocol.Type_ICMP → PICMP.unmarshal PIPv4.newICMP rest = .ok dat) ∧
      (pr.toNat ≠ Gen.protocol.Type_ICMP → pr.toNat = Gen.protocol.Type_UDP → PUDP.unmarshal PIPv4.newUDP rest = .ok dat) ∧
      (pr.toNat ≠ Gen.protocol.Type_ICMP → pr.toNat ≠ Gen.protocol.Type_UDP → dat = UBuffer.mk rest.bytes) := by
  unfold PIPv4.unmarshal at h
  split at h
  · cases h
  · obtain ⟨b0, hb0, h⟩ := bind_ok_inv _ _ _ h
    obtain ⟨b1, hb1, h⟩ := bind_ok_inv _ _ _ h
    obtain ⟨ln, _, h⟩ := bind_ok_inv _ _ _ h
    obtain ⟨ident, _, h⟩ := bind_ok_inv _ _ _ h
    obtain ⟨flg, _, h⟩ := bind_ok_inv _ _ _ h
    obtain ⟨ttl, _, h⟩ := bind_ok_inv _ _ _ h
    obtain ⟨pr, hpr, h⟩ := bind_ok_inv _ _ _ h
    obtain ⟨cs, _, h⟩ := bind_ok_inv _ _ _ h
    obtain ⟨s, _, h⟩ := bind_ok_inv _ _ _ h
    obtain ⟨d, _, h⟩ := bind_ok_inv _ _ _ h
    simp only at h
    split at h
    · cases h
    · obtain ⟨osl, _, h⟩ := bind_ok_inv _ _ _ h
      obtain ⟨opts, _, h⟩ := bind_ok_inv _ _ _ h
      obtain ⟨rest, hrest, h⟩ := bind_ok_inv _ _ _ h
      by_cases hp : pr.toNat = Gen.protocol.Type_ICMP
      · rw [if_pos hp] at h
        obtain ⟨dat, hdat, h⟩ := bind_ok_inv _ _ _ h
        cases h
        refine ⟨pr, b0, rest, _, _, _, _, _, _, _, _, _, _, _, _, _, dat, hpr, hb0, hrest, rfl, ?_, ?_, ?_, ?_⟩
        · unfold ipv4PayloadKind; rw [if_pos hp]; exact icmp_kind _ _ _ hdat
        · intro _; exact hdat
        · intro hn; exact absurd hp hn
        · intro hn; exact absurd hp hn
      · rw [if_neg hp] at h
        by_cases hq : pr.toNat = Gen.protocol.Type_UDP
        · rw [if_pos hq] at h
          obtain ⟨dat, hdat, h⟩ := bind_ok_inv _ _ _ h
          cases h
          refine ⟨pr, b0, rest, _, _, _, _, _, _, _, _, _, _, _, _, _, dat, hpr, hb0, hrest, rfl, ?_, ?_, ?_, ?_⟩
          · unfold ipv4PayloadKind; rw [if_neg hp, if_pos hq]; exact udp_kind _ _ _ hdat
          · intro hn; exact absurd hn hp
          · intro _ _; exact hdat
          · intro _ hn; exact absurd hq hn
        · rw [if_neg hq] at h
          obtain ⟨dat, hdat, h⟩ := bind_ok_inv _ _ _ h
          cases h
          refine ⟨pr, b0, rest, _, _, _, _, _, _, _, _, _, _, _, _, _, dat, hpr, hb0, hrest, rfl, ?_, ?_, ?_, ?_⟩
          · unfold ipv4PayloadKind; rw [if_neg hp, if_neg hq]; exact ubuffer_kind _ _ _ hdat
          · intro hn; exact absurd hn hp
          · intro _ hn; exact absurd hn hq
          · intro _ _; unfold UBuffer.unmarshal at hdat; cases hdat; rfl

/-- a successfully decoded IPv4 packet is a `p.IPv4` -/
theorem ipv4_kind (r : V) (d : Slice) (v : V) (h : PIPv4.unmarshal r d = .ok v) : v.kind = "p.IPv4" := by
  obtain ⟨_, _, _, _, _, _, _, _, _, _, _, _, _, _, _, _, _, _, _, _, hv, _⟩ := ipv4_demux r d v h
  rw [hv]; rfl

/-- the payload kind the IPv6 decoder must choose for the last next-header value of the chain -/
def ipv6PayloadKind (nxt : UInt8) : String :=
  if nxt.toNat = Gen.protocol.Type_IPv6ICMP then "p.ICMP" else if nxt.toNat = Gen.protocol.Type_UDP then "p.UDP" else "u.Buffer"

/-- `Chain data n nxt n' last`: following the IPv6 extension headers in `data` from offset `n`, where the previous header
    announced `nxt`, ends at offset `n'` with `last` announced for the payload: hop-by-hop (0), routing (43) and
    fragment (44) headers are decoded at the current offset and skipped by their own length; anything else ends the chain. -/
inductive Chain (data : Slice) : Nat → UInt8 → Nat → UInt8 → Prop
  | stop (n : Nat) (nxt : UInt8) : nxt.toNat ≠ Gen.protocol.Type_HBH → nxt.toNat ≠ Gen.protocol.Type_Routing →
      nxt.toNat ≠ Gen.protocol.Type_Fragment → Chain data n nxt n nxt
  | hbh (n : Nat) (nxt : UInt8) (d : Slice) (h : V) (nx : UInt8) (l : UInt16) (n' : Nat) (last : UInt8) :
      nxt.toNat = Gen.protocol.Type_HBH → data.fromR n = .ok d → PHopByHop.unmarshal PHopByHop.zero d = .ok h →
      PHopByHop.nextHeader h = .ok nx → PHopByHop.len h = .ok l → Chain data (n + l.toNat) nx n' last →
      Chain data n nxt n' last
  | routing (n : Nat) (nxt : UInt8) (d : Slice) (h : V) (nx : UInt8) (l : UInt16) (n' : Nat) (last : UInt8) :
      nxt.toNat = Gen.protocol.Type_Routing → data.fromR n = .ok d → PRouting.unmarshal PRouting.zero d = .ok h →
      PRouting.nextHeader h = .ok nx → PRouting.len h = .ok l → Chain data (n + l.toNat) nx n' last →
      Chain data n nxt n' last
  | fragment (n : Nat) (nxt : UInt8) (d : Slice) (h : V) (nx : UInt8) (l : UInt16) (n' : Nat) (last : UInt8) :
      nxt.toNat = Gen.protocol.Type_Fragment → data.fromR n = .ok d → PFragment.unmarshal PFragment.zero d = .ok h →
      PFragment.nextHeader h = .ok nx → PFragment.len h = .ok l → Chain data (n + l.toNat) nx n' last →
      Chain data n nxt n' last

/-- the decoder's extension-header loop follows the next-header chain (`Chain`) from its start state to its final state -/
theorem xloop_chain (data : Slice) : ∀ (fuel : Nat) (s t : PIPv6.XSt), PIPv6.xloop data fuel s = .ok t →
    Chain data s.n s.nxt t.n t.nxt := by
  intro fuel
  induction fuel with
  | zero => intro s t h; simp [PIPv6.xloop] at h
  | succ f ih =>
    intro s t h
    unfold PIPv6.xloop at h
    split at h
    · -- none: stop
      rename_i hstep
      cases h
      unfold PIPv6.xstep at hstep
      split at hstep
      · obtain ⟨_, _, hstep⟩ := bind_ok_inv _ _ _ hstep
        obtain ⟨_, _, hstep⟩ := bind_ok_inv _ _ _ hstep
        obtain ⟨_, _, hstep⟩ := bind_ok_inv _ _ _ hstep
        obtain ⟨_, _, hstep⟩ := bind_ok_inv _ _ _ hstep
        cases hstep
      · split at hstep
        · obtain ⟨_, _, hstep⟩ := bind_ok_inv _ _ _ hstep
          obtain ⟨_, _, hstep⟩ := bind_ok_inv _ _ _ hstep
          obtain ⟨_, _, hstep⟩ := bind_ok_inv _ _ _ hstep
          obtain ⟨_, _, hstep⟩ := bind_ok_inv _ _ _ hstep
          cases hstep
        · split at hstep
          · obtain ⟨_, _, hstep⟩ := bind_ok_inv _ _ _ hstep
            obtain ⟨_, _, hstep⟩ := bind_ok_inv _ _ _ hstep
            obtain ⟨_, _, hstep⟩ := bind_ok_inv _ _ _ hstep
            obtain ⟨_, _, hstep⟩ := bind_ok_inv _ _ _ hstep
            cases hstep
          · rename_i h1 h2 h3
            exact Chain.stop _ _ h1 h2 h3
    · rename_i s' hstep
      split at h
      · cases h
      · have hc := ih s' t h
        unfold PIPv6.xstep at hstep
        split at hstep
        · rename_i h1
          obtain ⟨d, hd, hstep⟩ := bind_ok_inv _ _ _ hstep
          obtain ⟨hh, hh1, hstep⟩ := bind_ok_inv _ _ _ hstep
          obtain ⟨nx, hnx, hstep⟩ := bind_ok_inv _ _ _ hstep
          obtain ⟨l, hl, hstep⟩ := bind_ok_inv _ _ _ hstep
          cases hstep
          exact Chain.hbh _ _ d hh nx l _ _ h1 hd hh1 hnx hl hc
        · split at hstep
          · rename_i h1 h2
            obtain ⟨d, hd, hstep⟩ := bind_ok_inv _ _ _ hstep
            obtain ⟨hh, hh1, hstep⟩ := bind_ok_inv _ _ _ hstep
            obtain ⟨nx, hnx, hstep⟩ := bind_ok_inv _ _ _ hstep
            obtain ⟨l, hl, hstep⟩ := bind_ok_inv _ _ _ hstep
            cases hstep
            exact Chain.routing _ _ d hh nx l _ _ h2 hd hh1 hnx hl hc
          · split at hstep
            · rename_i h1 h2 h3
              obtain ⟨d, hd, hstep⟩ := bind_ok_inv _ _ _ hstep
              obtain ⟨hh, hh1, hstep⟩ := bind_ok_inv _ _ _ hstep
              obtain ⟨nx, hnx, hstep⟩ := bind_ok_inv _ _ _ hstep
              obtain ⟨l, hl, hstep⟩ := bind_ok_inv _ _ _ hstep
              cases hstep
              exact Chain.fragment _ _ d hh nx l _ _ h3 hd hh1 hnx hl hc
            · cases hstep
    · cases h
    · cases h
    · cases h

/-- IPv6 demux: whenever `IPv6.UnmarshalBinary` succeeds, the decoded `NextHeader` field is byte 6, the extension
    headers were followed from offset 40 along the next-header chain (`Chain`: hop-by-hop 0, routing 43, fragment 44) to
    an offset `n'` and a last value `last`, the payload was decoded from `data[n':]`, and its kind is the one `last`
    selects — `p.ICMP` for 58 (ICMPv6), `p.UDP` for 17, `u.Buffer` (the raw rest) for anything else -/
theorem ipv6_demux (recv : V) (data : Slice) (v : V) (h : PIPv6.unmarshal recv data = .ok v) :
    ∃ nh n' last rest f0 f1 f2 f3 f5 f6 f7 f8 f9 f10 dat,
      data.byteAt 6 = .ok nh ∧ Chain data 40 nh n' last ∧ data.fromR n' = .ok rest ∧
      v = .obj "p.IPv6" [f0, f1, f2, f3, V.u8 nh, f5, f6, f7, f8, f9, f10, dat] ∧
      dat.kind = ipv6PayloadKind last ∧
      (last.toNat = Gen.protocol.Type_IPv6ICMP → PICMP.unmarshal PIPv4.newICMP rest = .ok dat) ∧
      (last.toNat ≠ Gen.protocol.Type_IPv6ICMP → last.toNat = Gen.protocol.Type_UDP →
        PUDP.unmarshal PIPv4.newUDP rest = .ok dat) ∧
      (last.toNat ≠ Gen.protocol.Type_IPv6ICMP → last.toNat ≠ Gen.protocol.Type_UDP → dat = UBuffer.mk rest.bytes) := by
  unfold PIPv6.unmarshal at h
  split at h
  · cases h
  · obtain ⟨b0, _, h⟩ := bind_ok_inv _ _ _ h
    obtain ⟨b1, _, h⟩ := bind_ok_inv _ _ _ h
    obtain ⟨w, _, h⟩ := bind_ok_inv _ _ _ h
    obtain ⟨ln, _, h⟩ := bind_ok_inv _ _ _ h
    obtain ⟨nh, hnh, h⟩ := bind_ok_inv _ _ _ h
    obtain ⟨hl, _, h⟩ := bind_ok_inv _ _ _ h
    obtain ⟨s, _, h⟩ := bind_ok_inv _ _ _ h
    obtain ⟨d, _, h⟩ := bind_ok_inv _ _ _ h
    obtain ⟨st, hst, h⟩ := bind_ok_inv _ _ _ h
    obtain ⟨rest, hrest, h⟩ := bind_ok_inv _ _ _ h
    have hc := xloop_chain data _ _ _ hst
    simp only at hc
    by_cases hp : st.nxt.toNat = Gen.protocol.Type_IPv6ICMP
    · rw [if_pos hp] at h
      obtain ⟨dat, hdat, h⟩ := bind_ok_inv _ _ _ h
      cases h
      refine ⟨nh, st.n, st.nxt, rest, _, _, _, _, _, _, _, _, _, _, dat, hnh, hc, hrest, rfl, ?_, ?_, ?_, ?_⟩
      · unfold ipv6PayloadKind; rw [if_pos hp]; exact icmp_kind _ _ _ hdat
      · intro _; exact hdat
      · intro hn; exact absurd hp hn
      · intro hn; exact absurd hp hn
    · rw [if_neg hp] at h
      by_cases hq : st.nxt.toNat = Gen.protocol.Type_UDP
      · rw [if_pos hq] at h
        obtain ⟨dat, hdat, h⟩ := bind_ok_inv _ _ _ h
        cases h
        refine ⟨nh, st.n, st.nxt, rest, _, _, _, _, _, _, _, _, _, _, dat, hnh, hc, hrest, rfl, ?_, ?_, ?_, ?_⟩
        · unfold ipv6PayloadKind; rw [if_neg hp, if_pos hq]; exact udp_kind _ _ _ hdat
        · intro hn; exact absurd hn hp
        · intro _ _; exact hdat
        · intro _ hn; exact absurd hq hn
      · rw [if_neg hq] at h
        obtain ⟨dat, hdat, h⟩ := bind_ok_inv _ _ _ h
        cases h
        refine ⟨nh, st.n, st.nxt, rest, _, _, _, _, _, _, _, _, _, _, dat, hnh, hc, hrest, rfl, ?_, ?_, ?_, ?_⟩
        · unfold ipv6PayloadKind; rw [if_neg hp, if_neg hq]; exact ubuffer_kind _ _ _ hdat
        · intro hn; exact absurd hn hp
        · intro _ hn; exact absurd hn hq
        · intro _ _; unfold UBuffer.unmarshal at hdat; cases hdat; rfl

/-- a successfully decoded IPv6 packet is a `p.IPv6` -/
theorem ipv6_kind (r : V) (d : Slice) (v : V) (h : PIPv6.unmarshal r d = .ok v) : v.kind = "p.IPv6" := by
  obtain ⟨_, _, _, _, _, _, _, _, _, _, _, _, _, _, _, _, _, _, hv, _⟩ := ipv6_demux r d v h
  rw [hv]; rfl

/-- the payload kind the Ethernet decoder must choose for ethertype `et` -/
def etherPayloadKind (et : UInt16) : String :=
  if et.toNat = Gen.protocol.IPv4_MSG then "p.IPv4" else if et.toNat = Gen.protocol.IPv6_MSG then "p.IPv6"
  else if et.toNat = Gen.protocol.ARP_MSG then "p.ARP" else "u.Buffer"

/-- where the frame's ethertype and payload are: behind an optional 802.1Q tag (TPID 0x8100 at offset 12) -/
def etherTypeAt (data : Slice) : R (UInt16 × Nat) := do
  let et0 ← data.u16From 12
  if et0.toNat = Gen.protocol.VLAN_MSG then do
    let et ← data.u16From 16
    pure (et, 18)
  else pure (et0, 14)

/-- the part of the Ethernet decoder after the ethertype has been located -/
theorem eth_tail (data : Slice) (f0 f1 f2 vlan : V) (et : UInt16) (n : Nat) (v : V)
    (h : (do
      let rest ← data.fromR n
      if et.toNat = Gen.protocol.IPv4_MSG then do
          let dat ← PIPv4.unmarshal PIPv4.zero rest
          pure (V.obj "p.Ethernet" [f0, f1, f2, vlan, V.u16 et, dat])
        else if et.toNat = Gen.protocol.IPv6_MSG then do
          let dat ← PIPv6.unmarshal PIPv6.zero rest
          pure (V.obj "p.Ethernet" [f0, f1, f2, vlan, V.u16 et, dat])
        else if et.toNat = Gen.protocol.ARP_MSG then do
          let dat ← PARP.unmarshal PARP.zero rest
          pure (V.obj "p.Ethernet" [f0, f1, f2, vlan, V.u16 et, dat])
        else do
          let dat ← UBuffer.unmarshal UBuffer.zero rest
          pure (V.obj "p.Ethernet" [f0, f1, f2, vlan, V.u16 et, dat])) = Res.ok v) :
    ∃ rest dat, data.fromR n = .ok rest ∧
      v = .obj "p.Ethernet" [f0, f1, f2, vlan, V.u16 et, dat] ∧
      dat.kind = etherPayloadKind et ∧
      (et.toNat = Gen.protocol.IPv4_MSG → PIPv4.unmarshal PIPv4.zero rest = .ok dat) ∧
      (et.toNat ≠ Gen.protocol.IPv4_MSG → et.toNat = Gen.protocol.IPv6_MSG → PIPv6.unmarshal PIPv6.zero rest = .ok dat) ∧
      (et.toNat ≠ Gen.protocol.IPv4_MSG → et.toNat ≠ Gen.protocol.IPv6_MSG → et.toNat = Gen.protocol.ARP_MSG →
        PARP.unmarshal PARP.zero rest = .ok dat) ∧
      (et.toNat ≠ Gen.protocol.IPv4_MSG → et.toNat ≠ Gen.protocol.IPv6_MSG → et.toNat ≠ Gen.protocol.ARP_MSG →
        dat = UBuffer.mk rest.bytes) := by
  obtain ⟨rest, hrest, h⟩ := bind_ok_inv _ _ _ h
  by_cases h4 : et.toNat = Gen.protocol.IPv4_MSG
  · rw [if_pos h4] at h
    obtain ⟨dat, hdat, h⟩ := bind_ok_inv _ _ _ h
    cases h
    refine ⟨rest, dat, hrest, rfl, ?_, ?_, ?_, ?_, ?_⟩
    · unfold etherPayloadKind; rw [if_pos h4]; exact ipv4_kind _ _ _ hdat
    · intro _; exact hdat
    · intro hn; exact absurd h4 hn
    · intro hn; exact absurd h4 hn
    · intro hn; exact absurd h4 hn
  · rw [if_neg h4] at h
    by_cases h6 : et.toNat = Gen.protocol.IPv6_MSG
    · rw [if_pos h6] at h
      obtain ⟨dat, hdat, h⟩ := bind_ok_inv _ _ _ h
      cases h
      refine ⟨rest, dat, hrest, rfl, ?_, ?_, ?_, ?_, ?_⟩
      · unfold etherPayloadKind; rw [if_neg h4, if_pos h6]; exact ipv6_kind _ _ _ hdat
      · intro hn; exact absurd hn h4
      · intro _ _; exact hdat
      · intro _ hn; exact absurd h6 hn
      · intro _ hn; exact absurd h6 hn
    · rw [if_neg h6] at h
      by_cases ha : et.toNat = Gen.protocol.ARP_MSG
      · rw [if_pos ha] at h
        obtain ⟨dat, hdat, h⟩ := bind_ok_inv _ _ _ h
        cases h
        refine ⟨rest, dat, hrest, rfl, ?_, ?_, ?_, ?_, ?_⟩
        · unfold etherPayloadKind; rw [if_neg h4, if_neg h6, if_pos ha]; exact arp_kind _ _ _ hdat
        · intro hn; exact absurd hn h4
        · intro _ hn; exact absurd hn h6
        · intro _ _ _; exact hdat
        · intro _ _ hn; exact absurd ha hn
      · rw [if_neg ha] at h
        obtain ⟨dat, hdat, h⟩ := bind_ok_inv _ _ _ h
        cases h
        refine ⟨rest, dat, hrest, rfl, ?_, ?_, ?_, ?_, ?_⟩
        · unfold etherPayloadKind; rw [if_neg h4, if_neg h6, if_neg ha]; exact ubuffer_kind _ _ _ hdat
        · intro hn; exact absurd hn h4
        · intro _ hn; exact absurd hn h6
        · intro _ _ hn; exact absurd hn ha
        · intro _ _ _; unfold UBuffer.unmarshal at hdat; cases hdat; rfl

/-- Ethernet demux: whenever `Ethernet.UnmarshalBinary` succeeds, the decoded `Ethertype` is the one found at offset 12,
    or at offset 16 behind an 802.1Q tag (TPID 0x8100 at offset 12; then the `VLANID` field is that tag decoded, otherwise
    it is the zero VLAN), the payload was decoded from the bytes after the ethertype (offset 14 / 18), and its kind is the
    one the ethertype selects — `p.IPv4` for 0x0800, `p.IPv6` for 0x86dd, `p.ARP` for 0x0806, `u.Buffer` (the raw rest)
    for anything else -/
theorem ethernet_demux (recv : V) (data : Slice) (v : V) (h : PEthernet.unmarshal recv data = .ok v) :
    ∃ et n rest f0 f1 f2 vlan dat,
      etherTypeAt data = .ok (et, n) ∧ data.fromR n = .ok rest ∧
      v = .obj "p.Ethernet" [f0, f1, f2, vlan, V.u16 et, dat] ∧
      dat.kind = etherPayloadKind et ∧
      (et.toNat = Gen.protocol.IPv4_MSG → PIPv4.unmarshal PIPv4.zero rest = .ok dat) ∧
      (et.toNat ≠ Gen.protocol.IPv4_MSG → et.toNat = Gen.protocol.IPv6_MSG → PIPv6.unmarshal PIPv6.zero rest = .ok dat) ∧
      (et.toNat ≠ Gen.protocol.IPv4_MSG → et.toNat ≠ Gen.protocol.IPv6_MSG → et.toNat = Gen.protocol.ARP_MSG →
        PARP.unmarshal PARP.zero rest = .ok dat) ∧
      (et.toNat ≠ Gen.protocol.IPv4_MSG → et.toNat ≠ Gen.protocol.IPv6_MSG → et.toNat ≠ Gen.protocol.ARP_MSG →
        dat = UBuffer.mk rest.bytes) ∧
      (n = 14 → vlan = PVLAN.zero) ∧
      (n = 18 → ∃ d12, data.fromR 12 = .ok d12 ∧ PVLAN.unmarshal PVLAN.zero d12 = .ok vlan) := by
  unfold PEthernet.unmarshal at h
  split at h
  · cases h
  · obtain ⟨s1, _, h⟩ := bind_ok_inv _ _ _ h
    obtain ⟨s2, _, h⟩ := bind_ok_inv _ _ _ h
    obtain ⟨et0, het0, h⟩ := bind_ok_inv _ _ _ h
    simp only at h
    unfold etherTypeAt
    rw [het0]
    simp only [Res.bind_ok]
    split at h
    · rename_i hv
      rw [if_pos hv]
      obtain ⟨d12, hd12, h⟩ := bind_ok_inv _ _ _ h
      obtain ⟨vl, hvl, h⟩ := bind_ok_inv _ _ _ h
      split at h
      · cases h
      · obtain ⟨et, het, h⟩ := bind_ok_inv _ _ _ h
        rw [het]
        obtain ⟨rest, dat, q1, q2, q3, q4, q5, q6, q7⟩ := eth_tail data _ _ _ vl et 18 v h
        exact ⟨et, 18, rest, _, _, _, vl, dat, rfl, q1, q2, q3, q4, q5, q6, q7, fun hn => by omega,
          fun _ => ⟨d12, hd12, hvl⟩⟩
    · rename_i hv
      rw [if_neg hv]
      obtain ⟨rest, dat, q1, q2, q3, q4, q5, q6, q7⟩ := eth_tail data _ _ _ PVLAN.zero et0 14 v h
      exact ⟨et0, 14, rest, _, _, _, PVLAN.zero, dat, rfl, q1, q2, q3, q4, q5, q6, q7, fun _ => rfl,
        fun hn => by omega⟩

end OFV.Props.C09
