/-
  C01 (part b) — sent messages are framed exactly: header length = bytes produced.

  "Every OpenFlow message a controller can build through the library's constructors and adder methods encodes to a
   byte string whose header carries protocol version 1.3, the type code of that message kind, and a length field equal
   to the exact number of bytes produced, which is also the size the message reports for itself.  This holds for every
   command variant and for any number and mix of match fields, instructions, actions, buckets, embedded messages and
   payload that fits in 65535 bytes."

  Vocabulary (definitions in `OFV/Lemmas/Frame.lean`):
    `hdrOf v`                      the embedded header of a message value (its first field)
    `frameBytes ver ty n xid`      the 8 bytes  ver, ty, n (big-endian uint16), xid (big-endian uint32)
    `Framed ver ty xid bs v'`      `bs.take 8 = frameBytes ver ty bs.length xid`  (byte 0 = version, byte 1 = type,
                                   bytes 2–3 = the exact number of bytes produced, bytes 4–7 = transaction id)  and the
                                   header stored back in `v'` is `Header(ver, ty, bs.length, xid)`
    `Framed.reads`                 the same read field by field (`beAt bs 0 1 = ver`, `beAt bs 2 2 = bs.length`, …)
    `Stamped ty xid v`             the embedded header of `v` is `Header(4, ty, _, xid)` — what the constructors produce
                                   and what adders / setters of other fields leave alone

  1. FRAMING, one theorem per controller-originated kind, for EVERY value `v` of the kind whose embedded header is
     `Header(ver, ty, _, xid)` (any other content: any command, any match, any instructions / actions / buckets / body):
       `K.marshalM v = .ok (bs, v')`  [and `bs.length < 65536` where the encoder appends]  ⟹
       `Framed ver ty xid bs v'`  ∧  `∀ l v1, K.lenM v = .ok (l, v1) → l.toNat = bs.length`.
       flowMod_framed                    every command, any content; needs `bs.length < 65536` (Len() is uint16, the
                                         encoding is appended: `C06b.instrActions_size_counterexample`)
       groupMod_framed                   every command, any buckets with any actions; needs only `bs.length < 65536`
                                         (Bucket.MarshalBinary() writes the padding Bucket.Len() counts — the fix of
                                         the defect this file first recorded as `groupMod_unframed_counterexample`;
                                         `groupMod_padded_bucket_framed` is that very value, now framed)
       portMod_framed, switchConfig_framed, hello_framed         unconditional
       header_bytes / headerOnly_sent    echo request / reply, features request, get-config request, barrier request:
                                         the bare header is written AS STORED (Length is not recomputed); every
                                         constructor stores 8 = the bytes produced
       multipartRequest_framed(')        each of the four body kinds; needs `bs.length < 65536`
       packetOut_framed                  the encoder calls Len() twice (buffer from the first, Header.Length from the
                                         second): needs the Data's Len() to be repeatable (`LenIdem`), which holds for
                                         what SetData stores (`packetOut_framed_setData`)
       vendorHeader_framed(_nil)         Header.Length from the first Len(), buffer from the second: needs the payload's
                                         Len() repeatable and non-nil (`VendorPayloadOK`), proved for every payload the
                                         constructors take: ControllerID, TLVTableMod, BundleControl, BundleAdd around a
                                         FlowMod / GroupMod / PortMod / PacketOut (any message with repeatable Len()), nil
  2. CONSTRUCTORS stamp version 4 and the kind's type code (`…_stamped`, `msgOfpHeader_eq`), ADDERS keep the header
     (`…_hdr`), `$m.Xid = x` keeps version and type (`Frame.Stamped.setXid`).
  3. COMPOSED (`…_sent`): a message that is `Stamped T xid` — built by constructor C, any sequence of adders and
     assignments to other fields — encodes with version 4, type T, length = bytes produced, that xid.
  4. SWITCH-ORIGINATED kinds the library also constructs and encodes (after the fixes of their constructors and
     encoders): `errorMsg_framed`, `vendorError_framed`, `flowRemoved_framed`, `portStatus_framed`, `packetIn_framed`,
     their `…_new_stamped` / `…_sent`, and `switch_side_constructors_framed` (the former `…_new_unframed` values).
  Observations kept: `header_stored_length_counterexample` (a bare header is written as stored: a Length field
  assigned by hand is sent as is — not reachable through constructors) and `packetOut_new_panics` (NewPacketOut()
  cannot be encoded before SetData).
-/
import OFV.Model.All
import OFV.Lemmas.Size
import OFV.Lemmas.SizeTac
import OFV.Lemmas.SizeInstr
import OFV.Lemmas.BeAt
import OFV.Lemmas.Frame
import OFV.Lemmas.FrameMsg
import OFV.Props.C06b
import OFV.Props.C13
namespace OFV.Props.C01b
open OFV OFV.Go OFV.Model OFV.Spec OFV.Frame InstrAux

/-! ## 1. framing, kind by kind -/

/-! ### FlowMod -/

/-- FlowMod — every command (add, modify, modify-strict, delete, delete-strict), any match, any instructions with any
    actions: the encoding starts with version, type, THE NUMBER OF BYTES PRODUCED, transaction id; that number is what
    Len() reports and what is stored back in Header.Length.  `bs.length < 65536` is needed: Len() adds in uint16 while
    the encoding is built with `append` (beyond 64 KiB the length field holds the size modulo 2^16). -/
theorem flowMod_framed (v : V) (ver ty xid : Nat) (ln : V)
    (hh : hdrOf v = .obj "Header" [.num ver, .num ty, ln, .num xid])
    (bs : Bytes) (v' : V) (hm : FlowMod.marshalM v = .ok (bs, v')) (hlt : bs.length < 65536) :
    Framed ver ty xid bs v' ∧ ∀ l v1, FlowMod.lenM v = .ok (l, v1) → l.toNat = bs.length := by
  refine ⟨?_, fun l v1 hl => ((C06b.flowMod_sizeMod v).toOK l v1 bs v' hl hm hlt).symm⟩
  have hm0 := hm
  unfold FlowMod.marshalM at hm
  obtain ⟨⟨l, v1⟩, hl, h3⟩ := bind_ok_inv _ _ _ hm
  have hsz := (C06b.flowMod_sizeMod v).toOK l v1 bs v' hl hm0 hlt
  unfold FlowMod.lenM at hl
  split at hl
  · rename_i h ck cm tid cmd it ht pr bid op og fl pad m is
    simp only [hdrOf] at hh
    subst hh
    obtain ⟨⟨ml, m1⟩, hml, hl2⟩ := bind_ok_inv _ _ _ hl
    simp only at hl2
    split at hl2
    · cases hl2
      simp only at h3
      split at h3
      · rename_i heq
        cases heq
        obtain ⟨hb, hhb, h4⟩ := bind_ok_inv _ _ _ h3
        obtain ⟨⟨⟨mb, m''⟩, e0⟩, hmm, h5⟩ := bind_ok_inv _ _ _ h4
        obtain ⟨⟨ib, is2, e⟩, hmli, h6⟩ := bind_ok_inv _ _ _ h5
        simp only at h6
        split at h6
        · exact absurd h6 (by simp)
        · cases h6
          simp only [List.append_assoc] at hsz ⊢
          exact framed_append ver ty xid ln _ hb _ _ hhb hsz rfl
      · exact absurd h3 (by simp)
    · obtain ⟨⟨ls, is1⟩, hm1, hl3⟩ := bind_ok_inv _ _ _ hl2
      cases hl3
      simp only at h3
      split at h3
      · rename_i heq
        cases heq
        obtain ⟨hb, hhb, h4⟩ := bind_ok_inv _ _ _ h3
        obtain ⟨⟨⟨mb, m''⟩, e0⟩, hmm, h5⟩ := bind_ok_inv _ _ _ h4
        obtain ⟨⟨ib, is2, e⟩, hmli, h6⟩ := bind_ok_inv _ _ _ h5
        simp only at h6
        split at h6
        · exact absurd h6 (by simp)
        · cases h6
          simp only [List.append_assoc] at hsz ⊢
          exact framed_append ver ty xid ln _ hb _ _ hhb hsz rfl
      · exact absurd h3 (by simp)
  · exact absurd hl (by simp)

/-! ### GroupMod -/

/-- GroupMod, every command, any buckets: the header bytes are (version, type, Len(), xid) and Len() is stored back —
    so the message is framed exactly when Len() is the number of bytes produced -/
theorem groupMod_framed_of_size (v : V) (ver ty xid : Nat) (ln : V)
    (hh : hdrOf v = .obj "Header" [.num ver, .num ty, ln, .num xid])
    (bs : Bytes) (v' : V) (hm : GroupMod.marshalM v = .ok (bs, v'))
    (hsz : ∀ l v1, GroupMod.lenM v = .ok (l, v1) → bs.length = l.toNat) :
    Framed ver ty xid bs v' := by
  unfold GroupMod.marshalM at hm
  obtain ⟨⟨l, v1⟩, hl, h3⟩ := bind_ok_inv _ _ _ hm
  have hsz0 := hsz l v1 hl
  unfold GroupMod.lenM at hl
  split at hl
  · rename_i h cmd t p g bks
    simp only [hdrOf] at hh
    subst hh
    split at hl
    · cases hl
      simp only at h3
      split at h3
      · rename_i heq
        cases heq
        obtain ⟨hb, hhb, h4⟩ := bind_ok_inv _ _ _ h3
        obtain ⟨⟨bb, bks3, e⟩, hml, h5⟩ := bind_ok_inv _ _ _ h4
        simp only at h5
        split at h5
        · exact absurd h5 (by simp)
        · cases h5
          simp only [List.append_assoc] at hsz0 ⊢
          exact framed_append ver ty xid ln _ hb _ _ hhb hsz0 rfl
      · exact absurd h3 (by simp)
    · obtain ⟨⟨ls, bks1⟩, hm1, hl3⟩ := bind_ok_inv _ _ _ hl
      cases hl3
      simp only at h3
      split at h3
      · rename_i heq
        cases heq
        obtain ⟨hb, hhb, h4⟩ := bind_ok_inv _ _ _ h3
        obtain ⟨⟨bb, bks3, e⟩, hml, h5⟩ := bind_ok_inv _ _ _ h4
        simp only at h5
        split at h5
        · exact absurd h5 (by simp)
        · cases h5
          simp only [List.append_assoc] at hsz0 ⊢
          exact framed_append ver ty xid ln _ hb _ _ hhb hsz0 rfl
      · exact absurd h3 (by simp)
  · exact absurd hl (by simp)

/-- GroupMod — every command (add, modify, delete), any buckets with any number and mix of actions: framed, as long as
    the encoding is shorter than 64 KiB (Len() adds in uint16, the encoding is appended).  Bucket.MarshalBinary() writes
    the padding Bucket.Len() counts, so no alignment condition is left (`Frame.groupMod_size`, proved from the model). -/
theorem groupMod_framed (v : V) (ver ty xid : Nat) (ln : V)
    (hh : hdrOf v = .obj "Header" [.num ver, .num ty, ln, .num xid])
    (bs : Bytes) (v' : V) (hm : GroupMod.marshalM v = .ok (bs, v')) (hlt : bs.length < 65536) :
    Framed ver ty xid bs v' ∧ ∀ l v1, GroupMod.lenM v = .ok (l, v1) → l.toNat = bs.length := by
  have hs := fun l v1 hl => groupMod_size v l v1 bs v' hl hm hlt
  exact ⟨groupMod_framed_of_size v ver ty xid ln hh bs v' hm hs, fun l v1 hl => (hs l v1 hl).symm⟩

/-- the former counterexample — `NewBucket(); AddAction(NewNxActionHeader(0)); NewGroupMod(); AddBucket` (a 10-byte
    action: the bucket's 26 bytes are padded to the 32 that Bucket.Len() reports) — is now framed: 48 bytes, length 48 -/
theorem groupMod_padded_bucket_framed :
    ∃ b g bs v', Bucket.addAction Bucket.new (NXActionHeader.new 0) = .ok b ∧
      GroupMod.addBucket (GroupMod.new 7) b = .ok g ∧
      GroupMod.marshalM g = .ok (bs, v') ∧ bs.length = 48 ∧ beAt bs 2 2 = 48 ∧
      Framed Gen.openflow13.VERSION Gen.openflow13.Type_GroupMod 7 bs v' := by
  have hm : GroupMod.marshalM (.obj "GroupMod" [.obj "Header" [.num 4, .num 15, .num 8, .num 7], .num 0, .num 0, .num 0, .num 0,
      .list [.obj "Bucket" [.num 16, .num 0, .num 4294967295, .num 4294967295, .bytes (zeros 4),
        .list [NXActionHeader.new 0]]]]) = .ok (_, _) := rfl
  exact ⟨_, _, _, _, rfl, rfl, hm, rfl, rfl, (groupMod_framed _ _ _ 7 _ rfl _ _ hm (by decide)).1⟩

/-! ### PortMod, SetConfig, Hello, header-only messages -/

/-- PortMod: framed, 40 bytes, whatever the fields hold -/
theorem portMod_framed (v : V) (ver ty xid : Nat) (ln : V)
    (hh : hdrOf v = .obj "Header" [.num ver, .num ty, ln, .num xid])
    (bs : Bytes) (v' : V) (hm : PortMod.marshalM v = .ok (bs, v')) :
    Framed ver ty xid bs v' ∧ bs.length = 40 ∧ ∀ l v1, PortMod.lenM v = .ok (l, v1) → l.toNat = bs.length := by
  have hs : ∀ l v1, PortMod.lenM v = .ok (l, v1) → bs.length = l.toNat :=
    fun l v1 hl => C06b.portMod_size v l v1 bs v' hl hm
  have h40 : bs.length = 40 := hs _ v rfl
  refine ⟨?_, h40, fun l v1 hl => (hs l v1 hl).symm⟩
  unfold PortMod.marshalM at hm
  obtain ⟨⟨l, v1⟩, hl, h3⟩ := bind_ok_inv _ _ _ hm
  have hsz := hs l v1 hl
  obtain ⟨rfl, rfl⟩ := same_ok _ _ _ _ hl
  simp only at h3
  split at h3
  · simp only [hdrOf] at hh
    subst hh
    obtain ⟨hb, hhb, h4⟩ := bind_ok_inv _ _ _ h3
    obtain ⟨b, hfb, h5⟩ := bind_ok_inv _ _ _ h4
    cases h5
    exact framed_append ver ty xid ln _ hb _ _ hhb hsz rfl
  · exact absurd h3 (by simp)

/-- SwitchConfig (SetConfig): framed, 12 bytes -/
theorem switchConfig_framed (v : V) (ver ty xid : Nat) (ln : V)
    (hh : hdrOf v = .obj "Header" [.num ver, .num ty, ln, .num xid])
    (bs : Bytes) (v' : V) (hm : SwitchConfig.marshalM v = .ok (bs, v')) :
    Framed ver ty xid bs v' ∧ bs.length = 12 ∧ ∀ l v1, SwitchConfig.lenM v = .ok (l, v1) → l.toNat = bs.length := by
  have hs : ∀ l v1, SwitchConfig.lenM v = .ok (l, v1) → bs.length = l.toNat :=
    fun l v1 hl => C06b.switchConfig_size v l v1 bs v' hl hm
  have h12 : bs.length = 12 := hs _ v rfl
  refine ⟨?_, h12, fun l v1 hl => (hs l v1 hl).symm⟩
  unfold SwitchConfig.marshalM at hm
  obtain ⟨⟨l0, v0⟩, hl0, h3⟩ := bind_ok_inv _ _ _ hm
  obtain ⟨rfl, rfl⟩ := same_ok _ _ _ _ hl0
  obtain ⟨⟨l1, v1⟩, hl1, h4⟩ := bind_ok_inv _ _ _ h3
  obtain ⟨rfl, rfl⟩ := same_ok _ _ _ _ hl1
  simp only at h4
  split at h4
  · simp only [hdrOf] at hh
    subst hh
    obtain ⟨hb, hhb, h5⟩ := bind_ok_inv _ _ _ h4
    obtain ⟨out, hfill, h6⟩ := bind_ok_inv _ _ _ h5
    cases h6
    refine framed_fill ver ty xid ln 12 hb _ _ _ bs _ hhb ?_ hfill h12 rfl
    intro k hk; simp [pU16] at hk
  · exact absurd h4 (by simp)

/-- Hello, any list of elements: framed (the buffer is allocated from the first Len(), Header.Length is the second;
    Hello.Len() changes nothing, so they agree; the encoding never exceeds 65535 bytes: a longer element list makes
    the encoder panic or truncate, it does not produce a longer message) -/
theorem hello_framed (v : V) (ver ty xid : Nat) (ln : V)
    (hh : hdrOf v = .obj "Header" [.num ver, .num ty, ln, .num xid])
    (bs : Bytes) (v' : V) (hm : Hello.marshalM v = .ok (bs, v')) :
    Framed ver ty xid bs v' ∧ bs.length < 65536 ∧ ∀ l v1, Hello.lenM v = .ok (l, v1) → l.toNat = bs.length := by
  have hs : ∀ l v1, Hello.lenM v = .ok (l, v1) → bs.length = l.toNat :=
    fun l v1 hl => C06b.hello_size v l v1 bs v' hl hm
  unfold Hello.marshalM at hm
  obtain ⟨⟨l0, v0⟩, hl0, h3⟩ := bind_ok_inv _ _ _ hm
  have hsz := hs l0 v0 hl0
  refine ⟨?_, by rw [hsz]; exact l0.toNat_lt, fun l v1 hl => (hs l v1 hl).symm⟩
  have e0 := C13.hello_len_pure v l0 v0 hl0
  subst e0
  obtain ⟨⟨l1, v1⟩, hl1, h4⟩ := bind_ok_inv _ _ _ h3
  rw [hl0] at hl1
  cases hl1
  simp only at h4
  split at h4
  · rename_i hdr es
    simp only [hdrOf] at hh
    subst hh
    obtain ⟨hb, hhb, h5⟩ := bind_ok_inv _ _ _ h4
    obtain ⟨⟨ebs, es'⟩, hmar, h6⟩ := bind_ok_inv _ _ _ h5
    obtain ⟨out, hfill, h7⟩ := bind_ok_inv _ _ _ h6
    cases h7
    cases ebs with
    | nil =>
      have hes : es = [] := by
        have := (mapM2_length _ _ _ _ hmar).1
        cases es with
        | nil => rfl
        | cons a as => simp at this
      subst hes
      simp only [Hello.lenM, mapM2_nil, Res.bind_ok] at hl0
      cases hl0
      exact framed_fill_fit ver ty xid ln _ hb _ _ bs _ hhb (by decide) hfill hsz rfl
    | cons e ebs =>
      refine framed_fill ver ty xid ln _ hb _ _ _ bs _ hhb ?_ hfill hsz rfl
      intro k hk; simp [pCopy] at hk
  · exact absurd h4 (by simp)

/-- header-only messages (echo request / reply, features request, get-config request, barrier request are a bare
    `Header`): Header.MarshalBinary() writes the header AS STORED — it never recomputes Length — and produces 8 bytes -/
theorem header_bytes (ver ty ln xid : Nat) (bs : Bytes) (v' : V)
    (hm : Header.marshalM (.obj "Header" [.num ver, .num ty, .num ln, .num xid]) = .ok (bs, v')) :
    bs = frameBytes ver ty ln xid ∧ bs.length = 8 ∧ v' = .obj "Header" [.num ver, .num ty, .num ln, .num xid] := by
  simp only [Header.marshalM, Header.bytes, Res.bind_ok, same, Res.ok.injEq, Prod.mk.injEq] at hm
  obtain ⟨rfl, rfl⟩ := hm
  exact ⟨rfl, rfl, rfl⟩

/-- … so a bare header is framed iff the stored Length is 8; a header whose Length field was assigned something else
    is sent with that value (not reachable through constructors: they all store 8) -/
theorem header_stored_length_counterexample :
    ∃ bs v', Header.marshalM (.obj "Header" [.num 4, .num 2, .num 99, .num 0]) = .ok (bs, v') ∧
      bs.length = 8 ∧ beAt bs 2 2 = 99 :=
  ⟨_, _, rfl, rfl, rfl⟩

/-! ### MultipartRequest -/

/-- MultipartRequest, for any functions used for the body: header bytes = (version, type, Len(), xid), Len() stored
    back — framed exactly when Len() is the number of bytes produced -/
theorem multipartRequest_framed_of_size (cl : MsgLenF) (cm : MsgMarF) (v : V) (ver ty xid : Nat) (ln : V)
    (hh : hdrOf v = .obj "Header" [.num ver, .num ty, ln, .num xid])
    (bs : Bytes) (v' : V) (hm : MultipartRequest.marshalWith cl cm v = .ok (bs, v'))
    (hsz : ∀ l v1, MultipartRequest.lenWith cl v = .ok (l, v1) → bs.length = l.toNat) :
    Framed ver ty xid bs v' := by
  unfold MultipartRequest.marshalWith at hm
  obtain ⟨⟨l, v1⟩, hl, h3⟩ := bind_ok_inv _ _ _ hm
  have hsz0 := hsz l v1 hl
  unfold MultipartRequest.lenWith at hl
  split at hl
  · rename_i h t f p b
    simp only [hdrOf] at hh
    subst hh
    obtain ⟨⟨lb, b'⟩, hlb, hl2⟩ := bind_ok_inv _ _ _ hl
    cases hl2
    simp only at h3
    split at h3
    · rename_i heq
      cases heq
      obtain ⟨hb, hhb, h4⟩ := bind_ok_inv _ _ _ h3
      obtain ⟨⟨bb, b''⟩, hbm, h5⟩ := bind_ok_inv _ _ _ h4
      cases h5
      simp only [List.append_assoc] at hsz0 ⊢
      exact framed_append ver ty xid ln _ hb _ _ hhb hsz0 rfl
    · exact absurd h3 (by simp)
  · exact absurd hl (by simp)

/-- MultipartRequest with a body whose reported size is its encoded size (mod 2^16), shorter than 64 KiB: framed -/
theorem multipartRequest_framed (cl : MsgLenF) (cm : MsgMarF) (ver ty xid : Nat) (ln t f p b : V)
    (hc : ∀ l b' bb b'', cl b = .ok (l, b') → cm b' = .ok (bb, b'') → l.toNat = bb.length % 65536)
    (bs : Bytes) (v' : V)
    (hm : MultipartRequest.marshalWith cl cm
      (.obj "MultipartRequest" [.obj "Header" [.num ver, .num ty, ln, .num xid], t, f, p, b]) = .ok (bs, v'))
    (hlt : bs.length < 65536) :
    Framed ver ty xid bs v' ∧
    ∀ l v1, MultipartRequest.lenWith cl
      (.obj "MultipartRequest" [.obj "Header" [.num ver, .num ty, ln, .num xid], t, f, p, b]) = .ok (l, v1) →
      l.toNat = bs.length := by
  have hs := fun l v1 hl => (C06b.multipartRequest_sizeMod cl cm _ t f p b hc).toOK l v1 bs v' hl hm hlt
  exact ⟨multipartRequest_framed_of_size cl cm _ ver ty xid ln rfl bs v' hm hs, fun l v1 hl => (hs l v1 hl).symm⟩

/-- MultipartRequest as the library encodes it, with each of its four body kinds (FlowStatsRequest,
    AggregateStatsRequest — any match —, PortStatsRequest, QueueStatsRequest): framed.  (A request without body —
    desc, table, … — cannot be encoded at all: `s.Body.Len()` on a nil interface panics.) -/
theorem multipartRequest_framed' (ver ty xid : Nat) (ln t f p b : V) (hb : IsMpBody b) (bs : Bytes) (v' : V)
    (hm : MultipartRequest.marshalM
      (.obj "MultipartRequest" [.obj "Header" [.num ver, .num ty, ln, .num xid], t, f, p, b]) = .ok (bs, v'))
    (hlt : bs.length < 65536) :
    Framed ver ty xid bs v' ∧
    ∀ l v1, MultipartRequest.lenM
      (.obj "MultipartRequest" [.obj "Header" [.num ver, .num ty, ln, .num xid], t, f, p, b]) = .ok (l, v1) →
      l.toNat = bs.length :=
  multipartRequest_framed anyLenM anyMarshalM ver ty xid ln t f p b (mpBody_size b hb) bs v' hm hlt

/-! ### PacketOut -/

/-- PacketOut, any actions, any Data, for any functions used for the Data: the buffer is allocated from the FIRST Len()
    call, Header.Length is the SECOND — framed whenever the two agree (`LenIdem`) -/
theorem packetOut_framed_of_idem (cl : MsgLenF) (cm : MsgMarF) (v : V) (ver ty xid : Nat) (ln : V)
    (hh : hdrOf v = .obj "Header" [.num ver, .num ty, ln, .num xid])
    (hidem : LenIdem (PacketOut.lenWith cl) v)
    (bs : Bytes) (v' : V) (hm : PacketOut.marshalWith cl cm v = .ok (bs, v')) :
    Framed ver ty xid bs v' ∧ bs.length < 65536 ∧ ∀ l v1, PacketOut.lenWith cl v = .ok (l, v1) → l.toNat = bs.length := by
  have hs : ∀ l v1, PacketOut.lenWith cl v = .ok (l, v1) → bs.length = l.toNat :=
    fun l v1 hl => C06b.packetOut_size cl cm v l v1 bs v' hl hm
  unfold PacketOut.marshalWith at hm
  obtain ⟨⟨l0, v0⟩, hl0, h3⟩ := bind_ok_inv _ _ _ hm
  have hsz := hs l0 v0 hl0
  refine ⟨?_, by rw [hsz]; exact l0.toNat_lt, fun l v1 hl => (hs l v1 hl).symm⟩
  obtain ⟨⟨l1, v1⟩, hl1, h4⟩ := bind_ok_inv _ _ _ h3
  rw [hidem l0 v0 hl0] at hl1
  cases hl1
  unfold PacketOut.lenWith at hl0
  split at hl0
  · rename_i h b ip al pad as d
    simp only [hdrOf] at hh
    subst hh
    obtain ⟨⟨ls, as1⟩, hma, hl2⟩ := bind_ok_inv _ _ _ hl0
    obtain ⟨⟨ld, d1⟩, hcd, hl3⟩ := bind_ok_inv _ _ _ hl2
    cases hl3
    simp only at h4
    split at h4
    · rename_i heq
      cases heq
      obtain ⟨hb, hhb, h5⟩ := bind_ok_inv _ _ _ h4
      -- whatever happens between the header and the final `fill` (sizing / encoding the actions, the early writes,
      -- encoding Data): peel every step, keep the last one
      revert h5
      repeat peel1
      intro h9
      rename_i out hfill
      cases h9
      simp only [List.cons_append, List.nil_append] at hfill
      refine framed_fill ver ty xid ln _ hb _ _ _ bs _ hhb ?_ hfill hsz rfl
      intro k hk; simp [pU32] at hk
    · exact absurd h4 (by simp)
  · exact absurd hl0 (by simp)

/-- PacketOut as the library encodes it: framed when the Data's Len() is repeatable (a second call on what the first
    left behind gives the same answer) — the condition is needed because the encoder sizes the buffer and the header
    from two different Len() calls -/
theorem packetOut_framed (ver ty xid : Nat) (ln b ip al pad : V) (as : List V) (d : V) (hd : LenIdem anyLenM d)
    (bs : Bytes) (v' : V)
    (hm : PacketOut.marshalM (.obj "PacketOut" [.obj "Header" [.num ver, .num ty, ln, .num xid], b, ip, al, pad, .list as, d])
      = .ok (bs, v')) :
    Framed ver ty xid bs v' ∧ bs.length < 65536 ∧
    ∀ l v1, PacketOut.lenM (.obj "PacketOut" [.obj "Header" [.num ver, .num ty, ln, .num xid], b, ip, al, pad, .list as, d])
      = .ok (l, v1) → l.toNat = bs.length :=
  packetOut_framed_of_idem anyLenM anyMarshalM _ ver ty xid ln rfl (packetOut_lenWith_idem anyLenM _ b ip al pad as d hd) bs v' hm

/-- … which holds for the Data `SetData(bytes)` stores: a PacketOut with any actions and a byte payload is framed -/
theorem packetOut_framed_setData (ver ty xid : Nat) (ln b ip al pad : V) (as : List V) (payload : Bytes)
    (bs : Bytes) (v' : V)
    (hm : PacketOut.marshalM (.obj "PacketOut" [.obj "Header" [.num ver, .num ty, ln, .num xid], b, ip, al, pad, .list as,
      .obj "u.Buffer" [.bytes payload]]) = .ok (bs, v')) :
    Framed ver ty xid bs v' ∧ bs.length < 65536 ∧
    ∀ l v1, PacketOut.lenM (.obj "PacketOut" [.obj "Header" [.num ver, .num ty, ln, .num xid], b, ip, al, pad, .list as,
      .obj "u.Buffer" [.bytes payload]]) = .ok (l, v1) → l.toNat = bs.length :=
  packetOut_framed ver ty xid ln b ip al pad as _ (uBuffer_lenIdem _) bs v' hm

/-! ### VendorHeader (experimenter messages: SetControllerID, TLV table mod / request, bundle control, bundle add) -/

/-- VendorHeader, for any functions used for the payload: the header bytes are (version, type, the FIRST Len(), xid),
    that Len() is stored back, and the buffer (allocated from the SECOND Len()) starts with them — framed exactly when
    the first Len() is the number of bytes produced -/
theorem vendorHeader_framed_of_size (cl : MsgLenF) (cm : MsgMarF) (v : V) (ver ty xid : Nat) (ln : V)
    (hh : hdrOf v = .obj "Header" [.num ver, .num ty, ln, .num xid])
    (bs : Bytes) (v' : V) (hm : VendorHeader.marshalWith cl cm v = .ok (bs, v'))
    (hsz : ∀ l v1, VendorHeader.lenWith cl v = .ok (l, v1) → bs.length = l.toNat) :
    Framed ver ty xid bs v' := by
  unfold VendorHeader.marshalWith at hm
  obtain ⟨⟨l1, v1⟩, hl1, h3⟩ := bind_ok_inv _ _ _ hm
  have hsz0 := hsz l1 v1 hl1
  obtain ⟨⟨l2, v2⟩, hl2, h4⟩ := bind_ok_inv _ _ _ h3
  have hv1 : hdrOf v1 = hdrOf v := by
    unfold VendorHeader.lenWith at hl1
    split at hl1
    · cases hl1; rfl
    · obtain ⟨_, _, hl1'⟩ := bind_ok_inv _ _ _ hl1
      cases hl1'; rfl
    · exact absurd hl1 (by simp)
  have hv2 : hdrOf v2 = hdrOf v1 := by
    unfold VendorHeader.lenWith at hl2
    split at hl2
    · cases hl2; rfl
    · obtain ⟨_, _, hl2'⟩ := bind_ok_inv _ _ _ hl2
      cases hl2'; rfl
    · exact absurd hl2 (by simp)
  rw [hv1, hh] at hv2
  simp only at h4
  split at h4
  · rename_i h vn t d
    simp only [hdrOf] at hv2
    subst hv2
    split at h4
    · obtain ⟨hb, hhb, h5⟩ := bind_ok_inv _ _ _ h4
      obtain ⟨out, hfill, h6⟩ := bind_ok_inv _ _ _ h5
      cases h6
      refine framed_fill ver ty xid ln _ hb _ _ _ bs _ hhb ?_ hfill hsz0 rfl
      intro k hk; simp [pU32] at hk
    · obtain ⟨hb, hhb, h5⟩ := bind_ok_inv _ _ _ h4
      obtain ⟨_, _, h6⟩ := bind_ok_inv _ _ _ h5
      obtain ⟨⟨db, d2⟩, hdm, h7⟩ := bind_ok_inv _ _ _ h6
      obtain ⟨out, hfill, h8⟩ := bind_ok_inv _ _ _ h7
      cases h8
      simp only [List.cons_append, List.nil_append] at hfill
      refine framed_fill ver ty xid ln _ hb _ _ _ bs _ hhb ?_ hfill hsz0 rfl
      intro k hk; simp [pU32] at hk
  · exact absurd h4 (by simp)

/-- an experimenter message with a payload: framed when the payload's Len() is repeatable and leaves a non-nil payload
    (`VendorPayloadOK`, the condition of `C06b.vendorHeader_size'`: the encoder takes Header.Length and the buffer
    size from two different Len() calls) -/
theorem vendorHeader_framed (ver ty xid : Nat) (ln vn t d : V) (hd : VendorPayloadOK d) (bs : Bytes) (v' : V)
    (hm : VendorHeader.marshalM (.obj "VendorHeader" [.obj "Header" [.num ver, .num ty, ln, .num xid], vn, t, d]) = .ok (bs, v')) :
    Framed ver ty xid bs v' ∧ bs.length < 65536 ∧
    ∀ l v1, VendorHeader.lenM (.obj "VendorHeader" [.obj "Header" [.num ver, .num ty, ln, .num xid], vn, t, d]) = .ok (l, v1) →
      l.toNat = bs.length := by
  have hs := fun l v1 hl => C06b.vendorHeader_size' _ vn t d hd.1 hd.2 l v1 bs v' hl hm
  refine ⟨vendorHeader_framed_of_size anyLenM anyMarshalM _ ver ty xid ln rfl bs v' hm hs, ?_, fun l v1 hl => (hs l v1 hl).symm⟩
  unfold VendorHeader.marshalM VendorHeader.marshalWith at hm
  obtain ⟨⟨l1, v1⟩, hl1, _⟩ := bind_ok_inv _ _ _ hm
  rw [hs l1 v1 hl1]; exact l1.toNat_lt

/-- an experimenter message without payload (NewNXTVendorHeader, TLV table request): framed, 16 bytes -/
theorem vendorHeader_framed_nil (ver ty xid : Nat) (ln vn t : V) (bs : Bytes) (v' : V)
    (hm : VendorHeader.marshalM (.obj "VendorHeader" [.obj "Header" [.num ver, .num ty, ln, .num xid], vn, t, .nil]) = .ok (bs, v')) :
    Framed ver ty xid bs v' ∧ bs.length = 16 ∧
    ∀ l v1, VendorHeader.lenM (.obj "VendorHeader" [.obj "Header" [.num ver, .num ty, ln, .num xid], vn, t, .nil]) = .ok (l, v1) →
      l.toNat = bs.length := by
  have hs := fun l v1 hl => C06b.vendorHeader_size_nil _ vn t l v1 bs v' hl hm
  exact ⟨vendorHeader_framed_of_size anyLenM anyMarshalM _ ver ty xid ln rfl bs v' hm hs, hs _ _ rfl,
    fun l v1 hl => (hs l v1 hl).symm⟩

/-- SetControllerID payload: fine, whatever it holds -/
theorem controllerID_payloadOK (fs : List V) : VendorPayloadOK (.obj "ControllerID" fs) := by
  apply VendorPayloadOK.of_pure _ _ (by intro h; cases h)
  intro l v1 h
  have e : anyLenM (.obj "ControllerID" fs) = ControllerID.lenM (.obj "ControllerID" fs) := rfl
  rw [e] at h
  exact (same_ok _ _ _ _ h).2

/-- bundle control payload: fine -/
theorem bundleControl_payloadOK (fs : List V) : VendorPayloadOK (.obj "BundleControl" fs) := by
  apply VendorPayloadOK.of_pure _ _ (by intro h; cases h)
  intro l v1 h
  have e : anyLenM (.obj "BundleControl" fs) = BundleControl.lenM (.obj "BundleControl" fs) := rfl
  rw [e] at h
  exact (same_ok _ _ _ _ h).2

/-- TLV table mod payload, any number of maps: fine -/
theorem tlvTableMod_payloadOK (fs : List V) : VendorPayloadOK (.obj "TLVTableMod" fs) := by
  apply VendorPayloadOK.of_pure _ _ (by intro h; cases h)
  intro l v1 h
  have e : anyLenM (.obj "TLVTableMod" fs) = TLVTableMod.lenM (.obj "TLVTableMod" fs) := rfl
  rw [e] at h
  exact (C13.tlvTableMod_pure _).1 l v1 h

/-- bundle add payload, any properties, around any message whose Len() is repeatable: fine -/
theorem bundleAdd_payloadOK (i p f m : V) (ps : List V) (hm : LenIdem (msgAnyLenD 7) m) :
    VendorPayloadOK (.obj "BundleAdd" [i, p, f, m, .list ps]) := by
  have e : ∀ fs, anyLenM (.obj "BundleAdd" fs) = BundleAdd.lenWith (msgAnyLenD 7) (.obj "BundleAdd" fs) := fun _ => rfl
  constructor
  · intro l v1 hl
    rw [e] at hl
    have := bundleAdd_lenWith_idem _ i p f m ps hm l v1 hl
    simp only [BundleAdd.lenWith] at hl
    obtain ⟨⟨lm, m1⟩, hcm, hl2⟩ := bind_ok_inv _ _ _ hl
    obtain ⟨⟨ls, x⟩, hps, hl3⟩ := bind_ok_inv _ _ _ hl2
    cases hl3
    rw [e]; exact this
  · intro l d' hl
    rw [e] at hl
    simp only [BundleAdd.lenWith] at hl
    obtain ⟨⟨lm, m1⟩, hcm, hl2⟩ := bind_ok_inv _ _ _ hl
    obtain ⟨⟨ls, x⟩, hps, hl3⟩ := bind_ok_inv _ _ _ hl2
    cases hl3
    intro hc; cases hc

/-- … in particular around ANY FlowMod (any command, match, instructions) -/
theorem bundleAdd_flowMod_payloadOK (i p f : V) (fm : List V) (ps : List V) :
    VendorPayloadOK (.obj "BundleAdd" [i, p, f, .obj "FlowMod" fm, .list ps]) :=
  bundleAdd_payloadOK i p f _ ps (bundled_flowMod_lenIdem fm)

/-- … and around ANY GroupMod -/
theorem bundleAdd_groupMod_payloadOK (i p f : V) (gm : List V) (ps : List V) :
    VendorPayloadOK (.obj "BundleAdd" [i, p, f, .obj "GroupMod" gm, .list ps]) :=
  bundleAdd_payloadOK i p f _ ps (bundled_groupMod_lenIdem gm)

/-- … around ANY PortMod -/
theorem bundleAdd_portMod_payloadOK (i p f : V) (pm : List V) (ps : List V) :
    VendorPayloadOK (.obj "BundleAdd" [i, p, f, .obj "PortMod" pm, .list ps]) :=
  bundleAdd_payloadOK i p f _ ps (bundled_portMod_lenIdem pm)

/-- … and around a PacketOut with any actions and a byte payload -/
theorem bundleAdd_packetOut_payloadOK (i p f h b ip al pad : V) (as payload : List V) (ps : List V) :
    VendorPayloadOK (.obj "BundleAdd" [i, p, f,
      .obj "PacketOut" [h, b, ip, al, pad, .list as, .obj "u.Buffer" payload], .list ps]) :=
  bundleAdd_payloadOK i p f _ ps (bundled_packetOut_lenIdem h b ip al pad as payload)

/-! ## 2. constructors stamp version 1.3 and the type code; adders keep the header -/

/-- NewFlowMod(): version 4, OFPT_FLOW_MOD -/
theorem flowMod_new_stamped (xid : Nat) : Stamped Gen.openflow13.Type_FlowMod (n32 xid).toNat (FlowMod.new xid) := ⟨.num 8, rfl⟩
/-- NewGroupMod(): version 4, OFPT_GROUP_MOD -/
theorem groupMod_new_stamped (xid : Nat) : Stamped Gen.openflow13.Type_GroupMod (n32 xid).toNat (GroupMod.new xid) := ⟨.num 8, rfl⟩
/-- NewPacketOut(): version 4, OFPT_PACKET_OUT -/
theorem packetOut_new_stamped : Stamped Gen.openflow13.Type_PacketOut 0 PacketOut.new := ⟨.num 8, rfl⟩
/-- NewPortMod(port): version 4, OFPT_PORT_MOD -/
theorem portMod_new_stamped (port : Nat) : Stamped Gen.openflow13.Type_PortMod 0 (PortMod.new port) := ⟨.num 8, rfl⟩
/-- NewSetConfig(): version 4, OFPT_SET_CONFIG -/
theorem setConfig_new_stamped : Stamped Gen.openflow13.Type_SetConfig 0 SwitchConfig.new := ⟨.num 8, rfl⟩
/-- NewHello(4): version 4, OFPT_HELLO (the version is the caller's argument: NewHello(v) stamps v) -/
theorem hello_new_stamped (xid : Nat) :
    Stamped Gen.openflow13.Type_Hello (n32 xid).toNat (NewHello Gen.openflow13.VERSION xid) := ⟨.num 8, rfl⟩
/-- NewHello(ver) for any version argument -/
theorem hello_new_hdr (ver xid : Nat) :
    hdrOf (NewHello ver xid) = .obj "Header" [.num (n8 ver).toNat, .num Gen.openflow13.Type_Hello, .num 8, .num (n32 xid).toNat] := rfl
/-- NewNXTVendorHeader / NewSetControllerID / NewTLVTableModMessage / NewTLVTableRequest / NewBundleControl /
    NewBundleAdd (all `VendorHeader.mk`): version 4, OFPT_EXPERIMENTER -/
theorem vendorHeader_mk_stamped (vendor ty : Nat) (d : V) :
    Stamped Gen.openflow13.Type_Experimenter 0 (VendorHeader.mk vendor ty d) := ⟨.num 8, rfl⟩
/-- NewEchoRequest / NewEchoReply / NewFeaturesRequest / NewConfigRequest, and NewOfp13Header() with Type assigned
    (barrier request): version 4, that type, Length 8 -/
theorem headerOnly_new (ty : Nat) (hty : ty < 256) :
    msgOfpHeader ty = .obj "Header" [.num Gen.openflow13.VERSION, .num ty, .num 8, .num 0] := msgOfpHeader_eq ty hty

/-- FlowMod.AddInstruction leaves the header alone -/
theorem flowMod_addInstruction_hdr (v i v' : V) (h : FlowMod.addInstruction v i = .ok v') : hdrOf v' = hdrOf v := by
  unfold FlowMod.addInstruction at h
  split at h
  · cases h; rfl
  · exact absurd h (by simp)

/-- GroupMod.AddBucket leaves the header alone -/
theorem groupMod_addBucket_hdr (v b v' : V) (h : GroupMod.addBucket v b = .ok v') : hdrOf v' = hdrOf v := by
  unfold GroupMod.addBucket at h
  split at h
  · cases h; rfl
  · exact absurd h (by simp)

/-- PacketOut.AddAction leaves the header alone -/
theorem packetOut_addAction_hdr (v a v' : V) (h : PacketOut.addAction v a = .ok v') : hdrOf v' = hdrOf v := by
  unfold PacketOut.addAction at h
  split at h
  · obtain ⟨_, _, h2⟩ := bind_ok_inv _ _ _ h
    cases h2; rfl
  · exact absurd h (by simp)

/-- PacketOut.SetData leaves the header alone -/
theorem packetOut_setData_hdr (v : V) (b : Bytes) (v' : V) (h : PacketOut.setData v b = .ok v') : hdrOf v' = hdrOf v := by
  unfold PacketOut.setData at h
  split at h
  · cases h; rfl
  · exact absurd h (by simp)

/-! ## 3. composed: constructor, any adders / field assignments, encoder -/

/-- a FlowMod that still carries the stamp of NewFlowMod() — whatever was added or assigned since — is sent with
    version 4, type OFPT_FLOW_MOD, length = bytes produced (< 64 KiB), its transaction id -/
theorem flowMod_sent (v : V) (xid : Nat) (hst : Stamped Gen.openflow13.Type_FlowMod xid v)
    (bs : Bytes) (v' : V) (hm : FlowMod.marshalM v = .ok (bs, v')) (hlt : bs.length < 65536) :
    Framed Gen.openflow13.VERSION Gen.openflow13.Type_FlowMod xid bs v' ∧
    ∀ l v1, FlowMod.lenM v = .ok (l, v1) → l.toNat = bs.length := by
  obtain ⟨ln, hh⟩ := hst
  exact flowMod_framed v _ _ xid ln hh bs v' hm hlt

/-- GroupMod built from NewGroupMod(), any AddBucket of buckets with any actions -/
theorem groupMod_sent (v : V) (xid : Nat) (hst : Stamped Gen.openflow13.Type_GroupMod xid v)
    (bs : Bytes) (v' : V) (hm : GroupMod.marshalM v = .ok (bs, v')) (hlt : bs.length < 65536) :
    Framed Gen.openflow13.VERSION Gen.openflow13.Type_GroupMod xid bs v' ∧
    ∀ l v1, GroupMod.lenM v = .ok (l, v1) → l.toNat = bs.length := by
  obtain ⟨ln, hh⟩ := hst
  exact groupMod_framed v _ _ xid ln hh bs v' hm hlt

/-- PortMod built from NewPortMod() -/
theorem portMod_sent (v : V) (xid : Nat) (hst : Stamped Gen.openflow13.Type_PortMod xid v)
    (bs : Bytes) (v' : V) (hm : PortMod.marshalM v = .ok (bs, v')) :
    Framed Gen.openflow13.VERSION Gen.openflow13.Type_PortMod xid bs v' ∧ bs.length = 40 := by
  obtain ⟨ln, hh⟩ := hst
  have := portMod_framed v _ _ xid ln hh bs v' hm
  exact ⟨this.1, this.2.1⟩

/-- SetConfig built from NewSetConfig() -/
theorem setConfig_sent (v : V) (xid : Nat) (hst : Stamped Gen.openflow13.Type_SetConfig xid v)
    (bs : Bytes) (v' : V) (hm : SwitchConfig.marshalM v = .ok (bs, v')) :
    Framed Gen.openflow13.VERSION Gen.openflow13.Type_SetConfig xid bs v' ∧ bs.length = 12 := by
  obtain ⟨ln, hh⟩ := hst
  have := switchConfig_framed v _ _ xid ln hh bs v' hm
  exact ⟨this.1, this.2.1⟩

/-- Hello built from NewHello(4), any elements -/
theorem hello_sent (v : V) (xid : Nat) (hst : Stamped Gen.openflow13.Type_Hello xid v)
    (bs : Bytes) (v' : V) (hm : Hello.marshalM v = .ok (bs, v')) :
    Framed Gen.openflow13.VERSION Gen.openflow13.Type_Hello xid bs v' ∧ bs.length < 65536 := by
  obtain ⟨ln, hh⟩ := hst
  have := hello_framed v _ _ xid ln hh bs v' hm
  exact ⟨this.1, this.2.1⟩

/-- header-only requests: the constructor's header with the transaction id assigned is sent as 8 bytes
    version 4, its type, length 8, that xid -/
theorem headerOnly_sent (ty xid : Nat) (bs : Bytes) (v' : V)
    (hm : Header.marshalM (.obj "Header" [.num Gen.openflow13.VERSION, .num ty, .num 8, .num xid]) = .ok (bs, v')) :
    bs = frameBytes Gen.openflow13.VERSION ty bs.length xid ∧ bs.length = 8 ∧
    v' = .obj "Header" [.num Gen.openflow13.VERSION, .num ty, .num bs.length, .num xid] ∧
    ∀ l v1, Header.lenM (.obj "Header" [.num Gen.openflow13.VERSION, .num ty, .num 8, .num xid]) = .ok (l, v1) →
      l.toNat = bs.length := by
  obtain ⟨h1, h2, h3⟩ := header_bytes _ _ _ _ bs v' hm
  refine ⟨by rw [h2]; exact h1, h2, by rw [h2]; exact h3, ?_⟩
  intro l v1 hl
  obtain ⟨rfl, _⟩ := same_ok _ _ _ _ hl
  rw [h2]; rfl

/-- PacketOut built from NewPacketOut(), any AddAction, SetData(bytes) -/
theorem packetOut_sent (h b ip al pad : V) (as : List V) (payload : Bytes) (xid : Nat)
    (hst : Stamped Gen.openflow13.Type_PacketOut xid (.obj "PacketOut" [h, b, ip, al, pad, .list as, .obj "u.Buffer" [.bytes payload]]))
    (bs : Bytes) (v' : V)
    (hm : PacketOut.marshalM (.obj "PacketOut" [h, b, ip, al, pad, .list as, .obj "u.Buffer" [.bytes payload]]) = .ok (bs, v')) :
    Framed Gen.openflow13.VERSION Gen.openflow13.Type_PacketOut xid bs v' ∧ bs.length < 65536 := by
  obtain ⟨ln, hh⟩ := hst
  simp only [hdrOf] at hh
  subst hh
  have := packetOut_framed_setData _ _ xid ln b ip al pad as payload bs v' hm
  exact ⟨this.1, this.2.1⟩

/-- MultipartRequest whose header is NewOfp13Header() with Type = OFPT_MULTIPART_REQUEST, any of the four bodies -/
theorem multipartRequest_sent (h t f p b : V) (xid : Nat) (hb : IsMpBody b)
    (hst : Stamped Gen.openflow13.Type_MultiPartRequest xid (.obj "MultipartRequest" [h, t, f, p, b]))
    (bs : Bytes) (v' : V) (hm : MultipartRequest.marshalM (.obj "MultipartRequest" [h, t, f, p, b]) = .ok (bs, v'))
    (hlt : bs.length < 65536) :
    Framed Gen.openflow13.VERSION Gen.openflow13.Type_MultiPartRequest xid bs v' := by
  obtain ⟨ln, hh⟩ := hst
  simp only [hdrOf] at hh
  subst hh
  exact (multipartRequest_framed' _ _ xid ln t f p b hb bs v' hm hlt).1

/-- experimenter messages built by `VendorHeader.mk` (NewSetControllerID, NewTLVTableModMessage, NewBundleControl,
    NewBundleAdd): version 4, OFPT_EXPERIMENTER, length = bytes produced -/
theorem vendorHeader_sent (h vn t d : V) (xid : Nat) (hd : VendorPayloadOK d)
    (hst : Stamped Gen.openflow13.Type_Experimenter xid (.obj "VendorHeader" [h, vn, t, d]))
    (bs : Bytes) (v' : V) (hm : VendorHeader.marshalM (.obj "VendorHeader" [h, vn, t, d]) = .ok (bs, v')) :
    Framed Gen.openflow13.VERSION Gen.openflow13.Type_Experimenter xid bs v' ∧ bs.length < 65536 := by
  obtain ⟨ln, hh⟩ := hst
  simp only [hdrOf] at hh
  subst hh
  have := vendorHeader_framed _ _ xid ln vn t d hd bs v' hm
  exact ⟨this.1, this.2.1⟩

/-- experimenter messages without payload (NewNXTVendorHeader, NewTLVTableRequest) -/
theorem vendorHeader_sent_nil (h vn t : V) (xid : Nat)
    (hst : Stamped Gen.openflow13.Type_Experimenter xid (.obj "VendorHeader" [h, vn, t, .nil]))
    (bs : Bytes) (v' : V) (hm : VendorHeader.marshalM (.obj "VendorHeader" [h, vn, t, .nil]) = .ok (bs, v')) :
    Framed Gen.openflow13.VERSION Gen.openflow13.Type_Experimenter xid bs v' ∧ bs.length = 16 := by
  obtain ⟨ln, hh⟩ := hst
  simp only [hdrOf] at hh
  subst hh
  have := vendorHeader_framed_nil _ _ xid ln vn t bs v' hm
  exact ⟨this.1, this.2.1⟩

/-! ## 4. switch-originated kinds the library also constructs and encodes -/

/-- ErrorMsg: `Header.Length = Len()` is set first, the buffer is allocated from a second Len() (the same: Len() changes
    nothing) — framed, whatever the data -/
theorem errorMsg_framed (v : V) (ver ty xid : Nat) (ln : V)
    (hh : hdrOf v = .obj "Header" [.num ver, .num ty, ln, .num xid])
    (bs : Bytes) (v' : V) (hm : ErrorMsg.marshalM v = .ok (bs, v')) :
    Framed ver ty xid bs v' ∧ bs.length < 65536 ∧ ∀ l v1, ErrorMsg.lenM v = .ok (l, v1) → l.toNat = bs.length := by
  have hs : ∀ l v1, ErrorMsg.lenM v = .ok (l, v1) → bs.length = l.toNat :=
    fun l v1 hl => C06b.errorMsg_size v l v1 bs v' hl hm
  unfold ErrorMsg.marshalM at hm
  obtain ⟨⟨l0, v0⟩, hl0, h3⟩ := bind_ok_inv _ _ _ hm
  have hsz := hs l0 v0 hl0
  refine ⟨?_, by rw [hsz]; exact l0.toNat_lt, fun l v1 hl => (hs l v1 hl).symm⟩
  obtain ⟨⟨l1, v1⟩, hl1, h4⟩ := bind_ok_inv _ _ _ h3
  have hv0 : hdrOf v0 = hdrOf v := by
    unfold ErrorMsg.lenM at hl0
    split at hl0
    · obtain ⟨_, _, hl0'⟩ := bind_ok_inv _ _ _ hl0
      cases hl0'; rfl
    · exact absurd hl0 (by simp)
  have hv1 : hdrOf v1 = hdrOf v0 := by
    unfold ErrorMsg.lenM at hl1
    split at hl1
    · obtain ⟨_, _, hl1'⟩ := bind_ok_inv _ _ _ hl1
      cases hl1'; rfl
    · exact absurd hl1 (by simp)
  rw [hv0, hh] at hv1
  simp only at h4
  split at h4
  · simp only [hdrOf] at hv1
    subst hv1
    obtain ⟨hb, hhb, h5⟩ := bind_ok_inv _ _ _ h4
    obtain ⟨⟨db, d2⟩, hdm, h6⟩ := bind_ok_inv _ _ _ h5
    obtain ⟨out, hfill, h7⟩ := bind_ok_inv _ _ _ h6
    cases h7
    refine framed_fill ver ty xid ln _ hb _ _ _ bs _ hhb ?_ hfill hsz rfl
    intro k hk; simp [pU16] at hk
  · exact absurd h4 (by simp)

/-- VendorError (bundle error): the header sits inside the embedded ErrorMsg (`hdrOf (hdrOf v)`) — framed -/
theorem vendorError_framed (v : V) (ver ty xid : Nat) (ln : V)
    (hh : hdrOf (hdrOf v) = .obj "Header" [.num ver, .num ty, ln, .num xid])
    (bs : Bytes) (v' : V) (hm : VendorError.marshalM v = .ok (bs, v')) :
    Framed ver ty xid bs (hdrOf v') ∧ bs.length < 65536 ∧ ∀ l v1, VendorError.lenM v = .ok (l, v1) → l.toNat = bs.length := by
  have hs : ∀ l v1, VendorError.lenM v = .ok (l, v1) → bs.length = l.toNat :=
    fun l v1 hl => C06b.vendorError_size v l v1 bs v' hl hm
  unfold VendorError.marshalM at hm
  obtain ⟨⟨l0, v0⟩, hl0, h3⟩ := bind_ok_inv _ _ _ hm
  have hsz := hs l0 v0 hl0
  refine ⟨?_, by rw [hsz]; exact l0.toNat_lt, fun l v1 hl => (hs l v1 hl).symm⟩
  obtain ⟨⟨l1, v1⟩, hl1, h4⟩ := bind_ok_inv _ _ _ h3
  have hkeep : ∀ a l b, VendorError.lenM a = .ok (l, b) → hdrOf (hdrOf b) = hdrOf (hdrOf a) := by
    intro a l b h
    unfold VendorError.lenM at h
    split at h
    · exact absurd h (by simp)
    · obtain ⟨⟨le, e'⟩, hle, h'⟩ := bind_ok_inv _ _ _ h
      cases h'
      unfold ErrorMsg.lenM at hle
      split at hle
      · obtain ⟨_, _, hle'⟩ := bind_ok_inv _ _ _ hle
        cases hle'; rfl
      · exact absurd hle (by simp)
    · exact absurd h (by simp)
  have hv1 := (hkeep _ _ _ hl1).trans ((hkeep _ _ _ hl0).trans hh)
  simp only at h4
  split at h4
  · simp only [hdrOf] at hv1
    subst hv1
    obtain ⟨hb, hhb, h5⟩ := bind_ok_inv _ _ _ h4
    obtain ⟨⟨db, d2⟩, hdm, h6⟩ := bind_ok_inv _ _ _ h5
    obtain ⟨out, hfill, h7⟩ := bind_ok_inv _ _ _ h6
    cases h7
    refine framed_fill ver ty xid ln _ hb _ _ _ bs _ hhb ?_ hfill hsz rfl
    intro k hk; simp [pU16] at hk
  · exact absurd h4 (by simp)

/-- FlowRemoved, any match: framed -/
theorem flowRemoved_framed (v : V) (ver ty xid : Nat) (ln : V)
    (hh : hdrOf v = .obj "Header" [.num ver, .num ty, ln, .num xid])
    (bs : Bytes) (v' : V) (hm : FlowRemoved.marshalM v = .ok (bs, v')) :
    Framed ver ty xid bs v' ∧ bs.length < 65536 ∧ ∀ l v1, FlowRemoved.lenM v = .ok (l, v1) → l.toNat = bs.length := by
  have hs : ∀ l v1, FlowRemoved.lenM v = .ok (l, v1) → bs.length = l.toNat :=
    fun l v1 hl => C06b.flowRemoved_size v l v1 bs v' hl hm
  unfold FlowRemoved.marshalM at hm
  obtain ⟨⟨l0, v0⟩, hl0, h3⟩ := bind_ok_inv _ _ _ hm
  have hsz := hs l0 v0 hl0
  refine ⟨?_, by rw [hsz]; exact l0.toNat_lt, fun l v1 hl => (hs l v1 hl).symm⟩
  obtain ⟨⟨l1, v1⟩, hl1, h4⟩ := bind_ok_inv _ _ _ h3
  have hkeep : ∀ a l b, FlowRemoved.lenM a = .ok (l, b) → hdrOf b = hdrOf a := by
    intro a l b h
    unfold FlowRemoved.lenM at h
    split at h
    · obtain ⟨_, _, h'⟩ := bind_ok_inv _ _ _ h
      cases h'; rfl
    · exact absurd h (by simp)
  have hv1 := (hkeep _ _ _ hl1).trans ((hkeep _ _ _ hl0).trans hh)
  simp only at h4
  split at h4
  · simp only [hdrOf] at hv1
    subst hv1
    obtain ⟨hb, hhb, h5⟩ := bind_ok_inv _ _ _ h4
    revert h5
    repeat peel1
    intro h9
    rename_i out hfill
    cases h9
    have e8 := Header.bytes_length _ _ hhb
    simp only [List.cons_append, List.nil_append] at hfill
    rw [fill_copyAdv8 _ _ _ e8] at hfill
    refine framed_fill ver ty xid ln _ hb _ _ _ bs _ hhb ?_ hfill hsz rfl
    intro k hk; simp [pU64] at hk
  · exact absurd h4 (by simp)

/-- PortStatus, any port description shorter than 64 KiB: framed -/
theorem portStatus_framed (v : V) (ver ty xid : Nat) (ln : V)
    (hh : hdrOf v = .obj "Header" [.num ver, .num ty, ln, .num xid])
    (bs : Bytes) (v' : V) (hm : PortStatus.marshalM v = .ok (bs, v')) (hlt : bs.length < 65536) :
    Framed ver ty xid bs v' ∧ ∀ l v1, PortStatus.lenM v = .ok (l, v1) → l.toNat = bs.length := by
  have hs : ∀ l v1, PortStatus.lenM v = .ok (l, v1) → bs.length = l.toNat :=
    fun l v1 hl => (C06b.portStatus_sizeMod v).toOK l v1 bs v' hl hm hlt
  refine ⟨?_, fun l v1 hl => (hs l v1 hl).symm⟩
  unfold PortStatus.marshalM at hm
  obtain ⟨⟨l, v1⟩, hl, h3⟩ := bind_ok_inv _ _ _ hm
  have hsz := hs l v1 hl
  unfold PortStatus.lenM at hl
  split at hl
  · simp only [hdrOf] at hh
    subst hh
    obtain ⟨_, _, hl2⟩ := bind_ok_inv _ _ _ hl
    cases hl2
    simp only at h3
    split at h3
    · rename_i heq
      cases heq
      obtain ⟨hb, hhb, h4⟩ := bind_ok_inv _ _ _ h3
      obtain ⟨⟨db, d2⟩, hdm, h5⟩ := bind_ok_inv _ _ _ h4
      cases h5
      simp only [List.append_assoc] at hsz ⊢
      exact framed_append ver ty xid ln _ hb _ _ hhb hsz rfl
    · exact absurd h3 (by simp)
  · exact absurd hl (by simp)

/-- PacketIn, any match and frame: framed when the frame's Len() is repeatable (the condition of
    `C06b.packetIn_sizeMod`: the frame is encoded after Len() has run over it) and the encoding is shorter than 64 KiB -/
theorem packetIn_framed (ver ty xid : Nat) (ln b t r ti c m pad eth : V) (hidem : LenIdem PEthernet.lenM eth)
    (bs : Bytes) (v' : V)
    (hm : PacketIn.marshalM (.obj "PacketIn" [.obj "Header" [.num ver, .num ty, ln, .num xid], b, t, r, ti, c, m, pad, eth]) = .ok (bs, v'))
    (hlt : bs.length < 65536) :
    Framed ver ty xid bs v' ∧
    ∀ l v1, PacketIn.lenM (.obj "PacketIn" [.obj "Header" [.num ver, .num ty, ln, .num xid], b, t, r, ti, c, m, pad, eth]) = .ok (l, v1) →
      l.toNat = bs.length := by
  have hs := fun l v1 hl => (C06b.packetIn_sizeMod _ b t r ti c m pad eth hidem).toOK l v1 bs v' hl hm hlt
  refine ⟨?_, fun l v1 hl => (hs l v1 hl).symm⟩
  unfold PacketIn.marshalM at hm
  obtain ⟨⟨l, v1⟩, hl, h3⟩ := bind_ok_inv _ _ _ hm
  have hsz := hs l v1 hl
  simp only [PacketIn.lenM] at hl
  obtain ⟨_, _, hl2⟩ := bind_ok_inv _ _ _ hl
  obtain ⟨_, _, hl3⟩ := bind_ok_inv _ _ _ hl2
  cases hl3
  simp only at h3
  split at h3
  · rename_i heq
    cases heq
    obtain ⟨hb, hhb, h4⟩ := bind_ok_inv _ _ _ h3
    obtain ⟨_, _, h5⟩ := bind_ok_inv _ _ _ h4
    obtain ⟨_, _, h6⟩ := bind_ok_inv _ _ _ h5
    cases h6
    simp only [List.append_assoc] at hsz ⊢
    exact framed_append ver ty xid ln _ hb _ _ hhb hsz rfl
  · exact absurd h3 (by simp)

/-- NewErrorMsg(): version 4, OFPT_ERROR -/
theorem errorMsg_new_stamped : Stamped Gen.openflow13.Type_Error 0 ErrorMsg.new := ⟨.num 8, rfl⟩
/-- NewFlowRemoved(): version 4, OFPT_FLOW_REMOVED -/
theorem flowRemoved_new_stamped (xid : Nat) : Stamped Gen.openflow13.Type_FlowRemoved (n32 xid).toNat (FlowRemoved.new xid) := ⟨.num 8, rfl⟩
/-- NewPortStatus(): version 4, OFPT_PORT_STATUS -/
theorem portStatus_new_stamped : Stamped Gen.openflow13.Type_PortStatus 0 PortStatus.new := ⟨.num 8, rfl⟩
/-- NewPacketIn(): version 4, OFPT_PACKET_IN -/
theorem packetIn_new_stamped : Stamped Gen.openflow13.Type_PacketIn 0 PacketIn.new := ⟨.num 8, rfl⟩
/-- NewBundleError(): the embedded ErrorMsg carries version 4, OFPT_ERROR -/
theorem bundleError_new_stamped : Stamped Gen.openflow13.Type_Error 0 (hdrOf VendorError.new) := ⟨.num 8, rfl⟩

/-- an ErrorMsg built from NewErrorMsg() -/
theorem errorMsg_sent (v : V) (xid : Nat) (hst : Stamped Gen.openflow13.Type_Error xid v)
    (bs : Bytes) (v' : V) (hm : ErrorMsg.marshalM v = .ok (bs, v')) :
    Framed Gen.openflow13.VERSION Gen.openflow13.Type_Error xid bs v' ∧ bs.length < 65536 := by
  obtain ⟨ln, hh⟩ := hst
  have := errorMsg_framed v _ _ xid ln hh bs v' hm
  exact ⟨this.1, this.2.1⟩

/-- a bundle error built from NewBundleError() -/
theorem bundleError_sent (v : V) (xid : Nat) (hst : Stamped Gen.openflow13.Type_Error xid (hdrOf v))
    (bs : Bytes) (v' : V) (hm : VendorError.marshalM v = .ok (bs, v')) :
    Framed Gen.openflow13.VERSION Gen.openflow13.Type_Error xid bs (hdrOf v') ∧ bs.length < 65536 := by
  obtain ⟨ln, hh⟩ := hst
  have := vendorError_framed v _ _ xid ln hh bs v' hm
  exact ⟨this.1, this.2.1⟩

/-- a FlowRemoved built from NewFlowRemoved() -/
theorem flowRemoved_sent (v : V) (xid : Nat) (hst : Stamped Gen.openflow13.Type_FlowRemoved xid v)
    (bs : Bytes) (v' : V) (hm : FlowRemoved.marshalM v = .ok (bs, v')) :
    Framed Gen.openflow13.VERSION Gen.openflow13.Type_FlowRemoved xid bs v' ∧ bs.length < 65536 := by
  obtain ⟨ln, hh⟩ := hst
  have := flowRemoved_framed v _ _ xid ln hh bs v' hm
  exact ⟨this.1, this.2.1⟩

/-- a PortStatus built from NewPortStatus() -/
theorem portStatus_sent (v : V) (xid : Nat) (hst : Stamped Gen.openflow13.Type_PortStatus xid v)
    (bs : Bytes) (v' : V) (hm : PortStatus.marshalM v = .ok (bs, v')) (hlt : bs.length < 65536) :
    Framed Gen.openflow13.VERSION Gen.openflow13.Type_PortStatus xid bs v' := by
  obtain ⟨ln, hh⟩ := hst
  exact (portStatus_framed v _ _ xid ln hh bs v' hm hlt).1

/-- the constructors' own values, encoded: NewErrorMsg 12 bytes, NewFlowRemoved 56, NewBundleError 16, NewPortStatus 80,
    NewPacketIn 48 — each with version 4, its type code and its length (the former `…_new_unframed` counterexamples) -/
theorem switch_side_constructors_framed :
    (∃ bs v', ErrorMsg.marshalM ErrorMsg.new = .ok (bs, v') ∧ bs.length = 12 ∧ Framed 4 Gen.openflow13.Type_Error 0 bs v') ∧
    (∃ bs v', FlowRemoved.marshalM (FlowRemoved.new 7) = .ok (bs, v') ∧ bs.length = 56 ∧
      Framed 4 Gen.openflow13.Type_FlowRemoved 7 bs v') ∧
    (∃ bs v', VendorError.marshalM VendorError.new = .ok (bs, v') ∧ bs.length = 16 ∧
      Framed 4 Gen.openflow13.Type_Error 0 bs (hdrOf v')) ∧
    (∃ bs v', PortStatus.marshalM PortStatus.new = .ok (bs, v') ∧ bs.length = 80 ∧
      Framed 4 Gen.openflow13.Type_PortStatus 0 bs v') ∧
    (∃ bs v', PacketIn.marshalM PacketIn.new = .ok (bs, v') ∧ bs.length = 48 ∧
      Framed 4 Gen.openflow13.Type_PacketIn 0 bs v') := by
  refine ⟨⟨_, _, rfl, rfl, ?_⟩, ⟨_, _, rfl, rfl, ?_⟩, ⟨_, _, rfl, rfl, ?_⟩, ⟨_, _, rfl, rfl, ?_⟩, ⟨_, _, rfl, rfl, ?_⟩⟩
  · exact (errorMsg_sent _ 0 errorMsg_new_stamped _ _ rfl).1
  · exact (flowRemoved_sent _ 7 (flowRemoved_new_stamped 7) _ _ rfl).1
  · exact (bundleError_sent _ 0 bundleError_new_stamped _ _ rfl).1
  · exact portStatus_sent _ 0 portStatus_new_stamped _ _ rfl (by decide)
  · have hidem : LenIdem PEthernet.lenM PEthernet.zero := by
      intro l v1 h
      have e : PEthernet.lenM PEthernet.zero = .ok (14, PEthernet.zero) := rfl
      rw [e] at h; cases h; exact e
    have hm : PacketIn.marshalM (.obj "PacketIn" [.obj "Header" [.num 4, .num 10, .num 8, .num 0], .num 4294967295,
        .num 0, .num 0, .num 0, .num 0, Match.new, .bytes [], PEthernet.zero]) = .ok (_, _) := rfl
    exact (packetIn_framed 4 10 0 (.num 8) _ _ _ _ _ _ _ _ hidem _ _ hm (by decide)).1

/-- observation: NewPacketOut() cannot be encoded before SetData: `p.Data.Len()` on the nil interface panics -/
theorem packetOut_new_panics : PacketOut.marshalM PacketOut.new = .panic := rfl

/-! ## the hypotheses are satisfiable: concrete, non-trivial instances -/

/-- NewFlowMod (xid 7) + AddInstruction(apply-actions [output:1, group:2]) + AddInstruction(goto-table 3): 96 bytes,
    sent with version 4, type 14, length 96, xid 7 — through `flowMod_sent` and `Framed.reads` -/
example :
    let ia := V.obj "InstrActions" [.obj "InstrHeader" [.num 4, .num 8], .bytes (zeros 4),
      .list [ActionOutput.new 1, ActionGroup.new 2]]
    ∃ v1 v2 bs v', FlowMod.addInstruction (FlowMod.new 7) ia = .ok v1 ∧
      FlowMod.addInstruction v1 (InstrGotoTable.new 3) = .ok v2 ∧
      FlowMod.marshalM v2 = .ok (bs, v') ∧ bs.length = 96 ∧
      beAt bs 0 1 = 4 ∧ beAt bs 1 1 = 14 ∧ beAt bs 2 2 = bs.length ∧ beAt bs 4 4 = 7 := by
  intro ia
  have h1 : FlowMod.addInstruction (FlowMod.new 7) ia = .ok _ := rfl
  have h2 : FlowMod.addInstruction _ (InstrGotoTable.new 3) = .ok _ := (rfl : FlowMod.addInstruction
    (.obj "FlowMod" [.obj "Header" [.num 4, .num 14, .num 8, .num 7],
      .num 0, .num 0, .num 0, .num 0, .num 0, .num 0, .num 1000, .num 4294967295,
      .num 4294967295, .num 4294967295, .num 0, .bytes [], Match.new, .list [ia]]) (InstrGotoTable.new 3) = .ok _)
  have hst : Stamped Gen.openflow13.Type_FlowMod 7 _ :=
    ((flowMod_new_stamped 7).of_hdr_eq (flowMod_addInstruction_hdr _ _ _ h1)).of_hdr_eq (flowMod_addInstruction_hdr _ _ _ h2)
  have hm : FlowMod.marshalM _ = .ok (_, _) := (rfl : FlowMod.marshalM
    (.obj "FlowMod" [.obj "Header" [.num 4, .num 14, .num 8, .num 7],
      .num 0, .num 0, .num 0, .num 0, .num 0, .num 0, .num 1000, .num 4294967295,
      .num 4294967295, .num 4294967295, .num 0, .bytes [], Match.new, .list [ia, InstrGotoTable.new 3]]) = .ok (_, _))
  have hf := (flowMod_sent _ 7 hst _ _ hm (by decide)).1
  exact ⟨_, _, _, _, h1, h2, hm, rfl, hf.reads (by decide) (by decide) (by decide) (by decide)⟩

/-- NewGroupMod (xid 9) + a bucket with an output action and a 4-byte COPY_TTL_OUT action (36 bytes of content, padded
    to 40): framed, 56 bytes — the value of the former counterexample's kind -/
example :
    let b := V.obj "Bucket" [.num 16, .num 0, .num 4294967295, .num 4294967295, .bytes (zeros 4),
      .list [ActionOutput.new 1, ActionHeader.mk Gen.openflow13.ActionType_CopyTtlOut 4]]
    ∃ g bs v', GroupMod.addBucket (GroupMod.new 9) b = .ok g ∧ GroupMod.marshalM g = .ok (bs, v') ∧
      Framed Gen.openflow13.VERSION Gen.openflow13.Type_GroupMod 9 bs v' ∧ bs.length = 56 := by
  intro b
  have h1 : GroupMod.addBucket (GroupMod.new 9) b = .ok _ := rfl
  have hm : GroupMod.marshalM (.obj "GroupMod" [.obj "Header" [.num 4, .num 15, .num 8, .num 9],
      .num 0, .num 0, .num 0, .num 0, .list [b]]) = .ok (_, _) := rfl
  have hst : Stamped Gen.openflow13.Type_GroupMod 9 _ := (groupMod_new_stamped 9).of_hdr_eq (groupMod_addBucket_hdr _ _ _ h1)
  exact ⟨_, _, _, h1, hm, (groupMod_sent _ 9 hst _ _ hm (by decide)).1, rfl⟩

/-- NewPacketOut + AddAction(output:2) + SetData(3 bytes), xid 5: framed (`packetOut_sent`) -/
example :
    ∃ p1 p2 bs v', PacketOut.addAction PacketOut.new (ActionOutput.new 2) = .ok p1 ∧
      PacketOut.setData p1 [1, 2, 3] = .ok p2 ∧ PacketOut.marshalM (setXid 5 p2) = .ok (bs, v') ∧
      Framed Gen.openflow13.VERSION Gen.openflow13.Type_PacketOut 5 bs v' ∧ bs.length = 43 := by
  have h1 : PacketOut.addAction PacketOut.new (ActionOutput.new 2) = .ok _ := rfl
  have h2 : PacketOut.setData _ [1, 2, 3] = .ok _ := (rfl : PacketOut.setData
    (.obj "PacketOut" [.obj "Header" [.num 4, .num 13, .num 8, .num 0], .num 4294967295, .num 4294967295, .num 16,
      .bytes (zeros 6), .list [ActionOutput.new 2], .nil]) [1, 2, 3] = .ok _)
  have hm : PacketOut.marshalM (.obj "PacketOut" [.obj "Header" [.num 4, .num 13, .num 8, .num 5], .num 4294967295,
      .num 4294967295, .num 16, .bytes (zeros 6), .list [ActionOutput.new 2], .obj "u.Buffer" [.bytes [1, 2, 3]]]) = .ok (_, _) := rfl
  exact ⟨_, _, _, _, h1, h2, hm, (packetOut_sent _ _ _ _ _ _ _ 5 ⟨_, rfl⟩ _ _ hm).1, rfl⟩

/-- NewBundleAdd around a FlowMod (`bundleAdd_flowMod_payloadOK`), xid 3: framed (`vendorHeader_sent`) -/
example :
    let ba := V.obj "BundleAdd" [.num 1, .bytes (zeros 2), .num 0, FlowMod.new 11, .list []]
    ∃ bs v', VendorHeader.marshalM (setXid 3 (VendorHeader.mk Gen.openflow13.ONF_EXPERIMENTER_ID Gen.openflow13.Type_BundleAdd ba))
        = .ok (bs, v') ∧
      Framed Gen.openflow13.VERSION Gen.openflow13.Type_Experimenter 3 bs v' ∧ bs.length = 80 := by
  intro ba
  have hm : VendorHeader.marshalM (.obj "VendorHeader" [.obj "Header" [.num 4, .num 4, .num 8, .num 3],
      .num 1330529792, .num 2301, ba]) = .ok (_, _) := rfl
  exact ⟨_, _, hm, (vendorHeader_sent _ _ _ _ 3 (bundleAdd_flowMod_payloadOK _ _ _ _ _) ⟨_, rfl⟩ _ _ hm).1, by decide +kernel⟩

/-- a flow-stats multipart request (xid 2): framed (`multipartRequest_sent`) -/
example :
    ∃ bs v', MultipartRequest.marshalM (.obj "MultipartRequest" [.obj "Header" [.num 4, .num 18, .num 8, .num 2],
        .num 1, .num 0, .bytes (zeros 4), FlowStatsRequest.new]) = .ok (bs, v') ∧
      Framed Gen.openflow13.VERSION Gen.openflow13.Type_MultiPartRequest 2 bs v' ∧ bs.length = 56 := by
  have hm : MultipartRequest.marshalM (.obj "MultipartRequest" [.obj "Header" [.num 4, .num 18, .num 8, .num 2],
      .num 1, .num 0, .bytes (zeros 4), FlowStatsRequest.new]) = .ok (_, _) := rfl
  exact ⟨_, _, hm, multipartRequest_sent _ _ _ _ _ 2 (Or.inl ⟨_, rfl⟩) ⟨_, rfl⟩ _ _ hm (by decide), rfl⟩

/-- NewHello(4), NewSetConfig(), NewPortMod(3), NewEchoRequest(), NewTLVTableRequest(): encoded as constructed -/
example :
    (∃ bs v', Hello.marshalM (NewHello 4 1) = .ok (bs, v') ∧ Framed 4 0 1 bs v') ∧
    (∃ bs v', SwitchConfig.marshalM SwitchConfig.new = .ok (bs, v') ∧ Framed 4 9 0 bs v') ∧
    (∃ bs v', PortMod.marshalM (PortMod.new 3) = .ok (bs, v') ∧ Framed 4 16 0 bs v') ∧
    (∃ bs v', Header.marshalM (msgOfpHeader Gen.openflow13.Type_EchoRequest) = .ok (bs, v') ∧ bs = frameBytes 4 2 bs.length 0) ∧
    (∃ bs v', VendorHeader.marshalM (VendorHeader.mk Gen.openflow13.NxExperimenterID Gen.openflow13.Type_TlvTableRequest .nil)
        = .ok (bs, v') ∧ Framed 4 4 0 bs v') := by
  refine ⟨⟨_, _, rfl, ?_⟩, ⟨_, _, rfl, ?_⟩, ⟨_, _, rfl, ?_⟩, ⟨_, _, rfl, ?_⟩, ⟨_, _, rfl, ?_⟩⟩
  · exact (hello_sent _ 1 (hello_new_stamped 1) _ _ rfl).1
  · exact (setConfig_sent _ 0 setConfig_new_stamped _ _ rfl).1
  · exact (portMod_sent _ 0 (portMod_new_stamped 3) _ _ rfl).1
  · exact (headerOnly_sent 2 0 _ _ rfl).1
  · exact (vendorHeader_sent_nil _ _ _ 0 (vendorHeader_mk_stamped _ _ _) _ _ rfl).1

end OFV.Props.C01b
