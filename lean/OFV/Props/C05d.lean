/-
  C05d — decoding an encoding gives back the same value (library round trip): inventory of every kind / dispatcher case against
  the theorems of C05 / C05b / C05c, and the theorems for what was still MISSING.  Statement style as in C05
  (`RoundTrip enc dec v v' bs`, OFV.Props.C05.RoundTrip); proofs in OFV/Lemmas/RT4*.lean.

  INVENTORY (kind with both `marshalM` and a decoder → theorem; "d" = this file)
  Header.lean    Header → C05.header_roundtrip · HelloElemHeader → d.helloElemHeader_roundtrip · HelloElemVersionBitmap →
                 C05.helloElem_roundtrip · Hello → C05.hello_roundtrip
  Match.lean     the 30 payload kinds (InPortField … CTLabel, ByteArrayField) → C05.payload_roundtrip (+ payload_dispatch) ·
                 MatchField / DecodeMatchField (every table entry) → C05.matchField_roundtrip, matchField_registry_covered,
                 C05c.nxm1_* · Match → C05.match_roundtrip
  Action.lean    ActionHeader → d.actionHeader_roundtrip · NXActionHeader → d.nxActionHeader_roundtrip ·
                 NXLearnSpecHeader → d.learnSpecHeader_roundtrip · NXLearnSpecField → d.learnSpecField_roundtrip ·
                 NXLearnSpec → C05b.learnSpec_* · DecodeAction, the 16 standard types: Output → C05.actionOutput · CopyTtlOut /
                 CopyTtlIn / DecMplsTtl / PopPbb → C05.actionHeaderOnly · DecNwTtl → C05.actionDecNwTtl · SetMplsTtl →
                 C05.actionMplsTtl · SetNwTtl → C05.actionNwTtl · PushVlan / PushMpls / PushPbb → C05.actionPush · PopVlan →
                 C05.actionPopVlan · PopMpls → C05.actionPopMpls · SetQueue → C05.actionSetqueue · Group → C05.actionGroup ·
                 SetField → C05.actionSetField · DecodeNxAction, the 17 subtypes: REG_MOVE, REG_LOAD, OUTPUT_REG(2), LEARN,
                 CONTROLLER, DEC_TTL_CNT_IDS, NOTE, REG_LOAD2, CT, NAT, CT_CLEAR → C05b.nx* (CT nested: C05c) · RESUBMIT,
                 RESUBMIT_TABLE, CT_RESUBMIT, DEC_TTL, CONJUNCTION → C05.nx* (single action); AS LIST ELEMENTS (ActionRT facts)
                 MISSING → d.nx16_in_lists, d.allLeafKinds_in_one_list (every leaf kind of both tables in ONE list, through
                 DecodeInstr, Bucket and FlowMod/Parse)
  Instr.lean     InstrHeader → d.instrHeader_roundtrip_exact (+ d.instrHeader_tail_counterexample) · DecodeInstr: GOTO_TABLE /
                 WRITE_METADATA / METER / WRITE-APPLY-CLEAR_ACTIONS → C05.instr* (lists: C05.flowMod_roundtrip, InstrsRT) ·
                 Bucket, GroupMod → C05b · FlowMod, FlowRemoved → C05
  Msg.lean       PhyPort, PortStatus, SwitchConfig, ErrorMsg, SwitchFeatures (ports dropped: known), PacketIn → C05 ·
                 VendorError (Parse, error type 0xffff) MISSING → d.vendorError_roundtrip (+ d.errorMsg_experimenter_* : an
                 ErrorMsg value with type 0xffff) · PortMod, PacketOut (never decodes: known) → C05b · DescStats,
                 AggregateStats, FlowStats, QueueStats → C05b.record_* · TableStats, PortStats → C05c.record_* ·
                 MultipartReply → C05b.multipartReply_roundtrip · MultipartRequest (D28, known) → C05c.multipartRequest_* ·
                 request bodies through their OWN decoders MISSING → d.portStatsRequest_roundtrip, d.queueStatsRequest_roundtrip,
                 d.flowStatsRequest_roundtrip, d.aggregateStatsRequest_roundtrip (+ _zero_receiver) ·
                 ControllerID → C05b.setControllerID (in a vendor message), own decoder → d.controllerID_roundtrip ·
                 TLVTableMap → C05b.tlvTableMod (in a list), own decoder → d.tlvTableMap_roundtrip · TLVTableMod, TLVTableReply,
                 BundleControl, BundleAdd, VendorHeader, BundlePropertyExperimenter → C05b / C05
  parse          Hello, Error, Echo×2, GetConfigRequest, Barrier×2, FeaturesRequest, Experimenter, FeaturesReply, GetConfigReply,
                 SetConfig, PacketIn, FlowRemoved, PortStatus, FlowMod, MultipartReply → as above; Error+0xffff → d;
                 PacketOut / GroupMod / PortMod / TableMod / QueueGetConfig* → nil (D28, C05b.*_not_parsed); TableMod has no kind.
  THEOREMS OF THIS FILE
    §1 vendorError_roundtrip                          VendorError through Parse (data = everything behind the 16 fixed bytes)
    §2 portStatsRequest_ / queueStatsRequest_ / flowStatsRequest_ / aggregateStatsRequest_roundtrip   request bodies, own decoders,
       any receiver with allocated pads; *_zero_receiver (into new(T): pads come back nil), statsRequest_new_receivers
    §3 nx16_in_lists, allLeafs, allLeafKinds_in_one_list   every leaf action kind in ONE list: DecodeInstr, Bucket, FlowMod/Parse
    §4 actionHeader_ / nxActionHeader_ / helloElemHeader_ / learnSpecHeader_ / learnSpecField_ / controllerID_ / tlvTableMap_roundtrip,
       instrHeader_roundtrip_exact                     the embedded element codecs through their own decoders
    §6 vendorNoData_roundtrip                          VendorHeader without payload, every experimenter type
  WHERE THE ROUND TRIP IS FALSE (new; concrete values are in the theorems)
    instrHeader_roundtrip_exact (3rd part), instrHeader_tail_counterexample   InstrHeader.UnmarshalBinary rejects ANY trailing byte (len != 4)
    errorMsg_experimenter_kind_counterexample         ErrorMsg value with Type 0xffff comes back as a VendorError (first 4 data bytes = id)
    errorMsg_experimenter_short_counterexample        … with < 4 data bytes Parse returns an ERROR (VendorError decoder panics, recovered)
    errorMsg_experimenter_becomes_vendorError, errorMsg_experimenter_short_never_parses   the same two facts for ALL values
    packetIn_tail_counterexample, hello_tail_counterexample   bytes behind the message are swallowed (frame payload / extra hello elements);
    packetIn_ignores_headerLength, packetIn_tail_swallowed   … for PacketIn in general (the decoder never reads Header.Length)
    parse_unhandled_types (all buffers), bundleAdd_unhandled_inner_never_decodes, bundleAdd_groupMod_counterexample
                                                      D28 in general; consequence: a BundleAdd carrying group-mod / port-mod / packet-out /
                                                      table-mod NEVER decodes (Parse of the bundle message: error)
    vendor_unknownType_never_parses, vendor_unknownType_counterexample   vendor message with payload of an experimenter type other than
                                                      20 / 24 / 26 / 2300 / 2301: Parse returns an error (nil interface call, recovered)
    multipartReply_unsupported_type_never_parses, multipartReply_portDesc_counterexample   replies of any type other than desc / flow /
                                                      aggregate / table / port / queue with a non-empty body (PORT-DESC, group, meter …): error
    flowMod_delete_ignores_instructions, flowMod_delete_drops_instructions   delete flow-mods are encoded without their instructions
    hello_bareHeader_element_counterexample           a bare HelloElemHeader element is written unpadded (4 bytes), the decoder steps by 8:
                                                      the element AND the version bitmap behind it are lost
-/
import OFV.Props.C05c
import OFV.Lemmas.RT4
import OFV.Lemmas.RT4b
import OFV.Lemmas.RT4c
import OFV.Lemmas.RT4d
import OFV.Lemmas.RT4e
import OFV.Lemmas.RT4f
import OFV.Lemmas.RT4g
import OFV.Lemmas.RT4h
namespace OFV.Props.C05d
open OFV OFV.Go OFV.Model OFV.RT OFV.RT2 OFV.RT3 OFV.RT4 OFV.Props.C05

/-! ## §1 VendorError through Parse -/

/-- VendorError (experimenter error: ErrorMsg with type ET_EXPERIMENTER 0xffff plus a 32-bit experimenter id; `NewBundleError`)
    through Parse.  `MarshalBinary` stores the size 16 + |d| in Header.Length (whatever `ln0` was there).  Parse first decodes an
    ErrorMsg, sees type 0xffff and decodes the buffer again as a VendorError.  As for ErrorMsg the decoder takes EVERYTHING behind
    the 16 fixed bytes as the error data: parsing `bs ++ tail` yields the message with data `d ++ tail` — the value itself exactly
    when nothing follows (third statement). -/
theorem vendorError_roundtrip (ver xid c x : Nat) (d : Bytes) (hver : ver < 256) (hxid : xid < 4294967296)
    (hc : c < 65536) (hx : x < 4294967296) (hd : 16 + d.length < 65536) :
    let t := Gen.openflow13.ET_EXPERIMENTER
    let v := vendorErrorV ver (16 + d.length) xid t c x d
    let bs := [n8 ver, n8 Gen.openflow13.Type_Error] ++ be16 (n16 (16 + d.length)) ++ be32 (n32 xid) ++ be16 (n16 t) ++ be16 (n16 c)
      ++ be32 (n32 x) ++ d
    (∀ ln0, VendorError.marshalM (vendorErrorV ver ln0 xid t c x d) = .ok (bs, v)) ∧
    (∀ (depth : Nat) (data : Slice) (tail : Bytes), data.WF → data.bytes = bs ++ tail →
      parse depth data = .ok (vendorErrorV ver (16 + d.length) xid t c x (d ++ tail))) ∧
    ∀ (depth : Nat) (data : Slice), data.WF → data.bytes = bs → parse depth data = .ok v := by
  intro t v bs
  obtain ⟨h1, h2⟩ := vendorError_rt ver xid c x d hver hxid hc hx hd
  refine ⟨h1, h2, fun depth data hdw hb => ?_⟩
  have := h2 depth data [] hdw (by rw [hb, List.append_nil])
  rw [List.append_nil] at this
  exact this

/-- satisfiable: a bundle error (ONF experimenter id) carrying 5 data bytes, through Parse -/
example : ∃ bs, ∀ depth, parse depth (Slice.exact bs)
    = .ok (vendorErrorV 4 21 7 Gen.openflow13.ET_EXPERIMENTER 2300 Gen.openflow13.ONF_EXPERIMENTER_ID [1, 2, 3, 4, 5]) :=
  ⟨_, fun depth => (vendorError_roundtrip 4 7 2300 Gen.openflow13.ONF_EXPERIMENTER_ID [1, 2, 3, 4, 5] (by decide) (by decide) (by decide)
    (by decide) (by decide)).2.2 depth _ (Slice.exact_wf _) (by simp [Slice.exact, Slice.bytes]; rfl)⟩

/-! ## §2 multipart request bodies through their own decoders

Parse drops the body of a multipart request (D28, C05c §4), but each body kind has `MarshalBinary` / `UnmarshalBinary` of its own
that a user can call. -/

/-- PortStatsRequest: port number and the 6 pad bytes (any content), decoded into ANY receiver with an allocated 6-byte pad
    (`NewPortStatsRequest`), followed by anything. -/
theorem portStatsRequest_roundtrip (p : Nat) (pad rpad : Bytes) (r0 : V) (hp : p < 65536) (hpad : pad.length = 6)
    (hrp : rpad.length = 6) :
    let v := V.obj "PortStatsRequest" [.num p, .bytes pad]
    RoundTrip PortStatsRequest.marshalM (PortStatsRequest.unmarshal (.obj "PortStatsRequest" [r0, .bytes rpad])) v v
      (be16 (n16 p) ++ pad) := by
  obtain ⟨h1, _, _, h4⟩ := portStatsRequest_rt p pad rpad r0 hp hpad hrp
  exact ⟨h1, h1, h4⟩

example : RoundTrip PortStatsRequest.marshalM (PortStatsRequest.unmarshal PortStatsRequest.new)
    (.obj "PortStatsRequest" [.num 4660, .bytes (zeros 6)]) (.obj "PortStatsRequest" [.num 4660, .bytes (zeros 6)])
    (be16 (n16 4660) ++ zeros 6) :=
  portStatsRequest_roundtrip 4660 (zeros 6) (zeros 6) (.num 0) (by decide) rfl rfl

/-- QueueStatsRequest: port number, 2 pad bytes (any content), queue id; any receiver with an allocated 2-byte pad. -/
theorem queueStatsRequest_roundtrip (p q : Nat) (pad rpad : Bytes) (r0 r2 : V) (hp : p < 65536) (hq : q < 4294967296)
    (hpad : pad.length = 2) (hrp : rpad.length = 2) :
    let v := V.obj "QueueStatsRequest" [.num p, .bytes pad, .num q]
    RoundTrip QueueStatsRequest.marshalM (QueueStatsRequest.unmarshal (.obj "QueueStatsRequest" [r0, .bytes rpad, r2])) v v
      (be16 (n16 p) ++ pad ++ be32 (n32 q)) := by
  obtain ⟨h1, _, _, h4⟩ := queueStatsRequest_rt p q pad rpad r0 r2 hp hq hpad hrp
  exact ⟨h1, h1, h4⟩

example : RoundTrip QueueStatsRequest.marshalM (QueueStatsRequest.unmarshal QueueStatsRequest.new)
    (.obj "QueueStatsRequest" [.num 3, .bytes (zeros 2), .num 305419896]) (.obj "QueueStatsRequest" [.num 3, .bytes (zeros 2), .num 305419896])
    (be16 (n16 3) ++ zeros 2 ++ be32 (n32 305419896)) :=
  queueStatsRequest_roundtrip 3 305419896 (zeros 2) (zeros 2) (.num 0) (.num 0) (by decide) (by decide) rfl rfl

/-- FlowStatsRequest (table, 3 pad bytes, out port, out group, 4 pad bytes, cookie, cookie mask, Match `MatchWF m`), decoded by
    `FlowStatsRequest.UnmarshalBinary` into a receiver with allocated pads and an empty Match (`NewFlowStatsRequest`: its Match
    is `NewMatch()`, which decodes like `new(Match)` — `unmarshalP_new`), followed by anything.  32 fixed bytes, then the match;
    Len() is the size of the encoding. -/
theorem flowStatsRequest_roundtrip (t op og c cm : Nat) (p p2 rp rp2 : Bytes) (m r0 r2 r3 r5 r6 : V)
    (ht : t < 256) (hop : op < 4294967296) (hog : og < 4294967296) (hc : c < 18446744073709551616) (hcm : cm < 18446744073709551616)
    (hp : p.length = 3) (hp2 : p2.length = 4) (hrp : rp.length = 3) (hrp2 : rp2.length = 4) (hm : MatchWF m) :
    ∃ mbs, Match.marshalM m = .ok (mbs, m) ∧
      let v := statsReqV "FlowStatsRequest" t p op og p2 c cm m
      let bs := statsReqFixed t p op og p2 c cm ++ mbs
      RoundTrip FlowStatsRequest.marshalM
        (FlowStatsRequest.unmarshal (.obj "FlowStatsRequest" [r0, .bytes rp, r2, r3, .bytes rp2, r5, r6, Match.zero])) v v bs ∧
      FlowStatsRequest.lenM v = .ok (n16 bs.length, v) := by
  obtain ⟨mbs, hmm, h1, h2, _, h4⟩ := statsReq_rt "FlowStatsRequest" t op og c cm p p2 rp rp2 m r0 r2 r3 r5 r6 ht hop hog hc hcm hp hp2 hrp hrp2 hm
  refine ⟨mbs, hmm, ⟨h1, h1, fun data tail hd hb => ?_⟩, h2⟩
  simp only [FlowStatsRequest.unmarshal, h4 data tail hd hb, Res.bind_ok, Bool.false_eq_true, if_false, Res.pure_eq]

/-- AggregateStatsRequest: same layout and code (the Match decoder's error is dropped instead of returned). -/
theorem aggregateStatsRequest_roundtrip (t op og c cm : Nat) (p p2 rp rp2 : Bytes) (m r0 r2 r3 r5 r6 : V)
    (ht : t < 256) (hop : op < 4294967296) (hog : og < 4294967296) (hc : c < 18446744073709551616) (hcm : cm < 18446744073709551616)
    (hp : p.length = 3) (hp2 : p2.length = 4) (hrp : rp.length = 3) (hrp2 : rp2.length = 4) (hm : MatchWF m) :
    ∃ mbs, Match.marshalM m = .ok (mbs, m) ∧
      let v := statsReqV "AggregateStatsRequest" t p op og p2 c cm m
      let bs := statsReqFixed t p op og p2 c cm ++ mbs
      RoundTrip AggregateStatsRequest.marshalM
        (AggregateStatsRequest.unmarshal (.obj "AggregateStatsRequest" [r0, .bytes rp, r2, r3, .bytes rp2, r5, r6, Match.zero])) v v bs ∧
      AggregateStatsRequest.lenM v = .ok (n16 bs.length, v) := by
  obtain ⟨mbs, hmm, h1, h2, _, h4⟩ := statsReq_rt "AggregateStatsRequest" t op og c cm p p2 rp rp2 m r0 r2 r3 r5 r6 ht hop hog hc hcm hp hp2 hrp hrp2 hm
  refine ⟨mbs, hmm, ⟨h1, h1, fun data tail hd hb => ?_⟩, h2⟩
  simp only [AggregateStatsRequest.unmarshal, h4 data tail hd hb, Res.bind_ok, Res.pure_eq]

/-- satisfiable: the receivers are the constructors' values, and NewFlowStatsRequest() itself (table 0, ports ANY, empty OXM match)
    is a value of the theorem -/
example : FlowStatsRequest.new = .obj "FlowStatsRequest" [.num 0, .bytes (zeros 3), .num Gen.openflow13.P_ANY, .num Gen.openflow13.OFPG_ANY,
      .bytes (zeros 4), .num 0, .num 0, Match.new] ∧ Match.unmarshalP Match.new = Match.unmarshalP Match.zero ∧
    FlowStatsRequest.new = statsReqV "FlowStatsRequest" 0 (zeros 3) Gen.openflow13.P_ANY Gen.openflow13.OFPG_ANY (zeros 4) 0 0 Match.new ∧
    MatchWF Match.new :=
  ⟨rfl, rfl, rfl, by simp [MatchWF, Match.new, Gen.openflow13.MatchType_OXM]⟩

/-! ### the same bodies decoded into `new(T)` (nil pads) and into the constructors' values -/

/-- PortStatsRequest decoded into `new(PortStatsRequest)`: the pad is nil there and stays nil (`copy` into a nil slice); the value
    with the nil pad encodes to the same 8 bytes (the encoder's buffer is zero-filled) -/
theorem portStatsRequest_zero_receiver (p : Nat) (hp : p < 65536) :
    RoundTrip PortStatsRequest.marshalM (PortStatsRequest.unmarshal PortStatsRequest.zero)
      (.obj "PortStatsRequest" [.num p, .bytes (zeros 6)]) (.obj "PortStatsRequest" [.num p, .bytes []]) (be16 (n16 p) ++ zeros 6) := by
  refine ⟨portStatsRequest_enc p (zeros 6) (by decide), portStatsRequest_enc p [] (by decide), fun data tail hd hb => ?_⟩
  rw [PortStatsRequest.zero, portStatsRequest_dec p (zeros 6) [] (.num 0) hp data tail hd hb, RT.copyInto_nil]

/-- QueueStatsRequest decoded into `new(QueueStatsRequest)`: likewise -/
theorem queueStatsRequest_zero_receiver (p q : Nat) (hp : p < 65536) (hq : q < 4294967296) :
    RoundTrip QueueStatsRequest.marshalM (QueueStatsRequest.unmarshal QueueStatsRequest.zero)
      (.obj "QueueStatsRequest" [.num p, .bytes (zeros 2), .num q]) (.obj "QueueStatsRequest" [.num p, .bytes [], .num q])
      (be16 (n16 p) ++ zeros 2 ++ be32 (n32 q)) := by
  refine ⟨queueStatsRequest_enc p q (zeros 2) (by decide), queueStatsRequest_enc p q [] (by decide), fun data tail hd hb => ?_⟩
  rw [QueueStatsRequest.zero, queueStatsRequest_dec p q (zeros 2) [] (.num 0) (.num 0) hp hq rfl data tail hd hb, RT.copyInto_nil]

/-- FlowStatsRequest / AggregateStatsRequest decoded into `new(T)`: both pads come back nil, every exported field is the same, the
    re-encoding is the same bytes -/
theorem flowStatsRequest_zero_receiver (t op og c cm : Nat) (m : V)
    (ht : t < 256) (hop : op < 4294967296) (hog : og < 4294967296) (hc : c < 18446744073709551616) (hcm : cm < 18446744073709551616)
    (hm : MatchWF m) :
    ∃ mbs, Match.marshalM m = .ok (mbs, m) ∧
      RoundTrip FlowStatsRequest.marshalM (FlowStatsRequest.unmarshal FlowStatsRequest.zero)
        (statsReqV "FlowStatsRequest" t (zeros 3) op og (zeros 4) c cm m) (statsReqV "FlowStatsRequest" t [] op og [] c cm m)
        (statsReqFixed t (zeros 3) op og (zeros 4) c cm ++ mbs) ∧
      RoundTrip AggregateStatsRequest.marshalM (AggregateStatsRequest.unmarshal AggregateStatsRequest.zero)
        (statsReqV "AggregateStatsRequest" t (zeros 3) op og (zeros 4) c cm m) (statsReqV "AggregateStatsRequest" t [] op og [] c cm m)
        (statsReqFixed t (zeros 3) op og (zeros 4) c cm ++ mbs) := by
  obtain ⟨mbs, hmm, _⟩ := RT.match_roundtrip m hm
  refine ⟨mbs, hmm, ⟨statsReq_enc _ t op og c cm (zeros 3) (zeros 4) m mbs (by decide) (by decide) hmm,
      statsReq_enc _ t op og c cm [] [] m mbs (by decide) (by decide) hmm, fun data tail hd hb => ?_⟩,
    ⟨statsReq_enc _ t op og c cm (zeros 3) (zeros 4) m mbs (by decide) (by decide) hmm,
      statsReq_enc _ t op og c cm [] [] m mbs (by decide) (by decide) hmm, fun data tail hd hb => ?_⟩⟩
  · have := statsReq_dec "FlowStatsRequest" t op og c cm (zeros 3) (zeros 4) [] [] m (.num 0) (.num 0) (.num 0) (.num 0) (.num 0)
      ht hop hog hc hcm rfl rfl hm mbs hmm data tail hd hb
    simp only [RT.copyInto_nil] at this
    simp only [FlowStatsRequest.unmarshal, FlowStatsRequest.zero, msgMatchZero]
    erw [this]
    rfl
  · have := statsReq_dec "AggregateStatsRequest" t op og c cm (zeros 3) (zeros 4) [] [] m (.num 0) (.num 0) (.num 0) (.num 0) (.num 0)
      ht hop hog hc hcm rfl rfl hm mbs hmm data tail hd hb
    simp only [RT.copyInto_nil] at this
    simp only [AggregateStatsRequest.unmarshal, AggregateStatsRequest.zero, msgMatchZero]
    erw [this]
    rfl

/-- decoding into NewFlowStatsRequest() / NewAggregateStatsRequest() is decoding into the receivers of flowStatsRequest_roundtrip /
    aggregateStatsRequest_roundtrip (the receiver's Match only contributes its — empty — field list) -/
theorem statsRequest_new_receivers (d : Slice) :
    FlowStatsRequest.unmarshal FlowStatsRequest.new d = FlowStatsRequest.unmarshal
      (.obj "FlowStatsRequest" [.num 0, .bytes (zeros 3), .num Gen.openflow13.P_ANY, .num Gen.openflow13.OFPG_ANY, .bytes (zeros 4), .num 0,
        .num 0, Match.zero]) d ∧
    AggregateStatsRequest.unmarshal AggregateStatsRequest.new d = AggregateStatsRequest.unmarshal
      (.obj "AggregateStatsRequest" [.num 0, .bytes (zeros 3), .num 0, .num 0, .bytes (zeros 4), .num 0, .num 0, Match.zero]) d := ⟨rfl, rfl⟩

/-! ## §3 every leaf action kind as a list element

C05 §4 proved NXActionConjunction / Resubmit / ResubmitTable / DecTTL only as single actions through DecodeAction; as `ActionRT` facts
(OFV/Lemmas/RT4.lean: actionRT_conjunction, actionRT_resubmit, actionRT_resubmitTable, actionRT_decTTL — any field values) they can be
elements of any action list: C05.instrActions_roundtrip, C05b.bucket_roundtrip, C05b.nxConnTrack_roundtrip … apply to lists that
contain them. -/

/-- the four 16-byte Nicira actions (resubmit-table in both subtypes) as elements of one list: an `ActionsRT` list -/
theorem nx16_in_lists :
    ∃ as encs, ActionsRT as encs ∧
      as.map V.kind = ["NXActionConjunction", "NXActionResubmit", "NXActionResubmitTable", "NXActionResubmitTable", "NXActionDecTTL"] ∧
      encs.flatten.length = 80 :=
  ⟨_, _, .cons (actionRT_conjunction 1 3 77 (by decide) (by decide) (by decide))
    (.cons (actionRT_resubmit 5 (by decide))
      (.cons (actionRT_resubmitTable Gen.openflow13.NXAST_RESUBMIT_TABLE 0 5 9 (Or.inl ⟨rfl, rfl⟩) (by decide) (by decide))
        (.cons (actionRT_resubmitTable Gen.openflow13.NXAST_CT_RESUBMIT 1 65528 9 (Or.inr ⟨rfl, rfl⟩) (by decide) (by decide))
          (.cons (actionRT_decTTL 0 (by decide)) .nil)))), rfl, rfl⟩

/-- the kinds of the list below, in order -/
def leafKinds : List String := ["ActionOutput", "ActionGroup", "ActionSetqueue", "ActionPush", "ActionPush", "ActionPush", "ActionPopMpls",
  "ActionPopVlan", "ActionDecNwTtl", "ActionDecNwTtl", "ActionDecNwTtl", "ActionDecNwTtl", "ActionDecNwTtl", "ActionMplsTtl", "ActionNwTtl",
  "NXActionConjunction", "NXActionResubmit", "NXActionResubmitTable", "NXActionResubmitTable", "NXActionDecTTL", "NXActionCTClear",
  "NXActionRegLoad", "NXActionRegMove", "NXActionOutputReg", "NXActionOutputReg", "NXActionController", "NXActionDecTTLCntIDs", "NXActionNote"]

set_option maxRecDepth 100000 in
/-- ONE action list holding every leaf action kind `DecodeAction` can allocate, each action type / Nicira subtype of both dispatch
    tables once (set-field, reg-load2, nat and learn, whose sizes depend on their contents, are in C05.actionSetField_roundtrip /
    C05b.nxActions_in_list): 28 actions, 376 bytes -/
theorem allLeafs : ∃ as encs, ActionsRT as encs ∧ as.map V.kind = leafKinds ∧ encs.flatten.length = 376 := by
  have hh : HdrOK 1 0 0 4 := ⟨by decide, by decide, by decide, by decide⟩
  exact ⟨_, _,
    .cons (actionRT_output 16 2 65535 (by decide) (by decide) (by decide))
    (.cons (actionRT_group 8 9 (by decide) (by decide))
    (.cons (actionRT_setqueue 8 5 (by decide) (by decide))
    (.cons (actionRT_push Gen.openflow13.ActionType_PushVlan 8 33024 (by decide) rfl (by decide) (by decide))
    (.cons (actionRT_push Gen.openflow13.ActionType_PushMpls 8 34887 (by decide) rfl (by decide) (by decide))
    (.cons (actionRT_push Gen.openflow13.ActionType_PushPbb 8 35047 (by decide) rfl (by decide) (by decide))
    (.cons (actionRT_popMpls 8 2048 (by decide) (by decide))
    (.cons (actionRT_popVlan 8 (by decide))
    (.cons (actionRT_decNwTtl 8 (by decide))
    (.cons (actionRT_hdrPad Gen.openflow13.ActionType_CopyTtlOut 8 (by decide) rfl (by decide))
    (.cons (actionRT_hdrPad Gen.openflow13.ActionType_CopyTtlIn 8 (by decide) rfl (by decide))
    (.cons (actionRT_hdrPad Gen.openflow13.ActionType_DecMplsTtl 8 (by decide) rfl (by decide))
    (.cons (actionRT_hdrPad Gen.openflow13.ActionType_PopPbb 8 (by decide) rfl (by decide))
    (.cons (actionRT_mplsTtl 8 7 (by decide) (by decide))
    (.cons (actionRT_nwTtl 8 64 (by decide) (by decide))
    (.cons (actionRT_conjunction 1 3 77 (by decide) (by decide) (by decide))
    (.cons (actionRT_resubmit 5 (by decide))
    (.cons (actionRT_resubmitTable Gen.openflow13.NXAST_RESUBMIT_TABLE 0 5 9 (Or.inl ⟨rfl, rfl⟩) (by decide) (by decide))
    (.cons (actionRT_resubmitTable Gen.openflow13.NXAST_CT_RESUBMIT 1 65528 9 (Or.inr ⟨rfl, rfl⟩) (by decide) (by decide))
    (.cons (actionRT_decTTL 0 (by decide))
    (.cons actionRT_ctClear
    (.cons (actionRT_regLoad 15 1 0 0 4 1 (by decide) hh (by decide))
    (.cons (actionRT_regMove 16 0 0 1 0 0 4 1 1 0 4 (by decide) (by decide) (by decide) hh ⟨by decide, by decide, by decide, by decide⟩)
    (.cons (actionRT_outputReg Gen.openflow13.NXAST_OUTPUT_REG 15 1 0 0 4 128 (Or.inl rfl) (by decide) hh (by decide))
    (.cons (actionRT_outputReg Gen.openflow13.NXAST_OUTPUT_REG2 15 1 0 0 4 128 (Or.inr rfl) (by decide) hh (by decide))
    (.cons (actionRT_controller 128 3 1 (by decide) (by decide) (by decide))
    (.cons (actionRT_decTTLCntIDs 24 [1, 2, 3] (by decide) (by decide) (by decide))
    (.cons (actionRT_note [1, 2, 3, 4, 5, 6] (by decide)) .nil))))))))))))))))))))))))))),
    rfl, rfl⟩


/-- … and that list round-trips as the body of an apply-actions instruction through DecodeInstr (followed by anything), as the
    action list of a Bucket (376 is a multiple of 8), and inside a FlowMod through Parse (followed by anything): every action is
    decoded back from its position, whatever precedes and follows it. -/
theorem allLeafKinds_in_one_list :
    ∃ as encs, ActionsRT as encs ∧ as.map V.kind = leafKinds ∧ encs.flatten.length = 376 ∧
      RoundTrip Instruction.marshalM DecodeInstr
        (.obj "InstrActions" [.obj "InstrHeader" [.num Gen.openflow13.InstrType_APPLY_ACTIONS, .num 384], .bytes (zeros 4), .list as])
        (.obj "InstrActions" [.obj "InstrHeader" [.num Gen.openflow13.InstrType_APPLY_ACTIONS, .num 384], .bytes [], .list as])
        (be16 (n16 Gen.openflow13.InstrType_APPLY_ACTIONS) ++ be16 (n16 384) ++ zeros 4 ++ encs.flatten) ∧
      RoundTrip Bucket.marshalM (Bucket.unmarshal Bucket.zero) (bucketV 392 1 2 3 (.bytes []) as) (bucketV 392 1 2 3 (.bytes []) as)
        (bucketBytes 392 1 2 3 encs) ∧
      ∃ bs, bs.length = 440 ∧
        (∀ ln0 pad, FlowMod.marshalM (flowModV 4 ln0 7 1 2 3 Gen.openflow13.FC_ADD 4 5 6 8 9 10 11 pad Match.new
            [.obj "InstrActions" [.obj "InstrHeader" [.num Gen.openflow13.InstrType_APPLY_ACTIONS, .num 384], .bytes [], .list as]])
          = .ok (bs, flowModV 4 440 7 1 2 3 Gen.openflow13.FC_ADD 4 5 6 8 9 10 11 pad Match.new
            [.obj "InstrActions" [.obj "InstrHeader" [.num Gen.openflow13.InstrType_APPLY_ACTIONS, .num 384], .bytes [], .list as]])) ∧
        ∀ (depth : Nat) (data : Slice) (tail : Bytes), data.WF → data.bytes = bs ++ tail →
          parse depth data = .ok (flowModV 4 440 7 1 2 3 Gen.openflow13.FC_ADD 4 5 6 8 9 10 11 (.bytes []) Match.new
            [.obj "InstrActions" [.obj "InstrHeader" [.num Gen.openflow13.InstrType_APPLY_ACTIONS, .num 384], .bytes [], .list as]]) := by
  obtain ⟨as, encs, has, hk, hl⟩ := allLeafs
  refine ⟨as, encs, has, hk, hl, ?_, ?_, ?_⟩
  · exact instrActions_roundtrip Gen.openflow13.InstrType_APPLY_ACTIONS 384 4 as encs (Or.inr (Or.inl rfl)) has (by rw [hl]) (by decide)
  · have := (C05b.bucket_roundtrip 1 2 3 as encs (by decide) (by decide) (by decide) (ActionsRTd.of has) (by rw [hl]) (by rw [hl]; decide)).2
    rw [hl] at this
    exact this
  · have hi := instrRT_actions Gen.openflow13.InstrType_APPLY_ACTIONS 384 as encs (Or.inr (Or.inl rfl)) has (by rw [hl]) (by decide)
    obtain ⟨mbs, hmm, hrest⟩ := flowMod_roundtrip 4 7 1 2 3 Gen.openflow13.FC_ADD 4 5 6 8 9 10 11 Match.new _ _
      (by decide) (by decide) (by decide) (by decide) (by decide) (by decide) (by decide) (by decide) (by decide) (by decide) (by decide)
      (by decide) (by decide) (by simp [MatchWF, Match.new, Gen.openflow13.MatchType_OXM]) (.cons hi .nil)
      (by intro h; rcases h with h | h <;> exact absurd h (by decide))
    have hm0 : Match.marshalM Match.new = .ok ([0, 1, 0, 4, 0, 0, 0, 0], Match.new) := by rfl
    rw [hm0] at hmm
    cases hmm
    have hfl : ([be16 (n16 Gen.openflow13.InstrType_APPLY_ACTIONS) ++ be16 (n16 384) ++ zeros 4 ++ encs.flatten] : List Bytes).flatten.length = 384 := by
      simp only [List.flatten_cons, List.flatten_nil, List.append_nil, List.length_append, be16_length, zeros_length, hl]
    rw [hfl] at hrest
    obtain ⟨bs, hbl, h1, h2⟩ := hrest (by decide)
    have hbl' : bs.length = 440 := by rw [hbl]; rfl
    rw [hbl'] at h1 h2
    exact ⟨bs, hbl', h1, h2⟩


/-! ## §4 the element codecs that only occur embedded (each has `MarshalBinary` / `UnmarshalBinary` of its own) -/

/-- ActionHeader (type, length): 4 bytes, decoded into any receiver, followed by anything -/
theorem actionHeader_roundtrip (ty ln : Nat) (hty : ty < 65536) (hln : ln < 65536) (recv : V) :
    RoundTrip ActionHeader.marshalM (ActionHeader.unmarshal recv) (ActionHeader.mk ty ln) (ActionHeader.mk ty ln)
      (be16 (n16 ty) ++ be16 (n16 ln)) :=
  ⟨rfl, rfl, fun data tail hd hb => actionHeader_unmarshal recv data hd ty ln hty hln tail hb⟩

/-- NXActionHeader (ActionHeader of type experimenter, vendor 0x2320, subtype): 10 bytes, any receiver, followed by anything -/
theorem nxActionHeader_roundtrip (ln sub : Nat) (hln : ln < 65536) (hsub : sub < 65536) (recv : V) :
    RoundTrip NXActionHeader.marshalM (NXActionHeader.unmarshal recv) (nxHdr ln sub) (nxHdr ln sub) (nxHdrBytes ln sub) := by
  have h1 : NXActionHeader.marshalM (nxHdr ln sub) = .ok (nxHdrBytes ln sub, nxHdr ln sub) := by
    simp only [NXActionHeader.marshalM, nxHdr_bytes, Res.bind_ok, same]
  exact ⟨h1, h1, fun data tail hd hb => nxHeader_unmarshal recv data hd ln sub hln hsub tail hb⟩

/-- HelloElemHeader (type, length): 4 bytes, any receiver, followed by anything -/
theorem helloElemHeader_roundtrip (t l : Nat) (ht : t < 65536) (hl : l < 65536) (recv : V) :
    let v := V.obj "HelloElemHeader" [.num t, .num l]
    RoundTrip HelloElemHeader.marshalM (HelloElemHeader.unmarshal recv) v v (be16 (n16 t) ++ be16 (n16 l)) :=
  ⟨rfl, rfl, fun data tail hd hb => helloElemHeader_unmarshal recv data hd t l ht hl tail hb⟩

/-- NXLearnSpecHeader: the 16-bit word holding the src / dst / output flags and the 11-bit n_bits (`specHdrV`: flags as 0/1, Length 2);
    src and output are exclusive in the encoding (the encoder clears the match bit when output is set) -/
theorem learnSpecHeader_roundtrip (s d o : Bool) (nb : Nat) (hso : (s && o) = false) (hnb : nb < 2048) :
    RoundTrip NXLearnSpecHeader.marshalM (NXLearnSpecHeader.unmarshal NXLearnSpecHeader.zero) (specHdrV s d o nb) (specHdrV s d o nb)
      (be16 (NXLearnSpecHeader.word (b2n s) (b2n d) (b2n o) nb)) := by
  obtain ⟨h1, h2⟩ := specHdr_rt s d o nb hso hnb
  have hm : NXLearnSpecHeader.marshalM (specHdrV s d o nb) = .ok (be16 (NXLearnSpecHeader.word (b2n s) (b2n d) (b2n o) nb), specHdrV s d o nb) := by
    simp only [NXLearnSpecHeader.marshalM, h1, Res.bind_ok, same]
  exact ⟨hm, hm, fun data tail _ hb => h2 data tail hb⟩

/-- NXLearnSpecField: the 4-byte OXM header of the field (`hdrField`: the decoded, header-only form) and the 16-bit offset -/
theorem learnSpecField_roundtrip (c f hm l ofs : Nat) (hh : HdrOK c f hm l) (hofs : ofs < 65536) :
    RoundTrip NXLearnSpecField.marshalM (NXLearnSpecField.unmarshal NXLearnSpecField.zero) (specFieldV c f hm l ofs) (specFieldV c f hm l ofs)
      (specFieldBytes c f hm l ofs) := by
  obtain ⟨h1, h2⟩ := specField_rt c f hm l ofs hh hofs
  exact ⟨h1, h1, fun data tail _ hb => h2 data tail hb⟩

/-- ControllerID through its own decoder: six zero bytes and the id; the pad array `p` is neither written nor read (the receiver's
    stays), so decoding into a receiver with the same pad — `new(ControllerID)` for the zero pad every value has — returns the value -/
theorem controllerID_roundtrip (id : Nat) (p r1 : V) (hid : id < 65536) :
    let v := V.obj "ControllerID" [p, .num id]
    RoundTrip ControllerID.marshalM (ControllerID.unmarshal (.obj "ControllerID" [p, r1])) v v (zeros 6 ++ be16 (n16 id)) := by
  intro v
  refine ⟨rfl, rfl, fun data tail hd hb => ?_⟩
  have hlen := Slice.len_ge_of_bytes data _ _ hb
  simp only [List.length_append, be16_length, zeros_length] at hlen
  have e6 : rd16 (data.bytes.drop 6) = some (n16 id) := by
    rw [hb]
    have : List.drop 6 (zeros 6 ++ be16 (n16 id) ++ tail) = be16 (n16 id) ++ tail := rfl
    rw [this]; exact rd16_be16 _ _
  simp only [ControllerID.unmarshal, if_neg (show ¬ data.len < 8 by omega), Slice.u16From_eq, e6, Res.ofOption, Res.bind_ok, Res.pure_eq,
    u16_n16 id hid, v]

/-- TLVTableMap through its own decoder: class, type, length, index, two zero bytes; the pad array is neither written nor read -/
theorem tlvTableMap_roundtrip (c t l i : Nat) (p r0 r1 r2 r3 : V) (hc : c < 65536) (ht : t < 256) (hl : l < 256) (hi : i < 65536) :
    let v := V.obj "TLVTableMap" [.num c, .num t, .num l, .num i, p]
    RoundTrip TLVTableMap.marshalM (TLVTableMap.unmarshal (.obj "TLVTableMap" [r0, r1, r2, r3, p])) v v
      (be16 (n16 c) ++ [n8 t, n8 l] ++ be16 (n16 i) ++ zeros 2) := by
  intro v
  have hm : TLVTableMap.marshalM v = .ok (be16 (n16 c) ++ [n8 t, n8 l] ++ be16 (n16 i) ++ zeros 2, v) := by
    simp only [v, TLVTableMap.marshalM]
    rw [fill_exact 8 _ (by intro x hx; simp at hx; rcases hx with rfl | rfl | rfl | rfl <;> trivial)
      (by simp [piecesLen, pU16, pU8, Piece.adv])]
    simp [piecesBytes, piecesLen, pU16, pU8, Piece.bytes, Piece.adv, same]
  refine ⟨hm, hm, fun data tail hd hb => ?_⟩
  have hlen := Slice.len_ge_of_bytes data _ _ hb
  simp only [List.length_append, be16_length, zeros_length, List.length_cons, List.length_nil] at hlen
  have hb' : data.bytes = be16 (n16 c) ++ ([n8 t, n8 l] ++ (be16 (n16 i) ++ (zeros 2 ++ tail))) := by
    rw [hb]; simp only [List.append_assoc]
  have e0 : rd16 (data.bytes.drop 0) = some (n16 c) := by rw [hb']; exact rd16_be16 _ _
  have e2 : data.bytes[2]? = some (n8 t) := by rw [hb']; rfl
  have e3 : data.bytes[3]? = some (n8 l) := by rw [hb']; rfl
  have e4 : rd16 (data.bytes.drop 4) = some (n16 i) := by rw [hb']; exact rd16_be16 _ _
  simp only [TLVTableMap.unmarshal, if_neg (show ¬ data.len < 8 by omega), Slice.u16From_eq, Slice.byteAt_eq, e0, e2, e3, e4,
    Res.ofOption, Res.bind_ok, Res.pure_eq, u16_n16 c hc, u16_n16 i hi, u8_n8 t ht, u8_n8 l hl, v]

/-- satisfiable: the output action's header, a Nicira resubmit header, a hello element header, NXT controller id 5, a TLV map -/
example : (∃ bs, RoundTrip ActionHeader.marshalM (ActionHeader.unmarshal ActionHeader.zero) (ActionHeader.mk 0 16) (ActionHeader.mk 0 16) bs) ∧
    (∃ bs, RoundTrip NXActionHeader.marshalM (NXActionHeader.unmarshal NXActionHeader.zero) (nxHdr 16 Gen.openflow13.NXAST_RESUBMIT)
      (nxHdr 16 Gen.openflow13.NXAST_RESUBMIT) bs) ∧
    (∃ bs, RoundTrip HelloElemHeader.marshalM (HelloElemHeader.unmarshal HelloElemHeader.new) (.obj "HelloElemHeader" [.num 1, .num 8])
      (.obj "HelloElemHeader" [.num 1, .num 8]) bs) ∧
    (∃ bs, RoundTrip ControllerID.marshalM (ControllerID.unmarshal ControllerID.zero) (.obj "ControllerID" [.bytes (zeros 6), .num 5])
      (.obj "ControllerID" [.bytes (zeros 6), .num 5]) bs) ∧
    (∃ bs, RoundTrip TLVTableMap.marshalM (TLVTableMap.unmarshal TLVTableMap.zero)
      (.obj "TLVTableMap" [.num 65535, .num 1, .num 4, .num 2, .bytes (zeros 2)]) (.obj "TLVTableMap" [.num 65535, .num 1, .num 4, .num 2, .bytes (zeros 2)]) bs) :=
  ⟨⟨_, actionHeader_roundtrip 0 16 (by decide) (by decide) _⟩, ⟨_, nxActionHeader_roundtrip 16 _ (by decide) (by decide) _⟩,
    ⟨_, helloElemHeader_roundtrip 1 8 (by decide) (by decide) _⟩, ⟨_, controllerID_roundtrip 5 _ _ (by decide)⟩,
    ⟨_, tlvTableMap_roundtrip 65535 1 4 2 _ _ _ _ _ (by decide) (by decide) (by decide) (by decide)⟩⟩

/-- InstrHeader: round trip ONLY when the buffer holds exactly the 4 bytes (second statement).  `InstrHeader.UnmarshalBinary` checks
    `len(data) != 4`: followed by ANY further byte the decoder returns an error (third statement) — the only element decoder of the
    library that rejects trailing bytes; the library itself always calls it with `data[:4]` (C05.instr*_roundtrip cover that use). -/
theorem instrHeader_roundtrip_exact (ty ln : Nat) (hty : ty < 65536) (hln : ln < 65536) (recv : V) :
    let v := V.obj "InstrHeader" [.num ty, .num ln]
    InstrHeader.marshalM v = .ok (be16 (n16 ty) ++ be16 (n16 ln), v) ∧
    (∀ (data : Slice), data.WF → data.bytes = be16 (n16 ty) ++ be16 (n16 ln) → InstrHeader.unmarshal recv data = .ok v) ∧
    ∀ (data : Slice) (tail : Bytes), data.WF → data.bytes = be16 (n16 ty) ++ be16 (n16 ln) ++ tail → tail ≠ [] →
      InstrHeader.unmarshal recv data = .err := by
  intro v
  have hbl : ∀ (data : Slice), data.WF → data.bytes.length = data.len := by
    intro data hd
    simp only [Slice.bytes, List.length_take]
    exact Nat.min_eq_left hd
  refine ⟨rfl, fun data hd hb => ?_, fun data tail hd hb ht => ?_⟩
  · have hl4 : data.len = 4 := by rw [← hbl data hd, hb]; rfl
    have e0 : rd16 ((data.bytes.drop 0).take (2 - 0)) = some (n16 ty) := by rw [hb]; exact rd16_be16' _
    have e2 : rd16 ((data.bytes.drop 2).take (4 - 2)) = some (n16 ln) := by
      rw [hb]
      have : (List.drop 2 (be16 (n16 ty) ++ be16 (n16 ln))).take (4 - 2) = be16 (n16 ln) := rfl
      rw [this]; exact rd16_be16' _
    simp only [InstrHeader.unmarshal, hl4, ne_eq, not_true_eq_false, if_false, Slice.u16In_eq data hd 0 2 (by omega) (by omega),
      Slice.u16In_eq data hd 2 4 (by omega) (by omega), e0, e2, Res.ofOption, Res.bind_ok, Res.pure_eq, u16_n16 ty hty, u16_n16 ln hln, v]
  · have hl : data.len = 4 + tail.length := by
      rw [← hbl data hd, hb]; simp only [List.length_append, be16_length]
    have : tail.length ≠ 0 := by intro h; exact ht (List.eq_nil_of_length_eq_zero h)
    simp only [InstrHeader.unmarshal, if_pos (show data.len ≠ 4 by omega)]


/-- satisfiable: output-flagged spec header with 16 bits; the header-only form of NXM_1 field 0, length 4 -/
example : ((false && true) = false) ∧ HdrOK 1 0 0 4 := ⟨rfl, by decide, by decide, by decide, by decide⟩

/-- concrete instance of the rejection: a goto-table header followed by one byte -/
theorem instrHeader_tail_counterexample :
    InstrHeader.marshalM (.obj "InstrHeader" [.num 1, .num 8]) = .ok ([0, 1, 0, 8], .obj "InstrHeader" [.num 1, .num 8]) ∧
    InstrHeader.unmarshal InstrHeader.zero (Slice.exact [0, 1, 0, 8]) = .ok (.obj "InstrHeader" [.num 1, .num 8]) ∧
    InstrHeader.unmarshal InstrHeader.zero (Slice.exact [0, 1, 0, 8, 3]) = .err := ⟨rfl, rfl, rfl⟩

/-! ## §5 where the round trip is FALSE -/

/-- An ErrorMsg VALUE whose Type is ET_EXPERIMENTER (0xffff) does not come back as an ErrorMsg: Parse re-decodes every error of
    that type as a VendorError, taking the first four data bytes as the experimenter id.  Concretely: ErrorMsg{Type 0xffff, Code 1,
    Data 01 02 03 04 05} encodes to 17 bytes; Parse returns VendorError{…, ExperimenterID 0x01020304, Data 05} (which encodes to
    the same 17 bytes).  The KIND and the data field differ (the bytes do not). -/
theorem errorMsg_experimenter_kind_counterexample :
    let v := errorMsgV 4 17 7 Gen.openflow13.ET_EXPERIMENTER 1 [1, 2, 3, 4, 5]
    let bs : Bytes := [4, 1, 0, 17, 0, 0, 0, 7, 255, 255, 0, 1, 1, 2, 3, 4, 5]
    ErrorMsg.marshalM v = .ok (bs, v) ∧
    parse 0 (Slice.exact bs) = .ok (vendorErrorV 4 17 7 Gen.openflow13.ET_EXPERIMENTER 1 16909060 [5]) ∧
    VendorError.marshalM (vendorErrorV 4 17 7 Gen.openflow13.ET_EXPERIMENTER 1 16909060 [5])
      = .ok (bs, vendorErrorV 4 17 7 Gen.openflow13.ET_EXPERIMENTER 1 16909060 [5]) := by
  refine ⟨by rfl, by rfl, by rfl⟩

/-- … and with fewer than four data bytes Parse FAILS: ErrorMsg{Type 0xffff, Code 1, Data 01 02} encodes to 14 bytes;
    `ErrorMsg.UnmarshalBinary` decodes them back (third statement), but Parse hands them to `VendorError.UnmarshalBinary`, whose
    `binary.BigEndian.Uint32(data[12:])` panics on the 2 remaining bytes; Parse recovers and returns an error. -/
theorem errorMsg_experimenter_short_counterexample :
    let v := errorMsgV 4 14 7 Gen.openflow13.ET_EXPERIMENTER 1 [1, 2]
    let bs : Bytes := [4, 1, 0, 14, 0, 0, 0, 7, 255, 255, 0, 1, 1, 2]
    ErrorMsg.marshalM v = .ok (bs, v) ∧ parse 0 (Slice.exact bs) = .err ∧
    ErrorMsg.unmarshal ErrorMsg.zero (Slice.exact bs) = .ok v := by
  refine ⟨by rfl, by rfl, by rfl⟩

/-- IN GENERAL: an ErrorMsg value of type ET_EXPERIMENTER whose data starts with four bytes `be32 x` encodes to exactly the bytes of
    the VendorError with experimenter id `x` and the remaining data, and Parse (buffer holding exactly the message) returns THAT
    VendorError — never the ErrorMsg. -/
theorem errorMsg_experimenter_becomes_vendorError (ver xid c x : Nat) (d : Bytes) (hver : ver < 256) (hxid : xid < 4294967296)
    (hc : c < 65536) (hx : x < 4294967296) (hd : 16 + d.length < 65536) :
    let t := Gen.openflow13.ET_EXPERIMENTER
    let bs := [n8 ver, n8 Gen.openflow13.Type_Error] ++ be16 (n16 (16 + d.length)) ++ be32 (n32 xid) ++ be16 (n16 t) ++ be16 (n16 c)
      ++ be32 (n32 x) ++ d
    (∀ ln0, ErrorMsg.marshalM (errorMsgV ver ln0 xid t c (be32 (n32 x) ++ d)) = .ok (bs, errorMsgV ver (16 + d.length) xid t c (be32 (n32 x) ++ d))) ∧
    ∀ (depth : Nat) (data : Slice), data.WF → data.bytes = bs → parse depth data = .ok (vendorErrorV ver (16 + d.length) xid t c x d) := by
  intro t bs
  refine ⟨fun ln0 => ?_, fun depth data hdw hb => ?_⟩
  · have h := errorMsg_enc ver xid t c (be32 (n32 x) ++ d) (by simp only [List.length_append, be32_length]; omega) ln0
    have hl : 12 + (be32 (n32 x) ++ d).length = 16 + d.length := by simp only [List.length_append, be32_length]; omega
    rw [hl] at h
    rw [h]
    simp only [bs, List.append_assoc]
  · have := (vendorError_rt ver xid c x d hver hxid hc hx hd).2 depth data [] hdw (by rw [hb, List.append_nil])
    rw [List.append_nil] at this
    exact this

/-- … and whenever such an ErrorMsg carries fewer than four data bytes, Parse of its encoding is an ERROR (every version, xid,
    code, data): `VendorError.UnmarshalBinary` reads `data[12:16]` behind the end of the buffer, panics, Parse recovers. -/
theorem errorMsg_experimenter_short_never_parses (ver xid c : Nat) (d : Bytes) (hver : ver < 256) (hxid : xid < 4294967296)
    (hd : d.length < 4) (depth : Nat) (data : Slice) (hdw : data.WF)
    (hb : data.bytes = [n8 ver, n8 Gen.openflow13.Type_Error] ++ be16 (n16 (12 + d.length)) ++ be32 (n32 xid)
      ++ be16 (n16 Gen.openflow13.ET_EXPERIMENTER) ++ be16 (n16 c) ++ d) :
    parse depth data = .err ∧
    ∀ ln0, ErrorMsg.marshalM (errorMsgV ver ln0 xid Gen.openflow13.ET_EXPERIMENTER c d) = .ok (data.bytes,
      errorMsgV ver (12 + d.length) xid Gen.openflow13.ET_EXPERIMENTER c d) :=
  ⟨errorMsg_experimenter_short_err ver xid c d hver hxid hd depth data hdw hb,
    fun ln0 => by rw [hb]; exact errorMsg_enc ver xid _ c d (by omega) ln0⟩

/-- the packet-in of the example below: opaque LLDP-ethertype frame with payload `d`, empty OXM match, Header.Length `ln` -/
def pinEx (ln : Nat) (d : Bytes) : V :=
  packetInV 4 ln 7 9 128 1 2 3 Match.new [] (ethOpaqueV [1, 2, 3, 4, 5, 6] [7, 8, 9, 10, 11, 12] 35020 d)

/-- PacketIn FOLLOWED BY OTHER BYTES (C05.packetIn_roundtrip is for a buffer holding exactly the message): the decoder does not
    use Header.Length — the packet extends to the end of the buffer, so the trailing bytes are swallowed into the frame, as for the
    data of ErrorMsg / VendorError.  Concretely: a 51-byte packet-in followed by AA BB parses to the packet-in whose frame payload
    is 01 02 03 AA BB (Header.Length still 51), which re-encodes to 53 bytes with Length 53. -/
theorem packetIn_tail_counterexample :
    let bs : Bytes := [4, 10, 0, 51, 0, 0, 0, 7, 0, 0, 0, 9, 0, 128, 1, 2, 0, 0, 0, 0, 0, 0, 0, 3, 0, 1, 0, 4, 0, 0, 0, 0, 0, 0,
      1, 2, 3, 4, 5, 6, 7, 8, 9, 10, 11, 12, 136, 204, 1, 2, 3]
    PacketIn.marshalM (pinEx 0 [1, 2, 3]) = .ok (bs, pinEx 51 [1, 2, 3]) ∧
    parse 0 (Slice.exact bs) = .ok (pinEx 51 [1, 2, 3]) ∧
    parse 0 (Slice.exact (bs ++ [170, 187])) = .ok (pinEx 51 [1, 2, 3, 170, 187]) ∧
    ∃ bs', PacketIn.marshalM (pinEx 51 [1, 2, 3, 170, 187]) = .ok (bs', pinEx 53 [1, 2, 3, 170, 187]) ∧ bs'.length = 53 := by
  refine ⟨by rfl, by rfl, by rfl, _, by rfl, by rfl⟩

/-- IN GENERAL: `PacketIn.UnmarshalBinary` never looks at Header.Length.  For ANY Length `lnH` in the header, Parse of header, 16 fixed
    bytes, match, 2 pad bytes and a frame `eb` (any frame that round-trips on its own, `EthRT`) up to the end of the buffer returns the
    packet-in with that frame and Header.Length `lnH` as found. -/
theorem packetIn_ignores_headerLength (ver lnH xid b t r ti c : Nat) (m eth : V) (eb mbs : Bytes)
    (hver : ver < 256) (hlnH : lnH < 65536) (hxid : xid < 4294967296) (hb32 : b < 4294967296) (ht : t < 65536) (hr : r < 256)
    (hti : ti < 256) (hc : c < 18446744073709551616) (hm : MatchWF m) (hmm : Match.marshalM m = .ok (mbs, m)) (heth : EthRT eth eb)
    (hL : 26 + mbs.length + eb.length < 65536) (depth : Nat) (data : Slice) (hdw : data.WF)
    (hb : data.bytes = [n8 ver, n8 Gen.openflow13.Type_PacketIn] ++ be16 (n16 lnH) ++ be32 (n32 xid)
        ++ (be32 (n32 b) ++ be16 (n16 t) ++ [n8 r, n8 ti] ++ be64 (n64 c)) ++ mbs ++ zeros 2 ++ eb) :
    parse depth data = .ok (packetInV ver lnH xid b t r ti c m [] eth) :=
  packetIn_decode_anyLength ver lnH xid b t r ti c m eth eb mbs hver hlnH hxid hb32 ht hr hti hc hm hmm heth hL depth data hdw hb

/-- … hence bytes behind a packet-in are swallowed into the frame: for an opaque frame (untagged, ethertype not VLAN / IPv4 / IPv6 / ARP)
    with payload `d`, Parse of the encoding (Header.Length L) followed by ANY `tail` returns the packet-in whose frame payload is
    `d ++ tail` — the original value only when `tail = []` (C05.packetIn_roundtrip); re-encoding gives Length L + |tail|. -/
theorem packetIn_tail_swallowed (ver xid b t r ti c et : Nat) (m : V) (dst src d mbs tail : Bytes)
    (hver : ver < 256) (hxid : xid < 4294967296) (hb32 : b < 4294967296) (ht : t < 65536) (hr : r < 256)
    (hti : ti < 256) (hc : c < 18446744073709551616) (hm : MatchWF m) (hmm : Match.marshalM m = .ok (mbs, m))
    (hdst : dst.length = 6) (hsrc : src.length = 6) (het : et < 65536)
    (hne : et ≠ Gen.protocol.VLAN_MSG ∧ et ≠ Gen.protocol.IPv4_MSG ∧ et ≠ Gen.protocol.IPv6_MSG ∧
      et ≠ Gen.protocol.ARP_MSG)
    (hL : 26 + mbs.length + (14 + d.length + tail.length) < 65536) (depth : Nat) (data : Slice) (hdw : data.WF) :
    let L := 26 + mbs.length + (14 + d.length)
    data.bytes = [n8 ver, n8 Gen.openflow13.Type_PacketIn] ++ be16 (n16 L) ++ be32 (n32 xid)
        ++ (be32 (n32 b) ++ be16 (n16 t) ++ [n8 r, n8 ti] ++ be64 (n64 c)) ++ mbs ++ zeros 2 ++ (dst ++ src ++ be16 (n16 et) ++ d) ++ tail →
    parse depth data = .ok (packetInV ver L xid b t r ti c m [] (ethOpaqueV dst src et (d ++ tail))) := by
  intro L hb
  have heth := ethRT_opaque dst src et (d ++ tail) hdst hsrc het hne (by simp only [List.length_append]; omega)
  have hel : (dst ++ src ++ be16 (n16 et) ++ (d ++ tail)).length = 14 + d.length + tail.length := by
    simp only [List.length_append, be16_length, hdst, hsrc]; omega
  exact packetIn_decode_anyLength ver L xid b t r ti c m _ _ mbs hver (by simp only [L]; omega) hxid hb32 ht hr hti hc hm hmm heth
    (by rw [hel]; omega) depth data hdw (by rw [hb]; simp only [List.append_assoc])

/-- satisfiable: the LLDP ethertype 0x88cc of packetIn_tail_counterexample (which is the instance d = 01 02 03, tail = AA BB) and
    the empty OXM match -/
example : (35020 ≠ Gen.protocol.VLAN_MSG ∧ 35020 ≠ Gen.protocol.IPv4_MSG ∧ 35020 ≠ Gen.protocol.IPv6_MSG ∧ 35020 ≠ Gen.protocol.ARP_MSG) ∧
    Match.marshalM Match.new = .ok ([0, 1, 0, 4, 0, 0, 0, 0], Match.new) :=
  ⟨by decide, by rfl⟩

/-! ### consequences of D28 (Parse has no case for packet-out / group-mod / port-mod / table-mod / queue-get-config) -/

/-- D28 for ALL buffers: whenever the type byte is one of the six unhandled types (`unhandledTypes` = 13, 15, 16, 17, 22, 23), Parse
    returns (nil, nil) — whatever the rest of the buffer and the nesting bound (C05b has the three concrete instances). -/
theorem parse_unhandled_types (depth : Nat) (data : Slice) (tb : UInt8) (h1 : data.byteAt 1 = .ok tb)
    (ht : tb.toNat ∈ unhandledTypes) : parse depth data = .ok .nil :=
  parse_unhandled depth data tb h1 ht

example : unhandledTypes = [13, 15, 16, 17, 22, 23] := rfl

/-- satisfiable: a group-mod buffer (type byte 15) -/
example : (Slice.exact [4, 15, 0, 16, 0, 0, 0, 7, 0, 0, 0, 0, 0, 0, 0, 1]).byteAt 1 = .ok 15 ∧ (15 : UInt8).toNat ∈ unhandledTypes :=
  ⟨rfl, by decide⟩

/-- … hence a BundleAdd that carries a group-mod, port-mod, packet-out or table-mod — what bundles are for, besides flow-mods —
    NEVER decodes: `BundleAdd.UnmarshalBinary` calls Parse on the embedded message, gets nil and returns an error (or fails
    earlier), for every receiver and every buffer whose embedded type byte (offset 9 of the BundleAdd body) is an unhandled type. -/
theorem bundleAdd_unhandled_inner_never_decodes (recv : V) (data : Slice) (tb : UInt8) (h9 : data.byteAt 9 = .ok tb)
    (ht : tb.toNat ∈ unhandledTypes) (v : V) : BundleAdd.unmarshal recv data ≠ .ok v :=
  bundleAdd_unhandled_inner recv data tb h9 ht v

/-- satisfiable: the BundleAdd body of the instance below (bundle 5, flags 0, then the 16-byte group-mod): byte 9 is 15 -/
example : (Slice.exact [0, 0, 0, 5, 0, 0, 0, 0, 4, 15, 0, 16, 0, 0, 0, 7, 0, 0, 0, 0, 0, 0, 0, 1]).byteAt 9 = .ok 15 ∧
    ∀ v, BundleAdd.unmarshal BundleAdd.zero (Slice.exact [0, 0, 0, 5, 0, 0, 0, 0, 4, 15, 0, 16, 0, 0, 0, 7, 0, 0, 0, 0, 0, 0, 0, 1]) ≠ .ok v :=
  ⟨rfl, fun v => bundleAdd_unhandled_inner_never_decodes _ _ 15 rfl (by decide) v⟩

/-- the vendor message NewBundleAdd-style around a GroupMod (command add, group 1, no buckets), Header.Length `ln` -/
def bundleGroupModEx (ln : Nat) : V :=
  vendorV 4 ln 9 Gen.openflow13.ONF_EXPERIMENTER_ID Gen.openflow13.Type_BundleAdd
    (bundleAddV 5 0 (groupModV 4 Gen.openflow13.Type_GroupMod 16 7 0 0 0 1 []) [])

/-- concrete instance through Parse: the bundle-add message around a GroupMod encodes to 40 bytes, and Parse of exactly those
    bytes returns an ERROR (the inner Parse returns nil; C05b.bundleAdd_flowMod_inner: around a FlowMod it round-trips). -/
theorem bundleAdd_groupMod_counterexample :
    let bs : Bytes := [4, 4, 0, 40, 0, 0, 0, 9, 79, 78, 70, 0, 0, 0, 8, 253, 0, 0, 0, 5, 0, 0, 0, 0, 4, 15, 0, 16, 0, 0, 0, 7, 0, 0, 0, 0,
      0, 0, 0, 1]
    VendorHeader.marshalM (bundleGroupModEx 0) = .ok (bs, bundleGroupModEx 40) ∧ parse 0 (Slice.exact bs) = .err := by
  refine ⟨by rfl, by rfl⟩

/-! ## §6 vendor messages: without payload, and with an experimenter type the payload decoder does not know -/

/-- VendorHeader WITHOUT payload (VendorData nil — C05b.vendor_roundtrip needs a payload), for EVERY vendor id and experimenter
    type, through Parse, followed by anything: the 16 fixed bytes; `MarshalBinary` stores 16 in Header.Length; the decoder does
    not look at the experimenter type when Header.Length is 16. -/
theorem vendorNoData_roundtrip (ver xid vn ty : Nat) (hver : ver < 256) (hxid : xid < 4294967296) (hvn : vn < 4294967296)
    (hty : ty < 4294967296) :
    let v' := vendorV ver 16 xid vn ty .nil
    let bs := [n8 ver, n8 Gen.openflow13.Type_Experimenter] ++ be16 (n16 16) ++ be32 (n32 xid) ++ be32 (n32 vn) ++ be32 (n32 ty)
    (∀ ln0, VendorHeader.marshalM (vendorV ver ln0 xid vn ty .nil) = .ok (bs, v')) ∧
    ∀ depth, RoundTrip VendorHeader.marshalM (parse depth) v' v' bs := by
  obtain ⟨h1, h2⟩ := vendorNoData_rt ver xid vn ty hver hxid hvn hty
  exact ⟨h1, fun depth => ⟨h1 _, h1 _, h2 depth⟩⟩

example : ∃ bs, ∀ depth, RoundTrip VendorHeader.marshalM (parse depth) (vendorV 4 16 7 Gen.openflow13.NxExperimenterID 12345 .nil)
    (vendorV 4 16 7 Gen.openflow13.NxExperimenterID 12345 .nil) bs :=
  ⟨_, (vendorNoData_roundtrip 4 7 Gen.openflow13.NxExperimenterID 12345 (by decide) (by decide) (by decide) (by decide)).2⟩

/-- FALSE with a payload of an UNKNOWN experimenter type: `decodeVendorData` knows five types (`knownVendorTypes` = 20, 24, 26,
    2300, 2301); for any other type the payload interface stays nil and `msg.UnmarshalBinary` panics — Parse recovers and returns an
    ERROR for every such message that carries at least one payload byte (Header.Length > 16), whatever the payload.  The library
    encodes such messages (VendorData is any `util.Message`; instance below). -/
theorem vendor_unknownType_never_parses (ver xid vn ty : Nat) (e : Bytes) (hver : ver < 256) (hxid : xid < 4294967296)
    (hty : ty < 4294967296) (hk : ty ∉ knownVendorTypes) (he : 0 < e.length) (hS : 16 + e.length < 65536)
    (depth : Nat) (data : Slice) (tail : Bytes) (hdw : data.WF)
    (hb : data.bytes = [n8 ver, n8 Gen.openflow13.Type_Experimenter] ++ be16 (n16 (16 + e.length)) ++ be32 (n32 xid) ++ be32 (n32 vn)
      ++ be32 (n32 ty) ++ e ++ tail) :
    parse depth data = .err :=
  vendor_unknownType_err ver xid vn ty e hver hxid hty hk he hS depth data tail hdw hb

example : knownVendorTypes = [20, 24, 26, 2300, 2301] ∧ 99 ∉ knownVendorTypes := ⟨rfl, by decide⟩

/-- concrete instance: a Nicira vendor message of experimenter type 99 carrying a ControllerID encodes to 24 bytes; Parse of those
    bytes is an error -/
theorem vendor_unknownType_counterexample :
    let v := fun ln => vendorV 4 ln 9 Gen.openflow13.NxExperimenterID 99 (.obj "ControllerID" [.bytes (zeros 6), .num 5])
    let bs : Bytes := [4, 4, 0, 24, 0, 0, 0, 9, 0, 0, 35, 32, 0, 0, 0, 99, 0, 0, 0, 0, 0, 0, 0, 5]
    VendorHeader.marshalM (v 0) = .ok (bs, v 24) ∧ parse 0 (Slice.exact bs) = .err := by
  refine ⟨by rfl, by rfl⟩

/-! ## §7 multipart replies of the types the record decoder does not support; FlowMod delete -/

/-- FALSE for every multipart type other than desc / flow / aggregate / table / port / queue (`supportedReplyTypes` = 2, 0, 1, 4, 3, 5;
    the Go source says "FIXME: Support all types"): for a reply of any other type — port-desc 13, group 6, group-desc 7, meter 9 … —
    that carries at least one body byte, the record interface stays nil and `repl.UnmarshalBinary` panics; Parse recovers and returns
    an ERROR, whatever the body.  (With an empty body every type round-trips: C05b.multipartReply_roundtrip with `rs = []`.)
    The library encodes such replies: the body is any list of `util.Message` (instance below). -/
theorem multipartReply_unsupported_type_never_parses (ver xid t f : Nat) (e : Bytes) (hver : ver < 256) (hxid : xid < 4294967296)
    (ht : t < 65536) (hk : t ∉ supportedReplyTypes) (he : 0 < e.length) (hS : 16 + e.length < 65536)
    (depth : Nat) (data : Slice) (tail : Bytes) (hd : data.WF)
    (hb : data.bytes = [n8 ver, n8 Gen.openflow13.Type_MultiPartReply] ++ be16 (n16 (16 + e.length)) ++ be32 (n32 xid)
      ++ (be16 (n16 t) ++ be16 (n16 f) ++ zeros 4) ++ e ++ tail) :
    parse depth data = .err :=
  mpReply_unsupported_err ver xid t f e hver hxid ht hk he hS depth data tail hd hb

example : supportedReplyTypes = [2, 0, 1, 4, 3, 5] ∧ Gen.openflow13.MultipartType_PortDesc ∉ supportedReplyTypes := ⟨rfl, by decide⟩

/-- the port-description reply of the instance: one PhyPort (port 3, "eth0") -/
def portDescReplyEx (ln : Nat) : V :=
  mpReplyV 4 ln 7 Gen.openflow13.MultipartType_PortDesc 0 (.bytes [])
    [phyPortV 3 [1, 2, 3, 4, 5, 6] ([101, 116, 104, 48] ++ zeros 12) 0 0 0 0 0 0 0 0]

/-- concrete instance: a PORT-DESCRIPTION reply (the way an OpenFlow 1.3 switch reports its ports) with one PhyPort encodes to
    80 bytes; Parse of those bytes is an error -/
theorem multipartReply_portDesc_counterexample :
    ∃ bs, MultipartReply.marshalM (portDescReplyEx 0) = .ok (bs, portDescReplyEx 80) ∧ bs.length = 80 ∧
      parse 0 (Slice.exact bs) = .err :=
  ⟨_, by rfl, by rfl, by rfl⟩

/-- FlowMod with a delete command: `MarshalBinary` ignores the instruction list altogether — whatever `is` holds (even values that
    could not be encoded), the bytes are those of the instruction-less message and the list stays in the value.  Hence a delete
    flow-mod with instructions cannot come back with them (instance: flowMod_delete_drops_instructions). -/
theorem flowMod_delete_ignores_instructions (ver ln ln' xid ck cm tid cmd it ht pr bid op og fl : Nat) (pad m : V) (is : List V) (bs : Bytes)
    (hcmd : cmd = Gen.openflow13.FC_DELETE ∨ cmd = Gen.openflow13.FC_DELETE_STRICT)
    (h : FlowMod.marshalM (flowModV ver ln xid ck cm tid cmd it ht pr bid op og fl pad m []) =
      .ok (bs, flowModV ver ln' xid ck cm tid cmd it ht pr bid op og fl pad m [])) :
    FlowMod.marshalM (flowModV ver ln xid ck cm tid cmd it ht pr bid op og fl pad m is) =
      .ok (bs, flowModV ver ln' xid ck cm tid cmd it ht pr bid op og fl pad m is) := by
  unfold FlowMod.marshalM FlowMod.lenM flowModV at *
  simp only [hcmd, if_true] at h ⊢
  cases hl : Match.lenM m with
  | ok x =>
    obtain ⟨ml, m'⟩ := x
    rw [hl] at h
    simp only [Res.bind_ok, Header.setLength, Header.bytes] at h ⊢
    cases hm : Match.marshalM m' with
    | ok y =>
      obtain ⟨mb, m''⟩ := y
      rw [hm] at h
      simp only [InstrAux.catchErr, Res.bind_ok, Bool.false_eq_true, if_false, hcmd, if_true] at h ⊢
      injection h with h
      simp only [Prod.mk.injEq, V.obj.injEq, true_and, List.cons.injEq, and_true] at h
      obtain ⟨hb, hh, hm2⟩ := h
      simp only [List.append_nil] at hb
      have hto : (8 + 40 + ml).toNat = ln' := by simpa [V.u16] using hh
      rw [hto] at hb
      simp only [List.append_nil, hh, hm2, Res.bind_ok, hb]
    | err => rw [hm] at h; simp [InstrAux.catchErr, hcmd, V.u16] at h
    | panic => rw [hm] at h; simp [InstrAux.catchErr, V.u16] at h
    | spin => rw [hm] at h; simp [InstrAux.catchErr, V.u16] at h
  | err => rw [hl] at h; cases h
  | panic => rw [hl] at h; cases h
  | spin => rw [hl] at h; cases h

/-- the flow-mod of the instance below: command DELETE, wildcard match, instruction list `is` -/
def flowModDeleteEx (ln : Nat) (is : List V) : V :=
  flowModV 4 ln 7 0 0 0 Gen.openflow13.FC_DELETE 0 0 0 4294967295 4294967295 4294967295 0 (.bytes []) Match.new is

/-- why C05.flowMod_roundtrip asks that delete commands carry no instructions: for FC_DELETE / FC_DELETE_STRICT `MarshalBinary`
    (and `Len`) leave the instructions out.  A delete flow-mod holding a goto-table instruction encodes to the 56 bytes of the
    instruction-less one, keeps the instruction in the value, and parses back WITHOUT it (the bytes re-encode identically). -/
theorem flowMod_delete_drops_instructions :
    let gt := V.obj "InstrGotoTable" [.obj "InstrHeader" [.num 1, .num 8], .num 3, .bytes []]
    ∃ bs, FlowMod.marshalM (flowModDeleteEx 0 [gt]) = .ok (bs, flowModDeleteEx 56 [gt]) ∧ bs.length = 56 ∧
      parse 0 (Slice.exact bs) = .ok (flowModDeleteEx 56 []) ∧ FlowMod.marshalM (flowModDeleteEx 56 []) = .ok (bs, flowModDeleteEx 56 []) :=
  ⟨_, by rfl, by rfl, by rfl, by rfl⟩

/-! ## §8 Hello: a bare HelloElemHeader as an element; bytes behind the message -/

/-- the Hello of the instances: version 4, xid 7, Header.Length `ln`, elements `es` -/
def helloEx (ln : Nat) (es : List V) : V := .obj "Hello" [.obj "Header" [.num 4, .num 0, .num ln, .num 7], .list es]

/-- FALSE for a Hello holding a bare `HelloElemHeader` (it implements the `HelloElem` interface; `NewHelloElemHeader` is exported)
    in front of another element: `HelloElemHeader.MarshalBinary` writes its 4 bytes WITHOUT padding, the decoder advances by the
    element's Length rounded up to 8.  [header(type 2, length 4), version-bitmap(0x12)] encodes to 20 bytes; Parse skips the
    unknown element, lands in the middle of the version bitmap, reads `00 00 00 12` as an element header of type 0 and skips it:
    the message comes back with NO elements — the version bitmap is lost.  (With the bare header LAST it is merely dropped: second
    statement; C05.hello_roundtrip covers version-bitmap elements only.) -/
theorem hello_bareHeader_element_counterexample :
    let vb := V.obj "HelloElemVersionBitmap" [.obj "HelloElemHeader" [.num 1, .num 8], .list [.num 18]]
    let bh := V.obj "HelloElemHeader" [.num 2, .num 4]
    (Hello.marshalM (helloEx 0 [bh, vb]) = .ok ([4, 0, 0, 20, 0, 0, 0, 7, 0, 2, 0, 4, 0, 1, 0, 8, 0, 0, 0, 18], helloEx 20 [bh, vb]) ∧
      parse 0 (Slice.exact [4, 0, 0, 20, 0, 0, 0, 7, 0, 2, 0, 4, 0, 1, 0, 8, 0, 0, 0, 18]) = .ok (helloEx 20 [])) ∧
    (Hello.marshalM (helloEx 0 [vb, bh]) = .ok ([4, 0, 0, 20, 0, 0, 0, 7, 0, 1, 0, 8, 0, 0, 0, 18, 0, 2, 0, 4], helloEx 20 [vb, bh]) ∧
      parse 0 (Slice.exact [4, 0, 0, 20, 0, 0, 0, 7, 0, 1, 0, 8, 0, 0, 0, 18, 0, 2, 0, 4]) = .ok (helloEx 20 [vb])) :=
  ⟨⟨by rfl, by rfl⟩, ⟨by rfl, by rfl⟩⟩

/-- Hello FOLLOWED BY OTHER BYTES (C05.hello_roundtrip is for a buffer holding exactly the message): `Hello.UnmarshalBinary` walks
    to the end of the buffer, not to Header.Length, so bytes behind the message are decoded as further elements: NewHello-like
    message (16 bytes) followed by `00 01 00 08 00 00 00 02` comes back with a second version bitmap (Header.Length still 16). -/
theorem hello_tail_counterexample :
    let vb := fun w => V.obj "HelloElemVersionBitmap" [.obj "HelloElemHeader" [.num 1, .num 8], .list [.num w]]
    let bs : Bytes := [4, 0, 0, 16, 0, 0, 0, 7, 0, 1, 0, 8, 0, 0, 0, 18]
    Hello.marshalM (helloEx 0 [vb 18]) = .ok (bs, helloEx 16 [vb 18]) ∧ parse 0 (Slice.exact bs) = .ok (helloEx 16 [vb 18]) ∧
    parse 0 (Slice.exact (bs ++ [0, 1, 0, 8, 0, 0, 0, 2])) = .ok (helloEx 16 [vb 18, vb 2]) :=
  ⟨by rfl, by rfl, by rfl⟩

end OFV.Props.C05d
