/-
  C10b — inbound stream, the CONTENT of the pooled buffers (refines C10/F2).

  Model: OFV.Model.PoolSys — util.MessageStream.inbound() / parse() / NewBufferPool with buffers that have an identity
  and a content; the reader appends what it receives to the buffer it holds, as it comes out of pool.Empty; a parser
  delivers what the buffer it received contains, then `b.Reset()` and returns it.

  Every theorem is for ALL numbers of buffers `nBuf` and parsers `nPar`, ALL capacities `cap` of pool.Full, ALL scripts
  of well-formed frames, ALL ways `chunks` of cutting the byte stream into reads (also inside the 4-byte prefix; the
  connection may end anywhere: `chunks.flatten ++ tail = script.flatten`), and EVERY reachable state `s` of EVERY
  schedule (`Reach true …`; `true` = with the Reset, the library).

  The `example`s use the run of OFV.Lemmas.PoolEx: 2 buffers, 1 parser, 3 frames, 4 reads cutting inside the prefix.
-/
import OFV.Lemmas.PoolSim
import OFV.Lemmas.PoolEx
import OFV.Props.C10
namespace OFV.Props.C10b
open OFV OFV.Model OFV.Model.PoolSys OFV.Pool
open OFV.Model.Deframer (WFFrame)

/-! ## the reader's loop body is the de-framer of C10/F1 -/

/-- `onByte` (one iteration of the reader's `for i < n` loop, acting on the pooled buffer) computes what
    Deframer.stepByte computes: same local variables, same buffer content, and "the buffer is handed over" is
    "Deframer appends the buffer to `out` and starts an empty one". -/
theorem C10b_onByte_is_stepByte (r : Regs) (p : Bytes) (c : UInt8) (out : List Bytes) :
    Deframer.stepByte ⟨r.hdr, r.h2, r.h3, r.msg, p, out⟩ c =
      (let x := onByte r p c
       if x.2.2 then ⟨x.1.hdr, x.1.h2, x.1.h3, x.1.msg, [], out ++ [x.2.1]⟩
       else ⟨x.1.hdr, x.1.h2, x.1.h3, x.1.msg, x.2.1, out⟩) := by
  unfold Deframer.stepByte onByte
  by_cases h1 : r.hdr < 4
  · simp [h1]
  · by_cases h2 : r.msg > 0
    · by_cases h3 : r.msg - 1 = 0 <;> simp [h1, h2, h3]
    · simp [h1, h2]

/-! ## the content invariant -/

/-- every buffer in pool.Empty is empty (length 0) -/
theorem C10b_empty_clean (cap nPar nBuf : Nat) (script : List Frame) (chunks : List Bytes) (tail : Bytes)
    (hwf : ∀ f ∈ script, WFFrame f) (hch : chunks.flatten ++ tail = script.flatten) (s : St)
    (h : Reach true cap nPar (initSt nBuf nPar chunks) s) : ∀ x ∈ s.empty, x.2 = [] :=
  (reach_both script tail hwf cap nPar nBuf chunks hch s h).1.emptyClean

/-- the frames handed over so far (`s.handed`) are the first frames of the script, in order and byte-identical, and the
    buffer the reader is filling holds exactly the bytes received since the last hand-over (`s.rdr.pending`): what
    the reader holds, followed by what it has not looked at yet (and by what the connection will never deliver), is
    the byte stream of the remaining frames; if a frame remains, what the reader holds is a proper prefix of it. -/
theorem C10b_reader_holds_prefix (cap nPar nBuf : Nat) (script : List Frame) (chunks : List Bytes) (tail : Bytes)
    (hwf : ∀ f ∈ script, WFFrame f) (hch : chunks.flatten ++ tail = script.flatten) (s : St)
    (h : Reach true cap nPar (initSt nBuf nPar chunks) s) :
    ∃ todo, script = s.handed ++ todo ∧ s.rdr.pending ++ s.unread ++ tail = todo.flatten ∧
      ∀ f t, todo = f :: t → ∃ q, f = s.rdr.pending ++ q ∧ q ≠ [] :=
  (reach_both script tail hwf cap nPar nBuf chunks hch s h).1.stream

/-- a buffer in pool.Full, held by a parser (before or after `m.Inbound <- msg`, until the Reset), or completed by the
    reader and about to be sent, holds exactly one complete well-formed frame of the script: one of those handed over -/
theorem C10b_full_holds_frame (cap nPar nBuf : Nat) (script : List Frame) (chunks : List Bytes) (tail : Bytes)
    (hwf : ∀ f ∈ script, WFFrame f) (hch : chunks.flatten ++ tail = script.flatten) (s : St)
    (h : Reach true cap nPar (initSt nBuf nPar chunks) s) (x : Buf)
    (hx : x ∈ s.full ∨ (∃ ps ∈ s.pars, x ∈ ps.bufs) ∨ s.rdr = .have_ x.1 x.2) :
    x.2 ∈ s.handed ∧ x.2 ∈ script ∧ WFFrame x.2 := by
  have inv := (reach_both script tail hwf cap nPar nBuf chunks hch s h).1
  have hh : x.2 ∈ s.handed := by
    rcases hx with hx | ⟨ps, hps, hx⟩ | hx
    · exact inv.full x hx
    · exact inv.pars ps hps x hx
    · obtain ⟨h0, e⟩ := inv.have_ x.1 x.2 hx
      rw [e]; simp
  obtain ⟨todo, h1, _, _⟩ := inv.stream
  have hs : x.2 ∈ script := by rw [h1]; simp [hh]
  exact ⟨hh, hs, hwf _ hs⟩

/-- the reader with its pooled buffers IS the de-framer of C10/F1, in every reachable state of every schedule: feed
    Deframer with the bytes the reader has consumed so far (`consumed` — all bytes of the script but those unread and
    those that never arrive) in one piece; what Deframer has handed over is what the reader has handed over, and
    Deframer's current buffer is the content of the pooled buffer the reader holds. -/
theorem C10b_reader_is_deframer (cap nPar nBuf : Nat) (script : List Frame) (chunks : List Bytes) (tail : Bytes)
    (hwf : ∀ f ∈ script, WFFrame f) (hch : chunks.flatten ++ tail = script.flatten) (s : St)
    (h : Reach true cap nPar (initSt nBuf nPar chunks) s) (consumed : Bytes)
    (hc : consumed ++ s.unread ++ tail = script.flatten) :
    (Deframer.feedBytes Deframer.init consumed).out = s.handed ∧
    (Deframer.feedBytes Deframer.init consumed).buf = s.rdr.pending := by
  obtain ⟨todo, h1, h2, h3⟩ := C10b_reader_holds_prefix cap nPar nBuf script chunks tail hwf hch s h
  have hwfh : ∀ f ∈ s.handed, WFFrame f := fun f hf => hwf f (by rw [h1]; simp [hf])
  have e : consumed = s.handed.flatten ++ s.rdr.pending := by
    have : consumed ++ (s.unread ++ tail) = (s.handed.flatten ++ s.rdr.pending) ++ (s.unread ++ tail) := by
      rw [← List.append_assoc, hc, h1, List.flatten_append, ← h2]; simp
    exact List.append_cancel_right this
  cases todo with
  | nil =>
    have hp : s.rdr.pending = [] := by
      simp only [List.flatten_nil, List.append_eq_nil_iff] at h2
      exact h2.1.1
    have := C10.C10_frames_exact s.handed hwfh [consumed] (by simp [e, hp])
    simpa [Deframer.feedAll, hp] using this
  | cons f t =>
    obtain ⟨q, hf, hq⟩ := h3 f t rfl
    have := C10.C10_frames s.handed hwfh s.rdr.pending q f (hwf f (by rw [h1]; simp)) hf hq [consumed] (by simp [e])
    simpa [Deframer.feedAll] using this

-- non-vacuity (of all four): a reachable state with buffer 1 in pool.Full holding f2, the reader holding buffer 0
-- with the first byte of f3, f1 delivered
example : ∃ s, Reach true 2 1 (initSt 2 1 Ex.chunks) s ∧ (∀ f ∈ Ex.script, WFFrame f) ∧
    Ex.chunks.flatten ++ [] = Ex.script.flatten ∧
    s.full = [(1, Ex.f2)] ∧ s.rdr = .cur 0 [4] ∧ s.empty = [] ∧ s.out = [Ex.f1] :=
  ⟨run true 2 1 (initSt 2 1 Ex.chunks) (List.replicate 26 .rd ++ Ex.parserRound ++ [.rd, .rd]), run_reach _ _ _ _ _,
   by decide, by decide, by decide, by decide, by decide, by decide⟩

-- … and one in which the connection ended inside the 4-byte prefix of f3 (tail ≠ [])
example : ∃ s, Reach true 2 1 (initSt 2 1 Ex.chunksCut) s ∧ Ex.chunksCut.flatten ++ Ex.cutTail = Ex.script.flatten ∧
    s.rdr = .cur 0 [4, 0, 0] ∧ s.unread = [] ∧ s.out = [Ex.f1, Ex.f2] :=
  ⟨run true 2 1 (initSt 2 1 Ex.chunksCut) Ex.sched, run_reach _ _ _ _ _, by decide, by decide, by decide, by decide⟩

/-! ## ownership -/

/-- the buffers (with their contents), whoever holds them — pool.Empty, the reader, pool.Full, the parsers — are exactly
    the `nBuf` buffers of NewBufferPool, each once: none is lost, none is in two hands; in particular a buffer has
    ONE content, and nobody writes to a buffer that somebody else reads. -/
theorem C10b_owned (cap nPar nBuf : Nat) (script : List Frame) (chunks : List Bytes) (tail : Bytes)
    (hwf : ∀ f ∈ script, WFFrame f) (hch : chunks.flatten ++ tail = script.flatten) (s : St)
    (h : Reach true cap nPar (initSt nBuf nPar chunks) s) :
    (s.bufs.map (·.1)).Perm (List.range nBuf) ∧ (s.bufs.map (·.1)).Nodup := by
  have hr := (reach_both script tail hwf cap nPar nBuf chunks hch s h).2
  have hc : ∀ b, (s.bufs.map (·.1)).count b = (List.range nBuf).count b := by
    intro b
    rw [← abs_bufs script s, (C10.C10_inv cap nPar _ _ hr (by simp [StreamSys.initSt])).2.1 b]
    unfold StreamSys.initSt StreamSys.St.bufs
    cases nBuf with
    | zero => simp [StreamSys.RSt.bufs, StreamSys.PSt.bufs]
    | succ n =>
      have e : List.range (n + 1) = 0 :: (List.range (n + 1)).tail := by
        rw [List.range_succ_eq_map]; rfl
      conv => rhs; rw [e]
      simp [StreamSys.RSt.bufs, StreamSys.PSt.bufs, List.count_append, List.count_cons]
  refine ⟨List.perm_iff_count.mpr hc, List.nodup_iff_count.mpr ?_⟩
  intro b
  rw [hc b]
  exact List.nodup_iff_count.mp List.nodup_range b

-- non-vacuity: in the state of the first example, buffer 0 (with the reader) and buffer 1 (in pool.Full)
example : ∃ s, Reach true 2 1 (initSt 2 1 Ex.chunks) s ∧ s.bufs = [(0, [4]), (1, Ex.f2)] :=
  ⟨run true 2 1 (initSt 2 1 Ex.chunks) (List.replicate 26 .rd ++ Ex.parserRound ++ [.rd, .rd]), run_reach _ _ _ _ _,
   by decide⟩

/-! ## what the consumer receives -/

/-- conservation, with contents: the frames handed over by the reader are the first frames of the script, and as a
    multiset they are exactly: what the consumer received + what is in flight (in m.Inbound, with a parser, in
    pool.Full, with the reader).  Nothing duplicated, lost, merged, split or altered on the way through the pool. -/
theorem C10b_conservation (cap nPar nBuf : Nat) (script : List Frame) (chunks : List Bytes) (tail : Bytes)
    (hwf : ∀ f ∈ script, WFFrame f) (hch : chunks.flatten ++ tail = script.flatten) (s : St)
    (h : Reach true cap nPar (initSt nBuf nPar chunks) s) :
    (∃ todo, script = s.handed ++ todo) ∧ (s.out ++ s.inFlight).Perm s.handed := by
  obtain ⟨inv, hr⟩ := reach_both script tail hwf cap nPar nBuf chunks hch s h
  obtain ⟨todo, h1, _, _⟩ := inv.stream
  refine ⟨⟨todo, h1⟩, List.perm_iff_count.mpr ?_⟩
  intro a
  have hc := (C10.C10_inv cap nPar _ _ hr (by simp [StreamSys.initSt])).1 a
  rw [C10.init_frames, abs_frames] at hc
  have hd : script.drop s.handed.length = todo := by rw [h1]; simp
  rw [hd, List.count_append] at hc
  have hs : script.count a = s.handed.count a + todo.count a := by rw [h1, List.count_append]
  omega

/-- what the consumer received is, as a multiset, part of the script: every delivered message is a complete frame of
    the script, byte-identical, and no frame is delivered more often than it was sent — in every reachable state, also
    after a failure -/
theorem C10b_delivered_sub (cap nPar nBuf : Nat) (script : List Frame) (chunks : List Bytes) (tail : Bytes)
    (hwf : ∀ f ∈ script, WFFrame f) (hch : chunks.flatten ++ tail = script.flatten) (s : St)
    (h : Reach true cap nPar (initSt nBuf nPar chunks) s) :
    (∀ a, s.out.count a ≤ script.count a) ∧ (∀ f ∈ s.out, f ∈ script ∧ WFFrame f) := by
  have hr := (reach_both script tail hwf cap nPar nBuf chunks hch s h).2
  have hc : ∀ a, s.out.count a ≤ script.count a := fun a => C10.C10_delivered_sub cap nPar nBuf script _ hr a
  refine ⟨hc, ?_⟩
  intro f hf
  have h1 : 0 < s.out.count f := List.count_pos_iff.mpr hf
  have h2 : f ∈ script := List.count_pos_iff.mp (Nat.lt_of_lt_of_le h1 (hc f))
  exact ⟨h2, hwf f h2⟩

-- non-vacuity (of both): f1 delivered, f2 in flight in pool.Full, f3 not yet handed over
example : ∃ s, Reach true 2 1 (initSt 2 1 Ex.chunks) s ∧ s.out = [Ex.f1] ∧ s.inFlight = [Ex.f2] ∧
    s.handed = [Ex.f1, Ex.f2] :=
  ⟨run true 2 1 (initSt 2 1 Ex.chunks) (List.replicate 26 .rd ++ Ex.parserRound ++ [.rd, .rd]), run_reach _ _ _ _ _,
   by decide, by decide, by decide⟩

/-- in a quiescent state of a failure-free run over a connection that delivered all bytes (nothing in flight, no byte
    unread, the reader's buffer empty) the consumer has received exactly the frames of the script, each once, each
    byte-identical: no stale byte of an earlier frame, nothing merged, nothing split.
    (As a multiset: with several parsers the order of delivery is not the order of arrival — `parse()` goroutines race
    for m.Inbound.) -/
theorem C10b_exactly_once (cap nPar nBuf : Nat) (script : List Frame) (chunks : List Bytes)
    (hwf : ∀ f ∈ script, WFFrame f) (hch : chunks.flatten = script.flatten) (s : St)
    (h : Reach true cap nPar (initSt nBuf nPar chunks) s)
    (hq : s.inFlight = [] ∧ s.unread = [] ∧ s.rdr.pending = []) : s.out.Perm script := by
  have hch' : chunks.flatten ++ [] = script.flatten := by simp [hch]
  obtain ⟨inv, _⟩ := reach_both script [] hwf cap nPar nBuf chunks hch' s h
  obtain ⟨_, hp⟩ := C10b_conservation cap nPar nBuf script chunks [] hwf hch' s h
  obtain ⟨todo, h1, h2, h3⟩ := inv.stream
  rw [hq.1, List.append_nil] at hp
  rw [hq.2.1, hq.2.2] at h2
  have ht : todo = [] := by
    cases todo with
    | nil => rfl
    | cons f t =>
      obtain ⟨q, e, hne⟩ := h3 f t rfl
      have hf0 : f = [] := by
        have h2' := h2.symm
        simp at h2'
        exact h2'.1
      rw [hq.2.2, hf0] at e
      exact absurd (by simpa using e.symm) hne
  rw [ht, List.append_nil] at h1
  rw [h1]; exact hp

-- non-vacuity: the run `Ex.sched` ends in such a quiescent state, with all three frames delivered
example : ∃ s, Reach true 2 1 (initSt 2 1 Ex.chunks) s ∧ (∀ f ∈ Ex.script, WFFrame f) ∧
    Ex.chunks.flatten = Ex.script.flatten ∧ (s.inFlight = [] ∧ s.unread = [] ∧ s.rdr.pending = []) ∧
    s.out = [Ex.f1, Ex.f2, Ex.f3] :=
  ⟨run true 2 1 (initSt 2 1 Ex.chunks) Ex.sched, run_reach _ _ _ _ _, by decide, by decide, by decide, by decide⟩

/-! ## after a read error -/

/-- the error is published at most once, exactly when the connection failed; then the reader has stopped, keeping its
    partially filled buffer, and everything delivered is a complete frame of the script -/
theorem C10b_after_error (cap nPar nBuf : Nat) (script : List Frame) (chunks : List Bytes) (tail : Bytes)
    (hwf : ∀ f ∈ script, WFFrame f) (hch : chunks.flatten ++ tail = script.flatten) (s : St)
    (h : Reach true cap nPar (initSt nBuf nPar chunks) s) :
    s.errors ≤ 1 ∧ (s.errors = 1 ↔ s.failed = true) ∧
    (s.failed = true → (∃ b p, s.rdr = .stopped b p) ∧ ∀ f ∈ s.out, f ∈ script ∧ WFFrame f) := by
  have inv := (reach_both script tail hwf cap nPar nBuf chunks hch s h).1
  have hf := inv.failed
  have he := inv.errors
  have hd := (C10b_delivered_sub cap nPar nBuf script chunks tail hwf hch s h).2
  cases hr : s.rdr <;> simp [hr, RSt.isStopped] at hf he <;> simp [hf, he] <;> exact hd

/-- once the reader has stopped it stays stopped with the same buffer and content, and nothing more is handed over:
    the bytes of the frame that was incomplete when the connection failed are never delivered; the error is not
    published again -/
theorem C10b_stopped_frozen (r : Bool) (cap nPar : Nat) (s s' : St) (b : BufId) (p : Bytes)
    (hs : s.rdr = .stopped b p) (h : Reach r cap nPar s s') :
    s'.rdr = .stopped b p ∧ s'.handed = s.handed ∧ s'.errors = s.errors := by
  induction h with
  | refl => exact ⟨hs, rfl, rfl⟩
  | step a a' _ st ih =>
    obtain ⟨i1, i2, i3⟩ := ih
    cases st <;> first | exact ⟨i1, i2, i3⟩ | simp_all

-- non-vacuity: the connection fails after the first byte of f3; f1 and f2 are delivered, the byte stays with the reader
example : ∃ s, Reach true 2 1 (initSt 2 1 Ex.chunks) s ∧ s.failed = true ∧ s.errors = 1 ∧ s.rdr = .stopped 0 [4] ∧
    s.out = [Ex.f1, Ex.f2] ∧ s.pars = [.gone] :=
  ⟨run true 2 1 (initSt 2 1 Ex.chunks) Ex.schedFail, run_reach _ _ _ _ _, by decide, by decide, by decide, by decide,
   by decide⟩

/-! ## refinement -/

/-- forgetting the contents (`St.abs`: a buffer becomes its identifier; "the frames the de-framer will still complete"
    are the frames of the script behind those handed over) maps every run of PoolSys to a run of StreamSys from its
    initial state: each transition is a transition of StreamSys or invisible (`read`, bytes that do not complete a frame
    — Lemmas.PoolSim.sim_step).  So StreamSys's "what a buffer holds when it is handed over is the frame the de-framer
    completed" is a THEOREM about the pooled buffers, and every C10/F2 theorem holds of `s.abs script`. -/
theorem C10b_refines (cap nPar nBuf : Nat) (script : List Frame) (chunks : List Bytes) (tail : Bytes)
    (hwf : ∀ f ∈ script, WFFrame f) (hch : chunks.flatten ++ tail = script.flatten) (s : St)
    (h : Reach true cap nPar (initSt nBuf nPar chunks) s) :
    StreamSys.Reach cap nPar (StreamSys.initSt nBuf nPar script) (s.abs script) :=
  (reach_both script tail hwf cap nPar nBuf chunks hch s h).2

/-- the abstraction keeps what C10 talks about: the delivered frames, the frames in m.Inbound and pool.Full with the
    buffers that carry them, the error count, the failure flag, and who holds which buffer -/
theorem C10b_abs_keeps (script : List Frame) (s : St) :
    (s.abs script).out = s.out ∧ (s.abs script).inbound = s.inbound ∧ (s.abs script).full = s.full ∧
    (s.abs script).errors = s.errors ∧ (s.abs script).failed = s.failed ∧
    (s.abs script).bufs = s.bufs.map (·.1) ∧
    (s.abs script).frames = s.out ++ s.inFlight ++ script.drop s.handed.length :=
  ⟨rfl, rfl, rfl, rfl, rfl, abs_bufs script s, abs_frames script s⟩

/-- the simulation, one transition at a time, in every reachable state -/
theorem C10b_sim_step (cap nPar nBuf : Nat) (script : List Frame) (chunks : List Bytes) (tail : Bytes)
    (hwf : ∀ f ∈ script, WFFrame f) (hch : chunks.flatten ++ tail = script.flatten) (s s' : St)
    (h : Reach true cap nPar (initSt nBuf nPar chunks) s) (st : Step true cap nPar s s') :
    s'.abs script = s.abs script ∨ StreamSys.Step cap nPar (s.abs script) (s'.abs script) :=
  sim_step script tail hwf cap nPar s s' st (reach_both script tail hwf cap nPar nBuf chunks hch s h).1

/-- the C10/F2 invariant, transferred (an instance of "the C10 theorems transfer") -/
theorem C10b_C10_inv (cap nPar nBuf : Nat) (script : List Frame) (chunks : List Bytes) (tail : Bytes)
    (hwf : ∀ f ∈ script, WFFrame f) (hch : chunks.flatten ++ tail = script.flatten) (s : St)
    (h : Reach true cap nPar (initSt nBuf nPar chunks) s) :
    (∀ a, (s.abs script).frames.count a = script.count a) ∧
    (∀ b, (s.abs script).bufs.count b = (StreamSys.initSt nBuf nPar script).bufs.count b) ∧ s.errors ≤ 1 := by
  have hr := C10b_refines cap nPar nBuf script chunks tail hwf hch s h
  have := C10.C10_inv cap nPar _ _ hr (by simp [StreamSys.initSt])
  exact ⟨fun a => (this.1 a).trans (C10.init_frames nBuf nPar script a), this.2.1, this.2.2⟩

-- non-vacuity: the abstraction of the state reached by `Ex.sched`
example : ((run true 2 1 (initSt 2 1 Ex.chunks) Ex.sched).abs Ex.script).out = Ex.script ∧
    ((run true 2 1 (initSt 2 1 Ex.chunks) Ex.sched).abs Ex.script).todo = [] := by decide

/-! ## the Reset is necessary -/

/-- NEGATIVE result, for the variant of parse() that returns the buffer to pool.Empty WITHOUT `b.Reset()`
    (`Reach false`): the very schedule that delivers f1, f2, f3 in the library delivers, as third message, f1 ++ f3 —
    buffer 0 came back from the pool still holding f1 and the reader appended f3 to it.  The delivered bytes are not a
    frame of the script (stale prefix), and a buffer in pool.Empty is not empty.  So `emptyClean`, and with it every
    theorem above, rests on the Reset. -/
theorem C10b_reset_needed :
    (∀ f ∈ Ex.script, WFFrame f) ∧ Ex.chunks.flatten = Ex.script.flatten ∧
    (run true 2 1 (initSt 2 1 Ex.chunks) Ex.sched).out = [Ex.f1, Ex.f2, Ex.f3] ∧
    ∃ s, Reach false 2 1 (initSt 2 1 Ex.chunks) s ∧
      s.out = [Ex.f1, Ex.f2, Ex.f1 ++ Ex.f3] ∧ (∃ f ∈ s.out, f ∉ Ex.script ∧ ¬ WFFrame f) ∧
      (∃ x ∈ s.empty, x.2 ≠ []) ∧ ¬ s.out.Perm Ex.script :=
  ⟨by decide, by decide, by decide,
   run false 2 1 (initSt 2 1 Ex.chunks) Ex.sched, run_reach _ _ _ _ _, by decide,
   ⟨Ex.f1 ++ Ex.f3, by decide, by decide, by decide⟩, ⟨(1, Ex.f2), by decide, by decide⟩,
   fun hp => absurd (hp.mem_iff (a := Ex.f3)) (by decide)⟩

/-- the same for the other way a non-empty buffer can get into pool.Empty — NewBufferPool creating the buffers with a
    LENGTH instead of a capacity (`bytes.NewBuffer(make([]byte, 2))` here): the reader's first buffer already holds two
    zero bytes and the first message delivered is those bytes followed by f1. -/
theorem C10b_initial_length_zero_needed :
    ∃ s, Reach true 2 1 { initSt 2 1 Ex.chunks with rdr := .cur 0 [0, 0], empty := [(1, [0, 0])] } s ∧
      s.out = [[0, 0] ++ Ex.f1] :=
  ⟨run true 2 1 { initSt 2 1 Ex.chunks with rdr := .cur 0 [0, 0], empty := [(1, [0, 0])] }
     (List.replicate 12 .rd ++ Ex.parserRound), run_reach _ _ _ _ _, by decide⟩

end OFV.Props.C10b
