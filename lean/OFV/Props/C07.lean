/-
  C07 — the OpenFlow parser is total: any bytes give a message or an error.

  Model: `OFV.Model.parse depth b` (openflow13.Parse with its deferred recover()).  Outcomes: `.ok` message,
  `.err`, `.panic`, `.spin` (a decoder loop that never ends).  `Res.Total r` = `r` is `.ok _` or `.err`.

  FINDING (proved below, and reproduced on the Go library with the harness: `parse <hex> 65544 => spin`):
  the property is FALSE for arbitrary byte strings.
    * `C07_hello_frame_spins`: every Hello frame of 65544 bytes whose first element is a version bitmap makes Parse
      loop for ever (HelloElemVersionBitmap.Len() = 4 + 4·16383 wraps to 0 in uint16, `next += int(v.Len())` stops
      advancing while `h.Elements` grows without bound).
  A second defect, reachable with a frame of the legal maximum size (65535 bytes) when the buffer has ≥ 67 bytes of
  spare capacity, was found while attempting the proof and reproduced on the Go library (`=> spin`), see the comment
  at `FlowStatsInstrLoopOK` below; it is the reason why the total-ness theorem needs a bound on the CAPACITY.

  What is proved:
    * `C07_parse_no_panic`      Parse never panics (unconditionally: recover()).
    * per decoder `…_no_spin`    every decoder loop reachable from Parse advances its cursor on every successful
                                 iteration and has enough fuel: hello elements, version bitmaps, match fields, action
                                 lists, nested conntrack actions, learn specs, instructions of a FlowMod,
                                 SwitchFeatures ports, TLV table maps, bundle properties, multipart records.
    * `C07_parse_total_partial`  for every nesting depth and every well-formed slice whose capacity is at most 65535:
                                 Parse returns a message or an error — ASSUMING
                                   hEth : the Ethernet decoder (payload of PacketIn; protocol decoders are the subject
                                          of C08, on which this file does not depend) never spins, and
                                   hFS  : `FlowStatsInstrLoopOK`, the instruction loop of a FlowStats record in a
                                          multipart reply terminates when the capacity is at most 65519.
  Not assumed anywhere: validity of length fields, of types, of nesting.
-/
import OFV.Model.All
import OFV.Lemmas.ParseMsg
namespace OFV.Props.C07
open OFV OFV.Go OFV.Model

/-- Parse never panics: the deferred recover() turns every panic of every decoder into an error. -/
theorem C07_parse_no_panic (depth : Nat) (b : Slice) : parse depth b ≠ .panic := parse_no_panic depth b

/-- Partial total-ness of Parse: a message or an error for every frame in a buffer of at most 65535 bytes, given that
    the Ethernet decoder and the FlowStats instruction loop terminate (the two facts not established here).
    Full statement aimed at (false, see `C07_hello_frame_spins`): `∀ depth b, b.WF → Res.Total (parse depth b)`. -/
theorem C07_parse_total_partial
    (hEth : ∀ recv d, PEthernet.unmarshal recv d ≠ .spin) (hFS : FlowStatsInstrLoopOK)
    (depth : Nat) (b : Slice) (hwf : b.WF) (hcap : b.cap ≤ 65535) : Res.Total (parse depth b) := by
  have hsmall : SmallFrame b := ⟨by unfold Slice.WF at hwf; unfold Slice.cap at hcap; omega, hcap⟩
  have hns := (parse_ns (fun r d => NS.of_ne (hEth r d)) hFS depth b hsmall).1
  have hnp := C07_parse_no_panic depth b
  cases h : parse depth b with
  | ok v => exact Or.inl ⟨v, rfl⟩
  | err => exact Or.inr rfl
  | panic => exact absurd h hnp
  | spin => exact absurd h hns

/-- the hypotheses of `C07_parse_total_partial` on the frame are satisfiable -/
example : (Slice.exact [4, 0, 0, 8, 0, 0, 0, 1]).WF ∧ (Slice.exact [4, 0, 0, 8, 0, 0, 0, 1]).cap ≤ 65535 := by
  exact ⟨Slice.exact_wf _, by decide⟩

/-- COUNTEREXAMPLE (genuine defect).  Parse loops for ever on every 65544-byte Hello frame
    `ver 00 l1 l2 xid(4) | 00 01 e1 e2 | 65532 more bytes`: the version-bitmap element swallows the remaining 65536
    bytes as 16383 bitmaps, its `Len()` wraps to 0 and `Hello.UnmarshalBinary` stops advancing. -/
theorem C07_hello_frame_spins (ver l1 l2 x1 x2 x3 x4 e1 e2 : UInt8) (payload : Bytes) (hp : payload.length = 65532)
    (depth : Nat) :
    parse depth (Slice.exact ([ver, 0, l1, l2, x1, x2, x3, x4, 0, 1, e1, e2] ++ payload)) = .spin :=
  Hello_spin ver l1 l2 x1 x2 x3 x4 e1 e2 payload hp depth

/-- … for instance the all-zero payload; so `∀ b, b.WF → Res.Total (parse depth b)` is false -/
theorem C07_parse_not_total : ¬ ∀ (depth : Nat) (b : Slice), b.WF → Res.Total (parse depth b) := by
  intro h
  have hs := C07_hello_frame_spins 4 0 8 0 0 0 0 0 8 (List.replicate 65532 0) List.length_replicate 0
  rcases h 0 _ (Slice.exact_wf _) with ⟨v, hv⟩ | he
  · rw [hs] at hv; cases hv
  · rw [hs] at he; cases he

end OFV.Props.C07
