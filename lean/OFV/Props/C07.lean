/-
  C07 — the OpenFlow parser is total: any bytes give a message or an error.

  Model: `OFV.Model.parse depth b` (openflow13.Parse with its deferred recover()).  Outcomes: `.ok` message, `.err`,
  `.panic`, `.spin` (a decoder loop that never ends).  `Res.Total r` = `r` is `.ok _` or `.err`.

  RESULT: `C07_parse_total : ∀ depth b, b.WF → Res.Total (parse depth b)` — for every nesting depth and every
  well-formed slice (len ≤ cap), whatever its contents, length fields, nesting, length or capacity, Parse returns a
  message or an error: no panic, no endless loop.  Every loop of the model carries a fuel proportional to the input
  length and the proof shows the fuel is never exhausted, so the iterations of each loop are bounded by the length of
  its input.

  HISTORY — the property was false when this work started; two defects were found by the failed proof attempts:
    1. Hello frames longer than 65535 bytes: a version-bitmap element with 16383 bitmaps had Len() = 4 + 4·16383 = 0
       (uint16) and the element loop stopped advancing.  Proved in Lean as a counterexample (`parse … = .spin`),
       reproduced on the Go library; gone with library fix b558ac9 (hello elements are decoded within their declared
       length).
    2. A multipart FlowStats reply of the LEGAL maximum size, 65535 bytes, in a buffer with ≥ 67 bytes of spare
       capacity (the stream's pooled bytes.Buffers have spare capacity, so a switch could deliver it): an apply-actions
       instruction holding an NX note of 65232 bytes and an NX learn action whose spec reads `data[2:258]` through the
       capacity had InstrActions.Len() = 8 + 65232 + 296 = 0 (uint16), and `n += int(instr.Len())` in
       FlowStats.UnmarshalBinary, the one instruction loop without a zero-length guard, stopped advancing.  Proved in
       Lean as a counterexample (`C07_flowstats_frame_spins`, removed), reproduced on the Go library
       (`parse <frame + 67 spare bytes> 65535 => spin`); fixed by library commit 48a6ffe (the loop refuses an
       instruction of size 0); the witness is kept as corpus/OF/F83_flowstats_spin.txt.
  With both fixed, no bound on length or capacity is needed any more (`FlowStats_decodeInstrs_no_spin` now rests on
  the stability of `Len()` for decoded instructions instead of a capacity bound).

    3. Outside the reach of Parse: the exported decoder BundleAdd.UnmarshalBinary, called directly on a 65545-byte
       input (an 8-byte echo request as embedded message, then one property with Length 65529), looped for ever:
       BundlePropertyExperimenter.Len() = (12 + 65517 + 7) / 8 * 8 = 0 (uint16).  Found when trying to remove the
       bound `d.len ≤ 65528` from `BundleAdd_unmarshalWith_no_spin`; proved in Lean as a counterexample
       (`BundleAdd_unmarshal_spins`, removed), reproduced on the Go library (`dec BundleAdd <hex> 65545 => spin`);
       fixed by library commit f8f0b2c (the property loop refuses a property of size 0).  The bound is gone.

  What is proved (no assumption on length fields, types or nesting):
    * `C07_parse_no_panic`       Parse never panics, unconditionally (recover()).
    * `…_no_spin`                every decoder loop reachable from Parse advances its cursor on every successful
                                 iteration and has enough fuel: hello elements, version bitmaps, match fields, action
                                 lists, nested conntrack actions, learn specs, instructions (FlowMod, FlowStats),
                                 SwitchFeatures ports, TLV table maps, bundle properties, multipart records,
                                 nested Parse (BundleAdd).
    * `C07_parse_total_partial`  Parse is total on every well-formed slice ASSUMING only
                                   hEth : the Ethernet decoder (payload of PacketIn) never spins on a well-formed slice
                                 (this statement does not depend on C08).
    * `C07_parse_total`          the same with hEth discharged by `C08_Ethernet_total` (OFV.Props.C08): the only
                                 hypothesis is `b.WF`.
-/
import OFV.Model.All
import OFV.Lemmas.ParseFlowStats
import OFV.Props.C08
namespace OFV.Props.C07
open OFV OFV.Go OFV.Model

/-! ### no panic -/

/-- Parse never panics: the deferred recover() turns every panic of every decoder into an error. -/
theorem C07_parse_no_panic (depth : Nat) (b : Slice) : parse depth b ≠ .panic := parse_no_panic depth b

/-! ### decoder by decoder: no endless loop -/

/-- Header: straight-line code. -/
theorem Header_unmarshal_no_spin (recv : V) (d : Slice) : Header.unmarshal recv d ≠ .spin :=
  (Header_unmarshal_ns recv d).1

/-- The bitmap loop of a version-bitmap hello element advances by 4 bytes per bitmap. -/
theorem HelloElemVersionBitmap_unmarshal_no_spin (recv : V) (d : Slice) : HelloElemVersionBitmap.unmarshal recv d ≠ .spin :=
  (HelloElemVersionBitmap_unmarshal_ns recv d).1

/-- The element loop of Hello terminates on every input: an element advances the cursor by its declared length (at
    least 4) rounded up to a multiple of 8. -/
theorem Hello_unmarshal_no_spin (recv : V) (d : Slice) : Hello.unmarshal recv d ≠ .spin :=
  (Hello_unmarshal_ns recv d).1

/-- The field loop of Match terminates: every decoded field reports between 4 and 518 bytes. -/
theorem Match_unmarshal_no_spin (recv : V) (d : Slice) : Match.unmarshal recv d ≠ .spin :=
  (Match_unmarshal_ns recv d).1

/-- DecodeAction at every nesting depth: the leaf kinds are straight-line code, the learn-spec loop advances by at
    least 2 bytes, the nested-action loop of a conntrack action refuses an action of size 0. -/
theorem DecodeAction_no_spin (depth : Nat) (d : Slice) : DecodeAction depth d ≠ .spin := (DecodeAction_ns depth d).1

/-- The action-list loop (InstrActions, Bucket) leaves on a decode error or an action of size 0. -/
theorem decodeActions_no_spin (d : Slice) (limit n0 : Nat) (xs0 : List V) : InstrAux.decodeActions d limit n0 xs0 ≠ .spin :=
  (decodeActions_ns d limit n0 xs0).1

/-- DecodeInstr: all four instruction kinds. -/
theorem DecodeInstr_no_spin (d : Slice) : DecodeInstr d ≠ .spin := (DecodeInstr_ns d).1

/-- The instruction loop of FlowMod refuses an instruction of size 0. -/
theorem FlowMod_unmarshal_no_spin (recv : V) (d : Slice) : FlowMod.unmarshal recv d ≠ .spin := (FlowMod_unmarshal_ns recv d).1

theorem FlowRemoved_unmarshal_no_spin (recv : V) (d : Slice) : FlowRemoved.unmarshal recv d ≠ .spin :=
  (FlowRemoved_unmarshal_ns recv d).1

/-- The ports loop of SwitchFeatures advances by 64 bytes per port. -/
theorem SwitchFeatures_unmarshal_no_spin (recv : V) (d : Slice) : SwitchFeatures.unmarshal recv d ≠ .spin :=
  (SwitchFeatures_unmarshal_ns recv d).1

/-- The TLV-map loops (TLVTableMod, TLVTableReply) advance by 8 bytes per entry. -/
theorem TLVTableMod_unmarshal_no_spin (recv : V) (d : Slice) : TLVTableMod.unmarshal recv d ≠ .spin :=
  (TLVTableMod_unmarshal_ns recv d).1
theorem TLVTableReply_unmarshal_no_spin (recv : V) (d : Slice) : TLVTableReply.unmarshal recv d ≠ .spin :=
  (TLVTableReply_unmarshal_ns recv d).1

/-- BundleAdd: the property loop refuses a property of size 0, so it advances on every iteration; no bound on the data,
    given that the nested Parse does not spin. -/
theorem BundleAdd_unmarshalWith_no_spin (parseF : Slice → R V) (childLen : MsgLenF)
    (hparse : ∀ d : Slice, d.WF → parseF d ≠ .spin) (recv : V) (d : Slice) :
    BundleAdd.unmarshalWith parseF childLen recv d ≠ .spin :=
  (BundleAdd_unmarshalWith_ns parseF childLen (fun x h1 => NS.of_ne (hparse x h1)) recv d).1

/-- The instruction loop of a FlowStats record terminates on every well-formed slice: it refuses an instruction of
    size 0 and advances by a second `Len()` call, which returns the same non-zero size because `Len()` of every
    decoded instruction is stable (for InstrActions: of every decoded action, at every nesting depth of conntrack
    actions).  No bound on length or capacity. -/
theorem FlowStats_decodeInstrs_no_spin (d : Slice) (limit n0 : Nat) (is0 : List V) (hwf : d.WF) :
    FlowStats.decodeInstrs d limit n0 is0 ≠ .spin :=
  (decodeInstrs_ns d limit n0 is0 hwf).1

/-- MultipartReply (decoded into `new(MultipartReply)` as Parse does): the record loop refuses a record of size 0 and
    runs below the 16-bit header length. -/
theorem MultipartReply_unmarshal_no_spin (d : Slice) (hwf : d.WF) :
    MultipartReply.unmarshalWith anyLenM MultipartReply.zero d ≠ .spin :=
  (MultipartReply_unmarshalWith_ns flowStatsInstrLoopOK d hwf).1

/-- PacketIn, given that the Ethernet decoder does not spin. -/
theorem PacketIn_unmarshal_no_spin (hEth : ∀ recv (d : Slice), d.WF → PEthernet.unmarshal recv d ≠ .spin)
    (recv : V) (d : Slice) (hwf : d.WF) : PacketIn.unmarshal recv d ≠ .spin :=
  (PacketIn_unmarshal_ns (fun r x h => NS.of_ne (hEth r x h)) recv d hwf).1

/-! ### Parse -/

/-- Parse does not loop for ever on a well-formed slice. -/
theorem C07_parse_no_spin (hEth : ∀ recv (d : Slice), d.WF → PEthernet.unmarshal recv d ≠ .spin)
    (depth : Nat) (b : Slice) (hwf : b.WF) : parse depth b ≠ .spin :=
  (parse_ns' (fun r d h => NS.of_ne (hEth r d h)) depth b hwf).1

/-- Total-ness of Parse: a message or an error for every well-formed slice and every nesting depth, given only that the
    Ethernet decoder terminates (hEth).  This statement does not depend on C08; hEth is discharged in `C07_parse_total`. -/
theorem C07_parse_total_partial (hEth : ∀ recv (d : Slice), d.WF → PEthernet.unmarshal recv d ≠ .spin)
    (depth : Nat) (b : Slice) (hwf : b.WF) : Res.Total (parse depth b) := by
  have hns := C07_parse_no_spin hEth depth b hwf
  have hnp := C07_parse_no_panic depth b
  cases h : parse depth b with
  | ok v => exact Or.inl ⟨v, rfl⟩
  | err => exact Or.inr rfl
  | panic => exact absurd h hnp
  | spin => exact absurd h hns

/-- the Ethernet decoder terminates: from `C08_Ethernet_total` -/
theorem Ethernet_unmarshal_no_spin (recv : V) (d : Slice) (hwf : d.WF) : PEthernet.unmarshal recv d ≠ .spin := by
  rcases OFV.Props.C08.C08_Ethernet_total recv d hwf with ⟨v, hv⟩ | he
  · rw [hv]; simp
  · rw [he]; simp

/-- TOTAL-NESS OF PARSE.  For every nesting depth and every well-formed slice (len ≤ cap) — whatever its contents, its
    length fields, its nesting, its length, its capacity — `Parse` returns a message or an error: no panic, no endless
    loop. -/
theorem C07_parse_total (depth : Nat) (b : Slice) (hwf : b.WF) : Res.Total (parse depth b) :=
  C07_parse_total_partial Ethernet_unmarshal_no_spin depth b hwf

/-- the hypothesis is satisfiable: any byte string in an exact buffer, e.g. an 8-byte echo request -/
example : (Slice.exact [4, 2, 0, 8, 0, 0, 0, 1]).WF := Slice.exact_wf _

end OFV.Props.C07
