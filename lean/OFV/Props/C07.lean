/-
  C07 — the OpenFlow parser is total: any bytes give a message or an error.

  Model: `OFV.Model.parse depth b` (openflow13.Parse with its deferred recover()).  Outcomes: `.ok` message, `.err`,
  `.panic`, `.spin` (a decoder loop that never ends).  `Res.Total r` = `r` is `.ok _` or `.err`.

  FINDING — the property as stated ("given any byte string whatsoever … never wedges a parser goroutine") is FALSE:
    `C07_flowstats_frame_spins` (proved here; reproduced on the Go library with the harness:
    `parse <65535-byte frame + 67 spare bytes> 65535 => spin`, with 66 spare bytes `=> err`).
    A multipart FlowStats reply of the LEGAL maximum size, 65535 bytes, whose buffer has at least 67 bytes of spare
    capacity makes Parse loop for ever (and allocate without bound): an apply-actions instruction whose two actions —
    an NX note of 65232 bytes and an NX learn action whose last spec reads its 256 value bytes `data[2:258]` through
    the capacity — have sizes adding up to 65528; InstrActions.Len() = 8 + 65528 wraps to 0 in uint16, and
    `n += int(instr.Len())` in FlowStats.UnmarshalBinary — the one instruction loop without a zero-length guard —
    stops advancing.  The message stream hands Parse the contents of pooled, growing bytes.Buffers, whose capacity
    exceeds their length, so the frame is deliverable by a switch.  This is why the theorem below bounds the CAPACITY.
    (An earlier finding of this work, Hello frames longer than 65535 bytes looping in the element loop, disappeared
    with library fix b558ac9 "hello elements are decoded within their declared length"; Hello is now proved total for
    every input, `Hello_unmarshal_no_spin`.)

  What is proved (no assumption on length fields, types or nesting):
    * `C07_parse_no_panic`       Parse never panics, unconditionally (recover()).
    * `…_no_spin`                every decoder loop reachable from Parse advances its cursor on every successful
                                 iteration and has enough fuel: hello elements, version bitmaps, match fields, action
                                 lists, nested conntrack actions, learn specs, instructions (FlowMod, FlowStats),
                                 SwitchFeatures ports, TLV table maps, bundle properties, multipart records,
                                 nested Parse (BundleAdd).
    * `C07_parse_total_partial`  for every nesting depth and every well-formed slice of a buffer of at most 65535
                                 bytes, Parse returns a message or an error — ASSUMING only
                                   hEth : the Ethernet decoder (payload of PacketIn) never spins on a well-formed slice.
    * `C07_parse_total`          the same with hEth discharged by `C08_Ethernet_total` (OFV.Props.C08): no hypothesis
                                 other than `b.WF` and `b.cap ≤ 65535`.
    * `C07_parse_not_total`      the unrestricted statement `∀ depth b, b.WF → Res.Total (parse depth b)` is false.
  The bound on the capacity is sharp up to 67 bytes: total at capacity ≤ 65535, a spinning frame at capacity 65602.
-/
import OFV.Model.All
import OFV.Lemmas.ParseFlowStats
import OFV.Lemmas.ParseSpin
import OFV.Props.C08
namespace OFV.Props.C07
open OFV OFV.Go OFV.Model

/-! ### no panic -/

/-- Parse never panics: the deferred recover() turns every panic of every decoder into an error. -/
theorem C07_parse_no_panic (depth : Nat) (b : Slice) : parse depth b ≠ .panic := parse_no_panic depth b

/-! ### decoder by decoder: no endless loop -/

/-- Header: straight-line code. -/
theorem Header_unmarshal_no_spin (recv : V) (d : Slice) : Header.unmarshal recv d ≠ .spin :=
  (Header_unmarshal_ns recv d).1

/-- The bitmap loop of a version-bitmap hello element advances by 4 bytes per bitmap. -/
theorem HelloElemVersionBitmap_unmarshal_no_spin (recv : V) (d : Slice) : HelloElemVersionBitmap.unmarshal recv d ≠ .spin :=
  (HelloElemVersionBitmap_unmarshal_ns recv d).1

/-- The element loop of Hello terminates on every input: an element advances the cursor by its declared length (at
    least 4) rounded up to a multiple of 8. -/
theorem Hello_unmarshal_no_spin (recv : V) (d : Slice) : Hello.unmarshal recv d ≠ .spin :=
  (Hello_unmarshal_ns recv d).1

/-- The field loop of Match terminates: every decoded field reports between 4 and 518 bytes. -/
theorem Match_unmarshal_no_spin (recv : V) (d : Slice) : Match.unmarshal recv d ≠ .spin :=
  (Match_unmarshal_ns recv d).1

/-- DecodeAction at every nesting depth: the leaf kinds are straight-line code, the learn-spec loop advances by at
    least 2 bytes, the nested-action loop of a conntrack action refuses an action of size 0. -/
theorem DecodeAction_no_spin (depth : Nat) (d : Slice) : DecodeAction depth d ≠ .spin := (DecodeAction_ns depth d).1

/-- The action-list loop (InstrActions, Bucket) leaves on a decode error or an action of size 0. -/
theorem decodeActions_no_spin (d : Slice) (limit n0 : Nat) (xs0 : List V) : InstrAux.decodeActions d limit n0 xs0 ≠ .spin :=
  (decodeActions_ns d limit n0 xs0).1

/-- DecodeInstr: all four instruction kinds. -/
theorem DecodeInstr_no_spin (d : Slice) : DecodeInstr d ≠ .spin := (DecodeInstr_ns d).1

/-- The instruction loop of FlowMod refuses an instruction of size 0. -/
theorem FlowMod_unmarshal_no_spin (recv : V) (d : Slice) : FlowMod.unmarshal recv d ≠ .spin := (FlowMod_unmarshal_ns recv d).1

theorem FlowRemoved_unmarshal_no_spin (recv : V) (d : Slice) : FlowRemoved.unmarshal recv d ≠ .spin :=
  (FlowRemoved_unmarshal_ns recv d).1

/-- The ports loop of SwitchFeatures advances by 64 bytes per port. -/
theorem SwitchFeatures_unmarshal_no_spin (recv : V) (d : Slice) : SwitchFeatures.unmarshal recv d ≠ .spin :=
  (SwitchFeatures_unmarshal_ns recv d).1

/-- The TLV-map loops (TLVTableMod, TLVTableReply) advance by 8 bytes per entry. -/
theorem TLVTableMod_unmarshal_no_spin (recv : V) (d : Slice) : TLVTableMod.unmarshal recv d ≠ .spin :=
  (TLVTableMod_unmarshal_ns recv d).1
theorem TLVTableReply_unmarshal_no_spin (recv : V) (d : Slice) : TLVTableReply.unmarshal recv d ≠ .spin :=
  (TLVTableReply_unmarshal_ns recv d).1

/-- BundleAdd: the property loop advances by at least 8 bytes per property when the data is at most 65528 bytes long
    (it always is: the payload of an experimenter message is `data[16:Header.Length]`), given that the nested Parse
    does not spin. -/
theorem BundleAdd_unmarshalWith_no_spin (parseF : Slice → R V) (childLen : MsgLenF)
    (hparse : ∀ d : Slice, d.WF → d.buf.length ≤ 65535 → parseF d ≠ .spin)
    (recv : V) (d : Slice) (hlen : d.len ≤ 65528) (hcap : d.buf.length ≤ 65535) :
    BundleAdd.unmarshalWith parseF childLen recv d ≠ .spin :=
  (BundleAdd_unmarshalWith_ns parseF childLen (fun x h1 h2 => NS.of_ne (hparse x h1 h2)) recv d hlen hcap).1

/-- The instruction loop of a FlowStats record — the only loop of the parser that advances by an unchecked `Len()` —
    terminates when the record lies in a buffer of at most 65519 bytes (= 65535 − the 16 bytes of the multipart
    header) and the instructions start at offset 48 or later: every decoded action then has a stable `Len()` of at
    most capacity + 48, the cursor of an InstrActions stays below 65536, and `InstrActions.Len()` cannot wrap to 0. -/
theorem FlowStats_decodeInstrs_no_spin (d : Slice) (limit n0 : Nat) (is0 : List V) (hwf : d.WF)
    (hcap : d.buf.length ≤ 65519) (hn0 : 48 ≤ n0) : FlowStats.decodeInstrs d limit n0 is0 ≠ .spin :=
  (decodeInstrs_ns d limit n0 is0 hwf hcap hn0).1

/-- MultipartReply (decoded into `new(MultipartReply)` as Parse does): the record loop refuses a record of size 0 and
    runs below the 16-bit header length. -/
theorem MultipartReply_unmarshal_no_spin (d : Slice) (hwf : d.WF) (hcap : d.buf.length ≤ 65535) :
    MultipartReply.unmarshalWith anyLenM MultipartReply.zero d ≠ .spin :=
  (MultipartReply_unmarshalWith_ns flowStatsInstrLoopOK d hwf hcap).1

/-- PacketIn, given that the Ethernet decoder does not spin. -/
theorem PacketIn_unmarshal_no_spin (hEth : ∀ recv (d : Slice), d.WF → PEthernet.unmarshal recv d ≠ .spin)
    (recv : V) (d : Slice) (hwf : d.WF) : PacketIn.unmarshal recv d ≠ .spin :=
  (PacketIn_unmarshal_ns (fun r x h => NS.of_ne (hEth r x h)) recv d hwf).1

/-! ### Parse -/

/-- Parse does not loop for ever on a well-formed frame in a buffer of at most 65535 bytes. -/
theorem C07_parse_no_spin (hEth : ∀ recv (d : Slice), d.WF → PEthernet.unmarshal recv d ≠ .spin)
    (depth : Nat) (b : Slice) (hwf : b.WF) (hcap : b.cap ≤ 65535) : parse depth b ≠ .spin :=
  (parse_ns' (fun r d h => NS.of_ne (hEth r d h)) depth b ⟨hwf, hcap⟩).1

/-- Total-ness of Parse: a message or an error for every well-formed slice of a buffer of at most 65535 bytes and every
    nesting depth, given only that the Ethernet decoder terminates (hEth).  This statement does not depend on C08.
    Full statement aimed at — false, see `C07_parse_not_total`: `∀ depth b, b.WF → Res.Total (parse depth b)`.
    Remaining hypotheses: hEth (discharged in `C07_parse_total`), and the capacity bound (necessary: see the finding). -/
theorem C07_parse_total_partial (hEth : ∀ recv (d : Slice), d.WF → PEthernet.unmarshal recv d ≠ .spin)
    (depth : Nat) (b : Slice) (hwf : b.WF) (hcap : b.cap ≤ 65535) : Res.Total (parse depth b) := by
  have hns := C07_parse_no_spin hEth depth b hwf hcap
  have hnp := C07_parse_no_panic depth b
  cases h : parse depth b with
  | ok v => exact Or.inl ⟨v, rfl⟩
  | err => exact Or.inr rfl
  | panic => exact absurd h hnp
  | spin => exact absurd h hns

/-- the Ethernet decoder terminates: from `C08_Ethernet_total` -/
theorem Ethernet_unmarshal_no_spin (recv : V) (d : Slice) (hwf : d.WF) : PEthernet.unmarshal recv d ≠ .spin := by
  rcases OFV.Props.C08.C08_Ethernet_total recv d hwf with ⟨v, hv⟩ | he
  · rw [hv]; simp
  · rw [he]; simp

/-- TOTAL-NESS OF PARSE.  For every nesting depth and every well-formed slice (len ≤ cap) of a buffer of at most 65535
    bytes — whatever its contents, its length fields, its nesting — `Parse` returns a message or an error: no panic, no
    endless loop.  (Every loop of the model carries a fuel proportional to the input length and the proof shows the
    fuel is never exhausted; so the number of iterations of each loop is bounded by the length of its input.) -/
theorem C07_parse_total (depth : Nat) (b : Slice) (hwf : b.WF) (hcap : b.cap ≤ 65535) : Res.Total (parse depth b) :=
  C07_parse_total_partial Ethernet_unmarshal_no_spin depth b hwf hcap

/-- the hypotheses on the frame are satisfiable: an 8-byte echo request in an exact buffer -/
example : (Slice.exact [4, 2, 0, 8, 0, 0, 0, 1]).WF ∧ (Slice.exact [4, 2, 0, 8, 0, 0, 0, 1]).cap ≤ 65535 :=
  ⟨Slice.exact_wf _, by decide⟩

/-! ### the property is false without the bound on the capacity -/

/-- COUNTEREXAMPLE (genuine defect).  Parse loops for ever on the 65535-byte multipart FlowStats reply `frame2 nb tail`
    (see OFV.Lemmas.ParseSpin for the layout; `nb` = the 65222 bytes of the note, arbitrary; `tail` = what follows the
    learn action: 189 more bytes of the frame and at least 67 bytes of spare capacity, arbitrary). -/
theorem C07_flowstats_frame_spins (nb tail : Bytes) (hnb : nb.length = 65222) (ht : 256 ≤ tail.length) (depth : Nat) :
    parse depth ⟨frame2 nb tail, 65535⟩ = .spin :=
  FlowStats_spin nb tail hnb ht depth

/-- the spinning frame is a well-formed slice: 65535 bytes of a buffer of 65346 + |tail| ≥ 65602 bytes -/
theorem C07_flowstats_frame_wf (nb tail : Bytes) (hnb : nb.length = 65222) (ht : 256 ≤ tail.length) :
    (⟨frame2 nb tail, 65535⟩ : Slice).WF := by
  unfold Slice.WF
  simp [frame2, P80, NOTE10, LEARN34, hnb]
  omega

/-- … for instance with an all-zero note and tail: `∀ depth b, b.WF → Res.Total (parse depth b)` is false. -/
theorem C07_parse_not_total : ¬ ∀ (depth : Nat) (b : Slice), b.WF → Res.Total (parse depth b) := by
  intro h
  have hn : (List.replicate 65222 (0 : UInt8)).length = 65222 := List.length_replicate
  have ht : 256 ≤ (List.replicate 256 (0 : UInt8)).length := by rw [List.length_replicate]; exact Nat.le_refl _
  have hs := C07_flowstats_frame_spins _ _ hn ht 0
  rcases h 0 _ (C07_flowstats_frame_wf _ _ hn ht) with ⟨v, hv⟩ | he
  · rw [hs] at hv; cases hv
  · rw [hs] at he; cases he

end OFV.Props.C07
