/-
  C07 — the OpenFlow parser is total: any bytes give a message or an error.

  Model: `OFV.Model.parse depth b` (openflow13.Parse with its deferred recover()).  Outcomes: `.ok` message, `.err`,
  `.panic`, `.spin` (a decoder loop that never ends).  `Res.Total r` = `r` is `.ok _` or `.err`.

  FINDINGS — the property as stated ("given any byte string whatsoever") is FALSE:
    1. `C07_hello_frame_spins` (proved here; reproduced on the Go library: `parse <hex> 65544 => spin`).
       Every Hello frame of 65544 bytes whose first element is a version bitmap makes Parse loop for ever:
       HelloElemVersionBitmap.Len() = 4 + 4·16383 wraps to 0 in uint16, `next += int(v.Len())` in
       Hello.UnmarshalBinary stops advancing while `h.Elements` grows without bound.
    2. (found while proving `FlowStats_decodeInstrs_no_spin`; reproduced on the Go library, not formalised here)
       a multipart FlowStats reply of the LEGAL maximum size, 65535 bytes, whose buffer has ≥ 67 bytes of spare capacity
       (the stream's pooled bytes.Buffer always has spare capacity) makes Parse loop for ever: an apply-actions
       instruction with 4077 output actions and one learn action whose last spec is read through the capacity
       (`data[2:2+k]`) has actions of total size 65528, InstrActions.Len() = 8 + 65528 wraps to 0, and
       `n += int(instr.Len())` in FlowStats.UnmarshalBinary — the one instruction loop without a zero-length guard —
       stops advancing.  Replay: harness case `parse <65535-byte frame + 80 spare bytes> 65535 => spin`
       (with exact capacity: `=> err`).  This is why the theorem below bounds the CAPACITY, not the length.

  What is proved (no assumption on length fields, types or nesting):
    * `C07_parse_no_panic`       Parse never panics, unconditionally (recover()).
    * `…_no_spin`                every decoder loop reachable from Parse advances its cursor on every successful
                                 iteration and has enough fuel: hello elements, version bitmaps, match fields, action
                                 lists, nested conntrack actions, learn specs, instructions (FlowMod, FlowStats),
                                 SwitchFeatures ports, TLV table maps, bundle properties, multipart records,
                                 nested Parse (BundleAdd).
    * `C07_parse_total_partial`  for every nesting depth and every well-formed slice of a buffer of at most 65535
                                 bytes, Parse returns a message or an error — ASSUMING only
                                   hEth : the Ethernet decoder (payload of PacketIn) never spins on a well-formed slice.
                                 (Protocol decoders are the subject of C08, on which this file must not depend;
                                 `C08_Ethernet_total` implies hEth.)
    * `C07_parse_not_total`      the unrestricted statement `∀ depth b, b.WF → Res.Total (parse depth b)` is false.
  The bound 65535 on the capacity is sharp up to the 67 bytes of finding 2; frames longer than 65535 bytes cannot be
  produced by the message stream (16-bit header length) but can be handed to the exported `Parse`.
-/
import OFV.Model.All
import OFV.Lemmas.ParseFlowStats
import OFV.Lemmas.ParseSpin
namespace OFV.Props.C07
open OFV OFV.Go OFV.Model

/-! ### no panic -/

/-- Parse never panics: the deferred recover() turns every panic of every decoder into an error. -/
theorem C07_parse_no_panic (depth : Nat) (b : Slice) : parse depth b ≠ .panic := parse_no_panic depth b

/-! ### decoder by decoder: no endless loop -/

/-- Header: straight-line code. -/
theorem Header_unmarshal_no_spin (recv : V) (d : Slice) : Header.unmarshal recv d ≠ .spin :=
  (Header_unmarshal_ns recv d).1

/-- The bitmap loop of a version-bitmap hello element advances by 4 bytes per bitmap. -/
theorem HelloElemVersionBitmap_unmarshal_no_spin (recv : V) (d : Slice) : HelloElemVersionBitmap.unmarshal recv d ≠ .spin :=
  (HelloElemVersionBitmap_unmarshal_post recv d).1

/-- The element loop of Hello terminates on every frame of at most 65535 bytes (it does not on longer ones, see
    `C07_hello_frame_spins`). -/
theorem Hello_unmarshal_no_spin (recv : V) (d : Slice) (h : d.len ≤ 65535) : Hello.unmarshal recv d ≠ .spin :=
  (Hello_unmarshal_ns recv d h).1

/-- The field loop of Match terminates: every decoded field reports between 4 and 518 bytes. -/
theorem Match_unmarshal_no_spin (recv : V) (d : Slice) : Match.unmarshal recv d ≠ .spin :=
  (Match_unmarshal_ns recv d).1

/-- DecodeAction at every nesting depth: the leaf kinds are straight-line code, the learn-spec loop advances by at
    least 2 bytes, the nested-action loop of a conntrack action refuses an action of size 0. -/
theorem DecodeAction_no_spin (depth : Nat) (d : Slice) : DecodeAction depth d ≠ .spin := (DecodeAction_ns depth d).1

/-- The action-list loop (InstrActions, Bucket) leaves on a decode error or an action of size 0. -/
theorem decodeActions_no_spin (d : Slice) (limit n0 : Nat) (xs0 : List V) : InstrAux.decodeActions d limit n0 xs0 ≠ .spin :=
  (decodeActions_ns d limit n0 xs0).1

/-- DecodeInstr: all four instruction kinds. -/
theorem DecodeInstr_no_spin (d : Slice) : DecodeInstr d ≠ .spin := (DecodeInstr_ns d).1

/-- The instruction loop of FlowMod refuses an instruction of size 0. -/
theorem FlowMod_unmarshal_no_spin (recv : V) (d : Slice) : FlowMod.unmarshal recv d ≠ .spin := (FlowMod_unmarshal_ns recv d).1

theorem FlowRemoved_unmarshal_no_spin (recv : V) (d : Slice) : FlowRemoved.unmarshal recv d ≠ .spin :=
  (FlowRemoved_unmarshal_ns recv d).1

/-- The ports loop of SwitchFeatures advances by 64 bytes per port. -/
theorem SwitchFeatures_unmarshal_no_spin (recv : V) (d : Slice) : SwitchFeatures.unmarshal recv d ≠ .spin :=
  (SwitchFeatures_unmarshal_ns recv d).1

/-- The TLV-map loops (TLVTableMod, TLVTableReply) advance by 8 bytes per entry. -/
theorem TLVTableMod_unmarshal_no_spin (recv : V) (d : Slice) : TLVTableMod.unmarshal recv d ≠ .spin :=
  (TLVTableMod_unmarshal_ns recv d).1
theorem TLVTableReply_unmarshal_no_spin (recv : V) (d : Slice) : TLVTableReply.unmarshal recv d ≠ .spin :=
  (TLVTableReply_unmarshal_ns recv d).1

/-- BundleAdd: the property loop advances by at least 8 bytes per property when the data is at most 65528 bytes long
    (it always is: the payload of an experimenter message is `data[16:Header.Length]`), given that the nested Parse
    does not spin. -/
theorem BundleAdd_unmarshalWith_no_spin (parseF : Slice → R V) (childLen : MsgLenF)
    (hparse : ∀ d : Slice, d.WF → d.buf.length ≤ 65535 → parseF d ≠ .spin)
    (recv : V) (d : Slice) (hlen : d.len ≤ 65528) (hcap : d.buf.length ≤ 65535) :
    BundleAdd.unmarshalWith parseF childLen recv d ≠ .spin :=
  (BundleAdd_unmarshalWith_ns parseF childLen (fun x h1 h2 => NS.of_ne (hparse x h1 h2)) recv d hlen hcap).1

/-- The instruction loop of a FlowStats record — the only loop of the parser that advances by an unchecked `Len()` —
    terminates when the record lies in a buffer of at most 65519 bytes (= 65535 − the 16 bytes of the multipart
    header) and the instructions start at offset 48 or later: every decoded action then has a stable `Len()` of at
    most capacity + 48, the cursor of an InstrActions stays below 65536, and `InstrActions.Len()` cannot wrap to 0. -/
theorem FlowStats_decodeInstrs_no_spin (d : Slice) (limit n0 : Nat) (is0 : List V) (hwf : d.WF)
    (hcap : d.buf.length ≤ 65519) (hn0 : 48 ≤ n0) : FlowStats.decodeInstrs d limit n0 is0 ≠ .spin :=
  (decodeInstrs_ns d limit n0 is0 hwf hcap hn0).1

/-- MultipartReply (decoded into `new(MultipartReply)` as Parse does): the record loop refuses a record of size 0 and
    runs below the 16-bit header length. -/
theorem MultipartReply_unmarshal_no_spin (d : Slice) (hwf : d.WF) (hcap : d.buf.length ≤ 65535) :
    MultipartReply.unmarshalWith anyLenM MultipartReply.zero d ≠ .spin :=
  (MultipartReply_unmarshalWith_ns flowStatsInstrLoopOK d hwf hcap).1

/-- PacketIn, given that the Ethernet decoder does not spin. -/
theorem PacketIn_unmarshal_no_spin (hEth : ∀ recv (d : Slice), d.WF → PEthernet.unmarshal recv d ≠ .spin)
    (recv : V) (d : Slice) (hwf : d.WF) : PacketIn.unmarshal recv d ≠ .spin :=
  (PacketIn_unmarshal_ns (fun r x h => NS.of_ne (hEth r x h)) recv d hwf).1

/-! ### Parse -/

/-- Parse does not loop for ever on a well-formed frame in a buffer of at most 65535 bytes. -/
theorem C07_parse_no_spin (hEth : ∀ recv (d : Slice), d.WF → PEthernet.unmarshal recv d ≠ .spin)
    (depth : Nat) (b : Slice) (hwf : b.WF) (hcap : b.cap ≤ 65535) : parse depth b ≠ .spin :=
  (parse_ns' (fun r d h => NS.of_ne (hEth r d h)) depth b ⟨hwf, hcap⟩).1

/-- Total-ness of Parse: a message or an error for every well-formed slice of a buffer of at most 65535 bytes and every
    nesting depth, given only that the Ethernet decoder terminates (hEth; it follows from `C08_Ethernet_total`).
    Full statement aimed at — false, see `C07_parse_not_total`: `∀ depth b, b.WF → Res.Total (parse depth b)`.
    Remaining hypotheses: hEth (not proved here by assignment), and the capacity bound (necessary: findings 1, 2). -/
theorem C07_parse_total_partial (hEth : ∀ recv (d : Slice), d.WF → PEthernet.unmarshal recv d ≠ .spin)
    (depth : Nat) (b : Slice) (hwf : b.WF) (hcap : b.cap ≤ 65535) : Res.Total (parse depth b) := by
  have hns := C07_parse_no_spin hEth depth b hwf hcap
  have hnp := C07_parse_no_panic depth b
  cases h : parse depth b with
  | ok v => exact Or.inl ⟨v, rfl⟩
  | err => exact Or.inr rfl
  | panic => exact absurd h hnp
  | spin => exact absurd h hns

/-- the hypotheses on the frame are satisfiable: an 8-byte echo request in an exact buffer -/
example : (Slice.exact [4, 2, 0, 8, 0, 0, 0, 1]).WF ∧ (Slice.exact [4, 2, 0, 8, 0, 0, 0, 1]).cap ≤ 65535 :=
  ⟨Slice.exact_wf _, by decide⟩

/-! ### the property is false without the bound -/

/-- COUNTEREXAMPLE (genuine defect).  Parse loops for ever on every 65544-byte Hello frame
    `ver 00 l1 l2 xid(4) | 00 01 e1 e2 | 65532 more bytes`: the version-bitmap element swallows the remaining 65536
    bytes as 16383 bitmaps, its `Len()` wraps to 0 and `Hello.UnmarshalBinary` stops advancing. -/
theorem C07_hello_frame_spins (ver l1 l2 x1 x2 x3 x4 e1 e2 : UInt8) (payload : Bytes) (hp : payload.length = 65532)
    (depth : Nat) :
    parse depth (Slice.exact ([ver, 0, l1, l2, x1, x2, x3, x4, 0, 1, e1, e2] ++ payload)) = .spin :=
  Hello_spin ver l1 l2 x1 x2 x3 x4 e1 e2 payload hp depth

/-- … for instance with an all-zero payload: `∀ depth b, b.WF → Res.Total (parse depth b)` is false. -/
theorem C07_parse_not_total : ¬ ∀ (depth : Nat) (b : Slice), b.WF → Res.Total (parse depth b) := by
  intro h
  have hs := C07_hello_frame_spins 4 0 8 0 0 0 0 0 8 (List.replicate 65532 0) List.length_replicate 0
  rcases h 0 _ (Slice.exact_wf _) with ⟨v, hv⟩ | he
  · rw [hs] at hv; cases hv
  · rw [hs] at he; cases he

end OFV.Props.C07
